import Sqljson.Lemmas.LexReject
/-!
# C04b — every malformed token is rejected: exact characterisation of what the lexer accepts

C04 (`Props/C04.lean`) proves that `Parse` never panics and rejects NUL / invalid UTF-8; C03b proves
that every permitted spelling of a token lexes to that token.  Missing was the converse — "nothing else
is accepted" — which DESIGN §6 left to enumeration.  This file states it, token kind by token kind, for
the model `Model/Lex.lean` of `path/parser/lex.go`, as *if and only if* theorems over ALL inputs (any
unread source, NUL and undecodable bytes included; any lexer state; any oracle instance unless a
hypothesis is named), and lifts the rejections to `Parse.parse`.  Lemma layer: `Lemmas/LexReject.lean`.

## What is proved

1. **Numbers** — `number_token_iff`, `number_error_iff`, `number_after_dot_iff`: `scanNumber` returns an
   integer / numeric token with text `t` and stops before the rune `y` iff `t` is a number text
   (`NumForm`: decimal digit groups with single underscores between digits and no leading zero; `0x` /
   `0o` / `0b` with a digit group of the base; fractions `d.`, `d.d`, `.d`; exponents) and `y` obeys
   the follower rule `Follower` ("trailing junk", `follower_simple`) — or, the one oddity of the Go
   lexer, `t` is a radix prefix with ANY digit/underscore run and `.` follows (`LooseRadix`: `0b2.`,
   `0x1_.`; the parser then rejects the text).  Otherwise: the error token.  `number_is_reference_reading`:
   the closed-form reading both sides are proved equal to.  `rejects_leading_zero`, `rejects_radix_underscore`,
   `rejects_radix_without_digits`, `rejects_bad_digit_group`, `rejects_trailing_junk`: rejection whatever
   follows.  `1.e5` is a number, `1..2` is two tokens (`1.` `.2`, a syntax error of the parser), `08` is
   rejected by the lexer.
2. **String literals, `$"…"`, escapes, bare identifiers** — `string_literal_iff` & co.: accepted iff the
   source is a body of plain characters and well-formed escapes (`\b \f \n \r \t \v`, `\xHH` ≠ 0, `\uHHHH` ≠ 0,
   `\u{H…}` 1–6 digits ≤ 10FFFF ≠ 0, surrogates only as a high–low pair of two `\u` escapes of either
   form, backslash + any other character) closed by `"` before the end of the input / a raw newline /
   NUL / a bad byte; `refused_iff`: the rejection normal form; `bad_escape_*`: every malformed escape.
   `ident_iff`: the same for bare identifiers (a backslash starts and continues an identifier).
3. **Comments** — `comment_loop_exact`: `/*` is closed by the FIRST `*/` provided no NUL / bad byte comes
   before it; otherwise error; `/*/` is not closed, `/**/` is.
4. **Single characters** — `first_character_decides`, `start_classes`, `operator_table`, `unk_iff`: which
   runes start which token; every other rune is the token `$unk` (NOT a lexer error) which no grammar
   rule accepts; the private-use runes U+E000…U+E032 are lexer errors.
5. **Lift to `Parse`** — `parse_rejects_malformed_number`, `parse_rejects_malformed_string_after_separator`,
   `rejects_unterminated_comment`, `rejects_other_char_first`, …: such a token as the first token, after any
   separator, gives `.err`; `accepted_has_no_lex_error`, `lex_error_anywhere_rejects`,
   `error_after_separator_anywhere_rejects`, `parse_rejects_malformed_number_anywhere`,
   `parse_rejects_malformed_string_anywhere`: the same at ANY token start the lexer reaches (an accepted
   input has no lexing error anywhere in its token stream).

## Not proved here

* maximality as a separate statement ("no longer prefix of the source is a number text") — it is implied
  by the follower rule but not stated;
* that a `LooseRadix` text which is not an integer text is refused by `strconv.ParseInt` in general
  (the parser step after the early return) — only the generic statement `parse_rejects_refused_integer_first`
  and the instances `0b2.`, `0x1_.`;
* a `$unk` token (a rune the grammar does not mention: `#`, `^`, `;`, a lone `=` …) is proved to reject the
  input when it is the first token or the first after the mode; at other positions only evaluated samples
  (`unk_in_other_positions_evaluated`) — it is not a lexer error, so the general-position theorems do not
  apply, and "the parser never shifts `$unk`" is not proved;
* the grammar level: that a sequence of well-formed tokens that is not a path is rejected is C03b's
  `comparisons_do_not_associate` and C04's `parse_total`, not this file.
-/

/-! # Numbers -/
namespace Sqljson
namespace C04b
open Parse Lex ParseLemmas RoundTrip Layout LexReject LexReject.Num

/-! ## (1) Numbers: what `scanNumber` accepts, exactly

The grammar (`LexReject.Num`): a *digit group* `Digs P` is a digit of the class `P` followed by digits
each optionally preceded by ONE underscore (`DigTail`); `IntPart` is `0` or a decimal digit group not
starting with `0`; `FracPart` is `.` and an optional decimal digit group; `ExpPart` is `e`/`E`, an
optional sign and a decimal digit group.  `NumForm k t`, by kind `k`:

| kind | texts | token |
|---|---|---|
| `zero` | `0` | `INT_P` |
| `dec` | digit group not starting with `0` — so `08`, `00`, `0_1` are NOT number texts | `INT_P` |
| `hex` | `0x`/`0X` + hexadecimal digit group (`0x_1`, `0x` are not) | `INT_P` |
| `lowRadix` | `0o`/`0O` + octal, `0b`/`0B` + binary digit group | `INT_P` |
| `frac` | `IntPart FracPart` (`1.`, `1.5`, `0.5`) or `.` + digit group (`.5`) | `NUMERIC_P` |
| `exp` | `IntPart ExpPart` or a `frac` text + `ExpPart` (`1e5`, `1.e5`, `.5E-3`) | `NUMERIC_P` |

`Follower o k y` is what may stand directly after a text of kind `k`; `LooseRadix` is the early return
(a radix prefix and any run of digit characters and underscores that starts with a digit is returned as
`INT_P` without the digit / separator checks when `.` follows directly — `0b2.`, `0x1_.`; the parser's
`newInteger` then rejects the text, `Parse(…)` reports "integer literal … is out of range"). -/

/-- **Numbers, exact characterisation.**  `scanNumber`, started on the decimal digit `c` in ANY state `s`
    (the unread source `s.rest` may contain NUL and undecodable bytes), returns a token `tok ≠ stopTok`
    with text `t`, look-ahead rune `y` and state `s'` IF AND ONLY IF `s.rest = chs w ++ R` where
    `t = c :: w` is a number text of some kind `k` whose token is `tok` and the rune after it
    (`peekR R`: `none` at the end of the input and for NUL / bad bytes) satisfies the follower rule of
    `k` — or `t` is a loose radix text and `.` follows —, `y` is that rune and `s'` the state after
    reading it. -/
theorem number_token_iff (o : Oracles) (c : Char) (hc : isDecimal c = true) (s : LState) (tok : Tok) (t : List Char)
    (y : Option Char) (s' : LState) (hne : tok ≠ .stop) :
    scanNumber o c false [] s = ⟨tok, t, y, s'⟩ ↔
      ∃ w R, s.rest = chs w ++ R ∧ t = c :: w ∧ y = peekR R ∧ s' = afterR s R ∧
        ((∃ k, NumForm k t ∧ tok = tokOf k ∧ Follower o k (peekR R)) ∨
         (tok = .int ∧ LooseRadix t ∧ peekR R = some '.')) := by
  rw [scanNumber_accepts_iff o c hc s tok t y s' hne]
  constructor
  · rintro ⟨R, ⟨w, h1, h2, h3⟩, h4, h5⟩; exact ⟨w, R, h1, h2, h4, h5, h3⟩
  · rintro ⟨w, R, h1, h2, h4, h5, h3⟩; exact ⟨R, ⟨w, h1, h2, h3⟩, h4, h5⟩

/-- **… otherwise the error token.**  In every other case `scanNumber` returns `stopTok` with empty
    text, look-ahead `stopTok`, and an error on record. -/
theorem number_error_iff (o : Oracles) (c : Char) (hc : isDecimal c = true) (s : LState) :
    ((scanNumber o c false [] s).tok = .stop ↔ ¬ ∃ tok t R, NumAccept o c s.rest tok t R) ∧
    ((scanNumber o c false [] s).tok = .stop →
      (scanNumber o c false [] s).text = [] ∧ (scanNumber o c false [] s).ch = none ∧
      (scanNumber o c false [] s).st.err = true) := by
  refine ⟨scanNumber_rejects_iff o c hc s, fun h => ?_⟩
  have := scanNumber_rejected o c hc s ((scanNumber_rejects_iff o c hc s).mp h)
  exact ⟨this.2.1, this.2.2.1, this.2.2.2⟩

/-- the same when the number is entered from `.` followed by the digit `d` (`Lex` has read both; the
    text starts with `.`; the kinds are `frac` and `exp`) -/
theorem number_after_dot_iff (o : Oracles) (d : Char) (hd : isDecimal d = true) (s : LState) (tok : Tok)
    (t : List Char) (y : Option Char) (s' : LState) (hne : tok ≠ .stop) :
    scanNumber o d true ['.'] s = ⟨tok, t, y, s'⟩ ↔
      ∃ w R, s.rest = chs w ++ R ∧ t = '.' :: d :: w ∧ y = peekR R ∧ s' = afterR s R ∧
        ∃ k, NumForm k t ∧ tok = tokOf k ∧ Follower o k (peekR R) := by
  rw [scanNumber_dot_accepts_iff o d hd s tok t y s' hne]
  constructor
  · rintro ⟨R, ⟨w, h1, h2, h3⟩, h4, h5⟩; exact ⟨w, R, h1, h2, h4, h5, h3⟩
  · rintro ⟨w, R, h1, h2, h4, h5, h3⟩; exact ⟨R, ⟨w, h1, h2, h3⟩, h4, h5⟩

/-- the two characterisations are linked by a closed-form *reference reading* `numRef o c X` of the
    source (a function that cuts the maximal runs of digits and underscores and applies the checks):
    `scanNumber` is that function (`Agrees`), for every state and source -/
theorem number_is_reference_reading (o : Oracles) (c : Char) (hc : isDecimal c = true) (s : LState) :
    Agrees s (scanNumber o c false [] s) (numRef o c s.rest) ∧
    (∀ tok t R, numRef o c s.rest = some (tok, t, R) ↔ NumAccept o c s.rest tok t R) :=
  ⟨scanNumber_ref o c hc s, fun tok t R => numRef_some o c hc s.rest tok t R⟩

/-- at a token start: `Lex` hands a decimal digit to `scanNumber` (digits are not XID_Start), and `.`
    followed by a decimal digit too; `.` followed by anything else is the token `.` -/
theorem number_token_start (o : Oracles) (hdot : o.xidStart '.' = false) (f : Nat) (s : LState) :
    (∀ c, isDecimal c = true → o.xidStart c = false → lexFrom o (f + 1) (some c) s = scanNumber o c false [] s) ∧
    (∀ d, isDecimal d = true → peekR s.rest = some d →
        lexFrom o (f + 1) (some '.') s = scanNumber o d true ['.'] (afterR s s.rest)) ∧
    (isDecimalR (peekR s.rest) = false →
        lexFrom o (f + 1) (some '.') s = ⟨.dot, ['.'], peekR s.rest, afterR s s.rest⟩) :=
  ⟨fun c hc hx => lexFrom_digit o c hc hx f s, fun d hd hp => lexFrom_dot_digit o d hd hdot f s hp,
   fun h => lexFrom_dot_other o hdot f s h⟩

/-- when the lower-case letters are identifier starts (true of `xid.Start`), the follower rule is
    uniform: not a digit of the class being read, not an identifier start — as it is, and (unless an
    exponent was read) after `| 0x20` —, and not `.` after an integer -/
theorem follower_simple (o : Oracles) (hl : ∀ c, isLow c = true → o.xidStart c = true) (k : NumKind)
    (y : Option Char) :
    Follower o k y ↔
      (if k = .hex then isHexR y = false else isDecimalR y = false) ∧ isIdentStart o y = false ∧
      (k ≠ .exp → isIdentStart o (y.map lowerBit) = false) ∧
      ((k = .zero ∨ k = .dec ∨ k = .hex ∨ k = .lowRadix) → y ≠ some '.') := by
  have hlow : ∀ (a : Char), isLow a = true → isIdentStart o (y.map lowerBit) = false → y.map lowerBit ≠ some a := by
    intro a ha hj h
    rw [h] at hj
    simp [isIdentStart, hl a ha] at hj
  cases k <;> simp only [Follower, reduceCtorEq, if_false, if_true, ne_eq, not_true_eq_false, not_false_eq_true,
    false_implies, true_implies, or_true, true_or, or_false, false_or, and_true, or_self]
  · -- zero
    constructor
    · rintro ⟨a, b, _, d, e, _⟩; exact ⟨a, b, d, e⟩
    · rintro ⟨a, b, d, e⟩
      exact ⟨a, b, hlow 'e' (by decide) d, d, e, hlow 'x' (by decide) d, hlow 'o' (by decide) d, hlow 'b' (by decide) d⟩
  · constructor
    · rintro ⟨a, b, _, d, e⟩; exact ⟨a, b, d, e⟩
    · rintro ⟨a, b, d, e⟩; exact ⟨a, b, hlow 'e' (by decide) d, d, e⟩
  · constructor
    · rintro ⟨a, b, _, d, e⟩; exact ⟨a, b, d, e⟩
    · rintro ⟨a, b, d, e⟩; exact ⟨a, b, hlow 'e' (by decide) d, d, e⟩
  · constructor
    · rintro ⟨a, b, _, d⟩; exact ⟨a, b, d⟩
    · rintro ⟨a, b, d⟩; exact ⟨a, b, hlow 'e' (by decide) d, d⟩

/-! ### malformed forms, for EVERY continuation of the source -/

/-- `0` directly followed by a decimal digit or `_` — `00`, `08`, `0_1` —: error token, whatever follows -/
theorem rejects_leading_zero (o : Oracles) (s : LState) (y : Char) (hy : y = '_' ∨ isDecimal y = true)
    (R : List Src) (hs : s.rest = .ch y :: R) : Rejects (scanNumber o '0' false [] s) := by
  apply scanNumber_rejected_of_ref o '0' (by decide) s
  apply reject_zero_then_digit
  have hy0 : y.toNat ≠ 0 := by
    rcases hy with h | h
    · subst h; decide
    · exact (isDecimal_facts y h).1
  rw [hs, Num.peekR_cons_ch y R hy0]
  rcases hy with h | h
  · subst h; decide
  · simp [runChR, runCh, h]

/-- a radix prefix directly followed by `_` — `0x_1`, `0b_1` —: error token, whatever follows -/
theorem rejects_radix_underscore (o : Oracles) (s : LState) (x : Char)
    (hx : x = 'x' ∨ x = 'X' ∨ x = 'o' ∨ x = 'O' ∨ x = 'b' ∨ x = 'B') (R : List Src)
    (hs : s.rest = .ch x :: .ch '_' :: R) : Rejects (scanNumber o '0' false [] s) := by
  apply scanNumber_rejected_of_ref o '0' (by decide) s
  have hx0 : x.toNat ≠ 0 := by rcases hx with h | h | h | h | h | h <;> subst h <;> decide
  have hl : lowerBit x = 'x' ∨ lowerBit x = 'o' ∨ lowerBit x = 'b' := by
    rcases hx with h | h | h | h | h | h <;> subst h <;> decide
  exact reject_radix_underscore o s.rest x (by rw [hs]; exact Num.peekR_cons_ch x _ hx0) hl
    (by rw [hs]; exact Num.peekR_cons_ch '_' R (by decide))

/-- a radix prefix not followed by a digit of its class or `_` — `0x`, `0b`, `0xg`, `0o.` —: error
    token (`y` is the rune after the prefix letter: `none` at the end of the input) -/
theorem rejects_radix_without_digits (o : Oracles) (s : LState) (x : Char)
    (hx : x = 'x' ∨ x = 'X' ∨ x = 'o' ∨ x = 'O' ∨ x = 'b' ∨ x = 'B') (R : List Src)
    (hs : s.rest = .ch x :: R) (hy : runChR (decide (lowerBit x = 'x')) (peekR R) = false) :
    Rejects (scanNumber o '0' false [] s) := by
  apply scanNumber_rejected_of_ref o '0' (by decide) s
  have hx0 : x.toNat ≠ 0 := by rcases hx with h | h | h | h | h | h <;> subst h <;> decide
  have hl : lowerBit x = 'x' ∨ lowerBit x = 'o' ∨ lowerBit x = 'b' := by
    rcases hx with h | h | h | h | h | h <;> subst h <;> decide
  exact reject_radix_no_digit o s.rest x (by rw [hs]; exact Num.peekR_cons_ch x _ hx0) hl (by rw [hs]; exact hy)

/-- after a non-zero first digit, the longest run of digits and underscores must form a digit group
    with it — `1__0`, `1_`, `12_`, `1_.5`, `1_e5` —: otherwise the error token, whatever follows -/
theorem rejects_bad_digit_group (o : Oracles) (c : Char) (hc : isDecimal c = true) (h0 : c ≠ '0') (s : LState)
    (hbad : ¬ Digs DecDigit (c :: (takeRun false s.rest).1)) : Rejects (scanNumber o c false [] s) :=
  scanNumber_rejected_of_ref o c hc s (reject_bad_int_group o c hc h0 s.rest hbad)

/-- "trailing junk after numeric literal": an identifier start directly after the digits — `1a`, `12x` -/
theorem rejects_trailing_junk (o : Oracles) (c : Char) (hc : isDecimal c = true) (h0 : c ≠ '0') (s : LState)
    (hdot : peekR (takeRun false s.rest).2 ≠ some '.')
    (hnotexp : (peekR (takeRun false s.rest).2).map lowerBit ≠ some 'e')
    (hjunk : isIdentStart o (peekR (takeRun false s.rest).2) = true ∨
      isIdentStart o ((peekR (takeRun false s.rest).2).map lowerBit) = true) :
    Rejects (scanNumber o c false [] s) :=
  scanNumber_rejected_of_ref o c hc s (reject_junk_after_int o c h0 s.rest hdot hnotexp hjunk)

/-! ### the lift to `Parse` -/

/-- **a malformed number as the first token — after any separator (blanks, newlines, closed comments) —
    makes `Parse` return an error** (`numRef o c X = none` ⇔ no prefix of the source is acceptable) -/
theorem parse_rejects_malformed_number (o : Oracles) (ok : RoundTrip.OrOK o) (bytes : List UInt8)
    {sep : List Char} (hs : Sep sep) (c : Char) (hc : isDecimal c = true) (X : List Src)
    (hd : decodeAll bytes = chs sep ++ .ch c :: X) (hbad : ¬ ∃ tok t R, NumAccept o c X tok t R) :
    parse o bytes = .err :=
  parse_err_bad_number o (ok.punctS '/' (by decide)) bytes hs c hc (ok.digitS c hc) X hd
    ((numRef_none_iff o c hc X).mpr hbad)

/-- the same for a text `sep ++ digit :: l` -/
theorem parse_rejects_number_text (o : Oracles) (ok : RoundTrip.OrOK o) {sep : List Char} (hs : Sep sep) (c : Char)
    (hc : isDecimal c = true) (l : List Char) (hbad : numRef o c (chs l) = none) :
    parse o (utf8 (sep ++ c :: l)) = .err := by
  refine parse_err_bad_number o (ok.punctS '/' (by decide)) _ hs c hc (ok.digitS c hc) (chs l) ?_ hbad
  rw [decodeAll_utf8]; simp [chs]

/-- … and at any later token start the lexer reaches -/
theorem parse_rejects_malformed_number_anywhere (o : Oracles) (ok : RoundTrip.OrOK o) (bytes : List UInt8) (k : Nat)
    {sep : List Char} (hs : Sep sep) (c : Char) (hc : isDecimal c = true) (X : List Src)
    (hst : Misc.Standing (Misc.lexIter o k (LState.init bytes)) (chs sep ++ .ch c :: X))
    (hbad : ¬ ∃ tok t R, NumAccept o c X tok t R) : parse o bytes = .err :=
  parse_err_bad_number_at o (ok.punctS '/' (by decide)) bytes k hs c hc (ok.digitS c hc) X hst
    ((numRef_none_iff o c hc X).mpr hbad)

/-! ### the listed forms

Each is decided by the theorems for EVERY oracle: the reference reading of the closed text is computed
(`rfl` — it never consults an oracle on these inputs, or `simp` with the one oracle fact named), and
`parse_rejects_number_text` / `number_is_reference_reading` transport the answer to `Parse` / `scanNumber`. -/

/-- `1__0`: two underscores — rejected, also in front of anything (`rejects_bad_digit_group`) -/
example (o : Oracles) (ok : RoundTrip.OrOK o) : parse o (utf8 "1__0".toList) = .err :=
  parse_rejects_number_text o ok Sep.nil '1' (by decide) "__0".toList rfl
/-- `1_`: trailing underscore -/
example (o : Oracles) (ok : RoundTrip.OrOK o) : parse o (utf8 "1_".toList) = .err :=
  parse_rejects_number_text o ok Sep.nil '1' (by decide) "_".toList rfl
/-- `0x`: radix prefix without digits -/
example (o : Oracles) (ok : RoundTrip.OrOK o) : parse o (utf8 "0x".toList) = .err :=
  parse_rejects_number_text o ok Sep.nil '0' (by decide) "x".toList rfl
/-- `0x_1`: underscore directly after the prefix -/
example (o : Oracles) (ok : RoundTrip.OrOK o) : parse o (utf8 "0x_1".toList) = .err :=
  parse_rejects_number_text o ok Sep.nil '0' (by decide) "x_1".toList rfl
/-- `1e`, `1e+`: exponent without digits -/
example (o : Oracles) (ok : RoundTrip.OrOK o) : parse o (utf8 "1e".toList) = .err :=
  parse_rejects_number_text o ok Sep.nil '1' (by decide) "e".toList rfl
example (o : Oracles) (ok : RoundTrip.OrOK o) : parse o (utf8 "1e+".toList) = .err :=
  parse_rejects_number_text o ok Sep.nil '1' (by decide) "e+".toList rfl
/-- `0b2`: digit not of the base (the check is made at the end of the literal) -/
example (o : Oracles) (ok : RoundTrip.OrOK o) : parse o (utf8 "0b2".toList) = .err :=
  parse_rejects_number_text o ok Sep.nil '0' (by decide) "b2".toList rfl
/-- `08`: a leading `0` may not be followed by a digit ("trailing junk after numeric literal") -/
example (o : Oracles) (ok : RoundTrip.OrOK o) : parse o (utf8 "08".toList) = .err :=
  parse_rejects_number_text o ok Sep.nil '0' (by decide) "8".toList rfl
/-- `1._5`, `1_.5`, `1e_5`, `1e5_`: an underscore next to `.`, `e`, or at the end -/
example (o : Oracles) (ok : RoundTrip.OrOK o) :
    parse o (utf8 "1._5".toList) = .err ∧ parse o (utf8 "1_.5".toList) = .err ∧
    parse o (utf8 "1e_5".toList) = .err ∧ parse o (utf8 "1e5_".toList) = .err :=
  ⟨parse_rejects_number_text o ok Sep.nil '1' (by decide) "._5".toList rfl,
   parse_rejects_number_text o ok Sep.nil '1' (by decide) "_.5".toList rfl,
   parse_rejects_number_text o ok Sep.nil '1' (by decide) "e_5".toList rfl,
   parse_rejects_number_text o ok Sep.nil '1' (by decide) "e5_".toList rfl⟩
/-- `0o7e1`, `0b1e1`: an exponent needs a decimal mantissa -/
example (o : Oracles) (ok : RoundTrip.OrOK o) :
    parse o (utf8 "0o7e1".toList) = .err ∧ parse o (utf8 "0b1e1".toList) = .err :=
  ⟨parse_rejects_number_text o ok Sep.nil '0' (by decide) "o7e1".toList rfl,
   parse_rejects_number_text o ok Sep.nil '0' (by decide) "b1e1".toList rfl⟩
/-- `1a`, `0x1g`: trailing junk (`a`, `g` are identifier starts) — also after a comment and a blank -/
example (o : Oracles) (ok : RoundTrip.OrOK o) : parse o (utf8 "1a".toList) = .err :=
  parse_rejects_number_text o ok Sep.nil '1' (by decide) "a".toList (by
    have := ok.lowS 'a' (by decide)
    simp [numRef, refDecimal, refTail, refExp, takeRun, runCh, isDecimal, peekR, srcChar, chs, lowerBit,
      isIdentStart, this])
example (o : Oracles) (ok : RoundTrip.OrOK o) :   -- the text `/* c */ 0x1g`
    parse o (utf8 ('/' :: '*' :: ([' ', 'c', ' '] ++ '*' :: '/' :: [' ']) ++ '0' :: ['x', '1', 'g'])) = .err :=
  parse_rejects_number_text o ok
    (Sep.comment (body := [' ', 'c', ' '])
      (NoNul.cons (by decide) (NoNul.cons (by decide) (NoNul.cons (by decide) NoNul.nil))) (by decide)
      (Sep.ws (by decide) Sep.nil))
    '0' (by decide) ['x', '1', 'g'] (by
    have := ok.lowS 'g' (by decide)
    simp [numRef, refZero, refRadix, refTail, refExp, takeRun, runCh, isHex, isDecimal, peekR, srcChar, chs, lowerBit,
      isIdentStart, hasDigit, this])

/-- `1.e5` IS a number (`1.` and the exponent `e5`): token `NUMERIC_P`, text `1.e5` -/
example (o : Oracles) (s : LState) (hs : s.rest = chs ".e5".toList) :
    scanNumber o '1' false [] s = ⟨.numeric, "1.e5".toList, none, afterR s []⟩ := by
  have := scanNumber_ref o '1' (by decide) s
  rw [hs, show numRef o '1' (chs ".e5".toList) = some (.numeric, "1.e5".toList, []) from rfl] at this
  exact this
/-- `1..2` is NOT rejected by the lexer: it is the two tokens `1.` and `.2` (the first `.` ends the
    number `1.`, which may be followed by `.`); the parser then reports a syntax error.  Derived from
    `number_token_iff`, right to left: `1.` is a `frac` text and `.` satisfies its follower rule. -/
example (o : Oracles) (hdot : o.xidStart '.' = false) (s : LState) (hs : s.rest = chs ['.', '.', '2']) :
    scanNumber o '1' false [] s = ⟨.numeric, ['1', '.'], some '.', withRest s (chs ['2'])⟩ := by
  rw [number_token_iff o '1' (by decide) s .numeric _ _ _ (by decide)]
  refine ⟨['.'], chs ['.', '2'], hs, rfl, rfl, ?_, Or.inl ⟨.frac, ?_, rfl, ?_⟩⟩
  · exact (afterR_cons_ch s '.' _ (by decide)).symm
  · exact NumForm.frac (i := ['1']) (f := ['.'])
      (Or.inr ⟨⟨'1', [], rfl, (show isDecimal '1' = true from by decide), DigTail.nil⟩, by decide⟩)
      ⟨[], rfl, Or.inl rfl⟩
  · have h1 : isIdentStart o (some '.') = false := by simp [isIdentStart, hdot]
    rw [show peekR (chs ['.', '2']) = some '.' from rfl]
    exact ⟨rfl, h1, by decide, by simpa [show lowerBit '.' = '.' from by decide] using h1⟩
/-- `0b2.`: the early return — the LEXER accepts `0b2` as an integer token because `.` follows … -/
example (o : Oracles) (s : LState) (hs : s.rest = chs "b2.".toList) :
    scanNumber o '0' false [] s = ⟨.int, "0b2".toList, some '.', withRest s []⟩ := by
  have := scanNumber_ref o '0' (by decide) s
  rw [hs, show numRef o '0' (chs "b2.".toList) = some (.int, "0b2".toList, chs ".".toList) from rfl] at this
  exact this
/-- … although `0b2` is not a number text: `2` is no binary digit -/
example : ¬ NumberText ['0', 'b', '2'] := by
  rintro ⟨k, h⟩
  generalize ht : ['0', 'b', '2'] = t at h
  cases h with
  | zero => cases ht
  | dec _ hh => rw [← ht] at hh; exact hh rfl
  | hex hx _ => injection ht with _ ht; injection ht with h1 _; rcases hx with h | h <;> rw [h] at h1 <;> cases h1
  | oct hx _ => injection ht with _ ht; injection ht with h1 _; rcases hx with h | h <;> rw [h] at h1 <;> cases h1
  | bin _ hds =>
    injection ht with _ ht; injection ht with _ h2
    obtain ⟨d, r, h, hd, _⟩ := hds
    rw [h] at h2; injection h2 with h3 _
    rw [← h3] at hd
    exact absurd hd.2 (by decide)
  | frac _ hf =>
    obtain ⟨ds, rfl, _⟩ := hf
    have : '.' ∈ ['0', 'b', '2'] := by rw [ht]; simp
    revert this; decide
  | dotFrac _ => cases ht
  | expInt _ he =>
    obtain ⟨x, sg, ds, rfl, hx, _⟩ := he
    have : x ∈ ['0', 'b', '2'] := by rw [ht]; simp
    rcases hx with rfl | rfl <;> (revert this; decide)
  | expFrac _ he =>
    obtain ⟨x, sg, ds, rfl, hx, _⟩ := he
    have : x ∈ ['0', 'b', '2'] := by rw [ht]; simp
    rcases hx with rfl | rfl <;> (revert this; decide)

/-- **after the early return**: if the first token is an integer literal whose text
    `strconv.ParseInt(text, 0, 64)` refuses, `Parse` returns an error (`newInteger` records
    "integer literal … is out of range") -/
theorem parse_rejects_refused_integer_first (o : Oracles) (bytes : List UInt8) (t : List Char) (lx' : LState)
    (hlex : Lex.lex o (LState.init bytes) = (.int, t, lx')) (ht : parseInt0 t = none) : parse o bytes = .err :=
  parse_err_of_refused_int_first o bytes t lx' hlex ht

/-- `0b2.`, `0x1_.`, `0o1__7.`: through the lexer (early return), refused by the parser -/
example (o : Oracles) (ok : RoundTrip.OrOK o) :
    parse o (utf8 "0b2.".toList) = .err ∧ parse o (utf8 "0x1_.".toList) = .err ∧
    parse o (utf8 "0o1__7.".toList) = .err :=
  ⟨parse_err_loose_radix_first o (ok.digitS '0' (by decide)) "b2.".toList "0b2".toList (chs ".".toList) rfl (by decide),
   parse_err_loose_radix_first o (ok.digitS '0' (by decide)) "x1_.".toList "0x1_".toList (chs ".".toList) rfl (by decide),
   parse_err_loose_radix_first o (ok.digitS '0' (by decide)) "o1__7.".toList "0o1__7".toList (chs ".".toList) rfl
     (by decide)⟩

/-! kernel-evaluated cross-checks of the same inputs on the ASCII oracle instance (`run`: parse, then print) -/
theorem number_samples_evaluated :
    run "1__0" = "ERR" ∧ run "1_" = "ERR" ∧ run "0x" = "ERR" ∧ run "0x_1" = "ERR" ∧ run "1e" = "ERR" ∧
    run "1e+" = "ERR" ∧ run "0b2" = "ERR" ∧ run "08" = "ERR" ∧ run "1.e5" = "100000" ∧ run "1..2" = "ERR" ∧
    run "1a" = "ERR" ∧ run "0x1g" = "ERR" ∧ run "0b2." = "ERR" ∧ run "0x1_.type()" = "ERR" ∧
    run "0x1.type()" = "(1).type()" ∧ run "1_0" = "10" ∧ run "0X1F" = "31" ∧ run ".5e-1" = "0.05" := by
  decide +kernel

#print axioms number_token_iff
#print axioms number_error_iff
#print axioms number_after_dot_iff
#print axioms number_is_reference_reading
#print axioms number_token_start
#print axioms follower_simple
#print axioms rejects_leading_zero
#print axioms rejects_radix_underscore
#print axioms rejects_radix_without_digits
#print axioms rejects_bad_digit_group
#print axioms rejects_trailing_junk
#print axioms parse_rejects_malformed_number
#print axioms parse_rejects_number_text
#print axioms parse_rejects_malformed_number_anywhere
#print axioms parse_rejects_refused_integer_first
#print axioms number_samples_evaluated

end C04b
end Sqljson

/-! # Strings, variables, escapes, identifiers -/
namespace Sqljson
namespace C04b
open Parse Lex ParseLemmas RoundTrip Layout LexReject LexReject.Str
set_option linter.unusedVariables false

/-!
# C04b (strings) — what the lexer accepts as a string literal, a `$"…"` variable, an escape, a bare
# identifier: exactly the grammar, for every input

The grammar is `Layout.SpellsEsc` / `SpellsChar` / `SpellsStr` (and `SpellsIdTail` for identifiers):
the soundness calculus of C03b turns out to be *complete* – it describes everything the lexer accepts.

In plain words, between the double quotes:
* a raw character: anything except `"`, `\`, a line feed, NUL (other control characters are accepted);
* `\b \f \n \r \t \v`: the usual control characters;
* `\xHH`: exactly two hexadecimal digits (either case), value not 0;
* `\uHHHH`: exactly four hexadecimal digits, value not 0;
* `\u{H…}`: one to six hexadecimal digits and `}`, value not 0 and at most 10FFFF;
* a value in D800–DFFF (from either `\u` form) only as a pair: a high surrogate (D800–DBFF) directly
  followed by `\u…` (either form) denoting a low surrogate (DC00–DFFF);
* `\` and any other character except NUL (`\"`, `\\`, `\/`, `\q`, `\` + line feed, `\é`, …): that character.
Everything else – end of input / line feed / NUL / undecodable byte before the closing quote, and a
backslash that does not start one of the escapes above – is refused: token `stopTok`, no text, an error.

The statements are about an arbitrary lexer state `s` and an arbitrary unread source (`List Src`:
characters including NUL, and undecodable bytes), written `withRest s X`; `peekR R` / `afterR s R` are
what `next` returns / leaves on the source `R`.

Findings (model against `path/parser`, Go run on the inputs listed at the end): none – the model and
the Go lexer agree on all of them.
-/

/-! ## (a) the grammar is the one of C03b; it is unambiguous -/

/-- one escape can be read in only one way: the escapes are prefix-free -/
theorem escape_unambiguous {es es' : List Char} {c c' : Char} {Y Y' : List Src} (h : SpellsEsc es c)
    (h' : SpellsEsc es' c') (e : chs es ++ Y = chs es' ++ Y') : es = es' ∧ c = c' ∧ Y = Y' :=
  esc_unique h h' e

/-! ## (b) the main theorem -/

/-- **accepted**: a well-formed body and the closing quote are read as the token, with the value the
    body denotes; the lexer stops on the position after the closing quote.  Any state, any tail. -/
theorem string_literal_accepted (ret : Tok) (s : LState) {body val : List Char} (h : SpellsStr body val)
    (R : List Src) : scanString ret (withRest s (chs body ++ .ch '"' :: R)) = ⟨ret, val, peekR R, afterR s R⟩ :=
  scanString_ok ret s h R

/-- **rejected**: on every other source `scanString` answers `stopTok` with no text and records an error -/
theorem string_literal_rejected (ret : Tok) (s : LState) (X : List Src)
    (h : ¬ ∃ body val R, X = chs body ++ .ch '"' :: R ∧ SpellsStr body val) :
    (scanString ret (withRest s X)).tok = .stop ∧ (scanString ret (withRest s X)).text = [] ∧
      (scanString ret (withRest s X)).st.err = true :=
  scanString_bad ret s h

/-- **`scanString` returns a token iff the source is a well-formed body followed by `"`.**

    Remark on `s.err = false`: the hypothesis is *not* needed here.  `scanEscape` empties the buffer
    when the rune after the escape is `stopTok` and an error is on record – but in a string `stopTok`
    ends the literal with an error anyway, so the flag has no influence on the token or its text.
    (It does matter in bare identifiers: `ident_iff`.) -/
theorem string_literal_iff (ret : Tok) (hret : ret ≠ .stop) (s : LState) :
    (scanString ret s).tok ≠ .stop ↔ ∃ body val R, s.rest = chs body ++ .ch '"' :: R ∧ SpellsStr body val :=
  scanString_iff ret hret s

/-- the two outcomes, exhaustively -/
theorem string_literal_exact (ret : Tok) (s : LState) :
    (∃ body val R, s.rest = chs body ++ .ch '"' :: R ∧ SpellsStr body val ∧
        scanString ret s = ⟨ret, val, peekR R, afterR s R⟩) ∨
    ((¬ ∃ body val R, s.rest = chs body ++ .ch '"' :: R ∧ SpellsStr body val) ∧
        (scanString ret s).tok = .stop ∧ (scanString ret s).text = [] ∧ (scanString ret s).st.err = true) := by
  by_cases h : Closed s.rest
  · obtain ⟨body, val, R, hX, hb⟩ := h
    refine Or.inl ⟨body, val, R, hX, hb, ?_⟩
    have : s = withRest s (chs body ++ .ch '"' :: R) := by rw [← hX]; rfl
    rw [this]; exact scanString_ok ret s hb R
  · exact Or.inr ⟨h, scanString_bad ret s (X := s.rest) h⟩

/-- at the level of `Lex`, on `"` (`"` is not an identifier start): accepted … -/
theorem lex_string_accepted (o : Oracles) (hq : o.xidStart '"' = false) (f : Nat) (s : LState)
    {body val : List Char} (h : SpellsStr body val) (R : List Src) :
    lexFrom o (f + 1) (some '"') (withRest s (chs body ++ .ch '"' :: R)) = ⟨.string, val, peekR R, afterR s R⟩ := by
  rw [lexFrom_quote o hq]; exact scanString_ok .string s h R

/-- … iff well-formed -/
theorem lex_string_iff (o : Oracles) (hq : o.xidStart '"' = false) (f : Nat) (s : LState) :
    (lexFrom o (f + 1) (some '"') s).tok ≠ .stop ↔ ∃ body val R, s.rest = chs body ++ .ch '"' :: R ∧ SpellsStr body val := by
  rw [lexFrom_quote o hq]; exact scanString_iff .string (by decide) s

theorem lex_string_rejected (o : Oracles) (hq : o.xidStart '"' = false) (f : Nat) (s : LState) (X : List Src)
    (h : ¬ ∃ body val R, X = chs body ++ .ch '"' :: R ∧ SpellsStr body val) :
    Rej (lexFrom o (f + 1) (some '"') (withRest s X)) := by
  rw [lexFrom_quote o hq]; exact scanString_bad .string s h

/-- `$"…"` (`$` is not an identifier start): the same grammar, token `VARIABLE_P` -/
theorem lex_variable_accepted (o : Oracles) (hd : o.xidStart '$' = false) (f : Nat) (s : LState)
    {body val : List Char} (h : SpellsStr body val) (R : List Src) :
    lexFrom o (f + 1) (some '$') (withRest s (.ch '"' :: (chs body ++ .ch '"' :: R)))
      = ⟨.variable, val, peekR R, afterR s R⟩ := by
  rw [lexFrom_dollar_quote o hd]; exact scanString_ok .variable s h R

theorem lex_variable_iff (o : Oracles) (hd : o.xidStart '$' = false) (f : Nat) (s : LState) (X : List Src) :
    (lexFrom o (f + 1) (some '$') (withRest s (.ch '"' :: X))).tok ≠ .stop ↔
      ∃ body val R, X = chs body ++ .ch '"' :: R ∧ SpellsStr body val := by
  rw [lexFrom_dollar_quote o hd]; exact scanString_iff .variable (by decide) (withRest s X)

theorem lex_variable_rejected (o : Oracles) (hd : o.xidStart '$' = false) (f : Nat) (s : LState) (X : List Src)
    (h : ¬ ∃ body val R, X = chs body ++ .ch '"' :: R ∧ SpellsStr body val) :
    Rej (lexFrom o (f + 1) (some '$') (withRest s (.ch '"' :: X))) := by
  rw [lexFrom_dollar_quote o hd]; exact scanString_bad .variable s h

/-! ## (c) every malformed form is refused – corollaries of the theorem

`Stuck Y`: the source `Y` is at its end, or starts with an undecodable byte, NUL, a line feed, or a
backslash that does not start an escape (`NoEsc`).  A literal is refused **iff** it reaches such a
position after a well-formed piece of body (`refused_iff`). -/

/-- the general corollary: a well-formed piece of body `pre`, then a position where the loop is stuck -/
theorem string_refused_at (ret : Tok) (s : LState) {pre v : List Char} (hpre : SpellsStr pre v) {Y : List Src}
    (hY : Stuck Y) : Rej (scanString ret (withRest s (chs pre ++ Y))) :=
  scanString_bad ret s (by rw [closed_prefix_iff hpre]; exact not_closed_stuck hY)

/-- … and that is the only way to be refused -/
theorem refused_iff (ret : Tok) (hret : ret ≠ .stop) (s : LState) (X : List Src) :
    Rej (scanString ret (withRest s X)) ↔ ∃ pre v Y, X = chs pre ++ Y ∧ SpellsStr pre v ∧ Stuck Y := by
  rw [← not_closed_iff]
  constructor
  · intro h hc
    exact (scanString_iff ret hret (withRest s X)).mpr hc h.1
  · exact fun h => scanString_bad ret s h

/-- **unterminated**: the input ends before the closing quote -/
theorem refuses_unterminated (ret : Tok) (s : LState) {pre v : List Char} (hpre : SpellsStr pre v) :
    Rej (scanString ret (withRest s (chs pre))) := by
  have := string_refused_at ret s hpre (Y := []) (Or.inl rfl)
  simpa using this

/-- **a raw line feed** inside the literal ("literal not terminated") -/
theorem refuses_newline (ret : Tok) (s : LState) {pre v : List Char} (hpre : SpellsStr pre v) (Z : List Src) :
    Rej (scanString ret (withRest s (chs pre ++ .ch '\n' :: Z))) :=
  string_refused_at ret s hpre (Or.inr (Or.inr (Or.inl ⟨'\n', Z, rfl, Or.inr rfl⟩)))

/-- **NUL** inside the literal -/
theorem refuses_nul (ret : Tok) (s : LState) {pre v : List Char} (hpre : SpellsStr pre v) (c : Char)
    (hc : c.toNat = 0) (Z : List Src) : Rej (scanString ret (withRest s (chs pre ++ .ch c :: Z))) :=
  string_refused_at ret s hpre (Or.inr (Or.inr (Or.inl ⟨c, Z, rfl, Or.inl hc⟩)))

/-- **a byte that is not valid UTF-8** inside the literal -/
theorem refuses_bad_byte (ret : Tok) (s : LState) {pre v : List Char} (hpre : SpellsStr pre v) (Z : List Src) :
    Rej (scanString ret (withRest s (chs pre ++ .bad :: Z))) :=
  string_refused_at ret s hpre (Or.inr (Or.inl ⟨Z, rfl⟩))

/-- **a malformed escape** anywhere in the literal; the forms follow -/
theorem refuses_bad_escape (ret : Tok) (s : LState) {pre v : List Char} (hpre : SpellsStr pre v) {Z : List Src}
    (hZ : NoEsc Z) : Rej (scanString ret (withRest s (chs pre ++ .ch '\\' :: Z))) :=
  string_refused_at ret s hpre (Or.inr (Or.inr (Or.inr ⟨Z, rfl, hZ⟩)))

/-- backslash at the end of the input, before NUL, before an undecodable byte -/
theorem bad_escape_end : NoEsc [] := noEsc_nil
theorem bad_escape_nul (c : Char) (hc : c.toNat = 0) (Y : List Src) : NoEsc (.ch c :: Y) := noEsc_nul c hc Y
theorem bad_escape_bad_byte (Y : List Src) : NoEsc (.bad :: Y) := noEsc_bad Y

/-- `\x`: accepted iff followed by two hexadecimal digits of non-zero value -/
theorem bad_escape_x_iff (Y : List Src) :
    NoEsc (.ch 'x' :: Y) ↔ ¬ ∃ a b d1 d2 R, Y = .ch a :: .ch b :: R ∧ HexDig a d1 ∧ HexDig b d2 ∧ 0 < d1 * 16 + d2 :=
  noEsc_x_iff Y
/-- `\x` and no hexadecimal digit (`hexChar` of what `next` returns – a character, or `stopTok` at the
    end / on NUL / on a bad byte – is `-1`) -/
theorem bad_escape_x_none (Y : List Src) (h : hexChar (peekR Y) = none) : NoEsc (.ch 'x' :: Y) := noEsc_x_first Y h
/-- `\xH` and no second hexadecimal digit -/
theorem bad_escape_x_one (a : Char) (Y : List Src) (h : hexChar (peekR Y) = none) : NoEsc (.ch 'x' :: .ch a :: Y) :=
  noEsc_x_second a Y h
/-- `\x00` -/
theorem bad_escape_x00 (Y : List Src) : NoEsc (.ch 'x' :: .ch '0' :: .ch '0' :: Y) := noEsc_x00 Y

/-- `\u` and fewer than four hexadecimal digits (and not `{`) -/
theorem bad_escape_u_short {ds : List Char} {dv : List Nat} (hd : HexDigs ds dv) (hl : ds.length < 4) (Z : List Src)
    (hz : hexChar (peekR Z) = none) (hb : ds = [] → peekR Z ≠ some '{') : NoEsc (.ch 'u' :: (chs ds ++ Z)) :=
  noEsc_u_short hd hl Z hz hb
/-- `\u0000` -/
theorem bad_escape_u0000 (Y : List Src) : NoEsc (.ch 'u' :: .ch '0' :: .ch '0' :: .ch '0' :: .ch '0' :: Y) :=
  noEsc_u_zero ⟨by decide, Or.inl (by decide)⟩ ⟨by decide, Or.inl (by decide)⟩ ⟨by decide, Or.inl (by decide)⟩
    ⟨by decide, Or.inl (by decide)⟩ Y
/-- the surrogate rule: a unit in D800–DFFF is accepted only as a high surrogate directly followed by
    `\u` + a low surrogate -/
theorem bad_escape_surrogate {us : List Char} {v : Nat} (hu : SpellsUnit us v) (hs : isSurrogate v = true) (Z : List Src)
    (h : ¬ (v < 0xDC00 ∧ ∃ us2 lo R, Z = .ch '\\' :: .ch 'u' :: (chs us2 ++ R) ∧ SpellsUnit us2 lo ∧
          0xDC00 ≤ lo ∧ lo < 0xE000)) : NoEsc (.ch 'u' :: (chs us ++ Z)) :=
  noEsc_u_surrogate hu hs Z h
/-- a lone low surrogate, whatever follows -/
theorem bad_escape_low {us : List Char} {v : Nat} (hu : SpellsUnit us v) (h1 : 0xDC00 ≤ v) (h2 : v < 0xE000)
    (Z : List Src) : NoEsc (.ch 'u' :: (chs us ++ Z)) := noEsc_u_low hu h1 h2 Z
/-- a high surrogate not followed by a backslash -/
theorem bad_escape_high_alone {us : List Char} {v : Nat} (hu : SpellsUnit us v) (h1 : 0xD800 ≤ v) (h2 : v < 0xDC00)
    (Z : List Src) (hz : peekR Z ≠ some '\\') : NoEsc (.ch 'u' :: (chs us ++ Z)) := noEsc_u_high_alone hu h1 h2 Z hz
/-- a high surrogate followed by a backslash and not `u` -/
theorem bad_escape_high_esc {us : List Char} {v : Nat} (hu : SpellsUnit us v) (h1 : 0xD800 ≤ v) (h2 : v < 0xDC00)
    (Z : List Src) (hz : peekR Z ≠ some 'u') : NoEsc (.ch 'u' :: (chs us ++ .ch '\\' :: Z)) :=
  noEsc_u_high_esc hu h1 h2 Z hz
/-- a high surrogate followed by `\u` + something that is not a low surrogate -/
theorem bad_escape_high_nonlow {us us2 : List Char} {v v2 : Nat} (hu : SpellsUnit us v) (h1 : 0xD800 ≤ v)
    (h2 : v < 0xDC00) (hu2 : SpellsUnit us2 v2) (h02 : v2 ≠ 0) (hm2 : v2 ≤ 0x10FFFF)
    (hlow : ¬ (0xDC00 ≤ v2 ∧ v2 < 0xE000)) (Z : List Src) :
    NoEsc (.ch 'u' :: (chs us ++ .ch '\\' :: .ch 'u' :: (chs us2 ++ Z))) :=
  noEsc_u_high_nonlow hu h1 h2 hu2 h02 hm2 hlow Z
/-- `\u{}` -/
theorem bad_escape_brace_empty (Y : List Src) : NoEsc (.ch 'u' :: .ch '{' :: .ch '}' :: Y) := noEsc_u_brace_empty Y
/-- `\u{` and seven or more hexadecimal digits -/
theorem bad_escape_brace_long {ds : List Char} {dv : List Nat} (hd : HexDigs ds dv) (hl : 7 ≤ ds.length) (Z : List Src) :
    NoEsc (.ch 'u' :: .ch '{' :: (chs ds ++ Z)) := noEsc_u_brace_long hd hl Z
/-- `\u{H…}` of value 0, or `\u{110000}` and beyond -/
theorem bad_escape_brace_range {ds : List Char} {dv : List Nat} (hd : HexDigs ds dv)
    (hv : hexVal dv = 0 ∨ 0x10FFFF < hexVal dv) (Z : List Src) :
    NoEsc (.ch 'u' :: .ch '{' :: (chs ds ++ .ch '}' :: Z)) := noEsc_u_brace_range hd hv Z
/-- `\u{H…` continued by neither a hexadecimal digit nor `}`: unterminated, or a foreign character,
    NUL, a bad byte inside the braces -/
theorem bad_escape_brace_open {ds : List Char} {dv : List Nat} (hd : HexDigs ds dv) (Z : List Src)
    (hz : hexChar (peekR Z) = none) (hq : peekR Z ≠ some '}') : NoEsc (.ch 'u' :: .ch '{' :: (chs ds ++ Z)) :=
  noEsc_u_brace_open hd Z hz hq

/-! ### the listed forms, each obtained from the theorems above (any state `s`, any tail `R`,
    `STRING_P` or `VARIABLE_P`) -/

section
variable (ret : Tok) (s : LState) (R : List Src)

macro "c04b_hexd" : tactic => `(tactic| first | exact ⟨by decide, Or.inl (by decide)⟩ | exact ⟨by decide, Or.inr (by decide)⟩)
macro "c04b_nohex" : tactic => `(tactic| first | rfl | (rw [peekR_cons_ch _ _ (by decide)]; decide))

theorem pre_a : SpellsStr ['a'] ['a'] := SpellsStr.single (.plain 'a' (by decide) (by decide) (by decide) (by decide))
theorem unit_D800 : SpellsUnit ['D', '8', '0', '0'] (((13 * 16 + 8) * 16 + 0) * 16 + 0) :=
  .fixed (by c04b_hexd) (by c04b_hexd) (by c04b_hexd) (by c04b_hexd)
theorem unit_DC00 : SpellsUnit ['D', 'C', '0', '0'] (((13 * 16 + 12) * 16 + 0) * 16 + 0) :=
  .fixed (by c04b_hexd) (by c04b_hexd) (by c04b_hexd) (by c04b_hexd)
theorem unit_0041 : SpellsUnit ['0', '0', '4', '1'] (((0 * 16 + 0) * 16 + 4) * 16 + 1) :=
  .fixed (by c04b_hexd) (by c04b_hexd) (by c04b_hexd) (by c04b_hexd)

/-- `"abc` and the end of the input -/
example : Rej (scanString ret (withRest s (chs ['a', 'b', 'c']))) :=
  refuses_unterminated ret s (SpellsStr.cons' (.plain 'a' (by decide) (by decide) (by decide) (by decide))
    (SpellsStr.cons' (.plain 'b' (by decide) (by decide) (by decide) (by decide))
      (SpellsStr.single (.plain 'c' (by decide) (by decide) (by decide) (by decide))) rfl) rfl)
/-- `"a⏎…` -/
example : Rej (scanString ret (withRest s (.ch 'a' :: .ch '\n' :: R))) := refuses_newline ret s pre_a R
/-- `"a<NUL>…` -/
example : Rej (scanString ret (withRest s (.ch 'a' :: .ch (Char.ofNat 0) :: R))) := refuses_nul ret s pre_a _ (by decide) R
/-- `"a<bad byte>…` -/
example : Rej (scanString ret (withRest s (.ch 'a' :: .bad :: R))) := refuses_bad_byte ret s pre_a R
/-- `"a\` and the end of the input -/
example : Rej (scanString ret (withRest s [.ch 'a', .ch '\\'])) := refuses_bad_escape ret s pre_a bad_escape_end
/-- `"\x"…` – no digit -/
example : Rej (scanString ret (withRest s (.ch '\\' :: .ch 'x' :: .ch '"' :: R))) :=
  refuses_bad_escape ret s .nil (bad_escape_x_none _ (by c04b_nohex))
/-- `"\x4"…` – one digit -/
example : Rej (scanString ret (withRest s (.ch '\\' :: .ch 'x' :: .ch '4' :: .ch '"' :: R))) :=
  refuses_bad_escape ret s .nil (bad_escape_x_one '4' _ (by c04b_nohex))
/-- `"\x0g…` -/
example : Rej (scanString ret (withRest s (.ch '\\' :: .ch 'x' :: .ch '0' :: .ch 'g' :: R))) :=
  refuses_bad_escape ret s .nil (bad_escape_x_one '0' _ (by c04b_nohex))
/-- `"\x00…` -/
example : Rej (scanString ret (withRest s (.ch '\\' :: .ch 'x' :: .ch '0' :: .ch '0' :: R))) :=
  refuses_bad_escape ret s .nil (bad_escape_x00 R)
/-- `"\u004"…` – three digits -/
example : Rej (scanString ret (withRest s (.ch '\\' :: .ch 'u' :: .ch '0' :: .ch '0' :: .ch '4' :: .ch '"' :: R))) :=
  refuses_bad_escape ret s .nil (bad_escape_u_short (ds := ['0', '0', '4']) (dv := [0, 0, 4])
    (.cons (by c04b_hexd) (.cons (by c04b_hexd) (.cons (by c04b_hexd) .nil))) (by decide) _ (by c04b_nohex) (by simp))
/-- `"\u"…` – no digit -/
example : Rej (scanString ret (withRest s (.ch '\\' :: .ch 'u' :: .ch '"' :: R))) :=
  refuses_bad_escape ret s .nil (bad_escape_u_short (ds := []) (dv := []) .nil (by decide) _ (by c04b_nohex)
    (fun _ => by rw [peekR_cons_ch _ _ (by decide)]; decide))
/-- `"\u0000…` -/
example : Rej (scanString ret (withRest s (.ch '\\' :: .ch 'u' :: .ch '0' :: .ch '0' :: .ch '0' :: .ch '0' :: R))) :=
  refuses_bad_escape ret s .nil (bad_escape_u0000 R)
/-- `"\uDC00…` – a lone low surrogate, whatever follows -/
example : Rej (scanString ret (withRest s (.ch '\\' :: .ch 'u' :: .ch 'D' :: .ch 'C' :: .ch '0' :: .ch '0' :: R))) :=
  refuses_bad_escape ret s .nil (bad_escape_low unit_DC00 (by decide) (by decide) R)
/-- `"\uD800"…` – a lone high surrogate -/
example : Rej (scanString ret (withRest s (.ch '\\' :: .ch 'u' :: .ch 'D' :: .ch '8' :: .ch '0' :: .ch '0' :: .ch '"' :: R))) :=
  refuses_bad_escape ret s .nil (bad_escape_high_alone unit_D800 (by decide) (by decide) _
    (by rw [peekR_cons_ch _ _ (by decide)]; decide))
/-- `"\uD800\n…` – a high surrogate and another escape -/
example : Rej (scanString ret (withRest s (.ch '\\' :: .ch 'u' :: .ch 'D' :: .ch '8' :: .ch '0' :: .ch '0' ::
    .ch '\\' :: .ch 'n' :: R))) :=
  refuses_bad_escape ret s .nil (bad_escape_high_esc unit_D800 (by decide) (by decide) _
    (by rw [peekR_cons_ch _ _ (by decide)]; decide))
/-- `"\uD800A…` – a high surrogate and a unit that is not a low surrogate -/
example : Rej (scanString ret (withRest s (.ch '\\' :: .ch 'u' :: .ch 'D' :: .ch '8' :: .ch '0' :: .ch '0' ::
    .ch '\\' :: .ch 'u' :: .ch '0' :: .ch '0' :: .ch '4' :: .ch '1' :: R))) :=
  refuses_bad_escape ret s .nil (bad_escape_high_nonlow unit_D800 (by decide) (by decide) unit_0041
    (by decide) (by decide) (by decide) R)
/-- `"\u{}…` -/
example : Rej (scanString ret (withRest s (.ch '\\' :: .ch 'u' :: .ch '{' :: .ch '}' :: R))) :=
  refuses_bad_escape ret s .nil (bad_escape_brace_empty R)
/-- `"\u{1234567…` – seven digits, whatever follows -/
example : Rej (scanString ret (withRest s (.ch '\\' :: .ch 'u' :: .ch '{' :: .ch '1' :: .ch '2' :: .ch '3' :: .ch '4' ::
    .ch '5' :: .ch '6' :: .ch '7' :: R))) :=
  refuses_bad_escape ret s .nil (bad_escape_brace_long (ds := ['1', '2', '3', '4', '5', '6', '7'])
    (dv := [1, 2, 3, 4, 5, 6, 7])
    (.cons (by c04b_hexd) (.cons (by c04b_hexd) (.cons (by c04b_hexd) (.cons (by c04b_hexd) (.cons (by c04b_hexd) (.cons (by c04b_hexd)
      (.cons (by c04b_hexd) .nil))))))) (by decide) R)
/-- `"\u{110000}…` -/
example : Rej (scanString ret (withRest s (.ch '\\' :: .ch 'u' :: .ch '{' :: .ch '1' :: .ch '1' :: .ch '0' :: .ch '0' ::
    .ch '0' :: .ch '0' :: .ch '}' :: R))) :=
  refuses_bad_escape ret s .nil (bad_escape_brace_range (ds := ['1', '1', '0', '0', '0', '0']) (dv := [1, 1, 0, 0, 0, 0])
    (.cons (by c04b_hexd) (.cons (by c04b_hexd) (.cons (by c04b_hexd) (.cons (by c04b_hexd) (.cons (by c04b_hexd) (.cons (by c04b_hexd) .nil))))))
    (Or.inr (by decide)) R)
/-- `"\u{0}…` -/
example : Rej (scanString ret (withRest s (.ch '\\' :: .ch 'u' :: .ch '{' :: .ch '0' :: .ch '}' :: R))) :=
  refuses_bad_escape ret s .nil (bad_escape_brace_range (ds := ['0']) (dv := [0]) (.cons (by c04b_hexd) .nil)
    (Or.inl (by decide)) R)
/-- `"\u{12` and the end of the input -/
example : Rej (scanString ret (withRest s [.ch '\\', .ch 'u', .ch '{', .ch '1', .ch '2'])) :=
  refuses_bad_escape ret s .nil (bad_escape_brace_open (ds := ['1', '2']) (dv := [1, 2])
    (.cons (by c04b_hexd) (.cons (by c04b_hexd) .nil)) [] rfl (by simp [peekR]))
/-- `"\u{12"…` – the closing quote instead of `}` -/
example : Rej (scanString ret (withRest s (.ch '\\' :: .ch 'u' :: .ch '{' :: .ch '1' :: .ch '2' :: .ch '"' :: R))) :=
  refuses_bad_escape ret s .nil (bad_escape_brace_open (ds := ['1', '2']) (dv := [1, 2])
    (.cons (by c04b_hexd) (.cons (by c04b_hexd) .nil)) _ (by c04b_nohex) (by rw [peekR_cons_ch _ _ (by decide)]; decide))
/-- `"\u{1g…` – not a hexadecimal digit inside the braces -/
example : Rej (scanString ret (withRest s (.ch '\\' :: .ch 'u' :: .ch '{' :: .ch '1' :: .ch 'g' :: R))) :=
  refuses_bad_escape ret s .nil (bad_escape_brace_open (ds := ['1']) (dv := [1])
    (.cons (by c04b_hexd) .nil) _ (by c04b_nohex) (by rw [peekR_cons_ch _ _ (by decide)]; decide))

end

/-- on the permissive side, also from the theorem: `"a\⏎b"` is the string `a⏎b` (a backslash before a
    raw line feed is that line feed), whatever follows -/
example (s : LState) (R : List Src) :
    scanString .string (withRest s (.ch 'a' :: .ch '\\' :: .ch '\n' :: .ch 'b' :: .ch '"' :: R))
      = ⟨.string, ['a', '\n', 'b'], peekR R, afterR s R⟩ :=
  string_literal_accepted .string s (body := ['a', '\\', '\n', 'b'])
    (SpellsStr.cons' (.plain 'a' (by decide) (by decide) (by decide) (by decide))
      (SpellsStr.cons' (cs := ['\\', '\n']) (.esc (.self '\n' (by decide) (by decide) (by decide) (by decide) (by decide)
        (by decide) (by decide) (by decide) (by decide)))
        (SpellsStr.single (.plain 'b' (by decide) (by decide) (by decide) (by decide))) rfl) rfl) R

/-! ## (d) bare identifiers -/

/-- **a bare identifier**: `scanIdent`, entered on its first character `c` in a state without error,
    returns a token iff the source continues with identifier characters (`_`, `xid.Continue`) and
    well-formed escapes (after a leading backslash: first an escape) up to the end of the input or a
    *clean* character that is not an identifier character.  Then the token is `identToken text`.
    Quirks: an escape may denote any character (`a\ b`, `a\"`); an escape at the very end of the
    input keeps the text; NUL or an undecodable byte directly after the identifier refuses it. -/
theorem ident_iff (o : Oracles) (c : Char) (s : LState) (hs : s.err = false) :
    (scanIdent o c s).tok ≠ .stop ↔ ∃ w text Y, s.rest = chs w ++ Y ∧ IdSpell o c w text ∧ IdEnd o Y :=
  scanIdent_iff o c s hs

theorem ident_accepted (o : Oracles) {c : Char} {w text : List Char} (h : IdSpell o c w text) {Y : List Src}
    (hY : IdEnd o Y) (s : LState) (hs : s.err = false) :
    scanIdent o c (withRest s (chs w ++ Y)) = ⟨identToken o text, text, peekR Y, afterR s Y⟩ :=
  scanIdent_ok o h hY s hs

theorem ident_rejected (o : Oracles) (c : Char) (s : LState) (hs : s.err = false) (X : List Src)
    (h : ¬ ∃ w text Y, X = chs w ++ Y ∧ IdSpell o c w text ∧ IdEnd o Y) : Rej (scanIdent o c (withRest s X)) :=
  scanIdent_bad o c s hs h

/-- the grammar of C03b for identifiers is this one plus what `Lex` checks before calling `scanIdent` -/
theorem ident_grammar_is_layout (o : Oracles) {c : Char} {w text : List Char}
    (hst : isIdentStart o (some c) = true) (h0 : c.toNat ≠ 0) (hws : isWhitespace c = false) :
    IdSpell o c w text ↔ SpellsIdent o (c :: w) text :=
  ⟨fun h => spellsIdent_of_idSpell o h hst h0 hws, idSpell_of_spellsIdent o⟩

/-- **a malformed escape in a bare identifier** – anywhere after well-formed identifier text –
    makes the token `stopTok` with an error on record (`NoEsc`: the forms of section (c)) -/
theorem ident_refuses_bad_escape (o : Oracles) {c : Char} (hc : c ≠ '\\') {w t : List Char} (hw : SpellsIdTail o w t)
    {Z : List Src} (hZ : NoEsc Z) (s : LState) (hs : s.err = false) :
    Rej (scanIdent o c (withRest s (chs w ++ .ch '\\' :: Z))) := scanIdent_bad_escape o hc hw hZ s hs

theorem ident_refuses_bad_first_escape (o : Oracles) {Z : List Src} (hZ : NoEsc Z) (s : LState) (hs : s.err = false) :
    Rej (scanIdent o '\\' (withRest s Z)) := scanIdent_bad_first o hZ s hs

theorem ident_refuses_bad_later_escape (o : Oracles) {es : List Char} {c' : Char} (hesc : SpellsEsc es c')
    {w t : List Char} (hw : SpellsIdTail o w t) {Z : List Src} (hZ : NoEsc Z) (s : LState) (hs : s.err = false) :
    Rej (scanIdent o '\\' (withRest s (chs es ++ (chs w ++ .ch '\\' :: Z)))) := scanIdent_bad_escape' o hesc hw hZ s hs

/-- the quirk, from the theorem: `a\ b` (then the end of the input) is the one name `a b`
    (for an oracle under which `b` continues an identifier) -/
example (o : Oracles) (hb : o.xidContinue 'b' = true) (s : LState) (hs : s.err = false) :
    scanIdent o 'a' (withRest s [.ch '\\', .ch ' ', .ch 'b'])
      = ⟨identToken o ['a', ' ', 'b'], ['a', ' ', 'b'], none, withRest s []⟩ := by
  have h := ident_accepted o (c := 'a') (w := ['\\', ' ', 'b']) (Y := [])
    (.plain (by decide) (.esc (es := [' ']) (.self ' ' (by decide) (by decide) (by decide) (by decide) (by decide)
      (by decide) (by decide) (by decide) (by decide)) (.plain 'b' (by decide) (Or.inr hb) (by decide) .nil)))
    (Or.inl rfl) s hs
  simpa [peekR, afterR_nil] using h

/-- `a\"` and the end of the input: the name `a"` -/
example (o : Oracles) (s : LState) (hs : s.err = false) :
    scanIdent o 'a' (withRest s [.ch '\\', .ch '"']) = ⟨identToken o ['a', '"'], ['a', '"'], none, withRest s []⟩ := by
  have h := ident_accepted o (c := 'a') (w := ['\\', '"']) (Y := [])
    (.plain (by decide) (.esc (es := ['"']) (w := []) (.self '"' (by decide) (by decide) (by decide) (by decide) (by decide)
      (by decide) (by decide) (by decide) (by decide)) .nil))
    (Or.inl rfl) s hs
  simpa [peekR, afterR_nil] using h

/-- `a\x4…`, `a\uD800…` followed by `.`, `a\` at the end: refused -/
example (o : Oracles) (s : LState) (hs : s.err = false) (R : List Src) :
    Rej (scanIdent o 'a' (withRest s (.ch '\\' :: .ch 'x' :: .ch '4' :: .ch '.' :: R))) :=
  ident_refuses_bad_escape o (by decide) .nil (bad_escape_x_one '4' _ (by c04b_nohex)) s hs
example (o : Oracles) (s : LState) (hs : s.err = false) (R : List Src) :
    Rej (scanIdent o 'a' (withRest s (.ch '\\' :: .ch 'u' :: .ch 'D' :: .ch '8' :: .ch '0' :: .ch '0' :: .ch '.' :: R))) :=
  ident_refuses_bad_escape o (by decide) .nil (bad_escape_high_alone unit_D800 (by decide) (by decide) _
    (by rw [peekR_cons_ch _ _ (by decide)]; decide)) s hs
example (o : Oracles) (s : LState) (hs : s.err = false) :
    Rej (scanIdent o 'a' (withRest s [.ch '\\'])) :=
  ident_refuses_bad_escape o (by decide) .nil bad_escape_end s hs

/-! ## (e) lift to `Parse` -/

/-- **an input whose first token – after optional white space – is a malformed string literal is
    rejected by `Parse`** (`"` is not an identifier start: `OrOK.punctS`) -/
theorem parse_rejects_malformed_string (o : Oracles) (hq : o.xidStart '"' = false) (bytes : List UInt8)
    (ws : List Char) (hws : ∀ c ∈ ws, isWhitespace c = true) (X : List Src)
    (h : decodeAll bytes = chs ws ++ .ch '"' :: X)
    (hbad : ¬ ∃ body val R, X = chs body ++ .ch '"' :: R ∧ SpellsStr body val) : parse o bytes = .err :=
  parse_err_bad_string o hq bytes ws hws X h hbad

/-- … in the form "well-formed piece, then stuck" -/
theorem parse_rejects_string_stuck (o : Oracles) (hq : o.xidStart '"' = false) (bytes : List UInt8)
    (ws : List Char) (hws : ∀ c ∈ ws, isWhitespace c = true) {pre v : List Char} (hpre : SpellsStr pre v)
    {Y : List Src} (hY : Stuck Y) (h : decodeAll bytes = chs ws ++ .ch '"' :: (chs pre ++ Y)) : parse o bytes = .err :=
  parse_err_bad_string o hq bytes ws hws _ h (by rw [closed_prefix_iff hpre]; exact not_closed_stuck hY)

/-- the same for `$"…"` (`$` is not an identifier start) -/
theorem parse_rejects_malformed_variable (o : Oracles) (hd : o.xidStart '$' = false) (bytes : List UInt8)
    (ws : List Char) (hws : ∀ c ∈ ws, isWhitespace c = true) (X : List Src)
    (h : decodeAll bytes = chs ws ++ .ch '$' :: .ch '"' :: X)
    (hbad : ¬ ∃ body val R, X = chs body ++ .ch '"' :: R ∧ SpellsStr body val) : parse o bytes = .err :=
  parse_err_bad_variable o hd bytes ws hws X h hbad

theorem parse_rejects_variable_stuck (o : Oracles) (hd : o.xidStart '$' = false) (bytes : List UInt8)
    (ws : List Char) (hws : ∀ c ∈ ws, isWhitespace c = true) {pre v : List Char} (hpre : SpellsStr pre v)
    {Y : List Src} (hY : Stuck Y) (h : decodeAll bytes = chs ws ++ .ch '$' :: .ch '"' :: (chs pre ++ Y)) :
    parse o bytes = .err :=
  parse_err_bad_variable o hd bytes ws hws _ h (by rw [closed_prefix_iff hpre]; exact not_closed_stuck hY)

/-- a bare identifier that goes wrong as the first token -/
theorem parse_rejects_malformed_ident (o : Oracles) (bytes : List UInt8) (ws : List Char)
    (hws : ∀ c ∈ ws, isWhitespace c = true) (c : Char) (hst : isIdentStart o (some c) = true)
    (hcw : isWhitespace c = false) (hc0 : c.toNat ≠ 0) (X : List Src) (h : decodeAll bytes = chs ws ++ .ch c :: X)
    (hbad : ¬ ∃ w text Y, X = chs w ++ Y ∧ IdSpell o c w text ∧ IdEnd o Y) : parse o bytes = .err :=
  parse_err_bad_ident o bytes ws hws c hst hcw hc0 X h hbad

/-- for a text given as characters: `ws "pre…` with a malformed escape after `pre` -/
theorem parse_rejects_text (o : Oracles) (ok : RoundTrip.OrOK o) (ws : List Char) (hws : ∀ c ∈ ws, isWhitespace c = true)
    {pre v : List Char} (hpre : SpellsStr pre v) (l : List Char) (hl : Stuck (chs l)) :
    parse o (utf8 (ws ++ '"' :: (pre ++ l))) = .err := by
  refine parse_rejects_string_stuck o (ok.punctS '"' (by decide)) _ ws hws hpre hl ?_
  rw [decodeAll_utf8]; simp [chs]

/-- `  "ab\x0g"`, `"\u{}"`, `"\uD800"`, `"abc`: rejected under every oracle satisfying `OrOK` -/
example (o : Oracles) (ok : RoundTrip.OrOK o) : parse o (utf8 [' ', ' ', '"', 'a', '\\', 'x', '0', 'g', '"']) = .err :=
  parse_rejects_text o ok [' ', ' '] (by decide) pre_a ['\\', 'x', '0', 'g', '"']
    (Or.inr (Or.inr (Or.inr ⟨_, rfl, bad_escape_x_one '0' _ (by c04b_nohex)⟩)))
example (o : Oracles) (ok : RoundTrip.OrOK o) : parse o (utf8 ['"', '\\', 'u', '{', '}', '"']) = .err :=
  parse_rejects_text o ok [] (by simp) .nil ['\\', 'u', '{', '}', '"']
    (Or.inr (Or.inr (Or.inr ⟨_, rfl, bad_escape_brace_empty _⟩)))
example (o : Oracles) (ok : RoundTrip.OrOK o) : parse o (utf8 ['"', '\\', 'u', 'D', '8', '0', '0', '"']) = .err :=
  parse_rejects_text o ok [] (by simp) .nil ['\\', 'u', 'D', '8', '0', '0', '"']
    (Or.inr (Or.inr (Or.inr ⟨_, rfl, bad_escape_high_alone unit_D800 (by decide) (by decide) _
      (by rw [peekR_cons_ch _ _ (by decide)]; decide)⟩)))
example (o : Oracles) (ok : RoundTrip.OrOK o) : parse o (utf8 ['"', 'a']) = .err :=
  parse_rejects_text o ok [] (by simp) pre_a [] (Or.inl rfl)

/-! ## cross-checks on the ASCII oracle instance (evaluation of the model; the Go package gives the
    same answer on each of these inputs) -/

theorem samples_rejected :
    run "\"abc" = "ERR" ∧ run "\"a\nb\"" = "ERR" ∧ run "\"a\\" = "ERR" ∧
    run "\"\\x\"" = "ERR" ∧ run "\"\\x4\"" = "ERR" ∧ run "\"\\x0g\"" = "ERR" ∧ run "\"\\x00\"" = "ERR" ∧
    run "\"\\u004\"" = "ERR" ∧ run "\"\\u0000\"" = "ERR" ∧ run "\"\\uDC00\"" = "ERR" ∧
    run "\"\\uD800\"" = "ERR" ∧ run "\"\\uD800\\n\"" = "ERR" ∧ run "\"\\uD800\\u0041\"" = "ERR" ∧
    run "\"\\u{}\"" = "ERR" ∧ run "\"\\u{0}\"" = "ERR" ∧ run "\"\\u{1234567}\"" = "ERR" ∧
    run "\"\\u{110000}\"" = "ERR" ∧ run "\"\\u{12" = "ERR" ∧ run "\"\\u{12\"" = "ERR" ∧
    run "\"\\u{1g}\"" = "ERR" ∧ run "$\"a" = "ERR" ∧ run "$\"\\uD800\"" = "ERR" ∧
    run "$.a\\" = "ERR" ∧ run "$.a\\x4" = "ERR" ∧ run "$.a\\uD83D" = "ERR" ∧ run "$.a\\u{}" = "ERR" ∧
    outcome (Parse.parse asciiOracles (ascii "\"a" ++ [0] ++ ascii "b\"")) = "ERR" ∧
    outcome (Parse.parse asciiOracles (ascii "\"a" ++ [0xff] ++ ascii "b\"")) = "ERR" ∧
    outcome (Parse.parse asciiOracles (ascii "$.a" ++ [0])) = "ERR" ∧
    outcome (Parse.parse asciiOracles (ascii "$.a" ++ [0xff])) = "ERR" := by
  decide +kernel

theorem samples_accepted :
    run "\"\\uD83D\\u{DE00}\"" = "\"\\u{1f600}\"" ∧ run "\"\\u{D83D}\\uDE00\"" = "\"\\u{1f600}\"" ∧
    run "\"a\\\nb\"" = "\"a\\nb\"" ∧ run "$.a\\n" = "$.\"a\\n\"" ∧ run "$.a\\ " = "$.\"a \"" ∧
    run "$.a\\\"b" = "$.\"a\\\"b\"" ∧ run "$.\\x66oo" = "$.\"foo\"" ∧ run "\\x6eull" = "null" := by
  decide +kernel

#print axioms escape_unambiguous
#print axioms string_literal_accepted
#print axioms string_literal_rejected
#print axioms string_literal_iff
#print axioms string_literal_exact
#print axioms lex_string_accepted
#print axioms lex_string_iff
#print axioms lex_string_rejected
#print axioms lex_variable_accepted
#print axioms lex_variable_iff
#print axioms lex_variable_rejected
#print axioms string_refused_at
#print axioms refused_iff
#print axioms refuses_unterminated
#print axioms refuses_newline
#print axioms refuses_nul
#print axioms refuses_bad_byte
#print axioms refuses_bad_escape
#print axioms bad_escape_end
#print axioms bad_escape_nul
#print axioms bad_escape_bad_byte
#print axioms bad_escape_x_iff
#print axioms bad_escape_x_none
#print axioms bad_escape_x_one
#print axioms bad_escape_x00
#print axioms bad_escape_u_short
#print axioms bad_escape_u0000
#print axioms bad_escape_surrogate
#print axioms bad_escape_low
#print axioms bad_escape_high_alone
#print axioms bad_escape_high_esc
#print axioms bad_escape_high_nonlow
#print axioms bad_escape_brace_empty
#print axioms bad_escape_brace_long
#print axioms bad_escape_brace_range
#print axioms bad_escape_brace_open
#print axioms ident_iff
#print axioms ident_accepted
#print axioms ident_rejected
#print axioms ident_grammar_is_layout
#print axioms ident_refuses_bad_escape
#print axioms ident_refuses_bad_first_escape
#print axioms ident_refuses_bad_later_escape
#print axioms parse_rejects_malformed_string
#print axioms parse_rejects_string_stuck
#print axioms parse_rejects_malformed_variable
#print axioms parse_rejects_variable_stuck
#print axioms parse_rejects_malformed_ident
#print axioms parse_rejects_text
#print axioms samples_rejected
#print axioms samples_accepted

end C04b
end Sqljson

/-! # Strings and variables after any separator, at any token position -/
namespace Sqljson
namespace C04b
open Parse Lex ParseLemmas RoundTrip Layout LexReject LexReject.Str

/-- a string literal that is not a well-formed body closed by `"`, as the first token after ANY
    separator (blanks, tabs, newlines, closed comments), makes `Parse` return an error -/
theorem parse_rejects_malformed_string_after_separator (o : Oracles) (ok : RoundTrip.OrOK o) (bytes : List UInt8)
    {sep : List Char} (hs : Sep sep) (X : List Src) (hd : decodeAll bytes = chs sep ++ .ch '"' :: X)
    (hbad : ¬ ∃ body val R, X = chs body ++ .ch '"' :: R ∧ SpellsStr body val) : parse o bytes = .err :=
  parse_err_bad_string_sep o (ok.punctS '/' (by decide)) (ok.punctS '"' (by decide)) bytes hs X hd hbad

/-- the same for `$"…"` -/
theorem parse_rejects_malformed_variable_after_separator (o : Oracles) (ok : RoundTrip.OrOK o) (bytes : List UInt8)
    {sep : List Char} (hs : Sep sep) (X : List Src) (hd : decodeAll bytes = chs sep ++ .ch '$' :: .ch '"' :: X)
    (hbad : ¬ ∃ body val R, X = chs body ++ .ch '"' :: R ∧ SpellsStr body val) : parse o bytes = .err :=
  parse_err_bad_variable_sep o (ok.punctS '/' (by decide)) (ok.punctS '$' (by decide)) bytes hs X hd hbad

/-- … and at any later token start the lexer reaches (after `k` calls of `Lex` it stands before a
    separator followed by the malformed literal) -/
theorem parse_rejects_malformed_string_anywhere (o : Oracles) (ok : RoundTrip.OrOK o) (bytes : List UInt8) (k : Nat)
    {sep : List Char} (hs : Sep sep) (X : List Src)
    (hst : Misc.Standing (Misc.lexIter o k (LState.init bytes)) (chs sep ++ .ch '"' :: X))
    (hbad : ¬ ∃ body val R, X = chs body ++ .ch '"' :: R ∧ SpellsStr body val) : parse o bytes = .err :=
  parse_err_bad_string_at o (ok.punctS '/' (by decide)) (ok.punctS '"' (by decide)) bytes k hs X hst hbad

#print axioms parse_rejects_malformed_string_after_separator
#print axioms parse_rejects_malformed_variable_after_separator
#print axioms parse_rejects_malformed_string_anywhere

end C04b
end Sqljson

/-! # Comments, separators, single characters, general position -/
/-!
# C04b (part "Misc") — comments, separators, single characters: malformed forms are rejected by theorem

Statements are about the model of `parser.Parse` (`Model/Lex.lean`, `Model/Parse.lean`), for every instance `o` of the
oracles unless a hypothesis on `o` is named, and for an ARBITRARY unread source (`List Src`: runes, among them NUL,
and undecodable bytes `Src.bad`).  `utf8 l` is the UTF-8 encoding of the text `l` (`RoundTrip.utf8`).

* Comments: `comment_loop_exact` (the loop of `scanComment` closes at the first `*/` iff nothing before it is NUL or
  undecodable; otherwise it ends with "unexpected end of comment" or the NUL / UTF-8 error), `comment_closes_at_first`,
  `comment_unterminated`, `comment_slash_after_opener`, `comment_empty`, `comment_first_close_wins`,
  `unterminated_comment_stops`, `rejects_unterminated_comment(_text)`.
* Separators: `separator_skipped` (any mix of blanks, tabs, newlines, carriage returns and closed comments before
  ANY continuation), `rejects_error_after_separator`.
* Single characters: `first_character_decides`, `backslash_starts_identifier`, `start_classes`, `other_rune_is_unk` (NOT an error of
  the lexer: the token `$unk`), `private_rune_is_error`, `operator_table`, `solo_table`, `unk_iff`.
* The lift to `Parse`: `rejects_unk_first`, `rejects_mode_then_unk`, `rejects_other_char_first(_text)`,
  `rejects_private_rune_first`, `rejects_lone_operator_first`.
* General position: `accepted_reaches_end`, `accepted_has_no_lex_error`, `lex_error_anywhere_rejects`,
  `error_at_any_token_start_rejects`, `error_after_separator_anywhere_rejects`,
  `unterminated_comment_anywhere_rejects`, `private_rune_anywhere_rejects`.

Not proved: "`$unk` ANYWHERE in the token stream rejects the input" (5d).  It needs "the parser never shifts `$unk`",
i.e. a pass over the 16 parser functions with bespoke statements (which token a function was handed, and that it is
the look-ahead); the `IM` calculus cannot express that.  Proved instead: `$unk` as the first token, or as the first
token after the mode; lexing ERRORS (comments, private-use runes, and through `error_at_any_token_start_rejects` the
malformed numbers / strings of the other parts) in any position.  `$unk` in other positions: `decide` cross-checks.
-/
namespace Sqljson
namespace C04b
open Parse Lex ParseLemmas Layout RoundTrip LexReject LexReject.Misc

/-! ## Comments -/

/-- **The comment loop, on every source.**  The loop of `scanComment` is entered with the rune after `/*`; `X` is
    the source from that rune on.  Exactly one of two things happens.  EITHER `X` is a comment body without NUL,
    without undecodable byte and without `*/`, then `*/`, then some `R`: the loop returns the rune after the
    comment and the state `next` leaves there.  OR `X` is not of that form (the input ends, or a NUL or an undecodable
    byte comes, before the first `*/`): the loop returns `stopTok` and an error is on record. -/
theorem comment_loop_exact (s : LState) (X : List Src) (f : Nat) (hf : X.length + 1 ≤ f) :
    (∃ body R, X = chs body ++ .ch '*' :: .ch '/' :: R ∧ NoNul body ∧ noClose body = true ∧
        commentLoop f (peekR X) (afterR s X) = (peekR R, afterR s R)) ∨
    ((¬ ∃ body R, X = chs body ++ .ch '*' :: .ch '/' :: R ∧ NoNul body ∧ noClose body = true) ∧
        (commentLoop f (peekR X) (afterR s X)).1 = none ∧ (commentLoop f (peekR X) (afterR s X)).2.err = true) := by
  have h := commentLoop_spec s X f hf
  cases hs : splitComment X with
  | none => exact Or.inr ⟨(splitComment_none_iff X).mp hs, h.2 hs⟩
  | some p =>
    obtain ⟨body, R⟩ := p
    obtain ⟨h1, h2, h3⟩ := (splitComment_some_iff X body R).mp hs
    exact Or.inl ⟨body, R, h1, h2, h3, h.1 body R hs⟩

/-- the first `*/` closes: the body and the rest of a closed comment are determined by the source -/
theorem comment_closes_at_first {X : List Src} {b1 b2 : List Char} {R1 R2 : List Src}
    (h1 : X = chs b1 ++ .ch '*' :: .ch '/' :: R1 ∧ NoNul b1 ∧ noClose b1 = true)
    (h2 : X = chs b2 ++ .ch '*' :: .ch '/' :: R2 ∧ NoNul b2 ∧ noClose b2 = true) : b1 = b2 ∧ R1 = R2 :=
  splitComment_unique h1 h2

/-- a comment that is not closed before the end of the input, before a NUL or before an undecodable byte
    (`peekR Y = none` says: `Y` is empty or starts with NUL / a bad byte): `stopTok`, error -/
theorem comment_unterminated (s : LState) (pre : List Char) (hn : NoNul pre) (hb : noClose pre = true)
    (Y : List Src) (hY : peekR Y = none) (f : Nat) (hf : (chs pre ++ Y).length + 1 ≤ f) :
    (commentLoop f (peekR (chs pre ++ Y)) (afterR s (chs pre ++ Y))).1 = none ∧
    (commentLoop f (peekR (chs pre ++ Y)) (afterR s (chs pre ++ Y))).2.err = true :=
  (commentLoop_spec s _ f hf).2 (splitComment_stop pre hn hb Y hY)

/-- `/*/` is not a closed comment: the `*` of the opener cannot serve as the `*` of the closer -/
theorem comment_slash_after_opener (s : LState) (f : Nat) (hf : 2 ≤ f) :
    (commentLoop f (peekR [.ch '/']) (afterR s [.ch '/'])).1 = none ∧
    (commentLoop f (peekR [.ch '/']) (afterR s [.ch '/'])).2.err = true :=
  comment_unterminated s ['/'] (by intro c hc; simp at hc; subst hc; decide) rfl [] rfl f hf

/-- `/**/` is a closed (empty) comment, whatever follows -/
theorem comment_empty (s : LState) (R : List Src) (f : Nat) (hf : 3 ≤ f) :
    commentLoop f (peekR (.ch '*' :: .ch '/' :: R)) (afterR s (.ch '*' :: .ch '/' :: R)) = (peekR R, afterR s R) :=
  commentLoop_closed s [] R NoNul.nil rfl f hf

/-- `/* a */ */`: the first `*/` closes, the second is outside the comment -/
theorem comment_first_close_wins (s : LState) (f : Nat) (hf : 6 ≤ f) :
    commentLoop f (peekR (chs " a */ */".toList)) (afterR s (chs " a */ */".toList))
      = (peekR (chs " */".toList), afterR s (chs " */".toList)) :=
  commentLoop_closed s " a ".toList (chs " */".toList) (by decide) (by decide) f hf

/-- **an unterminated comment at a token start**: the body of `Lex` (fuel ≥ 2) answers `stopTok` with an error on
    record.  (`/` must not be an identifier start for the oracle.) -/
theorem unterminated_comment_stops (o : Oracles) (hx : o.xidStart '/' = false) (f : Nat) (s : LState) (X : List Src)
    (hX : ¬ ∃ body R, X = chs body ++ .ch '*' :: .ch '/' :: R ∧ NoNul body ∧ noClose body = true) :
    (lexFrom o (f + 2) (some '/') (withRest s (.ch '*' :: X))).tok = .stop ∧
    (lexFrom o (f + 2) (some '/') (withRest s (.ch '*' :: X))).st.err = true := by
  have h := lexFrom_comment_unclosed o hx f s X ((splitComment_none_iff X).mpr hX)
  exact ⟨h.1, h.2.2⟩

/-! ## Separators -/

/-- **the body of `Lex` skips a separator whatever follows it**: blanks, tabs, newlines, carriage returns and closed
    comments in any number and order, followed by ANY source `X`; it goes on with the stream of `X`, with fuel
    `f' + 1` where `f' ≤ f ≤ f' + sep.length` (only comments use fuel, one unit each) -/
theorem separator_skipped (o : Oracles) (hx : o.xidStart '/' = false) {sep : List Char} (hs : Sep sep) (s : LState)
    (X : List Src) (f : Nat) (hf : sep.length ≤ f) :
    ∃ f', f' ≤ f ∧ f ≤ f' + sep.length ∧
      lexFrom o (f + 1) (peekR (chs sep ++ X)) (afterR s (chs sep ++ X)) = lexFrom o (f' + 1) (peekR X) (afterR s X) :=
  lexFrom_skip_sep o hx hs s X f hf

/-- a separator, then a token start at which the body of `Lex` records an error: the input is rejected -/
theorem rejects_error_after_separator (o : Oracles) (hx : o.xidStart '/' = false) (bytes : List UInt8)
    {sep : List Char} (hs : Sep sep) (X : List Src) (hd : decodeAll bytes = chs sep ++ X)
    (h : ∀ f, X.length + 1 ≤ f → (lexFrom o (f + 1) (peekR X) (afterR (LState.init bytes) X)).st.err = true) :
    parse o bytes = .err :=
  parse_err_after_sep o hx bytes hs X hd h

/-- **an input whose first token start (after an optional separator) opens a comment that is never closed** —
    end of input, NUL or an undecodable byte before the first `*/` — **is rejected** -/
theorem rejects_unterminated_comment (o : Oracles) (hx : o.xidStart '/' = false) (bytes : List UInt8)
    {sep : List Char} (hs : Sep sep) (X : List Src)
    (hX : ¬ ∃ body R, X = chs body ++ .ch '*' :: .ch '/' :: R ∧ NoNul body ∧ noClose body = true)
    (hd : decodeAll bytes = chs sep ++ .ch '/' :: .ch '*' :: X) : parse o bytes = .err :=
  parse_err_of_unclosed_comment o hx bytes hs X ((splitComment_none_iff X).mpr hX) hd

/-- the same for a text: separator, `/*`, a NUL-free text without `*/`, end of the input -/
theorem rejects_unterminated_comment_text (o : Oracles) (hx : o.xidStart '/' = false) {sep : List Char}
    (hs : Sep sep) (pre : List Char) (hn : NoNul pre) (hb : noClose pre = true) :
    parse o (utf8 (sep ++ '/' :: '*' :: pre)) = .err := by
  refine parse_err_of_unclosed_comment o hx _ hs (chs pre) ?_ ?_
  · have := splitComment_stop pre hn hb [] rfl
    simpa using this
  · rw [decodeAll_utf8]; simp [chs]

/-! ## Single characters -/

/-- **the decision of `Lex` on the current rune `c`** (white space skipped): the first applicable case of identifier
    start / decimal digit / `"` / `$` / `/` (comment or the token `/`) / `.` (number or the token `.`) / private-use
    token rune (error) / `scanOperator` -/
theorem first_character_decides (o : Oracles) (c : Char) (hws : isWhitespace c = false) (f : Nat) (s : LState) :
    lexFrom o (f + 1) (some c) s =
      if isIdentStart o (some c) then scanIdent o c s
      else if isDecimal c then scanNumber o c false [] s
      else if c = '"' then scanString .string s
      else if c = '$' then scanVariable o s
      else if c = '/' then
        (if (next s).1 = some '*' then
          lexFrom o f
            (commentLoop ((next (next s).2).2.rest.length + 3) (next (next s).2).1 (next (next s).2).2).1
            (commentLoop ((next (next s).2).2.rest.length + 3) (next (next s).2).1 (next (next s).2).2).2
         else ⟨.slash, ['/'], (next s).1, (next s).2⟩)
      else if c = '.' then
        (match (next s).1 with
         | some d =>
           if isDecimal d then scanNumber o d true ['.'] (next s).2 else ⟨.dot, ['.'], (next s).1, (next s).2⟩
         | none => ⟨.dot, ['.'], (next s).1, (next s).2⟩)
      else if isPrivateTokenRune c then ⟨.stop, [], none, setErr (next s).2⟩
      else scanOperator c s :=
  lexFrom_dispatch o c hws f s

/-- a backslash OUTSIDE a string starts an identifier (it is the beginning of an escape), for every oracle -/
theorem backslash_starts_identifier (o : Oracles) (f : Nat) (s : LState) :
    lexFrom o (f + 1) (some '\\') s = scanIdent o '\\' s := by
  rw [lexFrom_dispatch o '\\' (by decide), if_pos (by simp [isIdentStart])]

/-- **the token-starting characters, class by class** (`o` not taking the punctuation / digits for identifier
    starts): an identifier start → `scanIdent` (a keyword or identifier token, or `stopTok` with an error; never
    `$unk`); a decimal digit → `scanNumber`; `"` → `scanString`; `$` → `scanVariable` (a variable, the token `$`, or
    `stopTok`); `/` not followed by `*` → the token `/`; `.` followed by a digit → `scanNumber`, otherwise the token `.` -/
theorem start_classes (o : Oracles) (f : Nat) (s : LState) :
    (∀ c, isWhitespace c = false → isIdentStart o (some c) = true → lexFrom o (f + 1) (some c) s = scanIdent o c s) ∧
    (∀ c, ((scanIdent o c s).tok = .stop ∧ (scanIdent o c s).st.err = true) ∨
          ((scanIdent o c s).tok ≠ .stop ∧ (scanIdent o c s).tok ≠ .unk)) ∧
    (∀ c, isDecimal c = true → o.xidStart c = false → lexFrom o (f + 1) (some c) s = scanNumber o c false [] s) ∧
    (o.xidStart '"' = false → lexFrom o (f + 1) (some '"') s = scanString .string s) ∧
    (o.xidStart '$' = false → lexFrom o (f + 1) (some '$') s = scanVariable o s) ∧
    ((scanVariable o s).tok = .variable ∨ (scanVariable o s).tok = .dollar ∨ (scanVariable o s).tok = .stop) ∧
    (o.xidStart '/' = false → (next s).1 ≠ some '*' →
      lexFrom o (f + 1) (some '/') s = ⟨.slash, ['/'], (next s).1, (next s).2⟩) ∧
    (o.xidStart '.' = false → ∀ d, (next s).1 = some d → isDecimal d = true →
      lexFrom o (f + 1) (some '.') s = scanNumber o d true ['.'] (next s).2) ∧
    (o.xidStart '.' = false → isDecimalR (next s).1 = false →
      lexFrom o (f + 1) (some '.') s = ⟨.dot, ['.'], (next s).1, (next s).2⟩) :=
  ⟨fun c hws h => lexFrom_ident o c hws h f s, fun c => scanIdent_outcome o c s,
   fun c hd hid => lexFrom_digit o c hd hid f s, fun h => lexFrom_quote o h f s, fun h => lexFrom_dollar o h f s,
   scanVariable_tok o s, fun h hn => lexFrom_slash o h f s hn, fun h d hd1 hd2 => lexFrom_dot_digit o h f s d hd1 hd2,
   fun h hn => lexFrom_dot_other o h f s hn⟩

/-- **every other rune is the token `$unk`, and the lexer records no error for it.**  A rune that is not white
    space, is not one of the characters that can start a token (`StartsToken`: identifier start, digit, `"`, `$`,
    `/`, `.`, `= > < ! & | *`, `( ) [ ] { } , ? @ + - %`) and is not a private-use token rune U+E000 … U+E032 —
    e.g. `#`, `^`, `~`, a backquote, `;`, `'`, `:`, a control character, a Unicode rune that is no identifier
    start — is returned as the token `unk` with the rune as its text; the state is the one `next` leaves.
    (Go: `Lex` returns the rune itself, which goyacc maps to `$unk`; the syntax error is the parser's.) -/
theorem other_rune_is_unk (o : Oracles) (c : Char) (hws : isWhitespace c = false) (hn : ¬ StartsToken o c)
    (hp : isPrivateTokenRune c = false) (f : Nat) (s : LState) :
    lexFrom o (f + 1) (some c) s = ⟨.unk, [c], (next s).1, (next s).2⟩ :=
  lexFrom_other o c hws hn hp f s

/-- a private-use rune U+E000 … U+E032 at a token start: `stopTok` and an error ("invalid character") -/
theorem private_rune_is_error (o : Oracles) (c : Char) (hp : isPrivateTokenRune c = true) (hid : o.xidStart c = false)
    (f : Nat) (s : LState) :
    lexFrom o (f + 1) (some c) s = ⟨.stop, [], none, setErr (next s).2⟩ :=
  lexFrom_private o c hp hid f s

/-- **the operators**, exactly: `==`, `>=`, `>`, `<=`, `<>`, `<`, `!=`, `!`, `&&`, `||`, `**`, `*`; a lone `=`, `&`, `|`
    is the token `$unk`.  `twoR t s`: token `t`, no text, two runes consumed; `oneR t c s`: token `t`, text `c`. -/
theorem operator_table (s : LState) :
    scanOperator '=' s = (if (next s).1 = some '=' then twoR .equal s else oneR .unk '=' s) ∧
    scanOperator '>' s = (if (next s).1 = some '=' then twoR .greaterEq s else oneR .greater '>' s) ∧
    scanOperator '<' s = (if (next s).1 = some '=' then twoR .lessEq s
      else if (next s).1 = some '>' then twoR .notEq s else oneR .less '<' s) ∧
    scanOperator '!' s = (if (next s).1 = some '=' then twoR .notEq s else oneR .not '!' s) ∧
    scanOperator '&' s = (if (next s).1 = some '&' then twoR .and s else oneR .unk '&' s) ∧
    scanOperator '|' s = (if (next s).1 = some '|' then twoR .or s else oneR .unk '|' s) ∧
    scanOperator '*' s = (if (next s).1 = some '*' then twoR .any s else oneR .star '*' s) :=
  ⟨scanOperator_eq s, scanOperator_gt s, scanOperator_lt s, scanOperator_bang s, scanOperator_amp s,
    scanOperator_bar s, scanOperator_star s⟩

/-- one of `= > < ! & | *` at a token start goes to `scanOperator` (the oracle not taking it for an identifier start) -/
theorem operator_start (o : Oracles) (c : Char) (hc : c ∈ opChars) (hid : o.xidStart c = false) (f : Nat) (s : LState) :
    lexFrom o (f + 1) (some c) s = scanOperator c s :=
  lexFrom_op o c hc hid f s

/-- the twelve single-character tokens `( ) [ ] { } , ? @ + - %`: each is its own token, with itself as text -/
theorem solo_table (o : Oracles) (c : Char) (hc : c ∈ solo) (hid : o.xidStart c = false) (f : Nat) (s : LState) :
    lexFrom o (f + 1) (some c) s = ⟨tokOfRune c, [c], (next s).1, (next s).2⟩ ∧
    solo.map tokOfRune = [.lparen, .rparen, .lbrack, .rbrack, .lbrace, .rbrace, .comma, .question, .at, .plus,
      .minus, .percent] :=
  ⟨lexFrom_solo o c hc hid f s, by decide⟩

/-- **when the body of `Lex` answers `$unk`** — exactly (for a rune that is not white space and does not open a
    comment): the rune cannot start a token and is no private-use token rune, or it is a lone `=`, `&`, `|` -/
theorem unk_iff (o : Oracles) (c : Char) (hws : isWhitespace c = false) (f : Nat) (s : LState)
    (hcom : ¬ (c = '/' ∧ (next s).1 = some '*')) :
    (lexFrom o (f + 1) (some c) s).tok = .unk ↔
      (¬ StartsToken o c ∧ isPrivateTokenRune c = false) ∨
      (isIdentStart o (some c) = false ∧ (c = '=' ∨ c = '&' ∨ c = '|') ∧ (next s).1 ≠ some c) :=
  lexFrom_unk_iff o c hws f s hcom

/-! ## The lift to `Parse` -/

/-- if the first token of the input is `$unk`, the input is rejected -/
theorem rejects_unk_first (o : Oracles) (bytes : List UInt8) (h : (Lex.lex o (LState.init bytes)).1 = .unk) :
    parse o bytes = .err :=
  parse_err_of_unk_first o bytes h

/-- if the first token is `strict` / `lax` and the second is `$unk`, the input is rejected -/
theorem rejects_mode_then_unk (o : Oracles) (bytes : List UInt8)
    (h1 : (Lex.lex o (LState.init bytes)).1 = .strict ∨ (Lex.lex o (LState.init bytes)).1 = .lax)
    (h2 : (Lex.lex o (Lex.lex o (LState.init bytes)).2.2).1 = .unk) : parse o bytes = .err :=
  parse_err_of_mode_unk o bytes h1 h2

/-- **an input whose first character (after an optional separator) cannot start a token is rejected**,
    whatever follows (NUL and undecodable bytes included) -/
theorem rejects_other_char_first (o : Oracles) (hx : o.xidStart '/' = false) (bytes : List UInt8) {sep : List Char}
    (hs : Sep sep) (c : Char) (hc : c.toNat ≠ 0) (hws : isWhitespace c = false) (hn : ¬ StartsToken o c)
    (hp : isPrivateTokenRune c = false) (X : List Src) (hd : decodeAll bytes = chs sep ++ .ch c :: X) :
    parse o bytes = .err :=
  parse_err_of_other_char o hx bytes hs c hc hws hn hp X hd

/-- the same for a text -/
theorem rejects_other_char_first_text (o : Oracles) (hx : o.xidStart '/' = false) {sep : List Char}
    (hs : Sep sep) (c : Char) (hc : c.toNat ≠ 0) (hws : isWhitespace c = false) (hn : ¬ StartsToken o c)
    (hp : isPrivateTokenRune c = false) (rest : List Char) : parse o (utf8 (sep ++ c :: rest)) = .err := by
  refine parse_err_of_other_char o hx _ hs c hc hws hn hp (chs rest) ?_
  rw [decodeAll_utf8]; simp [chs]

/-- an input whose first character (after an optional separator) is a private-use rune U+E000 … U+E032 is rejected -/
theorem rejects_private_rune_first (o : Oracles) (hx : o.xidStart '/' = false) (bytes : List UInt8) {sep : List Char}
    (hs : Sep sep) (c : Char) (hp : isPrivateTokenRune c = true) (hid : o.xidStart c = false)
    (X : List Src) (hd : decodeAll bytes = chs sep ++ .ch c :: X) : parse o bytes = .err :=
  parse_err_of_private_char o hx bytes hs c hp hid X hd

/-- an input whose first token (after an optional separator) is a lone `=`, `&` or `|` is rejected -/
theorem rejects_lone_operator_first (o : Oracles) (hx : o.xidStart '/' = false) (bytes : List UInt8) {sep : List Char}
    (hs : Sep sep) (c : Char) (hc : c = '=' ∨ c = '&' ∨ c = '|') (hid : o.xidStart c = false)
    (X : List Src) (hX : peekR X ≠ some c) (hd : decodeAll bytes = chs sep ++ .ch c :: X) : parse o bytes = .err :=
  parse_err_of_lone_op o hx bytes hs c hc hid X hX hd

/-! ## General position -/

/-- an accepted input: after some number of calls of `Lex` the lexer is in the clean end state (nothing left, no
    look-ahead, no error), where `Lex` keeps answering `stopTok` -/
theorem accepted_reaches_end (o : Oracles) (bytes : List UInt8) (a : AST) (h : parse o bytes = .ok a) :
    ∃ k, lexIter o k (LState.init bytes) = endState :=
  parse_ok_reaches_end o bytes a h

/-- **an accepted input has no lexing error anywhere in its token stream**: none of the successive calls of `Lex`
    on the input, however many, leaves an error on record -/
theorem accepted_has_no_lex_error (o : Oracles) (bytes : List UInt8) (a : AST) (h : parse o bytes = .ok a) :
    ∀ k, (lexIter o k (LState.init bytes)).err = false :=
  parse_ok_lexIter_no_error o bytes a h

/-- the contrapositive: a lexing error after any number of calls of `Lex` rejects the input -/
theorem lex_error_anywhere_rejects (o : Oracles) (bytes : List UInt8) (k : Nat)
    (h : (lexIter o k (LState.init bytes)).err = true) : parse o bytes = .err :=
  parse_err_of_lexIter_error o bytes k h

/-- **a malformed token at ANY token start the lexer reaches rejects the input**: after `k` calls of `Lex` the lexer
    stands before `Y`, and the body of `Lex` on the stream of `Y` ends with an error on record -/
theorem error_at_any_token_start_rejects (o : Oracles) (bytes : List UInt8) (k : Nat) (Y : List Src)
    (hst : Standing (lexIter o k (LState.init bytes)) Y)
    (h : (lexFrom o (Y.tail.length + 3) (peekR Y) (afterR (lexIter o k (LState.init bytes)) Y)).st.err = true) :
    parse o bytes = .err :=
  parse_err_of_error_at o bytes k Y hst h

/-- the same with a separator before the malformed token -/
theorem error_after_separator_anywhere_rejects (o : Oracles) (hx : o.xidStart '/' = false) (bytes : List UInt8)
    (k : Nat) {sep : List Char} (hs : Sep sep) (X : List Src)
    (hst : Standing (lexIter o k (LState.init bytes)) (chs sep ++ X))
    (h : ∀ f, X.length + 1 ≤ f →
      (lexFrom o (f + 1) (peekR X) (afterR (lexIter o k (LState.init bytes)) X)).st.err = true) :
    parse o bytes = .err :=
  parse_err_after_sep_at o hx bytes k hs X hst h

/-- **an unterminated comment at ANY token start the lexer reaches rejects the input** -/
theorem unterminated_comment_anywhere_rejects (o : Oracles) (hx : o.xidStart '/' = false) (bytes : List UInt8)
    (k : Nat) {sep : List Char} (hs : Sep sep) (X : List Src)
    (hX : ¬ ∃ body R, X = chs body ++ .ch '*' :: .ch '/' :: R ∧ NoNul body ∧ noClose body = true)
    (hst : Standing (lexIter o k (LState.init bytes)) (chs sep ++ .ch '/' :: .ch '*' :: X)) :
    parse o bytes = .err :=
  parse_err_of_unclosed_comment_at o hx bytes k hs X ((splitComment_none_iff X).mpr hX) hst

/-- **a private-use rune U+E000 … U+E032 at ANY token start the lexer reaches rejects the input** -/
theorem private_rune_anywhere_rejects (o : Oracles) (hx : o.xidStart '/' = false) (bytes : List UInt8)
    (k : Nat) {sep : List Char} (hs : Sep sep) (c : Char) (hp : isPrivateTokenRune c = true)
    (hid : o.xidStart c = false) (X : List Src)
    (hst : Standing (lexIter o k (LState.init bytes)) (chs sep ++ .ch c :: X)) : parse o bytes = .err :=
  parse_err_of_private_char_at o hx bytes k hs c hp hid X hst

/-! ## The listed malformed forms, each from the theorems

`o` is any instance of the oracles for which the characters named are no identifier starts (true of `xid.Start`). -/

section examples
variable (o : Oracles) (hx : o.xidStart '/' = false)
include hx

/-- `/* x`, and with any separator before it and any NUL-free text without `*/` in it -/
example : parse o (utf8 "/* x".toList) = .err :=
  rejects_unterminated_comment_text o hx Sep.nil " x".toList (by decide) (by decide)
example : parse o (utf8 " \t/* a */\n/* x * / ".toList) = .err :=
  rejects_unterminated_comment_text o hx (sep := " \t/* a */\n".toList)
    (Sep.ws (by decide) (Sep.ws (by decide) (Sep.comment (body := " a ".toList) (by decide) (by decide)
      (Sep.ws (by decide) Sep.nil)))) " x * / ".toList (by decide) (by decide)

/-- `/*/` -/
example : parse o (utf8 "/*/".toList) = .err :=
  rejects_unterminated_comment_text o hx Sep.nil "/".toList (by decide) (by decide)

/-- NUL inside a comment: `/* a <NUL> */ $` -/
example : parse o (utf8 ("/* a ".toList ++ Char.ofNat 0 :: " */ $".toList)) = .err := by
  refine rejects_unterminated_comment o hx _ Sep.nil (chs " a ".toList ++ .ch (Char.ofNat 0) :: chs " */ $".toList) ?_ ?_
  · exact (splitComment_none_iff _).mp (splitComment_stop " a ".toList (by decide) (by decide) _ rfl)
  · rw [decodeAll_utf8]; rfl

/-- an undecodable byte inside a comment -/
example : parse o (utf8 "/* a ".toList ++ [0xff] ++ utf8 " */ $".toList) = .err := by
  refine rejects_unterminated_comment o hx _ Sep.nil (chs " a ".toList ++ .bad :: chs " */ $".toList) ?_ ?_
  · exact (splitComment_none_iff _).mp (splitComment_stop " a ".toList (by decide) (by decide) _ rfl)
  · decide +kernel

/-- the sample characters that cannot start a token: `#`, `^`, `~`, backquote, `;`, `'`, `:`, the control characters
    U+0001, U+000B (vertical tab), U+000C (form feed), U+007F, the no-break space U+00A0 -/
def otherSamples : List Char :=
  ['#', '^', '~', '`', ';', '\'', ':', Char.ofNat 1, Char.ofNat 0xB, Char.ofNat 0xC, Char.ofNat 0x7F, Char.ofNat 0xA0]

omit hx in
theorem otherSamples_facts (c : Char) (hc : c ∈ otherSamples) (hid : o.xidStart c = false) :
    c.toNat ≠ 0 ∧ isWhitespace c = false ∧ ¬ StartsToken o c ∧ isPrivateTokenRune c = false := by
  simp only [otherSamples, List.mem_cons, List.not_mem_nil, or_false] at hc
  rcases hc with h | h | h | h | h | h | h | h | h | h | h | h <;> subst h <;>
    refine ⟨by decide, by decide, ?_, by decide⟩ <;>
    (unfold StartsToken; rw [hid]; decide)

/-- **a text that starts (after an optional separator) with one of the sample characters is rejected** -/
theorem rejects_sample_char (c : Char) (hc : c ∈ otherSamples) (hid : o.xidStart c = false) {sep : List Char}
    (hs : Sep sep) (rest : List Char) : parse o (utf8 (sep ++ c :: rest)) = .err := by
  obtain ⟨h1, h2, h3, h4⟩ := otherSamples_facts o c hc hid
  exact rejects_other_char_first_text o hx hs c h1 h2 h3 h4 rest

example (h : o.xidStart '#' = false) : parse o (utf8 "# ".toList) = .err :=
  rejects_sample_char o hx '#' (by decide) h Sep.nil " ".toList
example (h : o.xidStart '^' = false) : parse o (utf8 "^".toList) = .err :=
  rejects_sample_char o hx '^' (by decide) h Sep.nil []
example (h : o.xidStart '~' = false) : parse o (utf8 " ~$".toList) = .err :=
  rejects_sample_char o hx '~' (by decide) h Sep.blank "$".toList
example (h : o.xidStart '`' = false) : parse o (utf8 "`a`".toList) = .err :=
  rejects_sample_char o hx '`' (by decide) h Sep.nil "a`".toList
example (h : o.xidStart ';' = false) : parse o (utf8 ";".toList) = .err :=
  rejects_sample_char o hx ';' (by decide) h Sep.nil []
example (h : o.xidStart '\'' = false) : parse o (utf8 "'a'".toList) = .err :=
  rejects_sample_char o hx '\'' (by decide) h Sep.nil "a'".toList
example (h : o.xidStart (Char.ofNat 1) = false) : parse o (utf8 [Char.ofNat 1]) = .err :=
  rejects_sample_char o hx (Char.ofNat 1) (by decide) h Sep.nil []
example (h : o.xidStart (Char.ofNat 0xB) = false) : parse o (utf8 (Char.ofNat 0xB :: "$".toList)) = .err :=
  rejects_sample_char o hx (Char.ofNat 0xB) (by decide) h Sep.nil "$".toList

/-- a private-use rune: U+E002 (which the generated parser would take for the keyword `to`) -/
example (h : o.xidStart (Char.ofNat 0xE002) = false) (rest : List Char) :
    parse o (utf8 (Char.ofNat 0xE002 :: rest)) = .err := by
  refine rejects_private_rune_first o hx _ Sep.nil (Char.ofNat 0xE002) (by decide) h (chs rest) ?_
  rw [decodeAll_utf8]; rfl

/-- a lone `=`, `&`, `|` -/
example (h : o.xidStart '=' = false) : parse o (utf8 "= 1".toList) = .err := by
  refine rejects_lone_operator_first o hx _ Sep.nil '=' (Or.inl rfl) h (chs " 1".toList) (by decide) ?_
  rw [decodeAll_utf8]; rfl
example (h : o.xidStart '&' = false) : parse o (utf8 "& $".toList) = .err := by
  refine rejects_lone_operator_first o hx _ Sep.nil '&' (Or.inr (Or.inl rfl)) h (chs " $".toList) (by decide) ?_
  rw [decodeAll_utf8]; rfl
example (h : o.xidStart '|' = false) : parse o (utf8 "|".toList) = .err := by
  refine rejects_lone_operator_first o hx _ Sep.nil '|' (Or.inr (Or.inr rfl)) h [] (by decide) ?_
  rw [decodeAll_utf8]; rfl

end examples

/-! ## Cross-checks: the model evaluated on the ASCII instance of the oracles (all agree with the Go package) -/

theorem malformed_forms_evaluated :
    run "/* x" = "ERR" ∧ run "/*/" = "ERR" ∧ run "/**/ $" = "$" ∧ run "/*/ */ $" = "$" ∧ run "/* a */ */" = "ERR" ∧
    run "$ /* x" = "ERR" ∧ run "$ /* *" = "ERR" ∧ run "$ /**/ /**/ " = "$" ∧ run "/* */" = "ERR" ∧
    outcome (parse asciiOracles (ascii "/* a " ++ [0] ++ ascii " */ $")) = "ERR" ∧
    outcome (parse asciiOracles (ascii "/* a " ++ [0xff] ++ ascii " */ $")) = "ERR" ∧
    run "# " = "ERR" ∧ run "^" = "ERR" ∧ run "~" = "ERR" ∧ run "`" = "ERR" ∧ run ";" = "ERR" ∧ run "'a'" = "ERR" ∧
    run ":" = "ERR" ∧ run "\x01" = "ERR" ∧ run "\x7f" = "ERR" ∧ run "\x0b$" = "ERR" ∧ run "\x0c$" = "ERR" ∧
    run "=" = "ERR" ∧ run "&" = "ERR" ∧ run "|" = "ERR" ∧
    outcome (parse asciiOracles [0xEE, 0x80, 0x80]) = "ERR" ∧ outcome (parse asciiOracles [0xEE, 0x80, 0xB2]) = "ERR" ∧
    outcome (parse asciiOracles [0xEE, 0x80, 0xB3]) = "ERR" := by
  decide +kernel

/-- `$unk` and operator fragments in other positions (not covered by a general theorem, see the header) -/
theorem unk_in_other_positions_evaluated :
    run "$ ; " = "ERR" ∧ run "$ = 1" = "ERR" ∧ run "$ & $" = "ERR" ∧ run "$ | $" = "ERR" ∧ run "$ #" = "ERR" ∧
    run "$.a#" = "ERR" ∧ run "strict #" = "ERR" ∧ run "lax ^" = "ERR" ∧ run "$ < > 1" = "ERR" ∧
    run "$ ! = 1" = "ERR" ∧ run "$ = = 1" = "ERR" ∧ run "$ ** 2" = "ERR" ∧ run "$ /* */ #" = "ERR" ∧
    run "$ == 1" = "($ == 1)" ∧ run "$ <> 1" = "($ != 1)" ∧ run "$ /* c */ / /* d */ 2" = "($ / 2)" ∧
    run "$.\\u0061" = "$.\"a\"" ∧ run "\\u0061" = "ERR" := by
  decide +kernel

end C04b
end Sqljson

section
open Sqljson.C04b
#print axioms comment_loop_exact
#print axioms comment_closes_at_first
#print axioms comment_unterminated
#print axioms comment_slash_after_opener
#print axioms comment_empty
#print axioms comment_first_close_wins
#print axioms unterminated_comment_stops
#print axioms separator_skipped
#print axioms rejects_error_after_separator
#print axioms rejects_unterminated_comment
#print axioms rejects_unterminated_comment_text
#print axioms first_character_decides
#print axioms backslash_starts_identifier
#print axioms start_classes
#print axioms other_rune_is_unk
#print axioms private_rune_is_error
#print axioms operator_table
#print axioms operator_start
#print axioms solo_table
#print axioms unk_iff
#print axioms rejects_unk_first
#print axioms rejects_mode_then_unk
#print axioms rejects_other_char_first
#print axioms rejects_other_char_first_text
#print axioms rejects_private_rune_first
#print axioms rejects_lone_operator_first
#print axioms accepted_reaches_end
#print axioms accepted_has_no_lex_error
#print axioms lex_error_anywhere_rejects
#print axioms error_at_any_token_start_rejects
#print axioms error_after_separator_anywhere_rejects
#print axioms unterminated_comment_anywhere_rejects
#print axioms private_rune_anywhere_rejects
#print axioms otherSamples_facts
#print axioms rejects_sample_char
#print axioms malformed_forms_evaluated
#print axioms unk_in_other_positions_evaluated
end
