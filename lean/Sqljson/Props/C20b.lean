import Sqljson.Lemmas.CancelSim
import Sqljson.Props.C20
/-!
# C20b — Cancellation at the k-th poll: the cancellation error below the poll count, the uncancelled outcome from it on

`Props/C20.lean` proves one half: if a context poll fails during a call, the call returns the
cancellation error (`C20.never_a_result`).  This file proves the other half from the simulation in
`Lemmas/CancelSim.lean`: **a call none of whose polls fails returns exactly what the same call
returns under a context that is never done** — the budget is read by the poll and by nothing else,
and the executor never clears the cancellation flag, so no cancellation can be absorbed on the way.

Notation: `withBudget o (some k)` is the option set `o` with a context that is done from its `k`-th
poll on (the next `k` polls succeed), `withBudget o none` the one with a context that is never done;
`reaches e fuel a doc o k` says that the run with budget `some k` sees a failed poll.

For every entry point `e`, path `a` (well formed or not), document, option set and every `k`:

* `cancel_or_same`   the outcome with budget `k` is the cancellation error, or it is the uncancelled
                     outcome;
* `cancel_at_k`      which of the two: the cancellation error iff the `k`-th poll is reached
                     (`cancelled_of_reached`, `same_of_not_reached`);
* `reaches_antitone` if the `(k+1)`-th poll is reached then so is the `k`-th; hence
  `reaches_of_le` / `not_reaches_of_le`: the set of `k` at which the call is cancelled is an initial
  segment of ℕ, and `threshold`: if it is not all of ℕ it is `{k | k < p}` for one `p` — the number
  of polls of the uncancelled run;
* `cancelled_below`, `same_from`: for every `k < p` the outcome is the cancellation error, for every
  `k ≥ p` it is the uncancelled outcome.

The hypotheses `oof = false` and `panicked = false` (the model's evaluation finished within its
fuel; no Go panic) are needed for the cancelled branch only, exactly as in `C20.never_a_result`; for
an uncancelled run both flags are those of the uncancelled run (`flags_same`).
-/

namespace Sqljson
namespace C20b
open Exec Api Exec.Cancel Api.Cancel

/-- the option set `o` with the context's budget replaced -/
def withBudget (o : Opts) (b : Option Nat) : Opts := { o with budget := b }

/-- the run with budget `some k` sees a failed poll -/
def reaches (e : Entry) (fuel : Nat) (a : AST) (doc : Item) (o : Opts) (k : Nat) : Prop :=
  (runRes e fuel a doc (withBudget o (some k))).st.sawCancel = true

instance (e : Entry) (fuel : Nat) (a : AST) (doc : Item) (o : Opts) (k : Nat) :
    Decidable (reaches e fuel a doc o k) := inferInstanceAs (Decidable (_ = true))

theorem not_reaches_iff (e : Entry) (fuel : Nat) (a : AST) (doc : Item) (o : Opts) (k : Nat) :
    ¬ reaches e fuel a doc o k ↔ (runRes e fuel a doc (withBudget o (some k))).st.sawCancel = false := by
  unfold reaches; simp

/-- the `k`-th poll is reached ⇒ the cancellation error (this is `C20.never_a_result`) -/
theorem cancelled_of_reached (e : Entry) (fuel : Nat) (a : AST) (doc : Item) (o : Opts) (k : Nat)
    (hr : reaches e fuel a doc o k)
    (hfuel : (runRes e fuel a doc (withBudget o (some k))).st.oof = false)
    (hpanic : (runRes e fuel a doc (withBudget o (some k))).st.panicked = false) :
    run e fuel a doc (withBudget o (some k)) = .error .cancelled :=
  C20.never_a_result e fuel a doc _ hr hfuel hpanic

/-- the `k`-th poll is not reached ⇒ exactly the uncancelled outcome (items, boolean, `NULL`,
    error, panic or out-of-fuel alike; no side condition) -/
theorem same_of_not_reached (e : Entry) (fuel : Nat) (a : AST) (doc : Item) (o : Opts) (k : Nat)
    (hr : ¬ reaches e fuel a doc o k) :
    run e fuel a doc (withBudget o (some k)) = run e fuel a doc (withBudget o none) :=
  (run_sim (fun _ => none) pollOK_none e fuel a doc (withBudget o (some k))
    ((not_reaches_iff e fuel a doc o k).1 hr)).symm

/-- the underlying executor results agree in every field but the budget of the final state -/
theorem runRes_same_of_not_reached (e : Entry) (fuel : Nat) (a : AST) (doc : Item) (o : Opts) (k : Nat)
    (hr : ¬ reaches e fuel a doc o k) :
    SameUpToBudget (runRes e fuel a doc (withBudget o (some k))) (runRes e fuel a doc (withBudget o none)) :=
  SameUpToBudget.of_liftR (φ := fun _ => none)
    (runRes_sim (fun _ => none) pollOK_none e fuel a doc (withBudget o (some k))
      ((not_reaches_iff e fuel a doc o k).1 hr))

/-- in particular the sticky flags of an uncancelled run are those of the run that cannot be cancelled -/
theorem flags_same (e : Entry) (fuel : Nat) (a : AST) (doc : Item) (o : Opts) (k : Nat)
    (hr : ¬ reaches e fuel a doc o k) :
    (runRes e fuel a doc (withBudget o (some k))).st.oof = (runRes e fuel a doc (withBudget o none)).st.oof ∧
    (runRes e fuel a doc (withBudget o (some k))).st.panicked =
      (runRes e fuel a doc (withBudget o none)).st.panicked ∧
    (runRes e fuel a doc (withBudget o none)).st.sawCancel = false := by
  have h := (runRes_same_of_not_reached e fuel a doc o k hr).2.2.2
  have hk := (not_reaches_iff e fuel a doc o k).1 hr
  have h1 := congrArg St.oof h
  have h2 := congrArg St.panicked h
  have h3 := congrArg St.sawCancel h
  simp only [unb] at h1 h2 h3
  exact ⟨h1, h2, by rw [← h3]; exact hk⟩

/-- **cancelled, or the same**: with a context that is done from its `k`-th poll on, every entry
    point returns the cancellation error or exactly what it returns when never cancelled -/
theorem cancel_or_same (e : Entry) (fuel : Nat) (a : AST) (doc : Item) (o : Opts) (k : Nat)
    (hfuel : (runRes e fuel a doc (withBudget o (some k))).st.oof = false)
    (hpanic : (runRes e fuel a doc (withBudget o (some k))).st.panicked = false) :
    run e fuel a doc (withBudget o (some k)) = .error .cancelled ∨
    run e fuel a doc (withBudget o (some k)) = run e fuel a doc (withBudget o none) := by
  by_cases hr : reaches e fuel a doc o k
  · exact Or.inl (cancelled_of_reached e fuel a doc o k hr hfuel hpanic)
  · exact Or.inr (same_of_not_reached e fuel a doc o k hr)

/-- **cancellation at the `k`-th poll**: the cancellation error if that poll is reached, the
    uncancelled outcome if it is not -/
theorem cancel_at_k (e : Entry) (fuel : Nat) (a : AST) (doc : Item) (o : Opts) (k : Nat)
    (hfuel : (runRes e fuel a doc (withBudget o (some k))).st.oof = false)
    (hpanic : (runRes e fuel a doc (withBudget o (some k))).st.panicked = false) :
    (reaches e fuel a doc o k → run e fuel a doc (withBudget o (some k)) = .error .cancelled) ∧
    (¬ reaches e fuel a doc o k →
      run e fuel a doc (withBudget o (some k)) = run e fuel a doc (withBudget o none)) :=
  ⟨fun hr => cancelled_of_reached e fuel a doc o k hr hfuel hpanic,
   fun hr => same_of_not_reached e fuel a doc o k hr⟩

/-- budget monotonicity at the entry points: an uncancelled call is reproduced under every larger
    budget -/
theorem not_reaches_add (e : Entry) (fuel : Nat) (a : AST) (doc : Item) (o : Opts) (k j : Nat)
    (hr : ¬ reaches e fuel a doc o k) : ¬ reaches e fuel a doc o (k + j) := by
  have hk := (not_reaches_iff e fuel a doc o k).1 hr
  have h := runRes_sim (Option.map (· + j)) (pollOK_add j) e fuel a doc (withBudget o (some k)) hk
  have he : liftOpts (Option.map (· + j)) (withBudget o (some k)) = withBudget o (some (k + j)) := rfl
  rw [he] at h
  rw [not_reaches_iff, h]
  exact hk

/-- if cancelling at the `(k+1)`-th poll is observed then so is cancelling at the `k`-th -/
theorem reaches_antitone (e : Entry) (fuel : Nat) (a : AST) (doc : Item) (o : Opts) (k : Nat)
    (h : reaches e fuel a doc o (k + 1)) : reaches e fuel a doc o k := by
  by_cases hr : reaches e fuel a doc o k
  · exact hr
  · exact absurd h (not_reaches_add e fuel a doc o k 1 hr)

theorem not_reaches_of_le (e : Entry) (fuel : Nat) (a : AST) (doc : Item) (o : Opts) {k j : Nat}
    (hle : k ≤ j) (hr : ¬ reaches e fuel a doc o k) : ¬ reaches e fuel a doc o j := by
  obtain ⟨d, rfl⟩ := Nat.exists_eq_add_of_le hle
  exact not_reaches_add e fuel a doc o k d hr

/-- the budgets at which the call is cancelled form an initial segment of ℕ -/
theorem reaches_of_le (e : Entry) (fuel : Nat) (a : AST) (doc : Item) (o : Opts) {k j : Nat}
    (hle : j ≤ k) (hr : reaches e fuel a doc o k) : reaches e fuel a doc o j := by
  by_cases hj : reaches e fuel a doc o j
  · exact hj
  · exact absurd hr (not_reaches_of_le e fuel a doc o hle hj)

/-- if some budget suffices, there is one number `p` — the number of polls of the uncancelled run —
    such that the call is cancelled exactly at the budgets below `p` -/
theorem threshold (e : Entry) (fuel : Nat) (a : AST) (doc : Item) (o : Opts) (K : Nat)
    (hK : ¬ reaches e fuel a doc o K) : ∃ p, p ≤ K ∧ ∀ k, reaches e fuel a doc o k ↔ k < p := by
  induction K with
  | zero =>
    refine ⟨0, Nat.le_refl 0, fun k => ⟨fun hr => ?_, fun hlt => absurd hlt (Nat.not_lt_zero k)⟩⟩
    exact absurd (reaches_of_le e fuel a doc o (Nat.zero_le k) hr) hK
  | succ K ih =>
    by_cases hr : reaches e fuel a doc o K
    · refine ⟨K + 1, Nat.le_refl _, fun k => ⟨fun hk => ?_, fun hlt => ?_⟩⟩
      · apply Nat.lt_of_not_le
        intro hle
        exact not_reaches_of_le e fuel a doc o hle hK hk
      · exact reaches_of_le e fuel a doc o (Nat.le_of_lt_succ hlt) hr
    · obtain ⟨p, hp, h⟩ := ih hr
      exact ⟨p, Nat.le_succ_of_le hp, h⟩

/-- below the poll count: the cancellation error -/
theorem cancelled_below (e : Entry) (fuel : Nat) (a : AST) (doc : Item) (o : Opts) {k j : Nat}
    (hr : reaches e fuel a doc o k) (hle : j ≤ k)
    (hfuel : (runRes e fuel a doc (withBudget o (some j))).st.oof = false)
    (hpanic : (runRes e fuel a doc (withBudget o (some j))).st.panicked = false) :
    run e fuel a doc (withBudget o (some j)) = .error .cancelled :=
  cancelled_of_reached e fuel a doc o j (reaches_of_le e fuel a doc o hle hr) hfuel hpanic

/-- from the poll count on: the uncancelled outcome -/
theorem same_from (e : Entry) (fuel : Nat) (a : AST) (doc : Item) (o : Opts) {k j : Nat}
    (hr : ¬ reaches e fuel a doc o k) (hle : k ≤ j) :
    run e fuel a doc (withBudget o (some j)) = run e fuel a doc (withBudget o none) :=
  same_of_not_reached e fuel a doc o j (not_reaches_of_le e fuel a doc o hle hr)

/-- the statement with the threshold made explicit -/
theorem cancel_profile (e : Entry) (fuel : Nat) (a : AST) (doc : Item) (o : Opts) (K : Nat)
    (hK : ¬ reaches e fuel a doc o K) :
    ∃ p, p ≤ K ∧
      (∀ k, k < p → (runRes e fuel a doc (withBudget o (some k))).st.oof = false →
        (runRes e fuel a doc (withBudget o (some k))).st.panicked = false →
        run e fuel a doc (withBudget o (some k)) = .error .cancelled) ∧
      (∀ k, p ≤ k → run e fuel a doc (withBudget o (some k)) = run e fuel a doc (withBudget o none)) := by
  obtain ⟨p, hp, h⟩ := threshold e fuel a doc o K hK
  refine ⟨p, hp, fun k hk hf hpk => ?_, fun k hk => ?_⟩
  · exact cancelled_of_reached e fuel a doc o k ((h k).2 hk) hf hpk
  · exact same_of_not_reached e fuel a doc o k (fun hr => absurd ((h k).1 hr) (Nat.not_lt.2 hk))

/-! ## non-vacuity: concrete runs -/

/-- `$.a` -/
def pathA : AST := ⟨.const .root (some (.key ['a'] none)), true, false⟩
/-- `{"a": 1}` -/
def docA : Item := .obj [(['a'], .int 1)]

/-- `$.a` makes two polls: budgets 0 and 1 are cancelled, budget 2 is the uncancelled outcome -/
example : run .query 10 pathA docA (withBudget {} (some 0)) = .error .cancelled := by rfl
example : run .query 10 pathA docA (withBudget {} (some 1)) = .error .cancelled := by rfl
example : run .query 10 pathA docA (withBudget {} (some 2)) = .items [.int 1] := by rfl
example : run .query 10 pathA docA (withBudget {} none) = .items [.int 1] := by rfl
example : reaches .query 10 pathA docA {} 1 := by rfl
example : ¬ reaches .query 10 pathA docA {} 2 := by decide
example : run .exists 10 pathA docA (withBudget {} (some 1)) = .error .cancelled := by rfl
example : run .exists 10 pathA docA (withBudget {} (some 2)) = .bool true := by rfl

/-- `($.a == 1) is unknown` (a predicate path) -/
def pathU : AST :=
  ⟨.unary .isUnknown
      (some (.binary .eq (some (.const .root (some (.key ['a'] none)))) (some (.integer 1 none)) none)) none,
    true, true⟩

/-- four polls (the `is unknown` node, `$`, `.a`, `1`): every budget
    below is the cancellation error — never `true` —, from there on `false` -/
example : run .match_ 10 pathU docA (withBudget {} (some 0)) = .error .cancelled := by rfl
example : run .match_ 10 pathU docA (withBudget {} (some 1)) = .error .cancelled := by rfl
example : run .match_ 10 pathU docA (withBudget {} (some 2)) = .error .cancelled := by rfl
example : run .match_ 10 pathU docA (withBudget {} (some 3)) = .error .cancelled := by rfl
example : run .match_ 10 pathU docA (withBudget {} (some 4)) = .bool false := by rfl
example : run .match_ 10 pathU docA (withBudget {} none) = .bool false := by rfl

end C20b
end Sqljson
