import Sqljson.Props.C14
/-!
# C14b — the whole subscript list `a[e1, e2 to e3, …]` as one statement

`C14.lean` proves the pieces per subscript.  Here the complete loop of `execArrayIndex` is evaluated
(collect mode `found = some l`, context never done):

* a subscript whose bounds evaluate to the integers `(a, b)` without touching the executor state is
  `Aux.Bound … sub a b` (`Aux.PureIdx` for one bound); literal int32 bounds (`Aux.pure_literal`) and
  `last` (`Aux.pure_last`) are instances;
* the elements a subscript selects are `Aux.sel xs (a, b)`: positions `max a 0 .. min b (n-1)` of `xs`
  **with the JSON `null` elements dropped** — this is the model's (and the Go code's) actual filter,
  known finding D6 (`C14.select_nulls_dropped_counterexample`); the claim's "JSON null elements
  included" is false of the code, so the theorems are stated with `.filter Aux.notNull`;
* `index_list_lax_next` / `index_list_lax`: structural errors ignored (lax): the result list is
  `l ++ bounds.flatMap (sel xs)` (each selected element replaced by what the rest of the chain yields
  for it, when there is a next node), the status is `ok` iff that list is non-empty (no next node;
  with a next node it is the status of the chain on the *last* selected element), the state is
  restored;
* `index_list_strict_ok(_next)`: structural errors reported (strict), every `(a, b)` with
  `0 ≤ a ≤ b < n`: the same list;
* `index_list_strict_oob(_next)`: the first offending subscript is the `k`-th: the result is
  `returnError … .verbose` (the out-of-bounds error, `none` when `verbose = false`) and the elements
  of the first `k-1` subscripts are **already appended** to the result list;
* `index_list_bad_subscript(_next)`: a bound that does not evaluate to a single int32 number
  (`Aux.BadBound`; e.g. a literal outside int32, `Aux.err_literal`) is the error in both modes, again
  with the elements of the preceding subscripts already appended;
* `index_list_lax_type`: a concrete next node (`a[…].type()`), showing `Aux.PureNext` is inhabited by
  more than the empty chain;
* `query_lax`, `query_strict_ok`, `query_strict_oob`: `Api.queryWith` on `$[…]` with literal / `last`
  bounds on a document array; in strict *silent* mode an out-of-bounds subscript list returns the
  elements selected before the offending subscript and no error.
-/

namespace Sqljson
namespace C14b
open Exec Api Num

namespace Aux

/-- the element filter of `indexElemStep`: `if v == nil { continue }` (D6) -/
def notNull : Item → Bool
  | .null => false
  | _ => true

/-- elements selected by one subscript with evaluated bounds `(a, b)` on the array `xs`: positions
    `max a 0 .. min b (n-1)`, JSON nulls dropped (D6) -/
def sel (xs : List Item) (ab : Int × Int) : List Item :=
  (sliceRange xs (max ab.1 0) (min ab.2 ((xs.length : Int) - 1))).filter notNull

/-- `0 ≤ a ≤ b < n` -/
def inBounds (n : Int) (ab : Int × Int) : Bool := decide (0 ≤ ab.1) && decide (ab.1 ≤ ab.2) && decide (ab.2 < n)

/-- status after the element loop: the status of the chain on the last selected element -/
def lastStatus (st : Item → Status) (res : Status) (zs : List Item) : Status :=
  zs.foldl (fun _ x => st x) res

/-- the bound expression `nd` evaluates to the integer `a` and leaves the state alone, in every
    uncancellable state whose innermost array size is `n` -/
def PureIdx (c : Ctx) (item : ItemK) (v : Item) (n : Nat) (nd : Node) (a : Int) : Prop :=
  ∀ s1 : St, s1.innermost = n → s1.budget = none → getArrayIndex c item s1 nd v = (s1, .ok a)

/-- the subscript node `sub` has bounds evaluating to `(a, b)` (`e` is `e to e`) -/
inductive Bound (c : Ctx) (item : ItemK) (v : Item) (n : Nat) : Node → Int → Int → Prop
  | single (l : Node) (nx : Option Node) (a : Int) :
      PureIdx c item v n l a → Bound c item v n (.binary .subscript (some l) none nx) a a
  | range (l r : Node) (nx : Option Node) (a b : Int) :
      PureIdx c item v n l a → PureIdx c item v n r b →
      Bound c item v n (.binary .subscript (some l) (some r) nx) a b

/-- the rest of the chain `nx` is pure on the selected elements in state `s0`: for element `x` it
    appends `k x`, reports the non-failed status `st x` and leaves the state alone -/
def PureNext (c : Ctx) (item : ItemK) (s0 : St) (nx : Option Node) (k : Item → List Item)
    (st : Item → Status) : Prop :=
  ∀ (x : Item) (f : List Item), notNull x = true →
    executeNextItem c item s0 nx x (some f) = ⟨s0, some (f ++ k x), st x, none⟩ ∧ st x ≠ .failed

theorem pureNext_none (c : Ctx) (item : ItemK) (s0 : St) :
    PureNext c item s0 none (fun x => [x]) (fun _ => .ok) := by
  intro x f _
  simp [executeNextItem, Found.append]

theorem pure_literal (c : Ctx) (fuel : Nat) (v : Item) (n : Nat) (i : Int) (hi : inInt32 i = true) :
    PureIdx c (xItem c (fuel + 1)) v n (.integer i none) i :=
  fun s1 _ hb => C14.index_literal c fuel s1 i v hb hi

theorem last_eval (c : Ctx) (fuel : Nat) (s : St) (v : Item) (u : Bool) (n : Nat) (hb : s.budget = none)
    (hn : s.innermost = n) :
    xItem c (fuel + 1) s (.const .last none) v (some []) u = ⟨s, some [.int ((n : Int) - 1)], .ok, none⟩ := by
  have h := C14.last_is_size_minus_one c (xItem c fuel) s [] n hn
  simp only [xItem, poll, hb, dispatch, execConstNode]
  rw [h]; rfl

/-- `last` inside the subscripts of an array of length `n ≤ 2^31` is the bound `n - 1` -/
theorem pure_last (c : Ctx) (fuel : Nat) (v : Item) (n : Nat) (hn : n ≤ 2147483648) :
    PureIdx c (xItem c (fuel + 1)) v n (.const .last none) ((n : Int) - 1) := by
  intro s1 hin hb
  unfold getArrayIndex executeItem
  rw [last_eval c fuel s1 v c.lax n hb hin]
  have : inInt32 ((n : Int) - 1) = true := by
    simp only [inInt32, minInt32, maxInt32, Bool.and_eq_true]
    exact ⟨decide_eq_true (by omega), decide_eq_true (by omega)⟩
  simp [getJSONInt32, this]

theorem restore_innermost (s : St) (n : Int) :
    ({ ({ s with innermost := n } : St) with innermost := s.innermost } : St) = s := by
  cases s; rfl

/-- the bound logic, given a `Bound` -/
theorem execSubscript_bound (c : Ctx) (item : ItemK) (v : Item) (n : Nat) (sub : Node) (a b : Int)
    (hB : Bound c item v n sub a b) (s1 : St) (hin : s1.innermost = n) (hb : s1.budget = none) (size : Int) :
    execSubscript c item s1 sub v size = (s1, C14.boundsOf s1.ignoreSE a b size) := by
  cases hB with
  | single l nx a hl =>
    unfold execSubscript
    simp only [hl s1 hin hb, C14.boundsOf]
    split <;> simp_all
  | range l r nx a b hl hr =>
    unfold execSubscript
    simp only [hl s1 hin hb, hr s1 hin hb, C14.boundsOf]
    split <;> simp_all

/-- the loop state between two elements / subscripts when nothing has returned -/
def mid (s0 : St) (f : List Item) (res : Status) : IAcc := ⟨s0, some f, res, none, none⟩

theorem elem_step (c : Ctx) (item : ItemK) (s0 : St) (nx : Option Node) (k : Item → List Item)
    (st : Item → Status) (hk : PureNext c item s0 nx k st) (f : List Item) (res : Status) (x : Item) :
    indexElemStep c item nx (mid s0 f res) x =
      if notNull x then mid s0 (f ++ k x) (st x) else mid s0 f res := by
  cases hx : notNull x
  · have : x = .null := by cases x <;> simp_all [notNull]
    subst this; simp [indexElemStep, mid]
  · obtain ⟨h1, h2⟩ := hk x f hx
    unfold indexElemStep mid
    cases x <;> simp_all [notNull]

theorem elem_fold (c : Ctx) (item : ItemK) (s0 : St) (nx : Option Node) (k : Item → List Item)
    (st : Item → Status) (hk : PureNext c item s0 nx k st) (ys : List Item) (f : List Item) (res : Status) :
    ys.foldl (indexElemStep c item nx) (mid s0 f res) =
      mid s0 (f ++ (ys.filter notNull).flatMap k) (lastStatus st res (ys.filter notNull)) := by
  induction ys generalizing f res with
  | nil => simp [lastStatus]
  | cons y ys ih =>
    simp only [List.foldl_cons, elem_step c item s0 nx k st hk]
    cases hy : notNull y
    · simp [hy, ih]
    · simp [hy, ih, lastStatus, List.append_assoc]


theorem lastStatus_append (st : Item → Status) (res : Status) (as bs : List Item) :
    lastStatus st res (as ++ bs) = lastStatus st (lastStatus st res as) bs := by
  simp [lastStatus, List.foldl_append]

/-- `boundsOf` when nothing is out of bounds or structural errors are ignored: the clipped bounds -/
theorem boundsOf_ok (ig : Bool) (a b : Int) (n : Nat) (h : ig = true ∨ inBounds n (a, b) = true) :
    C14.boundsOf ig a b n = .ok (max a 0, min b ((n : Int) - 1)) := by
  rcases h with h | h
  · subst h; exact C14.lax_clip a b n
  · simp only [inBounds, Bool.and_eq_true, decide_eq_true_eq] at h
    obtain ⟨⟨h1, h2⟩, h3⟩ := h
    unfold C14.boundsOf
    have e1 : ¬ a < 0 := by omega
    have e2 : ¬ a > b := by omega
    have e3 : ¬ b ≥ (n : Int) := by omega
    have e4 : max a 0 = a := by omega
    have e5 : min b ((n : Int) - 1) = b := by omega
    simp [e1, e2, e3, e4, e5]

theorem boundsOf_oob (a b : Int) (n : Nat) (h : inBounds n (a, b) = false) :
    C14.boundsOf false a b n = .error .verbose := by
  rw [C14.strict_oob]
  simp only [inBounds] at h
  by_cases h1 : 0 ≤ a <;> by_cases h2 : a ≤ b <;> by_cases h3 : b < (n : Int) <;> simp_all <;> omega

/-- one subscript whose bounds are acceptable (lax, or strict and within `0 ≤ a ≤ b < n`) -/
theorem sub_step_ok (c : Ctx) (item : ItemK) (s0 : St) (nx : Option Node) (k : Item → List Item)
    (st : Item → Status) (hk : PureNext c item s0 nx k st) (xs : List Item) (v : Item)
    (hin : s0.innermost = xs.length) (hb : s0.budget = none)
    (sub : Node) (a b : Int) (hB : Bound c item v xs.length sub a b)
    (hok : s0.ignoreSE = true ∨ inBounds xs.length (a, b) = true) (f : List Item) (res : Status) :
    indexSubStep c item nx xs v (mid s0 f res) sub =
      mid s0 (f ++ (sel xs (a, b)).flatMap k) (lastStatus st res (sel xs (a, b))) := by
  unfold indexSubStep
  rw [show (mid s0 f res).st = s0 from rfl, execSubscript_bound c item v xs.length sub a b hB s0 hin hb,
    boundsOf_ok _ a b xs.length hok]
  simp only [mid, Option.isSome_none, Bool.false_eq_true, if_false]
  exact elem_fold c item s0 nx k st hk _ f res

/-- one subscript out of bounds with structural errors reported -/
theorem sub_step_oob (c : Ctx) (item : ItemK) (s0 : St) (nx : Option Node) (xs : List Item) (v : Item)
    (hin : s0.innermost = xs.length) (hb : s0.budget = none) (hig : s0.ignoreSE = false)
    (sub : Node) (a b : Int) (hB : Bound c item v xs.length sub a b)
    (hoob : inBounds xs.length (a, b) = false) (f : List Item) (res : Status) :
    indexSubStep c item nx xs v (mid s0 f res) sub =
      ⟨s0, some f, res, none, some (returnError s0 (some f) .verbose)⟩ := by
  unfold indexSubStep
  rw [show (mid s0 f res).st = s0 from rfl, execSubscript_bound c item v xs.length sub a b hB s0 hin hb,
    hig, boundsOf_oob a b xs.length hoob]
  simp [mid]

theorem sub_fold_ret (c : Ctx) (item : ItemK) (nx : Option Node) (xs : List Item) (v : Item)
    (subs : List Node) (a : IAcc) (h : a.ret.isSome = true) :
    subs.foldl (indexSubStep c item nx xs v) a = a := by
  induction subs with
  | nil => rfl
  | cons x xs' ih =>
    simp only [List.foldl_cons]
    have : indexSubStep c item nx xs v a x = a := by unfold indexSubStep; simp [h]
    rw [this]; exact ih

/-- evaluated subscripts: the node with its two bounds -/
abbrev Evald := Node × (Int × Int)

theorem sub_fold_ok (c : Ctx) (item : ItemK) (s0 : St) (nx : Option Node) (k : Item → List Item)
    (st : Item → Status) (hk : PureNext c item s0 nx k st) (xs : List Item) (v : Item)
    (hin : s0.innermost = xs.length) (hb : s0.budget = none) (es : List Evald)
    (hB : ∀ e ∈ es, Bound c item v xs.length e.1 e.2.1 e.2.2)
    (hok : ∀ e ∈ es, s0.ignoreSE = true ∨ inBounds xs.length e.2 = true) (f : List Item) (res : Status) :
    (es.map (·.1)).foldl (indexSubStep c item nx xs v) (mid s0 f res) =
      mid s0 (f ++ ((es.map (·.2)).flatMap (sel xs)).flatMap k)
        (lastStatus st res ((es.map (·.2)).flatMap (sel xs))) := by
  induction es generalizing f res with
  | nil => simp [lastStatus]
  | cons e es ih =>
    simp only [List.map_cons, List.foldl_cons, List.flatMap_cons]
    rw [sub_step_ok c item s0 nx k st hk xs v hin hb e.1 e.2.1 e.2.2 (hB e (by simp)) (hok e (by simp)),
      ih (fun e' he' => hB e' (by simp [he'])) (fun e' he' => hok e' (by simp [he']))]
    simp [List.flatMap_append, List.append_assoc, lastStatus_append]


theorem lastStatus_ok (res : Status) (zs : List Item) :
    lastStatus (fun _ => Status.ok) res zs = if zs.isEmpty then res else .ok := by
  induction zs generalizing res with
  | nil => rfl
  | cons z zs ih => simp only [lastStatus, List.foldl_cons] at *; rw [ih]; cases zs <;> simp

theorem flatMap_single (zs : List Item) : zs.flatMap (fun x => [x]) = zs := by
  induction zs with
  | nil => rfl
  | cons z zs ih => simp [List.flatMap_cons, ih]

theorem returnError_restore (s : St) (n : Int) (f : Found) (e : Err) :
    ({ (returnError { s with innermost := n } f e) with
        st := { (returnError { s with innermost := n } f e).st with innermost := s.innermost } } : Res) =
      returnError s f e := by
  unfold returnError
  split <;> simp

end Aux
open Aux

/-- **the whole subscript list, acceptable bounds, rest of the chain `nx` pure** (`Aux.PureNext`): every
    subscript is either evaluated with structural errors ignored (lax) or satisfies `0 ≤ a ≤ b < n`.
    The selected elements (`Aux.sel`: positions `max a 0 .. min b (n-1)`, JSON nulls dropped — D6) of
    each subscript, in subscript order, are handed to the rest of the chain; the status is the
    chain's status on the last selected element (`notFound` when nothing is selected); the state is
    restored. -/
theorem index_list_next (c : Ctx) (item : ItemK) (s : St) (nx : Option Node) (v : Item) (xs l : List Item)
    (k : Item → List Item) (st : Item → Status)
    (hxs : arrayOf c v = some xs) (hb : s.budget = none)
    (hk : PureNext c item { s with innermost := xs.length } nx k st)
    (es : List Evald) (hB : ∀ e ∈ es, Bound c item v xs.length e.1 e.2.1 e.2.2)
    (hok : ∀ e ∈ es, s.ignoreSE = true ∨ inBounds xs.length e.2 = true) :
    execArrayIndex c item s (es.map (·.1)) nx v (some l) =
      ⟨s, some (l ++ ((es.map (·.2)).flatMap (sel xs)).flatMap k),
        lastStatus st .notFound ((es.map (·.2)).flatMap (sel xs)), none⟩ := by
  unfold execArrayIndex
  simp only [hxs]
  have := sub_fold_ok c item { s with innermost := xs.length } nx k st hk xs v rfl hb es hB hok l .notFound
  simp only [mid] at this
  rw [this]

/-- **strict, first offending subscript**: structural errors are reported, the subscripts `pre` are
    within `0 ≤ a ≤ b < n`, the next subscript `sub` evaluates to `(a, b)` violating it (`post` is never
    evaluated): the result is the out-of-bounds error `returnError … .verbose` (status `failed`;
    error `ErrVerbose` when `verbose`, no error at all when silent) and the result list **already
    contains** what the subscripts before the offending one selected. -/
theorem index_list_strict_oob_next (c : Ctx) (item : ItemK) (s : St) (nx : Option Node) (v : Item)
    (xs l : List Item) (k : Item → List Item) (st : Item → Status)
    (hxs : arrayOf c v = some xs) (hb : s.budget = none) (hig : s.ignoreSE = false)
    (hk : PureNext c item { s with innermost := xs.length } nx k st)
    (pre : List Evald) (hB : ∀ e ∈ pre, Bound c item v xs.length e.1 e.2.1 e.2.2)
    (hpre : ∀ e ∈ pre, inBounds xs.length e.2 = true)
    (sub : Node) (a b : Int) (hsub : Bound c item v xs.length sub a b)
    (hoob : inBounds xs.length (a, b) = false) (post : List Node) :
    execArrayIndex c item s (pre.map (·.1) ++ sub :: post) nx v (some l) =
      returnError s (some (l ++ ((pre.map (·.2)).flatMap (sel xs)).flatMap k)) .verbose := by
  unfold execArrayIndex
  simp only [hxs, List.foldl_append, List.foldl_cons]
  have h1 := sub_fold_ok c item { s with innermost := xs.length } nx k st hk xs v rfl hb pre hB
    (fun e he => Or.inr (hpre e he)) l .notFound
  simp only [mid] at h1
  rw [h1]
  have h2 := sub_step_oob c item { s with innermost := xs.length } nx xs v rfl hb hig sub a b hsub hoob
    (l ++ ((pre.map (·.2)).flatMap (sel xs)).flatMap k)
    (lastStatus st .notFound ((pre.map (·.2)).flatMap (sel xs)))
  simp only [mid] at h2
  rw [h2, sub_fold_ret _ _ _ _ _ _ _ rfl]
  exact returnError_restore s xs.length _ _

/-- lax (structural errors ignored), rest of the chain pure: nothing is ever out of bounds -/
theorem index_list_lax_next (c : Ctx) (item : ItemK) (s : St) (nx : Option Node) (v : Item) (xs l : List Item)
    (k : Item → List Item) (st : Item → Status)
    (hxs : arrayOf c v = some xs) (hb : s.budget = none) (hig : s.ignoreSE = true)
    (hk : PureNext c item { s with innermost := xs.length } nx k st)
    (es : List Evald) (hB : ∀ e ∈ es, Bound c item v xs.length e.1 e.2.1 e.2.2) :
    execArrayIndex c item s (es.map (·.1)) nx v (some l) =
      ⟨s, some (l ++ ((es.map (·.2)).flatMap (sel xs)).flatMap k),
        lastStatus st .notFound ((es.map (·.2)).flatMap (sel xs)), none⟩ :=
  index_list_next c item s nx v xs l k st hxs hb hk es hB (fun _ _ => Or.inl hig)

/-- strict, every subscript within bounds, rest of the chain pure -/
theorem index_list_strict_ok_next (c : Ctx) (item : ItemK) (s : St) (nx : Option Node) (v : Item)
    (xs l : List Item) (k : Item → List Item) (st : Item → Status)
    (hxs : arrayOf c v = some xs) (hb : s.budget = none)
    (hk : PureNext c item { s with innermost := xs.length } nx k st)
    (es : List Evald) (hB : ∀ e ∈ es, Bound c item v xs.length e.1 e.2.1 e.2.2)
    (hin : ∀ e ∈ es, inBounds xs.length e.2 = true) :
    execArrayIndex c item s (es.map (·.1)) nx v (some l) =
      ⟨s, some (l ++ ((es.map (·.2)).flatMap (sel xs)).flatMap k),
        lastStatus st .notFound ((es.map (·.2)).flatMap (sel xs)), none⟩ :=
  index_list_next c item s nx v xs l k st hxs hb hk es hB (fun e he => Or.inr (hin e he))

/-! ### no next node: the selected elements themselves are appended -/

/-- all elements selected by the evaluated subscript list, in subscript order (JSON nulls dropped) -/
def selected (xs : List Item) (bounds : List (Int × Int)) : List Item := bounds.flatMap (sel xs)

/-- `ok` iff something was selected -/
def statusOf (zs : List Item) : Status := if zs.isEmpty then .notFound else .ok

/-- **C14, lax, the whole list**: for `a[e1, e2 to e3, …]` on the array `xs` (`arrayOf`: the value
    itself, or `[v]` for a non-array in lax mode) of length `n`, with structural errors ignored and the
    bounds evaluating to `(a₁,b₁), …`: the result is `l ++` the elements at positions
    `max aᵢ 0 .. min bᵢ (n-1)` for each subscript in order — **JSON null elements dropped** (D6: the
    model's and the code's actual behaviour, `Aux.sel`) —, status `ok` iff that list is non-empty, no
    error, state restored. -/
theorem index_list_lax (c : Ctx) (item : ItemK) (s : St) (v : Item) (xs l : List Item)
    (hxs : arrayOf c v = some xs) (hb : s.budget = none) (hig : s.ignoreSE = true)
    (es : List Evald) (hB : ∀ e ∈ es, Bound c item v xs.length e.1 e.2.1 e.2.2) :
    execArrayIndex c item s (es.map (·.1)) none v (some l) =
      ⟨s, some (l ++ selected xs (es.map (·.2))), statusOf (selected xs (es.map (·.2))), none⟩ := by
  rw [index_list_lax_next c item s none v xs l _ _ hxs hb hig (pureNext_none c item _) es hB,
    flatMap_single, lastStatus_ok]
  rfl

/-- **C14, strict, all within bounds**: the same list as in lax mode (and no clipping happens:
    `Aux.sel_in_bounds`) -/
theorem index_list_strict_ok (c : Ctx) (item : ItemK) (s : St) (v : Item) (xs l : List Item)
    (hxs : arrayOf c v = some xs) (hb : s.budget = none)
    (es : List Evald) (hB : ∀ e ∈ es, Bound c item v xs.length e.1 e.2.1 e.2.2)
    (hin : ∀ e ∈ es, inBounds xs.length e.2 = true) :
    execArrayIndex c item s (es.map (·.1)) none v (some l) =
      ⟨s, some (l ++ selected xs (es.map (·.2))), statusOf (selected xs (es.map (·.2))), none⟩ := by
  rw [index_list_strict_ok_next c item s none v xs l _ _ hxs hb (pureNext_none c item _) es hB hin,
    flatMap_single, lastStatus_ok]
  rfl

/-- **C14, strict, the `k`-th subscript is the first out of bounds**: the out-of-bounds error with the
    elements of the first `k-1` subscripts already appended -/
theorem index_list_strict_oob (c : Ctx) (item : ItemK) (s : St) (v : Item) (xs l : List Item)
    (hxs : arrayOf c v = some xs) (hb : s.budget = none) (hig : s.ignoreSE = false)
    (pre : List Evald) (hB : ∀ e ∈ pre, Bound c item v xs.length e.1 e.2.1 e.2.2)
    (hpre : ∀ e ∈ pre, inBounds xs.length e.2 = true)
    (sub : Node) (a b : Int) (hsub : Bound c item v xs.length sub a b)
    (hoob : inBounds xs.length (a, b) = false) (post : List Node) :
    execArrayIndex c item s (pre.map (·.1) ++ sub :: post) none v (some l) =
      returnError s (some (l ++ selected xs (pre.map (·.2)))) .verbose := by
  rw [index_list_strict_oob_next c item s none v xs l _ _ hxs hb hig (pureNext_none c item _) pre hB hpre
    sub a b hsub hoob post, flatMap_single]
  rfl

/-- the two shapes of the out-of-bounds result -/
theorem oob_shape (s : St) (f : Found) :
    returnError s f .verbose =
      if s.verbose then ⟨s, f, .failed, some .verbose⟩ else ⟨s, f, .failed, none⟩ := by
  unfold returnError
  cases s.verbose <;> simp [Err.isVerbose]

/-- within bounds nothing is clipped -/
theorem sel_in_bounds (xs : List Item) (a b : Int) (h : inBounds xs.length (a, b) = true) :
    sel xs (a, b) = (sliceRange xs a b).filter notNull := by
  simp only [inBounds, Bool.and_eq_true, decide_eq_true_eq] at h
  obtain ⟨⟨h1, h2⟩, h3⟩ := h
  have e4 : max a 0 = a := by omega
  have e5 : min b ((xs.length : Int) - 1) = b := by omega
  simp [sel, e4, e5]

/-- lax mode on a non-array: it behaves as the one-element array of itself -/
theorem index_list_lax_non_array (c : Ctx) (item : ItemK) (s : St) (v : Item) (l : List Item)
    (hlax : c.lax = true) (hv : v.isArr = false) (hb : s.budget = none) (hig : s.ignoreSE = true)
    (es : List Evald) (hB : ∀ e ∈ es, Bound c item v 1 e.1 e.2.1 e.2.2) :
    execArrayIndex c item s (es.map (·.1)) none v (some l) =
      ⟨s, some (l ++ selected [v] (es.map (·.2))), statusOf (selected [v] (es.map (·.2))), none⟩ :=
  index_list_lax c item s v [v] l (C14.lax_wrap c v hlax hv) hb hig es hB

/-! ### a subscript that is not a single int32 number: the error in both modes -/

namespace Aux

/-- the bound expression `nd` fails with `e` (state untouched) -/
def ErrIdx (c : Ctx) (item : ItemK) (v : Item) (n : Nat) (nd : Node) (e : Err) : Prop :=
  ∀ s1 : St, s1.innermost = n → s1.budget = none → getArrayIndex c item s1 nd v = (s1, .error e)

/-- one of the bounds of `sub` fails with `e` -/
inductive BadBound (c : Ctx) (item : ItemK) (v : Item) (n : Nat) : Node → Err → Prop
  | first (l : Node) (r nx : Option Node) (e : Err) :
      ErrIdx c item v n l e → BadBound c item v n (.binary .subscript (some l) r nx) e
  | second (l r : Node) (nx : Option Node) (a : Int) (e : Err) :
      PureIdx c item v n l a → ErrIdx c item v n r e →
      BadBound c item v n (.binary .subscript (some l) (some r) nx) e

/-- a literal outside int32 is the suppressible subscript error -/
theorem err_literal (c : Ctx) (fuel : Nat) (v : Item) (n : Nat) (i : Int) (hi : inInt32 i = false) :
    ErrIdx c (xItem c (fuel + 1)) v n (.integer i none) .verbose :=
  fun s1 _ hb => C14.index_range c fuel s1 i v hb hi

theorem execSubscript_bad (c : Ctx) (item : ItemK) (v : Item) (n : Nat) (sub : Node) (e : Err)
    (hB : BadBound c item v n sub e) (s1 : St) (hin : s1.innermost = n) (hb : s1.budget = none) (size : Int) :
    execSubscript c item s1 sub v size = (s1, .error e) := by
  cases hB with
  | first l r nx e hl =>
    unfold execSubscript
    simp only [hl s1 hin hb]
  | second l r nx a e hl hr =>
    unfold execSubscript
    simp only [hl s1 hin hb, hr s1 hin hb]

theorem sub_step_bad (c : Ctx) (item : ItemK) (s0 : St) (nx : Option Node) (xs : List Item) (v : Item)
    (hin : s0.innermost = xs.length) (hb : s0.budget = none)
    (sub : Node) (e : Err) (hB : BadBound c item v xs.length sub e) (f : List Item) (res : Status) :
    indexSubStep c item nx xs v (mid s0 f res) sub =
      ⟨s0, some f, res, none, some (returnError s0 (some f) e)⟩ := by
  unfold indexSubStep
  rw [show (mid s0 f res).st = s0 from rfl, execSubscript_bad c item v xs.length sub e hB s0 hin hb]
  simp [mid]

end Aux

/-- **a bad subscript, lax or strict**: the subscripts `pre` are acceptable (lax, or within bounds),
    a bound of the next subscript `sub` fails with `e` (not a single number, outside int32: `e` is
    the suppressible `.verbose`): the result is `returnError … e` with the elements selected by
    `pre` already appended; `post` is never evaluated -/
theorem index_list_bad_subscript_next (c : Ctx) (item : ItemK) (s : St) (nx : Option Node) (v : Item)
    (xs l : List Item) (k : Item → List Item) (st : Item → Status)
    (hxs : arrayOf c v = some xs) (hb : s.budget = none)
    (hk : PureNext c item { s with innermost := xs.length } nx k st)
    (pre : List Evald) (hB : ∀ e ∈ pre, Bound c item v xs.length e.1 e.2.1 e.2.2)
    (hpre : ∀ e ∈ pre, s.ignoreSE = true ∨ inBounds xs.length e.2 = true)
    (sub : Node) (e : Err) (hsub : BadBound c item v xs.length sub e) (post : List Node) :
    execArrayIndex c item s (pre.map (·.1) ++ sub :: post) nx v (some l) =
      returnError s (some (l ++ ((pre.map (·.2)).flatMap (sel xs)).flatMap k)) e := by
  unfold execArrayIndex
  simp only [hxs, List.foldl_append, List.foldl_cons]
  have h1 := sub_fold_ok c item { s with innermost := xs.length } nx k st hk xs v rfl hb pre hB hpre l .notFound
  simp only [mid] at h1
  rw [h1]
  have h2 := sub_step_bad c item { s with innermost := xs.length } nx xs v rfl hb sub e hsub
    (l ++ ((pre.map (·.2)).flatMap (sel xs)).flatMap k)
    (lastStatus st .notFound ((pre.map (·.2)).flatMap (sel xs)))
  simp only [mid] at h2
  rw [h2, sub_fold_ret _ _ _ _ _ _ _ rfl]
  exact returnError_restore s xs.length _ _

theorem index_list_bad_subscript (c : Ctx) (item : ItemK) (s : St) (v : Item) (xs l : List Item)
    (hxs : arrayOf c v = some xs) (hb : s.budget = none)
    (pre : List Evald) (hB : ∀ e ∈ pre, Bound c item v xs.length e.1 e.2.1 e.2.2)
    (hpre : ∀ e ∈ pre, s.ignoreSE = true ∨ inBounds xs.length e.2 = true)
    (sub : Node) (e : Err) (hsub : BadBound c item v xs.length sub e) (post : List Node) :
    execArrayIndex c item s (pre.map (·.1) ++ sub :: post) none v (some l) =
      returnError s (some (l ++ selected xs (pre.map (·.2)))) e := by
  rw [index_list_bad_subscript_next c item s none v xs l _ _ hxs hb (pureNext_none c item _) pre hB hpre
    sub e hsub post, flatMap_single]
  rfl


/-! ### a concrete next node -/

/-- a non-trivial instance of `Aux.PureNext`: the rest of the chain is `.type()` -/
theorem pureNext_type (c : Ctx) (fuel : Nat) (s0 : St) (hb : s0.budget = none) :
    PureNext c (xItem c (fuel + 1)) s0 (some (.method .type none)) (fun x => [.str (typeName x)]) (fun _ => .ok) := by
  intro x f _
  simp [executeNextItem, executeItem, xItem, poll, hb, dispatch, execMethodNode, Found.append]

theorem flatMap_single_map (g : Item → Item) (zs : List Item) : zs.flatMap (fun x => [g x]) = zs.map g := by
  induction zs with
  | nil => rfl
  | cons z zs ih => simp [List.flatMap_cons, ih]

/-- `a[…].type()` in lax mode: the type names of the selected (non-null) elements -/
theorem index_list_lax_type (c : Ctx) (fuel : Nat) (s : St) (v : Item) (xs l : List Item)
    (hxs : arrayOf c v = some xs) (hb : s.budget = none) (hig : s.ignoreSE = true)
    (es : List Evald) (hB : ∀ e ∈ es, Bound c (xItem c (fuel + 1)) v xs.length e.1 e.2.1 e.2.2) :
    (execArrayIndex c (xItem c (fuel + 1)) s (es.map (·.1)) (some (.method .type none)) v (some l)).found =
      some (l ++ (selected xs (es.map (·.2))).map fun x => .str (typeName x)) := by
  rw [index_list_lax_next c _ s _ v xs l _ _ hxs hb hig (pureNext_type c fuel _ hb) es hB]
  rw [flatMap_single_map]; rfl

/-! ### literal subscripts and the API level -/

/-- a literal bound: an integer or `last` -/
inductive LBound
  | lit (i : Int)
  | last
deriving Repr

def LBound.node : LBound → Node
  | .lit i => .integer i none
  | .last => .const .last none

/-- value of a bound inside the subscripts of an array of length `n` -/
def LBound.val (n : Nat) : LBound → Int
  | .lit i => i
  | .last => (n : Int) - 1

/-- the bound is a single number within int32 range -/
def LBound.ok (n : Nat) : LBound → Bool
  | .lit i => inInt32 i
  | .last => decide (n ≤ 2147483648)

/-- a literal subscript `e` or `e1 to e2` -/
inductive LSub
  | one (a : LBound)
  | range (a b : LBound)
deriving Repr

def LSub.node : LSub → Node
  | .one a => .binary .subscript (some a.node) none none
  | .range a b => .binary .subscript (some a.node) (some b.node) none

def LSub.bounds (n : Nat) : LSub → Int × Int
  | .one a => (a.val n, a.val n)
  | .range a b => (a.val n, b.val n)

def LSub.ok (n : Nat) : LSub → Bool
  | .one a => a.ok n
  | .range a b => a.ok n && b.ok n

namespace Aux

theorem lbound_pure (c : Ctx) (fuel : Nat) (v : Item) (n : Nat) (a : LBound) (h : a.ok n = true) :
    PureIdx c (xItem c (fuel + 1)) v n a.node (a.val n) := by
  cases a with
  | lit i => exact pure_literal c fuel v n i h
  | last => exact pure_last c fuel v n (by simpa [LBound.ok] using h)

theorem lsub_bound (c : Ctx) (fuel : Nat) (v : Item) (n : Nat) (x : LSub) (h : x.ok n = true) :
    Bound c (xItem c (fuel + 1)) v n x.node (x.bounds n).1 (x.bounds n).2 := by
  cases x with
  | one a => exact Bound.single _ _ _ (lbound_pure c fuel v n a h)
  | range a b =>
    simp only [LSub.ok, Bool.and_eq_true] at h
    exact Bound.range _ _ _ _ _ (lbound_pure c fuel v n a h.1) (lbound_pure c fuel v n b h.2)

def evald (n : Nat) (x : LSub) : Evald := (x.node, x.bounds n)

theorem evald_nodes (n : Nat) (ls : List LSub) : (ls.map (evald n)).map (·.1) = ls.map LSub.node := by
  simp [List.map_map, evald, Function.comp_def]

theorem evald_bounds (n : Nat) (ls : List LSub) : (ls.map (evald n)).map (·.2) = ls.map (LSub.bounds n) := by
  simp [List.map_map, evald, Function.comp_def]

/-- `$[subs]`: the root, then the subscript list on the root -/
theorem root_subscript (c : Ctx) (fuel : Nat) (s : St) (subs : List Node) (v : Item) (u : Bool)
    (hb : s.budget = none) :
    xItem c (fuel + 3) s (.const .root (some (.arrayIndex subs none))) v (some []) u =
      withBaseObject s (c.addrOf c.root) 0 fun s' =>
        execArrayIndex c (xItem c (fuel + 1)) s' subs none c.root (some []) := by
  simp [xItem, poll, hb, dispatch, execConstNode, withBaseObject, executeNextItem, executeItem]

end Aux

/-- literal subscript list on an array, acceptable bounds (lax, or strict and all within bounds) -/
theorem literal_list (c : Ctx) (fuel : Nat) (s : St) (xs l : List Item) (ls : List LSub)
    (hb : s.budget = none) (hok : ∀ x ∈ ls, x.ok xs.length = true)
    (h : s.ignoreSE = true ∨ ∀ x ∈ ls, inBounds xs.length (x.bounds xs.length) = true) :
    execArrayIndex c (xItem c (fuel + 1)) s (ls.map LSub.node) none (.arr xs) (some l) =
      ⟨s, some (l ++ selected xs (ls.map (LSub.bounds xs.length))),
        statusOf (selected xs (ls.map (LSub.bounds xs.length))), none⟩ := by
  have hB : ∀ e ∈ ls.map (evald xs.length), Bound c (xItem c (fuel + 1)) (.arr xs) xs.length e.1 e.2.1 e.2.2 := by
    intro e he
    obtain ⟨x, hx, rfl⟩ := List.mem_map.1 he
    exact lsub_bound c fuel _ _ x (hok x hx)
  rw [← evald_nodes xs.length, ← evald_bounds xs.length]
  rcases h with h | h
  · exact index_list_lax c _ s _ xs l rfl hb h _ hB
  · refine index_list_strict_ok c _ s _ xs l rfl hb _ hB ?_
    intro e he
    obtain ⟨x, hx, rfl⟩ := List.mem_map.1 he
    exact h x hx


/-- literal subscript list on an array, strict, first offending subscript `x` -/
theorem literal_list_oob (c : Ctx) (fuel : Nat) (s : St) (xs l : List Item) (pre post : List LSub) (x : LSub)
    (hb : s.budget = none) (hig : s.ignoreSE = false)
    (hok : ∀ y ∈ pre, y.ok xs.length = true) (hokx : x.ok xs.length = true)
    (hpre : ∀ y ∈ pre, inBounds xs.length (y.bounds xs.length) = true)
    (hoob : inBounds xs.length (x.bounds xs.length) = false) :
    execArrayIndex c (xItem c (fuel + 1)) s ((pre ++ x :: post).map LSub.node) none (.arr xs) (some l) =
      returnError s (some (l ++ selected xs (pre.map (LSub.bounds xs.length)))) .verbose := by
  have hB : ∀ e ∈ pre.map (evald xs.length), Bound c (xItem c (fuel + 1)) (.arr xs) xs.length e.1 e.2.1 e.2.2 := by
    intro e he
    obtain ⟨y, hy, rfl⟩ := List.mem_map.1 he
    exact lsub_bound c fuel _ _ y (hok y hy)
  rw [List.map_append, List.map_cons, ← evald_nodes xs.length, ← evald_bounds xs.length]
  refine index_list_strict_oob c _ s _ xs l rfl hb hig _ hB ?_ x.node _ _
    (lsub_bound c fuel _ _ x hokx) hoob _
  intro e he
  obtain ⟨y, hy, rfl⟩ := List.mem_map.1 he
  exact hpre y hy

/-- the path `$[s1, s2, …]` (`lax` or `strict`) -/
def subscriptPath (lax : Bool) (ls : List LSub) : AST :=
  ⟨.const .root (some (.arrayIndex (ls.map LSub.node) none)), lax, false⟩

namespace Aux

/-- the run of `$[…]` in terms of the subscript loop on the document -/
theorem execute_subscriptPath (fuel : Nat) (lax : Bool) (ls : List LSub) (doc : Item) (o : Opts)
    (hb : o.budget = none) :
    execute (fuel + 3) (subscriptPath lax ls) doc o =
      withBaseObject (initSt (subscriptPath lax ls) doc o) (o.addrOf doc) 0 fun s' =>
        execArrayIndex (mkCtx (subscriptPath lax ls) doc o) (xItem (mkCtx (subscriptPath lax ls) doc o) (fuel + 1))
          s' (ls.map LSub.node) none doc (some []) := by
  unfold execute query
  have : (initSt (subscriptPath lax ls) doc o).budget = none := hb
  simp only [Option.isNone_some, Bool.and_false, Bool.false_eq_true, if_false, executeItem]
  rw [show (subscriptPath lax ls).root = .const .root (some (.arrayIndex (ls.map LSub.node) none)) from rfl,
    root_subscript _ fuel _ _ _ _ this]
  rfl

end Aux

/-- **API, lax**: `Query` of `lax $[s1, …]` (literal / `last` bounds within int32) on a document array
    returns, for each subscript in order, the elements at the clipped positions — JSON nulls
    dropped (D6) — and never an error -/
theorem query_lax (fuel : Nat) (xs : List Item) (ls : List LSub) (o : Opts) (hb : o.budget = none)
    (hok : ∀ x ∈ ls, x.ok xs.length = true) :
    queryWith (fuel + 3) (subscriptPath true ls) (.arr xs) o =
      .items (selected xs (ls.map (LSub.bounds xs.length))) := by
  unfold queryWith
  rw [execute_subscriptPath fuel true ls _ o hb]
  unfold withBaseObject
  dsimp only
  rw [literal_list _ fuel _ xs [] ls hb hok (Or.inl rfl)]
  simp [guarded, initSt]

/-- **API, strict, all within bounds** -/
theorem query_strict_ok (fuel : Nat) (xs : List Item) (ls : List LSub) (o : Opts) (hb : o.budget = none)
    (hok : ∀ x ∈ ls, x.ok xs.length = true)
    (hin : ∀ x ∈ ls, inBounds xs.length (x.bounds xs.length) = true) :
    queryWith (fuel + 3) (subscriptPath false ls) (.arr xs) o =
      .items (selected xs (ls.map (LSub.bounds xs.length))) := by
  unfold queryWith
  rw [execute_subscriptPath fuel false ls _ o hb]
  unfold withBaseObject
  dsimp only
  rw [literal_list _ fuel _ xs [] ls hb hok (Or.inr hin)]
  simp [guarded, initSt]

/-- **API, strict, out of bounds**: the out-of-bounds error — unless the call is silent, in which
    case `Query` returns the elements selected *before* the offending subscript and no error -/
theorem query_strict_oob (fuel : Nat) (xs : List Item) (pre post : List LSub) (x : LSub) (o : Opts)
    (hb : o.budget = none)
    (hok : ∀ y ∈ pre, y.ok xs.length = true) (hokx : x.ok xs.length = true)
    (hpre : ∀ y ∈ pre, inBounds xs.length (y.bounds xs.length) = true)
    (hoob : inBounds xs.length (x.bounds xs.length) = false) :
    queryWith (fuel + 3) (subscriptPath false (pre ++ x :: post)) (.arr xs) o =
      if o.silent then .items (selected xs (pre.map (LSub.bounds xs.length))) else .error .verbose := by
  unfold queryWith
  rw [execute_subscriptPath fuel false _ _ o hb]
  unfold withBaseObject
  dsimp only
  rw [literal_list_oob _ fuel _ xs [] pre post x hb rfl hok hokx hpre hoob, oob_shape]
  cases hs : o.silent <;> simp [guarded, initSt, hs]


/-! ### non-vacuity: concrete runs (kernel evaluation) -/

section Examples

/-- `[10, 20, 30]` -/
private def doc3 : Item := .arr [.int 10, .int 20, .int 30]
/-- `1, 0 to 1, last` -/
private def subsA : List LSub := [.one (.lit 1), .range (.lit 0) (.lit 1), .one .last]
/-- `1, 5, 0` : the second subscript is out of range -/
private def subsB : List LSub := [.one (.lit 1), .one (.lit 5), .one (.lit 0)]

-- `$[1, 0 to 1, last]` on `[10,20,30]`, lax and strict
example : queryWith 20 (subscriptPath true subsA) doc3 {} = .items [.int 20, .int 10, .int 20, .int 30] := rfl
example : queryWith 20 (subscriptPath false subsA) doc3 {} = .items [.int 20, .int 10, .int 20, .int 30] := rfl
-- the specification side of `query_lax` on the same input
example : selected [.int 10, .int 20, .int 30] (subsA.map (LSub.bounds 3)) = [.int 20, .int 10, .int 20, .int 30] := rfl
-- out of range: clipped away in lax mode …
example : queryWith 20 (subscriptPath true subsB) doc3 {} = .items [.int 20, .int 10] := rfl
example : queryWith 20 (subscriptPath true [.range (.lit (-2)) (.lit 7)]) doc3 {} = .items [.int 10, .int 20, .int 30] := rfl
-- … the out-of-bounds error in strict mode …
example : queryWith 20 (subscriptPath false subsB) doc3 {} = .error .verbose := rfl
-- … and in strict *silent* mode the elements selected before the offending subscript, no error
example : queryWith 20 (subscriptPath false subsB) doc3 { silent := true } = .items [.int 20] := rfl
-- a bound outside int32 is the error in both modes
example : queryWith 20 (subscriptPath true [.one (.lit 2147483648)]) doc3 {} = .error .verbose := rfl
example : queryWith 20 (subscriptPath false [.one (.lit 2147483648)]) doc3 {} = .error .verbose := rfl
-- D6: a selected JSON null is dropped
example : queryWith 20 (subscriptPath true [.range (.lit 0) .last]) (.arr [.int 1, .null, .int 3]) {} =
    .items [.int 1, .int 3] := rfl
-- lax: a non-array is the one-element array of itself; strict: structural error
example : queryWith 20 (subscriptPath true [.one (.lit 0), .one .last]) (.int 7) {} = .items [.int 7, .int 7] := rfl
example : queryWith 20 (subscriptPath false [.one (.lit 0)]) (.int 7) {} = .error .verbose := rfl
-- the hypotheses of the theorems are decidable on concrete input
example : (∀ x ∈ subsA, x.ok 3 = true) ∧ (∀ x ∈ subsA, inBounds 3 (x.bounds 3) = true) := by decide
example : inBounds 3 ((LSub.one (.lit 5)).bounds 3) = false := by decide

-- the theorems applied to concrete input
example : queryWith 20 (subscriptPath true subsA) doc3 {} =
    .items (selected [.int 10, .int 20, .int 30] (subsA.map (LSub.bounds 3))) :=
  query_lax 17 [.int 10, .int 20, .int 30] subsA {} rfl (by decide)
example : queryWith 20 (subscriptPath false subsB) doc3 { silent := true } =
    .items (selected [.int 10, .int 20, .int 30] [(1, 1)]) :=
  query_strict_oob 17 [.int 10, .int 20, .int 30] [.one (.lit 1)] [.one (.lit 0)] (.one (.lit 5)) { silent := true }
    rfl (by decide) (by decide) (by decide) (by decide)

end Examples

end C14b
end Sqljson
