import Sqljson.Lemmas.LaxTotal
import Sqljson.Lemmas.ApiGood
import Sqljson.Props.C05
/-!
# C07 (second half) — lax structural totality over whole accessor paths

`Props/C07.lean` proves, one step at a time, that lax mode absorbs structural mismatches (a member
accessor on a non-object or a missing key, `.*` on a non-object, `[*]`/`[i]` on a non-array,
out-of-range subscripts).  Here the statement is lifted to whole paths of unbounded length, by the
invariant `Exec.Lax.lt_all` of `Lemmas/LaxTotal.lean` (induction on fuel over `xItem`/`xBool`/`xAny`,
one lemma per Go function).

**Classes of paths** (`Exec.Lax.AccG`, decidable predicates on the AST):
* `Accessor`: chains of `$`, `@`, `.key`, `.*`, `[*]`, `.**{a to b}` (any bounds), subscripts
  `[i, j to k, last]` whose bounds are numeric literals in the int32 range or `last`, the literals
  `true false null "s" 1 1.5`, `.type()`, `.size()`;
* `AccessorF`: the same plus filters `?(p)` and predicates `p` in chain position (predicate paths such
  as `$.a.b == 1` or `exists($.a)`), `p` built from `&&`, `||`, `!`, `is unknown`, `exists(path)`,
  `path ⋈ path` for `== != < <= > >=` and `starts with`, `path like_regex "…"`, where the operand paths
  are again `AccessorF` paths (so literals, `@.a.b`, nested filters …).

**Theorems**
* executor level (`xItem`, every context, state, value, result list, fuel):
  `lax_path_total` — in lax mode with `ignoreStructuralErrors` set, an `Accessor` path returns no error
  and a status other than `failed`, unless the run was cancelled or ran out of fuel (sticky flags;
  `lax_path_total_never_done`: with `budget = none`, fuel is the only proviso);
  `lax_filter_path_total` — the same for `AccessorF` over plain documents;
  `path_error_class` — both modes: the only possible error is the suppressible one;
  `path_never_panics`, `path_never_cancelled` (a context that is never done);
* entry points, lax: `lax_accessors_total` (`Query` returns a sequence), `lax_accessors_first`,
  `lax_accessors_exists` (`true`/`false`, never NULL), `lax_accessors_total_ctx` (with a cancellable
  context, cancellation is the only error); `lax_filters_total`, `lax_filters_exists` for `AccessorF`
  (`lax_filters_total_num`: documents with `json.Number`s, under the `strconv` law of C05);
  all for both values of `silent`;
* entry points, strict: `strict_accessor_error_class` (items, or the suppressible error: never
  `ErrExecution`-only, `ErrInvalid`, or a panic), `strict_accessor_silent` (under `WithSilent`: items),
  `strict_filters_error_class`.

**Side conditions, each with a counterexample below**
* documents: no array of more than 2^31 elements (`lenOK`; only `last` needs it: it is read back through
  `getJSONInt32`); for `AccessorF` additionally no datetime items and no `json.Number`s (`plainOK`):
  comparing a datetime with a non-datetime is `ErrInvalid` in lax mode too (known finding D15);
* `like_regex` patterns compile (`hre`; the parser checks this);
* excluded from the classes because they err in lax mode: subscript bounds that are not int32 numbers,
  `last` outside a subscript, `.keyvalue()` and the conversion methods, variables, arithmetic.
-/

namespace Sqljson
namespace C07b
open Exec Api Exec.Lax

/-! ## the three instances of the standing assumptions -/

/-- `Accessor` paths over documents without huge arrays -/
theorem env_len (c : Ctx) (hroot : lenOK c.root = true) : Env (fun v => lenOK v = true) (fun _ => True) c false :=
  ⟨docClass_lenOK, hroot, fun _ _ h => (lenOK_arr h).1, fun h => (by cases h), fun _ _ => trivial,
   fun _ _ _ _ => trivial, fun h => (by cases h)⟩

/-- strict mode: `Accessor` paths over all documents -/
theorem env_all (c : Ctx) (hstrict : c.lax = false) : Env (fun _ => True) (fun _ => True) c false :=
  ⟨docClass_true, trivial, fun h => (by rw [hstrict] at h; cases h), fun h => (by cases h), fun _ _ => trivial,
   fun _ _ _ _ => trivial, fun h => (by cases h)⟩

/-- `AccessorF` paths over plain documents -/
theorem env_plain (c : Ctx) (hroot : plainOK c.root = true)
    (hre : ∀ p fl t, (c.regexMatch p fl t).isSome = true) :
    Env (fun v => plainOK v = true) (fun v => plainOK v = true) c true :=
  ⟨docClass_plainG false, hroot, fun _ _ h => (plainG_arr h).1, fun _ => filterOK_plain c hre, fun _ h => h,
   fun _ h => (plainG_arr h).2, fun _ _ h => h⟩

/-- `AccessorF` paths over plain documents with `json.Number`s, given the `strconv` law of C05 -/
theorem env_plainNum (c : Ctx) (hroot : plainNumOK c.root = true)
    (hre : ∀ p fl t, (c.regexMatch p fl t).isSome = true) (hlaw : C05.IntTextIsFloat) :
    Env (fun v => plainNumOK v = true) (fun v => plainNumOK v = true) c true :=
  ⟨docClass_plainG true, hroot, fun _ _ h => (plainG_arr h).1,
   fun _ => filterOK_plainNum c hre (fun op l r => C05.compare_never_panics hlaw c op l r), fun _ h => h,
   fun _ h => (plainG_arr h).2, fun _ _ h => h⟩

/-! ## the executor -/

/-- **Lax totality, executor level.**  An accessor path evaluated in lax mode returns no error and
    never `statusFailed`, unless the run was cancelled or the model ran out of fuel. -/
theorem lax_path_total (c : Ctx) (fuel : Nat) (s : St) (n : Node) (v : Item) (f : Found) (u : Bool)
    (hlax : c.lax = true) (hig : s.ignoreSE = true) (hn : Accessor n = true)
    (hv : lenOK v = true) (hcur : lenOK s.current = true) (hroot : lenOK c.root = true)
    (hoof : (xItem c fuel s n v f u).st.oof = false) (hsc : (xItem c fuel s n v f u).st.sawCancel = false) :
    (xItem c fuel s n v f u).err = none ∧ (xItem c fuel s n v f u).status ≠ .failed :=
  (((xItem_lt (env_len c hroot) fuel s n v f u hn hv hcur (fun _ _ _ _ => trivial)).1).2
    (by simp [dirty, hoof, hsc])).2 ⟨hlax, hig⟩

/-- the same, stated on the start state: a context that is never done (`budget = none`), not yet
    cancelled; then fuel is the only proviso -/
theorem lax_path_total_never_done (c : Ctx) (fuel : Nat) (s : St) (n : Node) (v : Item) (f : Found) (u : Bool)
    (hlax : c.lax = true) (hig : s.ignoreSE = true) (hn : Accessor n = true)
    (hv : lenOK v = true) (hcur : lenOK s.current = true) (hroot : lenOK c.root = true)
    (hb : s.budget = none) (hsc : s.sawCancel = false)
    (hoof : (xItem c fuel s n v f u).st.oof = false) :
    (xItem c fuel s n v f u).err = none ∧ (xItem c fuel s n v f u).status ≠ .failed ∧
    (xItem c fuel s n v f u).st.panicked = s.panicked := by
  have h := xItem_lt (env_len c hroot) fuel s n v f u hn hv hcur (fun _ _ _ _ => trivial)
  have hsc' : (xItem c fuel s n v f u).st.sawCancel = false := by rw [(h.1.1.budget hb).2]; exact hsc
  have := (h.1.2 (by simp [dirty, hoof, hsc'])).2 ⟨hlax, hig⟩
  exact ⟨this.1, this.2, h.1.1.panicked⟩

/-- the same for paths with filters and predicates, over plain documents (`hf`: the items already
    collected are plain too — they can become operands of a comparison) -/
theorem lax_filter_path_total (c : Ctx) (fuel : Nat) (s : St) (n : Node) (v : Item) (f : Found) (u : Bool)
    (hlax : c.lax = true) (hig : s.ignoreSE = true) (hn : AccessorF n = true)
    (hre : ∀ p fl t, (c.regexMatch p fl t).isSome = true)
    (hv : plainOK v = true) (hcur : plainOK s.current = true) (hroot : plainOK c.root = true)
    (hf : AllD (fun v => plainOK v = true) f)
    (hoof : (xItem c fuel s n v f u).st.oof = false) (hsc : (xItem c fuel s n v f u).st.sawCancel = false) :
    (xItem c fuel s n v f u).err = none ∧ (xItem c fuel s n v f u).status ≠ .failed :=
  (((xItem_lt (env_plain c hroot hre) fuel s n v f u hn hv hcur hf).1).2 (by simp [dirty, hoof, hsc])).2 ⟨hlax, hig⟩

/-- a context that is never done is never seen cancelled -/
theorem path_never_cancelled {D F : Item → Prop} {c : Ctx} {ff : Bool} (E : Env D F c ff) (fuel : Nat) (s : St)
    (n : Node) (v : Item) (f : Found) (u : Bool) (hn : AccG ff n = true) (hv : D v) (hcur : D s.current)
    (hf : AllD F f) (hb : s.budget = none) : (xItem c fuel s n v f u).st.sawCancel = s.sawCancel :=
  ((xItem_lt E fuel s n v f u hn hv hcur hf).1.1.budget hb).2

/-- a path of these classes never panics, lax or strict -/
theorem path_never_panics {D F : Item → Prop} {c : Ctx} {ff : Bool} (E : Env D F c ff) (fuel : Nat) (s : St)
    (n : Node) (v : Item) (f : Found) (u : Bool) (hn : AccG ff n = true) (hv : D v) (hcur : D s.current)
    (hf : AllD F f) : (xItem c fuel s n v f u).st.panicked = s.panicked :=
  (xItem_lt E fuel s n v f u hn hv hcur hf).1.1.panicked

/-- **Error class, both modes.**  The only error such a path can return (run not cancelled, fuel not
    exhausted) is the suppressible one -/
theorem path_error_class {D F : Item → Prop} {c : Ctx} {ff : Bool} (E : Env D F c ff) (fuel : Nat) (s : St)
    (n : Node) (v : Item) (f : Found) (u : Bool) (hn : AccG ff n = true) (hv : D v) (hcur : D s.current)
    (hf : AllD F f)
    (hoof : (xItem c fuel s n v f u).st.oof = false) (hsc : (xItem c fuel s n v f u).st.sawCancel = false) :
    (xItem c fuel s n v f u).err = none ∨ (xItem c fuel s n v f u).err = some .verbose :=
  ((xItem_lt E fuel s n v f u hn hv hcur hf).1.2 (by simp [dirty, hoof, hsc])).1

/-! ## the entry points -/

section Entry
variable {D F : Item → Prop} {ff : Bool}

/-- `exec.query` (which in strict mode runs a probe as a collecting run) keeps the invariant -/
theorem query_lt {c : Ctx} (E : Env D F c ff) (fuel : Nat) (s : St) (n : Node) (v : Item) (f : Found)
    (hn : AccG ff n = true) (hv : D v) (hcur : D s.current) (hf : AllD F f) :
    Out F c s (query c fuel s n v f) := by
  unfold query
  split
  · rename_i hcond
    have hnl : ¬ Lx c s := fun h => by simp [h.1] at hcond
    have hr : Out F c s (executeItem c (xItem c fuel) s n v (some [])) :=
      xItem_lt E fuel s n v _ _ hn hv hcur AllD.nil
    try dsimp only
    split
    · exact ⟨⟨hr.1.1, fun hd => ⟨(hr.1.2 hd).1, fun h => absurd h hnl⟩⟩, AllD.none⟩
    · split
      · exact ⟨Out3.ret hr.1.1 _ _ (Or.inl rfl) (fun h => absurd h hnl), AllD.none⟩
      · exact ⟨Out3.ret hr.1.1 _ _ (Or.inl rfl) (fun h => absurd h hnl), AllD.none⟩
  · exact xItem_lt E fuel s n v _ _ hn hv hcur hf

theorem runRes_lt (e : Entry) (fuel : Nat) (a : AST) (doc : Item) (o : Opts) (E : Env D F (mkCtx a doc o) ff)
    (hacc : AccG ff a.root = true) (hdoc : D doc) :
    Out F (mkCtx a doc o) (initSt a doc o) (runRes e fuel a doc o) := by
  unfold runRes
  cases e <;> simp only
  · exact query_lt E _ _ _ _ _ hacc hdoc hdoc AllD.nil
  · exact query_lt E _ _ _ _ _ hacc hdoc hdoc AllD.nil
  · exact query_lt E _ _ _ _ _ hacc hdoc hdoc AllD.none
  · exact query_lt E _ _ _ _ _ hacc hdoc hdoc AllD.nil
  · split
    · exact query_lt E _ _ _ _ _ hacc hdoc hdoc AllD.nil
    · exact query_lt E _ _ _ _ _ hacc hdoc hdoc AllD.none

/-- everything the invariant says about the run underlying an entry point -/
theorem run_facts (e : Entry) (fuel : Nat) (a : AST) (doc : Item) (o : Opts) (E : Env D F (mkCtx a doc o) ff)
    (hacc : AccG ff a.root = true) (hdoc : D doc) :
    (runRes e fuel a doc o).st.panicked = false ∧
    (o.budget = none → (runRes e fuel a doc o).st.sawCancel = false) ∧
    ((runRes e fuel a doc o).st.oof = false → (runRes e fuel a doc o).st.sawCancel = false →
      ((runRes e fuel a doc o).err = none ∨ (runRes e fuel a doc o).err = some .verbose) ∧
      (a.lax = true → (runRes e fuel a doc o).err = none ∧ (runRes e fuel a doc o).status ≠ .failed)) := by
  have hr := (runRes_lt e fuel a doc o E hacc hdoc).1
  refine ⟨hr.1.panicked, fun hb => (hr.1.budget hb).2, fun hoof hsc => ?_⟩
  have h := hr.2 (by simp [dirty, hoof, hsc])
  exact ⟨h.1, fun hlax => h.2 ⟨hlax, hlax⟩⟩

/-- `Query`, lax, generic in the class -/
theorem query_total (fuel : Nat) (a : AST) (doc : Item) (o : Opts) (E : Env D F (mkCtx a doc o) ff)
    (hacc : AccG ff a.root = true) (hdoc : D doc) (hlax : a.lax = true) (hb : o.budget = none) :
    (∃ xs, queryWith fuel a doc o = .items xs) ∨ queryWith fuel a doc o = .outOfFuel := by
  obtain ⟨hp, hsc, h⟩ := run_facts .query fuel a doc o E hacc hdoc
  simp only [runRes] at hp hsc h
  unfold queryWith guarded
  cases hoof : (execute fuel a doc o).st.oof with
  | true => right; simp [hoof]
  | false =>
    left
    have := (h hoof (hsc hb)).2 hlax
    simp [hoof, hp, this.1]

theorem first_total (fuel : Nat) (a : AST) (doc : Item) (o : Opts) (E : Env D F (mkCtx a doc o) ff)
    (hacc : AccG ff a.root = true) (hdoc : D doc) (hlax : a.lax = true) (hb : o.budget = none) :
    (∃ x, firstWith fuel a doc o = .first x) ∨ firstWith fuel a doc o = .outOfFuel := by
  obtain ⟨hp, hsc, h⟩ := run_facts .first fuel a doc o E hacc hdoc
  simp only [runRes] at hp hsc h
  unfold firstWith guarded
  cases hoof : (execute fuel a doc o).st.oof with
  | true => right; simp [hoof]
  | false =>
    left
    have := (h hoof (hsc hb)).2 hlax
    simp [hoof, hp, this.1]

theorem exists_total (fuel : Nat) (a : AST) (doc : Item) (o : Opts) (E : Env D F (mkCtx a doc o) ff)
    (hacc : AccG ff a.root = true) (hdoc : D doc) (hlax : a.lax = true) (hb : o.budget = none) :
    (∃ b, existsWith fuel a doc o = .bool b) ∨ existsWith fuel a doc o = .outOfFuel := by
  obtain ⟨hp, hsc, h⟩ := run_facts .exists fuel a doc o E hacc hdoc
  simp only [runRes] at hp hsc h
  unfold existsWith guarded
  cases hoof : (existsRun fuel a doc o).st.oof with
  | true => right; simp [hoof]
  | false =>
    left
    have := (h hoof (hsc hb)).2 hlax
    simp [hoof, hp, this.1, this.2]

/-- `Query`, either mode, generic in the class: items, or the suppressible error -/
theorem query_error_class (fuel : Nat) (a : AST) (doc : Item) (o : Opts) (E : Env D F (mkCtx a doc o) ff)
    (hacc : AccG ff a.root = true) (hdoc : D doc) (hb : o.budget = none) :
    (∃ xs, queryWith fuel a doc o = .items xs) ∨ queryWith fuel a doc o = .error .verbose ∨
    queryWith fuel a doc o = .outOfFuel := by
  obtain ⟨hp, hsc, h⟩ := run_facts .query fuel a doc o E hacc hdoc
  simp only [runRes] at hp hsc h
  unfold queryWith guarded
  cases hoof : (execute fuel a doc o).st.oof with
  | true => right; right; simp [hoof]
  | false =>
    rcases (h hoof (hsc hb)).1 with he | he
    · left; simp [hoof, hp, he]
    · right; left; simp [hoof, hp, he]

end Entry

/-- **C07, whole paths: `Query`.**  A lax accessor path returns a (possibly empty) sequence for every
    document, with or without `WithSilent`: never an error, never a panic. -/
theorem lax_accessors_total (fuel : Nat) (a : AST) (doc : Item) (o : Opts) (hlax : a.lax = true)
    (hacc : Accessor a.root = true) (hdoc : lenOK doc = true) (hb : o.budget = none) :
    (∃ xs, queryWith fuel a doc o = .items xs) ∨ queryWith fuel a doc o = .outOfFuel :=
  query_total fuel a doc o (env_len _ hdoc) hacc hdoc hlax hb

/-- `First` -/
theorem lax_accessors_first (fuel : Nat) (a : AST) (doc : Item) (o : Opts) (hlax : a.lax = true)
    (hacc : Accessor a.root = true) (hdoc : lenOK doc = true) (hb : o.budget = none) :
    (∃ x, firstWith fuel a doc o = .first x) ∨ firstWith fuel a doc o = .outOfFuel :=
  first_total fuel a doc o (env_len _ hdoc) hacc hdoc hlax hb

/-- `Exists`: `true` or `false`, never NULL, never an error -/
theorem lax_accessors_exists (fuel : Nat) (a : AST) (doc : Item) (o : Opts) (hlax : a.lax = true)
    (hacc : Accessor a.root = true) (hdoc : lenOK doc = true) (hb : o.budget = none) :
    (∃ b, existsWith fuel a doc o = .bool b) ∨ existsWith fuel a doc o = .outOfFuel :=
  exists_total fuel a doc o (env_len _ hdoc) hacc hdoc hlax hb

/-- with a context that may be cancelled, cancellation is the only error -/
theorem lax_accessors_total_ctx (fuel : Nat) (a : AST) (doc : Item) (o : Opts) (hlax : a.lax = true)
    (hacc : Accessor a.root = true) (hdoc : lenOK doc = true) :
    (∃ xs, queryWith fuel a doc o = .items xs) ∨ queryWith fuel a doc o = .outOfFuel ∨
    queryWith fuel a doc o = .error .cancelled := by
  obtain ⟨hp, -, h⟩ := run_facts .query fuel a doc o (env_len _ hdoc) hacc hdoc
  simp only [runRes] at hp h
  have hg := execute_good fuel a doc o
  unfold queryWith guarded
  cases hoof : (execute fuel a doc o).st.oof with
  | true => right; left; simp [hoof]
  | false =>
    cases hsc : (execute fuel a doc o).st.sawCancel with
    | true =>
      right; right
      have := (hg.cancel rfl hsc).2
      simp [hoof, hp, this]
    | false =>
      left
      have := (h hoof hsc).2 hlax
      simp [hoof, hp, this.1]

/-- **lax totality with filters**: `AccessorF` paths over plain documents -/
theorem lax_filters_total (fuel : Nat) (a : AST) (doc : Item) (o : Opts) (hlax : a.lax = true)
    (hacc : AccessorF a.root = true) (hdoc : plainOK doc = true) (hb : o.budget = none)
    (hre : ∀ p fl t, (o.regexMatch p fl t).isSome = true) :
    (∃ xs, queryWith fuel a doc o = .items xs) ∨ queryWith fuel a doc o = .outOfFuel :=
  query_total fuel a doc o (env_plain _ hdoc hre) hacc hdoc hlax hb

/-- the same for documents decoded with `UseNumber`, under the `strconv` law `C05.IntTextIsFloat` -/
theorem lax_filters_total_num (fuel : Nat) (a : AST) (doc : Item) (o : Opts) (hlax : a.lax = true)
    (hacc : AccessorF a.root = true) (hdoc : plainNumOK doc = true) (hb : o.budget = none)
    (hre : ∀ p fl t, (o.regexMatch p fl t).isSome = true) (hlaw : C05.IntTextIsFloat) :
    (∃ xs, queryWith fuel a doc o = .items xs) ∨ queryWith fuel a doc o = .outOfFuel :=
  query_total fuel a doc o (env_plainNum _ hdoc hre hlaw) hacc hdoc hlax hb

theorem lax_filters_exists (fuel : Nat) (a : AST) (doc : Item) (o : Opts) (hlax : a.lax = true)
    (hacc : AccessorF a.root = true) (hdoc : plainOK doc = true) (hb : o.budget = none)
    (hre : ∀ p fl t, (o.regexMatch p fl t).isSome = true) :
    (∃ b, existsWith fuel a doc o = .bool b) ∨ existsWith fuel a doc o = .outOfFuel :=
  exists_total fuel a doc o (env_plain _ hdoc hre) hacc hdoc hlax hb

/-- **strict-mode contrast.**  For the same paths in strict mode, over every document, the only possible
    error is the suppressible structural one: no `ErrExecution`-only error, no `ErrInvalid`, no panic -/
theorem strict_accessor_error_class (fuel : Nat) (a : AST) (doc : Item) (o : Opts) (hstrict : a.lax = false)
    (hacc : Accessor a.root = true) (hb : o.budget = none) :
    (∃ xs, queryWith fuel a doc o = .items xs) ∨ queryWith fuel a doc o = .error .verbose ∨
    queryWith fuel a doc o = .outOfFuel :=
  query_error_class fuel a doc o (env_all _ hstrict) hacc trivial hb

/-- … and under `WithSilent` none at all -/
theorem strict_accessor_silent (fuel : Nat) (a : AST) (doc : Item) (o : Opts) (hstrict : a.lax = false)
    (hacc : Accessor a.root = true) (hb : o.budget = none) (hs : o.silent = true) :
    (∃ xs, queryWith fuel a doc o = .items xs) ∨ queryWith fuel a doc o = .outOfFuel := by
  obtain ⟨hp, hsc, h⟩ := run_facts .query fuel a doc o (env_all _ hstrict) hacc trivial
  simp only [runRes] at hp hsc h
  have hg := execute_good fuel a doc o
  unfold queryWith guarded
  cases hoof : (execute fuel a doc o).st.oof with
  | true => right; simp [hoof]
  | false =>
    left
    rcases (h hoof (hsc hb)).1 with he | he
    · simp [hoof, hp, he]
    · exact absurd he (hg.silent (by simp [initSt, hs]))

/-- strict mode, paths with filters, plain documents: same error class -/
theorem strict_filters_error_class (fuel : Nat) (a : AST) (doc : Item) (o : Opts)
    (hacc : AccessorF a.root = true) (hdoc : plainOK doc = true) (hb : o.budget = none)
    (hre : ∀ p fl t, (o.regexMatch p fl t).isSome = true) :
    (∃ xs, queryWith fuel a doc o = .items xs) ∨ queryWith fuel a doc o = .error .verbose ∨
    queryWith fuel a doc o = .outOfFuel :=
  query_error_class fuel a doc o (env_plain _ hdoc hre) hacc hdoc hb

/-! ## non-vacuity and the boundary of the classes -/

section Examples

private def k (s : String) (nx : Option Node) : Node := .key s.toList nx
private def idx (l : Node) (r : Option Node) : Node := .binary .subscript (some l) r none
private def cur (nx : Option Node) : Node := .const .current nx

/-- `$.a.b` -/
private def p1 : Node := .const .root (some (k "a" (some (k "b" none))))
/-- `$.a[*].b[0 to last, 5].**{1 to 2}.*.c.size()` -/
private def p2 : Node :=
  .const .root <| some <| k "a" <| some <| .const .anyArray <| some <| k "b" <| some <|
  .arrayIndex [idx (.integer 0 none) (some (.const .last none)), idx (.integer 5 none) none] <| some <|
  .any 1 2 <| some <| .const .anyKey <| some <| k "c" <| some <| .method .size none
/-- `$.a ? (@.b > 1 && exists(@.c) || !(@.d starts with "x")).b` -/
private def p3 : Node :=
  .const .root <| some <| k "a" <| some <| .unary .filter (some
    (.binary .or
      (some (.binary .and
        (some (.binary .gt (some (cur (some (k "b" none)))) (some (.integer 1 none)) none))
        (some (.unary .exists (some (cur (some (k "c" none)))) none)) none))
      (some (.unary .not (some
        (.binary .startsWith (some (cur (some (k "d" none)))) (some (.str "x".toList none)) none)) none))
      none)) <| some <| k "b" none

/-- the predicate path `$.a.b == 1 || exists($.c[*])` -/
private def p4 : Node :=
  .binary .or
    (some (.binary .eq (some p1) (some (.integer 1 none)) none))
    (some (.unary .exists (some (.const .root (some (k "c" (some (.const .anyArray none)))))) none)) none

example : Accessor p1 = true := by decide
example : Accessor p2 = true := by decide
example : AccessorF p3 = true := by decide
example : Accessor p3 = false := by decide
example : AccessorF p4 = true := by decide

/-- lax, mismatching documents: the empty sequence -/
example : run .query 30 ⟨p1, true, false⟩ (.int 1) {} = .items [] := rfl
example : run .query 30 ⟨p1, true, false⟩ (.obj [("a".toList, .arr [.int 1, .str "x".toList])]) {} = .items [] := rfl
example : run .query 30 ⟨p2, true, false⟩ (.arr [.null, .bool true]) {} = .items [] := rfl
example : run .query 30 ⟨p2, true, false⟩ (.obj [("a".toList, .obj [("b".toList, .int 3)])]) {} = .items [] := rfl
example : run .exists 30 ⟨p2, true, false⟩ (.arr [.null]) {} = .bool false := rfl
/-- … and a matching one: `{"a":[{"b":[{"x":{"y":{"c":[1,2]}}}]}]}` gives `2` -/
example : run .query 40 ⟨p2, true, false⟩
    (.obj [("a".toList, .arr [.obj [("b".toList, .arr [.obj [("x".toList,
      .obj [("y".toList, .obj [("c".toList, .arr [.int 1, .int 2])])])]])]])]) {} =
    .items [.int 2] := rfl
/-- a filter whose operands do not fit the document: nothing, no error -/
example : run .query 40 ⟨p3, true, false⟩ (.obj [("a".toList, .arr [.int 1, .str "s".toList, .obj []])]) {} =
    .items [] := rfl
example : run .query 40 ⟨p3, true, false⟩
    (.obj [("a".toList, .arr [.obj [("b".toList, .int 7), ("c".toList, .null)], .obj [("b".toList, .int 0)]])]) {} =
    .items [.int 7, .int 0] := rfl
/-- a predicate path over a document that fits neither operand: `false`, no error -/
example : run .query 40 ⟨p4, true, true⟩ (.arr [.int 1]) {} = .items [.bool false] := rfl
example : run .match_ 40 ⟨p4, true, true⟩ (.obj [("c".toList, .int 5)]) {} = .bool true := rfl
/-- a numeric literal as a bound is truncated: `$[1.75]` is `$[1]` -/
example : Accessor (.const .root (some (.arrayIndex [idx (.numeric (F64.ofQ 7 4) none) none] none))) = true := by decide
example : run .query 30 ⟨.const .root (some (.arrayIndex [idx (.numeric (F64.ofQ 7 4) none) none] none)), true, false⟩
    (.arr [.int 10, .int 20, .int 30]) {} = .items [.int 20] := rfl
/-- strict, same paths: the structural error; silent: nothing -/
example : run .query 30 ⟨p1, false, false⟩ (.int 1) {} = .error .verbose := rfl
example : run .query 30 ⟨p1, false, false⟩ (.int 1) { silent := true } = .items [] := rfl
/-- the hypotheses of `lax_accessors_total` / `lax_filters_total` are satisfiable -/
example : ∃ xs, queryWith 30 ⟨p2, true, false⟩ (.arr [.null, .bool true]) {} = .items xs := ⟨[], rfl⟩
example : plainOK (.obj [("a".toList, .arr [.int 1, .str "s".toList, .obj []])]) = true := by decide

/-! What is excluded from the classes is excluded for a reason: each of these lax paths errs. -/

/-- `$[2147483648]`: a literal bound outside int32 (`Bound`) -/
example : run .query 30 ⟨.const .root (some (.arrayIndex [idx (.integer 2147483648 none) none] none)), true, false⟩
    (.arr []) {} = .error .verbose := rfl
/-- `$["x"]`: a bound that is not a number -/
example : run .query 30 ⟨.const .root (some (.arrayIndex [idx (.str "x".toList none) none] none)), true, false⟩
    (.arr []) {} = .error .verbose := rfl
/-- `last` outside a subscript (`accConst`) -/
example : run .query 30 ⟨.const .last none, true, false⟩ (.arr []) {} = .error (.hard .lastOutside) := rfl
/-- `$.keyvalue()` on a non-object, `$.a.double()` on an unconvertible string (`accMethod`) -/
example : run .query 30 ⟨.const .root (some (.method .keyvalue none)), true, false⟩ (.int 1) {} = .error .verbose := rfl
example : run .query 30 ⟨.const .root (some (k "a" (some (.method .double none)))), true, false⟩
    (.obj [("a".toList, .str "x".toList)]) {} = .error .verbose := rfl
/-- `$x` without a binding -/
example : run .query 30 ⟨.var "x".toList none, true, false⟩ (.int 1) {} = .error (.hard .noVar) := rfl
/-- `last` is read back through `getJSONInt32`: inside an array of more than 2^31 elements (`lenOK`)
    it is the "out of integer range" error, lax or not -/
example : (getArrayIndex (mkCtx ⟨p1, true, false⟩ .null {}) (xItem (mkCtx ⟨p1, true, false⟩ .null {}) 3)
    { initSt ⟨p1, true, false⟩ .null {} with innermost := 2147483649 } (.const .last none) .null).2 =
    .error .verbose := rfl
/-- `$ ? (@ == 1)` on a datetime item (`plainOK`; known finding D15): `ErrInvalid`, in lax mode -/
example : run .query 30 ⟨.const .root (some (.unary .filter
      (some (.binary .eq (some (cur none)) (some (.integer 1 none)) none)) none)), true, false⟩
    (.dt ⟨.date, 0, 0, 0⟩) {} = .error .invalid := rfl
/-- known finding D6 (not an error): a subscript that selects JSON `null` drops it -/
example : run .query 30 ⟨.const .root (some (.arrayIndex [idx (.integer 0 none) none] none)), true, false⟩
    (.arr [.null, .int 1]) {} = .items [] := rfl

end Examples

end C07b
end Sqljson
