import Sqljson.Lemmas.LaxTotal
import Sqljson.Lemmas.ApiGood
/-!
# C07 (second half) — lax structural totality over whole accessor paths
-/

namespace Sqljson
namespace C07b
open Exec Api Exec.Lax

/-! ## the executor -/

/-- **Lax totality, executor level.**  An accessor path evaluated in lax mode returns no error and
    never `statusFailed`, unless the run was cancelled or the model ran out of fuel. -/
theorem lax_path_total (c : Ctx) (fuel : Nat) (s : St) (n : Node) (v : Item) (f : Found) (u : Bool)
    (hlax : c.lax = true) (hig : s.ignoreSE = true) (hn : Accessor n = true)
    (hv : lenOK v = true) (hcur : lenOK s.current = true) (hroot : lenOK c.root = true)
    (hoof : (xItem c fuel s n v f u).st.oof = false) (hsc : (xItem c fuel s n v f u).st.sawCancel = false) :
    (xItem c fuel s n v f u).err = none ∧ (xItem c fuel s n v f u).status ≠ .failed :=
  ((xItem_lt c fuel s n v f u hn).2 (by simp [dirty, hoof, hsc])).2 ⟨⟨hlax, hig, hcur, hroot⟩, hv⟩

/-- a context that is never done is never seen cancelled -/
theorem path_never_cancelled (c : Ctx) (fuel : Nat) (s : St) (n : Node) (v : Item) (f : Found) (u : Bool)
    (hn : Accessor n = true) (hb : s.budget = none) :
    (xItem c fuel s n v f u).st.sawCancel = s.sawCancel :=
  ((xItem_lt c fuel s n v f u hn).1.budget hb).2

/-- an accessor path never panics, lax or strict -/
theorem path_never_panics (c : Ctx) (fuel : Nat) (s : St) (n : Node) (v : Item) (f : Found) (u : Bool)
    (hn : Accessor n = true) : (xItem c fuel s n v f u).st.panicked = s.panicked :=
  (xItem_lt c fuel s n v f u hn).1.panicked

/-- **Error class, both modes.**  The only error an accessor path can return (run not cancelled, fuel
    not exhausted) is the suppressible one -/
theorem path_error_class (c : Ctx) (fuel : Nat) (s : St) (n : Node) (v : Item) (f : Found) (u : Bool)
    (hn : Accessor n = true)
    (hoof : (xItem c fuel s n v f u).st.oof = false) (hsc : (xItem c fuel s n v f u).st.sawCancel = false) :
    (xItem c fuel s n v f u).err = none ∨ (xItem c fuel s n v f u).err = some .verbose :=
  ((xItem_lt c fuel s n v f u hn).2 (by simp [dirty, hoof, hsc])).1

/-! ## the entry points -/

/-- `exec.query` (which in strict mode runs a probe as a collecting run) keeps the invariant -/
theorem query_lt (c : Ctx) (fuel : Nat) (s : St) (n : Node) (v : Item) (f : Found) (hn : Accessor n = true) :
    LT c s v (query c fuel s n v f) := by
  unfold query
  split
  · rename_i hcond
    have hnl : ¬ (LaxS c s ∧ lenOK v = true) := fun h => by simp [h.1.1] at hcond
    have hr : LT c s v (executeItem c (xItem c fuel) s n v (some [])) := xItem_lt c fuel s n v _ _ hn
    try dsimp only
    split
    · exact ⟨hr.1, fun hd => ⟨(hr.2 hd).1, fun h => absurd h hnl⟩⟩
    · split
      · exact Out3.ret hr.1 _ _ (Or.inl rfl) (fun h => absurd h hnl)
      · exact Out3.ret hr.1 _ _ (Or.inl rfl) (fun h => absurd h hnl)
  · exact xItem_lt c fuel s n v _ _ hn

theorem runRes_lt (e : Entry) (fuel : Nat) (a : AST) (doc : Item) (o : Opts) (hacc : Accessor a.root = true) :
    LT (mkCtx a doc o) (initSt a doc o) doc (runRes e fuel a doc o) := by
  unfold runRes
  cases e <;> simp only
  · exact query_lt _ _ _ _ _ _ hacc
  · exact query_lt _ _ _ _ _ _ hacc
  · exact query_lt _ _ _ _ _ _ hacc
  · exact query_lt _ _ _ _ _ _ hacc
  · split
    · exact query_lt _ _ _ _ _ _ hacc
    · exact query_lt _ _ _ _ _ _ hacc

/-- everything the invariant says about the run underlying an entry point -/
theorem run_facts (e : Entry) (fuel : Nat) (a : AST) (doc : Item) (o : Opts) (hacc : Accessor a.root = true) :
    (runRes e fuel a doc o).st.panicked = false ∧
    (o.budget = none → (runRes e fuel a doc o).st.sawCancel = false) ∧
    ((runRes e fuel a doc o).st.oof = false → (runRes e fuel a doc o).st.sawCancel = false →
      ((runRes e fuel a doc o).err = none ∨ (runRes e fuel a doc o).err = some .verbose) ∧
      (a.lax = true → lenOK doc = true →
        (runRes e fuel a doc o).err = none ∧ (runRes e fuel a doc o).status ≠ .failed)) := by
  have hr := runRes_lt e fuel a doc o hacc
  refine ⟨hr.1.panicked, fun hb => (hr.1.budget hb).2, fun hoof hsc => ?_⟩
  have h := hr.2 (by simp [dirty, hoof, hsc])
  exact ⟨h.1, fun hlax hdoc => h.2 ⟨⟨hlax, hlax, hdoc, hdoc⟩, hdoc⟩⟩

/-- **C07, whole paths: `Query`.**  A lax accessor path returns a (possibly empty) sequence for every
    document, with or without `WithSilent`: never an error, never a panic. -/
theorem lax_accessors_total (fuel : Nat) (a : AST) (doc : Item) (o : Opts) (hlax : a.lax = true)
    (hacc : Accessor a.root = true) (hdoc : lenOK doc = true) (hb : o.budget = none) :
    (∃ xs, queryWith fuel a doc o = .items xs) ∨ queryWith fuel a doc o = .outOfFuel := by
  obtain ⟨hp, hsc, h⟩ := run_facts .query fuel a doc o hacc
  simp only [runRes] at hp hsc h
  unfold queryWith guarded
  cases hoof : (execute fuel a doc o).st.oof with
  | true => right; simp [hoof]
  | false =>
    left
    have := (h hoof (hsc hb)).2 hlax hdoc
    simp [hoof, hp, this.1]

/-- `First` -/
theorem lax_accessors_first (fuel : Nat) (a : AST) (doc : Item) (o : Opts) (hlax : a.lax = true)
    (hacc : Accessor a.root = true) (hdoc : lenOK doc = true) (hb : o.budget = none) :
    (∃ x, firstWith fuel a doc o = .first x) ∨ firstWith fuel a doc o = .outOfFuel := by
  obtain ⟨hp, hsc, h⟩ := run_facts .first fuel a doc o hacc
  simp only [runRes] at hp hsc h
  unfold firstWith guarded
  cases hoof : (execute fuel a doc o).st.oof with
  | true => right; simp [hoof]
  | false =>
    left
    have := (h hoof (hsc hb)).2 hlax hdoc
    simp [hoof, hp, this.1]

/-- `Exists`: `true` or `false`, never NULL, never an error -/
theorem lax_accessors_exists (fuel : Nat) (a : AST) (doc : Item) (o : Opts) (hlax : a.lax = true)
    (hacc : Accessor a.root = true) (hdoc : lenOK doc = true) (hb : o.budget = none) :
    (∃ b, existsWith fuel a doc o = .bool b) ∨ existsWith fuel a doc o = .outOfFuel := by
  obtain ⟨hp, hsc, h⟩ := run_facts .exists fuel a doc o hacc
  simp only [runRes] at hp hsc h
  unfold existsWith guarded
  cases hoof : (existsRun fuel a doc o).st.oof with
  | true => right; simp [hoof]
  | false =>
    left
    have := (h hoof (hsc hb)).2 hlax hdoc
    simp [hoof, hp, this.1, this.2]

/-- with a context that may be cancelled, cancellation is the only error -/
theorem lax_accessors_total_ctx (fuel : Nat) (a : AST) (doc : Item) (o : Opts) (hlax : a.lax = true)
    (hacc : Accessor a.root = true) (hdoc : lenOK doc = true) :
    (∃ xs, queryWith fuel a doc o = .items xs) ∨ queryWith fuel a doc o = .outOfFuel ∨
    queryWith fuel a doc o = .error .cancelled := by
  obtain ⟨hp, -, h⟩ := run_facts .query fuel a doc o hacc
  simp only [runRes] at hp h
  have hg := execute_good fuel a doc o
  unfold queryWith guarded
  cases hoof : (execute fuel a doc o).st.oof with
  | true => right; left; simp [hoof]
  | false =>
    cases hsc : (execute fuel a doc o).st.sawCancel with
    | true =>
      right; right
      have := (hg.cancel rfl hsc).2
      simp [hoof, hp, this]
    | false =>
      left
      have := (h hoof hsc).2 hlax hdoc
      simp [hoof, hp, this.1]

/-- **strict-mode contrast.**  For the same paths in strict mode the only possible error is the
    suppressible structural one: no `ErrExecution`-only error, no `ErrInvalid`, no panic -/
theorem strict_accessor_error_class (fuel : Nat) (a : AST) (doc : Item) (o : Opts)
    (hacc : Accessor a.root = true) (hb : o.budget = none) :
    (∃ xs, queryWith fuel a doc o = .items xs) ∨ queryWith fuel a doc o = .error .verbose ∨
    queryWith fuel a doc o = .outOfFuel := by
  obtain ⟨hp, hsc, h⟩ := run_facts .query fuel a doc o hacc
  simp only [runRes] at hp hsc h
  unfold queryWith guarded
  cases hoof : (execute fuel a doc o).st.oof with
  | true => right; right; simp [hoof]
  | false =>
    rcases (h hoof (hsc hb)).1 with he | he
    · left; simp [hoof, hp, he]
    · right; left; simp [hoof, hp, he]

/-- … and under `WithSilent` none at all -/
theorem strict_accessor_silent (fuel : Nat) (a : AST) (doc : Item) (o : Opts)
    (hacc : Accessor a.root = true) (hb : o.budget = none) (hs : o.silent = true) :
    (∃ xs, queryWith fuel a doc o = .items xs) ∨ queryWith fuel a doc o = .outOfFuel := by
  obtain ⟨hp, hsc, h⟩ := run_facts .query fuel a doc o hacc
  simp only [runRes] at hp hsc h
  have hg := execute_good fuel a doc o
  unfold queryWith guarded
  cases hoof : (execute fuel a doc o).st.oof with
  | true => right; simp [hoof]
  | false =>
    left
    rcases (h hoof (hsc hb)).1 with he | he
    · simp [hoof, hp, he]
    · exact absurd he (hg.silent (by simp [initSt, hs]))

/-! ## non-vacuity and the boundary of the class -/

section Examples

private def k (s : String) (nx : Option Node) : Node := .key s.toList nx
private def idx (l : Node) (r : Option Node) : Node := .binary .subscript (some l) r none


/-- `$.a.b` -/
private def p1 : Node := .const .root (some (k "a" (some (k "b" none))))
/-- `$.a[*].b[0 to last, 5].**{1 to 2}.*.c.size()` -/
private def p2 : Node :=
  .const .root <| some <| k "a" <| some <| .const .anyArray <| some <| k "b" <| some <|
  .arrayIndex [idx (.integer 0 none) (some (.const .last none)), idx (.integer 5 none) none] <| some <|
  .any 1 2 <| some <| .const .anyKey <| some <| k "c" <| some <| .method .size none

example : Accessor p1 = true := by decide
example : Accessor p2 = true := by decide

/-- lax, mismatching documents: the empty sequence -/
example : run .query 30 ⟨p1, true, false⟩ (.int 1) {} = .items [] := rfl
example : run .query 30 ⟨p1, true, false⟩ (.obj [("a".toList, .arr [.int 1, .str "x".toList])]) {} = .items [] := rfl
example : run .query 30 ⟨p2, true, false⟩ (.arr [.null, .bool true]) {} = .items [] := rfl
example : run .query 30 ⟨p2, true, false⟩ (.obj [("a".toList, .obj [("b".toList, .int 3)])]) {} = .items [] := rfl
example : run .exists 30 ⟨p2, true, false⟩ (.arr [.null]) {} = .bool false := rfl
/-- … and a matching one: `{"a":[{"b":[{"x":{"y":{"c":[1,2]}}}]}]}` gives `2` -/
example : run .query 40 ⟨p2, true, false⟩
    (.obj [("a".toList, .arr [.obj [("b".toList, .arr [.obj [("x".toList,
      .obj [("y".toList, .obj [("c".toList, .arr [.int 1, .int 2])])])]])]])]) {} =
    .items [.int 2] := rfl
/-- strict, same path: the structural error; silent: nothing -/
example : run .query 30 ⟨p1, false, false⟩ (.int 1) {} = .error .verbose := rfl
example : run .query 30 ⟨p1, false, false⟩ (.int 1) { silent := true } = .items [] := rfl
/-- the hypotheses of `lax_accessors_total` are satisfiable -/
example : ∃ xs, queryWith 30 ⟨p2, true, false⟩ (.arr [.null, .bool true]) {} = .items xs := ⟨[], rfl⟩

/-! What is excluded from `Accessor` is excluded for a reason: each of these lax paths errs. -/

/-- `$[2147483648]`: a literal bound outside int32 (`Bound`) -/
example : run .query 30 ⟨.const .root (some (.arrayIndex [idx (.integer 2147483648 none) none] none)), true, false⟩
    (.arr []) {} = .error .verbose := rfl
/-- `$["x"]`: a bound that is not a number -/
example : run .query 30 ⟨.const .root (some (.arrayIndex [idx (.str "x".toList none) none] none)), true, false⟩
    (.arr []) {} = .error .verbose := rfl
/-- `last` outside a subscript (`accConst`) -/
example : run .query 30 ⟨.const .last none, true, false⟩ (.arr []) {} = .error (.hard .lastOutside) := rfl
/-- `$.keyvalue()` on a non-object, `$.a.double()` on an unconvertible string (`accMethod`) -/
example : run .query 30 ⟨.const .root (some (.method .keyvalue none)), true, false⟩ (.int 1) {} = .error .verbose := rfl
example : run .query 30 ⟨.const .root (some (k "a" (some (.method .double none)))), true, false⟩
    (.obj [("a".toList, .str "x".toList)]) {} = .error .verbose := rfl
/-- `$x` without a binding -/
example : run .query 30 ⟨.var "x".toList none, true, false⟩ (.int 1) {} = .error (.hard .noVar) := rfl
/-- `last` is read back through `getJSONInt32`: inside an array of more than 2^31 elements (`lenOK`)
    it is the "out of integer range" error, lax or not -/
example : (getArrayIndex (mkCtx ⟨p1, true, false⟩ .null {}) (xItem (mkCtx ⟨p1, true, false⟩ .null {}) 3)
    { initSt ⟨p1, true, false⟩ .null {} with innermost := 2147483649 } (.const .last none) .null).2 =
    .error .verbose := rfl
/-- known finding D6 (not an error): a subscript that selects JSON `null` drops it -/
example : run .query 30 ⟨.const .root (some (.arrayIndex [idx (.integer 0 none) none] none)), true, false⟩
    (.arr [.null, .int 1]) {} = .items [] := rfl

end Examples

end C07b
end Sqljson
