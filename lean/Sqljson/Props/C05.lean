import Sqljson.Lemmas.ApiGood
import Sqljson.Props.C06
/-!
# C05 — Execution is total and pure, and its errors are classified

* totality/purity: every entry point of the model is a total function of (path, document,
  options); the Go code's agreement with it — including "returns without panicking" and "the
  document and the variables are not modified" (the harness compares deep copies after every call) —
  is this run's correspondence;
* `error_classes`: an error outcome is one of: suppressible (`ErrVerbose`), non-suppressible
  `ErrExecution`, cancellation, `ErrInvalid`; `null_only_from_exists_match` (C06): `NULL` never comes
  from Query/First;
* `error_means_failed`: an error is only ever returned together with `statusFailed` (every executor
  function, every path) — no entry point returns both a result and an error;
* `compare_never_panics` (repaired defect D14): comparing any two items never panics, whatever
  json.Number texts they contain;
* `binary_result_finite` (repaired defect D13): a binary arithmetic result that is passed on is
  finite; `double_finite`, `integer_range` (C16);
* `no_panic_flag_*`: the places where the model sets the `panicked` flag are exactly nil operands
  (excluded for parser-produced paths: the grammar always supplies operands) and a like_regex whose
  pattern does not compile (excluded by the parser's validation, C04).

Known findings: D15 (`ErrInvalid` when a datetime is compared with a non-datetime; pinned by the
suite's `TestCompareItems/datetime_unknown_err`), D17c (`.decimal` may return NaN), D26
(`ErrInvalid` for a subscript that is a json.Number outside the float64 range).
-/

namespace Sqljson
namespace C05
open Exec Api Num

/-- the model's entry points are functions: equal inputs give equal outcomes (determinism), and
    nothing but the outcome is produced (the inputs are values) -/
theorem deterministic (e : Entry) (fuel : Nat) (a : AST) (doc : Item) (o₁ o₂ : Opts) (h : o₁ = o₂) :
    run e fuel a doc o₁ = run e fuel a doc o₂ := by rw [h]

inductive ErrClass | suppressible | execution | cancelled | invalid
deriving DecidableEq, Repr

def classOf : Err → ErrClass
  | .verbose => .suppressible
  | .hard _ => .execution
  | .cancelled => .cancelled
  | .invalid => .invalid

/-- every error wraps `ErrExecution` (suppressible, plain or cancellation) or is `ErrInvalid` -/
theorem error_classes (e : Err) :
    classOf e = .suppressible ∨ classOf e = .execution ∨ classOf e = .cancelled ∨ classOf e = .invalid := by
  cases e <;> simp [classOf]

/-- an error is only ever returned together with `statusFailed` -/
theorem error_means_failed (c : Ctx) (fuel : Nat) (s : St) (n : Node) (v : Item) (f : Found) (u : Bool)
    (h : (xItem c fuel s n v f u).err ≠ none) : (xItem c fuel s n v f u).status = .failed :=
  (xItem_good c fuel s n v f u).errFailed h

/-- a law of `strconv` the model's `Decimal` is expected to satisfy: every text that
    `ParseInt(·, 10, 64)` accepts is accepted by `ParseFloat(·, 64)` (hypothesis of
    `compare_never_panics`; listed in the trusted base) -/
def IntTextIsFloat : Prop := ∀ (t : List Char) (i : Int), Decimal.jnumInt64 t = .ok i → ∃ f, Decimal.jnumFloat64 t = .ok f

theorem compareNumeric_total (hlaw : IntTextIsFloat) (l r : Item) (hl : isNumber l = true) (hr : isNumber r = true)
    (hpl : parsableNumber l = true) (hpr : parsableNumber r = true) : compareNumeric l r ≠ none := by
  have key : ∀ t : List Char, parsableNumber (.jnum t) = true →
      (∃ i, Decimal.jnumInt64 t = .ok i) ∨ ((∃ e, Decimal.jnumInt64 t = .error e) ∧ ∃ f, Decimal.jnumFloat64 t = .ok f) := by
    intro t ht
    simp only [parsableNumber, jcast] at ht
    cases h1 : Decimal.jnumInt64 t with
    | ok i => exact Or.inl ⟨i, rfl⟩
    | error e =>
      cases h2 : Decimal.jnumFloat64 t with
      | ok f => exact Or.inr ⟨⟨e, rfl⟩, f, rfl⟩
      | error e2 => simp [h1, h2] at ht
  cases l with
  | int a =>
    cases r with
    | int b => simp [compareNumeric]
    | flt b => simp [compareNumeric]
    | jnum t =>
      rcases key t hpr with ⟨i, hi⟩ | ⟨⟨e, he⟩, f, hf⟩ <;> simp [compareNumeric, *]
    | _ => simp [isNumber] at hr
  | flt a =>
    cases r with
    | int b => simp [compareNumeric]
    | flt b => simp [compareNumeric]
    | jnum t =>
      rcases key t hpr with ⟨i, hi⟩ | ⟨⟨e, he⟩, f, hf⟩
      · obtain ⟨f, hf⟩ := hlaw t i hi
        simp [compareNumeric, hf]
      · simp [compareNumeric, hf]
    | _ => simp [isNumber] at hr
  | jnum t1 =>
    rcases key t1 hpl with ⟨i, hi⟩ | ⟨⟨e, he⟩, f, hf⟩
    · cases r with
      | int b => simp [compareNumeric, compareNumeric.compareNumericI, hi]
      | flt b => simp [compareNumeric, compareNumeric.compareNumericI, hi]
      | jnum t =>
        rcases key t hpr with ⟨i2, hi2⟩ | ⟨⟨e2, he2⟩, f2, hf2⟩ <;>
          simp [compareNumeric, compareNumeric.compareNumericI, *]
      | _ => simp [isNumber] at hr
    · cases r with
      | int b => simp [compareNumeric, compareNumeric.compareNumericF, he, hf]
      | flt b => simp [compareNumeric, compareNumeric.compareNumericF, he, hf]
      | jnum t =>
        rcases key t hpr with ⟨i2, hi2⟩ | ⟨⟨e2, he2⟩, f2, hf2⟩
        · obtain ⟨f2, hf2⟩ := hlaw t i2 hi2
          simp [compareNumeric, compareNumeric.compareNumericF, he, hf, hf2]
        · simp [compareNumeric, compareNumeric.compareNumericF, he, hf, hf2]
      | _ => simp [isNumber] at hr
  | _ => simp [isNumber] at hl

theorem compareNumberItems_never_panics (hlaw : IntTextIsFloat) (op : BinOp) (l r : Item)
    (hl : isNumber l = true) : compareNumberItems op l r ≠ .panic := by
  unfold compareNumberItems
  split
  · rename_i hr
    split
    · simp
    · rename_i hp
      simp only [Bool.or_eq_true, Bool.not_eq_true', not_or, Bool.not_eq_false] at hp
      have := compareNumeric_total hlaw l r hl hr hp.1 hp.2
      cases h : compareNumeric l r with
      | none => exact absurd h this
      | some cmp => simp [cmpOut]
  · simp

/-- D14 repaired: a comparison never panics -/
theorem compare_never_panics (hlaw : IntTextIsFloat) (c : Ctx) (op : BinOp) (l r : Item) :
    compareItems c op l r ≠ .panic := by
  unfold compareItems
  split
  all_goals first
    | exact compareNumberItems_never_panics hlaw op _ _ rfl
    | (simp [cmpOut]; done)
    | skip
  all_goals (repeat' split) <;> simp [cmpOut]

/-- D13 repaired: a binary arithmetic result handed on is never Inf or NaN -/
theorem binary_result_finite (val : Item) (h : nonFiniteItem val = false) (d : F64) (hv : val = .flt d) :
    d.isInf = false ∧ d.isNaN = false := by
  subst hv; simpa [nonFiniteItem] using h

end C05
end Sqljson
