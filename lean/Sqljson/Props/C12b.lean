import Sqljson.Props.C12
/-!
# C12b — the order on doubles and booleans is a total order; transitivity at the executor level

`C12.lean` has `trans_int`, `trans_str` and the mixed int/float counterexample (D16).  Here:

* the model's double comparison `F64.cmp` compares **exact values** (`toQ`: numerator and a
  power-of-two denominator, cross-multiplied), ±Inf below/above every finite value, `-0 == +0`, NaN
  unordered.  Hence everything below holds for every `fin neg m e`, canonical (`F64.WF`) or not — no
  well-formedness hypothesis is needed (`ofBits_WF` is proved for the record);
* `float_trichotomy` (non-NaN: exactly one of `<`, `==`, `>`), `float_lt_irrefl`, `float_lt_asymm`,
  `float_antisymm` (`a <= b`, `b <= a` ⇒ `a == b`), `float_lt_trans`, `float_le_trans`,
  `float_lt_le_trans`, `float_le_lt_trans`, `float_feq_trans`, `float_le_total`,
  `zero_eq_neg_zero`, `inf_bounds`;  `fle a b` is `F64.lt a b || F64.feq a b`;
* the executor's `cmpF` (Go `compareNumbers`) and the operators: `cmpF_lt`, `cmpF_gt` (all doubles),
  `cmpF_le`, `cmpF_ge`, `cmpF_eq` (non-NaN); `trans_float` (form of `C12.trans_int`),
  `trans_float_op` (`<`, `<=`, `>`, `>=`, `==`; only the *middle* operand must be non-NaN;
  `trans_float_nan_counterexample` shows that hypothesis is needed: the code treats NaN as equal to
  everything);
* `trans_int_op`, `trans_bool` (all five operators);
* at `compareItems`: `trans_float_items`, `trans_int_items`, `trans_bool_items`, `trans_same_repr`
  (three number items all `int64` or all `float64`; mixed is D16), `float_items_exactly_one`,
  `float_items_duality`.
-/
namespace Sqljson
namespace C12b
open Num Exec C12

namespace Aux

/-! ### fractions with positive denominators, compared by cross-multiplication -/

theorem frac_lt_trans (a b c da db dc : Int) (hda : 0 < da) (hdb : 0 < db) (hdc : 0 < dc)
    (h1 : a * db < b * da) (h2 : b * dc < c * db) : a * dc < c * da := by
  have h1' := Int.mul_lt_mul_of_pos_right h1 hdc
  have h2' := Int.mul_lt_mul_of_pos_right h2 hda
  have e : b * da * dc = b * dc * da := Int.mul_right_comm ..
  have h3 : a * dc * db < c * da * db := by
    rw [Int.mul_right_comm a dc db, Int.mul_right_comm c da db]; omega
  exact Int.lt_of_mul_lt_mul_right h3 (by omega)

theorem frac_le_trans (a b c da db dc : Int) (hda : 0 < da) (hdb : 0 < db) (hdc : 0 < dc)
    (h1 : a * db ≤ b * da) (h2 : b * dc ≤ c * db) : a * dc ≤ c * da := by
  have h1' := Int.mul_le_mul_of_nonneg_right h1 (Int.le_of_lt hdc)
  have h2' := Int.mul_le_mul_of_nonneg_right h2 (Int.le_of_lt hda)
  have e : b * da * dc = b * dc * da := Int.mul_right_comm ..
  have h3 : a * dc * db ≤ c * da * db := by
    rw [Int.mul_right_comm a dc db, Int.mul_right_comm c da db]; omega
  exact Int.le_of_mul_le_mul_right h3 hdb

theorem frac_lt_le_trans (a b c da db dc : Int) (hda : 0 < da) (hdb : 0 < db) (hdc : 0 < dc)
    (h1 : a * db < b * da) (h2 : b * dc ≤ c * db) : a * dc < c * da := by
  have h1' := Int.mul_lt_mul_of_pos_right h1 hdc
  have h2' := Int.mul_le_mul_of_nonneg_right h2 (Int.le_of_lt hda)
  have e : b * da * dc = b * dc * da := Int.mul_right_comm ..
  have h3 : a * dc * db < c * da * db := by
    rw [Int.mul_right_comm a dc db, Int.mul_right_comm c da db]; omega
  exact Int.lt_of_mul_lt_mul_right h3 (by omega)

theorem frac_le_lt_trans (a b c da db dc : Int) (hda : 0 < da) (hdb : 0 < db) (hdc : 0 < dc)
    (h1 : a * db ≤ b * da) (h2 : b * dc < c * db) : a * dc < c * da := by
  have h1' := Int.mul_le_mul_of_nonneg_right h1 (Int.le_of_lt hdc)
  have h2' := Int.mul_lt_mul_of_pos_right h2 hda
  have e : b * da * dc = b * dc * da := Int.mul_right_comm ..
  have h3 : a * dc * db < c * da * db := by
    rw [Int.mul_right_comm a dc db, Int.mul_right_comm c da db]; omega
  exact Int.lt_of_mul_lt_mul_right h3 (by omega)

/-- the denominator of the exact value is positive -/
theorem toQ_den_pos (x : F64) : (0 : Int) < ((F64.toQ x).2 : Nat) := by
  cases x with
  | nan => simp [F64.toQ]
  | inf n => simp [F64.toQ]
  | fin n m e =>
    simp only [F64.toQ]
    split
    · simp
    · exact Int.natCast_pos.2 (Nat.two_pow_pos _)


/-- `num(a) * den(b)`: the two sides of the cross-multiplied comparison of finite values -/
def cross (a b : F64) : Int := (F64.toQ a).1 * ((F64.toQ b).2 : Nat)

/-- `a <= b` on doubles: `a < b || a == b` (false when either is NaN) -/
def fle (a b : F64) : Bool := F64.lt a b || F64.feq a b

theorem cmp_fin_fin (n : Bool) (m : Nat) (e : Int) (n' : Bool) (m' : Nat) (e' : Int) :
    F64.cmp (.fin n m e) (.fin n' m' e') =
      some (if cross (.fin n m e) (.fin n' m' e') < cross (.fin n' m' e') (.fin n m e) then .lt
            else if cross (.fin n m e) (.fin n' m' e') > cross (.fin n' m' e') (.fin n m e) then .gt else .eq) := rfl

theorem lt_fin_fin (n : Bool) (m : Nat) (e : Int) (n' : Bool) (m' : Nat) (e' : Int) :
    F64.lt (.fin n m e) (.fin n' m' e') =
      decide (cross (.fin n m e) (.fin n' m' e') < cross (.fin n' m' e') (.fin n m e)) := by
  unfold F64.lt; rw [cmp_fin_fin]
  split
  · simp [*]
  · split <;> simp [*]

theorem feq_fin_fin (n : Bool) (m : Nat) (e : Int) (n' : Bool) (m' : Nat) (e' : Int) :
    F64.feq (.fin n m e) (.fin n' m' e') =
      decide (cross (.fin n m e) (.fin n' m' e') = cross (.fin n' m' e') (.fin n m e)) := by
  unfold F64.feq; rw [cmp_fin_fin]
  split
  · have : ¬ cross (.fin n m e) (.fin n' m' e') = cross (.fin n' m' e') (.fin n m e) := by omega
    simp [this]
  · split
    · have : ¬ cross (.fin n m e) (.fin n' m' e') = cross (.fin n' m' e') (.fin n m e) := by omega
      simp [this]
    · have : cross (.fin n m e) (.fin n' m' e') = cross (.fin n' m' e') (.fin n m e) := by omega
      simp [this]

theorem fle_fin_fin (n : Bool) (m : Nat) (e : Int) (n' : Bool) (m' : Nat) (e' : Int) :
    fle (.fin n m e) (.fin n' m' e') =
      decide (cross (.fin n m e) (.fin n' m' e') ≤ cross (.fin n' m' e') (.fin n m e)) := by
  unfold fle; rw [lt_fin_fin, feq_fin_fin]
  by_cases h1 : cross (.fin n m e) (.fin n' m' e') < cross (.fin n' m' e') (.fin n m e)
  · have : cross (.fin n m e) (.fin n' m' e') ≤ cross (.fin n' m' e') (.fin n m e) := by omega
    simp [h1, this]
  · by_cases h2 : cross (.fin n m e) (.fin n' m' e') = cross (.fin n' m' e') (.fin n m e)
    · simp [h2]
    · have : ¬ cross (.fin n m e) (.fin n' m' e') ≤ cross (.fin n' m' e') (.fin n m e) := by omega
      simp [h1, h2, this]

theorem lt_inf_inf (x y : Bool) : F64.lt (.inf x) (.inf y) = (x && !y) := by cases x <;> cases y <;> rfl
theorem lt_inf_fin (x : Bool) (n : Bool) (m : Nat) (e : Int) : F64.lt (.inf x) (.fin n m e) = x := by cases x <;> rfl
theorem lt_fin_inf (n : Bool) (m : Nat) (e : Int) (y : Bool) : F64.lt (.fin n m e) (.inf y) = !y := by cases y <;> rfl
theorem lt_nan_left (b : F64) : F64.lt .nan b = false := by cases b <;> rfl
theorem lt_nan_right (a : F64) : F64.lt a .nan = false := by cases a <;> rfl

theorem feq_inf_inf (x y : Bool) : F64.feq (.inf x) (.inf y) = (x == y) := by cases x <;> cases y <;> rfl
theorem feq_inf_fin (x : Bool) (n : Bool) (m : Nat) (e : Int) : F64.feq (.inf x) (.fin n m e) = false := by cases x <;> rfl
theorem feq_fin_inf (n : Bool) (m : Nat) (e : Int) (y : Bool) : F64.feq (.fin n m e) (.inf y) = false := by cases y <;> rfl
theorem feq_nan_left (b : F64) : F64.feq .nan b = false := by cases b <;> rfl
theorem feq_nan_right (a : F64) : F64.feq a .nan = false := by cases a <;> rfl

theorem fle_inf_inf (x y : Bool) : fle (.inf x) (.inf y) = (x || !y) := by cases x <;> cases y <;> rfl
theorem fle_inf_fin (x : Bool) (n : Bool) (m : Nat) (e : Int) : fle (.inf x) (.fin n m e) = x := by cases x <;> rfl
theorem fle_fin_inf (n : Bool) (m : Nat) (e : Int) (y : Bool) : fle (.fin n m e) (.inf y) = !y := by cases y <;> rfl
theorem fle_nan_left (b : F64) : fle .nan b = false := by cases b <;> rfl
theorem fle_nan_right (a : F64) : fle a .nan = false := by cases a <;> rfl

end Aux
open Aux

/-! ### the order on doubles (`F64.lt`, `F64.feq`, `F64.gt`; `fle` = `<` or `==`) -/

/-- transitivity of `<`, all doubles (a NaN operand makes a hypothesis false); includes ±Inf and ±0 -/
theorem float_lt_trans (a b c : F64) (h1 : F64.lt a b = true) (h2 : F64.lt b c = true) : F64.lt a c = true := by
  cases a <;> cases b <;> cases c <;>
    simp only [lt_inf_inf, lt_inf_fin, lt_fin_inf, lt_nan_left, lt_nan_right, lt_fin_fin, decide_eq_true_eq,
      Bool.false_eq_true] at h1 h2 ⊢ <;>
    try (first | done | (simp_all; done) | (rename_i x y z; revert h1 h2; cases x <;> cases y <;> cases z <;> decide))
  rename_i na ma ea nb mb eb nc mc ec
  exact frac_lt_trans _ _ _ _ _ _ (toQ_den_pos (.fin na ma ea)) (toQ_den_pos (.fin nb mb eb))
    (toQ_den_pos (.fin nc mc ec)) h1 h2


/-- transitivity of `<=` on doubles (`fle` is false on NaN, so no NaN hypothesis is needed) -/
theorem float_le_trans (a b c : F64) (h1 : fle a b = true) (h2 : fle b c = true) : fle a c = true := by
  cases a <;> cases b <;> cases c <;>
    simp only [fle_inf_inf, fle_inf_fin, fle_fin_inf, fle_nan_left, fle_nan_right, fle_fin_fin, decide_eq_true_eq,
      Bool.false_eq_true] at h1 h2 ⊢ <;>
    try (first | done | (simp_all; done) | (rename_i x y z; revert h1 h2; cases x <;> cases y <;> cases z <;> decide))
  rename_i na ma ea nb mb eb nc mc ec
  exact frac_le_trans _ _ _ _ _ _ (toQ_den_pos (.fin na ma ea)) (toQ_den_pos (.fin nb mb eb))
    (toQ_den_pos (.fin nc mc ec)) h1 h2

theorem float_lt_le_trans (a b c : F64) (h1 : F64.lt a b = true) (h2 : fle b c = true) : F64.lt a c = true := by
  cases a <;> cases b <;> cases c <;>
    simp only [fle_inf_inf, fle_inf_fin, fle_fin_inf, fle_nan_right, fle_fin_fin,
      lt_inf_inf, lt_inf_fin, lt_fin_inf, lt_nan_left, lt_nan_right, lt_fin_fin, decide_eq_true_eq,
      Bool.false_eq_true] at h1 h2 ⊢ <;>
    try (first | done | (simp_all; done) | (rename_i x y z; revert h1 h2; cases x <;> cases y <;> cases z <;> decide))
  rename_i na ma ea nb mb eb nc mc ec
  exact frac_lt_le_trans _ _ _ _ _ _ (toQ_den_pos (.fin na ma ea)) (toQ_den_pos (.fin nb mb eb))
    (toQ_den_pos (.fin nc mc ec)) h1 h2

theorem float_le_lt_trans (a b c : F64) (h1 : fle a b = true) (h2 : F64.lt b c = true) : F64.lt a c = true := by
  cases a <;> cases b <;> cases c <;>
    simp only [fle_inf_inf, fle_inf_fin, fle_fin_inf, fle_nan_left, fle_nan_right, fle_fin_fin,
      lt_inf_inf, lt_inf_fin, lt_fin_inf, lt_nan_right, lt_fin_fin, decide_eq_true_eq,
      Bool.false_eq_true] at h1 h2 ⊢ <;>
    try (first | done | (simp_all; done) | (rename_i x y z; revert h1 h2; cases x <;> cases y <;> cases z <;> decide))
  rename_i na ma ea nb mb eb nc mc ec
  exact frac_le_lt_trans _ _ _ _ _ _ (toQ_den_pos (.fin na ma ea)) (toQ_den_pos (.fin nb mb eb))
    (toQ_den_pos (.fin nc mc ec)) h1 h2

/-- `<` is irreflexive (NaN included) -/
theorem float_lt_irrefl (a : F64) : F64.lt a a = false := by
  cases a with
  | nan => rfl
  | inf x => cases x <;> rfl
  | fin n m e => rw [lt_fin_fin]; simp

/-- `==` is reflexive on non-NaN doubles -/
theorem float_feq_refl (a : F64) (ha : a.isNaN = false) : F64.feq a a = true := by
  cases a with
  | nan => simp [F64.isNaN] at ha
  | inf x => cases x <;> rfl
  | fin n m e => rw [feq_fin_fin]; simp

/-- **trichotomy**: for non-NaN doubles exactly one of `a < b`, `a == b`, `a > b` holds -/
theorem float_trichotomy (a b : F64) (ha : a.isNaN = false) (hb : b.isNaN = false) :
    ((F64.lt a b && !F64.feq a b && !F64.gt a b) ||
     (!F64.lt a b && F64.feq a b && !F64.gt a b) ||
     (!F64.lt a b && !F64.feq a b && F64.gt a b)) = true := by
  unfold F64.lt F64.feq F64.gt
  cases h : F64.cmp a b with
  | none =>
    cases a <;> cases b <;> simp_all [F64.cmp, F64.isNaN]
  | some o => cases o <;> simp

/-- a comparison of non-NaN doubles always has an outcome -/
theorem cmp_isSome (a b : F64) (ha : a.isNaN = false) (hb : b.isNaN = false) : (F64.cmp a b).isSome = true := by
  cases a <;> cases b <;> simp_all [F64.cmp, F64.isNaN]

/-- `<` is asymmetric -/
theorem float_lt_asymm (a b : F64) (h : F64.lt a b = true) : F64.lt b a = false := by
  cases hba : F64.lt b a
  · rfl
  · have := float_lt_trans a b a h hba
    rw [float_lt_irrefl] at this; cases this

/-- `a == b` is symmetric -/
theorem float_feq_symm (a b : F64) : F64.feq a b = F64.feq b a := by
  cases a <;> cases b <;>
    simp only [feq_inf_inf, feq_inf_fin, feq_fin_inf, feq_nan_left, feq_nan_right, feq_fin_fin]
  · rename_i x y; cases x <;> cases y <;> rfl
  · exact decide_eq_decide.2 ⟨fun h => h.symm, fun h => h.symm⟩

/-- **antisymmetry**: `a <= b` and `b <= a` give `a == b` (e.g. `-0` and `+0`) -/
theorem float_antisymm (a b : F64) (h1 : fle a b = true) (h2 : fle b a = true) : F64.feq a b = true := by
  unfold fle at h1 h2
  cases hab : F64.lt a b
  · simpa [hab] using h1
  · have := float_lt_asymm a b hab
    rw [this, float_feq_symm] at h2; simpa using h2

/-- `a == b` iff `a <= b` and `b <= a` -/
theorem float_feq_iff_le_le (a b : F64) : F64.feq a b = true ↔ fle a b = true ∧ fle b a = true := by
  constructor
  · intro h
    have h' : F64.feq b a = true := by rw [float_feq_symm]; exact h
    simp [fle, h, h']
  · rintro ⟨h1, h2⟩; exact float_antisymm a b h1 h2

/-- transitivity of `==` -/
theorem float_feq_trans (a b c : F64) (h1 : F64.feq a b = true) (h2 : F64.feq b c = true) : F64.feq a c = true := by
  rw [float_feq_iff_le_le] at *
  exact ⟨float_le_trans a b c h1.1 h2.1, float_le_trans c b a h2.2 h1.2⟩

/-- total: non-NaN doubles are comparable -/
theorem float_le_total (a b : F64) (ha : a.isNaN = false) (hb : b.isNaN = false) :
    fle a b = true ∨ fle b a = true := by
  have := float_trichotomy a b ha hb
  rw [← C12.F64_lt_gt b a] at this
  unfold fle
  cases h1 : F64.lt a b <;> cases h2 : F64.feq a b <;> cases h3 : F64.lt b a <;> simp_all

/-- signed zeros are equal, and neither is below the other -/
theorem zero_eq_neg_zero : F64.feq (F64.zero true) (F64.zero false) = true ∧
    F64.lt (F64.zero true) (F64.zero false) = false ∧ F64.lt (F64.zero false) (F64.zero true) = false := by
  simp [F64.zero, feq_fin_fin, lt_fin_fin, cross, F64.toQ]

/-- every finite value is strictly between the infinities -/
theorem inf_bounds (n : Bool) (m : Nat) (e : Int) :
    F64.lt (.inf true) (.fin n m e) = true ∧ F64.lt (.fin n m e) (.inf false) = true ∧
    F64.lt (.inf true) (.inf false) = true := ⟨rfl, rfl, rfl⟩


/-! ### the executor's three-way comparison `cmpF` and the six operators -/

namespace Aux

theorem holds_lt (cmp : Int) : holds .lt cmp = true ↔ cmp < 0 := by
  by_cases h : cmp < 0 <;> simp [holds, applyCompare, predFrom, h]
theorem holds_le (cmp : Int) : holds .le cmp = true ↔ cmp ≤ 0 := by
  by_cases h : cmp ≤ 0 <;> simp [holds, applyCompare, predFrom, h]
theorem holds_gt (cmp : Int) : holds .gt cmp = true ↔ cmp > 0 := by
  by_cases h : cmp > 0 <;> simp [holds, applyCompare, predFrom, h]
theorem holds_ge (cmp : Int) : holds .ge cmp = true ↔ cmp ≥ 0 := by
  by_cases h : cmp ≥ 0 <;> simp [holds, applyCompare, predFrom, h]
theorem holds_eq (cmp : Int) : holds .eq cmp = true ↔ cmp = 0 := by
  by_cases h : cmp = 0 <;> simp [holds, applyCompare, predFrom, h]

theorem cmpI_sign (a b : Int) : (cmpI a b < 0 ↔ a < b) ∧ (cmpI a b = 0 ↔ a = b) ∧ (cmpI a b > 0 ↔ a > b) := by
  unfold cmpI
  split
  · refine ⟨⟨fun _ => ?_, fun _ => ?_⟩, ⟨fun _ => ?_, fun _ => ?_⟩, ⟨fun _ => ?_, fun _ => ?_⟩⟩ <;> omega
  · split <;>
      refine ⟨⟨fun _ => ?_, fun _ => ?_⟩, ⟨fun _ => ?_, fun _ => ?_⟩, ⟨fun _ => ?_, fun _ => ?_⟩⟩ <;> omega

theorem cmpF_sign (a b : F64) :
    (cmpF a b < 0 ↔ F64.lt a b = true) ∧ (cmpF a b > 0 ↔ F64.lt b a = true) ∧
    (cmpF a b = 0 ↔ F64.lt a b = false ∧ F64.lt b a = false) := by
  unfold cmpF
  rw [← C12.F64_lt_gt b a]
  cases h1 : F64.lt a b
  · cases h2 : F64.lt b a <;> simp
  · have := float_lt_asymm a b h1
    simp [this]

/-- on non-NaN doubles `not (b < a)` is `a <= b` -/
theorem not_lt_iff_fle (a b : F64) (ha : a.isNaN = false) (hb : b.isNaN = false) :
    F64.lt b a = false ↔ fle a b = true := by
  constructor
  · intro h
    rcases float_le_total a b ha hb with h' | h'
    · exact h'
    · unfold fle at h' ⊢
      rw [h] at h'
      have : F64.feq a b = true := by rw [float_feq_symm]; simpa using h'
      simp [this]
  · intro h
    cases hba : F64.lt b a
    · rfl
    · have := float_le_lt_trans a b a h hba
      rw [float_lt_irrefl] at this; cases this

theorem cmpF_nan_left (b : F64) : cmpF .nan b = 0 := by
  simp [cmpF, lt_nan_left, F64.gt, F64.cmp]
theorem cmpF_nan_right (a : F64) : cmpF a .nan = 0 := by
  have : F64.gt a .nan = false := by rw [← C12.F64_lt_gt]; exact lt_nan_left a
  simp [cmpF, lt_nan_right, this]

theorem eq_nan_of_isNaN (a : F64) (h : a.isNaN = true) : a = .nan := by
  cases a <;> simp_all [F64.isNaN]

end Aux

/-- `<` computed by the executor on doubles is `F64.lt` -/
theorem cmpF_lt (a b : F64) : holds .lt (cmpF a b) = true ↔ F64.lt a b = true := by
  rw [holds_lt]; exact (cmpF_sign a b).1

theorem cmpF_gt (a b : F64) : holds .gt (cmpF a b) = true ↔ F64.lt b a = true := by
  rw [holds_gt]; exact (cmpF_sign a b).2.1

/-- `<=` computed by the executor on non-NaN doubles is `<` or `==` -/
theorem cmpF_le (a b : F64) (ha : a.isNaN = false) (hb : b.isNaN = false) :
    holds .le (cmpF a b) = true ↔ fle a b = true := by
  rw [holds_le, ← not_lt_iff_fle a b ha hb]
  have := cmpF_sign a b
  cases h : F64.lt b a
  · simp only [iff_true]
    have : ¬ cmpF a b > 0 := by rw [this.2.1, h]; simp
    omega
  · have : cmpF a b > 0 := this.2.1.2 h
    simp only [Bool.true_eq_false, iff_false]; omega

theorem cmpF_ge (a b : F64) (ha : a.isNaN = false) (hb : b.isNaN = false) :
    holds .ge (cmpF a b) = true ↔ fle b a = true := by
  rw [holds_ge, ← not_lt_iff_fle b a hb ha]
  have := cmpF_sign a b
  cases h : F64.lt a b
  · simp only [iff_true]
    have : ¬ cmpF a b < 0 := by rw [this.1, h]; simp
    omega
  · have : cmpF a b < 0 := this.1.2 h
    simp only [Bool.true_eq_false, iff_false]; omega

theorem cmpF_eq (a b : F64) (ha : a.isNaN = false) (hb : b.isNaN = false) :
    holds .eq (cmpF a b) = true ↔ F64.feq a b = true := by
  rw [holds_eq, (cmpF_sign a b).2.2, not_lt_iff_fle a b ha hb, not_lt_iff_fle b a hb ha, float_feq_iff_le_le]
  exact ⟨fun h => ⟨h.2, h.1⟩, fun h => ⟨h.2, h.1⟩⟩

/-- the operators for which transitivity is claimed -/
def orderOp : BinOp → Bool
  | .lt | .le | .gt | .ge | .eq => true
  | _ => false

/-- **transitivity of `<` on doubles**, in the form of `C12.trans_int` (no NaN hypothesis needed) -/
theorem trans_float (a b c : F64) (h1 : holds .lt (cmpF a b) = true) (h2 : holds .lt (cmpF b c) = true) :
    holds .lt (cmpF a c) = true := by
  rw [cmpF_lt] at *; exact float_lt_trans a b c h1 h2

/-- **transitivity of `<`, `<=`, `>`, `>=`, `==` as the executor computes them on doubles**; only the
    middle operand has to be non-NaN (`2 <= NaN <= 1` holds in the code: NaN compares as equal) -/
theorem trans_float_op (op : BinOp) (hop : orderOp op = true) (a b c : F64) (hb : b.isNaN = false)
    (h1 : holds op (cmpF a b) = true) (h2 : holds op (cmpF b c) = true) : holds op (cmpF a c) = true := by
  cases ha : a.isNaN
  case true =>
    have := eq_nan_of_isNaN a ha; subst this
    rw [cmpF_nan_left] at h1 ⊢
    cases op <;> simp [orderOp] at hop <;> first | exact h1 | rfl
  case false =>
  cases hc : c.isNaN
  case true =>
    have := eq_nan_of_isNaN c hc; subst this
    rw [cmpF_nan_right] at h2 ⊢
    cases op <;> simp [orderOp] at hop <;> first | exact h2 | rfl
  case false =>
  cases op <;> simp [orderOp] at hop
  · rw [cmpF_eq _ _ ha hc]; rw [cmpF_eq _ _ ha hb] at h1; rw [cmpF_eq _ _ hb hc] at h2
    exact float_feq_trans a b c h1 h2
  · exact trans_float a b c h1 h2
  · rw [cmpF_gt] at *; exact float_lt_trans c b a h2 h1
  · rw [cmpF_le _ _ ha hc]; rw [cmpF_le _ _ ha hb] at h1; rw [cmpF_le _ _ hb hc] at h2
    exact float_le_trans a b c h1 h2
  · rw [cmpF_ge _ _ ha hc]; rw [cmpF_ge _ _ ha hb] at h1; rw [cmpF_ge _ _ hb hc] at h2
    exact float_le_trans c b a h2 h1

/-- the NaN hypothesis of `trans_float_op` cannot be dropped: `2 <= NaN`, `NaN <= 1`, not `2 <= 1` -/
theorem trans_float_nan_counterexample :
    holds .le (cmpF (F64.ofInt 2) .nan) = true ∧ holds .le (cmpF .nan (F64.ofInt 1)) = true ∧
    holds .le (cmpF (F64.ofInt 2) (F64.ofInt 1)) = false := ⟨rfl, rfl, rfl⟩


/-! ### integers and booleans, all five operators -/

theorem trans_int_op (op : BinOp) (hop : orderOp op = true) (a b c : Int)
    (h1 : holds op (cmpI a b) = true) (h2 : holds op (cmpI b c) = true) : holds op (cmpI a c) = true := by
  have sab := cmpI_sign a b
  have sbc := cmpI_sign b c
  have sac := cmpI_sign a c
  cases op <;> simp [orderOp] at hop
  · rw [holds_eq] at *; omega
  · rw [holds_lt] at *; omega
  · rw [holds_gt] at *; omega
  · rw [holds_le] at *; omega
  · rw [holds_ge] at *; omega

/-- the three-way comparison of `compareBool`: `false < true` -/
def cmpB (a b : Bool) : Int := if a = b then 0 else if a then 1 else -1

theorem compareBool_eq (a b : Bool) : compareBool a (.bool b) = some (cmpB a b) := rfl

/-- **transitivity on booleans** (`false < true`), all five operators -/
theorem trans_bool (op : BinOp) (hop : orderOp op = true) (a b c : Bool)
    (h1 : holds op (cmpB a b) = true) (h2 : holds op (cmpB b c) = true) : holds op (cmpB a c) = true := by
  cases op <;> simp [orderOp] at hop <;> cases a <;> cases b <;> cases c <;>
    simp_all [holds, applyCompare, predFrom, cmpB]

/-- booleans: exactly one of `<`, `==`, `>`; `a < b` iff `b > a` -/
theorem bool_antisymm (a b : Bool) : cmpB a b = -cmpB b a := by
  cases a <;> cases b <;> rfl

/-! ### lifted to `compareItems` -/

/-- `a op b` is true (no error) for the executor -/
def itemHolds (c : Ctx) (op : BinOp) (x y : Item) : Prop := compareItems c op x y = .val .t none

namespace Aux

theorem cmpOut_t_iff (op : BinOp) (hop : orderOp op = true) (cmp : Int) :
    cmpOut op cmp = .val .t none ↔ holds op cmp = true := by
  cases op <;> simp [orderOp] at hop <;> simp only [cmpOut, holds, applyCompare, predFrom] <;>
    split <;> simp

theorem compareItems_flt (c : Ctx) (op : BinOp) (a b : F64) :
    compareItems c op (.flt a) (.flt b) = cmpOut op (cmpF a b) := by
  simp [compareItems, compareNumberItems, isNumber, parsableNumber, compareNumeric]

theorem compareItems_int (c : Ctx) (op : BinOp) (a b : Int) :
    compareItems c op (.int a) (.int b) = cmpOut op (cmpI a b) := by
  simp [compareItems, compareNumberItems, isNumber, parsableNumber, compareNumeric]

theorem compareItems_bool (c : Ctx) (op : BinOp) (a b : Bool) :
    compareItems c op (.bool a) (.bool b) = cmpOut op (cmpB a b) := by
  simp [compareItems, compareBool_eq]

end Aux

theorem itemHolds_flt (c : Ctx) (op : BinOp) (hop : orderOp op = true) (a b : F64) :
    itemHolds c op (.flt a) (.flt b) ↔ holds op (cmpF a b) = true := by
  unfold itemHolds; rw [compareItems_flt, cmpOut_t_iff op hop]

theorem itemHolds_int (c : Ctx) (op : BinOp) (hop : orderOp op = true) (a b : Int) :
    itemHolds c op (.int a) (.int b) ↔ holds op (cmpI a b) = true := by
  unfold itemHolds; rw [compareItems_int, cmpOut_t_iff op hop]

theorem itemHolds_bool (c : Ctx) (op : BinOp) (hop : orderOp op = true) (a b : Bool) :
    itemHolds c op (.bool a) (.bool b) ↔ holds op (cmpB a b) = true := by
  unfold itemHolds; rw [compareItems_bool, cmpOut_t_iff op hop]

/-- transitivity of the executor's comparison on double items (middle operand not NaN) -/
theorem trans_float_items (c : Ctx) (op : BinOp) (hop : orderOp op = true) (x y z : F64) (hy : y.isNaN = false)
    (h1 : itemHolds c op (.flt x) (.flt y)) (h2 : itemHolds c op (.flt y) (.flt z)) :
    itemHolds c op (.flt x) (.flt z) := by
  rw [itemHolds_flt c op hop] at *; exact trans_float_op op hop x y z hy h1 h2

theorem trans_int_items (c : Ctx) (op : BinOp) (hop : orderOp op = true) (x y z : Int)
    (h1 : itemHolds c op (.int x) (.int y)) (h2 : itemHolds c op (.int y) (.int z)) :
    itemHolds c op (.int x) (.int z) := by
  rw [itemHolds_int c op hop] at *; exact trans_int_op op hop x y z h1 h2

theorem trans_bool_items (c : Ctx) (op : BinOp) (hop : orderOp op = true) (x y z : Bool)
    (h1 : itemHolds c op (.bool x) (.bool y)) (h2 : itemHolds c op (.bool y) (.bool z)) :
    itemHolds c op (.bool x) (.bool z) := by
  rw [itemHolds_bool c op hop] at *; exact trans_bool op hop x y z h1 h2

/-- three number items with the same Go representation: all `int64`, or all `float64` with the
    middle one not NaN (mixed representations are the known finding D16,
    `C12.trans_mixed_counterexample`) -/
def SameRepr (x y z : Item) : Prop :=
  (∃ a b c : Int, x = .int a ∧ y = .int b ∧ z = .int c) ∨
  (∃ a b c : F64, x = .flt a ∧ y = .flt b ∧ z = .flt c ∧ b.isNaN = false)

/-- **the order is transitive over number items of one representation**, for `<`, `<=`, `>`, `>=`, `==` -/
theorem trans_same_repr (c : Ctx) (op : BinOp) (hop : orderOp op = true) (x y z : Item) (h : SameRepr x y z)
    (h1 : itemHolds c op x y) (h2 : itemHolds c op y z) : itemHolds c op x z := by
  rcases h with ⟨a, b, c', rfl, rfl, rfl⟩ | ⟨a, b, c', rfl, rfl, rfl, hb⟩
  · exact trans_int_items c op hop a b c' h1 h2
  · exact trans_float_items c op hop a b c' hb h1 h2

/-- the special case asked for: `<=` -/
theorem trans_same_repr_le (c : Ctx) (x y z : Item) (h : SameRepr x y z)
    (h1 : itemHolds c .le x y) (h2 : itemHolds c .le y z) : itemHolds c .le x z :=
  trans_same_repr c .le rfl x y z h h1 h2


/-- on double items exactly one of `<`, `==`, `>` is true (a NaN operand compares as `==`, as in Go's
    `compareNumbers`) -/
theorem float_items_exactly_one (c : Ctx) (a b : F64) :
    (itemHolds c .lt (.flt a) (.flt b) ∧ ¬ itemHolds c .eq (.flt a) (.flt b) ∧ ¬ itemHolds c .gt (.flt a) (.flt b)) ∨
    (¬ itemHolds c .lt (.flt a) (.flt b) ∧ itemHolds c .eq (.flt a) (.flt b) ∧ ¬ itemHolds c .gt (.flt a) (.flt b)) ∨
    (¬ itemHolds c .lt (.flt a) (.flt b) ∧ ¬ itemHolds c .eq (.flt a) (.flt b) ∧ itemHolds c .gt (.flt a) (.flt b)) := by
  have := C12.exactly_one (cmpF a b)
  rw [itemHolds_flt c .lt rfl, itemHolds_flt c .eq rfl, itemHolds_flt c .gt rfl]
  cases h1 : holds .lt (cmpF a b) <;> cases h2 : holds .eq (cmpF a b) <;> cases h3 : holds .gt (cmpF a b) <;>
    simp_all

/-- `a < b` iff `b > a`, and `<=`, `>=` are the unions with `==`, on double items -/
theorem float_items_duality (c : Ctx) (a b : F64) :
    (itemHolds c .lt (.flt a) (.flt b) ↔ itemHolds c .gt (.flt b) (.flt a)) ∧
    (itemHolds c .le (.flt a) (.flt b) ↔ itemHolds c .lt (.flt a) (.flt b) ∨ itemHolds c .eq (.flt a) (.flt b)) ∧
    (itemHolds c .ge (.flt a) (.flt b) ↔ itemHolds c .gt (.flt a) (.flt b) ∨ itemHolds c .eq (.flt a) (.flt b)) := by
  refine ⟨?_, ?_, ?_⟩
  · rw [itemHolds_flt c .lt rfl, itemHolds_flt c .gt rfl, C12.duality_float]
  · rw [itemHolds_flt c .lt rfl, itemHolds_flt c .eq rfl, itemHolds_flt c .le rfl, C12.le_union]; simp
  · rw [itemHolds_flt c .gt rfl, itemHolds_flt c .eq rfl, itemHolds_flt c .ge rfl, C12.ge_union]; simp

/-! ### representation -/

/-- every bit pattern decodes to a canonical value (`F64.WF`); the order theorems above do not need
    it: `F64.cmp` compares exact values, so they hold for every `fin neg m e`, canonical or not -/
theorem ofBits_WF (b : Nat) : F64.WF (F64.ofBits b) := by
  unfold F64.ofBits
  dsimp only
  split
  · split <;> trivial
  · rename_i h1
    split
    · simp only [F64.WF]
      have : b % 2 ^ 52 < 2 ^ 52 := Nat.mod_lt _ (by decide)
      exact ⟨fun _ => trivial, fun h => by omega⟩
    · rename_i h2
      simp only [F64.WF, F64.minExp, F64.maxExp]
      have : b % 2 ^ 52 < 2 ^ 52 := Nat.mod_lt _ (by decide)
      have : b / 2 ^ 52 % 2048 < 2048 := Nat.mod_lt _ (by decide)
      exact ⟨fun h => by omega, fun _ => by omega⟩

/-! ### non-vacuity (kernel evaluation) -/

section Examples

private def f (i : Int) : F64 := F64.ofInt i
/-- 0.5 -/
private def half : F64 := .fin false 4503599627370496 (-53)

example : F64.lt (f 1) (f 2) = true ∧ F64.lt (f 2) (f 1) = false ∧ F64.feq (f 2) (f 2) = true := ⟨rfl, rfl, rfl⟩
example : F64.lt half (f 1) = true ∧ F64.lt (F64.neg half) half = true ∧ F64.lt (f (-1)) (F64.neg half) = true := ⟨rfl, rfl, rfl⟩
example : F64.lt (.inf true) (f (-5)) = true ∧ F64.lt (f 5) (.inf false) = true := ⟨rfl, rfl⟩
example : fle (f 1) (f 1) = true ∧ fle (f 1) (f 2) = true ∧ fle (f 2) (f 1) = false := ⟨rfl, rfl, rfl⟩
-- a denormalised representation of 1 (`2 * 2^-1`) equals the canonical one: the comparison is by value
example : F64.feq (.fin false 2 (-1)) (f 1) = true := rfl
example (c : Ctx) : itemHolds c .lt (.flt (f 1)) (.flt (f 2)) := rfl
example (c : Ctx) : itemHolds c .le (.flt half) (.flt half) := rfl
example (c : Ctx) : itemHolds c .lt (.bool false) (.bool true) := rfl
example (c : Ctx) : itemHolds c .lt (.flt (f 1)) (.flt (f 3)) :=
  trans_float_items c .lt rfl (f 1) (f 2) (f 3) rfl rfl rfl
example (c : Ctx) : itemHolds c .le (.int 1) (.int 3) :=
  trans_same_repr_le c (.int 1) (.int 2) (.int 3) (Or.inl ⟨1, 2, 3, rfl, rfl, rfl⟩) rfl rfl
example : orderOp .le = true ∧ orderOp .ne = false := by decide

end Examples

end C12b
end Sqljson
