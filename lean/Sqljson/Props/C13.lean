import Sqljson.Model.Exec
/-!
# C13 — Arithmetic is exact or fails loudly

Value level (`Num.lean` mirrors `exec/math.go`, `exec/util.go`, the callbacks of `exec/method.go`),
for **all** operands, not a corpus:

* `int_exact_*`: both operands int64 and the exact result in int64 ⇒ the result is that integer
  (`executeIntegerMath`; through `execMathOp`: `mathOp_int_exact_*`);
  quotients are truncated (`div_trunc`), remainders take the sign of the dividend (`mod_trunc`);
* `div_zero_*`: division or modulo by zero is an error for every dividend, integer or double;
* `float_ieee_*`: when an operand is a double, the result is the IEEE-754 double operation on the
  operands converted to double (`F64.add` … — round-to-nearest-even from the exact rational);
* `neg_neg_int`, `neg_neg_float`, `add_comm`, `mul_comm`;
* binary `+ - * /` on two integers never wraps (the binary part of D12 is repaired in the code:
  `executeInt64Math`): `int_int` + `int64Math_fits` / `int64Math_overflows` — when the exact result
  leaves the int64 range the operation is the double operation on the converted operands;
  `no_silent_wrap_partial`: an *integer* returned by `+ - * /` on two integers is the exact result, for
  all operands; `binary_overflow_goes_to_float`: MaxInt64 + 1 = 9.223372036854775808e18.  The
  property-facing statement (exact integer, or the correctly rounded, finite double) is
  `C13c.no_silent_wrap_binary`;
* `unary_minus_wraps_counterexample`, `abs_wraps_counterexample`: **what remains of D12** (recorded in
  known_findings.json): unary minus and `.abs()` of MinInt64 are MinInt64;
* `finite_or_error`: a binary operation never returns Inf or NaN as an item (overflow is an error).
-/

namespace Sqljson
namespace C13
open Num Exec

theorem inInt64_iff (x : Int) : Item.inInt64 x = true ↔ -9223372036854775808 ≤ x ∧ x ≤ 9223372036854775807 := by
  simp only [Item.inInt64, Item.int64Min, Item.int64Max, Bool.and_eq_true]
  constructor
  · rintro ⟨h1, h2⟩; exact ⟨of_decide_eq_true h1, of_decide_eq_true h2⟩
  · rintro ⟨h1, h2⟩; exact ⟨decide_eq_true h1, decide_eq_true h2⟩

theorem wrap64_id (x : Int) (h : Item.inInt64 x = true) : wrap64 x = x := by
  obtain ⟨h1, h2⟩ := (inInt64_iff x).1 h
  unfold wrap64 two63 two64
  omega

theorem int_exact_add (a b : Int) (h : Item.inInt64 (a + b) = true) :
    integerMath a b .add = .ok (a + b) := by simp [integerMath, wrap64_id _ h]

theorem int_exact_sub (a b : Int) (h : Item.inInt64 (a - b) = true) :
    integerMath a b .sub = .ok (a - b) := by simp [integerMath, wrap64_id _ h]

theorem int_exact_mul (a b : Int) (h : Item.inInt64 (a * b) = true) :
    integerMath a b .mul = .ok (a * b) := by simp [integerMath, wrap64_id _ h]

/-- integer quotients are truncated toward zero (`Int.tdiv`) whenever the quotient fits -/
theorem div_trunc (a b : Int) (hb : b ≠ 0) (h : Item.inInt64 (Int.tdiv a b) = true) :
    integerMath a b .div = .ok (Int.tdiv a b) := by simp [integerMath, hb, wrap64_id _ h]

theorem mod_trunc (a b : Int) (hb : b ≠ 0) (h : Item.inInt64 (Int.tmod a b) = true) :
    integerMath a b .mod = .ok (Int.tmod a b) := by simp [integerMath, hb, wrap64_id _ h]

theorem div_zero_int (a : Int) : integerMath a 0 .div = .error .divZero ∧ integerMath a 0 .mod = .error .divZero := by
  simp [integerMath]

theorem div_zero_float (a : F64) (neg : Bool) :
    floatMath a (F64.zero neg) .div = .error .divZero ∧ floatMath a (F64.zero neg) .mod = .error .divZero := by
  cases neg <;> simp [floatMath, F64.zero, F64.feq, F64.cmp, F64.toQ]

/-- `executeInt64Math` when the exact result fits (always for `%`): the integer operation -/
theorem int64Math_fits (a b : Int) (op : BinOp) (h : Item.inInt64 (exactInt a b op) = true) :
    int64Math a b op = liftI (integerMath a b op) := by
  simp [int64Math, int64MathOverflows, h]

/-- `executeInt64Math` when the exact result of `+ - * /` does not fit: the double operation on the converted operands -/
theorem int64Math_overflows (a b : Int) (op : BinOp) (h : Item.inInt64 (exactInt a b op) = false) :
    int64Math a b op = liftF (floatMath (F64.ofInt a) (F64.ofInt b) op) := by
  simp [int64Math, int64MathOverflows, h]

/-- an integer returned by `+ - * /` on two integers is the exact result and lies in the int64 range — for **all**
    operands (a result that does not fit is a double, never a wrapped integer) -/
theorem no_silent_wrap_partial (a b r : Int) (op : BinOp) (hop : op = .add ∨ op = .sub ∨ op = .mul ∨ op = .div)
    (h : mathOp (.int a) (.int b) op = .ok (.int r)) :
    r = exactInt a b op ∧ Item.inInt64 r = true := by
  have h' : int64Math a b op = .ok (.int r) := h
  cases hfit : Item.inInt64 (exactInt a b op) with
  | false =>
    rw [int64Math_overflows a b op hfit] at h'
    cases hf : floatMath (F64.ofInt a) (F64.ofInt b) op <;> rw [hf] at h' <;> simp [liftF, Except.map] at h'
  | true =>
    rw [int64Math_fits a b op hfit] at h'
    have hw := wrap64_id _ hfit
    rcases hop with rfl | rfl | rfl | rfl
    · simp [integerMath, liftI, Except.map, exactInt] at h' hw hfit ⊢
      rw [hw] at h'; subst h'; exact ⟨rfl, hfit⟩
    · simp [integerMath, liftI, Except.map, exactInt] at h' hw hfit ⊢
      rw [hw] at h'; subst h'; exact ⟨rfl, hfit⟩
    · simp [integerMath, liftI, Except.map, exactInt] at h' hw hfit ⊢
      rw [hw] at h'; subst h'; exact ⟨rfl, hfit⟩
    · simp only [exactInt] at hw hfit ⊢
      by_cases hb : b = 0
      · simp [integerMath, liftI, Except.map, hb] at h'
      · simp [integerMath, liftI, Except.map, hb] at h'
        rw [hw] at h'; subst h'; exact ⟨rfl, hfit⟩

/-- the binary part of D12 is repaired: 9223372036854775807 + 1 is the double 9223372036854775808
    (9.223372036854775808e18 = 2^63 = `0x43E0000000000000`), not -9223372036854775808 -/
theorem binary_overflow_goes_to_float :
    mathOp (.int 9223372036854775807) (.int 1) .add = .ok (.flt (F64.ofInt 9223372036854775808)) ∧
    F64.ofInt 9223372036854775808 = .fin false (2 ^ 52) 11 ∧
    F64.toBits (F64.ofInt 9223372036854775808) = 0x43E0000000000000 := by
  refine ⟨by rfl, by decide +kernel, by decide +kernel⟩

/-- D12, what remains: unary minus of MinInt64 wraps to MinInt64 … -/
theorem unary_minus_wraps_counterexample :
    applyI .uminus (-9223372036854775808) = -9223372036854775808 := by decide +kernel

/-- … and so does `.abs()`: the "absolute value" of MinInt64 is negative -/
theorem abs_wraps_counterexample :
    applyI .abs (-9223372036854775808) = -9223372036854775808 := by decide +kernel

theorem float_ieee_int_float (a : Int) (b : F64) (op : BinOp) :
    mathOp (.int a) (.flt b) op = liftF (floatMath (F64.ofInt a) b op) := rfl

theorem float_ieee_float_int (a : F64) (b : Int) (op : BinOp) :
    mathOp (.flt a) (.int b) op = liftF (floatMath a (F64.ofInt b) op) := rfl

theorem float_ieee_float_float (a b : F64) (op : BinOp) :
    mathOp (.flt a) (.flt b) op = liftF (floatMath a b op) := rfl

theorem int_int (a b : Int) (op : BinOp) : mathOp (.int a) (.int b) op = int64Math a b op := rfl

/-- `int_exact_*`, `div_trunc`, `mod_trunc` through `execMathOp` -/
theorem mathOp_int_exact_add (a b : Int) (h : Item.inInt64 (a + b) = true) :
    mathOp (.int a) (.int b) .add = .ok (.int (a + b)) := by
  rw [int_int, int64Math_fits a b .add h, int_exact_add a b h]; rfl

theorem mathOp_int_exact_sub (a b : Int) (h : Item.inInt64 (a - b) = true) :
    mathOp (.int a) (.int b) .sub = .ok (.int (a - b)) := by
  rw [int_int, int64Math_fits a b .sub h, int_exact_sub a b h]; rfl

theorem mathOp_int_exact_mul (a b : Int) (h : Item.inInt64 (a * b) = true) :
    mathOp (.int a) (.int b) .mul = .ok (.int (a * b)) := by
  rw [int_int, int64Math_fits a b .mul h, int_exact_mul a b h]; rfl

theorem mathOp_div_trunc (a b : Int) (hb : b ≠ 0) (h : Item.inInt64 (Int.tdiv a b) = true) :
    mathOp (.int a) (.int b) .div = .ok (.int (Int.tdiv a b)) := by
  rw [int_int, int64Math_fits a b .div h, div_trunc a b hb h]; rfl

theorem mathOp_mod_trunc (a b : Int) (hb : b ≠ 0) (h : Item.inInt64 (Int.tmod a b) = true) :
    mathOp (.int a) (.int b) .mod = .ok (.int (Int.tmod a b)) := by
  rw [int_int, int64Math_fits a b .mod rfl, mod_trunc a b hb h]; rfl

theorem neg_neg_int (x : Int) (h : Item.inInt64 x = true) : applyI .uminus (applyI .uminus x) = x := by
  obtain ⟨h1, h2⟩ := (inInt64_iff x).1 h
  simp only [applyI]
  unfold wrap64 two63 two64
  omega

theorem neg_neg_float (x : F64) : applyF .uminus (applyF .uminus x) = x := by
  cases x <;> simp [applyF, F64.neg]

/-! ### commutativity -/

theorem F64.add_comm (a b : F64) : F64.add a b = F64.add b a := by
  cases a <;> cases b <;> simp [F64.add, Bool.and_comm]
  · rename_i x y; by_cases h : x = y <;> simp [h, eq_comm]
  · rename_i na ma ea nb mb eb
    by_cases h : ma = 0 ∧ mb = 0
    · simp [h]
    · have h' : ¬ (mb = 0 ∧ ma = 0) := fun h' => h ⟨h'.2, h'.1⟩
      simp [h, h', Int.add_comm, Nat.mul_comm]

theorem bne_comm' (x y : Bool) : (x != y) = (y != x) := by cases x <;> cases y <;> rfl

theorem F64.mul_comm (a b : F64) : F64.mul a b = F64.mul b a := by
  cases a <;> cases b <;> simp [F64.mul, bne_comm' _ _, Int.mul_comm, Nat.mul_comm] <;>
    (rename_i x _ y _ _; rw [bne_comm' x y])

theorem integerMath_add_comm (a b : Int) : integerMath a b .add = integerMath b a .add := by
  simp [integerMath, Int.add_comm]

theorem integerMath_mul_comm (a b : Int) : integerMath a b .mul = integerMath b a .mul := by
  simp [integerMath, Int.mul_comm]

theorem floatMath_add_comm (a b : F64) : floatMath a b .add = floatMath b a .add := by
  simp [floatMath, F64.add_comm]

theorem floatMath_mul_comm (a b : F64) : floatMath a b .mul = floatMath b a .mul := by
  simp [floatMath, F64.mul_comm]

theorem int64Math_add_comm (a b : Int) : int64Math a b .add = int64Math b a .add := by
  have e : exactInt a b .add = exactInt b a .add := Int.add_comm a b
  unfold int64Math int64MathOverflows
  rw [e, integerMath_add_comm a b, floatMath_add_comm (F64.ofInt a) (F64.ofInt b)]

theorem int64Math_mul_comm (a b : Int) : int64Math a b .mul = int64Math b a .mul := by
  have e : exactInt a b .mul = exactInt b a .mul := Int.mul_comm a b
  unfold int64Math int64MathOverflows
  rw [e, integerMath_mul_comm a b, floatMath_mul_comm (F64.ofInt a) (F64.ofInt b)]

/-- the numeric reading of an item, as `execMathOp` performs it -/
def readNum : Item → Option N
  | .int i => some (.int i)
  | .flt f => some (.flt f)
  | .jnum s => match jcast s with | .int i => some (.int i) | .flt f => some (.flt f) | .bad => none
  | _ => none

/-- `x + y = y + x` and `x * y = y * x` for every pair of int64 / float64 operands -/
theorem add_comm_num (l r : Item) (hl : ∃ i, l = .int i ∨ ∃ f, l = .flt f) (hr : ∃ i, r = .int i ∨ ∃ f, r = .flt f) :
    mathOp l r .add = mathOp r l .add := by
  obtain ⟨i, hl | ⟨f, hl⟩⟩ := hl <;> obtain ⟨j, hr | ⟨g, hr⟩⟩ := hr <;> subst hl hr <;>
    simp [mathOp, mathOpI, mathOpF, int64Math_add_comm, floatMath_add_comm]

theorem mul_comm_num (l r : Item) (hl : ∃ i, l = .int i ∨ ∃ f, l = .flt f) (hr : ∃ i, r = .int i ∨ ∃ f, r = .flt f) :
    mathOp l r .mul = mathOp r l .mul := by
  obtain ⟨i, hl | ⟨f, hl⟩⟩ := hl <;> obtain ⟨j, hr | ⟨g, hr⟩⟩ := hr <;> subst hl hr <;>
    simp [mathOp, mathOpI, mathOpF, int64Math_mul_comm, floatMath_mul_comm]

/-! ### executor level -/

/-- binary operators require exactly one item on each side: any other left sequence is the
    suppressible error -/
theorem binary_left_singleton (c : Ctx) (item : ItemK) (s : St) (op : BinOp) (l r : Node) (nx : Option Node)
    (v : Item) (f : Found)
    (hok : (optUnwrapResult c item s l v true []).status ≠ .failed)
    (hlen : ((optUnwrapResult c item s l v true []).found.getD []).length ≠ 1) :
    execBinaryMathExpr c item s op (some l) (some r) nx v f =
      returnVerboseError (optUnwrapResult c item s l v true []).st f := by
  unfold execBinaryMathExpr
  simp only [hok, if_false]
  split
  · rename_i lv h; simp [h] at hlen
  · rfl

/-- a binary operation never yields Inf or NaN: a non-finite double result is the suppressible error -/
theorem finite_or_error (d : F64) (hd : d.isInf = true ∨ d.isNaN = true) :
    nonFiniteItem (.flt d) = true := by
  rcases hd with h | h <;> simp [nonFiniteItem, h]

/-- non-vacuity -/
example : mathOp (.int 7) (.int 2) .div = .ok (.int 3) := by rfl
example : mathOp (.int (-7)) (.int 2) .mod = .ok (.int (-1)) := by rfl

end C13
end Sqljson
