import Sqljson.Lemmas.DecimalMethod
/-!
# C16 (fourth part) — `.decimal(precision, scale)` for ALL finite inputs

Property C16, the part at stake: *the methods "return the correctly rounded value, and return an error rather than a value
outside … the declared precision and scale (`.decimal()`) or the finite doubles"*.

`Exec.executeDecimalMethod` (mirror of `exec.executeDecimalMethod`, path/exec/method.go) computes for a finite double `num`

    ratio   := math.Pow10(scale)
    rounded := num                               if num*ratio is ±Inf and ratio is finite   (repair of D37)
               math.Round(num*ratio) / ratio     otherwise
    error (suppressible) if rounded is ±Inf                                                (repair ac546c4)
    count   := number of the characters 1…9 before the '.' of FormatFloat(rounded,'f',-1,64)
    error (suppressible) if count > 0 && count > precision − scale, else rounded

`DecimalMethod.decimalRound num ratio` is `rounded`; `DecimalMethod.rejected p s x` is the digit check
(`DecimalMethod.exec_eq`, `exec_ok_cases`: every successful call with arguments is of this shape).
`num x / den x` is the exact value of a finite double as a fraction (`Lemmas/Rounding.lean`).  `F64.pow10` is Go's
`math.Pow10` as written (a rounded product / quotient of two table entries).

## What is proved (every finite well-formed `num`, every precision 1…1000, every scale in the stated range)

(a) **finite result.**  `decimal_finite`: for `-323 ≤ scale ≤ 308` — every scale at which `math.Pow10` is finite and
    non-zero — a returned value is a finite double (never ±Inf, never NaN; well formed, sign bit of the input:
    `decimal_wellformed`).  `decimal_nonneg_scale_no_overflow`: for `0 ≤ scale ≤ 308` the rounded value is never infinite
    (the new error branch is not taken); `decimal_tiny_scale`: for `-323 ≤ scale ≤ -309` the result is the zero with the
    sign of `num` (the right answer: `tiny_scale_zero_is_right`).  `decimal_rejects_overflow_iff`: for `-323 ≤ scale ≤ 0`
    the error branch for an infinite value is taken exactly when `round(num*ratio)/ratio ≥ 2^1024 − 2^970`
    (`decimal_neg_scale_inf_iff`).
(b) **the D37 repair is right.**  `decimal_overflow_unchanged`: if `num * Pow10(scale)` is infinite while `Pow10(scale)` is
    finite then `0 < scale ≤ 308`, `num * 10^scale` is an integer (as an exact rational: `num` is a multiple of
    `10^-scale`), `num` has at most `min(scale, 52)` binary fraction digits, and the rounding step returns `num`.
(c) **accuracy.**  `decimal_accuracy`: for `-307 ≤ scale ≤ 308` a returned `x` satisfies
    `|x − num| ≤ (1/2 + 2^-50)·10^-scale + 2^-51·|num|` (cross-multiplied), and `x` has the sign bit of `num`;
    `decimal_scale_zero_is_round`: at scale 0 the result is exactly `math.Round(num)` (nearest integer, halves away from
    zero: `round_is_nearest_integer`); `decimal_unchanged`: for `0 ≤ scale ≤ 22` a value with at most `scale` decimals whose
    scaled value is below `2^53` is returned unchanged.  Beyond that it can move by one unit in the last place (Findings).
(d) **D17c stated exactly.**  `decimal_scale_above_308_nan`, `decimal_scale_below_minus323_nan`: for `308 < scale ≤ 1000`
    and for `-1000 ≤ scale < -323` the method returns NaN, without error, for EVERY input (zero, infinities, NaN included).
(e) **D17b stated exactly.**  `digit_count_is`, `digit_count_of_double`, `digit_check_iff`, `accepted_though_too_long_iff`:
    the check counts the non-zero digits among the integer digits of the shortest text; a value whose integer part has more
    than `precision − scale` digits is accepted exactly when enough of them are `0`.

## Findings (each checked on /repo with go1.23.5)

* **F1 — `math.Pow10(n)` is not the double nearest to `10^n`** at 169 of the 632 scales −323…308 (`pow10_not_nearest`; the
  nearest to zero are 33 and −23; on −22…32 it is: `pow10_nearest_near_zero`): Go multiplies / divides two rounded table
  entries.  (Until this proof the model returned the nearest double, `DecimalMethod.nearestPow10`; it now mirrors Go.)
  Visible through the method: `$.decimal(50,33)` on `2e-33` is `1.9999999999999998e-33`, `$.decimal(50,-23)` on `3e23` is
  `2.9999999999999997e+23`; with the nearest ratio both inputs would come back unchanged (`inexact_ratio_is_visible`).
* **F2 — repaired (ac546c4).**  `$.decimal(1000,-308)` on `MaxFloat64` used to return `+Inf` without error
  (`round(1.797…) = 2`, `2 / 1e-308 = +Inf`); it is now the suppressible error (`neg_scale_overflow_is_error`).
  `neg_scale_overflow_scales` lists the scales at which `MaxFloat64` takes that branch: −308…−304, −299, −298, −294, −293.
* **F3 — the result is not always the double nearest to the decimal rounding** (one unit in the last place off):
  `$.decimal(50,33)` on `1e-33` returns `9.999999999999999e-34` (`not_idempotent_beyond_22`); `$.decimal(1000,22)` on
  `0.1234567` returns `0.12345669999999999` although `10^22` is exact (`unchanged_needs_small_scaled_value`); the nearest
  ratio would not cure it (`1e-34` at scale 34 would become `1.0000000000000001e-34`).  Inherent to
  `round(num*ratio)/ratio`; within the bound of (c).
* D17b besides the zeros: a scale larger than the precision is not enforced at all for `|num| < 1`
  (`small_value_any_scale_accepted`: `.decimal(2,5)` accepts `0.5`, which PostgreSQL's `numeric(2,5)` rejects).
-/

namespace Sqljson.C16d
open Sqljson Rounding Exec DecimalMethod

/-! ## helpers: from the shape of a successful call -/

theorem ok_shape {l r : Option Node} {v x : F64} {s : Int} (hr : scaleArg r = some s)
    (h : executeDecimalMethod l r v = .ok x) :
    x = v ∨ (x = decimalRound v (F64.pow10 s) ∧ x.isInf = false ∧ -1000 ≤ s ∧ s ≤ 1000) := by
  rcases exec_ok_cases h with ⟨_, hx⟩ | ⟨p, s', _, hs', _, _, h1, h2, hx, hi, _⟩
  · exact Or.inl hx
  · rw [hr] at hs'
    cases hs'
    exact Or.inr ⟨hx, hi, h1, h2⟩

/-- `math.Pow10` outside its range -/
theorem pow10_above (s : Int) (h : 308 < s) : F64.pow10 s = .inf false := by
  unfold F64.pow10
  rw [if_neg (by omega), if_neg (by omega), if_pos (by omega)]

theorem pow10_below (s : Int) (h : s < -323) : F64.pow10 s = .fin false 0 F64.minExp := by
  unfold F64.pow10
  rw [if_neg (by omega), if_neg (by omega), if_neg (by omega)]

/-! ## (a) the result is finite -/

/-- **`.decimal(p, s)` never returns ±Inf or NaN for `-323 ≤ s ≤ 308`** — every scale at which `math.Pow10` is finite
    and non-zero: whatever the finite input and the precision, a returned value is a finite double.  (D37 was the case
    `num * 10^s = ±Inf`; the overflow of the final division at negative scales is now an error.) -/
theorem decimal_finite (l r : Option Node) (v x : F64) (s : Int)
    (hf : v.isFinite = true) (hw : F64.WF v) (hr : scaleArg r = some s) (h0 : -323 ≤ s) (h1 : s ≤ 308)
    (h : executeDecimalMethod l r v = .ok x) : x.isFinite = true := by
  rcases ok_shape hr h with hx | ⟨hx, hni, _, _⟩
  · rw [hx]; exact hf
  · apply finite_of_not_inf_nan hni
    rw [hx]
    exact (decimalRound_not_nan (pow10_facts s h0 h1) hf hw).1

/-- for `0 ≤ s ≤ 308` the rounded value is finite by itself: the error branch for an infinite value is never taken -/
theorem decimal_nonneg_scale_no_overflow (v : F64) (s : Int) (hf : v.isFinite = true) (hw : F64.WF v)
    (h0 : 0 ≤ s) (h1 : s ≤ 308) : (decimalRound v (F64.pow10 s)).isFinite = true :=
  decimalRound_finite (pow10_facts s (by omega) h1) h0 hf hw

/-- for every scale at which `math.Pow10` is finite and non-zero (−323 … 308) the result is never NaN, has the sign bit of
    the input, and is a well-formed double when finite -/
theorem decimal_wellformed (l r : Option Node) (v x : F64) (s : Int)
    (hf : v.isFinite = true) (hw : F64.WF v) (hr : scaleArg r = some s) (h0 : -323 ≤ s) (h1 : s ≤ 308)
    (h : executeDecimalMethod l r v = .ok x) :
    x.isNaN = false ∧ x.signBit = v.signBit ∧ (x.isFinite = true → F64.WF x) := by
  rcases ok_shape hr h with hx | ⟨hx, hni, _, _⟩
  · rw [hx]
    obtain ⟨n, m, e, rfl⟩ := fin_of_finite hf
    exact ⟨rfl, rfl, fun _ => hw⟩
  · rw [hx]
    have hR := pow10_facts s h0 h1
    exact ⟨(decimalRound_not_nan hR hf hw).1, decimalRound_signBit_facts hR hf hw, (decimalRound_not_nan hR hf hw).2⟩

/-- **scales −323 … −309** (`Pow10` is a subnormal number below `2^-1026`): the scaled value is below 1/4, so the method
    returns the zero with the sign of the input — for every finite input and every precision -/
theorem decimal_tiny_scale (l r : Option Node) (p s : Int) (n : Bool) (m : Nat) (e : Int)
    (hw : F64.WF (.fin n m e)) (hl : intArg l = some p) (hp1 : 1 ≤ p) (hp2 : p ≤ 1000)
    (hr : scaleArg r = some s) (h0 : -323 ≤ s) (h1 : s ≤ -309) :
    executeDecimalMethod l r (.fin n m e) = .ok (.fin n 0 F64.minExp) := by
  apply exec_ok_of p s l r _ _ hl hr hp1 hp2 (by omega) (by omega)
    (decimalRound_tiny (pow10_facts s h0 (by omega)) h1 n m e hw) rfl
  unfold rejected
  rw [count_special _ (Or.inr (Or.inr ⟨n, _, rfl⟩))]
  rfl

set_option exponentiation.threshold 2000 in
theorem two_pow_1025_le : 2 * 2 ^ 1024 ≤ 10 ^ 309 := by decide +kernel

set_option exponentiation.threshold 2000 in
/-- … and zero is the right answer there: every finite double is smaller in magnitude than half of `10^309`, so the
    nearest multiple of `10^k`, `k ≥ 309`, is `0` -/
theorem tiny_scale_zero_is_right (x : F64) (hf : x.isFinite = true) (hw : F64.WF x) (k : Nat) (hk : 309 ≤ k) :
    2 * (Rounding.num x).natAbs < 10 ^ k * den x := by
  have h1 := abs_lt_thr hf hw
  have h2 : thr * den x ≤ 2 ^ 1024 * den x := Nat.mul_le_mul_right _ thr_le_pow
  have h3 : 10 ^ 309 ≤ 10 ^ k := Nat.pow_le_pow_right (by decide) hk
  have h4 : 2 * 2 ^ 1024 * den x ≤ 10 ^ k * den x := Nat.mul_le_mul_right _ (Nat.le_trans two_pow_1025_le h3)
  have h5 : 2 * 2 ^ 1024 * den x = 2 * (2 ^ 1024 * den x) := Nat.mul_assoc _ _ _
  generalize (2 : Nat) ^ 1024 * den x = A at *
  generalize 10 ^ k * den x = B at *
  generalize thr * den x = C at *
  omega

/-- **scales −323 … 0: exactly when the rounded value is infinite.**  The product cannot overflow (the ratio is at most
    one); the final division overflows exactly when `round(v*ratio)/ratio ≥ 2^1024 − 2^970` -/
theorem decimal_neg_scale_inf_iff (v : F64) (s : Int) (hf : v.isFinite = true) (hw : F64.WF v)
    (h0 : -323 ≤ s) (h1 : s ≤ 0) :
    (F64.mul v (F64.pow10 s)).isInf = false ∧
    ((decimalRound v (F64.pow10 s)).isInf = true ↔
      thr * (den (F64.round (F64.mul v (F64.pow10 s))) * (Rounding.num (F64.pow10 s)).natAbs) ≤
        (Rounding.num (F64.round (F64.mul v (F64.pow10 s)))).natAbs * den (F64.pow10 s)) := by
  have hR := pow10_facts s h0 (by omega)
  have hi : (F64.mul v (F64.pow10 s)).isInf = false := by
    cases hx : (F64.mul v (F64.pow10 s)).isInf
    · rfl
    · exfalso
      obtain ⟨mr, er, hre, hmr⟩ := ratio_shape hR
      obtain ⟨na, ma, ea, rfl⟩ := fin_of_finite hf
      rw [hre] at hx hR
      have := (overflow_exponent hR na ma ea hw hx).1
      omega
  exact ⟨hi, decimalRound_inf_iff hR hf hw hi⟩

/-- **when the error for a value outside the finite doubles is raised** (`-323 ≤ s ≤ 0`, valid arguments): if
    `round(v*ratio)/ratio ≥ 2^1024 − 2^970` the method fails with the suppressible error; otherwise the rounded value is
    finite and the outcome is that of the digit check on it -/
theorem decimal_rejects_overflow_iff (l r : Option Node) (p s : Int) (v : F64)
    (hf : v.isFinite = true) (hw : F64.WF v) (hl : intArg l = some p) (hp1 : 1 ≤ p) (hp2 : p ≤ 1000)
    (hr : scaleArg r = some s) (h0 : -323 ≤ s) (h1 : s ≤ 0) :
    (thr * (den (F64.round (F64.mul v (F64.pow10 s))) * (Rounding.num (F64.pow10 s)).natAbs) ≤
        (Rounding.num (F64.round (F64.mul v (F64.pow10 s)))).natAbs * den (F64.pow10 s) →
      executeDecimalMethod l r v = .error .verbose) ∧
    (¬ thr * (den (F64.round (F64.mul v (F64.pow10 s))) * (Rounding.num (F64.pow10 s)).natAbs) ≤
        (Rounding.num (F64.round (F64.mul v (F64.pow10 s)))).natAbs * den (F64.pow10 s) →
      (decimalRound v (F64.pow10 s)).isFinite = true ∧
      executeDecimalMethod l r v =
        if rejected p s (decimalRound v (F64.pow10 s)) then .error .verbose
        else .ok (decimalRound v (F64.pow10 s))) := by
  obtain ⟨_, hiff⟩ := decimal_neg_scale_inf_iff v s hf hw h0 h1
  constructor
  · intro hc
    exact exec_err_of_inf p s l r v hl hr hp1 hp2 (by omega) (by omega) (hiff.mpr hc)
  · intro hc
    have hni : (decimalRound v (F64.pow10 s)).isInf = false := by
      cases hx : (decimalRound v (F64.pow10 s)).isInf
      · rfl
      · exact absurd (hiff.mp hx) hc
    refine ⟨finite_of_not_inf_nan hni (decimalRound_not_nan (pow10_facts s h0 (by omega)) hf hw).1, ?_⟩
    rw [exec_eq p s l r v hl hr hp1 hp2 (by omega) (by omega), hni]
    rfl

/-- every error of a call with valid arguments at a scale −323 … 308 is the suppressible one, and it has exactly two
    causes: the rounded value is infinite, or it fails the digit check -/
theorem decimal_error_causes (l r : Option Node) (p s : Int) (v : F64) (e : Err)
    (hl : intArg l = some p) (hp1 : 1 ≤ p) (hp2 : p ≤ 1000) (hr : scaleArg r = some s)
    (h0 : -1000 ≤ s) (h1 : s ≤ 1000) (h : executeDecimalMethod l r v = .error e) :
    e = .verbose ∧ ((decimalRound v (F64.pow10 s)).isInf = true ∨ rejected p s (decimalRound v (F64.pow10 s)) = true) := by
  rw [exec_eq p s l r v hl hr hp1 hp2 h0 h1] at h
  cases hi : (decimalRound v (F64.pow10 s)).isInf
  · rw [hi] at h
    cases hj : rejected p s (decimalRound v (F64.pow10 s))
    · rw [hj] at h
      simp only [Bool.false_eq_true, if_false] at h
      cases h
    · rw [hj] at h
      simp only [Bool.false_eq_true, if_false, if_true] at h
      cases h
      exact ⟨rfl, Or.inr rfl⟩
  · rw [hi] at h
    simp only [if_true] at h
    cases h
    exact ⟨rfl, Or.inl rfl⟩

/-! ## (b) the D37 repair: an overflowing product means there is nothing to round -/

/-- **when `v * Pow10(scale)` overflows although `Pow10(scale)` is finite**, the scale is positive, `v` is an exact
    multiple of `10^-scale` (`v * 10^scale` is an integer `k`), its denominator divides `2^52` and `2^scale` (at most
    `min(scale, 52)` binary, hence decimal, fraction digits), and the rounding step returns `v` itself — so the value
    returned by the repaired code is exactly the value rounded to `scale` decimal places. -/
theorem decimal_overflow_unchanged (v : F64) (s : Int) (hf : v.isFinite = true) (hw : F64.WF v)
    (hinf : (F64.mul v (F64.pow10 s)).isInf = true) (hfin : (F64.pow10 s).isFinite = true) :
    decimalRound v (F64.pow10 s) = v ∧ 0 < s ∧ s ≤ 308 ∧
    (∃ k : Int, Rounding.num v * ((10 ^ s.toNat : Nat) : Int) = k * (den v : Int)) ∧
    den v ∣ 2 ^ 52 ∧ den v ∣ 2 ^ s.toNat := by
  have h308 : s ≤ 308 := by
    apply Classical.byContradiction
    intro hgt
    have : F64.pow10 s = .inf false := pow10_above s (by omega)
    rw [this] at hfin; cases hfin
  obtain ⟨na, ma, ea, rfl⟩ := fin_of_finite hf
  have h323 : -323 ≤ s := by
    apply Classical.byContradiction
    intro hlt
    have : F64.pow10 s = .fin false 0 F64.minExp := pow10_below s (by omega)
    rw [this, C13c.mul_zero_sign na ma ea false 0 F64.minExp (Or.inr rfl)] at hinf
    cases hinf
  have hR := pow10_facts s h323 h308
  obtain ⟨mr, er, hre, hmr⟩ := ratio_shape hR
  rw [hre] at hinf hR ⊢
  obtain ⟨hs, he1, he2⟩ := overflow_exponent hR na ma ea hw hinf
  refine ⟨decimalRound_inf hinf rfl, hs, h308, multiple_of_exponent na ma ea s (by omega) he1, ?_, ?_⟩
  · exact Nat.pow_dvd_pow 2 (by omega)
  · exact Nat.pow_dvd_pow 2 (by omega)

/-- through the executor: in the overflow case a successful call returns its input -/
theorem decimal_overflow_returns_input (l r : Option Node) (v x : F64) (s : Int)
    (hr : scaleArg r = some s) (hinf : (F64.mul v (F64.pow10 s)).isInf = true)
    (hfin : (F64.pow10 s).isFinite = true) (h : executeDecimalMethod l r v = .ok x) : x = v := by
  rcases ok_shape hr h with hx | ⟨hx, hni, _, _⟩
  · exact hx
  · rw [hx]; exact decimalRound_inf hinf hfin

/-! ## (c) accuracy -/

/-- **the error of `.decimal(p, s)`, `-307 ≤ s ≤ 308`**: a returned value `x` (finite by `decimal_finite`) satisfies
    `|x − v| ≤ (1/2 + 2^-50) · 10^-s + 2^-51 · |v|` — half a unit of the requested scale plus a few units in the last
    place — stated without division: both sides multiplied by `2^51 · 10^s · den x · den v`, where `10^s` is
    `10^s.toNat / 10^(-s).toNat`.  Moreover `x` has the sign bit of `v`. -/
theorem decimal_accuracy (l r : Option Node) (v x : F64) (s : Int)
    (hf : v.isFinite = true) (hw : F64.WF v) (hr : scaleArg r = some s) (h0 : -307 ≤ s) (h1 : s ≤ 308)
    (h : executeDecimalMethod l r v = .ok x) :
    2 ^ 51 * 10 ^ s.toNat * (Rounding.num x * (den v : Int) - Rounding.num v * (den x : Int)).natAbs ≤
      (2 ^ 50 + 2) * 10 ^ (-s).toNat * (den x * den v) + 10 ^ s.toNat * (Rounding.num v).natAbs * den x ∧
    x.signBit = v.signBit := by
  rcases ok_shape hr h with hx | ⟨hx, hni, _, _⟩
  · subst hx
    rw [Int.sub_self, Int.natAbs_zero, Nat.mul_zero]
    exact ⟨Nat.zero_le _, rfl⟩
  · have hR := pow10_facts s (by omega) h1
    have hxf := decimal_finite l r v x s hf hw hr (by omega) h1 h
    rw [hx] at hxf ⊢
    exact ⟨decimalRound_accuracy_facts hR h0 h1 hf hxf, decimalRound_signBit_facts hR hf hw⟩

theorem pow10_zero : F64.pow10 0 = one := by decide +kernel

/-- **scale 0** (also `.decimal(p)` without a scale): the result is exactly `math.Round(v)`, for every finite input —
    multiplying and dividing by `1.0` are exact -/
theorem decimal_scale_zero_is_round (l r : Option Node) (v x : F64)
    (hf : v.isFinite = true) (hw : F64.WF v) (hl : l ≠ none) (hr : scaleArg r = some 0)
    (h : executeDecimalMethod l r v = .ok x) : x = F64.round v := by
  obtain ⟨na, ma, ea, rfl⟩ := fin_of_finite hf
  rcases exec_ok_cases h with ⟨hn, _⟩ | ⟨p, s', _, hs', _, _, _, _, hx, _, _⟩
  · exact absurd hn hl
  · rw [hr] at hs'
    cases hs'
    rw [hx, pow10_zero]
    exact decimalRound_one na ma ea hw

/-- `math.Round` (`F64.round`): an integer-valued finite well-formed double with the sign bit of its argument, at distance at
    most 1/2 from it -/
theorem round_is_nearest_integer (S : F64) (hf : S.isFinite = true) (hw : F64.WF S) :
    (F64.round S).isFinite = true ∧ F64.WF (F64.round S) ∧ (F64.round S).signBit = S.signBit ∧
    (∃ i : Int, Rounding.num (F64.round S) = i * (den (F64.round S) : Int)) ∧
    2 * (Rounding.num (F64.round S) * (den S : Int) - Rounding.num S * (den (F64.round S) : Int)).natAbs ≤
      den S * den (F64.round S) :=
  Acc.round_spec S hf hw

/-- **a value that already has at most `s` decimals is returned unchanged**, for `0 ≤ s ≤ 22` (where `10^s` is a double) and
    `|v| * 10^s = K < 2^53` -/
theorem decimal_unchanged (l r : Option Node) (n : Bool) (m : Nat) (e : Int) (x : F64) (s : Int)
    (hw : F64.WF (.fin n m e)) (hr : scaleArg r = some s) (h0 : 0 ≤ s) (h1 : s ≤ 22)
    (K : Nat) (hK : K < 2 ^ 53)
    (hv : (Rounding.num (.fin n m e)).natAbs * 10 ^ s.toNat = K * den (.fin n m e))
    (h : executeDecimalMethod l r (.fin n m e) = .ok x) : x = .fin n m e := by
  rcases ok_shape hr h with hx | ⟨hx, hni, _, _⟩
  · exact hx
  · rw [hx]
    exact decimalRound_unchanged (pow10_facts s (by omega) (by omega)) h0 h1 n m e hw K hK hv

/-! ## (d) D17c: scales outside the range of `math.Pow10` -/

theorem rejected_nan (p s : Int) : rejected p s .nan = false := by
  unfold rejected
  rw [count_special _ (Or.inl rfl)]
  rfl

/-- **D17c, upper side**: for `308 < scale ≤ 1000` (`Pow10 = +Inf`) the method returns NaN without error — for every
    input whatsoever, zero included -/
theorem decimal_scale_above_308_nan (l r : Option Node) (p s : Int) (v : F64)
    (hl : intArg l = some p) (hp1 : 1 ≤ p) (hp2 : p ≤ 1000) (hr : scaleArg r = some s) (h0 : 308 < s) (h1 : s ≤ 1000) :
    executeDecimalMethod l r v = .ok .nan := by
  have hp : F64.pow10 s = .inf false := pow10_above s h0
  apply exec_ok_of p s l r _ _ hl hr hp1 hp2 (by omega) h1 _ rfl (rejected_nan p s)
  rw [hp, decimalRound_ratio_inf]

/-- **D17c, lower side**: for `-1000 ≤ scale < -323` (`Pow10 = 0`) likewise: `0/0` -/
theorem decimal_scale_below_minus323_nan (l r : Option Node) (p s : Int) (v : F64)
    (hl : intArg l = some p) (hp1 : 1 ≤ p) (hp2 : p ≤ 1000) (hr : scaleArg r = some s) (h0 : -1000 ≤ s) (h1 : s < -323) :
    executeDecimalMethod l r v = .ok .nan := by
  have hp : F64.pow10 s = .fin false 0 F64.minExp := pow10_below s h1
  apply exec_ok_of p s l r _ _ hl hr hp1 hp2 h0 (by omega) _ rfl (rejected_nan p s)
  rw [hp, decimalRound_ratio_zero]

/-! ## (e) D17b: what the digit check counts -/

/-- the check counts the characters `1`…`9` before the first `.` of the text -/
theorem digit_count_is (t : List Char) :
    countNonZeroDigits t = ((t.takeWhile (fun ch => ch != '.')).filter isNZ).length := count_eq t

/-- on a finite non-zero double: the non-zero digits among `intDigits m e`, the integer digits of its shortest decimal
    text (`'0'` alone when the value is below one); these are digits, so their number is the number of non-zero ones plus
    the number of zeros -/
theorem digit_count_of_double (n : Bool) (m : Nat) (e : Int) (hm : m ≠ 0) :
    countNonZeroDigits (Decimal.formatF (.fin n m e)) = ((intDigits m e).filter isNZ).length ∧
    (intDigits m e).length =
      ((intDigits m e).filter isNZ).length + ((intDigits m e).filter (fun c => c == '0')).length :=
  ⟨count_formatF_fin n m e hm,
    digits_split (intPart_allDig (FloatText.formatNat_allDig _) _)⟩

/-- zeros, infinities and NaN pass every digit check -/
theorem digit_count_special (x : F64) (h : x = .nan ∨ (∃ n, x = .inf n) ∨ ∃ n e, x = .fin n 0 e) :
    countNonZeroDigits (Decimal.formatF x) = 0 := count_special x h

/-- **the digit check**: rejected iff the number `nz` of non-zero integer digits is positive and exceeds
    `precision − scale` -/
theorem digit_check_iff (p s : Int) (n : Bool) (m : Nat) (e : Int) (hm : m ≠ 0) :
    rejected p s (.fin n m e) = true ↔
      0 < ((intDigits m e).filter isNZ).length ∧ p - s < (((intDigits m e).filter isNZ).length : Int) := by
  unfold rejected
  rw [count_formatF_fin n m e hm]
  simp only [Bool.and_eq_true, decide_eq_true_eq]
  omega

/-- **D17b exactly**: a value whose integer part has more than `precision − scale` digits is nevertheless accepted iff the
    non-zero ones among them are at most `precision − scale` — i.e. iff at least `length − (precision − scale)` of its
    integer digits are `0` -/
theorem accepted_though_too_long_iff (p s : Int) (n : Bool) (m : Nat) (e : Int) (hm : m ≠ 0)
    (hps : 0 < p - s) :
    (rejected p s (.fin n m e) = false ∧ p - s < ((intDigits m e).length : Int)) ↔
      (((intDigits m e).length : Int) - (p - s) ≤ (((intDigits m e).filter (fun c => c == '0')).length : Int) ∧
        p - s < ((intDigits m e).length : Int)) := by
  have hsplit := (digit_count_of_double n m e hm).2
  have hiff := digit_check_iff p s n m e hm
  cases hrj : rejected p s (.fin n m e)
  · have : ¬ (0 < ((intDigits m e).filter isNZ).length ∧ p - s < (((intDigits m e).filter isNZ).length : Int)) := by
      rw [← hiff, hrj]; exact Bool.false_ne_true
    constructor
    · rintro ⟨_, h2⟩; refine ⟨?_, h2⟩; omega
    · rintro ⟨_, h2⟩; exact ⟨rfl, h2⟩
  · have := hiff.mp hrj
    constructor
    · rintro ⟨h1, _⟩; cases h1
    · rintro ⟨h1, h2⟩; exfalso; omega

/-! ## Findings, as theorems (kernel evaluation; each confirmed on the Go code) -/

namespace Findings

def b (x : Nat) : F64 := F64.ofBits x
def arg (i : Int) : Option Node := some (.integer i none)

/-- the largest finite double, `MaxFloat64 = 1.7976931348623157e308` -/
def maxF : F64 := b 0x7FEFFFFFFFFFFFFF

/-- the 169 scales at which a Go program finds `math.Pow10(n) ≠ strconv.ParseFloat("1e<n>")` -/
def notNearest : List Int :=
    [-307, -303, -302, -298, -291, -286, -281, -276, -273, -259, -252, -250, -249, -247, -244, -233, -227, -226,
     -223, -221, -220, -215, -214, -213, -212, -207, -204, -202, -201, -200, -199, -198, -197, -194, -188, -185,
     -168, -159, -157, -153, -151, -148, -147, -145, -144, -143, -140, -137, -131, -129, -123, -122, -121, -117,
     -116, -115, -114, -113, -111, -110, -109, -108, -107, -101, -100, -99, -97, -93, -91, -89, -86, -84, -61, -60,
     -55, -49, -48, -47, -44, -40, -39, -38, -36, -34, -30, -29, -28, -26, -25, -24, -23, 33, 34, 37, 39, 45, 49,
     57, 58, 59, 68, 74, 89, 90, 93, 99, 102, 105, 111, 112, 118, 121, 123, 124, 126, 131, 132, 134, 135, 145, 146,
     147, 150, 153, 154, 155, 158, 159, 165, 185, 186, 187, 189, 191, 194, 197, 202, 208, 210, 211, 212, 214, 217,
     219, 227, 230, 231, 232, 235, 236, 238, 241, 242, 243, 244, 245, 246, 248, 249, 250, 251, 252, 259, 273, 274,
     279, 281, 284, 304]

/-- **F1**: at each of these 169 scales `math.Pow10(n)` (`F64.pow10`) is not the double nearest to `10^n`
    (`nearestPow10`); e.g. `0x…C99D` against the nearest `0x…C99C` at 33.  (That it is the nearest double at all other
    scales is an evaluation, `#eval`, not a theorem — 40 s of kernel time — except near zero, next theorem.) -/
theorem pow10_not_nearest :
    notNearest.length = 169 ∧ (∀ s ∈ notNearest, F64.pow10 s ≠ nearestPow10 s) ∧
    F64.pow10 33 = b 0x46C8A6E32246C99D ∧ nearestPow10 33 = b 0x46C8A6E32246C99C ∧
    F64.pow10 (-23) = b 0x3B282DB34012B252 ∧ nearestPow10 (-23) = b 0x3B282DB34012B251 := by
  decide +kernel

/-- on −22 … 32 `math.Pow10` is the nearest double (for 0 … 22 it is exact: `DecimalMethod.RatioFacts.exact`) -/
theorem pow10_nearest_near_zero :
    ∀ i : Nat, i < 55 → F64.pow10 ((i : Int) - 22) = nearestPow10 ((i : Int) - 22) := by
  decide +kernel

/-- **F1 through the method**: `2e-33` at scale 33 becomes `1.9999999999999998e-33`, `3e23` at scale −23 becomes
    `2.9999999999999997e+23` (Go: `$.decimal(50,33)`, `$.decimal(50,-23)`); with the nearest ratio both would be unchanged -/
theorem inexact_ratio_is_visible :
    decimalRound (b 0x3924C4E977BA1F5C) (F64.pow10 33) = b 0x3924C4E977BA1F5B ∧
    decimalRound (b 0x3924C4E977BA1F5C) (nearestPow10 33) = b 0x3924C4E977BA1F5C ∧
    decimalRound (b 0x44CFC3842BD1F072) (F64.pow10 (-23)) = b 0x44CFC3842BD1F071 ∧
    decimalRound (b 0x44CFC3842BD1F072) (nearestPow10 (-23)) = b 0x44CFC3842BD1F072 := by decide +kernel

/-- **F2, repaired**: `.decimal(1000, -308)` on `MaxFloat64` — the rounded value is `+Inf` — is the suppressible error -/
theorem neg_scale_overflow_is_error :
    decimalRound maxF (F64.pow10 (-308)) = .inf false ∧
    executeDecimalMethod (arg 1000) (arg (-308)) maxF = .error .verbose := by
  have h1 : decimalRound maxF (F64.pow10 (-308)) = .inf false := by decide +kernel
  refine ⟨h1, ?_⟩
  apply exec_err_of_inf 1000 (-308) _ _ _ rfl rfl (by decide) (by decide) (by decide) (by decide)
  rw [h1]; rfl

/-- the scales among −308…−290 at which `MaxFloat64` takes the error branch (a Go program finds exactly these nine among
    all of −308…−1) -/
theorem neg_scale_overflow_scales :
    (((List.range 19).map (fun (i : Nat) => -(i : Int) - 290)).filter
      (fun s => (decimalRound maxF (F64.pow10 s)).isInf)) = [-293, -294, -298, -299, -304, -305, -306, -307, -308] := by
  decide +kernel

/-- **F3**: beyond scale 22 a value is not a fixed point: `1e-33` at scale 33 becomes `9.999999999999999e-34`; and the
    nearest ratio would not cure it: `1e-34` at scale 34 would become `1.0000000000000001e-34` -/
theorem not_idempotent_beyond_22 :
    decimalRound (b 0x3914C4E977BA1F5C) (F64.pow10 33) = b 0x3914C4E977BA1F5B ∧
    decimalRound (b 0x38E09D8792FB4C49) (nearestPow10 34) = b 0x38E09D8792FB4C4A := by decide +kernel

/-- **F3, inside the exact range**: the hypothesis `K < 2^53` of `decimal_unchanged` cannot be dropped — `0.1234567` has
    seven decimals, `10^22` is a double, yet `.decimal(1000, 22)` returns the neighbour `0.12345669999999999` (Go too) -/
theorem unchanged_needs_small_scaled_value :
    decimalRound (b 0x3FBF9ADBB8F8DA72) (F64.pow10 22) = b 0x3FBF9ADBB8F8DA71 := by decide +kernel

/-- D17b, second face: with `scale > precision` nothing is checked for values below one: `.decimal(2,5)` accepts `0.5` -/
theorem small_value_any_scale_accepted :
    executeDecimalMethod (arg 2) (arg 5) (b 0x3FE0000000000000) = .ok (b 0x3FE0000000000000) :=
  exec_ok_of 2 5 _ _ _ _ rfl rfl (by decide) (by decide) (by decide) (by decide)
    (by decide +kernel) (by decide +kernel) (by decide +kernel)

end Findings

/-! ## Examples: the hypotheses are satisfiable, the conclusions are what Go prints -/

namespace Examples
open Findings

/-- D37, first witness: `1e300` at `(1000, 10)`: the product overflows, `Pow10(10)` is finite — the hypotheses of
    `decimal_overflow_unchanged` — and the method returns `1e300` -/
example : (F64.mul (b 0x7E37E43C8800759C) (F64.pow10 10)).isInf = true ∧ (F64.pow10 10).isFinite = true ∧
    (b 0x7E37E43C8800759C).isFinite = true ∧ F64.WF (b 0x7E37E43C8800759C) := by decide +kernel

example : executeDecimalMethod (arg 1000) (arg 10) (b 0x7E37E43C8800759C) = .ok (b 0x7E37E43C8800759C) :=
  exec_ok_of 1000 10 _ _ _ _ rfl rfl (by decide) (by decide) (by decide) (by decide)
    (decimal_overflow_unchanged _ 10 (by decide +kernel) (by decide +kernel) (by decide +kernel) (by decide +kernel)).1
    (by decide +kernel) (by decide +kernel)

/-- D37, second witness: `2` at `(1000, 308)` -/
example : (F64.mul (b 0x4000000000000000) (F64.pow10 308)).isInf = true ∧ (F64.pow10 308).isFinite = true := by
  decide +kernel

example : executeDecimalMethod (arg 1000) (arg 308) (b 0x4000000000000000) = .ok (b 0x4000000000000000) :=
  exec_ok_of 1000 308 _ _ _ _ rfl rfl (by decide) (by decide) (by decide) (by decide)
    (by decide +kernel) (by decide +kernel) (by decide +kernel)

/-- `123.456` at `(4, 1)` is `123.5` -/
theorem ex_123 : executeDecimalMethod (arg 4) (arg 1) (b 0x405EDD2F1A9FBE77) = .ok (b 0x405EE00000000000) :=
  exec_ok_of 4 1 _ _ _ _ rfl rfl (by decide) (by decide) (by decide) (by decide)
    (by decide +kernel) (by decide +kernel) (by decide +kernel)

/-- … and the theorems instantiated on it: finite, and within the bound -/
example : (b 0x405EE00000000000).isFinite = true :=
  decimal_finite _ _ _ _ 1 (by decide +kernel) (by decide +kernel) rfl (by decide) (by decide) ex_123

example :
    2 ^ 51 * 10 ^ (1 : Int).toNat * (Rounding.num (b 0x405EE00000000000) * (den (b 0x405EDD2F1A9FBE77) : Int) -
        Rounding.num (b 0x405EDD2F1A9FBE77) * (den (b 0x405EE00000000000) : Int)).natAbs ≤
      (2 ^ 50 + 2) * 10 ^ (-(1 : Int)).toNat * (den (b 0x405EE00000000000) * den (b 0x405EDD2F1A9FBE77)) +
        10 ^ (1 : Int).toNat * (Rounding.num (b 0x405EDD2F1A9FBE77)).natAbs * den (b 0x405EE00000000000) :=
  (decimal_accuracy _ _ _ _ 1 (by decide +kernel) (by decide +kernel) rfl (by decide) (by decide) ex_123).1

/-- `123.5` has one decimal and `1235 < 2^53`: the hypotheses of `decimal_unchanged` at scale 1 -/
example : (Rounding.num (b 0x405EE00000000000)).natAbs * 10 ^ (1 : Int).toNat = 1235 * den (b 0x405EE00000000000) := by
  decide +kernel

/-- `99.999` at `(4, 2)` rounds to `100` — three integer digits but only one of them non-zero, `1 ≤ 4 − 2`: ACCEPTED
    (D17b; PostgreSQL's `numeric(4,2)` rejects it).  Go returns `100`. -/
example : executeDecimalMethod (arg 4) (arg 2) (b 0x4058FFEF9DB22D0E) = .ok (b 0x4059000000000000) :=
  exec_ok_of 4 2 _ _ _ _ rfl rfl (by decide) (by decide) (by decide) (by decide)
    (by decide +kernel) (by decide +kernel) (by decide +kernel)

/-- a value that IS rejected by the digit check: `99.994` at `(3, 2)` rounds to `99.99`: two non-zero integer digits
    against `3 − 2 = 1`: the suppressible error (Go: the same) -/
example : executeDecimalMethod (arg 3) (arg 2) (b 0x4058FF9DB22D0E56) = .error .verbose :=
  exec_err_of_rejected 3 2 _ _ _ rfl rfl (by decide) (by decide) (by decide) (by decide) (by decide +kernel)

/-- D17b: `100` at `(2, 0)` is accepted; its integer digits are `1 0 0`: three digits, two of them zero -/
example : executeDecimalMethod (arg 2) (arg 0) (b 0x4059000000000000) = .ok (b 0x4059000000000000) :=
  exec_ok_of 2 0 _ _ _ _ rfl rfl (by decide) (by decide) (by decide) (by decide)
    (by decide +kernel) (by decide +kernel) (by decide +kernel)

example : b 0x4059000000000000 = .fin false 7036874417766400 (-46) ∧
    intDigits 7036874417766400 (-46) = ['1', '0', '0'] := by decide +kernel

/-- the right-hand side of `accepted_though_too_long_iff` on it: `3 − 2 ≤ 2` zeros and `2 < 3` digits -/
example : (((intDigits 7036874417766400 (-46)).length : Int) - (2 - 0) ≤
      (((intDigits 7036874417766400 (-46)).filter (fun c => c == '0')).length : Int) ∧
    (2 : Int) - 0 < ((intDigits 7036874417766400 (-46)).length : Int)) := by decide +kernel

/-- D17c: `1` at `(2, 309)` is NaN — an instance of the general theorem -/
example : executeDecimalMethod (arg 2) (arg 309) (b 0x3FF0000000000000) = .ok .nan :=
  decimal_scale_above_308_nan _ _ 2 309 _ rfl (by decide) (by decide) rfl (by decide) (by decide)

example : executeDecimalMethod (arg 2) (arg (-324)) (b 0) = .ok .nan :=
  decimal_scale_below_minus323_nan _ _ 2 (-324) _ rfl (by decide) (by decide) rfl (by decide) (by decide)

/-- scale −309 on `MaxFloat64`: zero (Go: `0`) -/
example : executeDecimalMethod (arg 2) (arg (-309)) maxF = .ok (.fin false 0 F64.minExp) :=
  decimal_tiny_scale _ _ 2 (-309) false _ _ (by decide +kernel) rfl (by decide) (by decide) rfl (by decide) (by decide)

/-- scale −295 on `MaxFloat64` does not overflow: `1.7976931348623e+308` (Go: the same bits) -/
example : executeDecimalMethod (arg 1000) (arg (-295)) maxF = .ok (b 0x7FEFFFFFFFFFFFB0) :=
  exec_ok_of 1000 (-295) _ _ _ _ rfl rfl (by decide) (by decide) (by decide) (by decide)
    (by decide +kernel) (by decide +kernel) (by decide +kernel)

end Examples

end Sqljson.C16d
