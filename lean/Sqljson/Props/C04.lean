import Sqljson.Props.ParseLemmas
/-!
# C04 — `Parse` is total: a path or a parse error, never a panic, for any input

Statements are about `Parse.parse o bytes`, the model of `parser.Parse(string(bytes))`
(`Model/Lex.lean`, `Model/Parse.lean`), for every instance `o` of the oracles (`xid.Start`,
`xid.Continue`, `strconv.IsPrint`, `unicode.ToLower`, `regexp/syntax.Parse`) and every byte string.

Proved (general, all inputs):
* `parse_never_panics`      — `parse o bytes ≠ panic`.  The only panic sites the grammar actions can
  reach are `ast.NewInteger` / `ast.NewNumeric` inside `ast.NewUnaryOrNumber`, which re-parse the
  negated literal text; the proof carries the invariant that such a literal is `r` or `-r` for a
  token text `r` that starts with a digit or a dot (`lex_num`) and that `strconv` accepts with and
  without the sign (`parseInt0_neg`, `parseFloatFinite_neg`).
* `parse_total`             — every input is answered with `ok a` or `err`.
* `never_both_nil`          — when `pathParse` ends without a result an error is on record, so the
  answer is Go's `(nil, error)`.
* `accepted_is_valid`, `accepted_obeys_rules` — an accepted tree passes `validateNode`: no `@` at
  filter depth 0, no `last` outside an array subscript.
* `accepted_was_read_completely`, `rejects_nul`, `rejects_invalid_utf8` — an accepted input was read
  to its end and contains neither a NUL byte nor a byte sequence `utf8.DecodeRune` rejects.
* `error_is_final`          — an error, once recorded, is never cleared by the lexer.
* `error_means_rejected`    — if the final state has an error on record the answer is `err`.

Proved (concrete evaluations on the ASCII oracle instance; all agree with the Go package):
* `negated_negative_literal`, `out_of_range_literals_rejected`, `error_placeholders_are_nodes`,
  `no_panic_after_lex_error`, `private_use_runes_rejected`, `out_of_range_escape_rejected` — the
  inputs on which the pinned code panicked or misbehaved now yield a value or `err`.

Not proved here:
* that the fuel of the model always suffices (guarded: `Parse.ranOutOfFuel`, checked on every
  correspondence case);
* rejection of each malformed number / escape / string / comment form as a general statement
  (covered by the correspondence runs: 1.3 M enumerated + 600 k random cases, 0 disagreements);
* `like_regex`: accepted patterns compile by construction of `mkRegex` (`regexAccepts` is consulted);
  that `regexAccepts` is Go's `syntax.Parse` is the oracle's contract, not a theorem;
* `MustParse` / `Scan` / `UnmarshalText` wrappers (one-line wrappers around `Parse`, not modelled).
-/

namespace Sqljson
namespace C04
open Parse ParseLemmas

/-- **`Parse` never panics** -/
theorem parse_never_panics (o : Oracles) (bytes : List UInt8) : parse o bytes ≠ .panic :=
  ParseLemmas.parse_never_panics o bytes

/-- every input is answered with a path or with an error -/
theorem parse_total (o : Oracles) (bytes : List UInt8) :
    (∃ a, parse o bytes = .ok a) ∨ parse o bytes = .err := by
  cases h : parse o bytes with
  | ok a => exact Or.inl ⟨a, rfl⟩
  | err => exact Or.inr rfl
  | panic => exact absurd h (ParseLemmas.parse_never_panics o bytes)

/-- `pathParse` ends without a result only with an error on record ("never both nil") -/
theorem never_both_nil (o : Oracles) (bytes : List UInt8) (s : PS)
    (h : Parse.run o bytes = .ok none s) : s.lx.err = true :=
  ParseLemmas.run_none_error o bytes s h

/-- an accepted tree passes `validateNode` -/
theorem accepted_is_valid (o : Oracles) (bytes : List UInt8) (a : AST) (h : parse o bytes = .ok a) :
    validate a.root = true :=
  ParseLemmas.parse_ok_wf o bytes a h

/-- no `@` at filter depth 0 and no `last` outside a subscript in an accepted tree -/
theorem accepted_obeys_rules (o : Oracles) (bytes : List UInt8) (a : AST) (h : parse o bytes = .ok a) :
    currentOK a.root 0 = true ∧ lastOK a.root false = true :=
  ParseLemmas.parse_ok_rules o bytes a h

/-- an accepted input was read to its end, and none of it was an undecodable byte or NUL -/
theorem accepted_was_read_completely (o : Oracles) (bytes : List UInt8) (a : AST)
    (h : parse o bytes = .ok a) : (Lex.decodeAll bytes).all cleanSrc = true :=
  ParseLemmas.parse_ok_clean o bytes a h

/-- an input that contains a NUL byte is rejected -/
theorem rejects_nul (o : Oracles) (bytes : List UInt8) (h0 : (0 : UInt8) ∈ bytes) (a : AST) :
    parse o bytes ≠ .ok a :=
  ParseLemmas.rejects_nul o bytes h0 a

/-- an input that is not valid UTF-8 is rejected -/
theorem rejects_invalid_utf8 (o : Oracles) (bytes : List UInt8)
    (hb : Lex.Src.bad ∈ Lex.decodeAll bytes) (a : AST) : parse o bytes ≠ .ok a :=
  ParseLemmas.rejects_invalid_utf8 o bytes hb a

/-- the lexer never clears a recorded error -/
theorem error_is_final (o : Oracles) (s : Lex.LState) (h : s.err = true) : (Lex.lex o s).2.2.err = true :=
  ParseLemmas.lex_err_mono o s h

/-- a recorded error at the end means the input is rejected -/
theorem error_means_rejected (o : Oracles) (bytes : List UInt8) (r : Option AST) (s : PS)
    (hr : Parse.run o bytes = .ok r s) (he : s.lx.err = true) : parse o bytes = .err :=
  ParseLemmas.parse_err_of_error_recorded o bytes r s hr he

/-! ## the repaired defects, concretely -/

theorem negated_negative_literal :
    run "--1" = "1" ∧ run "-(-1)" = "1" ∧ run "-(+(-1))" = "1" ∧ run "--1.5" = "1.5" ∧
    run "- - -1" = "-1" := ParseLemmas.negated_negative_literal

theorem out_of_range_literals_rejected :
    run "9223372036854775808" = "ERR" ∧ run "-9223372036854775808" = "ERR" ∧
    run "9223372036854775807" = "9223372036854775807" ∧ run "-9223372036854775807" = "-9223372036854775807" ∧
    run "1e400" = "ERR" ∧ run "$.decimal(9223372036854775808)" = "ERR" ∧
    run "$.time(99999999999999999999)" = "ERR" := ParseLemmas.out_of_range_literals_rejected

theorem error_placeholders_are_nodes :
    run "$.decimal(1,2,3)" = "ERR" ∧ run "$.decimal(1,2,3).\"a\"" = "ERR" ∧
    run "$.decimal(1,2,3)[0]" = "ERR" ∧
    run "$ like_regex \"a\" flag \"x\"" = "ERR" ∧ run "($ like_regex \"a\" flag \"x\").\"a\"" = "ERR" :=
  ParseLemmas.error_placeholders_are_nodes

theorem no_panic_after_lex_error :
    outcome (parse asciiOracles (ascii "$ " ++ [0] ++ ascii " + 9223372036854775808")) = "ERR" ∧
    outcome (parse asciiOracles (ascii "$ " ++ [0] ++ ascii " + --1")) = "ERR" :=
  ParseLemmas.no_panic_after_lex_error

theorem private_use_runes_rejected :
    outcome (parse asciiOracles (ascii "$[1 " ++ [0xEE, 0x80, 0x82] ++ ascii " 2]")) = "ERR" ∧
    outcome (parse asciiOracles [0xEE, 0x80, 0x8C]) = "ERR" ∧
    outcome (parse asciiOracles (ascii "$ " ++ [0xEE, 0x80, 0x91] ++ ascii " 1")) = "ERR" :=
  ParseLemmas.private_use_runes_rejected

theorem out_of_range_escape_rejected :
    run "\"\\u{110000}\"" = "ERR" ∧ run "\"\\u{ffffff}\"" = "ERR" ∧
    run "\"\\u{10ffff}\"" = "\"\\u{10ffff}\"" := ParseLemmas.out_of_range_escape_rejected

end C04
end Sqljson
