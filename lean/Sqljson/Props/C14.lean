import Sqljson.Lemmas.ApiGood
/-!
# C14 — Array subscripts select by position, with `last`, ranges and lists

* `index_literal`: a literal integer subscript bound evaluates to that integer (uncancelled run);
  `index_range`: bounds outside int32 are the (suppressible) error in both modes; `index_trunc`: a
  double bound is truncated toward zero;
* `last_is_size_minus_one`: inside a subscript of an array of length `n`, `last` is `n - 1`
  (`execArrayIndex` sets the innermost size to the length of *its* array, and restores the outer one
  on exit — `C09.last_after_subscript`);
* `subscript_bounds`: for bounds `from`, `to`: strict mode (structural errors not ignored) reports
  the out-of-bounds error exactly when `from < 0 ∨ from > to ∨ to ≥ n`; otherwise (and always in lax
  mode) the bounds are clipped to `0 .. n-1`;
* `slice_positions`: the elements selected by clipped bounds are exactly positions `from..to`;
* `lax_wrap`: in lax mode a non-array is subscripted as the one-element array of itself;
  `strict_non_array`: in strict mode it is the structural error — unless structural errors are
  ignored (below `.**`), where the item is skipped (`strict_non_array_below_any`, repair D31);
* `select_nulls_dropped_counterexample` (known finding D6, pinned by the suite's own test
  `TestExecArrayIndex/skip_nil`): a selected JSON `null` element is dropped, so the full statement
  "JSON null elements included" is false of the code; `elem_step_non_null` is the partial statement.
-/

namespace Sqljson
namespace C14
open Exec Api Num

/-- an integer literal evaluates to itself (context never done) -/
theorem literal_eval (c : Ctx) (fuel : Nat) (s : St) (i : Int) (v : Item) (u : Bool) (hb : s.budget = none) :
    xItem c (fuel + 1) s (.integer i none) v (some []) u = ⟨s, some [.int i], .ok, none⟩ := by
  simp [xItem, poll, hb, dispatch, execLiteral, executeNextItem, Found.append]

theorem index_literal (c : Ctx) (fuel : Nat) (s : St) (i : Int) (v : Item) (hb : s.budget = none)
    (hi : inInt32 i = true) :
    getArrayIndex c (xItem c (fuel + 1)) s (.integer i none) v = (s, .ok i) := by
  unfold getArrayIndex executeItem
  rw [literal_eval c fuel s i v c.lax hb]
  simp [getJSONInt32, hi]

/-- a bound outside the int32 range is the suppressible subscript error, lax or strict -/
theorem index_range (c : Ctx) (fuel : Nat) (s : St) (i : Int) (v : Item) (hb : s.budget = none)
    (hi : inInt32 i = false) :
    getArrayIndex c (xItem c (fuel + 1)) s (.integer i none) v = (s, .error .verbose) := by
  unfold getArrayIndex executeItem
  rw [literal_eval c fuel s i v c.lax hb]
  simp [getJSONInt32, hi]

/-- a finite double bound is truncated toward zero (then range-checked) -/
theorem index_trunc (f : F64) (h1 : f.isInf = false) (h2 : f.isNaN = false) :
    getJSONInt32 (.flt f) = (if inInt32 (F64.toInt64 f) then .ok (F64.toInt64 f) else .error .verbose) := by
  simp [getJSONInt32, h1, h2]

theorem index_not_number (v : Item) (h : isNumber v = false) : getJSONInt32 v = .error .verbose := by
  cases v <;> simp_all [getJSONInt32, isNumber]

/-- inside the subscript list of an array of length `n`, `last` denotes `n - 1` -/
theorem last_is_size_minus_one (c : Ctx) (item : ItemK) (s : St) (l : List Item) (n : Nat)
    (hn : s.innermost = n) :
    execLastConst c item s none (some l) = ⟨s, some (l ++ [.int ((n : Int) - 1)]), .ok, none⟩ := by
  unfold execLastConst
  have : ¬ s.innermost < 0 := by omega
  simp [this, executeNextItem, Found.append, hn]

/-- `last` outside a subscript is the non-suppressible error -/
theorem last_outside (c : Ctx) (item : ItemK) (s : St) (nx : Option Node) (f : Found) (h : s.innermost < 0) :
    execLastConst c item s nx f = ⟨s, f, .failed, some (.hard .lastOutside)⟩ := by
  simp [execLastConst, h]

/-- the bound logic of `execSubscript`, given the two evaluated bounds -/
def boundsOf (ignoreSE : Bool) (from_ to_ size : Int) : Except Err (Int × Int) :=
  if !ignoreSE && (from_ < 0 || from_ > to_ || to_ ≥ size) then .error .verbose
  else .ok (if from_ < 0 then 0 else from_, if to_ ≥ size then size - 1 else to_)

theorem subscript_bounds (c : Ctx) (fuel : Nat) (s : St) (a b : Int) (v : Item) (size : Int)
    (hb : s.budget = none) (ha : inInt32 a = true) (hbb : inInt32 b = true) :
    execSubscript c (xItem c (fuel + 1)) s (.binary .subscript (some (.integer a none)) (some (.integer b none)) none) v size =
      (s, boundsOf s.ignoreSE a b size) := by
  unfold execSubscript
  simp only [index_literal c fuel s a v hb ha, index_literal c fuel s b v hb hbb, boundsOf]
  split <;> simp_all

theorem subscript_single (c : Ctx) (fuel : Nat) (s : St) (a : Int) (v : Item) (size : Int)
    (hb : s.budget = none) (ha : inInt32 a = true) :
    execSubscript c (xItem c (fuel + 1)) s (.binary .subscript (some (.integer a none)) none none) v size =
      (s, boundsOf s.ignoreSE a a size) := by
  unfold execSubscript
  simp only [index_literal c fuel s a v hb ha, boundsOf]
  split <;> simp_all

/-- strict (structural errors reported): out of bounds ⇔ error -/
theorem strict_oob (from_ to_ size : Int) :
    boundsOf false from_ to_ size = .error .verbose ↔ (from_ < 0 ∨ from_ > to_ ∨ to_ ≥ size) := by
  unfold boundsOf
  by_cases h : from_ < 0 ∨ from_ > to_ ∨ to_ ≥ size
  · have : (from_ < 0 || from_ > to_ || to_ ≥ size) = true := by
      rcases h with h | h | h <;> simp [h]
    simp [this, h]
  · have h' : (from_ < 0 || from_ > to_ || to_ ≥ size) = false := by
      simp only [not_or] at h; simp [h.1, h.2.1, h.2.2]
    simp [h', h]

/-- lax: positions outside `0..n-1` are clipped away, never an error -/
theorem lax_clip (from_ to_ size : Int) :
    boundsOf true from_ to_ size = .ok (max from_ 0, min to_ (size - 1)) := by
  unfold boundsOf
  simp only [Bool.not_true, Bool.false_and, Bool.false_eq_true, if_false]
  congr 2
  · split <;> omega
  · split <;> omega

/-- the selected elements are exactly the positions `from..to` (already clipped), in order -/
theorem slice_positions (xs : List Item) (a b : Nat) (hab : a ≤ b) (hb : b < xs.length) :
    (sliceRange xs a b).length = b - a + 1 ∧
    ∀ i, i < b - a + 1 → (sliceRange xs a b)[i]? = xs[a + i]? := by
  unfold sliceRange
  have h1 : ¬ ((a : Int) > b) := by omega
  have h2 : ((b : Int) - a + 1).toNat = b - a + 1 := by omega
  simp only [h1, if_false, Int.toNat_natCast, h2]
  constructor
  · simp; omega
  · intro i hi
    simp [List.getElem?_take, hi]

theorem slice_empty (xs : List Item) (a b : Int) (h : a > b) : sliceRange xs a b = [] := by
  simp [sliceRange, h]

/-- lax mode: a non-array is subscripted as the one-element array of itself; arrays as themselves -/
theorem lax_wrap (c : Ctx) (v : Item) (hlax : c.lax = true) (hv : v.isArr = false) : arrayOf c v = some [v] := by
  cases v <;> simp_all [arrayOf, Item.isArr]

theorem array_itself (c : Ctx) (xs : List Item) : arrayOf c (.arr xs) = some xs := rfl

/-- strict mode: subscripting a non-array is a *structural* mismatch (repair D31): the error, unless
structural errors are being ignored (below `.**`), in which case the item is skipped -/
theorem strict_non_array_structural (c : Ctx) (item : ItemK) (s : St) (subs : List Node) (nx : Option Node)
    (v : Item) (f : Found) (hstrict : c.lax = false) (hv : v.isArr = false) :
    execArrayIndex c item s subs nx v f = structural s f := by
  have : arrayOf c v = none := by cases v <;> simp_all [arrayOf, Item.isArr]
  simp [execArrayIndex, this]

/-- strict mode, structural errors not ignored: subscripting a non-array is the structural error -/
theorem strict_non_array (c : Ctx) (item : ItemK) (s : St) (subs : List Node) (nx : Option Node) (v : Item)
    (f : Found) (hstrict : c.lax = false) (hig : s.ignoreSE = false) (hv : v.isArr = false) :
    execArrayIndex c item s subs nx v f = returnVerboseError s f := by
  rw [strict_non_array_structural c item s subs nx v f hstrict hv]
  simp [structural, hig]

/-- strict mode below `.**` (structural errors ignored): a subscript on a non-array selects nothing,
and changes neither the state nor the items found so far -/
theorem strict_non_array_below_any (c : Ctx) (item : ItemK) (s : St) (subs : List Node) (nx : Option Node)
    (v : Item) (f : Found) (hstrict : c.lax = false) (hig : s.ignoreSE = true) (hv : v.isArr = false) :
    execArrayIndex c item s subs nx v f = ⟨s, f, .notFound, none⟩ := by
  rw [strict_non_array_structural c item s subs nx v f hstrict hv]
  simp [structural, hig]

/-- one selected non-null element: it is handed to the rest of the chain (appended when there is none) -/
theorem elem_step_non_null (c : Ctx) (item : ItemK) (acc : IAcc) (v : Item) (l : List Item)
    (hr : acc.ret = none) (hf : acc.found = some l) (hv : v ≠ .null) :
    indexElemStep c item none acc v =
      { st := acc.st, found := some (l ++ [v]), res := .ok, err := none, ret := none } := by
  unfold indexElemStep
  simp only [hr, Option.isSome_none, Bool.false_eq_true, if_false]
  cases v <;> simp_all [executeNextItem, Found.append]

/-- D6 (known finding; pinned by the suite's own `TestExecArrayIndex/skip_nil`): a selected JSON
    `null` is skipped, so "JSON null elements included" is false of the code -/
theorem select_nulls_dropped_counterexample (c : Ctx) (item : ItemK) (acc : IAcc) :
    indexElemStep c item none acc .null = acc := by
  unfold indexElemStep
  split <;> rfl

/-- non-vacuity / end to end: `$[1, 0 to 1, last]` on `[10, 20, 30]` -/
example : run .query 20
    ⟨.const .root (some (.arrayIndex
      [.binary .subscript (some (.integer 1 none)) none none,
       .binary .subscript (some (.integer 0 none)) (some (.integer 1 none)) none,
       .binary .subscript (some (.const .last none)) none none] none)), true, false⟩
    (.arr [.int 10, .int 20, .int 30]) {} = .items [.int 20, .int 10, .int 20, .int 30] := rfl

end C14
end Sqljson
