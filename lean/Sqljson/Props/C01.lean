import Sqljson.Props.C05
import Sqljson.Props.C06
import Sqljson.Props.C07
import Sqljson.Props.C08
import Sqljson.Props.C09
import Sqljson.Props.C10
import Sqljson.Props.C11
import Sqljson.Props.C12
import Sqljson.Props.C13
import Sqljson.Props.C14
import Sqljson.Props.C15
import Sqljson.Props.C16
import Sqljson.Props.C17
/-!
# C01 — Query results conform to SQL/JSON path semantics in lax and strict mode

C01 quantifies over everything the executor does; its clauses are the clauses of C05–C17, and this
file claims it as their conjunction (partial — see below), not as a separate refinement theorem:

* "each accessor … contributes the items the rules give it and nothing else": the step-level rule
  theorems of C07 (member/wildcard accessors, lax absorption, strict reporting), C14 (subscripts),
  C15 (`.*`, `[*]`, `.**{a to b}` = pre-order filtered by depth, each node once), C10 (filters), C16
  (item methods), C17 (datetime methods), C13 (arithmetic), C11/C12 (predicates, comparisons);
* "values and order": `C09.append_only` (results are only ever appended, never altered or
  reordered), `C15.descend_preorder`, `C14.slice_positions`, member order = key order (D22 repaired);
* "the error class": `C05.error_means_failed`, `C08.no_verbose_when_silent`, `C08.hard_errors_pass`,
  `C20.never_a_result`, and the per-step `returnVerboseError` / hard-error lemmas;
* "a predicate check expression returns the single true, false or null value of its predicate":
  `top_level` below (from `C11.top_level`).

The structural invariant all of them rest on is `Exec.good_all` (`Lemmas/Good.lean`).

Partial: the statement "Query(path, doc) equals the trace prescribed by a declarative semantics"
for whole paths (a refinement theorem against a separate `Sem`) is not proved; whole-path behaviour
is tied to the code by this property's correspondence streams (every profile and every grid).
Known findings inherited: D6 (a selected JSON null is dropped), D12, D15, D16, D17b–d.
-/

namespace Sqljson
namespace C01
open Exec Api

/-- a top-level predicate yields exactly one item: `true`, `false` or `null` -/
theorem top_level (c : Ctx) (item : ItemK) (l : List Item) (p : PRes) (h : p.err = none) :
    appendBoolResult c item none (some l) p = ⟨p.st, some (l ++ [predItem p.out]), .ok, none⟩ :=
  C11.top_level c item l p h

/-- Query returns what the collecting run found, or its error — nothing else -/
theorem query_reads_the_run (fuel : Nat) (a : AST) (doc : Item) (o : Opts)
    (hf : (execute fuel a doc o).st.oof = false) (hp : (execute fuel a doc o).st.panicked = false) :
    (∀ e, (execute fuel a doc o).err = some e → queryWith fuel a doc o = .error e) ∧
    ((execute fuel a doc o).err = none → queryWith fuel a doc o = .items ((execute fuel a doc o).found.getD [])) := by
  constructor
  · intro e he; simp [queryWith, guarded, hf, hp, he]
  · intro he; simp [queryWith, guarded, hf, hp, he]

/-- the run starts from the documented initial context: `@` = `$` = the document, no enclosing
    subscript, structural errors ignored exactly in lax mode, verbose unless WithSilent -/
theorem initial_context (a : AST) (doc : Item) (o : Opts) :
    (initSt a doc o).current = doc ∧ (mkCtx a doc o).root = doc ∧ (initSt a doc o).innermost = -1 ∧
    (initSt a doc o).ignoreSE = a.lax ∧ (initSt a doc o).verbose = !o.silent := by
  simp [initSt, mkCtx]

/-- end to end, every node kind in one path (non-vacuity of the model as a whole) -/
example : run .query 60
    ⟨.const .root (some (.key ['a'] (some (.const .anyArray (some (.unary .filter
      (some (.binary .and
        (some (.binary .gt (some (.const .current (some (.key ['b'] none)))) (some (.integer 1 none)) none))
        (some (.unary .exists (some (.const .current (some (.key ['c'] none)))) none)) none))
      (some (.key ['c'] (some (.method .double (some (.method .string none)))))))))))), true, false⟩
    (.obj [(['a'], .arr [.obj [(['b'], .int 1), (['c'], .int 7)], .obj [(['b'], .int 2), (['c'], .int 8)], .obj [(['b'], .int 3)]])]) {} =
    .items [.str ['8']] := rfl

end C01
end Sqljson
