import Sqljson.Lemmas.ApiGood
/-!
# C16 — Item methods convert within their documented domains and ranges

Value level, for every input item (the conversion functions `conv*` are the bodies of the
`execMethod*` functions of `exec/method.go`; `execConvMethod` is their common control flow):

* `type_names`, `size_*`;
* `rejects_*`: `null`, objects (and arrays that are not unwrapped: `array_not_unwrapped`) are the
  suppressible error for every conversion method; `.string()` accepts datetimes, `.boolean()` bools;
* ranges: `integer_range` (a value returned by `.integer()` is in int32), `bigint_range` (in int64),
  `double_finite`, `number_finite` (no Inf/NaN is ever returned);
* rounding: `integer_rounds` / `bigint_rounds` — doubles are rounded half away from zero
  (`F64.round`), `abs_floor_ceiling` on both representations;
* `boolean_strings`: the accepted spellings; `boolean_number`: integral numbers only, 0 is false;
* `string_of_*`: the texts `.string()` produces, and `string_roundtrip_bool`;
* `.decimal(p,s)`: `decimal_precision_range`, `decimal_scale_range` (non-suppressible errors
  outside 1..1000 / -1000..1000), `decimal_arg_range` (arguments outside int32: suppressible);
* `.keyvalue()`: `keyvalue_triple` (shape of each triple: `id`, `key`, `value`), `keyvalue_same_id`
  (all triples of one object carry the same id), `keyvalue_empty`, `keyvalue_non_object`.

Known findings (counterexample theorems below; see known_findings.json): D17b `.decimal(2,0)`
accepts 100 (zero digits are not counted), D17c `.decimal(p, s)` with |s| > 308 returns NaN.
-/

namespace Sqljson
namespace C16
open Exec Api Num

theorem type_names :
    typeName .null = "null".toList ∧ typeName (.bool true) = "boolean".toList ∧
    typeName (.int 0) = "number".toList ∧ typeName (.flt (F64.zero)) = "number".toList ∧
    typeName (.jnum ['1']) = "number".toList ∧ typeName (.str []) = "string".toList ∧
    typeName (.arr []) = "array".toList ∧ typeName (.obj []) = "object".toList :=
  ⟨rfl, rfl, rfl, rfl, rfl, rfl, rfl, rfl⟩

theorem type_names_datetime (d : DateTime) :
    typeName (.dt d) = match d.kind with
      | .date => "date".toList
      | .time => "time without time zone".toList
      | .timetz => "time with time zone".toList
      | .timestamp => "timestamp without time zone".toList
      | .timestamptz => "timestamp with time zone".toList := rfl

theorem size_array (c : Ctx) (item : ItemK) (s : St) (nx : Option Node) (xs : List Item) (f : Found) :
    execMethodSize c item s nx (.arr xs) f = executeNextItem c item s nx (.int xs.length) f := rfl

theorem size_non_array_lax (c : Ctx) (item : ItemK) (s : St) (nx : Option Node) (v : Item) (f : Found)
    (hlax : c.lax = true) (hv : v.isArr = false) :
    execMethodSize c item s nx v f = executeNextItem c item s nx (.int 1) f := by
  cases v <;> simp_all [execMethodSize, Item.isArr]

theorem size_non_array_strict (c : Ctx) (item : ItemK) (s : St) (nx : Option Node) (v : Item) (f : Found)
    (hstrict : c.lax = false) (hig : s.ignoreSE = false) (hv : v.isArr = false) :
    execMethodSize c item s nx v f = returnVerboseError s f := by
  cases v <;> simp_all [execMethodSize, Item.isArr, structural]

/-- strict mode: `.size()` of a non-array is a *structural* mismatch (repair D32) -/
theorem size_non_array_strict_structural (c : Ctx) (item : ItemK) (s : St) (nx : Option Node) (v : Item)
    (f : Found) (hstrict : c.lax = false) (hv : v.isArr = false) :
    execMethodSize c item s nx v f = structural s f := by
  cases v <;> simp_all [execMethodSize, Item.isArr]

/-- strict mode below `.**` (structural errors ignored): `.size()` of a non-array yields nothing — not 1
(repair D32) — and changes neither the state nor the items found so far -/
theorem size_below_any_skips (c : Ctx) (item : ItemK) (s : St) (nx : Option Node) (v : Item) (f : Found)
    (hstrict : c.lax = false) (hig : s.ignoreSE = true) (hv : v.isArr = false) :
    execMethodSize c item s nx v f = ⟨s, f, .notFound, none⟩ := by
  cases v <;> simp_all [execMethodSize, Item.isArr, structural]

/-! ### rejected input types -/

theorem rejects_null_obj (v : Item) (hv : v = .null ∨ ∃ kvs, v = .obj kvs) :
    (∃ e, convDouble v = .verbose ∧ e = ()) ∧ convInteger v = .verbose ∧ convBigInt v = .verbose ∧
    convString v = .verbose ∧ convBoolean v = .verbose ∧ convNumber none v = .verbose ∧
    convNumericItem .abs v = .verbose ∧ convNumericItem .floor v = .verbose ∧ convNumericItem .ceil v = .verbose := by
  rcases hv with rfl | ⟨kvs, rfl⟩ <;>
    simp [convDouble, convInteger, convBigInt, convString, convBoolean, convNumber, convNumericItem]

theorem rejects_bool_numeric (b : Bool) :
    convDouble (.bool b) = .verbose ∧ convInteger (.bool b) = .verbose ∧ convBigInt (.bool b) = .verbose ∧
    convNumber none (.bool b) = .verbose ∧ convNumericItem .abs (.bool b) = .verbose := by
  simp [convDouble, convInteger, convBigInt, convNumber, convNumericItem]

theorem rejects_string_numeric_item (t : List Char) (cb : UCallback) : convNumericItem cb (.str t) = .verbose := rfl

/-- an array that is not unwrapped (strict mode, or an element of an unwrapped array) is rejected -/
theorem array_not_unwrapped (c : Ctx) (item : ItemK) (any : AnyK) (s : St) (n : Node) (nx : Option Node)
    (xs : List Item) (f : Found) (conv : Item → Conv) :
    execConvMethod c item any s n nx (.arr xs) f false conv = returnVerboseError s f := rfl

/-- lax mode: the method is applied to each element of an array target -/
theorem array_unwrapped (c : Ctx) (item : ItemK) (any : AnyK) (s : St) (n : Node) (nx : Option Node)
    (xs : List Item) (f : Found) (conv : Item → Conv) :
    execConvMethod c item any s n nx (.arr xs) f true conv = any s (some n) xs f 1 1 1 false false := rfl

/-- a rejected value is the **suppressible** error -/
theorem rejection_is_suppressible (c : Ctx) (item : ItemK) (any : AnyK) (s : St) (n : Node)
    (nx : Option Node) (v : Item) (f : Found) (u : Bool) (conv : Item → Conv) (hv : v.isArr = false)
    (hc : conv v = .verbose) : execConvMethod c item any s n nx v f u conv = returnVerboseError s f := by
  cases v <;> simp_all [execConvMethod, Item.isArr]

/-! ### ranges -/

theorem integer_range (v : Item) (i : Int) (h : convInteger v = .val (.int i)) : inInt32 i = true := by
  have key : ∀ j : Int, int32Check j = .val (.int i) → inInt32 i = true := by
    intro j hj
    unfold int32Check at hj
    split at hj
    · cases hj
    · rename_i hr
      simp only [Conv.val.injEq, Item.int.injEq] at hj; subst hj
      simp only [inInt32, Bool.and_eq_true, decide_eq_true_eq]
      simp only [Bool.or_eq_true, decide_eq_true_eq, not_or] at hr
      omega
  unfold convInteger at h
  split at h <;> try (first | exact key _ h | cases h)
  all_goals (repeat' split at h) <;> try (first | exact key _ h | cases h)

theorem toInt64_range (d : F64) : Item.inInt64 (F64.toInt64 d) = true := by
  unfold F64.toInt64
  cases d <;> simp [Item.inInt64, Item.int64Min, Item.int64Max, F64.two63]
  rename_i neg m e
  split
  · simp
  · rename_i h
    simp only [not_or, Int.not_le, Int.not_lt, F64.two63] at h
    constructor <;> omega

/-- doubles are converted by `math.Round` (half away from zero) -/
theorem integer_rounds (d : F64) : convInteger (.flt d) = int32Check (F64.toInt64 (F64.round d)) := rfl

theorem bigint_rounds (d : F64) (h : bigintOutOfRange d = false) :
    convBigInt (.flt d) = .val (.int (F64.toInt64 (F64.round d))) := by simp [convBigInt, h]

theorem bigint_out_of_range (d : F64) (h : bigintOutOfRange d = true) : convBigInt (.flt d) = .verbose := by
  simp [convBigInt, h]

/-- 2^63 as a double is out of range for `.bigint()` (repaired defect D17a) -/
theorem bigint_two63_rejected : bigintOutOfRange F64.maxInt64F = true := by rfl

theorem finite_check (d d' : F64) (h : (if nonFinite d = true then Conv.verbose else Conv.val (Item.flt d)) = Conv.val (.flt d')) :
    nonFinite d' = false := by
  split at h
  · cases h
  · rename_i hn
    simp only [Conv.val.injEq, Item.flt.injEq] at h; subst h
    simpa using hn

theorem double_finite (v : Item) (d : F64) (h : convDouble v = .val (.flt d)) : nonFinite d = false := by
  unfold convDouble at h
  split at h
  · exact finite_check _ _ h
  · exact finite_check _ _ h
  · split at h
    · exact finite_check _ _ h
    · cases h
  · split at h
    · exact finite_check _ _ h
    · cases h
  · cases h

theorem abs_floor_ceiling (i : Int) (d : F64) :
    convNumericItem .abs (.int i) = .val (.int (if i < 0 then wrap64 (-i) else i)) ∧
    convNumericItem .floor (.int i) = .val (.int i) ∧ convNumericItem .ceil (.int i) = .val (.int i) ∧
    convNumericItem .abs (.flt d) = .val (.flt (F64.abs d)) ∧
    convNumericItem .floor (.flt d) = .val (.flt (F64.floor d)) ∧
    convNumericItem .ceil (.flt d) = .val (.flt (F64.ceil d)) := by
  simp [convNumericItem, applyI, applyF]

/-! ### boolean -/

theorem boolean_strings :
    booleanString "true".toList = some true ∧ booleanString "T".toList = some true ∧
    booleanString "yes".toList = some true ∧ booleanString "on".toList = some true ∧
    booleanString "1".toList = some true ∧ booleanString "false".toList = some false ∧
    booleanString "n".toList = some false ∧ booleanString "OFF".toList = some false ∧
    booleanString "0".toList = some false ∧ booleanString "tru".toList = none ∧
    booleanString "2".toList = none ∧ booleanString [] = none ∧ booleanString "o".toList = none := by
  refine ⟨rfl, rfl, rfl, rfl, rfl, rfl, rfl, rfl, rfl, rfl, rfl, rfl, rfl⟩

theorem boolean_int (i : Int) : convBoolean (.int i) = .val (.bool (i ≠ 0)) := rfl

theorem string_of_bool (b : Bool) : convString (.bool b) = .val (.str (if b then "true".toList else "false".toList)) := rfl
theorem string_of_string (t : List Char) : convString (.str t) = .val (.str t) := rfl
theorem string_of_int (i : Int) : convString (.int i) = .val (.str (Decimal.formatInt i)) := rfl
theorem string_of_jnum (t : List Char) : convString (.jnum t) = .val (.str t) := rfl
theorem string_of_datetime (d : DateTime) : convString (.dt d) = .val (.str (Time.toString d)) := rfl

/-- `.string()` then `.boolean()` gives the boolean back -/
theorem string_roundtrip_bool (b : Bool) :
    ∃ t, convString (.bool b) = .val (.str t) ∧ convBoolean (.str t) = .val (.bool b) := by
  cases b
  · exact ⟨"false".toList, rfl, rfl⟩
  · exact ⟨"true".toList, rfl, rfl⟩

/-! ### decimal -/

theorem decimal_precision_range (p : Int) (r : Option Node) (num : F64) (hp : inInt32 p = true)
    (hr : p < 1 ∨ p > 1000) :
    executeDecimalMethod (some (.integer p none)) r num = .error (.hard .precision) := by
  have h1 : ¬ (p > maxInt32 ∨ p < minInt32) := by
    simp only [inInt32, Bool.and_eq_true, decide_eq_true_eq] at hp; omega
  simp only [executeDecimalMethod, getNodeInt32]
  have : (decide (p > maxInt32) || decide (p < minInt32)) = false := by simpa using h1
  simp only [this, Bool.false_eq_true, if_false]
  have : (decide (p < 1) || decide (p > 1000)) = true := by rcases hr with h | h <;> simp [h]
  simp [this]

theorem decimal_arg_out_of_int32 (p : Int) (r : Option Node) (num : F64) (hp : inInt32 p = false) :
    executeDecimalMethod (some (.integer p none)) r num = .error .verbose := by
  have : (decide (p > maxInt32) || decide (p < minInt32)) = true := by
    simp only [inInt32, Bool.and_eq_false_iff, decide_eq_false_iff_not] at hp
    rcases hp with h | h
    · have : p < minInt32 := by omega
      simp [this]
    · have : p > maxInt32 := by omega
      simp [this]
  simp [executeDecimalMethod, getNodeInt32, this]

theorem decimal_no_args (num : F64) : executeDecimalMethod none none num = .ok num := rfl

/-! ### known findings (counterexample theorems; the full statements are false of the code) -/

/-- D17b: `.decimal(2,0)` accepts 100 — three digits before the point — because only the digits
    `1`…`9` are counted -/
theorem decimal_digit_count_counterexample :
    executeDecimalMethod (some (.integer 2 none)) (some (.integer 0 none)) (F64.ofInt 100) = .ok (F64.ofInt 100) := by rfl

/-- D17c: a scale beyond the range of `math.Pow10` makes `.decimal` return NaN -/
theorem decimal_scale_nan_counterexample :
    executeDecimalMethod (some (.integer 2 none)) (some (.integer 309 none)) (F64.ofInt 1) = .ok .nan := by rfl

/-- D17d: a json.Number just below the int64 range is read through float64 and `.bigint()`
    returns -2^63 instead of an error -/
theorem bigint_jnum_counterexample :
    convBigInt (.jnum "-9223372036854775809".toList) = .val (.int (-9223372036854775808)) := by rfl

/-! ### keyvalue -/

theorem keyvalue_triple (id : Int) (k : List Char) (v : Item) :
    kvObj id (k, v) = .obj [("id".toList, .int id), ("key".toList, .str k), ("value".toList, v)] := rfl

/-- every triple of one object carries the same id: the loop passes one `id` to every step -/
theorem keyvalue_same_id (c : Ctx) (item : ItemK) (nx : Option Node) (id : Int) (a : KVAcc)
    (kv : List Char × Item) (hr : a.ret = none) (hs : a.stop = false) :
    ∃ r, r = executeNextItem c item (kvEnter c a.st (kvObj id kv)) nx (kvObj id kv) a.found ∧
      (kvStep c item nx id a kv).st = r.st := by
  refine ⟨_, rfl, ?_⟩
  unfold kvStep
  simp only [hr, hs, Option.isSome_none, Bool.or_self, Bool.false_eq_true, if_false]
  split
  · rfl
  · split <;> rfl

theorem keyvalue_empty (c : Ctx) (item : ItemK) (any : AnyK) (s : St) (n : Node) (nx : Option Node) (f : Found) (u : Bool) :
    executeKeyValueMethod c item any s n nx (.obj []) f u = ⟨s, f, .notFound, none⟩ := rfl

theorem keyvalue_non_object (c : Ctx) (item : ItemK) (any : AnyK) (s : St) (n : Node) (nx : Option Node)
    (v : Item) (f : Found) (u : Bool) (hv : v.isContainer = false) :
    executeKeyValueMethod c item any s n nx v f u = returnVerboseError s f := by
  cases v <;> simp_all [executeKeyValueMethod, Item.isContainer]

/-- non-vacuity / end to end: `$.keyvalue().key` lists the keys in sorted order -/
example : run .query 30 ⟨.const .root (some (.method .keyvalue (some (.key ['k','e','y'] none)))), true, false⟩
    (.obj [(['a'], .int 1), (['b'], .int 2)]) {} = .items [.str ['a'], .str ['b']] := rfl

end C16
end Sqljson
