import Sqljson.Lemmas.SemLink
import Sqljson.Props.C01b
import Sqljson.Props.C05b
/-!
# C01 (refinement part, for parser-accepted paths)

`Props/C01b.lean` proves that `exec.Query/First/Match/Exists` return the rendering of the declarative
semantics `Sem.query` — for every `p : Sem.Path` with `p.wf false`, run on the tree `p.toNode`.  Property C01
is about *"every path the parser accepts"*.  `Lemmas/SemLink.lean` shows that the trees the parser model
produces are in the image of `toNode`; this file restates C01b for them.

For every byte string `bytes` with `Parse.parse po bytes = .ok a`:

* `SemLink.parsed_in_sem_iff`  `a.root = toNode p` for some `p` iff `a.root` contains no `.keyvalue()` (the only
                            construct outside `Sem`: its ids depend on addresses and on a counter); then
                            `p = semPath a` (`parsed_semPath`);
* `SemLink.parsed_wf_sem`   `p` satisfies the side conditions `wf`/`nonEmpty` of C01b unless
                            `lastRebinding a.root` (inside a subscript expression a `last` follows a nested
                            subscript in its chain — `$[$[0] ? (@ == last)]`; the executor rebinds it) or
                            `existsEndsInSign a.root` (an operand of `exists(…)` ends in unary `+`/`-`, D8);
* `parsed_query_refines`, `parsed_first_refines`, `parsed_match_refines`, `parsed_exists_refines`:
                            every run of the entry point on `a` that finishes returns the rendering of
                            `Sem.query (mkCtx a doc o) .go (semPath a)`;
  `…_bound` for the computable fuel bound `FuelProps.fuelBound`, `parsed_query_refines_eventually` for all
  sufficiently large fuel.

Side conditions (exactly): accepted; `noKeyvalue a.root`; `lastRebinding a.root = false`;
`existsEndsInSign a.root = false` (both modes: `Path.wf` asks it); for `Exists` in lax mode the path itself
does not end in a unary sign (`endsInSign`, D8 again); `o.budget = none` (the context is never done);
`C05b.OracleRegex po o` — the regex oracle's contract: a pattern the parser's oracle accepts compiles.

`CbOK` of C01b is discharged: comparisons never panic by `IntFloat.intTextIsFloat` (`C05b`); and although
C01b asks that *every* pattern compiles, `OracleRegex` is enough here — the run of an accepted path never panics
(`C05b.parsed_never_panics`), so it is the run under the completed oracle `totalRx` (`SemLink.Rx.queryWith_congr`),
and the patterns of the path are accepted ones, so its meaning is the same under both (`SemLink.query_rx`).

`Ex`: concrete path texts parsed by the model (`decide +kernel`), with the corollaries applied, and an accepted
text for each of the three exclusions.
-/

namespace Sqljson
namespace C01c
open Exec Api Sem SemLink C01b

/-- the path of the declarative semantics that an accepted tree translates (`.nil` if there is none) -/
def semPath (a : AST) : Path := (ofNode a.root).getD .nil

/-- the path itself ends in a unary `+`/`-` (D8: `Exists` in lax mode answers "found" without looking) -/
def endsInSign (n : Node) : Bool := !Exec.Probe.spineOK n

theorem ast_eq {a : AST} {p : Path} (h : p.toNode = some a.root) : C01b.ast p a.lax a.pred = a := by
  cases a
  simp only [C01b.ast] at *
  simp [h]

/-- an accepted tree without `.keyvalue()` is the translation of `semPath a` -/
theorem parsed_semPath (po : Oracles) (bytes : List UInt8) (a : AST) (hp : Parse.parse po bytes = .ok a)
    (hk : noKeyvalue a.root = true) :
    ofNode a.root = some (semPath a) ∧ (semPath a).toNode = some a.root ∧
      C01b.ast (semPath a) a.lax a.pred = a := by
  obtain ⟨p, h1, h2, _⟩ := parsed_path po bytes a hp hk
  have : semPath a = p := by simp [semPath, h1]
  rw [this]
  exact ⟨h1, h2, ast_eq h2⟩

/-- the side conditions of C01b for an accepted tree -/
theorem parsed_side (po : Oracles) (bytes : List UInt8) (a : AST) (hp : Parse.parse po bytes = .ok a)
    (hk : noKeyvalue a.root = true) (hr : lastRebinding a.root = false) (he : existsEndsInSign a.root = false) :
    (semPath a).wf false = true ∧ (semPath a).nonEmpty = true ∧ C01b.ast (semPath a) a.lax a.pred = a := by
  obtain ⟨p, h1, h2, h3, h4⟩ := wfNode_spec (parsed_wf_sem po bytes a hp hk hr he)
  have : semPath a = p := by simp [semPath, h1]
  rw [this]
  exact ⟨h3, h4, ast_eq h2⟩

/-- the spine condition of `exists_refines` from the node -/
theorem parsed_spine (po : Oracles) (bytes : List UInt8) (a : AST) (hp : Parse.parse po bytes = .ok a)
    (hk : noKeyvalue a.root = true) (hs : a.lax = true → endsInSign a.root = false) :
    a.lax = true → (semPath a).spineOK = true := by
  intro hl
  apply spineOK_of_toNode
  rw [(parsed_semPath po bytes a hp hk).2.1]
  simpa [endsInSign, Exec.Probe.spineOKO] using hs hl

/-- for a well-formed path the tree `ast p lax pred` of C01b gives the path back: the theorems below
    specialise to those of C01b -/
theorem semPath_ast {p : Path} {al : Bool} (hw : p.wf al = true) (hne : p.nonEmpty = true) (lax pred : Bool) :
    semPath (C01b.ast p lax pred) = p := by
  obtain ⟨n, hn⟩ := Exec.Refine.toNode_of_nonEmpty hne
  simp [semPath, C01b.ast, hn, ofNode_of_toNode hw hn]

/-! ## the regex oracle

`C01b` asks that *every* `like_regex` pattern compiles (`CbOK.regex`).  For a parsed path only the oracle's
contract `C05b.OracleRegex po o` is needed (a pattern `regexp/syntax.Parse` accepts, `MustCompile` compiles):
the patterns of the path are accepted ones (`SemLink.parse_ok_Shape`, `SemLink.shape_rx`), the run does not
panic (`C05b.parsed_never_panics`), so neither the run (`SemLink.Rx.queryWith_congr`) nor the meaning of the
path (`SemLink.query_rx`) changes when the oracle is completed by `totalRx`. -/

/-- every `like_regex` pattern compiles (the hypothesis of `C01b.cbOK_of_law`) -/
def RegexTotal (o : Opts) : Prop := ∀ p fl t, (o.regexMatch p fl t).isSome = true

theorem cbOK_total (a : AST) (doc : Item) (o : Opts) (h : RegexTotal o) : Exec.Refine.CbOK (mkCtx a doc o) :=
  cbOK_of_law IntFloat.intTextIsFloat _ h

/-- the oracle completed: a pattern that does not compile matches nothing -/
def totalRx (r : List Char → Nat → List Char → Option Bool) : List Char → Nat → List Char → Option Bool :=
  fun p fl t => match r p fl t with
    | some b => some b
    | none => some false

/-- the option set with the completed oracle -/
def totalOpts (o : Opts) : Opts := { o with regexMatch := totalRx o.regexMatch }

theorem totalRx_extends (r : List Char → Nat → List Char → Option Bool) : Rx.Extends r (totalRx r) := by
  intro p fl t b h
  simp [totalRx, h]

theorem totalOpts_total (o : Opts) : RegexTotal (totalOpts o) := by
  intro p fl t
  simp only [totalOpts, totalRx]
  split <;> rfl

theorem totalRx_agree (po : Oracles) (a : AST) (doc : Item) (o : Opts) (hrx : C05b.OracleRegex po o) :
    AgreeOn po.regexAccepts (mkCtx a doc o) (totalRx o.regexMatch) := by
  intro pat fl hp t
  have := hrx pat fl hp t
  show totalRx o.regexMatch pat fl t = o.regexMatch pat fl t
  unfold totalRx
  cases h : o.regexMatch pat fl t with
  | none => rw [h] at this; cases this
  | some b => rfl

/-- the patterns of an accepted path are accepted by the oracle -/
theorem parsed_rxPath (po : Oracles) (bytes : List UInt8) (a : AST) (hp : Parse.parse po bytes = .ok a)
    (hk : noKeyvalue a.root = true) : rxPath po.regexAccepts (semPath a) = true := by
  rw [← rxPath_toNode, (parsed_semPath po bytes a hp hk).2.1]
  exact shape_rx a.root (parse_ok_Shape po bytes a hp)

/-- the meaning of an accepted path is that under the completed oracle -/
theorem parsed_query_total (po : Oracles) (bytes : List UInt8) (a : AST) (hp : Parse.parse po bytes = .ok a)
    (hk : noKeyvalue a.root = true) (doc : Item) (o : Opts) (hrx : C05b.OracleRegex po o) (q : Dialect) :
    Sem.query (mkCtx a doc (totalOpts o)) q (semPath a) = Sem.query (mkCtx a doc o) q (semPath a) :=
  query_rx q (totalRx_agree po a doc o hrx) (semPath a) (parsed_rxPath po bytes a hp hk)

/-! ## the refinement theorems for accepted paths -/

section
variable (po : Oracles) (bytes : List UInt8) (a : AST) (hp : Parse.parse po bytes = .ok a)
  (hk : noKeyvalue a.root = true) (hr : lastRebinding a.root = false) (he : existsEndsInSign a.root = false)
  (doc : Item) (o : Opts) (hrx : C05b.OracleRegex po o) (hb : o.budget = none)
include hp hk hr he hrx hb

/-- **C01 for accepted paths, `exec.Query`**: every run that finishes returns the rendering of the
    declarative semantics of the path -/
theorem parsed_query_refines (fuel : Nat) (hfin : queryWith fuel a doc o ≠ .outOfFuel) :
    queryWith fuel a doc o = renderQuery o.silent (Sem.query (mkCtx a doc o) .go (semPath a)) := by
  obtain ⟨hwf, hne, hast⟩ := parsed_side po bytes a hp hk hr he
  have hnp : queryWith fuel a doc o ≠ .panic := C05b.parsed_never_panics po bytes a hp .query fuel doc o hrx
  have hc := Rx.queryWith_congr fuel a doc o (totalRx o.regexMatch) (totalRx_extends _) hnp hfin
  have h := query_refines_finished (semPath a) hwf hne a.lax a.pred doc (totalOpts o) hb
    (by rw [hast]; exact cbOK_total a doc _ (totalOpts_total o)) fuel (by rw [hast]; exact hc ▸ hfin)
  rw [hast] at h
  rw [← hc]
  exact h.trans (by rw [parsed_query_total po bytes a hp hk doc o hrx]; rfl)

/-- `exec.First` -/
theorem parsed_first_refines (fuel : Nat) (hfin : firstWith fuel a doc o ≠ .outOfFuel) :
    firstWith fuel a doc o = renderFirst o.silent (Sem.query (mkCtx a doc o) .go (semPath a)) := by
  obtain ⟨hwf, hne, hast⟩ := parsed_side po bytes a hp hk hr he
  have hnp : firstWith fuel a doc o ≠ .panic := C05b.parsed_never_panics po bytes a hp .first fuel doc o hrx
  have hc := Rx.firstWith_congr fuel a doc o (totalRx o.regexMatch) (totalRx_extends _) hnp hfin
  have h := first_refines_finished (semPath a) hwf hne a.lax a.pred doc (totalOpts o) hb
    (by rw [hast]; exact cbOK_total a doc _ (totalOpts_total o)) fuel (by rw [hast]; exact hc ▸ hfin)
  rw [hast] at h
  rw [← hc]
  exact h.trans (by rw [parsed_query_total po bytes a hp hk doc o hrx]; rfl)

/-- `exec.Match` -/
theorem parsed_match_refines (fuel : Nat) (hfin : matchWith fuel a doc o ≠ .outOfFuel) :
    matchWith fuel a doc o = renderMatch o.silent (Sem.query (mkCtx a doc o) .go (semPath a)) := by
  obtain ⟨hwf, hne, hast⟩ := parsed_side po bytes a hp hk hr he
  have hnp : matchWith fuel a doc o ≠ .panic := C05b.parsed_never_panics po bytes a hp .match_ fuel doc o hrx
  have hc := Rx.matchWith_congr fuel a doc o (totalRx o.regexMatch) (totalRx_extends _) hnp hfin
  have h := match_refines_finished (semPath a) hwf hne a.lax a.pred doc (totalOpts o) hb
    (by rw [hast]; exact cbOK_total a doc _ (totalOpts_total o)) fuel (by rw [hast]; exact hc ▸ hfin)
  rw [hast] at h
  rw [← hc]
  exact h.trans (by rw [parsed_query_total po bytes a hp hk doc o hrx]; rfl)

/-- `exec.Exists`; in lax mode the path itself must not end in a unary sign (D8) -/
theorem parsed_exists_refines (hs : a.lax = true → endsInSign a.root = false) (fuel : Nat)
    (hfin : existsWith fuel a doc o ≠ .outOfFuel) :
    existsWith fuel a doc o = renderExists a.lax o.silent (Sem.query (mkCtx a doc o) .go (semPath a)) := by
  obtain ⟨hwf, hne, hast⟩ := parsed_side po bytes a hp hk hr he
  have hnp : existsWith fuel a doc o ≠ .panic := C05b.parsed_never_panics po bytes a hp .exists fuel doc o hrx
  have hc := Rx.existsWith_congr fuel a doc o (totalRx o.regexMatch) (totalRx_extends _) hnp hfin
  have h := exists_refines_finished (semPath a) hwf hne a.lax a.pred (parsed_spine po bytes a hp hk hs) doc
    (totalOpts o) hb (by rw [hast]; exact cbOK_total a doc _ (totalOpts_total o)) fuel
    (by rw [hast]; exact hc ▸ hfin)
  rw [hast] at h
  rw [← hc]
  exact h.trans (by rw [parsed_query_total po bytes a hp hk doc o hrx]; rfl)

/-- with the computable fuel bound -/
theorem parsed_query_refines_bound :
    queryWith (FuelProps.fuelBound a doc o) a doc o =
      renderQuery o.silent (Sem.query (mkCtx a doc o) .go (semPath a)) :=
  parsed_query_refines po bytes a hp hk hr he doc o hrx hb _ (FuelProps.fuel_adequate .query a doc o)

theorem parsed_first_refines_bound :
    firstWith (FuelProps.fuelBound a doc o) a doc o =
      renderFirst o.silent (Sem.query (mkCtx a doc o) .go (semPath a)) :=
  parsed_first_refines po bytes a hp hk hr he doc o hrx hb _ (FuelProps.fuel_adequate .first a doc o)

theorem parsed_match_refines_bound :
    matchWith (FuelProps.fuelBound a doc o) a doc o =
      renderMatch o.silent (Sem.query (mkCtx a doc o) .go (semPath a)) :=
  parsed_match_refines po bytes a hp hk hr he doc o hrx hb _ (FuelProps.fuel_adequate .match_ a doc o)

theorem parsed_exists_refines_bound (hs : a.lax = true → endsInSign a.root = false) :
    existsWith (FuelProps.fuelBound a doc o) a doc o =
      renderExists a.lax o.silent (Sem.query (mkCtx a doc o) .go (semPath a)) :=
  parsed_exists_refines po bytes a hp hk hr he doc o hrx hb hs _ (FuelProps.fuel_adequate .exists a doc o)

/-- for all sufficiently large fuel -/
theorem parsed_query_refines_eventually :
    ∃ K, ∀ fuel, K ≤ fuel →
      queryWith fuel a doc o = renderQuery o.silent (Sem.query (mkCtx a doc o) .go (semPath a)) :=
  ⟨FuelProps.fuelBound a doc o, fun fuel hf =>
    parsed_query_refines po bytes a hp hk hr he doc o hrx hb fuel (FuelProps.fuel_adequate_ge .query fuel a doc o hf)⟩

end

/-! ## examples: concrete path texts, parsed by the model -/

namespace Ex
open ParseLemmas (asciiOracles ascii)

/-- a property of the accepted tree (false if the text is rejected) -/
def okAnd (f : AST → Bool) : Parse.ParseOutcome → Bool
  | .ok a => f a
  | _ => false

theorem of_okAnd {f : AST → Bool} {r : Parse.ParseOutcome} (h : okAnd f r = true) :
    ∃ a, r = .ok a ∧ f a = true := by
  cases r with
  | ok a => exact ⟨a, rfl, h⟩
  | err => cases h
  | panic => cases h

/-- all the side conditions on the tree -/
def side (a : AST) : Bool :=
  noKeyvalue a.root && !lastRebinding a.root && !existsEndsInSign a.root && !endsInSign a.root

theorem side_spec {a : AST} (h : side a = true) :
    noKeyvalue a.root = true ∧ lastRebinding a.root = false ∧ existsEndsInSign a.root = false ∧
      endsInSign a.root = false := by
  simpa [side, and_assoc] using h

/-- a list of integer items -/
def intItems : List Item → Option (List Int)
  | [] => some []
  | .int i :: rest => (intItems rest).map (i :: ·)
  | _ :: _ => none

/-- the integers of an error-free outcome -/
def intsOf (o : Sem.Outcome) : Option (List Int) :=
  if o.err.isSome then none else intItems o.items

theorem intItems_spec : ∀ {items : List Item} {xs : List Int}, intItems items = some xs → items = xs.map .int
  | [], xs, h => by simp [intItems] at h; subst h; rfl
  | x :: rest, xs, h => by
    cases x <;> simp [intItems] at h
    obtain ⟨ys, hys, rfl⟩ := h
    simp [intItems_spec hys]

theorem intsOf_spec {o : Sem.Outcome} {xs : List Int} (h : intsOf o = some xs) : o = ⟨xs.map .int, none⟩ := by
  obtain ⟨items, err⟩ := o
  unfold intsOf at h
  cases err with
  | some e => simp at h
  | none =>
    simp only [Option.isSome_none, Bool.false_eq_true, if_false] at h
    rw [intItems_spec h]

/-- the default option set satisfies the oracle's contract (its matcher is total) -/
theorem oracle_default : C05b.OracleRegex asciiOracles {} := fun _ _ _ _ => rfl

/-- `$.a[*] ? (@ > 1)` -/
def txt1 : List UInt8 := ascii "$.a[*] ? (@ > 1)"

theorem side1 : okAnd side (Parse.parse asciiOracles txt1) = true := by decide +kernel

theorem sem1 : okAnd (fun a => intsOf (Sem.query (mkCtx a C01b.Ex.doc1 {}) .go (semPath a)) == some [2])
    (Parse.parse asciiOracles txt1) = true := by decide +kernel

/-- the text `$.a[*] ? (@ > 1)` is accepted and, for its tree `a`, every entry point returns the rendering
    of `Sem.query … (semPath a)`: for every document and every option set whose regex oracle keeps the
    parser's contract and whose context is never done -/
theorem ex1 : ∃ a, Parse.parse asciiOracles txt1 = .ok a ∧
    ∀ (doc : Item) (o : Opts), C05b.OracleRegex asciiOracles o → o.budget = none →
      queryWith (FuelProps.fuelBound a doc o) a doc o =
        renderQuery o.silent (Sem.query (mkCtx a doc o) .go (semPath a)) ∧
      firstWith (FuelProps.fuelBound a doc o) a doc o =
        renderFirst o.silent (Sem.query (mkCtx a doc o) .go (semPath a)) ∧
      matchWith (FuelProps.fuelBound a doc o) a doc o =
        renderMatch o.silent (Sem.query (mkCtx a doc o) .go (semPath a)) ∧
      existsWith (FuelProps.fuelBound a doc o) a doc o =
        renderExists a.lax o.silent (Sem.query (mkCtx a doc o) .go (semPath a)) := by
  obtain ⟨a, hp, hs⟩ := of_okAnd side1
  obtain ⟨h1, h2, h3, h4⟩ := side_spec hs
  exact ⟨a, hp, fun doc o hrx hb =>
    ⟨parsed_query_refines_bound asciiOracles txt1 a hp h1 h2 h3 doc o hrx hb,
     parsed_first_refines_bound asciiOracles txt1 a hp h1 h2 h3 doc o hrx hb,
     parsed_match_refines_bound asciiOracles txt1 a hp h1 h2 h3 doc o hrx hb,
     parsed_exists_refines_bound asciiOracles txt1 a hp h1 h2 h3 doc o hrx hb (fun _ => h4)⟩⟩

/-- … on `{"a": [1, 2, null], "b": "x"}` with the default options: `Query` returns `[2]`, by the theorem
    (the semantics is evaluated, the executor is not) -/
theorem ex1_doc1 : ∃ a, Parse.parse asciiOracles txt1 = .ok a ∧
    queryWith (FuelProps.fuelBound a C01b.Ex.doc1 {}) a C01b.Ex.doc1 {} = .items [.int 2] := by
  obtain ⟨a, hp, hs⟩ := of_okAnd side1
  obtain ⟨h1, h2, h3, _⟩ := side_spec hs
  refine ⟨a, hp, ?_⟩
  rw [parsed_query_refines_bound asciiOracles txt1 a hp h1 h2 h3 C01b.Ex.doc1 {} oracle_default rfl]
  have := sem1
  rw [hp] at this
  simp only [okAnd, beq_iff_eq] at this
  rw [intsOf_spec this]
  rfl

/-- `strict $ ? (@ like_regex "^a")`: a path with a pattern — the oracle's contract is all that is asked
    of the option set -/
def txt2 : List UInt8 := ascii "strict $ ? (@ like_regex \"^a\")"

theorem side2 : okAnd side (Parse.parse asciiOracles txt2) = true := by decide +kernel

theorem ex2 : ∃ a, Parse.parse asciiOracles txt2 = .ok a ∧
    ∀ (doc : Item) (o : Opts), C05b.OracleRegex asciiOracles o → o.budget = none →
      queryWith (FuelProps.fuelBound a doc o) a doc o =
        renderQuery o.silent (Sem.query (mkCtx a doc o) .go (semPath a)) := by
  obtain ⟨a, hp, hs⟩ := of_okAnd side2
  obtain ⟨h1, h2, h3, _⟩ := side_spec hs
  exact ⟨a, hp, fun doc o hrx hb => parsed_query_refines_bound asciiOracles txt2 a hp h1 h2 h3 doc o hrx hb⟩

/-! ### the three exclusions, on accepted texts -/

/-- `$.keyvalue()` is accepted and is not the translation of a path of `Sem` -/
theorem keyvalue_outside :
    okAnd (fun a => !noKeyvalue a.root && !SemShape a.root) (Parse.parse asciiOracles (ascii "$.keyvalue()")) = true := by
  decide +kernel

/-- the tree of `$[$[0] ? (@ == last)]` -/
def tree3 : Node :=
  .const .root (some (.arrayIndex [.binary .subscript
    (some (.const .root (some (.arrayIndex [.binary .subscript (some (.integer 0 none)) none none]
      (some (.unary .filter (some (.binary .eq (some (.const .current none)) (some (.const .last none)) none)) none))))))
    none none] none))

def isTree3 : Node → Bool
  | .const .root (some (.arrayIndex [.binary .subscript
    (some (.const .root (some (.arrayIndex [.binary .subscript (some (.integer 0 none)) none none]
      (some (.unary .filter (some (.binary .eq (some (.const .current none)) (some (.const .last none)) none)) none))))))
    none none] none)) => true
  | _ => false

theorem isTree3_spec {n : Node} (h : isTree3 n = true) : n = tree3 := by
  unfold isTree3 at h
  split at h
  · rfl
  · cases h

theorem parse3 : okAnd (fun a => isTree3 a.root)
    (Parse.parse asciiOracles (ascii "$[$[0] ? (@ == last)]")) = true := by
  decide +kernel

/-- `$[$[0] ? (@ == last)]`: the filter, and the `last` in it, follow the nested subscript `[0]` — rebinding.
    The text is accepted, its tree is the translation of a path, and that path is not `wf`
    (`C01b.Ex.last_rebinding_example` has a run that differs from the semantics). -/
theorem rebinding_example : ∃ a, Parse.parse asciiOracles (ascii "$[$[0] ? (@ == last)]") = .ok a ∧
    SemShape a.root = true ∧ lastRebinding a.root = true ∧ wfNode a.root = false := by
  obtain ⟨a, hp, h⟩ := of_okAnd parse3
  refine ⟨a, hp, ?_⟩
  rw [isTree3_spec h]
  decide

/-- `$[last]`, `$[0, last - 1].a`: `last` inside its own subscript — no rebinding, all side conditions hold -/
theorem no_rebinding_examples :
    okAnd side (Parse.parse asciiOracles (ascii "$[last]")) = true ∧
    okAnd side (Parse.parse asciiOracles (ascii "$[0, last - 1].a")) = true := by
  decide +kernel

/-- `exists(-$)` (D8: `C01b.Ex.d8_example` has the run that differs) -/
theorem d8_example :
    okAnd (fun a => SemShape a.root && existsEndsInSign a.root && !wfNode a.root)
      (Parse.parse asciiOracles (ascii "exists(-$)")) = true := by
  decide +kernel

end Ex

end C01c
end Sqljson
