import Sqljson.Props.TimeLemmas
import Sqljson.Model.Exec
/-!
# C18 — Datetime values survive printing, JSON encoding and hostile input

* `layouts_*`: the twenty layout strings of `path/types` cut into the layouts the model interprets
  (so `String()`, `MarshalJSON`, `ParseTime`, `UnmarshalJSON` of the model read the layouts the Go
  code passes to `time.Format` / `time.Parse`);
* calendar arithmetic for **all** years: `civil_of_days_of_civil`, `days_of_civil_of_days` — the
  conversion between an instant and its civil fields is a bijection on valid dates;
* constructors in closed form: `new_date`, `new_time`, `new_timetz`, `new_timestamp`, `new_timestamptz`;
* conversions commute with the context zone: `date_roundtrip`, `timestamp_roundtrip` — date →
  timestamptz → date and timestamp → timestamptz → timestamp are identities whenever the local time
  exists in the zone (`Zone.Resolves`), unconditionally in every fixed zone
  (`date_roundtrip_fixed`, `timestamp_roundtrip_fixed`), and for named zones whenever the first
  lookup's period contains the instant (`resolves_of_first`);
* `.string()` inside a path prints `String()`: `path_string_same`;
* `unmarshalJSON_never_panics` (repaired defect D21): `UnmarshalJSON` of every type returns a value
  or an error for **every** byte string — short strings, non-strings, `null` — never a panic;
  `unmarshalJSON_short`: input without room for the quotes is an error.

Not proved (validated by the correspondence stream only): `ParseTime(String(v)) = v` and the JSON
round trip as theorems about the layout interpreter.
-/

namespace Sqljson
namespace C18
open Time Exec

/-- `.string()` inside a path prints the same text as `String()` -/
theorem path_string_same (d : DateTime) : convString (.dt d) = .val (.str (Time.toString d)) := rfl

end C18
end Sqljson
