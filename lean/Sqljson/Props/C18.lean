import Sqljson.Props.TimeLemmas
import Sqljson.Model.Exec
/-!
# C18 — Datetime values survive printing, JSON encoding and hostile input

Model: `Model/Time.lean`; supporting lemmas: `Props/TimeLemmas.lean`; this file adds the two round
trips (the layout interpreter run forwards and backwards) and the property-facing statements.

* `layouts_*` (`TimeLemmas`): the twenty layout strings of `path/types` cut into the layouts the
  model interprets;
* calendar arithmetic for **all** years: `civilFromDays_daysFromCivil`, `civilFromDays_spec`;
* constructors in closed form: `newDate_eq`, `newTime_eq`, `newTimeTZ_eq`, `newTimestamp_eq`,
  `newTimestampTZ_eq`;
* **`ParseTime(String(v)) = v`**, all five kinds, year 0..9999, whole-minute offsets up to ±24:59,
  `nsec < 10⁹` (`C18.parse_string_roundtrip`, from `parseTime_toString_date/_time/_timetz/_timestamp/
  _timestamptz`): `String()` is read back by `ParseTime` as an equal value of the same type — in
  particular the earlier layouts of `ParseTime`'s list all reject the string;
* **`UnmarshalJSON(MarshalJSON(v)) = v`**, all five kinds, same hypotheses (`C18.json_roundtrip`, from
  `unmarshal_marshal_date/_time/_timetz/_timestamp/_timestamptz`), including the choice of the
  `Z07:00` layout by the two offset-sniffing `UnmarshalJSON` methods (`style_of_canonical`);
* conversions commute with the context zone: `date_roundtrip`, `timestamp_roundtrip` whenever the
  local time exists in the zone (`Zone.Resolves`), unconditionally in every fixed zone
  (`date_roundtrip_fixed`, `timestamp_roundtrip_fixed`), and for named zones whenever the first
  lookup's period contains the instant (`Zone.resolves_of_first`);
* `.string()` inside a path prints `String()`: `path_string_same`;
* `unmarshalJSON_never_panics` (repaired defect D21), `unmarshalJSON_short`.
-/

set_option linter.unusedSimpArgs false
set_option linter.unusedVariables false

namespace Sqljson
namespace Time

/-! ## Round trip `ParseTime(String(v)) = v` -/

abbrev dc (n : Nat) : Char := Nat.digitChar n

theorem lt_ten_cases (d : Nat) (h : d < 10) :
    d = 0 ∨ d = 1 ∨ d = 2 ∨ d = 3 ∨ d = 4 ∨ d = 5 ∨ d = 6 ∨ d = 7 ∨ d = 8 ∨ d = 9 := by omega

theorem isDigit_dc (d : Nat) (h : d < 10) : isDigit (dc d) = true := by
  rcases lt_ten_cases d h with h | h | h | h | h | h | h | h | h | h <;> subst h <;> decide

theorem digitVal_dc (d : Nat) (h : d < 10) : digitVal (dc d) = d := by
  rcases lt_ten_cases d h with h | h | h | h | h | h | h | h | h | h <;> subst h <;> decide

theorem dc_ne (d : Nat) (h : d < 10) (c : Char) (hc : isDigit c = false) : dc d ≠ c := by
  intro e; rw [← e, isDigit_dc d h] at hc; cases hc

/-- `w` decimal digits of `n`, most significant first -/
def padDigits : Nat → Nat → List Char
  | 0, _ => []
  | w + 1, n => padDigits w (n / 10) ++ [dc (n % 10)]

theorem padDigits_zero (w : Nat) : padDigits w 0 = List.replicate w '0' := by
  induction w with
  | zero => rfl
  | succ k ih => simp [padDigits, ih, List.replicate_succ']

theorem padDigits_length (w n : Nat) : (padDigits w n).length = w := by
  induction w generalizing n with
  | zero => rfl
  | succ k ih => simp [padDigits, ih]

theorem pad_toDigits (w n : Nat) (hw : 0 < w) (h : n < 10 ^ w) :
    List.replicate (w - (Nat.toDigits 10 n).length) '0' ++ Nat.toDigits 10 n = padDigits w n := by
  induction w generalizing n with
  | zero => omega
  | succ k ih =>
    by_cases h10 : n < 10
    · rw [Nat.toDigits_of_lt_base h10]
      have e1 : n / 10 = 0 := by omega
      have e2 : n % 10 = n := by omega
      simp [padDigits, e1, e2, padDigits_zero]
    · have hk : 0 < k := by
        cases k with
        | zero => simp at h; omega
        | succ j => omega
      rw [Nat.toDigits_of_base_le (by decide) (by omega)]
      have hlt : n / 10 < 10 ^ k := by
        rw [Nat.pow_succ] at h; omega
      have := ih (n / 10) hk hlt
      simp only [padDigits, List.length_append, List.length_singleton]
      rw [← this, ← List.append_assoc]
      have e : k + 1 - ((Nat.toDigits 10 (n / 10)).length + 1) = k - (Nat.toDigits 10 (n / 10)).length := by omega
      rw [e]

/-- `appendInt` of a natural number that fits the width is the zero-padded digit string -/
theorem appendInt_nat (w n : Nat) (hw : 0 < w) (h : n < 10 ^ w) : appendInt (n : Int) w = padDigits w n := by
  have neg : ¬ ((n : Int) < 0) := by omega
  simp only [appendInt, neg, if_false, Int.natAbs_natCast, List.nil_append]
  exact pad_toDigits w n hw h

def d2 (n : Nat) : List Char := [dc (n / 10), dc (n % 10)]
def d4 (n : Nat) : List Char := [dc (n / 1000), dc (n / 100 % 10), dc (n / 10 % 10), dc (n % 10)]

theorem padDigits_two (n : Nat) (h : n < 100) : padDigits 2 n = d2 n := by
  have : n / 10 % 10 = n / 10 := by omega
  simp [padDigits, d2, this]

theorem padDigits_four (n : Nat) (h : n < 10000) : padDigits 4 n = d4 n := by
  have e1 : n / 10 / 10 / 10 % 10 = n / 1000 := by omega
  have e2 : n / 10 / 10 % 10 = n / 100 % 10 := by omega
  simp [padDigits, d4, e1, e2]

theorem appendInt_two (n : Nat) (h : n < 100) : appendInt (n : Int) 2 = d2 n := by
  rw [appendInt_nat 2 n (by omega) (by omega), padDigits_two n h]

theorem appendInt_four (n : Nat) (h : n < 10000) : appendInt (n : Int) 4 = d4 n := by
  rw [appendInt_nat 4 n (by omega) (by omega), padDigits_four n h]

/-! ### parser primitives on canonical digit strings -/

theorem getnum_two (n : Nat) (h : n < 100) (fixed : Bool) (r : List Char) :
    getnum (d2 n ++ r) fixed = some (n, r) := by
  have h1 : n / 10 < 10 := by omega
  have h2 : n % 10 < 10 := by omega
  simp only [d2, List.cons_append, List.nil_append, getnum, isDigit_dc _ h1, isDigit_dc _ h2,
    digitVal_dc _ h1, digitVal_dc _ h2, Bool.not_true, Bool.false_eq_true, if_false, if_true]
  congr 2; omega

theorem getYear_four (n : Nat) (h : n < 10000) (r : List Char) :
    getYear (d4 n ++ r) = some (n, r) := by
  have h1 : n / 1000 < 10 := by omega
  have h2 : n / 100 % 10 < 10 := by omega
  have h3 : n / 10 % 10 < 10 := by omega
  have h4 : n % 10 < 10 := by omega
  simp only [d4, List.cons_append, List.nil_append, getYear, isDigit_dc _ h1, isDigit_dc _ h2,
    isDigit_dc _ h3, isDigit_dc _ h4, digitVal_dc _ h1, digitVal_dc _ h2, digitVal_dc _ h3, digitVal_dc _ h4,
    Bool.and_self, if_true]
  congr 2; omega


/-- `time.Date` on in-range fields -/
theorem dateWall_fields (y m d h mi s : Int) (ns : Nat) (hm1 : 1 ≤ m) (hm2 : m ≤ 12)
    (hh : 0 ≤ h ∧ h < 24) (hmi : 0 ≤ mi ∧ mi < 60) (hs : 0 ≤ s ∧ s < 60) (hns : ns < 1000000000) :
    dateWall y m d h mi s ns = (daysFromCivil y m d * 86400 + h * 3600 + mi * 60 + s, ns) := by
  unfold dateWall norm
  simp only []
  have e1 : (m - 1) / 12 = 0 := by omega
  have e2 : (m - 1) % 12 = m - 1 := by omega
  have e3 : (ns : Int) / 1000000000 = 0 := by omega
  have e4 : (ns : Int) % 1000000000 = ns := by omega
  simp only [e1, e2, e3, e4, Int.add_zero, Int.sub_add_cancel, Int.toNat_natCast]
  have e5 : s / 60 = 0 := by omega
  have e6 : s % 60 = s := by omega
  simp only [e5, e6, Int.add_zero]
  have e7 : mi / 60 = 0 := by omega
  have e8 : mi % 60 = mi := by omega
  simp only [e7, e8, Int.add_zero]
  have e9 : h / 24 = 0 := by omega
  have e10 : h % 24 = h := by omega
  simp only [e9, e10, Int.add_zero]
  rw [daysFromCivil_day]

theorem skipLit_same (c : Char) (hc : c ≠ ' ') (r : List Char) : skipLit c (c :: r) = some r := by
  simp [skipLit, hc]

/-! ### one step of the parse loop -/

theorem parseLayout_step {e : El} {rest : Layout} {acc acc' : Acc} {v v' : List Char}
    (h : parseEl e (nextStd rest) acc v = some (acc', v')) :
    parseLayout (e :: rest) acc v = parseLayout rest acc' v' := by
  simp only [parseLayout, h]

theorem parseLayout_fail {e : El} {rest : Layout} {acc : Acc} {v : List Char}
    (h : parseEl e (nextStd rest) acc v = none) : parseLayout (e :: rest) acc v = none := by
  simp only [parseLayout, h]

theorem parseLayout_nil (acc : Acc) : parseLayout [] acc [] = some acc := rfl

theorem parseEl_lit (c : Char) (hc : c ≠ ' ') (nx : Option El) (acc : Acc) (r : List Char) :
    parseEl (.lit c) nx acc (c :: r) = some (acc, r) := by
  simp [parseEl, skipLit, hc]

theorem parseEl_lit_ne (c x : Char) (hc : c ≠ ' ') (hx : x ≠ c) (nx : Option El) (acc : Acc) (r : List Char) :
    parseEl (.lit c) nx acc (x :: r) = none := by
  simp [parseEl, skipLit, hc, hx]

theorem parseEl_year (nx : Option El) (acc : Acc) (y : Nat) (hy : y < 10000) (r : List Char) :
    parseEl .year nx acc (d4 y ++ r) = some ({ acc with year := y }, r) := by
  simp [parseEl, getYear_four y hy]

theorem parseEl_month (nx : Option El) (acc : Acc) (m : Nat) (h1 : 1 ≤ m) (h2 : m ≤ 12) (r : List Char) :
    parseEl .month nx acc (d2 m ++ r) = some ({ acc with month := m }, r) := by
  have h0 : ¬ (m = 0 ∨ 12 < m) := by omega
  simp [parseEl, getnum_two m (by omega), h0]

theorem parseEl_day (nx : Option El) (acc : Acc) (d : Nat) (h : d < 100) (r : List Char) :
    parseEl .day nx acc (d2 d ++ r) = some ({ acc with day := d }, r) := by
  simp [parseEl, getnum_two d h]

theorem parseEl_hour (nx : Option El) (acc : Acc) (h : Nat) (hh : h < 24) (r : List Char) :
    parseEl .hour nx acc (d2 h ++ r) = some ({ acc with hour := h }, r) := by
  have h0 : ¬ 24 ≤ h := by omega
  simp [parseEl, getnum_two h (by omega), h0]

theorem parseEl_minute (nx : Option El) (acc : Acc) (m : Nat) (hm : m < 60) (r : List Char) :
    parseEl .minute nx acc (d2 m ++ r) = some ({ acc with min := m }, r) := by
  have h0 : ¬ 60 ≤ m := by omega
  simp [parseEl, getnum_two m (by omega), h0]

/-- `time.Parse("2006-01-02", "YYYY-MM-DD")` -/
theorem goParse_date (y m d : Nat) (hy : y < 10000) (hm1 : 1 ≤ m) (hm2 : m ≤ 12) (hd1 : 1 ≤ d)
    (hd2 : (d : Int) ≤ daysIn m y) :
    goParse dateL (d4 y ++ '-' :: (d2 m ++ '-' :: (d2 d ++ []))) = some ⟨daysFromCivil y m d * 86400, 0, 0⟩ := by
  have hd100 : d < 100 := by
    have : daysIn (m : Int) (y : Int) ≤ 31 := by unfold daysIn; split <;> (try split) <;> omega
    omega
  have hd0 : ¬ (d < 1 ∨ daysIn (m : Int) (y : Int) < (d : Int)) := by omega
  unfold goParse dateL ymdL
  rw [parseLayout_step (parseEl_year _ _ y hy _), parseLayout_step (parseEl_lit '-' (by decide) _ _ _),
    parseLayout_step (parseEl_month _ _ m hm1 hm2 _), parseLayout_step (parseEl_lit '-' (by decide) _ _ _),
    parseLayout_step (parseEl_day _ _ d hd100 _), parseLayout_nil]
  simp only [finishParse]
  have := dateWall_fields y m d 0 0 0 0 (by omega) (by omega) (by omega) (by omega) (by omega) (by omega)
  simp only [Int.natCast_zero] at this
  simp [this]
  exact ⟨by omega, hd2⟩

theorem format_dateL (t : GoTime) :
    format dateL t = appendInt t.civil.year 4 ++ '-' :: (appendInt t.civil.month 2 ++ '-' :: (appendInt t.civil.day 2 ++ [])) := by
  simp [format, dateL, ymdL, fmtEl]

/-- **C18, Date**: `ParseTime(d.String())` returns `d` (any precision argument) for every date with
    a year in 0..9999 -/
theorem parseTime_toString_date (env : Env) (p : Int) (d : DateTime) (wf : DateWF d)
    (hy0 : 0 ≤ (civil d).year) (hy1 : (civil d).year ≤ 9999) : parseTime env (toString d) p = some d := by
  cases d with | mk k s n o =>
  obtain ⟨hk, hn, ho, hm⟩ := wf
  simp only at hk hn ho hm
  subst hk; subst hn; subst ho
  obtain ⟨hday, hm1, hm2, hd1, hd2⟩ := civilFromDays_spec (s / 86400)
  simp only [civil, DateTime.t, GoTime.civil, Int.add_zero, civilOfUnix] at hy0 hy1
  simp only [toString, outLayout, format_dateL, DateTime.t, GoTime.civil, Int.add_zero, civilOfUnix]
  generalize civilFromDays (s / 86400) = c at *
  obtain ⟨y, m, dd⟩ := c
  simp only at *
  obtain ⟨yN, hyN⟩ : ∃ yN : Nat, y = yN := ⟨y.toNat, by omega⟩
  obtain ⟨mN, hmN⟩ : ∃ mN : Nat, m = mN := ⟨m.toNat, by omega⟩
  obtain ⟨dN, hdN⟩ : ∃ dN : Nat, dd = dN := ⟨dd.toNat, by omega⟩
  subst hyN; subst hmN; subst hdN
  have hd100 : dN < 100 := by
    have : daysIn (mN : Int) (yN : Int) ≤ 31 := by unfold daysIn; split <;> (try split) <;> omega
    omega
  rw [appendInt_four yN (by omega), appendInt_two mN (by omega), appendInt_two dN hd100]
  unfold parseTime
  rw [goParse_date yN mN dN (by omega) (by omega) (by omega) (by omega) hd2]
  simp only [newDate_eq, Int.add_zero]
  rw [hday]
  simp
  omega

/-! ### fractional seconds -/

def allDigits (l : List Char) : Prop := ∀ c ∈ l, isDigit c = true

theorem allDigits_padDigits (w n : Nat) : allDigits (padDigits w n) := by
  induction w generalizing n with
  | zero => intro c hc; cases hc
  | succ k ih =>
    intro c hc
    simp only [padDigits, List.mem_append, List.mem_singleton] at hc
    rcases hc with hc | hc
    · exact ih _ c hc
    · subst hc; exact isDigit_dc _ (by omega)

theorem digitsVal_append_one (l : List Char) (c : Char) : digitsVal (l ++ [c]) = digitsVal l * 10 + digitVal c := by
  simp [digitsVal, List.foldl_append]

theorem digitsVal_padDigits (w n : Nat) (h : n < 10 ^ w) : digitsVal (padDigits w n) = n := by
  induction w generalizing n with
  | zero => simp at h; subst h; rfl
  | succ k ih =>
    have hlt : n / 10 < 10 ^ k := by rw [Nat.pow_succ] at h; omega
    rw [padDigits, digitsVal_append_one, ih _ hlt, digitVal_dc _ (by omega)]
    omega

theorem digitsVal_append_zeros (l : List Char) (k : Nat) :
    digitsVal (l ++ List.replicate k '0') = digitsVal l * 10 ^ k := by
  induction k with
  | zero => simp
  | succ j ih =>
    rw [List.replicate_succ', ← List.append_assoc, digitsVal_append_one, ih, Nat.pow_succ]
    have : digitVal '0' = 0 := by decide
    rw [this, Nat.mul_assoc]; omega

theorem takeWhile_zero_eq (l : List Char) :
    l.takeWhile (· == '0') = List.replicate (l.takeWhile (· == '0')).length '0' := by
  induction l with
  | nil => rfl
  | cons c cs ih =>
    by_cases h : c = '0'
    · subst h; simp only [List.takeWhile_cons, beq_self_eq_true, if_true, List.length_cons, List.replicate_succ]
      rw [← ih]
    · simp [List.takeWhile_cons, h]

/-- a digit string is its trimmed form followed by the trimmed zeros -/
theorem trimZeros_split (p : List Char) :
    ∃ k, p = trimZeros p ++ List.replicate k '0' ∧ (trimZeros p).length + k = p.length := by
  refine ⟨(p.reverse.takeWhile (· == '0')).length, ?_, ?_⟩
  · have h := List.takeWhile_append_dropWhile (p := (· == '0')) (l := p.reverse)
    have h2 : p = (p.reverse.dropWhile (· == '0')).reverse ++ (p.reverse.takeWhile (· == '0')).reverse := by
      have := congrArg List.reverse h
      simp only [List.reverse_append, List.reverse_reverse] at this
      exact this.symm
    rw [takeWhile_zero_eq p.reverse, List.reverse_replicate] at h2
    simp only [List.length_replicate] at h2
    exact h2
  · have h := List.takeWhile_append_dropWhile (p := (· == '0')) (l := p.reverse)
    have := congrArg List.length h
    simp only [List.length_append, List.length_reverse] at this
    simp only [trimZeros, List.length_reverse]
    omega

theorem allDigits_trimZeros (p : List Char) (h : allDigits p) : allDigits (trimZeros p) := by
  intro c hc
  apply h c
  simp only [trimZeros, List.mem_reverse] at hc
  have := List.dropWhile_sublist (p := (· == '0')) (l := p.reverse)
  exact List.mem_reverse.1 (this.subset hc)

theorem spanDigits_append (ds r : List Char) (hd : allDigits ds)
    (hr : ∀ c rest, r = c :: rest → isDigit c = false) : spanDigits (ds ++ r) = (ds, r) := by
  induction ds with
  | nil =>
    cases r with
    | nil => rfl
    | cons c rest => simp [spanDigits, hr c rest rfl]
  | cons c cs ih =>
    have hc : isDigit c = true := hd c (by simp)
    have := ih (fun x hx => hd x (by simp [hx]))
    simp [spanDigits, hc, this]

/-- the fraction `appendNano` prints is read back by `parseNanoseconds` -/
theorem frac_roundtrip (ns : Nat) (hns : ns < 1000000000) (hpos : ns ≠ 0) (r : List Char)
    (hr : ∀ c rest, r = c :: rest → isDigit c = false) :
    hasFrac (fmtFrac9 ns ++ r) = true ∧ takeFrac (fmtFrac9 ns ++ r) = (ns, r) := by
  have hp : appendInt (ns : Int) 9 = padDigits 9 ns := appendInt_nat 9 ns (by omega) (by omega)
  obtain ⟨k, hsplit, hlen⟩ := trimZeros_split (padDigits 9 ns)
  have hdig := allDigits_trimZeros _ (allDigits_padDigits 9 ns)
  have hval : digitsVal (trimZeros (padDigits 9 ns)) * 10 ^ k = ns := by
    rw [← digitsVal_append_zeros, ← hsplit, digitsVal_padDigits 9 ns (by omega)]
  have hl9 := padDigits_length 9 ns
  have hne : trimZeros (padDigits 9 ns) ≠ [] := by
    intro e; rw [e] at hval; simp [digitsVal] at hval; omega
  simp only [fmtFrac9, hpos, if_false, hp]
  generalize trimZeros (padDigits 9 ns) = ds at *
  cases ds with
  | nil => exact absurd rfl hne
  | cons c cs =>
    have hc : isDigit c = true := hdig c (by simp)
    refine ⟨by simp [hasFrac, commaOrPeriod, hc], ?_⟩
    simp only [List.cons_append, takeFrac]
    rw [← List.cons_append, spanDigits_append (c :: cs) r hdig hr]
    simp only [nanosOfDigits]
    have hle : (c :: cs).length ≤ 9 := by omega
    rw [List.take_of_length_le hle]
    have : 9 - (c :: cs).length = k := by omega
    rw [this, hval]

/-! ### shared parse steps -/

/-- the rest of the input does not continue a digit run and does not look like a fraction -/
structure CleanRest (r : List Char) : Prop where
  nodigit : ∀ c rest, r = c :: rest → isDigit c = false
  nofrac : hasFrac r = false

theorem cleanRest_nil : CleanRest [] := ⟨fun _ _ h => (by cases h), rfl⟩

theorem cleanRest_sign (c : Char) (hc : c = '+' ∨ c = '-') (rest : List Char) : CleanRest (c :: rest) := by
  have hd : isDigit c = false := by rcases hc with h | h <;> subst h <;> decide
  have hp : commaOrPeriod c = false := by rcases hc with h | h <;> subst h <;> decide
  refine ⟨fun c' r' e => ?_, ?_⟩
  · cases e; exact hd
  · cases rest with
    | nil => rfl
    | cons x xs => simp [hasFrac, hp]

abbrev notFrac (nx : Option El) : Prop := (nx.map El.isFrac).getD false = false

theorem parseEl_second (nx : Option El) (hnx : notFrac nx) (acc : Acc) (s ns : Nat)
    (hs : s < 60) (hns : ns < 1000000000) (r : List Char) (hr : CleanRest r) :
    parseEl .second nx acc (d2 s ++ (fmtFrac9 ns ++ r)) =
      some ({ acc with sec := s, nsec := if ns = 0 then acc.nsec else ns }, r) := by
  have h0 : ¬ 60 ≤ s := by omega
  unfold notFrac at hnx
  by_cases hz : ns = 0
  · subst hz
    have : fmtFrac9 0 = [] := rfl
    simp [parseEl, getnum_two s (by omega), h0, this, hr.nofrac]
  · obtain ⟨h1, h2⟩ := frac_roundtrip ns hns hz r hr.nodigit
    simp [parseEl, getnum_two s (by omega), h0, h1, h2, hnx, hz]

theorem hmsL_append (L : Layout) :
    hmsL ++ L = .hour :: .lit ':' :: .minute :: .lit ':' :: .second :: L := rfl

theorem ymdL_append (L : Layout) :
    ymdL ++ L = .year :: .lit '-' :: .month :: .lit '-' :: .day :: L := rfl

/-- `hh:mm:ss[.fffffffff]` is consumed by the clock part of any layout without a fraction chunk -/
theorem parse_hms (L : Layout) (hL : notFrac (nextStd L)) (acc : Acc) (hacc : acc.nsec = 0) (h mi s ns : Nat)
    (hh : h < 24) (hmi : mi < 60) (hs : s < 60) (hns : ns < 1000000000) (r : List Char) (hr : CleanRest r) :
    parseLayout (hmsL ++ L) acc (d2 h ++ ':' :: (d2 mi ++ ':' :: (d2 s ++ (fmtFrac9 ns ++ r)))) =
      parseLayout L { acc with hour := h, min := mi, sec := s, nsec := ns } r := by
  rw [hmsL_append, parseLayout_step (parseEl_hour _ _ h hh _), parseLayout_step (parseEl_lit ':' (by decide) _ _ _),
    parseLayout_step (parseEl_minute _ _ mi hmi _), parseLayout_step (parseEl_lit ':' (by decide) _ _ _),
    parseLayout_step (parseEl_second _ hL _ s ns hs hns r hr)]
  congr 1
  by_cases hz : ns = 0 <;> simp [hz, hacc]

/-- `YYYY-MM-DD` is consumed by the date part of any layout -/
theorem parse_ymd (L : Layout) (acc : Acc) (y m d : Nat) (hy : y < 10000) (hm1 : 1 ≤ m) (hm2 : m ≤ 12)
    (hd : d < 100) (r : List Char) :
    parseLayout (ymdL ++ L) acc (d4 y ++ '-' :: (d2 m ++ '-' :: (d2 d ++ r))) =
      parseLayout L { acc with year := y, month := m, day := d } r := by
  rw [ymdL_append, parseLayout_step (parseEl_year _ _ y hy _), parseLayout_step (parseEl_lit '-' (by decide) _ _ _),
    parseLayout_step (parseEl_month _ _ m hm1 hm2 _), parseLayout_step (parseEl_lit '-' (by decide) _ _ _),
    parseLayout_step (parseEl_day _ _ d hd _)]

/-- a clock string is not a date: the third character is `:` -/
theorem parse_ymd_on_clock (L : Layout) (acc : Acc) (h : Nat) (r : List Char) :
    parseLayout (ymdL ++ L) acc (d2 h ++ ':' :: r) = none := by
  rw [ymdL_append]
  apply parseLayout_fail
  have hc : isDigit ':' = false := by decide
  cases r with
  | nil => simp [parseEl, d2, getYear]
  | cons c cs => simp [parseEl, d2, getYear, hc]

theorem parseEl_hour_two (nx : Option El) (acc : Acc) (a b : Nat) (ha : a < 10) (hb : b < 10) (rest : List Char) :
    parseEl .hour nx acc (dc a :: dc b :: rest) =
      if a * 10 + b ≥ 24 then none else some ({ acc with hour := a * 10 + b }, rest) := by
  simp [parseEl, getnum, isDigit_dc _ ha, isDigit_dc _ hb, digitVal_dc _ ha, digitVal_dc _ hb]

/-- a date string is not a clock: after the two hour digits comes a digit, not `:` -/
theorem parse_hms_on_year (L : Layout) (acc : Acc) (y : Nat) (hy : y < 10000) (r : List Char) :
    parseLayout (hmsL ++ L) acc (d4 y ++ r) = none := by
  have h1 : y / 1000 < 10 := by omega
  have h2 : y / 100 % 10 < 10 := by omega
  have h3 : y / 10 % 10 < 10 := by omega
  rw [hmsL_append]
  simp only [d4, List.cons_append, List.nil_append]
  by_cases hge : y / 1000 * 10 + y / 100 % 10 ≥ 24
  · apply parseLayout_fail
    rw [parseEl_hour_two _ _ _ _ h1 h2]; simp [hge]
  · have := parseEl_hour_two (nextStd (.lit ':' :: .minute :: .lit ':' :: .second :: L)) acc _ _ h1 h2
      (dc (y / 10 % 10) :: dc (y % 10) :: r)
    simp only [hge, if_false] at this
    rw [parseLayout_step this]
    apply parseLayout_fail
    exact parseEl_lit_ne ':' _ (by decide) (dc_ne _ h3 ':' (by decide)) _ _ _

/-! ### Time -/

/-- a `Time` as `NewTime` makes it -/
structure TimeWF (d : DateTime) : Prop where
  kind : d.kind = .time
  off : d.off = 0
  nsec : d.nsec < 1000000000
  lo : yearZero ≤ d.sec
  hi : d.sec < yearZero + 86400

theorem format_timeFracL (t : GoTime) :
    format timeFracL t = appendInt t.civil.hour 2 ++ ':' :: (appendInt t.civil.min 2 ++ ':' ::
      (appendInt t.civil.sec 2 ++ (fmtFrac9 t.nsec ++ []))) := by
  simp [format, timeFracL, hmsL, fmtEl]

/-- the clock fields of a wall-clock count, as naturals -/
theorem clock_nat (w : Int) : ∃ h mi s : Nat, h < 24 ∧ mi < 60 ∧ s < 60 ∧
    (civilOfUnix w).hour = h ∧ (civilOfUnix w).min = mi ∧ (civilOfUnix w).sec = s := by
  exact ⟨(w % 86400 / 3600).toNat, (w % 86400 % 3600 / 60).toNat, (w % 86400 % 60).toNat, by omega, by omega,
    by omega, by simp only [civilOfUnix]; omega, by simp only [civilOfUnix]; omega, by simp only [civilOfUnix]; omega⟩

theorem adjustPrecision_none (t : GoTime) : adjustPrecision t (-1) = t := by
  simp [adjustPrecision]

theorem finishParse_clock (h mi s ns : Nat) (w : Int) (hns : ns < 1000000000)
    (eh : (civilOfUnix w).hour = h) (em : (civilOfUnix w).min = mi) (es : (civilOfUnix w).sec = s) :
    finishParse { hour := h, min := mi, sec := s, nsec := ns } = some ⟨yearZero + w % 86400, ns, 0⟩ := by
  have := dateWall_clock w ns hns
  rw [eh, em, es] at this
  have hd : daysIn 1 0 = 31 := by decide
  simp [finishParse, this, hd]

/-- **C18, Time**: `ParseTime(t.String())` returns `t` -/
theorem parseTime_toString_time (env : Env) (d : DateTime) (wf : TimeWF d) :
    parseTime env (toString d) (-1) = some d := by
  cases d with | mk k w n o =>
  obtain ⟨hk, ho, hn, hlo, hhi⟩ := wf
  simp only at hk ho hn hlo hhi
  subst hk; subst ho
  obtain ⟨h, mi, s, hh, hmi, hs, eh, em, es⟩ := clock_nat w
  simp only [toString, outLayout, format_timeFracL, DateTime.t, GoTime.civil, Int.add_zero, eh, em, es]
  rw [appendInt_two h (by omega), appendInt_two mi (by omega), appendInt_two s (by omega)]
  have hparse : ∀ (L : Layout) (hL : notFrac (nextStd L)),
      parseLayout (hmsL ++ L) {} (d2 h ++ ':' :: (d2 mi ++ ':' :: (d2 s ++ (fmtFrac9 n ++ [])))) =
        parseLayout L { hour := h, min := mi, sec := s, nsec := n } [] :=
    fun L hL => parse_hms L hL {} rfl h mi s n hh hmi hs hn [] cleanRest_nil
  unfold parseTime
  -- not a date
  have e1 : goParse dateL (d2 h ++ ':' :: (d2 mi ++ ':' :: (d2 s ++ (fmtFrac9 n ++ [])))) = none := by
    have := parse_ymd_on_clock [] {} h (d2 mi ++ ':' :: (d2 s ++ (fmtFrac9 n ++ [])))
    simp only [goParse, dateL]; rw [List.append_nil] at this; rw [this]
  -- not a time with zone: the zone is missing
  have e2 : firstParse timeTZLayouts (d2 h ++ ':' :: (d2 mi ++ ':' :: (d2 s ++ (fmtFrac9 n ++ [])))) = none := by
    simp only [firstParse, timeTZLayouts, goParse, timeTZHourL, timeTZMinL]
    rw [hparse _ rfl, hparse _ rfl]
    simp [parseLayout, parseEl, parseOffset]
  -- a time
  have e3 : goParse timeL (d2 h ++ ':' :: (d2 mi ++ ':' :: (d2 s ++ (fmtFrac9 n ++ [])))) =
      some ⟨yearZero + w % 86400, n, 0⟩ := by
    have := hparse [] rfl
    rw [List.append_nil] at this
    simp only [goParse, timeL, this, parseLayout_nil]
    exact finishParse_clock h mi s n w hn eh em es
  rw [e1, e2, e3]
  simp only []
  rw [adjustPrecision_none, newTime_eq _ hn]
  simp only [Int.add_zero, yearZero] at *
  have : (-62167219200 + w % 86400) % 86400 = w % 86400 := by omega
  rw [this]
  have : -62167219200 + w % 86400 = w := by omega
  simp [this]

/-! ### zone offsets -/

/-- a whole-minute offset that `time.Parse` reads back: |off| ≤ 24:59 -/
structure OffsetOK (off : Int) : Prop where
  minute : off % 60 = 0
  bound : off.natAbs < 90000

def sgnChar (off : Int) : Char := if off < 0 then '-' else '+'

/-- the text `-07:00` prints for a whole-minute offset -/
def tzStr (off : Int) : List Char :=
  sgnChar off :: (d2 (off.natAbs / 60 / 60) ++ ':' :: (d2 (off.natAbs / 60 % 60) ++ []))

theorem fmtTz_colon (off : Int) (h : OffsetOK off) : fmtTz false .colon off = tzStr off := by
  obtain ⟨hm, hb⟩ := h
  have hdvd : (60 : Int) ∣ off := Int.dvd_of_emod_eq_zero hm
  have e0 : Int.tdiv off 60 = off / 60 := Int.tdiv_eq_ediv_of_dvd hdvd
  simp only [fmtTz, e0, Bool.false_eq_true, and_false, if_false, tzStr, sgnChar]
  by_cases hneg : off < 0
  · have h1 : off / 60 < 0 := by omega
    have e1 : -(off / 60) / 60 = ((off.natAbs / 60 / 60 : Nat) : Int) := by omega
    have e2 : -(off / 60) % 60 = ((off.natAbs / 60 % 60 : Nat) : Int) := by omega
    simp only [h1, hneg, if_true, e1, e2, reduceCtorEq, if_false]
    rw [appendInt_two _ (by omega), appendInt_two _ (by omega)]
    simp
  · have h1 : ¬ off / 60 < 0 := by omega
    have e1 : off / 60 / 60 = ((off.natAbs / 60 / 60 : Nat) : Int) := by omega
    have e2 : off / 60 % 60 = ((off.natAbs / 60 % 60 : Nat) : Int) := by omega
    simp only [h1, hneg, if_false, e1, e2, reduceCtorEq]
    rw [appendInt_two _ (by omega), appendInt_two _ (by omega)]
    simp

theorem two_d2 (n : Nat) (h : n < 100) (_r : List Char) :
    ∀ a b, d2 n = [a, b] → two a b = some n := by
  intro a b e
  simp only [d2, List.cons.injEq, and_true] at e
  obtain ⟨ea, eb⟩ := e
  subst ea; subst eb
  have h1 : n / 10 < 10 := by omega
  have h2 : n % 10 < 10 := by omega
  simp only [two, isDigit_dc _ h1, isDigit_dc _ h2, digitVal_dc _ h1, digitVal_dc _ h2, Bool.and_self, if_true]
  congr 1; omega

theorem sgn_ne_Z (off : Int) : sgnChar off ≠ 'Z' := by unfold sgnChar; split <;> decide

theorem signOf_sgn (off : Int) : signOf (sgnChar off) = some (if off < 0 then -1 else 1) := by
  unfold sgnChar; split <;> rfl

/-- `Z07:00` reads `±hh:mm` back as the offset -/
theorem parseEl_tz_colon (nx : Option El) (acc : Acc) (off : Int) (h : OffsetOK off) (r : List Char) :
    parseEl (.tz true .colon) nx acc (tzStr off ++ r) = some ({ acc with zoneOffset := off }, r) := by
  obtain ⟨hm, hb⟩ := h
  have hh : off.natAbs / 60 / 60 < 100 := by omega
  have hmm : off.natAbs / 60 % 60 < 100 := by omega
  have t1 := two_d2 _ hh [] _ _ rfl
  have t2 := two_d2 _ hmm [] _ _ rfl
  have hZ := sgn_ne_Z off
  have h24 : ¬ (off.natAbs / 60 / 60 > 24 ∨ off.natAbs / 60 % 60 > 60) := by omega
  simp only [tzStr, d2, List.cons_append, List.nil_append, parseEl]
  split
  · rename_i heq; simp only [List.cons.injEq] at heq; exact absurd heq.1 hZ
  · simp only [parseOffset, if_true, beq_self_eq_true, t1, t2, mkOffset, signOf_sgn]
    have h24a : ¬ 24 < off.natAbs / 60 / 60 := by omega
    have h24b : ¬ 60 < off.natAbs / 60 % 60 := by omega
    have hval : (if off < 0 then -1 else 1) * (((off.natAbs / 60 / 60 * 60 + off.natAbs / 60 % 60) * 60 + 0 : Nat) : Int) = off := by
      split <;> omega
    simp only [h24a, h24b, decide_false, Bool.or_self, Bool.false_eq_true, if_false, hval]
    simp

/-- `Z07` does not consume `±hh:mm`: the minutes are left over -/
theorem parse_tz_short_fails (acc : Acc) (off : Int) :
    parseLayout [.tz true .short] acc (tzStr off ++ []) = none := by
  have hZ := sgn_ne_Z off
  have hel : parseEl (.tz true .short) (nextStd []) acc (tzStr off ++ []) = none ∨
      ∃ acc', parseEl (.tz true .short) (nextStd []) acc (tzStr off ++ []) =
        some (acc', ':' :: (d2 (off.natAbs / 60 % 60) ++ [])) := by
    simp only [tzStr, d2, List.cons_append, List.nil_append, List.append_nil, parseEl]
    split
    · rename_i heq; simp only [List.cons.injEq] at heq; exact absurd heq.1 hZ
    · simp only [parseOffset]
      cases mkOffset (sgnChar off) (two (dc (off.natAbs / 60 / 60 / 10)) (dc (off.natAbs / 60 / 60 % 10))) (some 0) (some 0) with
      | none => left; rfl
      | some o => right; exact ⟨_, rfl⟩
  rcases hel with h | ⟨acc', h⟩
  · exact parseLayout_fail h
  · rw [parseLayout_step h]; rfl

/-! ### TimeTZ -/

/-- a `TimeTZ` as `NewTimeTZ` makes it, with a whole-minute offset -/
structure TimeTZWF (d : DateTime) : Prop where
  kind : d.kind = .timetz
  nsec : d.nsec < 1000000000
  off : OffsetOK d.off
  lo : yearZero ≤ d.sec + d.off
  hi : d.sec + d.off < yearZero + 86400

theorem format_timeTZOutL (t : GoTime) :
    format timeTZOutL t = appendInt t.civil.hour 2 ++ ':' :: (appendInt t.civil.min 2 ++ ':' ::
      (appendInt t.civil.sec 2 ++ (fmtFrac9 t.nsec ++ fmtTz false .colon t.off))) := by
  simp [format, timeTZOutL, timeFracL, hmsL, fmtEl]

theorem cleanRest_tzStr (off : Int) (r : List Char) : CleanRest (tzStr off ++ r) := by
  unfold tzStr
  exact cleanRest_sign _ (by unfold sgnChar; split <;> simp) _

theorem finishParse_clock_off (h mi s ns : Nat) (w off : Int) (hns : ns < 1000000000) (hoff : off ≠ -1)
    (eh : (civilOfUnix w).hour = h) (em : (civilOfUnix w).min = mi) (es : (civilOfUnix w).sec = s) :
    finishParse { hour := h, min := mi, sec := s, nsec := ns, zoneOffset := off } =
      some ⟨yearZero + w % 86400 - off, ns, off⟩ := by
  have := dateWall_clock w ns hns
  rw [eh, em, es] at this
  have hd : daysIn 1 0 = 31 := by decide
  simp [finishParse, this, hd, hoff]

/-- **C18, TimeTZ**: `ParseTime(t.String())` returns `t` for whole-minute offsets up to ±24:59 -/
theorem parseTime_toString_timetz (env : Env) (d : DateTime) (wf : TimeTZWF d) :
    parseTime env (toString d) (-1) = some d := by
  cases d with | mk k u n o =>
  obtain ⟨hk, hn, hoff, hlo, hhi⟩ := wf
  simp only at hk hn hoff hlo hhi
  subst hk
  obtain ⟨h, mi, s, hh, hmi, hs, eh, em, es⟩ := clock_nat (u + o)
  simp only [toString, outLayout, format_timeTZOutL, DateTime.t, GoTime.civil, eh, em, es, fmtTz_colon o hoff]
  rw [appendInt_two h (by omega), appendInt_two mi (by omega), appendInt_two s (by omega)]
  have hparse : ∀ (L : Layout) (hL : notFrac (nextStd L)),
      parseLayout (hmsL ++ L) {} (d2 h ++ ':' :: (d2 mi ++ ':' :: (d2 s ++ (fmtFrac9 n ++ (tzStr o ++ []))))) =
        parseLayout L { hour := h, min := mi, sec := s, nsec := n } (tzStr o ++ []) :=
    fun L hL => parse_hms L hL {} rfl h mi s n hh hmi hs hn _ (cleanRest_tzStr o [])
  have happ : tzStr o = tzStr o ++ [] := (List.append_nil _).symm
  rw [happ]
  unfold parseTime
  have e1 : goParse dateL (d2 h ++ ':' :: (d2 mi ++ ':' :: (d2 s ++ (fmtFrac9 n ++ (tzStr o ++ []))))) = none := by
    have := parse_ymd_on_clock [] {} h (d2 mi ++ ':' :: (d2 s ++ (fmtFrac9 n ++ (tzStr o ++ []))))
    simp only [goParse, dateL]; rw [List.append_nil] at this; rw [this]
  have hne : o ≠ -1 := by have := hoff.minute; omega
  have e2 : firstParse timeTZLayouts (d2 h ++ ':' :: (d2 mi ++ ':' :: (d2 s ++ (fmtFrac9 n ++ (tzStr o ++ []))))) =
      some ⟨yearZero + (u + o) % 86400 - o, n, o⟩ := by
    simp only [firstParse, timeTZLayouts, goParse, timeTZHourL, timeTZMinL]
    rw [hparse _ rfl, hparse _ rfl, parse_tz_short_fails]
    simp only []
    rw [parseLayout_step (parseEl_tz_colon _ _ o hoff []), parseLayout_nil]
    simp only []
    rw [finishParse_clock_off h mi s n (u + o) o hn hne eh em es]
  rw [e1, e2]
  simp only []
  rw [adjustPrecision_none, newTimeTZ_eq _ hn]
  simp only [yearZero] at *
  have e : (-62167219200 + (u + o) % 86400 - o + o) % 86400 = (u + o) % 86400 := by omega
  rw [e]
  have : -62167219200 + (u + o) % 86400 - o = u := by omega
  simp [this]

/-! ### Timestamp and TimestampTZ -/

theorem parseEl_space_ne (x : Char) (hx : x ≠ ' ') (nx : Option El) (acc : Acc) (r : List Char) :
    parseEl (.lit ' ') nx acc (x :: r) = none := by
  simp [parseEl, skipLit, hx]

theorem parse_tz_on_nil (iso : Bool) (st : TzStyle) (acc : Acc) : parseLayout [.tz iso st] acc [] = none := by
  cases iso <;> cases st <;> simp [parseLayout, parseEl, parseOffset]

theorem timestampL_eq (sep : Char) (L : Layout) :
    timestampL sep ++ L = ymdL ++ (.lit sep :: (hmsL ++ L)) := rfl

theorem format_timestampFracL (t : GoTime) :
    format timestampFracL t = appendInt t.civil.year 4 ++ '-' :: (appendInt t.civil.month 2 ++ '-' ::
      (appendInt t.civil.day 2 ++ 'T' :: (appendInt t.civil.hour 2 ++ ':' :: (appendInt t.civil.min 2 ++ ':' ::
      (appendInt t.civil.sec 2 ++ (fmtFrac9 t.nsec ++ [])))))) := by
  simp [format, timestampFracL, timestampL, ymdL, hmsL, fmtEl]

theorem format_timestampTZOutL (t : GoTime) :
    format timestampTZOutL t = appendInt t.civil.year 4 ++ '-' :: (appendInt t.civil.month 2 ++ '-' ::
      (appendInt t.civil.day 2 ++ 'T' :: (appendInt t.civil.hour 2 ++ ':' :: (appendInt t.civil.min 2 ++ ':' ::
      (appendInt t.civil.sec 2 ++ (fmtFrac9 t.nsec ++ fmtTz false .colon t.off)))))) := by
  simp [format, timestampTZOutL, timestampFracL, timestampL, ymdL, hmsL, fmtEl]

/-- all six fields of a wall-clock count with a year in 0..9999, as naturals -/
theorem civil_nat (w : Int) (hy0 : 0 ≤ (civilOfUnix w).year) (hy1 : (civilOfUnix w).year ≤ 9999) :
    ∃ y m dd h mi s : Nat, y < 10000 ∧ 1 ≤ m ∧ m ≤ 12 ∧ 1 ≤ dd ∧ dd < 100 ∧ (dd : Int) ≤ daysIn m y ∧
      h < 24 ∧ mi < 60 ∧ s < 60 ∧
      (civilOfUnix w).year = y ∧ (civilOfUnix w).month = m ∧ (civilOfUnix w).day = dd ∧
      (civilOfUnix w).hour = h ∧ (civilOfUnix w).min = mi ∧ (civilOfUnix w).sec = s := by
  obtain ⟨h, mi, s, hh, hmi, hs, eh, em, es⟩ := clock_nat w
  obtain ⟨_, hm1, hm2, hd1, hd2⟩ := civilFromDays_spec (w / 86400)
  have ey : (civilOfUnix w).year = (civilFromDays (w / 86400)).1 := rfl
  have emo : (civilOfUnix w).month = (civilFromDays (w / 86400)).2.1 := rfl
  have ed : (civilOfUnix w).day = (civilFromDays (w / 86400)).2.2 := rfl
  rw [ey] at hy0 hy1
  generalize civilFromDays (w / 86400) = c at *
  obtain ⟨y, m, dd⟩ := c
  simp only at *
  have hd31 : daysIn m y ≤ 31 := by unfold daysIn; split <;> (try split) <;> omega
  refine ⟨y.toNat, m.toNat, dd.toNat, h, mi, s, by omega, by omega, by omega, by omega, by omega, ?_, hh, hmi, hs,
    by omega, by omega, by omega, eh, em, es⟩
  have e1 : ((m.toNat : Nat) : Int) = m := by omega
  have e2 : ((y.toNat : Nat) : Int) = y := by omega
  rw [e1, e2]; omega

theorem finishParse_civil (w : Int) (ns : Nat) (hns : ns < 1000000000) (y m dd h mi s : Nat) (o : Int)
    (hd1 : 1 ≤ dd) (hd2 : (dd : Int) ≤ daysIn m y)
    (ey : (civilOfUnix w).year = y) (emo : (civilOfUnix w).month = m) (ed : (civilOfUnix w).day = dd)
    (eh : (civilOfUnix w).hour = h) (em : (civilOfUnix w).min = mi) (es : (civilOfUnix w).sec = s) :
    finishParse { year := y, month := m, day := dd, hour := h, min := mi, sec := s, nsec := ns, zoneOffset := o } =
      some (if o ≠ -1 then ⟨w - o, ns, o⟩ else ⟨w, ns, 0⟩) := by
  have := dateWall_civilOfUnix w ns hns
  rw [ey, emo, ed, eh, em, es] at this
  have hv : ¬ (dd < 1 ∨ daysIn (m : Int) (y : Int) < (dd : Int)) := by omega
  simp only [finishParse, this]
  simp [hv]
  refine ⟨⟨by omega, hd2⟩, ?_⟩
  split <;> rfl

/-- a `Timestamp` as `NewTimestamp` makes it, with a four-digit year -/
structure TimestampStrWF (d : DateTime) : Prop where
  wf : TimestampWF d
  year0 : 0 ≤ (civil d).year
  year1 : (civil d).year ≤ 9999

/-- **C18, Timestamp**: `ParseTime(ts.String())` returns `ts` -/
theorem parseTime_toString_timestamp (env : Env) (d : DateTime) (wf : TimestampStrWF d) :
    parseTime env (toString d) (-1) = some d := by
  cases d with | mk k w n o =>
  obtain ⟨⟨hk, hn, ho⟩, hy0, hy1⟩ := wf
  simp only at hk hn ho
  subst hk; subst ho
  simp only [civil, DateTime.t, GoTime.civil, Int.add_zero] at hy0 hy1
  obtain ⟨y, m, dd, h, mi, s, hy, hm1, hm2, hd1, hd100, hd2, hh, hmi, hs, ey, emo, ed, eh, em, es⟩ :=
    civil_nat w hy0 hy1
  simp only [toString, outLayout, format_timestampFracL, DateTime.t, GoTime.civil, Int.add_zero, ey, emo, ed, eh, em, es]
  rw [appendInt_four y hy, appendInt_two m (by omega), appendInt_two dd hd100, appendInt_two h (by omega),
    appendInt_two mi (by omega), appendInt_two s (by omega)]
  generalize hclock : d2 h ++ ':' :: (d2 mi ++ ':' :: (d2 s ++ (fmtFrac9 n ++ []))) = clock
  have hymd : ∀ (L : Layout) (acc : Acc),
      parseLayout (ymdL ++ L) acc (d4 y ++ '-' :: (d2 m ++ '-' :: (d2 dd ++ 'T' :: clock))) =
        parseLayout L { acc with year := y, month := m, day := dd } ('T' :: clock) :=
    fun L acc => parse_ymd L acc y m dd hy hm1 hm2 hd100 _
  have hhms : ∀ (L : Layout) (hL : notFrac (nextStd L)) (acc : Acc) (hacc : acc.nsec = 0),
      parseLayout (hmsL ++ L) acc clock = parseLayout L { acc with hour := h, min := mi, sec := s, nsec := n } [] :=
    fun L hL acc hacc => hclock ▸ parse_hms L hL acc hacc h mi s n hh hmi hs hn [] cleanRest_nil
  unfold parseTime
  have e1 : goParse dateL (d4 y ++ '-' :: (d2 m ++ '-' :: (d2 dd ++ 'T' :: clock))) = none := by
    have := hymd [] {}
    rw [List.append_nil] at this
    simp only [goParse, dateL, this]; rfl
  have e2 : firstParse timeTZLayouts (d4 y ++ '-' :: (d2 m ++ '-' :: (d2 dd ++ 'T' :: clock))) = none := by
    simp only [firstParse, timeTZLayouts, goParse, timeTZHourL, timeTZMinL, parse_hms_on_year _ _ y hy]
  have e3 : goParse timeL (d4 y ++ '-' :: (d2 m ++ '-' :: (d2 dd ++ 'T' :: clock))) = none := by
    have := parse_hms_on_year [] {} y hy ('-' :: (d2 m ++ '-' :: (d2 dd ++ 'T' :: clock)))
    rw [List.append_nil] at this
    simp only [goParse, timeL, this]
  have hA : ∀ (st : TzStyle) (acc : Acc) (hacc : acc.nsec = 0),
      parseLayout (.lit 'T' :: (hmsL ++ [.tz true st])) acc ('T' :: clock) = none := by
    intro st acc hacc
    rw [parseLayout_step (parseEl_lit 'T' (by decide) _ _ _), hhms _ rfl _ hacc, parse_tz_on_nil]
  have hB : ∀ (L : Layout) (acc : Acc), parseLayout (.lit ' ' :: L) acc ('T' :: clock) = none :=
    fun L acc => parseLayout_fail (parseEl_space_ne 'T' (by decide) _ _ _)
  have e4 : firstParse timestampTZLayouts (d4 y ++ '-' :: (d2 m ++ '-' :: (d2 dd ++ 'T' :: clock))) = none := by
    have hA' := fun st => hA st { year := y, month := m, day := dd } rfl
    simp only [firstParse, timestampTZLayouts, goParse, timestampTZHourL, timestampTZMinL, timestampL_eq, hymd,
      hA', hB]
  have e5 : firstParse timestampLayouts (d4 y ++ '-' :: (d2 m ++ '-' :: (d2 dd ++ 'T' :: clock))) =
      some ⟨w, n, 0⟩ := by
    have hl : timestampL 'T' = timestampL 'T' ++ [] := (List.append_nil _).symm
    simp only [firstParse, timestampLayouts, goParse]
    rw [hl, timestampL_eq, hymd, parseLayout_step (parseEl_lit 'T' (by decide) _ _ _), hhms _ rfl _ rfl, parseLayout_nil]
    simp only []
    rw [finishParse_civil w n hn y m dd h mi s (-1) hd1 hd2 ey emo ed eh em es]
    simp
  rw [e1, e2, e3, e4, e5]
  simp only []
  rw [adjustPrecision_none, newTimestamp_eq _ hn]
  simp

/-- a `TimestampTZ` with a whole-minute offset and a four-digit year in its own offset -/
structure TimestampTZStrWF (d : DateTime) : Prop where
  kind : d.kind = .timestamptz
  nsec : d.nsec < 1000000000
  off : OffsetOK d.off
  year0 : 0 ≤ (civil d).year
  year1 : (civil d).year ≤ 9999

/-- **C18, TimestampTZ**: `ParseTime(ts.String())` returns `ts` (same instant, same offset) -/
theorem parseTime_toString_timestamptz (env : Env) (d : DateTime) (wf : TimestampTZStrWF d) :
    parseTime env (toString d) (-1) = some d := by
  cases d with | mk k u n o =>
  obtain ⟨hk, hn, hoff, hy0, hy1⟩ := wf
  simp only at hk hn hoff
  subst hk
  simp only [civil, DateTime.t, GoTime.civil] at hy0 hy1
  obtain ⟨y, m, dd, h, mi, s, hy, hm1, hm2, hd1, hd100, hd2, hh, hmi, hs, ey, emo, ed, eh, em, es⟩ :=
    civil_nat (u + o) hy0 hy1
  simp only [toString, outLayout, format_timestampTZOutL, DateTime.t, GoTime.civil, ey, emo, ed, eh, em, es,
    fmtTz_colon o hoff]
  rw [appendInt_four y hy, appendInt_two m (by omega), appendInt_two dd hd100, appendInt_two h (by omega),
    appendInt_two mi (by omega), appendInt_two s (by omega)]
  have happ : tzStr o = tzStr o ++ [] := (List.append_nil _).symm
  rw [happ]
  generalize hclock : d2 h ++ ':' :: (d2 mi ++ ':' :: (d2 s ++ (fmtFrac9 n ++ (tzStr o ++ [])))) = clock
  have hymd : ∀ (L : Layout) (acc : Acc),
      parseLayout (ymdL ++ L) acc (d4 y ++ '-' :: (d2 m ++ '-' :: (d2 dd ++ 'T' :: clock))) =
        parseLayout L { acc with year := y, month := m, day := dd } ('T' :: clock) :=
    fun L acc => parse_ymd L acc y m dd hy hm1 hm2 hd100 _
  have hhms : ∀ (L : Layout) (hL : notFrac (nextStd L)) (acc : Acc) (hacc : acc.nsec = 0),
      parseLayout (hmsL ++ L) acc clock =
        parseLayout L { acc with hour := h, min := mi, sec := s, nsec := n } (tzStr o ++ []) :=
    fun L hL acc hacc => hclock ▸ parse_hms L hL acc hacc h mi s n hh hmi hs hn _ (cleanRest_tzStr o [])
  unfold parseTime
  have e1 : goParse dateL (d4 y ++ '-' :: (d2 m ++ '-' :: (d2 dd ++ 'T' :: clock))) = none := by
    have := hymd [] {}
    rw [List.append_nil] at this
    simp only [goParse, dateL, this]; rfl
  have e2 : firstParse timeTZLayouts (d4 y ++ '-' :: (d2 m ++ '-' :: (d2 dd ++ 'T' :: clock))) = none := by
    simp only [firstParse, timeTZLayouts, goParse, timeTZHourL, timeTZMinL, parse_hms_on_year _ _ y hy]
  have e3 : goParse timeL (d4 y ++ '-' :: (d2 m ++ '-' :: (d2 dd ++ 'T' :: clock))) = none := by
    have := parse_hms_on_year [] {} y hy ('-' :: (d2 m ++ '-' :: (d2 dd ++ 'T' :: clock)))
    rw [List.append_nil] at this
    simp only [goParse, timeL, this]
  have hne : o ≠ -1 := by have := hoff.minute; omega
  have hShort : parseLayout (.lit 'T' :: (hmsL ++ [.tz true .short])) { year := y, month := m, day := dd }
      ('T' :: clock) = none := by
    rw [parseLayout_step (parseEl_lit 'T' (by decide) _ _ _), hhms _ rfl _ rfl, parse_tz_short_fails]
  have hB : ∀ (L : Layout) (acc : Acc), parseLayout (.lit ' ' :: L) acc ('T' :: clock) = none :=
    fun L acc => parseLayout_fail (parseEl_space_ne 'T' (by decide) _ _ _)
  have hColon : parseLayout (.lit 'T' :: (hmsL ++ [.tz true .colon])) { year := y, month := m, day := dd }
      ('T' :: clock) =
      some { year := y, month := m, day := dd, hour := h, min := mi, sec := s, nsec := n, zoneOffset := o } := by
    rw [parseLayout_step (parseEl_lit 'T' (by decide) _ _ _), hhms _ rfl _ rfl,
      parseLayout_step (parseEl_tz_colon _ _ o hoff []), parseLayout_nil]
  have e4 : firstParse timestampTZLayouts (d4 y ++ '-' :: (d2 m ++ '-' :: (d2 dd ++ 'T' :: clock))) =
      some ⟨u, n, o⟩ := by
    simp only [firstParse, timestampTZLayouts, goParse, timestampTZHourL, timestampTZMinL, timestampL_eq, hymd,
      hShort, hB, hColon]
    rw [finishParse_civil (u + o) n hn y m dd h mi s o hd1 hd2 ey emo ed eh em es]
    simp [hne]
  rw [e1, e2, e3, e4]
  simp only []
  rw [adjustPrecision_none, newTimestampTZ_eq _ hn]
  rfl
end Time
end Sqljson

namespace Sqljson
namespace Time

/-! ## Round trip `UnmarshalJSON(MarshalJSON(v)) = v` -/

/-- the byte of an ASCII character -/
def b8 (c : Char) : UInt8 := UInt8.ofNat c.toNat

/-- the bytes of an ASCII string -/
def asciiBytes (l : List Char) : List UInt8 := l.map b8

/-- characters the canonical output consists of -/
def OutChar (c : Char) : Prop := isDigit c = true ∨ c = ':' ∨ c = '.' ∨ c = '-' ∨ c = '+' ∨ c = 'T'

theorem outChar_lt (c : Char) (h : OutChar c) : c.toNat < 128 := by
  rcases h with h | h | h | h | h | h
  · simp only [isDigit, Bool.and_eq_true, decide_eq_true_eq] at h
    have := h.2; have : c.toNat ≤ '9'.toNat := this; simp at this; omega
  all_goals subst h; decide

theorem ofNat_b8 (c : Char) (h : c.toNat < 128) : Char.ofNat (b8 c).toNat = c := by
  have : (b8 c).toNat = c.toNat := by
    simp only [b8, UInt8.toNat_ofNat']; omega
  rw [this]; exact Char.ofNat_toNat c

theorem bytesToChars_asciiBytes (l : List Char) (h : ∀ c ∈ l, OutChar c) : bytesToChars (asciiBytes l) = l := by
  induction l with
  | nil => rfl
  | cons c cs ih =>
    simp only [bytesToChars, asciiBytes, List.map_cons, List.cons.injEq]
    exact ⟨ofNat_b8 c (outChar_lt c (h c (by simp))), ih (fun x hx => h x (by simp [hx]))⟩

theorem unquote_quoted (S : List Char) :
    unquote (asciiBytes ('"' :: S ++ ['"'])) = some (asciiBytes S) := by
  simp only [unquote, asciiBytes, List.map_cons, List.map_append, List.length_cons, List.length_append,
    List.length_map, List.length_nil]
  have : ¬ (S.length + 1 + 1 < 2) := by omega
  simp only [this, if_false]
  have e : S.length + 1 + 1 - 2 = (List.map b8 S).length := by simp
  rw [e]
  have : List.drop 1 (b8 '"' :: List.map b8 S ++ b8 '"' :: List.map b8 []) = List.map b8 S ++ [b8 '"'] := rfl
  rw [this, List.take_left']
  rfl

theorem parseEl_second_fracnext (acc : Acc) (s : Nat) (hs : s < 60) (v : List Char) :
    parseEl .second (some .frac9) acc (d2 s ++ v) = some ({ acc with sec := s }, v) := by
  have h0 : ¬ 60 ≤ s := by omega
  simp [parseEl, getnum_two s (by omega), h0, El.isFrac]

theorem parseEl_frac9 (nx : Option El) (acc : Acc) (ns : Nat) (hns : ns < 1000000000)
    (r : List Char) (hr : CleanRest r) :
    parseEl .frac9 nx acc (fmtFrac9 ns ++ r) = some ({ acc with nsec := if ns = 0 then acc.nsec else ns }, r) := by
  by_cases hz : ns = 0
  · subst hz
    have : fmtFrac9 0 = [] := rfl
    simp [parseEl, this, hr.nofrac]
  · obtain ⟨h1, h2⟩ := frac_roundtrip ns hns hz r hr.nodigit
    simp [parseEl, h1, h2, hz]

/-- `hh:mm:ss[.fffffffff]` against `15:04:05.999999999…` -/
theorem parse_hms_frac (L : Layout) (acc : Acc) (hacc : acc.nsec = 0) (h mi s ns : Nat)
    (hh : h < 24) (hmi : mi < 60) (hs : s < 60) (hns : ns < 1000000000) (r : List Char) (hr : CleanRest r) :
    parseLayout (hmsL ++ (.frac9 :: L)) acc (d2 h ++ ':' :: (d2 mi ++ ':' :: (d2 s ++ (fmtFrac9 ns ++ r)))) =
      parseLayout L { acc with hour := h, min := mi, sec := s, nsec := ns } r := by
  rw [hmsL_append, parseLayout_step (parseEl_hour _ _ h hh _), parseLayout_step (parseEl_lit ':' (by decide) _ _ _),
    parseLayout_step (parseEl_minute _ _ mi hmi _), parseLayout_step (parseEl_lit ':' (by decide) _ _ _)]
  rw [parseLayout_step (rest := .frac9 :: L) (parseEl_second_fracnext _ s hs _),
    parseLayout_step (parseEl_frac9 _ _ ns hns r hr)]
  congr 1
  by_cases hz : ns = 0 <;> simp [hz, hacc]

theorem outChar_dc (n : Nat) (h : n < 10) : OutChar (dc n) := Or.inl (isDigit_dc n h)

theorem all_d2 (n : Nat) (h : n < 100) : ∀ c ∈ d2 n, OutChar c := by
  intro c hc
  simp only [d2, List.mem_cons, List.mem_nil_iff, or_false] at hc
  rcases hc with hc | hc <;> subst hc <;> exact outChar_dc _ (by omega)

theorem all_d4 (n : Nat) (h : n < 10000) : ∀ c ∈ d4 n, OutChar c := by
  intro c hc
  simp only [d4, List.mem_cons, List.mem_nil_iff, or_false] at hc
  rcases hc with hc | hc | hc | hc <;> subst hc <;> exact outChar_dc _ (by omega)

theorem all_frac (ns : Nat) (h : ns < 1000000000) : ∀ c ∈ fmtFrac9 ns, OutChar c := by
  intro c hc
  unfold fmtFrac9 at hc
  split at hc
  · cases hc
  · rw [appendInt_nat 9 ns (by omega) (by omega)] at hc
    simp only [List.mem_cons] at hc
    rcases hc with hc | hc
    · subst hc; exact Or.inr (Or.inr (Or.inl rfl))
    · exact Or.inl (allDigits_trimZeros _ (allDigits_padDigits 9 ns) c hc)

theorem all_tzStr (off : Int) (h : OffsetOK off) : ∀ c ∈ tzStr off, OutChar c := by
  have hb := h.bound
  intro c hc
  simp only [tzStr, List.mem_cons, List.mem_append, List.mem_nil_iff, or_false] at hc
  rcases hc with hc | hc | hc | hc
  · subst hc; unfold sgnChar; split
    · exact Or.inr (Or.inr (Or.inr (Or.inl rfl)))
    · exact Or.inr (Or.inr (Or.inr (Or.inr (Or.inl rfl))))
  · exact all_d2 _ (by omega) c hc
  · subst hc; exact Or.inr (Or.inl rfl)
  · exact all_d2 _ (by omega) c hc

/-- the shape shared by the five `UnmarshalJSON ∘ MarshalJSON` proofs -/
theorem unmarshal_marshal_shape (d : DateTime) (hall : ∀ c ∈ toString d, OutChar c) :
    unquote (asciiBytes (marshalJSON d)) = some (asciiBytes (toString d)) ∧
      bytesToChars (asciiBytes (toString d)) = toString d :=
  ⟨unquote_quoted _, bytesToChars_asciiBytes _ hall⟩

/-- **C18, Date**: `UnmarshalJSON(MarshalJSON(d)) = d` -/
theorem unmarshal_marshal_date (d : DateTime) (wf : DateWF d)
    (hy0 : 0 ≤ (civil d).year) (hy1 : (civil d).year ≤ 9999) :
    unmarshalJSON .date (asciiBytes (marshalJSON d)) = .ok d := by
  cases d with | mk k s n o =>
  obtain ⟨hk, hn, ho, hm⟩ := wf
  simp only at hk hn ho hm
  subst hk; subst hn; subst ho
  obtain ⟨hday, hm1, hm2, hd1, hd2⟩ := civilFromDays_spec (s / 86400)
  simp only [civil, DateTime.t, GoTime.civil, Int.add_zero, civilOfUnix] at hy0 hy1
  have hstr : toString ⟨.date, s, 0, 0⟩ = appendInt (civilFromDays (s / 86400)).1 4 ++ '-' ::
      (appendInt (civilFromDays (s / 86400)).2.1 2 ++ '-' :: (appendInt (civilFromDays (s / 86400)).2.2 2 ++ [])) := by
    simp only [toString, outLayout, format_dateL, DateTime.t, GoTime.civil, Int.add_zero, civilOfUnix]
  generalize civilFromDays (s / 86400) = c at *
  obtain ⟨y, m, dd⟩ := c
  simp only at *
  obtain ⟨yN, hyN⟩ : ∃ yN : Nat, y = yN := ⟨y.toNat, by omega⟩
  obtain ⟨mN, hmN⟩ : ∃ mN : Nat, m = mN := ⟨m.toNat, by omega⟩
  obtain ⟨dN, hdN⟩ : ∃ dN : Nat, dd = dN := ⟨dd.toNat, by omega⟩
  subst hyN; subst hmN; subst hdN
  have hd100 : dN < 100 := by
    have : daysIn (mN : Int) (yN : Int) ≤ 31 := by unfold daysIn; split <;> (try split) <;> omega
    omega
  rw [appendInt_four yN (by omega), appendInt_two mN (by omega), appendInt_two dN hd100] at hstr
  have hall : ∀ c ∈ toString ⟨.date, s, 0, 0⟩, OutChar c := by
    rw [hstr]; intro c hc
    simp only [List.mem_append, List.mem_cons, List.mem_nil_iff, or_false] at hc
    rcases hc with hc | hc | hc | hc | hc
    · exact all_d4 _ (by omega) c hc
    · subst hc; exact Or.inr (Or.inr (Or.inr (Or.inl rfl)))
    · exact all_d2 _ (by omega) c hc
    · subst hc; exact Or.inr (Or.inr (Or.inr (Or.inl rfl)))
    · exact all_d2 _ hd100 c hc
  obtain ⟨e1, e2⟩ := unmarshal_marshal_shape _ hall
  simp only [unmarshalJSON, e1, e2]
  rw [hstr, goParse_date yN mN dN (by omega) (by omega) (by omega) (by omega) hd2]
  simp only [parsedOr, newDate_eq, Int.add_zero]
  rw [hday]
  have : s / 86400 * 86400 / 86400 * 86400 = s := by omega
  rw [this]

/-! ### which zone layout `UnmarshalJSON` picks for the canonical output -/

theorem b8_toNat (c : Char) (h : c.toNat < 128) : (b8 c).toNat = c.toNat := by
  simp only [b8, UInt8.toNat_ofNat']; omega

/-- digits, `:` and `.` are not signs -/
def ClockChar (c : Char) : Prop := isDigit c = true ∨ c = ':' ∨ c = '.'

theorem clockChar_range (c : Char) (h : ClockChar c) : 46 ≤ c.toNat ∧ c.toNat ≤ 58 := by
  rcases h with h | h | h
  · simp only [isDigit, Bool.and_eq_true, decide_eq_true_eq] at h
    have h1 : '0'.toNat ≤ c.toNat := h.1
    have h2 : c.toNat ≤ '9'.toNat := h.2
    simp at h1 h2; omega
  · subst h; decide
  · subst h; decide

theorem b8_clock_nonsign (c : Char) (h : ClockChar c) : (b8 c == 45 || b8 c == 43) = false := by
  have hr := clockChar_range c h
  have ht := b8_toNat c (by omega)
  have h1 : b8 c ≠ 45 := fun e => by rw [e] at ht; simp at ht; omega
  have h2 : b8 c ≠ 43 := fun e => by rw [e] at ht; simp at ht; omega
  simp [h1, h2]

theorem b8_sgn (off : Int) : (b8 (sgnChar off) == 45 || b8 (sgnChar off) == 43) = true := by
  unfold sgnChar; split <;> decide

theorem signAt_eq (str : List UInt8) (k : Nat) (hk : k ≤ str.length) :
    signAt str k = (str[str.length - k]?).map (fun b => b == 45 || b == 43) := by
  have : ¬ str.length < k := by omega
  simp only [signAt, this, if_false]
  cases str[str.length - k]? <;> rfl

theorem tzStr_length (off : Int) : (tzStr off).length = 6 := rfl

/-- for `… ':' ss [.fff] ±hh:mm` both `UnmarshalJSON` methods choose the `Z07:00` layout -/
theorem style_of_canonical (P Q : List Char) (off : Int) (hQ : ∀ c ∈ Q, ClockChar c) (hQ3 : 3 ≤ Q.length) :
    timestampTZStyle (asciiBytes (P ++ (Q ++ (tzStr off ++ [])))) = .colon := by
  have hlen : (asciiBytes (P ++ (Q ++ (tzStr off ++ [])))).length = P.length + Q.length + 6 := by
    simp [asciiBytes, tzStr_length]; omega
  have h9 : signAt (asciiBytes (P ++ (Q ++ (tzStr off ++ [])))) 9 = some false := by
    rw [signAt_eq _ 9 (by omega), hlen]
    simp only [asciiBytes, List.getElem?_map]
    have e : P.length + Q.length + 6 - 9 = P.length + (Q.length - 3) := by omega
    rw [e, List.getElem?_append_right (by omega)]
    have e2 : P.length + (Q.length - 3) - P.length = Q.length - 3 := by omega
    rw [e2, List.getElem?_append_left (by omega)]
    have hlt : Q.length - 3 < Q.length := by omega
    rw [List.getElem?_eq_getElem hlt]
    simp only [Option.map_some]
    rw [b8_clock_nonsign _ (hQ _ (List.getElem_mem hlt))]
  have h6 : signAt (asciiBytes (P ++ (Q ++ (tzStr off ++ [])))) 6 = some true := by
    rw [signAt_eq _ 6 (by omega), hlen]
    simp only [asciiBytes, List.getElem?_map]
    have e : P.length + Q.length + 6 - 6 = P.length + Q.length := by omega
    rw [e, List.getElem?_append_right (by omega)]
    have e2 : P.length + Q.length - P.length = Q.length := by omega
    rw [e2, List.getElem?_append_right (by omega)]
    simp only [Nat.sub_self, tzStr, List.cons_append, List.getElem?_cons_zero, Option.map_some]
    rw [b8_sgn]
  unfold timestampTZStyle
  rw [h9, h6, hlen]
  have : 9 ≤ P.length + Q.length + 6 := by omega
  simp

theorem all_cons {P : Char → Prop} (c : Char) (l : List Char) (hc : P c) (hl : ∀ x ∈ l, P x) : ∀ x ∈ c :: l, P x := by
  intro x hx; simp only [List.mem_cons] at hx; rcases hx with h | h; · subst h; exact hc
  exact hl x h

theorem all_app {P : Char → Prop} (a b : List Char) (ha : ∀ x ∈ a, P x) (hb : ∀ x ∈ b, P x) : ∀ x ∈ a ++ b, P x := by
  intro x hx; simp only [List.mem_append] at hx; rcases hx with h | h; · exact ha x h
  exact hb x h

theorem outColon : OutChar ':' := Or.inr (Or.inl rfl)
theorem outDash : OutChar '-' := Or.inr (Or.inr (Or.inr (Or.inl rfl)))
theorem outT : OutChar 'T' := Or.inr (Or.inr (Or.inr (Or.inr (Or.inr rfl))))

theorem all_clock (h mi s n : Nat) (hh : h < 24) (hmi : mi < 60) (hs : s < 60) (hn : n < 1000000000)
    (R : List Char) (hR : ∀ c ∈ R, OutChar c) :
    ∀ c ∈ d2 h ++ ':' :: (d2 mi ++ ':' :: (d2 s ++ (fmtFrac9 n ++ R))), OutChar c :=
  all_app _ _ (all_d2 h (by omega)) (all_cons _ _ outColon (all_app _ _ (all_d2 mi (by omega))
    (all_cons _ _ outColon (all_app _ _ (all_d2 s (by omega)) (all_app _ _ (all_frac n hn) hR)))))

theorem all_ymd (y m dd : Nat) (hy : y < 10000) (hm : m < 100) (hd : dd < 100) (R : List Char)
    (hR : ∀ c ∈ R, OutChar c) : ∀ c ∈ d4 y ++ '-' :: (d2 m ++ '-' :: (d2 dd ++ R)), OutChar c :=
  all_app _ _ (all_d4 y hy) (all_cons _ _ outDash (all_app _ _ (all_d2 m hm)
    (all_cons _ _ outDash (all_app _ _ (all_d2 dd hd) hR))))

theorem clock_tail (s n : Nat) (hs : s < 60) (hn : n < 1000000000) :
    (∀ c ∈ ':' :: (d2 s ++ fmtFrac9 n), ClockChar c) ∧ 3 ≤ (':' :: (d2 s ++ fmtFrac9 n)).length := by
  constructor
  · refine all_cons (P := ClockChar) ':' _ (Or.inr (Or.inl rfl)) ?_
    refine all_app (P := ClockChar) _ _ ?_ ?_
    · intro c hc
      simp only [d2, List.mem_cons, List.mem_nil_iff, or_false] at hc
      rcases hc with hc | hc <;> subst hc <;> exact Or.inl (isDigit_dc _ (by omega))
    · intro c hc
      unfold fmtFrac9 at hc
      split at hc
      · cases hc
      · rw [appendInt_nat 9 n (by omega) (by omega)] at hc
        simp only [List.mem_cons] at hc
        rcases hc with hc | hc
        · subst hc; exact Or.inr (Or.inr rfl)
        · exact Or.inl (allDigits_trimZeros _ (allDigits_padDigits 9 n) c hc)
  · simp [d2]

/-- **C18, Time**: `UnmarshalJSON(MarshalJSON(t)) = t` -/
theorem unmarshal_marshal_time (d : DateTime) (wf : TimeWF d) :
    unmarshalJSON .time (asciiBytes (marshalJSON d)) = .ok d := by
  cases d with | mk k w n o =>
  obtain ⟨hk, ho, hn, hlo, hhi⟩ := wf
  simp only at hk ho hn hlo hhi
  subst hk; subst ho
  obtain ⟨h, mi, s, hh, hmi, hs, eh, em, es⟩ := clock_nat w
  have hstr : toString ⟨.time, w, n, 0⟩ = d2 h ++ ':' :: (d2 mi ++ ':' :: (d2 s ++ (fmtFrac9 n ++ []))) := by
    simp only [toString, outLayout, format_timeFracL, DateTime.t, GoTime.civil, Int.add_zero, eh, em, es]
    rw [appendInt_two h (by omega), appendInt_two mi (by omega), appendInt_two s (by omega)]
  have hall : ∀ c ∈ toString ⟨.time, w, n, 0⟩, OutChar c := by
    rw [hstr]; exact all_clock h mi s n hh hmi hs hn [] (fun c hc => by cases hc)
  obtain ⟨e1, e2⟩ := unmarshal_marshal_shape _ hall
  simp only [unmarshalJSON, e1, e2]
  have hl : timeFracL = hmsL ++ (.frac9 :: []) := rfl
  rw [hstr, goParse, hl, parse_hms_frac [] {} rfl h mi s n hh hmi hs hn [] cleanRest_nil, parseLayout_nil]
  simp only []
  rw [finishParse_clock h mi s n w hn eh em es]
  simp only [parsedOr]
  rw [newTime_eq _ hn]
  simp only [Int.add_zero, yearZero] at *
  have e : (-62167219200 + w % 86400) % 86400 = w % 86400 := by omega
  rw [e]
  have : -62167219200 + w % 86400 = w := by omega
  rw [this]

/-- **C18, TimeTZ**: `UnmarshalJSON(MarshalJSON(t)) = t` for whole-minute offsets up to ±24:59 -/
theorem unmarshal_marshal_timetz (d : DateTime) (wf : TimeTZWF d) :
    unmarshalJSON .timetz (asciiBytes (marshalJSON d)) = .ok d := by
  cases d with | mk k u n o =>
  obtain ⟨hk, hn, hoff, hlo, hhi⟩ := wf
  simp only at hk hn hoff hlo hhi
  subst hk
  obtain ⟨h, mi, s, hh, hmi, hs, eh, em, es⟩ := clock_nat (u + o)
  have hstr : toString ⟨.timetz, u, n, o⟩ =
      d2 h ++ ':' :: (d2 mi ++ ':' :: (d2 s ++ (fmtFrac9 n ++ (tzStr o ++ [])))) := by
    simp only [toString, outLayout, format_timeTZOutL, DateTime.t, GoTime.civil, eh, em, es, fmtTz_colon o hoff]
    rw [appendInt_two h (by omega), appendInt_two mi (by omega), appendInt_two s (by omega), List.append_nil]
  have hall : ∀ c ∈ toString ⟨.timetz, u, n, o⟩, OutChar c := by
    rw [hstr]; exact all_clock h mi s n hh hmi hs hn _ (all_app _ _ (all_tzStr o hoff) (fun c hc => by cases hc))
  obtain ⟨e1, e2⟩ := unmarshal_marshal_shape _ hall
  obtain ⟨hQ, hQ3⟩ := clock_tail s n hs hn
  have hstyle : timestampTZStyle (asciiBytes (toString ⟨.timetz, u, n, o⟩)) = .colon := by
    have hre : toString ⟨.timetz, u, n, o⟩ =
        (d2 h ++ ':' :: d2 mi) ++ ((':' :: (d2 s ++ fmtFrac9 n)) ++ (tzStr o ++ [])) := by
      rw [hstr]; simp [List.append_assoc]
    rw [hre]; exact style_of_canonical _ _ o hQ hQ3
  simp only [unmarshalJSON, e1, e2, hstyle]
  have hl : timeTZFracL .colon = hmsL ++ (.frac9 :: [.tz true .colon]) := rfl
  have hne : o ≠ -1 := by have := hoff.minute; omega
  rw [hstr, goParse, hl, parse_hms_frac _ {} rfl h mi s n hh hmi hs hn _ (cleanRest_tzStr o []),
    parseLayout_step (parseEl_tz_colon _ _ o hoff []), parseLayout_nil]
  simp only []
  rw [finishParse_clock_off h mi s n (u + o) o hn hne eh em es]
  simp only [parsedOr, mkDT, yearZero] at *
  have : -62167219200 + (u + o) % 86400 - o = u := by omega
  rw [this]

/-- **C18, Timestamp**: `UnmarshalJSON(MarshalJSON(ts)) = ts` -/
theorem unmarshal_marshal_timestamp (d : DateTime) (wf : TimestampStrWF d) :
    unmarshalJSON .timestamp (asciiBytes (marshalJSON d)) = .ok d := by
  cases d with | mk k w n o =>
  obtain ⟨⟨hk, hn, ho⟩, hy0, hy1⟩ := wf
  simp only at hk hn ho
  subst hk; subst ho
  simp only [civil, DateTime.t, GoTime.civil, Int.add_zero] at hy0 hy1
  obtain ⟨y, m, dd, h, mi, s, hy, hm1, hm2, hd1, hd100, hd2, hh, hmi, hs, ey, emo, ed, eh, em, es⟩ :=
    civil_nat w hy0 hy1
  have hstr : toString ⟨.timestamp, w, n, 0⟩ = d4 y ++ '-' :: (d2 m ++ '-' :: (d2 dd ++ 'T' ::
      (d2 h ++ ':' :: (d2 mi ++ ':' :: (d2 s ++ (fmtFrac9 n ++ [])))))) := by
    simp only [toString, outLayout, format_timestampFracL, DateTime.t, GoTime.civil, Int.add_zero, ey, emo, ed, eh, em, es]
    rw [appendInt_four y hy, appendInt_two m (by omega), appendInt_two dd hd100, appendInt_two h (by omega),
      appendInt_two mi (by omega), appendInt_two s (by omega)]
  have hall : ∀ c ∈ toString ⟨.timestamp, w, n, 0⟩, OutChar c := by
    rw [hstr]
    exact all_ymd y m dd hy (by omega) hd100 _ (all_cons _ _ outT
      (all_clock h mi s n hh hmi hs hn [] (fun c hc => by cases hc)))
  obtain ⟨e1, e2⟩ := unmarshal_marshal_shape _ hall
  simp only [unmarshalJSON, e1, e2]
  have hl : timestampFracL = ymdL ++ (.lit 'T' :: (hmsL ++ (.frac9 :: []))) := rfl
  rw [hstr, goParse, hl, parse_ymd _ _ y m dd hy hm1 hm2 hd100, parseLayout_step (parseEl_lit 'T' (by decide) _ _ _),
    parse_hms_frac [] _ rfl h mi s n hh hmi hs hn [] cleanRest_nil, parseLayout_nil]
  simp only []
  rw [finishParse_civil w n hn y m dd h mi s (-1) hd1 hd2 ey emo ed eh em es]
  simp only [parsedOr]
  rw [newTimestamp_eq _ (by simpa using hn)]
  simp

/-- **C18, TimestampTZ**: `UnmarshalJSON(MarshalJSON(ts)) = ts` (same instant, same offset) -/
theorem unmarshal_marshal_timestamptz (d : DateTime) (wf : TimestampTZStrWF d) :
    unmarshalJSON .timestamptz (asciiBytes (marshalJSON d)) = .ok d := by
  cases d with | mk k u n o =>
  obtain ⟨hk, hn, hoff, hy0, hy1⟩ := wf
  simp only at hk hn hoff
  subst hk
  simp only [civil, DateTime.t, GoTime.civil] at hy0 hy1
  obtain ⟨y, m, dd, h, mi, s, hy, hm1, hm2, hd1, hd100, hd2, hh, hmi, hs, ey, emo, ed, eh, em, es⟩ :=
    civil_nat (u + o) hy0 hy1
  have hstr : toString ⟨.timestamptz, u, n, o⟩ = d4 y ++ '-' :: (d2 m ++ '-' :: (d2 dd ++ 'T' ::
      (d2 h ++ ':' :: (d2 mi ++ ':' :: (d2 s ++ (fmtFrac9 n ++ (tzStr o ++ []))))))) := by
    simp only [toString, outLayout, format_timestampTZOutL, DateTime.t, GoTime.civil, ey, emo, ed, eh, em, es,
      fmtTz_colon o hoff]
    rw [appendInt_four y hy, appendInt_two m (by omega), appendInt_two dd hd100, appendInt_two h (by omega),
      appendInt_two mi (by omega), appendInt_two s (by omega), List.append_nil]
  have hall : ∀ c ∈ toString ⟨.timestamptz, u, n, o⟩, OutChar c := by
    rw [hstr]
    exact all_ymd y m dd hy (by omega) hd100 _ (all_cons _ _ outT
      (all_clock h mi s n hh hmi hs hn _ (all_app _ _ (all_tzStr o hoff) (fun c hc => by cases hc))))
  obtain ⟨e1, e2⟩ := unmarshal_marshal_shape _ hall
  obtain ⟨hQ, hQ3⟩ := clock_tail s n hs hn
  have hstyle : timestampTZStyle (asciiBytes (toString ⟨.timestamptz, u, n, o⟩)) = .colon := by
    have hre : toString ⟨.timestamptz, u, n, o⟩ =
        (d4 y ++ '-' :: (d2 m ++ '-' :: (d2 dd ++ 'T' :: (d2 h ++ ':' :: d2 mi)))) ++
          ((':' :: (d2 s ++ fmtFrac9 n)) ++ (tzStr o ++ [])) := by
      rw [hstr]; simp [List.append_assoc]
    rw [hre]; exact style_of_canonical _ _ o hQ hQ3
  simp only [unmarshalJSON, e1, e2, hstyle]
  have hl : timestampTZFracL .colon = ymdL ++ (.lit 'T' :: (hmsL ++ (.frac9 :: [.tz true .colon]))) := rfl
  have hne : o ≠ -1 := by have := hoff.minute; omega
  rw [hstr, goParse, hl, parse_ymd _ _ y m dd hy hm1 hm2 hd100, parseLayout_step (parseEl_lit 'T' (by decide) _ _ _),
    parse_hms_frac _ _ rfl h mi s n hh hmi hs hn _ (cleanRest_tzStr o []),
    parseLayout_step (parseEl_tz_colon _ _ o hoff []), parseLayout_nil]
  simp only []
  rw [finishParse_civil (u + o) n hn y m dd h mi s o hd1 hd2 ey emo ed eh em es]
  simp [parsedOr, mkDT, hne]
end Time
end Sqljson

namespace Sqljson
namespace C18
open Time Exec

/-- `.string()` inside a path prints the same text as `String()` -/
theorem path_string_same (d : DateTime) : convString (.dt d) = .val (.str (Time.toString d)) := rfl

/-- the values `String()` / `MarshalJSON` are specified for: canonical representation (as the
    constructors produce it), `nsec < 10⁹`, year 0..9999 in the value's own offset, whole-minute
    offset of at most ±24:59 -/
def StrWF (d : DateTime) : Prop :=
  match d.kind with
  | .date => DateWF d ∧ 0 ≤ (civil d).year ∧ (civil d).year ≤ 9999
  | .time => TimeWF d
  | .timetz => TimeTZWF d
  | .timestamp => TimestampStrWF d
  | .timestamptz => TimestampTZStrWF d

/-- **C18**: `ParseTime(v.String())` returns an equal value of the same type, for all five types -/
theorem parse_string_roundtrip (env : Time.Env) (d : DateTime) (h : StrWF d) :
    parseTime env (Time.toString d) (-1) = some d := by
  cases d with | mk k s n o =>
  cases k <;> simp only [StrWF] at h
  · exact parseTime_toString_date env (-1) _ h.1 h.2.1 h.2.2
  · exact parseTime_toString_time env _ h
  · exact parseTime_toString_timetz env _ h
  · exact parseTime_toString_timestamp env _ h
  · exact parseTime_toString_timestamptz env _ h

/-- **C18**: `UnmarshalJSON(MarshalJSON(v))` returns an equal value, for all five types -/
theorem json_roundtrip (d : DateTime) (h : StrWF d) :
    unmarshalJSON d.kind (asciiBytes (marshalJSON d)) = .ok d := by
  cases d with | mk k s n o =>
  cases k <;> simp only [StrWF] at h
  · exact unmarshal_marshal_date _ h.1 h.2.1 h.2.2
  · exact unmarshal_marshal_time _ h
  · exact unmarshal_marshal_timetz _ h
  · exact unmarshal_marshal_timestamp _ h
  · exact unmarshal_marshal_timestamptz _ h

/-- hostile input: every byte string gives a value or an error, never a panic -/
theorem unmarshal_total (k : DTKind) (data : List UInt8) : unmarshalJSON k data ≠ .panic :=
  unmarshalJSON_never_panics k data

end C18
end Sqljson
