import Sqljson.Lemmas.Prov
import Sqljson.Props.C05
import Sqljson.Props.C16
/-!
# C05 (second part) — no panic, no `ErrInvalid`, provenance and finiteness of what is returned

Property C05: *"For every parsed path, every JSON value of the documented Go types and every option
set, Query, First, Exists, Match and ExistsOrMatch return without panicking; a non-nil error always
wraps exec.ErrExecution, or is exec.NULL from Exists/Match/ExistsOrMatch only, and exec.ErrInvalid -
reserved for implementation bugs - is never returned for a parser-produced path.  The queried value
and the variables map are never modified, every returned number is finite, and every returned
container is a sub-value of the input or of a variable, or a keyvalue() triple."*

`Props/C05.lean` has the value-level facts.  This file has the statements over whole runs, all by the
single induction `Exec.Total.tot_all` of `Lemmas/Total.lean` (one lemma per Go function, induction on
the fuel over `xItem`/`xBool`/`xAny`), instantiated with different classes of items.

## Definitions

* `Exec.Total.WF G n` (`Lemmas/Total.lean`) — the decidable syntactic well-formedness of a tree:
  every operand the executor dereferences is present (both operands of every boolean and arithmetic
  binary operator, the operand of `! / is unknown / exists / unary ± / filter`, the `from` of every
  subscript), every boolean position (`&&`, `||`, `!`, `is unknown`, filter condition) holds a boolean
  node (`WFB`: a boolean binary operator, `! / is unknown / exists`, `like_regex`) with nothing chained
  to it, the members of `[…]` are `subscript` nodes; and the tree uses only what the configuration
  `G : Cfg` allows: `G.rx` the `like_regex` patterns, `G.lit` the numeric literals, `G.dtm` the
  datetime methods, `G.dec` `.decimal()`, `G.meth` the item methods.
* `RegexOK G o` — the patterns `G.rx` allows compile (`Opts.regexMatch … = some _`).
* `ValOK doc o` — the queried value and the variable values contain no datetime item and every
  json.Number text in them is a JSON number (`Item.validJNum`); `valOK_of_docOK` derives it from
  `Item.docOK` plus "no datetime".  `NumOK`: the same with datetime items allowed.
* `dtFree n` — the path contains no datetime method; `fits G n` — the path uses only what `G` allows
  (`WF_fits`: a well-formed path that fits `G'` is well formed for `meet G G'`).
* `Exec.Prov.Allowed c x` (`Lemmas/Prov.lean`) — `x` is a scalar, a sub-value (`SubOf`) of the queried
  value or of a variable value, or a `keyvalue()` triple whose `value` is `Allowed`.

## Theorems

TASK A
* `never_panics`            `WF G a.root`, `RegexOK G o` ⇒ `run e fuel a doc o ≠ .panic` — every entry
                            point, fuel, value, variables map, option set; no condition on the values.
* `never_invalid`           additionally `G.dtm = false`, `ValOK doc o` ⇒ `run … ≠ .error .invalid`.
* `never_panics_never_invalid`  both in one statement.
* `compare_invalid_only_datetime`, `invalid_only_from_datetime_compare` — D15 is the only source:
                            the callback returns `ErrInvalid` only for datetime vs non-datetime-non-null;
                            a run on a `WF` path over `NumOK` values returns it only if the path is not
                            `dtFree` or an input contains a datetime value.  `d15_via_method`,
                            `d15_via_value`: both happen (`rfl`).
* `parsed_wf`               `Parse.parse po bytes = .ok a ⇒ WF (ParseWF.cfg po) a.root` — every tree the
                            parser model accepts is well formed (`ParseWF.parse_ok_WF_cfg`, by induction
                            over the sixteen grammar functions; no `ParserShape` hypothesis is left).
* `parsed_never_panics`, `parsed_never_invalid`, `parsed_invalid_only_datetime`,
  `parsed_error_wraps_execution` — the same for parser-produced paths; `OracleRegex po o` is the
                            oracle's contract (a pattern `syntax.Parse` accepts, `MustCompile` compiles).
* `error_classes`, `null_only_from_exists_match` (C06) — the error classes.
* `IntFloat.intTextIsFloat` — the `strconv` law `C05.IntTextIsFloat` (every text `ParseInt(·,10,64)` accepts,
                            `ParseFloat(·,64)` accepts), which `C05.compare_never_panics` assumes, is proved
                            here for the model `Model/Decimal.lean`; so no theorem below has it as a hypothesis.

TASK B
* `query_provenance`, `first_provenance` — every returned item is `Allowed`, for **every** tree.
* `returned_container`, `returned_array` — a returned container is a sub-value of an input or a
                            `keyvalue()` triple; a returned array is always a sub-value of an input:
                            no function appends a freshly built container other than the triple.

TASK C
* `binary_result_finite`, `double_number_finite`, `applyF_finite` — the steps.
* `returned_numbers_finite`, `parsed_returned_numbers_finite` — every float inside every returned item
                            is finite, given finite inputs and finite literals, for paths without
                            `.decimal()` (D17c: `decimal_returns_nan`) and `.floor()`/`.ceiling()`
                            (`floor_noncanonical`: a limitation of the statement over the raw model type).

The complete list of the places where the model panics or produces `Err.invalid`, with the condition
that excludes each, is in the header of `Lemmas/Total.lean`.
-/

/-!
# Every text `strconv.ParseInt(·, 10, 64)` accepts is accepted by `strconv.ParseFloat(·, 64)`

The `strconv` law `C05.IntTextIsFloat`, proved for the model in `Sqljson.Model.Decimal`.
-/
namespace Sqljson.IntFloat
open Sqljson Sqljson.JNum

/-! ## the digit run -/

/-- `takeDigits` consuming the whole list: all digits, and `takeMant` computes the same value -/
theorem takeDigits_all (cs : List Char) (acc n v n' : Nat)
    (h : Decimal.takeDigits cs acc n = (v, n', [])) :
    AllDig cs ∧ n' = n + cs.length ∧
      ∀ nd nf, Decimal.takeMant cs acc nd nf false = (v, nd + cs.length, nf, false, []) := by
  induction cs generalizing acc n with
  | nil =>
    rw [Decimal.takeDigits] at h
    injection h with h1 h2
    injection h2 with h2 _
    subst h1 h2
    exact ⟨allDig_nil, rfl, fun nd nf => rfl⟩
  | cons c cs ih =>
    rw [Decimal.takeDigits] at h
    by_cases hc : Decimal.isDigit c = true
    · rw [if_pos hc] at h
      obtain ⟨a1, a2, a3⟩ := ih _ _ h
      refine ⟨allDig_cons hc a1, by rw [a2, List.length_cons]; omega, ?_⟩
      intro nd nf
      rw [Decimal.takeMant, if_pos hc]
      simp only [Bool.false_eq_true, if_false]
      rw [a3 (nd + 1) nf, List.length_cons]
      congr 2; omega
    · rw [if_neg hc] at h
      injection h with _ h2
      injection h2 with _ h3
      cases h3

/-! ## what `ParseInt` accepts -/

/-- the shape of an accepted text: sign, the digit run and its value -/
theorem parseInt_spec {t : List Char} {i : Int} (h : Decimal.parseInt10 64 t = .ok i) :
    ∃ (neg : Bool) (body : List Char) (v n : Nat),
      ((neg = false ∧ t = body ∧ (∀ r, body ≠ '+' :: r) ∧ (∀ r, body ≠ '-' :: r)) ∨
        (neg = false ∧ t = '+' :: body) ∨ (neg = true ∧ t = '-' :: body)) ∧
      Decimal.takeDigits body 0 0 = (v, n, []) ∧ n ≠ 0 ∧ v ≤ 2 ^ 63 := by
  unfold Decimal.parseInt10 at h
  split at h
  rename_i x neg body heq
  have hshape : (neg = false ∧ t = body ∧ (∀ r, body ≠ '+' :: r) ∧ (∀ r, body ≠ '-' :: r)) ∨
        (neg = false ∧ t = '+' :: body) ∨ (neg = true ∧ t = '-' :: body) := by
    split at heq
    · injection heq with a b; subst a b; exact Or.inr (Or.inl ⟨rfl, rfl⟩)
    · injection heq with a b; subst a b; exact Or.inr (Or.inr ⟨rfl, rfl⟩)
    · rename_i hp hm
      injection heq with a b; subst a b
      exact Or.inl ⟨rfl, rfl, fun r e => hp r e, fun r e => hm r e⟩
  split at h
  · rename_i v n hd
    refine ⟨neg, body, v, n, hshape, hd, ?_, ?_⟩
    · intro hn
      rw [if_pos hn] at h
      cases h
    · by_cases hn : n = 0
      · rw [if_pos hn] at h; cases h
      · rw [if_neg hn] at h
        simp only at h
        have e : (64 - 1 : Nat) = 63 := rfl
        rw [e] at h
        cases neg with
        | true =>
          simp only [if_true] at h
          split at h
          · cases h
          · omega
        | false =>
          simp only [Bool.false_eq_true, if_false] at h
          split at h
          · cases h
          · omega
  · cases h

/-! ## the value is finite -/

theorem pickExp_le (num den : Nat) :
    F64.pickExp num den ≤ F64.minExp ∨
      F64.pickExp num den ≤ (Nat.log2 num : Int) - (Nat.log2 den : Int) - 51 := by
  unfold F64.pickExp F64.minExp
  simp only
  repeat' split
  all_goals omega

theorem log2_le_63 {v : Nat} (hv : v ≤ 2 ^ 63) : Nat.log2 v ≤ 63 := by
  by_cases h0 : v = 0
  · subst h0; decide
  · have : Nat.log2 v < 64 := (Nat.log2_lt h0).mpr (by omega)
    omega

theorem finish_fin (neg : Bool) (m : Nat) (e : Int) (he : e ≤ 971) :
    F64.finish neg m e = .fin neg m e := by
  unfold F64.finish
  rw [if_neg]
  unfold F64.maxExp
  omega

theorem roundPos_finite (neg : Bool) (v : Nat) (hv : v ≤ 2 ^ 63) :
    (F64.roundPos neg v 1).isInf = false := by
  have hl := log2_le_63 hv
  have h1 : Nat.log2 1 = 0 := by decide
  have hp : F64.pickExp v 1 ≤ 12 := by
    rcases pickExp_le v 1 with h | h
    · unfold F64.minExp at h; omega
    · rw [h1] at h; omega
  unfold F64.roundPos
  split
  · rfl
  · simp only
    split
    · rw [finish_fin _ _ _ (by omega)]; rfl
    · rw [finish_fin _ _ _ (by omega)]; rfl

theorem digitCount_le {v : Nat} (hv : v ≤ 2 ^ 63) : Decimal.digitCount v ≤ 20 := by
  unfold Decimal.digitCount
  rw [Nat.length_toDigits_le_iff (by decide) (by decide)]
  have : (2 : Nat) ^ 63 < 10 ^ 20 := by decide
  omega

theorem scale10_finite (neg : Bool) (v : Nat) (hv : v ≤ 2 ^ 63) :
    (Decimal.scale10 neg v 0).isInf = false := by
  have hd := digitCount_le hv
  unfold Decimal.scale10
  split
  · rfl
  · simp only
    split
    · omega
    · split
      · rfl
      · split
        · have e : v * 10 ^ (0 : Int).toNat = v := by simp
          rw [e]
          exact roundPos_finite neg v hv
        · omega

/-! ## `ParseFloat` on such a text -/

theorem dec_ok (neg : Bool) (body : List Char) (v n : Nat)
    (hd : Decimal.takeDigits body 0 0 = (v, n, [])) (hn : n ≠ 0) (hv : v ≤ 2 ^ 63) :
    Decimal.parseFloatNoUnderscore.dec neg body = .ok (Decimal.scale10 neg v 0) := by
  obtain ⟨_, hlen, hm⟩ := takeDigits_all body 0 0 v n hd
  have hnd : ¬ (0 + body.length = 0) := by omega
  have he : Decimal.takeExp 'e' [] = some (0, []) := rfl
  unfold Decimal.parseFloatNoUnderscore.dec
  rw [hm 0 0]
  simp only [hnd, if_false, he]
  have e0 : ((0 : Int) - ((0 : Nat) : Int)) = 0 := by decide
  rw [e0, scale10_finite neg v hv]
  simp

theorem pfnu_plus (t : List Char) :
    Decimal.parseFloatNoUnderscore ('+' :: t) = pfBody false t ('+' :: t) := by
  rfl

theorem digit_not_x {ds : List Char} (h : AllDig ds) : ∀ x ∈ ds, Decimal.lowerC x ≠ 'x' := by
  intro x hx
  rw [digit_lowerC (h x hx)]
  exact (digit_ne (h x hx)).2.2.2.2.2.2.1

theorem digit_not_us {ds : List Char} (h : AllDig ds) : ∀ x ∈ ds, x ≠ '_' :=
  fun x hx => (digit_ne (h x hx)).2.2.2.2.2.1

theorem intTextIsFloat : C05.IntTextIsFloat := by
  intro t i h
  unfold Decimal.jnumInt64 at h
  obtain ⟨neg, body, v, n, hshape, hd, hn, hv⟩ := parseInt_spec h
  obtain ⟨hall, hlen, _⟩ := takeDigits_all body 0 0 v n hd
  refine ⟨Decimal.scale10 neg v 0, ?_⟩
  unfold Decimal.jnumFloat64
  cases body with
  | nil => exact absurd (by rw [hlen]; rfl) hn
  | cons c ds =>
    have hc := allDig_head hall
    have hds := allDig_tail hall
    have hdn := digit_ne hc
    have hu : t.contains '_' = false := by
      apply no_underscore
      intro x hx
      rcases hshape with ⟨_, rfl, _⟩ | ⟨_, rfl⟩ | ⟨_, rfl⟩
      · exact digit_not_us hall x hx
      · rcases List.mem_cons.mp hx with rfl | hx
        · decide
        · exact digit_not_us hall x hx
      · rcases List.mem_cons.mp hx with rfl | hx
        · decide
        · exact digit_not_us hall x hx
    unfold Decimal.parseFloat
    rw [hu]
    simp only [Bool.false_eq_true, if_false]
    rw [← dec_ok neg (c :: ds) v n hd hn hv]
    rcases hshape with ⟨rfl, rfl, _⟩ | ⟨rfl, rfl⟩ | ⟨rfl, rfl⟩
    · rw [pfnu_plain c _ hdn.2.2.2.1 hdn.2.2.2.2.1]
      refine pfBody_dec false c _ _ hc ?_ (digit_not_x hds)
      exact eqFold_head_false c _ "nan" 'n' ['a', 'n'] (by decide)
        (by rw [digit_lowerC hc]; exact hdn.2.2.2.2.2.2.2.2)
    · rw [pfnu_plus]
      refine pfBody_dec false c _ _ hc ?_ (digit_not_x hds)
      exact eqFold_head_false '+' _ "nan" 'n' ['a', 'n'] (by decide) (by decide)
    · rw [pfnu_minus]
      refine pfBody_dec true c _ _ hc ?_ (digit_not_x hds)
      exact eqFold_head_false '-' _ "nan" 'n' ['a', 'n'] (by decide) (by decide)

end Sqljson.IntFloat

namespace Sqljson
namespace C05b
open Exec Api Exec.Total

/-! ## restricting a configuration -/

mutual
  /-- every construct the tree uses is allowed by the configuration `G` -/
  def fits (G : Cfg) : Node → Bool
    | .const _ nx => fitsO G nx
    | .method m nx => G.meth m && fitsO G nx
    | .str _ nx => fitsO G nx
    | .var _ nx => fitsO G nx
    | .key _ nx => fitsO G nx
    | .numeric x nx => G.lit x && fitsO G nx
    | .integer _ nx => fitsO G nx
    | .any _ _ nx => fitsO G nx
    | .binary op l r nx => (op != .decimal || G.dec) && fitsO G l && fitsO G r && fitsO G nx
    | .unary op x nx => (!isDateTimeOp op || G.dtm) && fitsO G x && fitsO G nx
    | .regex x p fl nx => G.rx p fl && fits G x && fitsO G nx
    | .arrayIndex subs nx => fitsL G subs && fitsO G nx
  def fitsO (G : Cfg) : Option Node → Bool
    | none => true
    | some n => fits G n
  def fitsL (G : Cfg) : List Node → Bool
    | [] => true
    | n :: ns => fits G n && fitsL G ns
end

/-- what both configurations allow -/
def meet (G G' : Cfg) : Cfg :=
  { rx := fun p fl => G.rx p fl && G'.rx p fl, lit := fun x => G.lit x && G'.lit x, dtm := G.dtm && G'.dtm,
    dec := G.dec && G'.dec, meth := fun m => G.meth m && G'.meth m }

mutual
  theorem WF_fits {G G' : Cfg} : ∀ n : Node, WF G n = true → fits G' n = true → WF (meet G G') n = true
    | .const _ nx, h, hf => by
      simp only [WF, fits] at h hf ⊢; exact WFO_fits nx h hf
    | .method m nx, h, hf => by
      simp only [WF, fits, Bool.and_eq_true] at h hf ⊢
      exact ⟨by simp [meet, h.1, hf.1], WFO_fits nx h.2 hf.2⟩
    | .str _ nx, h, hf => by simp only [WF, fits] at h hf ⊢; exact WFO_fits nx h hf
    | .var _ nx, h, hf => by simp only [WF, fits] at h hf ⊢; exact WFO_fits nx h hf
    | .key _ nx, h, hf => by simp only [WF, fits] at h hf ⊢; exact WFO_fits nx h hf
    | .numeric x nx, h, hf => by
      simp only [WF, fits, Bool.and_eq_true] at h hf ⊢
      exact ⟨by simp [meet, h.1, hf.1], WFO_fits nx h.2 hf.2⟩
    | .integer _ nx, h, hf => by simp only [WF, fits] at h hf ⊢; exact WFO_fits nx h hf
    | .any _ _ nx, h, hf => by simp only [WF, fits] at h hf ⊢; exact WFO_fits nx h hf
    | .binary op (some l) (some r) nx, h, hf => by
      have i1 := WF_fits (G := G) (G' := G') l
      have i2 := WF_fits (G := G) (G' := G') r
      have i3 := WFB_fits (G := G) (G' := G') l
      have i4 := WFB_fits (G := G) (G' := G') r
      have i5 := WFO_fits (G := G) (G' := G') nx
      cases op <;> simp_all [WF, fits, fitsO, isConn, isPredOp, isMathBinOp, meet]
    | .binary op none r nx, h, hf => by
      have i5 := WFO_fits (G := G) (G' := G') nx
      cases op <;> simp_all [WF, fits, fitsO, isMathBinOp, isBoolBinOp, meet]
    | .binary op (some l) none nx, h, hf => by
      have i5 := WFO_fits (G := G) (G' := G') nx
      cases op <;> simp_all [WF, fits, fitsO, isMathBinOp, isBoolBinOp, meet]
    | .unary op (some x) nx, h, hf => by
      have i1 := WF_fits (G := G) (G' := G') x
      have i3 := WFB_fits (G := G) (G' := G') x
      have i5 := WFO_fits (G := G) (G' := G') nx
      cases op <;> simp_all [WF, fits, fitsO, isDateTimeOp, meet]
    | .unary op none nx, h, hf => by
      have i5 := WFO_fits (G := G) (G' := G') nx
      cases op <;> simp_all [WF, fits, fitsO, isDateTimeOp, meet]
    | .regex x p fl nx, h, hf => by
      simp only [WF, fits, Bool.and_eq_true] at h hf ⊢
      exact ⟨⟨WF_fits x h.1.1 hf.1.2, by simp [meet, h.1.2, hf.1.1]⟩, WFO_fits nx h.2 hf.2⟩
    | .arrayIndex subs nx, h, hf => by
      simp only [WF, fits, Bool.and_eq_true] at h hf ⊢
      exact ⟨WFSubs_fits subs h.1 hf.1, WFO_fits nx h.2 hf.2⟩
  theorem WFB_fits {G G' : Cfg} : ∀ n : Node, WFB G n = true → fits G' n = true → WFB (meet G G') n = true
    | .binary op (some l) (some r) nx, h, hf => by
      have i1 := WF_fits (G := G) (G' := G') l
      have i2 := WF_fits (G := G) (G' := G') r
      have i3 := WFB_fits (G := G) (G' := G') l
      have i4 := WFB_fits (G := G) (G' := G') r
      cases op <;> simp_all [WFB, fits, fitsO, isConn, isPredOp]
    | .binary op none r nx, h, _ => by simp [WFB] at h
    | .binary op (some l) none nx, h, _ => by simp [WFB] at h
    | .unary op (some x) nx, h, hf => by
      have i1 := WF_fits (G := G) (G' := G') x
      have i3 := WFB_fits (G := G) (G' := G') x
      cases op <;> simp_all [WFB, fits, fitsO]
    | .unary op none nx, h, _ => by cases op <;> simp [WFB] at h
    | .regex x p fl nx, h, hf => by
      simp only [WFB, fits, Bool.and_eq_true] at h hf ⊢
      exact ⟨WF_fits x h.1 hf.1.2, by simp [meet, h.2, hf.1.1]⟩
    | .const .., h, _ => by simp [WFB] at h
    | .method .., h, _ => by simp [WFB] at h
    | .str .., h, _ => by simp [WFB] at h
    | .var .., h, _ => by simp [WFB] at h
    | .key .., h, _ => by simp [WFB] at h
    | .numeric .., h, _ => by simp [WFB] at h
    | .integer .., h, _ => by simp [WFB] at h
    | .any .., h, _ => by simp [WFB] at h
    | .arrayIndex .., h, _ => by simp [WFB] at h
  theorem WFO_fits {G G' : Cfg} : ∀ n : Option Node, WFO G n = true → fitsO G' n = true → WFO (meet G G') n = true
    | none, _, _ => rfl
    | some n, h, hf => by simp only [WFO, fitsO] at h hf ⊢; exact WF_fits n h hf
  theorem WFSubs_fits {G G' : Cfg} : ∀ subs : List Node, WFSubs G subs = true → fitsL G' subs = true →
      WFSubs (meet G G') subs = true
    | [], _, _ => rfl
    | .binary op l r nx :: rest, h, hf => by
      have i0 := WFSubs_fits (G := G) (G' := G') rest
      cases op <;> cases l <;> cases r <;> simp [WFSubs] at h
      · rename_i l
        have i1 := WF_fits (G := G) (G' := G') l
        simp_all [WFSubs, fitsL, fits, fitsO]
      · rename_i l r
        have i1 := WF_fits (G := G) (G' := G') l
        have i2 := WF_fits (G := G) (G' := G') r
        simp_all [WFSubs, fitsL, fits, fitsO]
    | .const .. :: _, h, _ => by simp [WFSubs] at h
    | .method .. :: _, h, _ => by simp [WFSubs] at h
    | .str .. :: _, h, _ => by simp [WFSubs] at h
    | .var .. :: _, h, _ => by simp [WFSubs] at h
    | .key .. :: _, h, _ => by simp [WFSubs] at h
    | .numeric .. :: _, h, _ => by simp [WFSubs] at h
    | .integer .. :: _, h, _ => by simp [WFSubs] at h
    | .any .. :: _, h, _ => by simp [WFSubs] at h
    | .unary .. :: _, h, _ => by simp [WFSubs] at h
    | .regex .. :: _, h, _ => by simp [WFSubs] at h
    | .arrayIndex .. :: _, h, _ => by simp [WFSubs] at h
end


/-! ## from the executor run to the API outcome -/

theorem runRes_out {M : Mode} {G : Cfg} {D : Item → Prop} (e : Entry) (fuel : Nat) (a : AST) (doc : Item) (o : Opts)
    (E : Env M G (mkCtx a doc o) D) (hW : M.wf = true → WF G a.root = true) (hdoc : D doc) :
    Out M D (initSt a doc o) (runRes e fuel a doc o) := by
  have h1 : Out M D (initSt a doc o) (execute fuel a doc o) :=
    query_out E fuel (initSt a doc o) a.root doc (some []) hW hdoc hdoc AllD.nil
  have h2 : Out M D (initSt a doc o) (existsRun fuel a doc o) :=
    query_out E fuel (initSt a doc o) a.root doc none hW hdoc hdoc AllD.none
  unfold runRes
  cases e <;> simp only
  · exact h1
  · exact h1
  · exact h2
  · exact h1
  · split
    · exact h1
    · exact h2

theorem guarded_props (r : Res) (k : Outcome) (hk : k ≠ .panic) (hki : k = .error .invalid → r.err = some .invalid) :
    (r.st.panicked = false → guarded r k ≠ .panic) ∧
    ((r.err = some .invalid → r.st.oof = true) → guarded r k ≠ .error .invalid) := by
  unfold guarded
  constructor
  · intro hp
    cases hoof : r.st.oof <;> simp [hp, hk]
  · intro hi
    cases hoof : r.st.oof with
    | true => simp
    | false =>
      cases hpan : r.st.panicked with
      | true => simp
      | false =>
        simp only [Bool.false_eq_true, if_false]
        intro hkk
        have := hi (hki hkk)
        simp [hoof] at this

/-- the outcome is not a panic if the flag is not set, and not `ErrInvalid` if the run returns that
    error only together with the out-of-fuel flag -/
theorem run_of_runRes (e : Entry) (fuel : Nat) (a : AST) (doc : Item) (o : Opts) :
    ((runRes e fuel a doc o).st.panicked = false → run e fuel a doc o ≠ .panic) ∧
    (((runRes e fuel a doc o).err = some .invalid → (runRes e fuel a doc o).st.oof = true) →
      run e fuel a doc o ≠ .error .invalid) := by
  have hq : ∀ r : Res, let k : Outcome := (match r.err with | some e => .error e | none => .items (r.found.getD []))
      k ≠ .panic ∧ (k = .error .invalid → r.err = some .invalid) := by
    intro r; cases herr : r.err <;> simp
  have hf : ∀ r : Res, let k : Outcome := (match r.err with | some e => .error e | none => .first (r.found.getD []).head?)
      k ≠ .panic ∧ (k = .error .invalid → r.err = some .invalid) := by
    intro r; cases herr : r.err <;> simp
  have he : ∀ r : Res, let k : Outcome := (match r.err with
        | some e => .error e | none => if r.status = .failed then .null else .bool (r.status = .ok))
      k ≠ .panic ∧ (k = .error .invalid → r.err = some .invalid) := by
    intro r; cases herr : r.err <;> simp <;> split <;> simp
  have hm : ∀ r : Res, let k : Outcome := (match r.err with
        | some e => .error e
        | none => match r.found.getD [] with
          | [.null] => .null
          | [.bool b] => .bool b
          | _ => if !o.silent then .error .verbose else .null)
      k ≠ .panic ∧ (k = .error .invalid → r.err = some .invalid) := by
    intro r; cases herr : r.err <;> simp <;> split <;> (try split) <;> simp
  cases e <;> simp only [run, runRes, existsOrMatchWith]
  case query => exact guarded_props _ _ (hq _).1 (hq _).2
  case first => exact guarded_props _ _ (hf _).1 (hf _).2
  case «exists» => exact guarded_props _ _ (he _).1 (he _).2
  case match_ => exact guarded_props _ _ (hm _).1 (hm _).2
  case existsOrMatch =>
    split
    · exact guarded_props _ _ (hm _).1 (hm _).2
    · exact guarded_props _ _ (he _).1 (he _).2

/-! ## the conditions on the values and on the options -/

/-- the values: every json.Number text is a JSON number; datetime values only if `dt` -/
def itemOK (dt : Bool) (v : Item) : Bool := deep (fun _ => true) Item.validJNum dt v

/-- the queried value and the variables are decoded JSON: every json.Number text is a JSON number
    and there is no datetime value (`types.Date` … are results of the datetime methods only) -/
def ValOK (doc : Item) (o : Opts) : Prop := itemOK false doc = true ∧ ∀ kv ∈ o.vars.getD [], itemOK false kv.2 = true

/-- the same with datetime values allowed -/
def NumOK (doc : Item) (o : Opts) : Prop := itemOK true doc = true ∧ ∀ kv ∈ o.vars.getD [], itemOK true kv.2 = true

/-- no datetime value inside -/
def noDT (v : Item) : Bool := deep (fun _ => true) (fun _ => true) false v

/-- every `like_regex` pattern the configuration allows compiles (for the parser: the oracle
    `regexAccepts` is `regexp/syntax.Parse` succeeding, and `Ctx.regexMatch` is `MustCompile(...).MatchString`) -/
def RegexOK (G : Cfg) (o : Opts) : Prop := ∀ p fl, G.rx p fl = true → ∀ t, (o.regexMatch p fl t).isSome = true

mutual
  theorem deep_meet {pf : F64 → Bool} {pj : List Char → Bool} : ∀ v : Item, deep pf pj true v = true → noDT v = true →
      deep pf pj false v = true
    | .null, _, _ => rfl
    | .bool _, _, _ => rfl
    | .int _, _, _ => rfl
    | .str _, _, _ => rfl
    | .flt _, h, _ => by simpa [deep] using h
    | .jnum _, h, _ => by simpa [deep] using h
    | .dt _, _, h => by simp [noDT, deep] at h
    | .arr xs, h, h2 => by
      simp only [noDT, deep] at h h2 ⊢; exact deepList_meet xs h h2
    | .obj kvs, h, h2 => by
      simp only [noDT, deep] at h h2 ⊢; exact deepMembers_meet kvs h h2
  theorem deepList_meet {pf : F64 → Bool} {pj : List Char → Bool} : ∀ xs : List Item, deepList pf pj true xs = true →
      deepList (fun _ => true) (fun _ => true) false xs = true → deepList pf pj false xs = true
    | [], _, _ => rfl
    | x :: xs, h, h2 => by
      simp only [deepList, Bool.and_eq_true] at h h2 ⊢
      exact ⟨deep_meet x h.1 h2.1, deepList_meet xs h.2 h2.2⟩
  theorem deepMembers_meet {pf : F64 → Bool} {pj : List Char → Bool} : ∀ kvs : List (List Char × Item),
      deepMembers pf pj true kvs = true → deepMembers (fun _ => true) (fun _ => true) false kvs = true →
      deepMembers pf pj false kvs = true
    | [], _, _ => rfl
    | (_, v) :: rest, h, h2 => by
      simp only [deepMembers, Bool.and_eq_true] at h h2 ⊢
      exact ⟨deep_meet v h.1 h2.1, deepMembers_meet rest h.2 h2.2⟩
end

mutual
  /-- `Item.docOK` (the documented Go types, `Model/Json.lean`) gives the condition on the numbers -/
  theorem itemOK_of_docOK : ∀ v : Item, Item.docOK v = true → itemOK true v = true
    | .null, _ => rfl
    | .bool _, _ => rfl
    | .int _, _ => rfl
    | .str _, _ => rfl
    | .flt _, _ => rfl
    | .dt _, _ => rfl
    | .jnum _, h => by simpa [itemOK, deep, Item.docOK] using h
    | .arr xs, h => by
      simp only [itemOK, deep, Item.docOK] at h ⊢; exact itemOKList_of_docOK xs h
    | .obj kvs, h => by
      simp only [itemOK, deep, Item.docOK, Bool.and_eq_true] at h ⊢; exact itemOKMembers_of_docOK kvs h.2
  theorem itemOKList_of_docOK : ∀ xs : List Item, Item.docOKList xs = true →
      deepList (fun _ => true) Item.validJNum true xs = true
    | [], _ => rfl
    | x :: xs, h => by
      simp only [Item.docOKList, deepList, Bool.and_eq_true] at h ⊢
      exact ⟨itemOK_of_docOK x h.1, itemOKList_of_docOK xs h.2⟩
  theorem itemOKMembers_of_docOK : ∀ kvs : List (List Char × Item), Item.docOKMembers kvs = true →
      deepMembers (fun _ => true) Item.validJNum true kvs = true
    | [], _ => rfl
    | (_, v) :: rest, h => by
      simp only [Item.docOKMembers, deepMembers, Bool.and_eq_true] at h ⊢
      exact ⟨itemOK_of_docOK v h.1, itemOKMembers_of_docOK rest h.2⟩
end

/-- documents of the documented Go types without datetime values satisfy `ValOK` -/
theorem valOK_of_docOK (doc : Item) (o : Opts) (hd : Item.docOK doc = true) (hnd : noDT doc = true)
    (hv : ∀ kv ∈ o.vars.getD [], Item.docOK kv.2 = true ∧ noDT kv.2 = true) : ValOK doc o :=
  ⟨deep_meet doc (itemOK_of_docOK doc hd) hnd,
   fun kv hkv => deep_meet kv.2 (itemOK_of_docOK kv.2 (hv kv hkv).1) (hv kv hkv).2⟩

/-! ## TASK A — never panics, never `ErrInvalid` -/

/-- **No entry point panics** on a well-formed path whose `like_regex` patterns compile — for every
    value, every variables map, every option set and every fuel.  (`IntFloat.intTextIsFloat`: the `strconv` law — proved above for the model — that a
    text `ParseInt` accepts is accepted by `ParseFloat`, as in `C05.compare_never_panics`.) -/
theorem never_panics (G : Cfg) (e : Entry) (fuel : Nat) (a : AST) (doc : Item) (o : Opts)
    (hwf : WF G a.root = true) (hrx : RegexOK G o) : run e fuel a doc o ≠ .panic := by
  have E := env_true G (mkCtx a doc o) hrx (fun op l r => C05.compare_never_panics IntFloat.intTextIsFloat (mkCtx a doc o) op l r)
  have h := runRes_out e fuel a doc o E (fun _ => hwf) trivial
  exact (run_of_runRes e fuel a doc o).1 (by rw [h.keep.pan rfl]; rfl)

/-- the class of items used for `never_invalid` -/
theorem env_valOK (G : Cfg) (hdtm : G.dtm = false) (a : AST) (doc : Item) (o : Opts)
    (hrx : RegexOK G o) (hval : ValOK doc o) :
    Env ⟨true, true⟩ G (mkCtx a doc o) (fun v => itemOK false v = true) :=
  env_deep (pf := fun _ => true) (pj := Item.validJNum) (pd := false) ⟨true, true⟩ G (mkCtx a doc o)
    hval.1 hval.2 (fun _ _ _ => rfl) (fun h => by cases h) (fun _ _ => rfl) (fun _ _ _ _ => rfl)
    (fun _ _ _ _ _ _ => rfl) (fun _ _ => rfl) (fun h => by rw [hdtm] at h; cases h) (fun _ => hrx)
    (fun _ op l r => C05.compare_never_panics IntFloat.intTextIsFloat (mkCtx a doc o) op l r)
    (fun _ _ => ⟨rfl, fun t ht => JNum.validJNum_not_syntax t ht⟩)

/-- **No entry point returns `ErrInvalid`** on a well-formed path *without datetime methods*
    (`G.dtm = false`) over values without datetime items whose json.Number texts are JSON numbers.
    The exclusion is the known finding D15: `compareItems` answers `ErrInvalid` for a datetime
    compared with a non-datetime (`compareItems_invalid` says that this is the only way). -/
theorem never_invalid (G : Cfg) (hdtm : G.dtm = false) (e : Entry) (fuel : Nat)
    (a : AST) (doc : Item) (o : Opts) (hwf : WF G a.root = true) (hrx : RegexOK G o) (hval : ValOK doc o) :
    run e fuel a doc o ≠ .error .invalid := by
  have E := env_valOK G hdtm a doc o hrx hval
  have h := runRes_out e fuel a doc o E (fun _ => hwf) hval.1
  exact (run_of_runRes e fuel a doc o).2 (h.ninv rfl rfl)

/-- **C05, first half** in one statement -/
theorem never_panics_never_invalid (G : Cfg) (e : Entry) (fuel : Nat)
    (a : AST) (doc : Item) (o : Opts) (hwf : WF G a.root = true) (hrx : RegexOK G o) :
    run e fuel a doc o ≠ .panic ∧
    (G.dtm = false → ValOK doc o → run e fuel a doc o ≠ .error .invalid) :=
  ⟨never_panics G e fuel a doc o hwf hrx,
   fun hdtm hval => never_invalid G hdtm e fuel a doc o hwf hrx hval⟩

/-- the configuration that forbids nothing but the datetime methods -/
def noDatetime : Cfg := ⟨fun _ _ => true, fun _ => true, false, true, fun _ => true⟩

/-- the path contains no datetime method (`.datetime() .date() .time() .time_tz() .timestamp()
    .timestamp_tz()`), anywhere -/
def dtFree (n : Node) : Bool := fits noDatetime n

theorem meet_noDatetime (G : Cfg) : meet G noDatetime = { G with dtm := false } := by
  cases G; simp [meet, noDatetime]

theorem WF_dtFree {G : Cfg} {n : Node} (h : WF G n = true) (hd : dtFree n = true) :
    WF { G with dtm := false } n = true := by
  rw [← meet_noDatetime]; exact WF_fits n h hd

/-- the comparison callback: `ErrInvalid` only for datetime against non-datetime (D15) -/
theorem compare_invalid_only_datetime (c : Ctx) (op : BinOp) (l r : Item) (p : Pred) (hop : isCompareOp op = true)
    (h : compareItems c op l r = .val p (some .invalid)) : ∃ d, l = .dt d ∧ (∀ d', r ≠ .dt d') ∧ r ≠ .null :=
  compareItems_invalid hop h

/-- **D15 is the only source of `ErrInvalid`**: on a well-formed path over values whose json.Number
    texts are JSON numbers, an entry point returns `ErrInvalid` only if the path contains a datetime
    method or the queried value or a variable contains a datetime value -/
theorem invalid_only_from_datetime_compare (G : Cfg) (e : Entry) (fuel : Nat)
    (a : AST) (doc : Item) (o : Opts) (hwf : WF G a.root = true) (hrx : RegexOK G o) (hnum : NumOK doc o)
    (h : run e fuel a doc o = .error .invalid) :
    dtFree a.root = false ∨ noDT doc = false ∨ ∃ kv ∈ o.vars.getD [], noDT kv.2 = false := by
  cases hd : dtFree a.root with
  | false => exact Or.inl rfl
  | true =>
    cases hdoc : noDT doc with
    | false => exact Or.inr (Or.inl rfl)
    | true =>
      refine Or.inr (Or.inr ?_)
      by_cases hv : ∃ kv ∈ o.vars.getD [], noDT kv.2 = false
      · exact hv
      · exfalso
        have hval : ValOK doc o := ⟨deep_meet doc hnum.1 hdoc, fun kv hkv => by
          refine deep_meet kv.2 (hnum.2 kv hkv) ?_
          cases hk : noDT kv.2 with
          | true => rfl
          | false => exact absurd ⟨kv, hkv, hk⟩ hv⟩
        exact never_invalid { G with dtm := false } rfl e fuel a doc o (WF_dtFree hwf hd)
          (fun p fl h => hrx p fl h) hval h

/-! ### parser-produced paths -/

/-- every path accepted by the parser model is well formed, for the configuration `ParseWF.cfg po` —
    the regular expressions the oracle accepts, finite numeric literals, every method -/
theorem parsed_wf (po : Oracles) (bytes : List UInt8) (a : AST) (hp : Parse.parse po bytes = .ok a) :
    WF (ParseWF.cfg po) a.root = true := ParseWF.parse_ok_WF_cfg po bytes a hp

/-- the oracle's contract: a pattern `regexp/syntax.Parse` accepts is one `regexp.MustCompile` compiles -/
def OracleRegex (po : Oracles) (o : Opts) : Prop :=
  ∀ p fl, po.regexAccepts p fl = true → ∀ t, (o.regexMatch p fl t).isSome = true

/-- **a parsed path never panics** -/
theorem parsed_never_panics (po : Oracles) (bytes : List UInt8) (a : AST)
    (hp : Parse.parse po bytes = .ok a) (e : Entry) (fuel : Nat) (doc : Item) (o : Opts) (hrx : OracleRegex po o) :
    run e fuel a doc o ≠ .panic :=
  never_panics (ParseWF.cfg po) e fuel a doc o (parsed_wf po bytes a hp) hrx

/-- **a parsed path without datetime methods never returns `ErrInvalid`** -/
theorem parsed_never_invalid (po : Oracles) (bytes : List UInt8) (a : AST)
    (hp : Parse.parse po bytes = .ok a) (hd : dtFree a.root = true) (e : Entry) (fuel : Nat) (doc : Item) (o : Opts)
    (hrx : OracleRegex po o) (hval : ValOK doc o) : run e fuel a doc o ≠ .error .invalid :=
  never_invalid { ParseWF.cfg po with dtm := false } rfl e fuel a doc o
    (WF_dtFree (parsed_wf po bytes a hp) hd) hrx hval

/-- a parsed path returns `ErrInvalid` only through D15 -/
theorem parsed_invalid_only_datetime (po : Oracles) (bytes : List UInt8) (a : AST)
    (hp : Parse.parse po bytes = .ok a) (e : Entry) (fuel : Nat) (doc : Item) (o : Opts)
    (hrx : OracleRegex po o) (hnum : NumOK doc o) (h : run e fuel a doc o = .error .invalid) :
    dtFree a.root = false ∨ noDT doc = false ∨ ∃ kv ∈ o.vars.getD [], noDT kv.2 = false :=
  invalid_only_from_datetime_compare (ParseWF.cfg po) e fuel a doc o (parsed_wf po bytes a hp) hrx hnum h

/-! ### error classes -/

/-- every error outcome is suppressible (`ErrVerbose`), a plain `ErrExecution`, a cancellation, or `ErrInvalid` -/
theorem error_classes (e : Err) : e = .verbose ∨ (∃ k, e = .hard k) ∨ e = .cancelled ∨ e = .invalid := by
  cases e <;> simp

/-- `exec.NULL` comes only from Exists / Match / ExistsOrMatch (`C06`) -/
theorem null_only_from_exists_match (fuel : Nat) (a : AST) (doc : Item) (o : Opts) :
    queryWith fuel a doc o ≠ .null ∧ firstWith fuel a doc o ≠ .null :=
  C06.null_only_from_exists_match fuel a doc o

/-- for a parsed path without datetime methods over decoded JSON, an error is `ErrVerbose`,
    a plain `ErrExecution` or a cancellation — every one of which wraps `exec.ErrExecution` -/
theorem parsed_error_wraps_execution (po : Oracles) (bytes : List UInt8) (a : AST)
    (hp : Parse.parse po bytes = .ok a) (hd : dtFree a.root = true) (en : Entry) (fuel : Nat) (doc : Item) (o : Opts)
    (hrx : OracleRegex po o) (hval : ValOK doc o) (e : Err) (h : run en fuel a doc o = .error e) :
    e = .verbose ∨ (∃ k, e = .hard k) ∨ e = .cancelled := by
  rcases error_classes e with h1 | h1 | h1 | h1
  · exact Or.inl h1
  · exact Or.inr (Or.inl h1)
  · exact Or.inr (Or.inr h1)
  · subst h1
    exact absurd h (parsed_never_invalid po bytes a hp hd en fuel doc o hrx hval)

/-! ## TASK B — provenance of what is returned -/

open Exec.Prov in
/-- **every item `Query` returns** is a scalar, a sub-value of the queried value or of a variable
    value, or a `keyvalue()` triple over such an item — for every tree, well formed or not -/
theorem query_provenance (fuel : Nat) (a : AST) (doc : Item) (o : Opts) (xs : List Item)
    (h : queryWith fuel a doc o = .items xs) : ∀ x ∈ xs, Allowed (mkCtx a doc o) x :=
  query_allowed fuel a doc o xs h

open Exec.Prov in
theorem first_provenance (fuel : Nat) (a : AST) (doc : Item) (o : Opts) (x : Item)
    (h : firstWith fuel a doc o = .first (some x)) : Allowed (mkCtx a doc o) x :=
  first_allowed fuel a doc o x h

open Exec.Prov in
/-- **every returned container** is a sub-value of the input or of a variable, or a `keyvalue()` triple -/
theorem returned_container (fuel : Nat) (a : AST) (doc : Item) (o : Opts) (xs : List Item)
    (h : queryWith fuel a doc o = .items xs) (x : Item) (hx : x ∈ xs) (hc : x.isContainer = true) :
    SubOf (doc :: (o.vars.getD []).map (·.2)) x ∨
    ∃ id k v, x = kvObj id (k, v) ∧ Allowed (mkCtx a doc o) v :=
  container_provenance (query_allowed fuel a doc o xs h x hx) hc

open Exec.Prov in
/-- **no array is ever built**: a returned array is a sub-value of the input or of a variable (the
    one-element array of lax auto-wrapping is iterated, never appended) -/
theorem returned_array (fuel : Nat) (a : AST) (doc : Item) (o : Opts) (xs : List Item)
    (h : queryWith fuel a doc o = .items xs) (ys : List Item) (hx : Item.arr ys ∈ xs) :
    SubOf (doc :: (o.vars.getD []).map (·.2)) (.arr ys) :=
  returned_array_is_input (query_allowed fuel a doc o xs h _ hx)

/-! ## TASK C — returned numbers are finite -/

/-- every float64 inside is finite and every json.Number text is a JSON number -/
def finOK (v : Item) : Bool := deep F64.isFinite Item.validJNum true v

theorem isFinite_of_nonFinite {x : F64} (h : nonFinite x = false) : F64.isFinite x = true := by
  cases x <;> simp [nonFinite, F64.isInf, F64.isNaN, F64.isFinite] at h ⊢

/-- unary `+`, unary `-` and `.abs()` keep a float finite -/
theorem applyF_finite {cb : Num.UCallback} (hcb : cb = .self ∨ cb = .uminus ∨ cb = .abs) {x : F64}
    (h : F64.isFinite x = true) : F64.isFinite (Num.applyF cb x) = true := by
  rcases hcb with rfl | rfl | rfl <;> cases x <;> simp [Num.applyF, F64.neg, F64.abs, F64.isFinite] at h ⊢

/-- a binary arithmetic result that is handed on is finite (`C05.binary_result_finite`) -/
theorem binary_result_finite (l r : Item) (op : BinOp) (x : F64) (_h : Num.mathOp l r op = .ok (.flt x))
    (hfin : nonFiniteItem (.flt x) = false) : F64.isFinite x = true :=
  isFinite_of_nonFinite (by simpa [nonFiniteItem, nonFinite] using hfin)

/-- `.double()` and `.number()` return finite floats only -/
theorem double_number_finite (v : Item) (x : F64) (h : convDouble v = .val (.flt x) ∨ convNumber none v = .val (.flt x)) :
    F64.isFinite x = true := by
  rcases h with h | h
  · obtain ⟨d, hd, hf⟩ := convDouble_out h
    cases hd; exact isFinite_of_nonFinite hf
  · obtain ⟨d, hd, hf⟩ := convNumber_out h
    cases hd; exact isFinite_of_nonFinite (hf rfl)

/-- the class of `returned_numbers_finite` -/
theorem env_finOK (G : Cfg) (hlit : ∀ x, G.lit x = true → F64.isFinite x = true)
    (hdec : G.dec = false) (hfl : G.meth .floor = false) (hce : G.meth .ceiling = false)
    (a : AST) (doc : Item) (o : Opts) (hrx : RegexOK G o)
    (hdoc : finOK doc = true) (hvars : ∀ kv ∈ o.vars.getD [], finOK kv.2 = true) :
    Env ⟨true, false⟩ G (mkCtx a doc o) (fun v => finOK v = true) := by
  have hu : ∀ cb x, cbOK G cb = true → F64.isFinite x = true → F64.isFinite (Num.applyF cb x) = true := by
    intro cb x hcb hx
    cases cb
    · exact applyF_finite (Or.inl rfl) hx
    · exact applyF_finite (Or.inr (Or.inl rfl)) hx
    · exact applyF_finite (Or.inr (Or.inr rfl)) hx
    · simp [cbOK, hfl] at hcb
    · simp [cbOK, hce] at hcb
  refine env_deep (pf := F64.isFinite) (pj := Item.validJNum) (pd := true) ⟨true, false⟩ G (mkCtx a doc o)
    hdoc hvars (fun _ x hx => hlit x hx) (fun h => by cases h) (fun x hx => isFinite_of_nonFinite hx) hu ?_
    (fun h => by rw [hdec] at h; cases h) (fun _ => rfl) (fun _ => hrx)
    (fun _ op l r => C05.compare_never_panics IntFloat.intTextIsFloat (mkCtx a doc o) op l r) (fun _ h => by cases h)
  intro cb t x hcb ht hx
  rcases JNum.validJNum_float t ht with ⟨f, hf, hfin⟩ | herr
  · rw [hf] at hx; cases hx; exact hu cb _ hcb hfin
  · rw [herr] at hx; cases hx

/-- **every number returned is finite, given finite inputs**: on a well-formed path with finite
    numeric literals, without `.decimal()` (known finding D17c: it can return NaN, see
    `decimal_returns_nan` below) and without `.floor()` / `.ceiling()` (whose result in the soft-float
    model is finite only for canonical values, `floor_noncanonical`), over values in which every float
    is finite and every json.Number text a JSON number, every float inside every item `Query` returns is
    finite -/
theorem returned_numbers_finite (G : Cfg)
    (hlit : ∀ x, G.lit x = true → F64.isFinite x = true) (hdec : G.dec = false)
    (hfl : G.meth .floor = false) (hce : G.meth .ceiling = false)
    (fuel : Nat) (a : AST) (doc : Item) (o : Opts) (hwf : WF G a.root = true) (hrx : RegexOK G o)
    (hdoc : finOK doc = true) (hvars : ∀ kv ∈ o.vars.getD [], finOK kv.2 = true)
    (xs : List Item) (h : queryWith fuel a doc o = .items xs) : ∀ x ∈ xs, finOK x = true := by
  have E := env_finOK G hlit hdec hfl hce a doc o hrx hdoc hvars
  have hall := (runRes_out .query fuel a doc o E (fun _ => hwf) hdoc).allD
  simp only [runRes] at hall
  unfold queryWith guarded at h
  dsimp only at h
  split at h
  · cases h
  · split at h
    · cases h
    · split at h
      · cases h
      · simp at h; subst h; exact hall.getD

/-- the configuration that forbids `.decimal()`, `.floor()`, `.ceiling()` and nothing else -/
def finiteMethods : Cfg :=
  ⟨fun _ _ => true, fun _ => true, true, false, fun m => m != .floor && m != .ceiling⟩

/-- for a parsed path: finite literals come from the parser; the three methods are excluded by `fits` -/
theorem parsed_returned_numbers_finite (po : Oracles) (bytes : List UInt8) (a : AST)
    (hp : Parse.parse po bytes = .ok a) (hm : fits finiteMethods a.root = true)
    (fuel : Nat) (doc : Item) (o : Opts) (hrx : OracleRegex po o)
    (hdoc : finOK doc = true) (hvars : ∀ kv ∈ o.vars.getD [], finOK kv.2 = true)
    (xs : List Item) (h : queryWith fuel a doc o = .items xs) : ∀ x ∈ xs, finOK x = true := by
  have hwf := WF_fits a.root (parsed_wf po bytes a hp) hm
  refine returned_numbers_finite (meet (ParseWF.cfg po) finiteMethods) ?_ ?_ ?_ ?_ fuel a doc o hwf ?_
    hdoc hvars xs h
  · intro x hx; simp [meet, finiteMethods] at hx; exact hx
  · simp [meet, finiteMethods]
  · simp [meet, finiteMethods]
  · simp [meet, finiteMethods]
  · intro p fl hpf; simp [meet, finiteMethods] at hpf; exact hrx p fl hpf

/-! ## examples -/

section Examples

/-- a configuration without datetime methods in which every pattern is taken to compile -/
def G0 : Cfg := ⟨fun _ _ => true, fun _ => true, false, true, fun _ => true⟩

/-- `$.a ? (@ > 1)` -/
def pathFilter : Node :=
  .const .root (some (.key "a".toList (some (.unary .filter
    (some (.binary .gt (some (.const .current none)) (some (.integer 1 none)) none)) none))))

/-- the path is well formed and free of datetime methods … -/
example : WF G0 pathFilter = true ∧ dtFree pathFilter = true := ⟨rfl, rfl⟩

/-- … the hypotheses of `never_panics_never_invalid` hold for it (non-vacuity) … -/
example : RegexOK G0 {} ∧ ValOK (.obj [("a".toList, .arr [.int 1, .int 2, .jnum "3e0".toList])]) {} :=
  ⟨fun _ _ _ _ => rfl, rfl, fun _ h => by cases h⟩

/-- … and it runs -/
example : run .query 20 ⟨pathFilter, true, false⟩ (.obj [("a".toList, .arr [.int 1, .int 2, .int 3])]) {} =
    .items [.int 2, .int 3] := rfl

/-- `WF` is needed: a hand-built unary `+` with a nil operand is not well formed, and it panics -/
example : WF G0 (.unary .plus none none) = false ∧
    run .query 5 ⟨.unary .plus none none, true, false⟩ .null {} = .panic := ⟨rfl, rfl⟩

/-- `WF` is needed for `ErrInvalid` too: `$ && $` (non-boolean operands of `&&`, which the grammar
    cannot produce) is not well formed and returns `ErrInvalid` without panicking -/
example : WF G0 (.binary .and (some (.const .root none)) (some (.const .root none)) none) = false ∧
    run .query 5 ⟨.binary .and (some (.const .root none)) (some (.const .root none)) none, true, true⟩ (.bool true) {} =
      .error .invalid := ⟨rfl, rfl⟩

/-- D15 through a datetime method: `$.date() == 1` on `"2020-01-01"` is well formed (with datetime
    methods allowed) but not `dtFree`, and returns `ErrInvalid` -/
def pathDateCmp : Node :=
  .binary .eq (some (.const .root (some (.unary .date none none)))) (some (.integer 1 none)) none

theorem d15_via_method :
    WF { G0 with dtm := true } pathDateCmp = true ∧ dtFree pathDateCmp = false ∧
    run .query 9 ⟨pathDateCmp, true, true⟩ (.str "2020-01-01".toList) {} = .error .invalid := ⟨rfl, rfl, rfl⟩

/-- D15 through a datetime value in the input: `$ == 1` on a date -/
theorem d15_via_value :
    WF G0 (.binary .eq (some (.const .root none)) (some (.integer 1 none)) none) = true ∧
    noDT (.dt ⟨.date, 0, 0, 0⟩) = false ∧
    run .query 5 ⟨.binary .eq (some (.const .root none)) (some (.integer 1 none)) none, true, true⟩
      (.dt ⟨.date, 0, 0, 0⟩) {} = .error .invalid := ⟨rfl, rfl, rfl⟩

/-- lax auto-wrapping: `$[0]` on the scalar 5 returns 5 itself, not the wrapping array -/
example : run .query 5 ⟨.const .root (some (.arrayIndex [.binary .subscript (some (.integer 0 none)) none none] none)),
    true, false⟩ (.int 5) {} = .items [.int 5] := rfl

/-- the only container the executor builds: the `keyvalue()` triple -/
example : run .query 5 ⟨.const .root (some (.method .keyvalue none)), true, false⟩ (.obj [("a".toList, .int 1)]) {} =
    .items [kvObj 0 ("a".toList, .int 1)] := rfl

/-- D17c at the API: `$.decimal(2, 309)` on 1 returns NaN — why `.decimal()` is excluded from
    `returned_numbers_finite` -/
theorem decimal_returns_nan :
    run .query 10 ⟨.const .root (some (.binary .decimal (some (.integer 2 none)) (some (.integer 309 none)) none)),
      true, false⟩ (.int 1) {} = .items [.flt .nan] := rfl

set_option exponentiation.threshold 2000 in
/-- the soft-float `floor` of a non-canonical finite value of the model type is infinite — why
    `.floor()` / `.ceiling()` are excluded from `returned_numbers_finite` (a statement over canonical
    `F64.WF` values would need `WF` to be carried through every operation) -/
theorem floor_noncanonical : F64.floor (.fin false (2 ^ 1100) (-1)) = .inf false := by decide +kernel

end Examples

end C05b
end Sqljson
