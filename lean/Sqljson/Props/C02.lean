import Sqljson.Props.ParseLemmas
/-!
# C02 — canonical text round-trips: re-parsing `String()` yields the same path

`Print.toString isPrint a` is the model of `(*AST).String()`, `Parse.parse o` the model of `Parse`.

Proved (general):
* `string_literal_reads_back`, `string_token_reads_back` — the lexer reads back exactly the string
  that `ast.quote` wrote, for every string without NUL (no string the lexer produced contains NUL):
  quotes, backslashes, control characters (`\b \f \n \r \t \v`, `\xNN`), non-printable BMP
  characters (`\uNNNN`, incl. U+0007 since 86832a0) and non-printable astral characters
  (`\u{X…}` since 86832a0).  The result does not depend on what follows the closing quote.
  Keys (`."…"`) and variables (`$"…"`) are printed with the same function.
* `integer_text_reads_back` — the decimal text of a natural number (`strconv.FormatInt`) is read
  back as `INT_P` with that text.
* `operator_spelling_reads_back`, `method_spelling_reads_back`, `priority_levels` — every infix
  operator and method name the printer writes lexes to the token from which the grammar builds
  that operator / method, and the printer's priority table is ordered like the grammar's
  precedence levels.

Known findings (counterexample theorems; the Go code still deviates, pinned by its own tests):
* **D3** `operand_with_accessor_loses_parentheses`, `predicate_with_accessor_loses_parentheses`,
  `regex_with_accessor_loses_parentheses` — a binary / unary-sign / `exists` / `!` / `is unknown` /
  `like_regex` node that carries an accessor chain is printed without the parentheses it needs;
  the printed text is rejected (or parses to another tree).
* **D5** `numeric_prints_as_integer` — `4.0` prints as `4`, which reads back as an integer node;
  `numeric_print_output_rejected` — `1e20` prints as `100000000000000000000`, which is rejected
  (integer literal out of range; before 8b84db8 it panicked).

Not proved:
* the round trip `parse (toString a) = ok a` for whole trees (it is false in general, see the
  findings; for trees without the D3/D5 shapes it is supported by the correspondence runs:
  ≈100 000 print→parse cases, every failure classified as D3 or D5);
* `MarshalText` / `MarshalBinary` / `Value` / `Scan` (wrappers around `String` / `Parse`, not modelled).
-/

namespace Sqljson
namespace C02
open Parse Lex ParseLemmas

/-- `scanString` after the opening quote of `ast.quote s` returns `STRING_P` with text `s` and
    stops right after the closing quote, whatever follows -/
theorem string_literal_reads_back (isPrint : Char → Bool) (hnl : isPrint '\n' = false)
    (s : List Char) (hs : ∀ c ∈ s, c.toNat ≠ 0) (st : LState) (tail : List Src)
    (h : st.rest = ((Print.quote isPrint s).drop 1).map Src.ch ++ tail) :
    scanString .string st
      = ⟨.string, s, (next { st with rest := tail }).1, (next { st with rest := tail }).2⟩ :=
  scanString_quote isPrint hnl s hs st tail h

/-- the first token of `ast.quote s` is `STRING_P` with text `s` -/
theorem string_token_reads_back (o : Oracles) (hq : o.xidStart '"' = false) (hnl : o.isPrint '\n' = false)
    (s : List Char) (hs : ∀ c ∈ s, c.toNat ≠ 0) (st : LState) (tail : List Src)
    (hch : st.ch = none) (h : st.rest = (Print.quote o.isPrint s).map Src.ch ++ tail) :
    (Lex.lex o st).1 = .string ∧ (Lex.lex o st).2.1 = s :=
  lex_quote o hq hnl s hs st tail hch h

/-- the decimal text of a natural number is read back as `INT_P` with that text -/
theorem integer_text_reads_back (o : Oracles) (hx : ∀ c, isDecimal c = true → o.xidStart c = false) (n : Nat)
    (st : LState) (tail : List Src) (hch : st.ch = none)
    (hrest : st.rest = (Decimal.formatNat n).map Src.ch ++ tail)
    (y : Option Char) (s' : LState) (hfin : next { st with rest := tail } = (y, s')) (hy : EndsNumber o y) :
    (Lex.lex o st).1 = .int ∧ (Lex.lex o st).2.1 = Decimal.formatNat n :=
  lex_formatNat o hx n st tail hch hrest y s' hfin hy

theorem operator_spelling_reads_back (op : BinOp) (t : Tok) (h : tokOfBin op = some t) :
    firstTok (Print.binStr op ++ [' ']) = t := binStr_lexes_back op t h

theorem method_spelling_reads_back (m : Method) :
    firstTok ((Print.methodStr m).drop 1) = methodTok m ∧ Parse.methodOf (methodTok m) = some m :=
  methodStr_lexes_back m

theorem priority_levels :
    Print.binPriority .or < Print.binPriority .and ∧
    Print.binPriority .and < Print.binPriority .eq ∧
    Print.binPriority .eq < Print.binPriority .add ∧
    Print.binPriority .add < Print.binPriority .mul ∧
    Print.binPriority .mul < Print.unPriority .minus ∧
    Print.unPriority .minus < Print.priority (.const .root none) := ParseLemmas.priority_levels

/-- U+0007 and non-printable astral characters round-trip (they did not before 86832a0) -/
theorem bell_and_astral_round_trip :
    Print.toString asciiOracles.isPrint ⟨.str [Char.ofNat 7, Char.ofNat 0xE0001, Char.ofNat 0x10FFFF] none, true, false⟩
      = some "\"\\u0007\\u{e0001}\\u{10ffff}\"".toList ∧
    rootIs (fun n => match n with
        | .str [a, b, c] none => a.toNat == 7 && b.toNat == 0xE0001 && c.toNat == 0x10FFFF
        | _ => false)
      (parse asciiOracles (ascii "\"\\u0007\\u{e0001}\\u{10ffff}\"")) = true :=
  ParseLemmas.bell_and_astral_round_trip

/-! ## Known findings -/

/-- **D3**: `(2*3).abs() + 1` prints as `(2 * 3.abs() + 1)`, which is rejected -/
theorem operand_with_accessor_loses_parentheses :
    run "(2*3).abs() + 1" = "(2 * 3.abs() + 1)" ∧ run "(2 * 3.abs() + 1)" = "ERR" :=
  c02_counterexample_operand_with_accessor

/-- **D3**: `exists`, `!`, `is unknown` with an accessor chain -/
theorem predicate_with_accessor_loses_parentheses :
    run "exists(($ == 1).x)" = "exists ($ == 1.\"x\")" ∧ run "exists ($ == 1.\"x\")" = "ERR" ∧
    run "(exists($)).x" = "exists ($).\"x\"" ∧ run "exists ($).\"x\"" = "ERR" ∧
    run "(!($ == 1)).x" = "!($ == 1).\"x\"" ∧ run "!($ == 1).\"x\"" = "ERR" ∧
    run "(($ == 1) is unknown).x" = "($ == 1) is unknown.\"x\"" ∧
      run "($ == 1) is unknown.\"x\"" = "ERR" :=
  c02_counterexample_predicate_with_accessor

/-- **D3**: `like_regex` with an accessor chain under a comparison -/
theorem regex_with_accessor_loses_parentheses :
    run "(($ like_regex \"a\").x == 1)" = "($ like_regex \"a\".\"x\" == 1)" ∧
    run "($ like_regex \"a\".\"x\" == 1)" = "ERR" :=
  c02_counterexample_regex_with_accessor

/-- **D5**: `4.0` (a numeric node) prints as `4`, which reads back as an integer node -/
theorem numeric_prints_as_integer :
    rootIs (fun n => match n with | .numeric _ none => true | _ => false) (parse asciiOracles (ascii "4.0")) = true ∧
    run "4.0" = "4" ∧
    rootIs (fun n => match n with | .integer 4 none => true | _ => false) (parse asciiOracles (ascii "4")) = true :=
  c02_counterexample_numeric_prints_as_integer

/-- **D5**: `1e20` prints as `100000000000000000000`, an integer literal out of range: rejected -/
theorem numeric_print_output_rejected :
    run "1e20" = "100000000000000000000" ∧ run "100000000000000000000" = "ERR" :=
  c02_counterexample_print_output_rejected

end C02
end Sqljson
