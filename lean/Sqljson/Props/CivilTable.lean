/-!
# One 400-year era of the civil calendar (Nat arithmetic only)

`omega` cannot invert the year-of-era formula of `civilFromDays` directly (nested divisions by 1460,
36524, 146096).  We prove it from

* monotonicity of the formula (one `omega` step + induction),
* a 400-row table with the first and last day of each shifted year (`decide +kernel`, < 1 s),
* the recurrence `base (y+1) = base y + len y`.

Results: `doe_split` (every day of era lies in the year the formula computes) and `yoe_of_base_add`
(the formula maps every day of shifted year `y` back to `y`), plus the month/day split `mp_table`.
-/

namespace Sqljson
namespace CivilTable

/-- year of era from day of era (the formula of `civilFromDays`, in `Nat`) -/
def yoeOf (doe : Nat) : Nat := (doe - doe / 1460 + doe / 36524 - doe / 146096) / 365

/-- first day of era of the shifted year `yoe` (1 March) -/
def base (yoe : Nat) : Nat := 365 * yoe + yoe / 4 - yoe / 100

/-- the shifted year `yoe` (1 March … end of February) contains 29 February iff year `yoe+1` of the era is leap -/
def longYear (yoe : Nat) : Bool := (yoe + 1) % 4 == 0 && ((yoe + 1) % 100 != 0 || yoe + 1 == 400)

/-- number of days of the shifted year `yoe` -/
def len (yoe : Nat) : Nat := 365 + (if longYear yoe then 1 else 0)

/-- days in shifted month `mp` (0 = March … 11 = February) of shifted year `yoe` -/
def dim (mp yoe : Nat) : Nat :=
  if mp = 11 then (if longYear yoe then 29 else 28)
  else if mp = 1 || mp = 3 || mp = 6 || mp = 8 then 30 else 31

theorem len_eq (y : Nat) : len y = 365 ∨ len y = 366 := by
  unfold len; split <;> simp

/-- `base (y+1) = base y + len y` inside the era -/
theorem base_succ (y : Nat) (h : y < 399) : base (y + 1) = base y + len y := by
  unfold base len longYear
  have h399 : ¬ y = 399 := by omega
  by_cases h4 : (y + 1) % 4 = 0 <;> by_cases h100 : (y + 1) % 100 = 0 <;>
    simp [h4, h100, h399] <;> omega

theorem base_last : base 399 + len 399 = 146097 := by decide

theorem base_zero : base 0 = 0 := by decide

/-- every day of the era lies in exactly one shifted year -/
theorem exists_year (doe : Nat) (h : doe < 146097) : ∃ y, y < 400 ∧ base y ≤ doe ∧ doe < base y + len y := by
  have key : ∀ n, n < 400 → doe < base n + len n → ∃ y, y < 400 ∧ base y ≤ doe ∧ doe < base y + len y := by
    intro n
    induction n with
    | zero => intro _ h0; exact ⟨0, by omega, by rw [base_zero]; omega, h0⟩
    | succ k ih =>
      intro hk hlt
      by_cases hb : base (k + 1) ≤ doe
      · exact ⟨k + 1, hk, hb, hlt⟩
      · have := base_succ k (by omega)
        exact ih (by omega) (by omega)
  exact key 399 (by omega) (by rw [base_last]; exact h)

/-- the numerator of the year formula never decreases -/
theorem num_mono_step (d : Nat) (h : d + 1 < 146097) :
    d - d / 1460 + d / 36524 - d / 146096 ≤ (d + 1) - (d + 1) / 1460 + (d + 1) / 36524 - (d + 1) / 146096 := by
  omega

theorem yoeOf_mono_step (d : Nat) (h : d + 1 < 146097) : yoeOf d ≤ yoeOf (d + 1) := by
  unfold yoeOf
  exact Nat.div_le_div_right (num_mono_step d h)

theorem yoeOf_mono (a b : Nat) (hab : a ≤ b) (hb : b < 146097) : yoeOf a ≤ yoeOf b := by
  induction b with
  | zero => have : a = 0 := by omega
            subst this; exact Nat.le_refl _
  | succ k ih =>
    by_cases h : a = k + 1
    · subst h; exact Nat.le_refl _
    · exact Nat.le_trans (ih (by omega) (by omega)) (yoeOf_mono_step k hb)

/-- first and last day of each shifted year are mapped to it -/
def endsOK (y : Nat) : Bool := yoeOf (base y) == y && yoeOf (base y + len y - 1) == y

def endsTable : Bool := (List.range 400).all endsOK

theorem endsTable_true : endsTable = true := by decide +kernel

theorem ends_table (y : Nat) (h : y < 400) : yoeOf (base y) = y ∧ yoeOf (base y + len y - 1) = y := by
  have := endsTable_true
  simp only [endsTable, List.all_eq_true, List.mem_range] at this
  have := this y h
  simpa [endsOK] using this

/-- the year formula maps every day of shifted year `y` back to `y` -/
theorem yoe_of_base_add (y doy : Nat) (h1 : y < 400) (h2 : doy < len y) : yoeOf (base y + doy) = y := by
  have ⟨e1, e2⟩ := ends_table y h1
  have hl := len_eq y
  have hlast : base y + len y - 1 < 146097 := by
    by_cases h : y < 399
    · have := base_succ y h
      have ⟨y', hy', hb, _⟩ : ∃ y', y' = y + 1 ∧ base y' = base y + len y ∧ True := ⟨y + 1, rfl, this, trivial⟩
      -- base (y+1) ≤ 146097 because it is itself a day of the era or its end
      have hy1 : base (y + 1) ≤ 365 * 400 := by unfold base; omega
      omega
    · have : y = 399 := by omega
      subst this; have := base_last; omega
  have lo := yoeOf_mono (base y) (base y + doy) (by omega) (by omega)
  have hi := yoeOf_mono (base y + doy) (base y + len y - 1) (by omega) hlast
  omega

/-- every day of era lies in the shifted year the formula computes -/
theorem doe_split (doe : Nat) (h : doe < 146097) :
    yoeOf doe < 400 ∧ base (yoeOf doe) ≤ doe ∧ doe < base (yoeOf doe) + len (yoeOf doe) := by
  obtain ⟨y, hy, hlo, hhi⟩ := exists_year doe h
  have := yoe_of_base_add y (doe - base y) hy (by omega)
  have e : base y + (doe - base y) = doe := by omega
  rw [e] at this
  rw [this]; exact ⟨hy, hlo, hhi⟩

/-- month/day split of a day-of-shifted-year, for every month and day: a 12 × 31 table -/
def mpOK (mp d : Nat) : Bool :=
  let doy := (153 * mp + 2) / 5 + d
  (5 * doy + 2) / 153 == mp

def mpTable : Bool :=
  (List.range 12).all fun mp => (List.range (dim mp 3)).all fun d => mpOK mp d

theorem mpTable_true : mpTable = true := by decide +kernel

/-- day `d` (0-based) of shifted month `mp` is mapped back to `mp` -/
theorem mp_table (mp d : Nat) (h1 : mp < 12) (h2 : d < dim mp 3) :
    (5 * ((153 * mp + 2) / 5 + d) + 2) / 153 = mp := by
  have := mpTable_true
  simp only [mpTable, List.all_eq_true, List.mem_range] at this
  have := this mp h1 d h2
  simpa [mpOK] using this

/-- inverse direction of the month split: a day of the shifted year splits into month and day -/
def doyOK (doy : Nat) : Bool :=
  let mp := (5 * doy + 2) / 153
  let d := doy - (153 * mp + 2) / 5
  Nat.blt mp 12 && Nat.ble ((153 * mp + 2) / 5) doy && Nat.blt d (dim mp (if doy = 365 then 3 else 0))

def doyTable : Bool := (List.range 366).all doyOK

theorem doyTable_true : doyTable = true := by decide +kernel

theorem doy_table (doy : Nat) (h : doy < 366) :
    (5 * doy + 2) / 153 < 12 ∧ (153 * ((5 * doy + 2) / 153) + 2) / 5 ≤ doy ∧
      doy - (153 * ((5 * doy + 2) / 153) + 2) / 5 < dim ((5 * doy + 2) / 153) (if doy = 365 then 3 else 0) := by
  have := doyTable_true
  simp only [doyTable, List.all_eq_true, List.mem_range] at this
  have := this doy h
  simpa [doyOK, Nat.blt_eq, Nat.ble_eq, and_assoc] using this

end CivilTable
end Sqljson
