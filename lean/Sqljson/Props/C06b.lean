import Sqljson.Lemmas.ProbeSim
/-!
# C06b — lax mode: the probing run of Exists against the collecting run of Query

Property C06: "… when Query succeeds Exists returns whether its result is non-empty, Exists never
reports true when a complete evaluation yields no item, and in strict mode it never hides an error
that Query reports."  `Props/C06.lean` covers First/Match/ExistsOrMatch and strict mode (where Exists
evaluates the very run Query evaluates).  In lax mode `exec.exists` calls the executor with a nil result
list (`Api.existsRun`, *probe*: stop at the first hit) and `exec.execute` with an empty one
(`Api.execute`, *collect*).  `Lemmas/ProbeSim.lean` relates the two runs (`Exec.Probe.PC`):

* as long as nothing is found the runs are in lock step (same state, same polls of the context, same
  fuel): if the probe ends `notFound` or `failed`, the collecting run ended in the same state with
  the same status and error and an empty list;
* if the probe answers "found", the collecting run appended an item at that point; it carries on and
  may fail, panic or run out of fuel later, but its list only grows and no sticky flag is cleared.
  The one exception is the recorded finding **D8**: a unary `+`/`-` that is the *last* step of the
  path answers "found" in probe mode without looking at its operand's value, where the collecting run
  fails with the suppressible error (non-numeric item, or a `json.Number` that is neither an int64
  nor a float64).  `Exec.Probe.spineOK` is the syntactic class that excludes exactly that node.

No side condition on cancellation or fuel is needed: both runs start with the same budget and fuel.
Predicates (`exists(...)`, filters) run their own sub-evaluations, which are literally the same
calls in both runs, so `.keyvalue()` ids need no special treatment.

Theorems (all for `a.lax = true`; `Q` = Query, `E` = Exists on the same path, document, options):

* `exists_of_query_lax_verbose` not `WithSilent`: `Q = items xs` ⇒ `E = bool (!xs.isEmpty)`;
* `exists_of_query_lax`   any options: `Q = items xs` from a run that did not fail ⇒ `E = bool (!xs.isEmpty)`
  (with `WithSilent` Query also returns the partial list of a run that failed);
* `exists_of_query_lax_any` what remains for a silently failed run: `E = NULL` and `xs = []`, or
  `E = true` (and `xs ≠ []` for a path in the class);
* `exists_true_sound_lax` `E = true`, not silent or path in the class ⇒ `Q` is `items (x :: xs)`, an
  error, a panic or out of fuel — never `items []`;
* `exists_false_lax`      `E = false` ⇒ `Q = items []`;
* `exists_error_lax`      `E = error e` ⇒ `Q = error e` (an error of Exists is an error of Query);
* `exists_null_lax`       `E = NULL` ⇒ `Q = items []` (the same silently failed run);
* `exists_panic_lax`, `exists_outOfFuel_lax`;
* `query_error_lax`       `Q = error e` ⇒ `E = error e` or `E = true` (lax Exists hides an error of
  Query only by having found an item before it);
* examples by `rfl`, among them D8 with `WithSilent` (`E = true`, `Q = items []`), which shows that
  `exists_true_sound_lax` and `exists_of_query_lax_any` need their side conditions.
-/

namespace Sqljson
namespace C06b
open Exec Api Exec.Probe

/-! ## the two runs -/

/-- lax mode: Exists is the probing run and Query the collecting run of the same executor call -/
theorem lax_runs (fuel : Nat) (a : AST) (doc : Item) (o : Opts) (hl : a.lax = true) :
    PC true [] (existsRun fuel a doc o) (execute fuel a doc o) := by
  simp only [existsRun, execute, query, mkCtx, hl, Bool.not_true, Bool.false_and, Bool.false_eq_true, if_false,
    executeItem]
  exact xItem_pc _ fuel _ _ _ [] _

/-- the same for a path in the class `spineOK`: no D8 alternative -/
theorem lax_runs_strong (fuel : Nat) (a : AST) (doc : Item) (o : Opts) (hl : a.lax = true)
    (hs : spineOK a.root = true) :
    PC false [] (existsRun fuel a doc o) (execute fuel a doc o) := by
  simp only [existsRun, execute, query, mkCtx, hl, Bool.not_true, Bool.false_and, Bool.false_eq_true, if_false,
    executeItem]
  exact xItem_pc_strong _ fuel _ _ _ [] _ hs

/-! ## reading outcomes off a run -/

theorem query_items {fuel : Nat} {a : AST} {doc : Item} {o : Opts} {xs : List Item}
    (h : queryWith fuel a doc o = .items xs) :
    (execute fuel a doc o).st.oof = false ∧ (execute fuel a doc o).st.panicked = false ∧
    (execute fuel a doc o).err = none ∧ (execute fuel a doc o).found.getD [] = xs := by
  unfold queryWith guarded at h
  dsimp only at h
  generalize execute fuel a doc o = r at *
  cases hoof : r.st.oof <;> cases hpan : r.st.panicked <;> cases herr : r.err <;>
    simp [hoof, hpan, herr] at h
  exact ⟨rfl, rfl, rfl, h⟩

theorem query_error {fuel : Nat} {a : AST} {doc : Item} {o : Opts} {e : Err}
    (h : queryWith fuel a doc o = .error e) :
    (execute fuel a doc o).st.oof = false ∧ (execute fuel a doc o).st.panicked = false ∧
    (execute fuel a doc o).err = some e := by
  unfold queryWith guarded at h
  dsimp only at h
  generalize execute fuel a doc o = r at *
  cases hoof : r.st.oof <;> cases hpan : r.st.panicked <;> cases herr : r.err <;>
    simp [hoof, hpan, herr] at h
  exact ⟨rfl, rfl, by rw [h]⟩

/-- Query's outcome from its run when no sticky flag is set -/
def queryOut (r : Res) : Outcome :=
  match r.err with
  | some e => .error e
  | none => .items (r.found.getD [])

/-- Exists' outcome from its run when no sticky flag is set -/
def existsOut (r : Res) : Outcome :=
  match r.err with
  | some e => .error e
  | none => if r.status = .failed then .null else .bool (r.status = .ok)

theorem query_of_run {fuel : Nat} {a : AST} {doc : Item} {o : Opts}
    (h1 : (execute fuel a doc o).st.oof = false) (h2 : (execute fuel a doc o).st.panicked = false) :
    queryWith fuel a doc o = queryOut (execute fuel a doc o) := by
  unfold queryWith guarded queryOut
  simp only [h1, h2, Bool.false_eq_true, if_false]
  cases (execute fuel a doc o).err <;> rfl

theorem exists_of_run {fuel : Nat} {a : AST} {doc : Item} {o : Opts}
    (h1 : (existsRun fuel a doc o).st.oof = false) (h2 : (existsRun fuel a doc o).st.panicked = false) :
    existsWith fuel a doc o = existsOut (existsRun fuel a doc o) := by
  unfold existsWith guarded existsOut
  simp only [h1, h2, Bool.false_eq_true, if_false]
  cases (existsRun fuel a doc o).err <;> rfl

theorem queryOut_none {r : Res} (h : r.err = none) : queryOut r = .items (r.found.getD []) := by
  simp [queryOut, h]
theorem queryOut_some {r : Res} {e : Err} (h : r.err = some e) : queryOut r = .error e := by
  simp [queryOut, h]
theorem existsOut_none {r : Res} (h : r.err = none) :
    existsOut r = if r.status = .failed then .null else .bool (r.status = .ok) := by
  simp [existsOut, h]
theorem existsOut_some {r : Res} {e : Err} (h : r.err = some e) : existsOut r = .error e := by
  simp [existsOut, h]

/-- what each outcome of Exists says about its run -/
theorem exists_bool {fuel : Nat} {a : AST} {doc : Item} {o : Opts} {b : Bool}
    (h : existsWith fuel a doc o = .bool b) :
    (existsRun fuel a doc o).st.oof = false ∧ (existsRun fuel a doc o).st.panicked = false ∧
    (existsRun fuel a doc o).err = none ∧ (existsRun fuel a doc o).status ≠ .failed ∧
    (b = true ↔ (existsRun fuel a doc o).status = .ok) := by
  unfold existsWith guarded at h
  dsimp only at h
  generalize existsRun fuel a doc o = r at *
  cases hoof : r.st.oof <;> cases hpan : r.st.panicked <;> cases herr : r.err <;>
    simp [hoof, hpan, herr] at h
  refine ⟨rfl, rfl, rfl, ?_, ?_⟩
  · intro hf; simp [hf] at h
  · by_cases hf : r.status = .failed
    · simp [hf] at h
    · simp only [hf, if_false, Outcome.bool.injEq] at h
      rw [← h]; simp

theorem exists_error {fuel : Nat} {a : AST} {doc : Item} {o : Opts} {e : Err}
    (h : existsWith fuel a doc o = .error e) :
    (existsRun fuel a doc o).st.oof = false ∧ (existsRun fuel a doc o).st.panicked = false ∧
    (existsRun fuel a doc o).err = some e := by
  unfold existsWith guarded at h
  dsimp only at h
  generalize existsRun fuel a doc o = r at *
  cases hoof : r.st.oof <;> cases hpan : r.st.panicked <;> cases herr : r.err <;>
    simp [hoof, hpan, herr] at h
  · split at h <;> simp at h
  · exact ⟨rfl, rfl, by rw [h]⟩

theorem exists_null {fuel : Nat} {a : AST} {doc : Item} {o : Opts}
    (h : existsWith fuel a doc o = .null) :
    (existsRun fuel a doc o).st.oof = false ∧ (existsRun fuel a doc o).st.panicked = false ∧
    (existsRun fuel a doc o).err = none ∧ (existsRun fuel a doc o).status = .failed := by
  unfold existsWith guarded at h
  dsimp only at h
  generalize existsRun fuel a doc o = r at *
  cases hoof : r.st.oof <;> cases hpan : r.st.panicked <;> cases herr : r.err <;>
    simp [hoof, hpan, herr] at h
  refine ⟨rfl, rfl, rfl, ?_⟩
  by_cases hf : r.status = .failed
  · exact hf
  · simp [hf] at h

/-- a run of Exists that did not answer "found": Query's run is the same run with an empty list -/
theorem same_run {fuel : Nat} {a : AST} {doc : Item} {o : Opts} (hl : a.lax = true)
    (h : (existsRun fuel a doc o).status ≠ .ok) :
    execute fuel a doc o =
      ⟨(existsRun fuel a doc o).st, some [], (existsRun fuel a doc o).status, (existsRun fuel a doc o).err⟩ :=
  (lax_runs fuel a doc o hl).same h

/-! ## Query succeeded -/

/-- **lax mode, Query returns `xs` from a run that did not fail: Exists returns whether `xs` is
    non-empty.**  (A run that returns a list and failed is a run with `WithSilent`; see
    `exists_of_query_lax_any`.) -/
theorem exists_of_query_lax (fuel : Nat) (a : AST) (doc : Item) (o : Opts) (hl : a.lax = true)
    (xs : List Item) (hq : queryWith fuel a doc o = .items xs)
    (hnf : (execute fuel a doc o).status ≠ .failed) :
    existsWith fuel a doc o = .bool (!xs.isEmpty) := by
  obtain ⟨hoof, hpan, herr, hxs⟩ := query_items hq
  have hpc := lax_runs fuel a doc o hl
  have hg := existsRun_good fuel a doc o
  by_cases hst : (existsRun fuel a doc o).status = .ok
  · obtain ⟨hh, hle⟩ := hpc.hit hst
    have happ := hh.appended hnf
    have hpo : (existsRun fuel a doc o).st.oof = false := by
      cases h : (existsRun fuel a doc o).st.oof with
      | false => rfl
      | true => rw [hle.1 h] at hoof; exact absurd hoof (by simp)
    have hpp : (existsRun fuel a doc o).st.panicked = false := by
      cases h : (existsRun fuel a doc o).st.panicked with
      | false => rfl
      | true => rw [hle.2 h] at hpan; exact absurd hpan (by simp)
    have hpe : (existsRun fuel a doc o).err = none := by
      cases h : (existsRun fuel a doc o).err with
      | none => rfl
      | some e => have := hg.errFailed (by simp [h]); rw [hst] at this; exact absurd this (by simp)
    obtain ⟨x, xs', hx⟩ := happ
    rw [hx] at hxs
    rw [exists_of_run hpo hpp, existsOut_none hpe]
    subst hxs
    simp [hst]
  · have hsame := hpc.same hst
    rw [hsame] at hoof hpan herr hxs hnf
    simp only at hoof hpan herr hxs hnf
    rw [exists_of_run hoof hpan, existsOut_none herr]
    subst hxs
    simp [hnf, hst]

/-- without `WithSilent` a run of Query that failed returns its error (both modes) -/
theorem execute_failed_err (fuel : Nat) (a : AST) (doc : Item) (o : Opts) (ho : o.silent = false)
    (hf : (execute fuel a doc o).status = .failed) : (execute fuel a doc o).err ≠ none := by
  have hv : (initSt a doc o).verbose = true := by simp [initSt, ho]
  have key := xItem_failed_err (mkCtx a doc o) fuel (initSt a doc o) a.root doc (some []) (mkCtx a doc o).lax hv
  have e : execute fuel a doc o =
      xItem (mkCtx a doc o) fuel (initSt a doc o) a.root doc (some []) (mkCtx a doc o).lax := by
    simp [execute, query, executeItem]
  rw [e] at hf ⊢
  exact key hf

/-- **lax mode, not silent: when Query succeeds with `xs`, Exists returns whether `xs` is non-empty** -/
theorem exists_of_query_lax_verbose (fuel : Nat) (a : AST) (doc : Item) (o : Opts) (hl : a.lax = true)
    (ho : o.silent = false) (xs : List Item) (hq : queryWith fuel a doc o = .items xs) :
    existsWith fuel a doc o = .bool (!xs.isEmpty) := by
  refine exists_of_query_lax fuel a doc o hl xs hq (fun hf => ?_)
  exact execute_failed_err fuel a doc o ho hf (query_items hq).2.2.1

/-- lax mode, Query returns `xs`, no hypothesis on the run: either Exists is "`xs` is non-empty", or the
    run failed with its error suppressed (`WithSilent`) and Exists is `NULL` (the probe failed at the
    same point, `xs = []`) or `true` (the probe had stopped before).  For a path in the class the last
    case has a non-empty `xs` — outside the class D8 gives `xs = []`, see `d8_silent`. -/
theorem exists_of_query_lax_any (fuel : Nat) (a : AST) (doc : Item) (o : Opts) (hl : a.lax = true)
    (xs : List Item) (hq : queryWith fuel a doc o = .items xs) :
    existsWith fuel a doc o = .bool (!xs.isEmpty) ∨
    ((execute fuel a doc o).status = .failed ∧
      ((existsWith fuel a doc o = .null ∧ xs = []) ∨
       (existsWith fuel a doc o = .bool true ∧ (spineOK a.root = true → xs ≠ [])))) := by
  by_cases hnf : (execute fuel a doc o).status = .failed
  · refine Or.inr ⟨hnf, ?_⟩
    obtain ⟨hoof, hpan, herr, hxs⟩ := query_items hq
    have hpc := lax_runs fuel a doc o hl
    have hg := existsRun_good fuel a doc o
    by_cases hst : (existsRun fuel a doc o).status = .ok
    · right
      obtain ⟨hh, hle⟩ := hpc.hit hst
      have hpo : (existsRun fuel a doc o).st.oof = false := by
        cases h : (existsRun fuel a doc o).st.oof with
        | false => rfl
        | true => rw [hle.1 h] at hoof; exact absurd hoof (by simp)
      have hpp : (existsRun fuel a doc o).st.panicked = false := by
        cases h : (existsRun fuel a doc o).st.panicked with
        | false => rfl
        | true => rw [hle.2 h] at hpan; exact absurd hpan (by simp)
      have hpe : (existsRun fuel a doc o).err = none := by
        cases h : (existsRun fuel a doc o).err with
        | none => rfl
        | some e => have := hg.errFailed (by simp [h]); rw [hst] at this; exact absurd this (by simp)
      refine ⟨?_, fun hs => ?_⟩
      · rw [exists_of_run hpo hpp, existsOut_none hpe]; simp [hst]
      · have hh' := ((lax_runs_strong fuel a doc o hl hs).hit hst).1
        rcases hh' with happ | ⟨hd, _⟩
        · obtain ⟨x, xs', hx⟩ := happ
          rw [hx] at hxs
          subst hxs
          simp
        · exact absurd hd (by simp)
    · left
      have hsame := hpc.same hst
      rw [hsame] at hoof hpan herr hxs hnf
      simp only at hoof hpan herr hxs hnf
      refine ⟨?_, by simpa using hxs.symm⟩
      rw [exists_of_run hoof hpan, existsOut_none herr]
      simp [hnf]
  · exact Or.inl (exists_of_query_lax fuel a doc o hl xs hq hnf)

/-! ## Exists answered -/

/-- **lax mode: Exists never reports `true` when the complete evaluation yields no item.**  If Exists
    is `true` then Query returns a non-empty list, or an error (an item after the first hit failed),
    or panics / runs out of fuel after the first hit.  Needs "not `WithSilent`" or a path in the class:
    D8 with `WithSilent` is `d8_silent`. -/
theorem exists_true_sound_lax (fuel : Nat) (a : AST) (doc : Item) (o : Opts) (hl : a.lax = true)
    (hc : o.silent = false ∨ spineOK a.root = true)
    (he : existsWith fuel a doc o = .bool true) :
    (∃ x xs, queryWith fuel a doc o = .items (x :: xs)) ∨ (∃ e, queryWith fuel a doc o = .error e) ∨
    queryWith fuel a doc o = .panic ∨ queryWith fuel a doc o = .outOfFuel := by
  obtain ⟨_, _, _, _, hb⟩ := exists_bool he
  have hst : (existsRun fuel a doc o).status = .ok := hb.mp rfl
  have hh : Appended [] (execute fuel a doc o).found ∨
      ((execute fuel a doc o).status = .failed ∧ (execute fuel a doc o).err = some .verbose) := by
    rcases hc with hc | hc
    · rcases ((lax_runs fuel a doc o hl).hit hst).1 with happ | ⟨_, hf, hv⟩
      · exact Or.inl happ
      · refine Or.inr ⟨hf, hv ?_⟩
        have := (execute_good fuel a doc o).ctx.2.2.2.2.2
        rw [this]; simp [initSt, hc]
    · rcases ((lax_runs_strong fuel a doc o hl hc).hit hst).1 with happ | ⟨hd, _⟩
      · exact Or.inl happ
      · exact absurd hd (by simp)
  cases hoof : (execute fuel a doc o).st.oof with
  | true => right; right; right; unfold queryWith guarded; simp [hoof]
  | false =>
    cases hpan : (execute fuel a doc o).st.panicked with
    | true => right; right; left; unfold queryWith guarded; simp [hoof, hpan]
    | false =>
      rw [query_of_run hoof hpan]
      cases herr : (execute fuel a doc o).err with
      | some e => right; left; exact ⟨e, queryOut_some herr⟩
      | none =>
        left
        rcases hh with happ | ⟨_, hv⟩
        · obtain ⟨x, xs, hx⟩ := happ
          exact ⟨x, xs, by rw [queryOut_none herr, hx]; simp⟩
        · rw [herr] at hv; exact absurd hv (by simp)

/-- in particular: never `true` against an empty result -/
theorem exists_true_not_empty_lax (fuel : Nat) (a : AST) (doc : Item) (o : Opts) (hl : a.lax = true)
    (hc : o.silent = false ∨ spineOK a.root = true)
    (he : existsWith fuel a doc o = .bool true) : queryWith fuel a doc o ≠ .items [] := by
  intro hq
  rcases exists_true_sound_lax fuel a doc o hl hc he with ⟨x, xs, h⟩ | ⟨e, h⟩ | h | h <;>
    rw [hq] at h <;> simp at h

/-- lax mode: Exists is `false` only if Query returns the empty list -/
theorem exists_false_lax (fuel : Nat) (a : AST) (doc : Item) (o : Opts) (hl : a.lax = true)
    (he : existsWith fuel a doc o = .bool false) : queryWith fuel a doc o = .items [] := by
  obtain ⟨hoof, hpan, herr, _, hb⟩ := exists_bool he
  have hst : (existsRun fuel a doc o).status ≠ .ok := fun h => by simpa using hb.mpr h
  have hsame := same_run hl hst
  have h1 : (execute fuel a doc o).st.oof = false := by rw [hsame]; exact hoof
  have h2 : (execute fuel a doc o).st.panicked = false := by rw [hsame]; exact hpan
  rw [query_of_run h1 h2, hsame]
  simp [queryOut, herr]

/-- **lax mode: an error returned by Exists is the error Query returns** -/
theorem exists_error_lax (fuel : Nat) (a : AST) (doc : Item) (o : Opts) (hl : a.lax = true) (e : Err)
    (he : existsWith fuel a doc o = .error e) : queryWith fuel a doc o = .error e := by
  obtain ⟨hoof, hpan, herr⟩ := exists_error he
  have hst : (existsRun fuel a doc o).status ≠ .ok := by
    have := (existsRun_good fuel a doc o).errFailed (by simp [herr])
    rw [this]; simp
  have hsame := same_run hl hst
  have h1 : (execute fuel a doc o).st.oof = false := by rw [hsame]; exact hoof
  have h2 : (execute fuel a doc o).st.panicked = false := by rw [hsame]; exact hpan
  rw [query_of_run h1 h2, hsame]
  simp [queryOut, herr]

/-- lax mode: Exists is `NULL` (a failure whose error is suppressed) only if Query's run failed in the
    same way, with nothing found: Query returns the empty list -/
theorem exists_null_lax (fuel : Nat) (a : AST) (doc : Item) (o : Opts) (hl : a.lax = true)
    (he : existsWith fuel a doc o = .null) :
    queryWith fuel a doc o = .items [] ∧ (execute fuel a doc o).status = .failed := by
  obtain ⟨hoof, hpan, herr, hf⟩ := exists_null he
  have hst : (existsRun fuel a doc o).status ≠ .ok := by rw [hf]; simp
  have hsame := same_run hl hst
  have h1 : (execute fuel a doc o).st.oof = false := by rw [hsame]; exact hoof
  have h2 : (execute fuel a doc o).st.panicked = false := by rw [hsame]; exact hpan
  refine ⟨?_, by rw [hsame]; exact hf⟩
  rw [query_of_run h1 h2, hsame]
  simp [queryOut, herr]

/-- a run of Exists that ran out of fuel: so does Query's (same fuel) -/
theorem exists_outOfFuel_lax (fuel : Nat) (a : AST) (doc : Item) (o : Opts) (hl : a.lax = true)
    (he : existsWith fuel a doc o = .outOfFuel) : queryWith fuel a doc o = .outOfFuel := by
  have hpo : (existsRun fuel a doc o).st.oof = true := by
    unfold existsWith guarded at he
    dsimp only at he
    generalize existsRun fuel a doc o = r at *
    cases hoof : r.st.oof with
    | true => rfl
    | false =>
      cases hpan : r.st.panicked <;> cases herr : r.err <;> simp [hoof, hpan, herr] at he
      split at he <;> simp at he
  have hpc := lax_runs fuel a doc o hl
  have hco : (execute fuel a doc o).st.oof = true := by
    by_cases hst : (existsRun fuel a doc o).status = .ok
    · exact (hpc.hit hst).2.1 hpo
    · rw [hpc.same hst]; exact hpo
  unfold queryWith guarded
  simp [hco]

/-- a panic of Exists is a panic of Query (unless the model's evaluation of Query ran out of fuel) -/
theorem exists_panic_lax (fuel : Nat) (a : AST) (doc : Item) (o : Opts) (hl : a.lax = true)
    (he : existsWith fuel a doc o = .panic) :
    queryWith fuel a doc o = .panic ∨ queryWith fuel a doc o = .outOfFuel := by
  have hpp : (existsRun fuel a doc o).st.panicked = true := by
    unfold existsWith guarded at he
    dsimp only at he
    generalize existsRun fuel a doc o = r at *
    cases hpan : r.st.panicked with
    | true => rfl
    | false =>
      cases hoof : r.st.oof <;> cases herr : r.err <;> simp [hoof, hpan, herr] at he
      split at he <;> simp at he
  have hpc := lax_runs fuel a doc o hl
  have hcp : (execute fuel a doc o).st.panicked = true := by
    by_cases hst : (existsRun fuel a doc o).status = .ok
    · exact (hpc.hit hst).2.2 hpp
    · rw [hpc.same hst]; exact hpp
  unfold queryWith guarded
  cases hoof : (execute fuel a doc o).st.oof <;> simp [hoof, hcp]

/-! ## Query failed -/

/-- **lax mode: Exists hides an error that Query reports only by having found an item before it** -/
theorem query_error_lax (fuel : Nat) (a : AST) (doc : Item) (o : Opts) (hl : a.lax = true) (e : Err)
    (hq : queryWith fuel a doc o = .error e) :
    existsWith fuel a doc o = .error e ∨ existsWith fuel a doc o = .bool true := by
  obtain ⟨hoof, hpan, herr⟩ := query_error hq
  have hpc := lax_runs fuel a doc o hl
  have hg := existsRun_good fuel a doc o
  by_cases hst : (existsRun fuel a doc o).status = .ok
  · right
    obtain ⟨_, hle⟩ := hpc.hit hst
    have hpo : (existsRun fuel a doc o).st.oof = false := by
      cases h : (existsRun fuel a doc o).st.oof with
      | false => rfl
      | true => rw [hle.1 h] at hoof; exact absurd hoof (by simp)
    have hpp : (existsRun fuel a doc o).st.panicked = false := by
      cases h : (existsRun fuel a doc o).st.panicked with
      | false => rfl
      | true => rw [hle.2 h] at hpan; exact absurd hpan (by simp)
    have hpe : (existsRun fuel a doc o).err = none := by
      cases h : (existsRun fuel a doc o).err with
      | none => rfl
      | some e => have := hg.errFailed (by simp [h]); rw [hst] at this; exact absurd this (by simp)
    rw [exists_of_run hpo hpp, existsOut_none hpe]; simp [hst]
  · left
    have hsame := hpc.same hst
    rw [hsame] at hoof hpan herr
    simp only at hoof hpan herr
    rw [exists_of_run hoof hpan, existsOut_some herr]

/-! ## examples (all by evaluation of the model) -/

section examples

def root (nx : Option Node) : Node := .const .root nx
def lax (n : Node) : AST := ⟨n, true, false⟩
def silent : Opts := { silent := true }

/-- `lax $[*]` on `[1, 2]`: Query `[1, 2]`, Exists `true` -/
example : queryWith 10 (lax (root (some (.const .anyArray none)))) (.arr [.int 1, .int 2]) {} = .items [.int 1, .int 2] ∧
    existsWith 10 (lax (root (some (.const .anyArray none)))) (.arr [.int 1, .int 2]) {} = .bool true := ⟨rfl, rfl⟩

/-- `lax $.a` on `{}`: Query `[]`, Exists `false` -/
example : queryWith 10 (lax (root (some (.key ['a'] none)))) (.obj []) {} = .items [] ∧
    existsWith 10 (lax (root (some (.key ['a'] none)))) (.obj []) {} = .bool false := ⟨rfl, rfl⟩

/-- `lax $[*].double()` on `[1, "a"]`: the probe stops at the first element, the collecting run fails
    at the second — Exists `true`, Query errs (allowed: `exists_true_sound_lax`, `query_error_lax`) -/
example : queryWith 10 (lax (root (some (.const .anyArray (some (.method .double none))))))
      (.arr [.int 1, .str ['a']]) {} = .error .verbose ∧
    existsWith 10 (lax (root (some (.const .anyArray (some (.method .double none))))))
      (.arr [.int 1, .str ['a']]) {} = .bool true := ⟨rfl, rfl⟩

/-- the same with `WithSilent`: Query returns the partial list `[1.0]` of a failed run, Exists `true`
    (`exists_of_query_lax_any`, last case) -/
example : (∃ x, queryWith 10 (lax (root (some (.const .anyArray (some (.method .double none))))))
      (.arr [.int 1, .str ['a']]) silent = .items [x]) ∧
    (execute 10 (lax (root (some (.const .anyArray (some (.method .double none))))))
      (.arr [.int 1, .str ['a']]) silent).status = .failed ∧
    existsWith 10 (lax (root (some (.const .anyArray (some (.method .double none))))))
      (.arr [.int 1, .str ['a']]) silent = .bool true := ⟨⟨_, rfl⟩, rfl, rfl⟩

/-- `lax $.double()` on `"a"` with `WithSilent`: both runs fail at the same point — Query `[]`, Exists
    `NULL` (`exists_null_lax`) -/
example : queryWith 10 (lax (root (some (.method .double none)))) (.str ['a']) silent = .items [] ∧
    existsWith 10 (lax (root (some (.method .double none)))) (.str ['a']) silent = .null := ⟨rfl, rfl⟩

/-- `lax $.keyvalue()` on a non-empty object: the probe's shortcut answers without generating an id,
    the collecting run appends one item per member -/
example : (∃ x y, queryWith 10 (lax (root (some (.method .keyvalue none))))
      (.obj [(['a'], .int 1), (['b'], .int 2)]) {} = .items [x, y]) ∧
    existsWith 10 (lax (root (some (.method .keyvalue none)))) (.obj [(['a'], .int 1), (['b'], .int 2)]) {}
      = .bool true := ⟨⟨_, _, rfl⟩, rfl⟩

/-- the path of D8: lax `-"a"` -/
def d8Path : AST := lax (.unary .minus (some (.str ['a'] none)) none)

/-- D8 is outside the class -/
example : spineOK d8Path.root = false := by decide

/-- a unary minus followed by another step is inside: `(-$).abs()` -/
example : spineOK (.unary .minus (some (root none)) (some (.method .abs none))) = true := by decide

/-- D8 (known finding): Query errs, Exists is `true` — within `exists_true_sound_lax` and
    `query_error_lax`, since the options are not silent -/
theorem d8_verbose : queryWith 10 d8Path .null {} = .error .verbose ∧ existsWith 10 d8Path .null {} = .bool true :=
  ⟨rfl, rfl⟩

/-- **D8 with `WithSilent`: Exists is `true` while Query returns the empty list.**  This is why
    `exists_true_sound_lax` needs "not silent, or the path is in the class", and why
    `exists_of_query_lax` needs "the run did not fail". -/
theorem d8_silent : queryWith 10 d8Path .null silent = .items [] ∧ existsWith 10 d8Path .null silent = .bool true ∧
    (execute 10 d8Path .null silent).status = .failed :=
  ⟨rfl, rfl, rfl⟩

/-- the `json.Number` variant of D8: `-$` on a number that is neither an int64 nor a float64 -/
theorem d8_jnum_silent :
    queryWith 10 (lax (.unary .minus (some (root none)) none)) (.jnum "1e999".toList) silent = .items [] ∧
    existsWith 10 (lax (.unary .minus (some (root none)) none)) (.jnum "1e999".toList) silent = .bool true :=
  ⟨rfl, rfl⟩

end examples

end C06b
end Sqljson
