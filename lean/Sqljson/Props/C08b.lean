import Sqljson.Lemmas.SilentSim
/-!
# C08 (second half) — the run with `WithSilent` against the run without it

`Lemmas/SilentSim.lean` proves that the executor started with `verbose = false` proceeds in lock step
with the executor started with `verbose = true` (`xItem_sim`, `xBool_sim`, `xAny_sim`): same result
list, same status, same state up to the flag, and the same error except that a suppressible error
(`ErrVerbose`) is dropped.  Here this is lifted to `exec.query` and the four entry points, for every
path (well-formed or not), document, fuel and option set `o` without `WithSilent`
(`o.silent = false`); the option set with `WithSilent` is `withSilent o = { o with silent := true }`.

* `item_sim`, `any_sim`, `predicate_sim`: the simulation at every executor call;
* `execute_sim`, `existsRun_sim`: the executor run under `WithSilent` is `silence` of the run without;
* `run_rel`: for every entry point the two outcomes are related by `SilentRel` — identical, or a
  suppressible error replaced by a result — from which:
* `success_same`: a call that returns no error without `WithSilent` returns the identical outcome with it;
* `hard_unchanged`: a non-suppressible error (`e ≠ .verbose`: unknown variable, time zone required,
  datetime template, precision/scale, node type, cancellation, `ErrInvalid`) is returned unchanged;
* `suppressed_prefix` (`_query`, `_first`): where `Query`/`First` fail with a suppressible
  error, the silent call returns exactly the items the non-silent executor had collected when it
  failed (`(execute fuel a doc o).found.getD []`), resp. the first of them;
* `suppressed_exists`: where `Exists` fails with a suppressible error the silent call returns NULL
  (the answer is never "already established" there: in lax mode the probing run returns at the first
  hit, before any later error; in strict mode `exec.query` collects everything and a failure discards it);
* `suppressed_match`: where `Match` fails with a suppressible error — raised by the executor or by
  `Match` itself for a result that is not a single boolean/null — the silent call returns
  `matchVerdict` of the items collected so far: `true`/`false`/NULL if exactly that one item had been
  found, NULL otherwise;
* `suppressed_no_error`, `panic_same`, `outOfFuel_same`: the remaining outcomes, for every entry point;
* `silent_cases`: the three cases are exhaustive.
-/

namespace Sqljson
namespace C08b
open Exec Api

/-- the same option set with `WithSilent` added -/
abbrev withSilent (o : Opts) : Opts := { o with silent := true }

/-- an outcome `(result, nil)` of the Go API -/
def Success : Outcome → Prop
  | .items _ | .first _ | .bool _ | .null => True
  | .error _ | .panic | .outOfFuel => False

/-- what `Match` answers under `WithSilent` when the executor returned the items `xs` and no error -/
def matchVerdict : List Item → Outcome
  | [.null] => .null
  | [.bool b] => .bool b
  | _ => .null

/-! ## the executor runs -/

theorem initSt_silent (a : AST) (doc : Item) (o : Opts) :
    initSt a doc (withSilent o) = silenceSt (initSt a doc o) := rfl

theorem initSt_verbose (a : AST) (doc : Item) {o : Opts} (ho : o.silent = false) :
    (initSt a doc o).verbose = true := by simp [initSt, ho]

/-- `exec.query` under `WithSilent` -/
theorem query_sim (c : Ctx) (fuel : Nat) (s : St) (n : Node) (v : Item) (f : Found) (hv : s.verbose = true) :
    query c fuel (silenceSt s) n v f = silence (query c fuel s n v f) := by
  unfold query
  have hS := (sim_all c fuel).1
  refine sim_ite (fun _ => ?_) (fun _ => executeItem_sim c hS _ _ _ _ hv)
  simp only [executeItem_sim c hS s n v (some []) hv, silence_status, silence_st, silence_found, silence_err]
  exact sim_ite (fun _ => rfl) (fun _ => sim_ite (fun _ => rfl) (fun _ => rfl))

/-- **the collecting run (`Query`, `First`, `Match`) under `WithSilent`** -/
theorem execute_sim (fuel : Nat) (a : AST) (doc : Item) {o : Opts} (ho : o.silent = false) :
    execute fuel a doc (withSilent o) = silence (execute fuel a doc o) :=
  query_sim _ fuel _ _ _ _ (initSt_verbose a doc ho)

/-- **the probing run (`Exists`) under `WithSilent`** -/
theorem existsRun_sim (fuel : Nat) (a : AST) (doc : Item) {o : Opts} (ho : o.silent = false) :
    existsRun fuel a doc (withSilent o) = silence (existsRun fuel a doc o) :=
  query_sim _ fuel _ _ _ _ (initSt_verbose a doc ho)

theorem runRes_sim (e : Entry) (fuel : Nat) (a : AST) (doc : Item) {o : Opts} (ho : o.silent = false) :
    runRes e fuel a doc (withSilent o) = silence (runRes e fuel a doc o) := by
  unfold runRes
  cases e <;> simp only
  · exact execute_sim fuel a doc ho
  · exact execute_sim fuel a doc ho
  · exact existsRun_sim fuel a doc ho
  · exact execute_sim fuel a doc ho
  · split
    · exact execute_sim fuel a doc ho
    · exact existsRun_sim fuel a doc ho

/-- results, status, and every state field but the flag agree; the error differs only by suppression -/
theorem runRes_fields (e : Entry) (fuel : Nat) (a : AST) (doc : Item) {o : Opts} (ho : o.silent = false) :
    (runRes e fuel a doc (withSilent o)).found = (runRes e fuel a doc o).found ∧
    (runRes e fuel a doc (withSilent o)).status = (runRes e fuel a doc o).status ∧
    (runRes e fuel a doc (withSilent o)).err = silenceErr (runRes e fuel a doc o).err ∧
    (runRes e fuel a doc (withSilent o)).st = silenceSt (runRes e fuel a doc o).st := by
  rw [runRes_sim e fuel a doc ho]; exact ⟨rfl, rfl, rfl, rfl⟩

theorem guarded_silence (r : Res) (k : Outcome) : guarded (silence r) k = guarded r k := rfl

/-- **the simulation at every executor call**: started with the flag cleared, `executeItemOptUnwrapTarget`
    returns the same items, status and state (up to the flag), and the same error unless suppressible -/
theorem item_sim (c : Ctx) (fuel : Nat) (s : St) (n : Node) (v : Item) (f : Found) (u : Bool)
    (hv : s.verbose = true) :
    xItem c fuel (silenceSt s) n v f u = silence (xItem c fuel s n v f u) := xItem_sim c fuel s n v f u hv

/-- the same for `executeAnyItem` -/
theorem any_sim (c : Ctx) (fuel : Nat) (s : St) (node : Option Node) (vs : List Item) (f : Found)
    (level first last : Nat) (ign un : Bool) (hv : s.verbose = true) :
    xAny c fuel (silenceSt s) node vs f level first last ign un
      = silence (xAny c fuel s node vs f level first last ign un) :=
  xAny_sim c fuel s node vs f level first last ign un hv

/-- predicates evaluate their operands with the flag cleared in both runs: identical outcome and error,
    only the restored flag differs -/
theorem predicate_sim (c : Ctx) (fuel : Nat) (s : St) (n : Node) (v : Item) (b : Bool) (hv : s.verbose = true) :
    xBool c fuel (silenceSt s) n v b
      = { (xBool c fuel s n v b) with st := silenceSt (xBool c fuel s n v b).st } :=
  xBool_sim c fuel s n v b hv

/-! ## the four entry points, by the error of the non-silent executor run -/

section
variable (fuel : Nat) (a : AST) (doc : Item) {o : Opts} (ho : o.silent = false)
include ho

theorem queryWith_silent_none (h : (execute fuel a doc o).err = none ∨ (execute fuel a doc o).err = some .verbose) :
    queryWith fuel a doc (withSilent o)
      = guarded (execute fuel a doc o) (.items ((execute fuel a doc o).found.getD [])) := by
  unfold queryWith
  rw [execute_sim fuel a doc ho]
  have : silenceErr (execute fuel a doc o).err = none := silenceErr_eq_none.2 h
  simp only [silence_err, silence_found, this, guarded_silence]

theorem queryWith_silent_some {e : Err} (h : (execute fuel a doc o).err = some e) (he : e ≠ .verbose) :
    queryWith fuel a doc (withSilent o) = guarded (execute fuel a doc o) (.error e) := by
  unfold queryWith
  rw [execute_sim fuel a doc ho]
  simp only [silence_err, h, silenceErr_some_ne he, guarded_silence]

theorem firstWith_silent_none (h : (execute fuel a doc o).err = none ∨ (execute fuel a doc o).err = some .verbose) :
    firstWith fuel a doc (withSilent o)
      = guarded (execute fuel a doc o) (.first ((execute fuel a doc o).found.getD []).head?) := by
  unfold firstWith
  rw [execute_sim fuel a doc ho]
  have : silenceErr (execute fuel a doc o).err = none := silenceErr_eq_none.2 h
  simp only [silence_err, silence_found, this, guarded_silence]

theorem firstWith_silent_some {e : Err} (h : (execute fuel a doc o).err = some e) (he : e ≠ .verbose) :
    firstWith fuel a doc (withSilent o) = guarded (execute fuel a doc o) (.error e) := by
  unfold firstWith
  rw [execute_sim fuel a doc ho]
  simp only [silence_err, h, silenceErr_some_ne he, guarded_silence]

theorem existsWith_silent_none (h : (existsRun fuel a doc o).err = none ∨ (existsRun fuel a doc o).err = some .verbose) :
    existsWith fuel a doc (withSilent o)
      = guarded (existsRun fuel a doc o)
          (if (existsRun fuel a doc o).status = .failed then .null
           else .bool ((existsRun fuel a doc o).status = .ok)) := by
  unfold existsWith
  rw [existsRun_sim fuel a doc ho]
  have : silenceErr (existsRun fuel a doc o).err = none := silenceErr_eq_none.2 h
  simp only [silence_err, silence_status, this, guarded_silence]
  rfl

theorem existsWith_silent_some {e : Err} (h : (existsRun fuel a doc o).err = some e) (he : e ≠ .verbose) :
    existsWith fuel a doc (withSilent o) = guarded (existsRun fuel a doc o) (.error e) := by
  unfold existsWith
  rw [existsRun_sim fuel a doc ho]
  simp only [silence_err, h, silenceErr_some_ne he, guarded_silence]

theorem matchWith_silent_none (h : (execute fuel a doc o).err = none ∨ (execute fuel a doc o).err = some .verbose) :
    matchWith fuel a doc (withSilent o)
      = guarded (execute fuel a doc o) (matchVerdict ((execute fuel a doc o).found.getD [])) := by
  unfold matchWith
  rw [execute_sim fuel a doc ho]
  have : silenceErr (execute fuel a doc o).err = none := silenceErr_eq_none.2 h
  simp only [silence_err, silence_found, this, guarded_silence]
  rfl

theorem matchWith_silent_some {e : Err} (h : (execute fuel a doc o).err = some e) (he : e ≠ .verbose) :
    matchWith fuel a doc (withSilent o) = guarded (execute fuel a doc o) (.error e) := by
  unfold matchWith
  rw [execute_sim fuel a doc ho]
  simp only [silence_err, h, silenceErr_some_ne he, guarded_silence]

end

/-! ## the entry points without `WithSilent`, by the error of the executor run -/

/-- the verdict of `Match` on the items found when the executor returned no error -/
def matchRaw (silent : Bool) : List Item → Outcome
  | [.null] => .null
  | [.bool b] => .bool b
  | _ => if !silent then .error .verbose else .null

theorem matchRaw_false (xs : List Item) :
    (matchRaw false xs = matchVerdict xs ∧ Success (matchRaw false xs)) ∨
    (matchRaw false xs = .error .verbose ∧ matchVerdict xs = .null) := by
  unfold matchRaw matchVerdict
  split <;> simp [Success]

section
variable (fuel : Nat) (a : AST) (doc : Item) (o : Opts)

theorem queryWith_none (h : (execute fuel a doc o).err = none) :
    queryWith fuel a doc o = guarded (execute fuel a doc o) (.items ((execute fuel a doc o).found.getD [])) := by
  unfold queryWith; simp only [h]

theorem queryWith_some {e : Err} (h : (execute fuel a doc o).err = some e) :
    queryWith fuel a doc o = guarded (execute fuel a doc o) (.error e) := by
  unfold queryWith; simp only [h]

theorem firstWith_none (h : (execute fuel a doc o).err = none) :
    firstWith fuel a doc o
      = guarded (execute fuel a doc o) (.first ((execute fuel a doc o).found.getD []).head?) := by
  unfold firstWith; simp only [h]

theorem firstWith_some {e : Err} (h : (execute fuel a doc o).err = some e) :
    firstWith fuel a doc o = guarded (execute fuel a doc o) (.error e) := by
  unfold firstWith; simp only [h]

theorem existsWith_none (h : (existsRun fuel a doc o).err = none) :
    existsWith fuel a doc o
      = guarded (existsRun fuel a doc o)
          (if (existsRun fuel a doc o).status = .failed then .null
           else .bool ((existsRun fuel a doc o).status = .ok)) := by
  unfold existsWith; simp only [h]

theorem existsWith_some {e : Err} (h : (existsRun fuel a doc o).err = some e) :
    existsWith fuel a doc o = guarded (existsRun fuel a doc o) (.error e) := by
  unfold existsWith; simp only [h]

theorem matchWith_none (h : (execute fuel a doc o).err = none) :
    matchWith fuel a doc o
      = guarded (execute fuel a doc o) (matchRaw o.silent ((execute fuel a doc o).found.getD [])) := by
  unfold matchWith; simp only [h]; rfl

theorem matchWith_some {e : Err} (h : (execute fuel a doc o).err = some e) :
    matchWith fuel a doc o = guarded (execute fuel a doc o) (.error e) := by
  unfold matchWith; simp only [h]

end

/-! ## the relation between the two outcomes -/

/-- how the outcome with `WithSilent` (right) relates to the outcome without it (left) -/
inductive SilentRel : Outcome → Outcome → Prop
  /-- anything but a suppressible error: the identical outcome -/
  | same (x : Outcome) (h : x ≠ .error .verbose) : SilentRel x x
  /-- a suppressible error: no error -/
  | suppressed (y : Outcome) (h : Success y) : SilentRel (.error .verbose) y

theorem guarded_cases (r : Res) (k : Outcome) :
    (r.st.oof = true ∧ guarded r k = .outOfFuel) ∨
    (r.st.oof = false ∧ r.st.panicked = true ∧ guarded r k = .panic) ∨
    (r.st.oof = false ∧ r.st.panicked = false ∧ guarded r k = k) := by
  unfold guarded
  cases r.st.oof <;> cases r.st.panicked <;> simp

theorem guarded_eq_error {r : Res} {k : Outcome} {e : Err} (h : guarded r k = .error e) :
    r.st.oof = false ∧ r.st.panicked = false ∧ k = .error e := by
  rcases guarded_cases r k with ⟨_, h'⟩ | ⟨_, _, h'⟩ | ⟨h1, h2, h'⟩
  · rw [h'] at h; cases h
  · rw [h'] at h; cases h
  · rw [h'] at h; exact ⟨h1, h2, h⟩

theorem guarded_of_flags {r : Res} (k : Outcome) (h1 : r.st.oof = false) (h2 : r.st.panicked = false) :
    guarded r k = k := by
  unfold guarded; simp [h1, h2]

theorem matchVerdict_success (xs : List Item) : Success (matchVerdict xs) := by
  unfold matchVerdict; split <;> trivial

/-- the two verdicts on the same executor state give related outcomes -/
theorem rel_of_guarded (r : Res) (k k' : Outcome)
    (h : (k' = k ∧ k ≠ .error .verbose) ∨ (k = .error .verbose ∧ Success k')) :
    SilentRel (guarded r k) (guarded r k') := by
  rcases guarded_cases r k with ⟨h1, hk⟩ | ⟨h1, h2, hk⟩ | ⟨h1, h2, hk⟩
  · have hk' : guarded r k' = .outOfFuel := by unfold guarded; simp [h1]
    rw [hk, hk']; exact .same _ (by simp)
  · have hk' : guarded r k' = .panic := by unfold guarded; simp [h1, h2]
    rw [hk, hk']; exact .same _ (by simp)
  · rw [hk, guarded_of_flags k' h1 h2]
    rcases h with ⟨rfl, hne⟩ | ⟨rfl, hs⟩
    · exact .same _ hne
    · exact .suppressed _ hs

section
variable (fuel : Nat) (a : AST) (doc : Item) {o : Opts} (ho : o.silent = false)
include ho

theorem query_rel : SilentRel (queryWith fuel a doc o) (queryWith fuel a doc (withSilent o)) := by
  cases hre : (execute fuel a doc o).err with
  | none =>
    rw [queryWith_none fuel a doc o hre, queryWith_silent_none fuel a doc ho (Or.inl hre)]
    exact rel_of_guarded _ _ _ (Or.inl ⟨rfl, by simp⟩)
  | some e =>
    by_cases he : e = .verbose
    · subst he
      rw [queryWith_some fuel a doc o hre, queryWith_silent_none fuel a doc ho (Or.inr hre)]
      exact rel_of_guarded _ _ _ (Or.inr ⟨rfl, trivial⟩)
    · rw [queryWith_some fuel a doc o hre, queryWith_silent_some fuel a doc ho hre he]
      exact rel_of_guarded _ _ _ (Or.inl ⟨rfl, by simpa using he⟩)

theorem first_rel : SilentRel (firstWith fuel a doc o) (firstWith fuel a doc (withSilent o)) := by
  cases hre : (execute fuel a doc o).err with
  | none =>
    rw [firstWith_none fuel a doc o hre, firstWith_silent_none fuel a doc ho (Or.inl hre)]
    exact rel_of_guarded _ _ _ (Or.inl ⟨rfl, by simp⟩)
  | some e =>
    by_cases he : e = .verbose
    · subst he
      rw [firstWith_some fuel a doc o hre, firstWith_silent_none fuel a doc ho (Or.inr hre)]
      exact rel_of_guarded _ _ _ (Or.inr ⟨rfl, trivial⟩)
    · rw [firstWith_some fuel a doc o hre, firstWith_silent_some fuel a doc ho hre he]
      exact rel_of_guarded _ _ _ (Or.inl ⟨rfl, by simpa using he⟩)

theorem exists_rel : SilentRel (existsWith fuel a doc o) (existsWith fuel a doc (withSilent o)) := by
  cases hre : (existsRun fuel a doc o).err with
  | none =>
    rw [existsWith_none fuel a doc o hre, existsWith_silent_none fuel a doc ho (Or.inl hre)]
    exact rel_of_guarded _ _ _ (Or.inl ⟨rfl, by split <;> simp⟩)
  | some e =>
    by_cases he : e = .verbose
    · subst he
      rw [existsWith_some fuel a doc o hre, existsWith_silent_none fuel a doc ho (Or.inr hre)]
      exact rel_of_guarded _ _ _ (Or.inr ⟨rfl, by split <;> trivial⟩)
    · rw [existsWith_some fuel a doc o hre, existsWith_silent_some fuel a doc ho hre he]
      exact rel_of_guarded _ _ _ (Or.inl ⟨rfl, by simpa using he⟩)

theorem match_rel : SilentRel (matchWith fuel a doc o) (matchWith fuel a doc (withSilent o)) := by
  cases hre : (execute fuel a doc o).err with
  | none =>
    rw [matchWith_none fuel a doc o hre, matchWith_silent_none fuel a doc ho (Or.inl hre), ho]
    rcases matchRaw_false ((execute fuel a doc o).found.getD []) with ⟨h1, h2⟩ | ⟨h1, _⟩
    · refine rel_of_guarded _ _ _ (Or.inl ⟨h1.symm, fun h => ?_⟩)
      rw [h] at h2; exact h2
    · exact rel_of_guarded _ _ _ (Or.inr ⟨h1, matchVerdict_success _⟩)
  | some e =>
    by_cases he : e = .verbose
    · subst he
      rw [matchWith_some fuel a doc o hre, matchWith_silent_none fuel a doc ho (Or.inr hre)]
      exact rel_of_guarded _ _ _ (Or.inr ⟨rfl, matchVerdict_success _⟩)
    · rw [matchWith_some fuel a doc o hre, matchWith_silent_some fuel a doc ho hre he]
      exact rel_of_guarded _ _ _ (Or.inl ⟨rfl, by simpa using he⟩)

/-- **every entry point: the outcome with `WithSilent` is the outcome without it, except that a
    suppressible error is replaced by a result** -/
theorem run_rel (e : Entry) : SilentRel (run e fuel a doc o) (run e fuel a doc (withSilent o)) := by
  cases e <;> simp only [run]
  · exact query_rel fuel a doc ho
  · exact first_rel fuel a doc ho
  · exact exists_rel fuel a doc ho
  · exact match_rel fuel a doc ho
  · unfold existsOrMatchWith
    split
    · exact match_rel fuel a doc ho
    · exact exists_rel fuel a doc ho

/-! ## the property-facing statements -/

/-- **1. an execution that succeeds without `WithSilent` returns the identical result with it** -/
theorem success_same (e : Entry) (hs : Success (run e fuel a doc o)) :
    run e fuel a doc (withSilent o) = run e fuel a doc o := by
  have h := run_rel fuel a doc ho e
  generalize run e fuel a doc o = x at h hs
  generalize run e fuel a doc (withSilent o) = y at h
  cases h with
  | same _ _ => rfl
  | suppressed _ _ => exact absurd hs (by simp [Success])

/-- **2. a non-suppressible error is returned unchanged** -/
theorem hard_unchanged (e : Entry) {err : Err} (h : run e fuel a doc o = .error err) (he : err ≠ .verbose) :
    run e fuel a doc (withSilent o) = .error err := by
  have hr := run_rel fuel a doc ho e
  rw [h] at hr
  generalize run e fuel a doc (withSilent o) = y at hr
  cases hr with
  | same _ _ => rfl
  | suppressed _ _ => exact absurd rfl he

/-- **3. where the non-silent call fails with a suppressible error, the silent call returns no error** -/
theorem suppressed_no_error (e : Entry) (h : run e fuel a doc o = .error .verbose) :
    Success (run e fuel a doc (withSilent o)) := by
  have hr := run_rel fuel a doc ho e
  rw [h] at hr
  generalize run e fuel a doc (withSilent o) = y at hr
  cases hr with
  | same _ hne => exact absurd rfl hne
  | suppressed _ hs => exact hs

/-- a Go panic is not affected by `WithSilent` -/
theorem panic_same (e : Entry) (h : run e fuel a doc o = .panic) :
    run e fuel a doc (withSilent o) = .panic := by
  have hr := run_rel fuel a doc ho e
  rw [h] at hr
  generalize run e fuel a doc (withSilent o) = y at hr
  cases hr; rfl

/-- the model runs out of fuel with `WithSilent` iff it does without: the two runs take the same steps -/
theorem outOfFuel_same (e : Entry) (h : run e fuel a doc o = .outOfFuel) :
    run e fuel a doc (withSilent o) = .outOfFuel := by
  have hr := run_rel fuel a doc ho e
  rw [h] at hr
  generalize run e fuel a doc (withSilent o) = y at hr
  cases hr; rfl

/-- the three cases are exhaustive: identical outcome, or a suppressible error turned into a result -/
theorem silent_cases (e : Entry) :
    (run e fuel a doc (withSilent o) = run e fuel a doc o ∧ run e fuel a doc o ≠ .error .verbose) ∨
    (run e fuel a doc o = .error .verbose ∧ Success (run e fuel a doc (withSilent o))) := by
  have hr := run_rel fuel a doc ho e
  generalize run e fuel a doc o = x at hr
  generalize run e fuel a doc (withSilent o) = y at hr
  cases hr with
  | same _ hne => exact Or.inl ⟨rfl, hne⟩
  | suppressed _ hs => exact Or.inr ⟨rfl, hs⟩

/-- **3a. `Query`: the silent call returns exactly the items collected when the non-silent run failed** -/
theorem suppressed_prefix_query (h : queryWith fuel a doc o = .error .verbose) :
    queryWith fuel a doc (withSilent o) = .items ((execute fuel a doc o).found.getD []) := by
  cases hre : (execute fuel a doc o).err with
  | none =>
    rw [queryWith_none fuel a doc o hre] at h
    have := (guarded_eq_error h).2.2; cases this
  | some e =>
    rw [queryWith_some fuel a doc o hre] at h
    obtain ⟨h1, h2, h3⟩ := guarded_eq_error h
    cases h3
    rw [queryWith_silent_none fuel a doc ho (Or.inr hre), guarded_of_flags _ h1 h2]

/-- **3b. `First`: the first of those items (`nil` if there is none)** -/
theorem suppressed_prefix_first (h : firstWith fuel a doc o = .error .verbose) :
    firstWith fuel a doc (withSilent o) = .first ((execute fuel a doc o).found.getD []).head? := by
  cases hre : (execute fuel a doc o).err with
  | none =>
    rw [firstWith_none fuel a doc o hre] at h
    have := (guarded_eq_error h).2.2; cases this
  | some e =>
    rw [firstWith_some fuel a doc o hre] at h
    obtain ⟨h1, h2, h3⟩ := guarded_eq_error h
    cases h3
    rw [firstWith_silent_none fuel a doc ho (Or.inr hre), guarded_of_flags _ h1 h2]

/-- **3a+b. `Query` and `First` together** (`First` fails exactly when `Query` does: the same run) -/
theorem suppressed_prefix (h : queryWith fuel a doc o = .error .verbose) :
    queryWith fuel a doc (withSilent o) = .items ((execute fuel a doc o).found.getD []) ∧
    firstWith fuel a doc o = .error .verbose ∧
    firstWith fuel a doc (withSilent o) = .first ((execute fuel a doc o).found.getD []).head? := by
  have hf : firstWith fuel a doc o = .error .verbose := by
    cases hre : (execute fuel a doc o).err with
    | none =>
      rw [queryWith_none fuel a doc o hre] at h
      have := (guarded_eq_error h).2.2; cases this
    | some e =>
      rw [queryWith_some fuel a doc o hre] at h
      obtain ⟨h1, h2, h3⟩ := guarded_eq_error h
      cases h3
      rw [firstWith_some fuel a doc o hre, guarded_of_flags _ h1 h2]
  exact ⟨suppressed_prefix_query fuel a doc ho h, hf, suppressed_prefix_first fuel a doc ho hf⟩

/-- **3c. `Exists`: NULL** -/
theorem suppressed_exists (h : existsWith fuel a doc o = .error .verbose) :
    existsWith fuel a doc (withSilent o) = .null := by
  cases hre : (existsRun fuel a doc o).err with
  | none =>
    rw [existsWith_none fuel a doc o hre] at h
    have := (guarded_eq_error h).2.2
    split at this <;> cases this
  | some e =>
    rw [existsWith_some fuel a doc o hre] at h
    obtain ⟨h1, h2, h3⟩ := guarded_eq_error h
    cases h3
    have hf : (existsRun fuel a doc o).status = .failed :=
      (existsRun_good fuel a doc o).errFailed (by simp [hre])
    rw [existsWith_silent_none fuel a doc ho (Or.inr hre), guarded_of_flags _ h1 h2, if_pos hf]

/-- **3d. `Match`: the verdict on the items collected so far — the boolean/NULL if exactly that one item
    had been found, NULL otherwise.  Covers both sources of the error: the executor, and `Match` itself
    rejecting a result that is not a single boolean or null.** -/
theorem suppressed_match (h : matchWith fuel a doc o = .error .verbose) :
    matchWith fuel a doc (withSilent o) = matchVerdict ((execute fuel a doc o).found.getD []) := by
  cases hre : (execute fuel a doc o).err with
  | none =>
    rw [matchWith_none fuel a doc o hre] at h
    obtain ⟨h1, h2, _⟩ := guarded_eq_error h
    rw [matchWith_silent_none fuel a doc ho (Or.inl hre), guarded_of_flags _ h1 h2]
  | some e =>
    rw [matchWith_some fuel a doc o hre] at h
    obtain ⟨h1, h2, h3⟩ := guarded_eq_error h
    cases h3
    rw [matchWith_silent_none fuel a doc ho (Or.inr hre), guarded_of_flags _ h1 h2]

/-- in case 3d with the error raised by `Match` itself the answer is NULL -/
theorem suppressed_match_not_single (h : matchWith fuel a doc o = .error .verbose)
    (hre : (execute fuel a doc o).err = none) : matchWith fuel a doc (withSilent o) = .null := by
  rw [suppressed_match fuel a doc ho h]
  rw [matchWith_none fuel a doc o hre, ho] at h
  have h3 := (guarded_eq_error h).2.2
  rcases matchRaw_false ((execute fuel a doc o).found.getD []) with ⟨_, h2⟩ | ⟨_, h2⟩
  · rw [h3] at h2; exact absurd h2 (by simp [Success])
  · exact h2

end

/-- the items of a collecting run are a list (never the nil pointer), so `getD []` loses nothing -/
theorem execute_found (fuel : Nat) (a : AST) (doc : Item) (o : Opts) :
    ∃ xs, (execute fuel a doc o).found = some xs := by
  obtain ⟨l, hl⟩ := (execute_good fuel a doc o).shape.2 [] rfl
  exact ⟨l, by simpa using hl⟩

/-! ## non-vacuity: the three cases on concrete paths (evaluated by the kernel) -/

/-- the subscript `i` -/
def sub (i : Int) : Node := .binary .subscript (some (.integer i none)) none none

/-- `strict $[0, 5]` -/
def pIdx : AST := ⟨.const .root (some (.arrayIndex [sub 0, sub 5] none)), false, false⟩

/-- `strict $ ? (@.a == 1).b`: a predicate (operands evaluated silently) before the failing step -/
def pFilter : AST :=
  ⟨.const .root (some (.unary .filter
      (some (.binary .eq (some (.const .current (some (.key ['a'] none)))) (some (.integer 1 none)) none))
      (some (.key ['b'] none)))), false, false⟩

/-- `strict $x` -/
def pVar : AST := ⟨.var ['x'] none, false, false⟩

/-- `strict $.a` -/
def pKey : AST := ⟨.const .root (some (.key ['a'] none)), false, false⟩

-- suppressed: the second subscript is out of range after the first one produced an item
example : run .query 10 pIdx (.arr [.int 10]) {} = .error .verbose := rfl
example : run .query 10 pIdx (.arr [.int 10]) (withSilent {}) = .items [.int 10] := rfl
example : (execute 10 pIdx (.arr [.int 10]) {}).found.getD [] = [.int 10] := rfl
example : run .first 10 pIdx (.arr [.int 10]) (withSilent {}) = .first (some (.int 10)) := rfl
example : run .exists 10 pIdx (.arr [.int 10]) {} = .error .verbose := rfl
example : run .exists 10 pIdx (.arr [.int 10]) (withSilent {}) = .null := rfl
-- `Match`: the answer `true` was already established when the error occurred
example : run .match_ 10 pIdx (.arr [.bool true]) {} = .error .verbose := rfl
example : run .match_ 10 pIdx (.arr [.bool true]) (withSilent {}) = .bool true := rfl
-- `Match` on a result that is not a single boolean: the error comes from `Match` itself
example : run .match_ 10 pKey (.obj [(['a'], .int 1)]) {} = .error .verbose := rfl
example : run .match_ 10 pKey (.obj [(['a'], .int 1)]) (withSilent {}) = .null := rfl
-- the structural error after a predicate is still reported without `WithSilent`, and suppressed with it
example : run .query 20 pFilter (.obj [(['a'], .int 1)]) {} = .error .verbose := rfl
example : run .query 20 pFilter (.obj [(['a'], .int 1)]) (withSilent {}) = .items [] := rfl
-- hard error: unchanged
example : run .query 10 pVar .null {} = .error (.hard .noVar) := rfl
example : run .query 10 pVar .null (withSilent {}) = .error (.hard .noVar) := rfl
-- cancellation: unchanged
example : run .query 10 pKey (.obj []) { budget := some 1 } = .error .cancelled := rfl
example : run .query 10 pKey (.obj []) (withSilent { budget := some 1 }) = .error .cancelled := rfl
-- success: identical
example : run .query 10 pKey (.obj [(['a'], .int 1)]) {} = .items [.int 1] := rfl
example : run .query 10 pKey (.obj [(['a'], .int 1)]) (withSilent {}) = .items [.int 1] := rfl

end C08b
end Sqljson
