import Sqljson.Props.C02b
import Sqljson.Lemmas.NumRoundTrip
/-!
# C02c — the print/parse round trip for trees with numeric (non-integer) literal nodes

`Props/C02b` proves `Parse(p.String()) = p` for the class `RT5`, which has no `NumericNode`: "outside the
class: non-integral numeric literals (needs a float print/parse theorem; D5 for integral ones)".  The float
theorem exists since `Props/C16b` (the 17-digit theorem, `Lemmas/FloatText`); this file closes the gap.
`Lemmas/NumRoundTrip` holds the proofs.

## How a numeric node is printed and read (checked against `/repo/path/ast/ast.go`, `parser/lex.go`)

* `ast.NewNumeric` stores `json.Marshal(f)` as the node's text: the shortest digits that identify the double,
  laid out `%f`-style (`0.000001`, `123456.789`) for `1e-6 ≤ |f| < 1e21` and `%e`-style with the exponent
  cleaned (`1e-7`, `1.5e-7`, `1e+21`, `1.7976931348623157e+308`) otherwise; `numberNode.writeTo` puts the text
  in parentheses when accessors follow (`(1.5).abs()`).  Model: `Decimal.jsonFloat`, `Print.writeTo`.
* `scanNumber` reads digits, an optional `.` and fraction, an optional `e`/`E` with an optional sign and digits;
  a text with a `.` or an exponent is `NUMERIC_P`, a plain digit string is `INT_P`.  `newNumeric` converts the
  token text with `strconv.ParseFloat`.  A `-` before a number literal is a separate token; the grammar action
  `ast.NewUnaryOrNumber` folds it into the literal (`NewNumeric("-" + literal)`).

## The class `RT6 o ⊇ RT5 o` (a `Bool`-valued function, `NumRT.RT6`)

`RT5` (see `Props/C02b`) with, in addition, **numeric literals `g` with `NumRT.numOK g`** wherever an integer
literal may stand as an operand: alone (`1.5`, `1e+300`), negative (`-2.5`, printed as a sign and the absolute
value, also as the right operand of an operator: `$ - -2.5`), or followed by any chain of accessors of the
class (`(1.5).abs()`, `(-2.5e-7)."k"[0]`): operands of `+ - * / %` and of the comparisons, of `starts with`,
`like_regex`, `exists`, subscript bounds (`$[0.5 to 2.5]`), the top-level expression.

`numOK g` (decidable): `g = ± m · 2^e` is finite, non-zero, in canonical form (`F64.WF`: what every arithmetic
operation and `ParseFloat` of the model produce), and the shortest decimal `c · 10^p` that identifies it has a
fraction (`p < 0`) or is at least `1e21`.  **Every canonical finite double whose value is not an integer
satisfies it** (`nonintegral_in_class`); so do the integral values from `1e21` on, which print in exponent
form.  What remains outside is exactly D5: `±0` and the integral values below `1e21`, whose text is a plain
digit string (`outside_class_prints_digits`) and therefore reads back as an integer node, or is rejected when
it exceeds `int64` (`integral_numeric_does_not_roundtrip`, `integral_numeric_output_rejected`).

Still excluded, as in `RT5`: a sign applied to a number literal as a tree shape (no accepted path has it, the
parser folds it: `sign_on_numeric_is_folded`), operator nodes carrying accessors (D3).

## Theorems

* `roundtrip_stage6` — **the main theorem**: `RT6 o a → ∃ txt, toString a = some txt ∧ parse o (utf8 txt) = .ok a`,
  under the same oracle hypotheses `OrOK o` as `C02b`; `roundtrip_stage6_bytes` for every byte string that
  decodes to the printed runes; `roundtrip_of_accepted6`, `fixed_point6`, `mode_pred_preserved6`;
* `stage5_in_stage6`, `roundtrip_stage5_again`;
* token level: `numeric_token_reads_back` (the text is ONE `NUMERIC_P` token with exactly that text whatever
  tolerated character follows), `numeric_text_parses_back` (`ParseFloat` of the text is the value, every
  canonical finite double, sign and `±0` included), `numeric_text_shape`, `negative_literal_is_folded`;
* `numeric_leaf_roundtrip`, `numeric_with_accessors_roundtrip`;
* `nonintegral_in_class`, `outside_class_prints_digits`, and the D5 counterexamples.
-/

namespace Sqljson
namespace C02c
open Parse Lex ParseLemmas RoundTrip NumRT
open C02b (asciiOracles_ok)

/-! ## The classes -/

/-- stage 5 (the largest class of `C02b`) is contained in stage 6 -/
theorem stage5_in_stage6 (o : Oracles) (a : AST) (h : RT5 o a = true) : RT6 o a = true := RT5_RT6 o a h

/-- every stage of `C02b` is contained in stage 6 -/
theorem in_stage6 (o : Oracles) (a : AST)
    (h : RT1 a = true ∨ RT2 a = true ∨ RT3 o a = true ∨ RT4 o a = true ∨ RT5 o a = true) : RT6 o a = true :=
  RT5_RT6 o a (C02b.in_stage5 o a h)

/-- **every finite double in canonical form whose value is not an integer is a literal of the class.**
    (`Integral (.fin s m e)` says `e ≥ 0` or `2^(-e)` divides `m`, i.e. `± m · 2^e ∈ ℤ`.) -/
theorem nonintegral_in_class (neg : Bool) (m : Nat) (e : Int) (hwf : F64.WF (.fin neg m e))
    (hni : ¬ Integral (.fin neg m e)) : numOK (.fin neg m e) = true :=
  numOK_of_not_integral hwf hni

/-- what the class demands of a literal, unfolded -/
theorem class_of_literal (g : F64) (h : numOK g = true) :
    ∃ neg m e, g = .fin neg m e ∧ m ≠ 0 ∧ F64.WF g ∧
      ((Decimal.shortest m e).2 < 0 ∨
        (Decimal.shortest m e).2 + ((Decimal.formatNat (Decimal.shortest m e).1).length : Int) - 1 ≥ 21) := by
  obtain ⟨neg, m, e, rfl, hm, hwf, hs⟩ := numOK_cases h
  refine ⟨neg, m, e, rfl, hm, hwf, ?_⟩
  simpa [shapeOK, lead] using hs

/-! ## Token level -/

section
variable (o : Oracles) (ok : OrOK o)
include ok

/-- **the printed text of a literal of the class is one numeric token.**  `Print.toString` writes the
    literal `± m · 2^e` as `signTxt neg ++ absTxt m e`; a lexer state standing before `absTxt m e ++ r`, where
    `r` starts with a character that does not continue a number (anything but a digit, `_`, `e`, `E` and an
    identifier start; the end of the input and a dot are allowed), returns `NUMERIC_P` with exactly the text
    `absTxt m e` and then stands before `r` — whatever else `r` contains. -/
theorem numeric_token_reads_back (neg : Bool) (m : Nat) (e : Int) (h : numOK (.fin neg m e) = true)
    (r : List Char) (hr : NoNul r) (hy : Layout.EndsNumeric o r.head?) (s : LState) (hs : At (absTxt m e ++ r) s) :
    ∃ s', Lex.lex o s = (.numeric, absTxt m e, s') ∧ At r s' := by
  obtain ⟨_, _, _, hfin, hm, hwf, hsh⟩ := numOK_cases h
  injection hfin with h1 h2 h3
  subst h2; subst h3
  have hc := (shortest_facts hm hwf).1
  obtain ⟨d, ds, htxt, hd, _, _, ht⟩ := tokAt_layoutJ o ok _ _ hc hsh
  have e1 : absTxt m e = d :: ds := htxt
  rw [e1] at hs ⊢
  exact lex_of_tokAt o ht hd r hr hy s (by simpa using hs)

end

/-- the text `json.Marshal` writes for a non-zero finite double: sign, then `absTxt` -/
theorem numeric_text_shape (neg : Bool) (m : Nat) (e : Int) (hm : m ≠ 0) :
    Decimal.jsonFloat (.fin neg m e) = some (signTxt neg ++ absTxt m e) := jsonFloat_eq neg m e hm

/-- **`strconv.ParseFloat` of the printed text is the value** — every finite double in canonical form, of
    either sign, `±0` included, whether in the class or not; in the parser's terms: `newNumeric` on the token
    text (`parseFloatFinite`) gives back the same `F64`. -/
theorem numeric_text_parses_back (g : F64) (hfin : g.isFinite = true) (hwf : F64.WF g) :
    ∃ txt, Decimal.jsonFloat g = some txt ∧ Decimal.parseFloat txt = .ok g ∧ parseFloatFinite txt = some g := by
  cases g with
  | nan => cases hfin
  | inf n => cases hfin
  | fin neg m e =>
    by_cases hm : m = 0
    · subst hm
      have he : e = F64.minExp := hwf.1 (by decide)
      subst he
      cases neg
      · exact ⟨"0".toList, rfl, rfl, rfl⟩
      · exact ⟨"-0".toList, rfl, rfl, rfl⟩
    · exact ⟨_, jsonFloat_eq neg m e hm, parse_txt neg hm hwf, parseFloatFinite_txt neg hm hwf⟩

/-- **a negative literal**: the text of `-|g|` is `-` followed by the text of `|g|`; the lexer makes two
    tokens of it and `ast.NewUnaryOrNumber` re-parses `"-" ++ literal`, which is the negative value -/
theorem negative_literal_is_folded (m : Nat) (e : Int) (h : numOK (.fin true m e) = true) :
    Decimal.jsonFloat (.fin true m e) = some ('-' :: absTxt m e) ∧
    negLit (absTxt m e) = '-' :: absTxt m e ∧
    parseFloatFinite (absTxt m e) = some (.fin false m e) ∧
    parseFloatFinite ('-' :: absTxt m e) = some (.fin true m e) := by
  obtain ⟨_, _, _, hfin, hm, hwf, hsh⟩ := numOK_cases h
  injection hfin with h1 h2 h3
  subst h1; subst h2; subst h3
  have hwf' : F64.WF (.fin false m e) := hwf
  have hc := (shortest_facts hm hwf).1
  refine ⟨?_, negLit_absTxt hc hsh, ?_, ?_⟩
  · simpa [signTxt] using jsonFloat_eq true m e hm
  · simpa [signTxt] using parseFloatFinite_txt false hm hwf'
  · simpa [signTxt] using parseFloatFinite_txt true hm hwf

/-! ## The round trip -/

section
variable (o : Oracles) (ok : OrOK o)
include ok

/-- **Stage 6 — the main theorem.**  Every tree of the class `RT6 o` — the trees of `RT5 o` with numeric
    literals of the class `numOK` as operands, alone, negative, or with accessors — is printed without panic,
    and parsing the UTF-8 bytes of the printed text gives back exactly the same tree, mode and predicate flag
    included. -/
theorem roundtrip_stage6 (a : AST) (h : RT6 o a = true) :
    ∃ txt, Print.toString o.isPrint a = some txt ∧ parse o (utf8 txt) = .ok a := by
  obtain ⟨txt, h1, h2⟩ := roundtrip_stage6' ok a h
  exact ⟨txt, h1, h2 _ (decodeAll_utf8 txt)⟩

/-- the same for every byte string that the lexer decodes to the printed runes -/
theorem roundtrip_stage6_bytes (a : AST) (h : RT6 o a = true) :
    ∃ txt, Print.toString o.isPrint a = some txt ∧
      ∀ bytes, decodeAll bytes = txt.map Src.ch → parse o bytes = .ok a :=
  roundtrip_stage6' ok a h

/-- the theorem of `C02b` is an instance -/
theorem roundtrip_stage5_again (a : AST) (h : RT5 o a = true) :
    ∃ txt, Print.toString o.isPrint a = some txt ∧ parse o (utf8 txt) = .ok a :=
  roundtrip_stage6 o ok a (RT5_RT6 o a h)

/-- the same for a path that `Parse` accepted (whose validity `Parse` has checked): only the shape of the
    tree has to be in the class -/
theorem roundtrip_of_accepted6 (bytes0 : List UInt8) (a : AST) (h0 : parse o bytes0 = .ok a)
    (hshape : (if a.pred then okPred6 o a.root else okExpr6 o a.root) = true) :
    ∃ txt, Print.toString o.isPrint a = some txt ∧ parse o (utf8 txt) = .ok a := by
  have hv : validate a.root = true := parse_ok_wf o bytes0 a h0
  exact roundtrip_stage6 o ok a (by simp only [RT6, hv, hshape, Bool.and_self])

/-- `String` is a fixed point: `Parse(p.String()).String() = p.String()` on the class -/
theorem fixed_point6 (a : AST) (h : RT6 o a = true) :
    ∃ txt b, Print.toString o.isPrint a = some txt ∧ parse o (utf8 txt) = .ok b ∧
      Print.toString o.isPrint b = some txt := by
  obtain ⟨txt, h1, h2⟩ := roundtrip_stage6 o ok a h
  exact ⟨txt, a, h1, h2, h1⟩

/-- the mode, the predicate flag and the tree are preserved -/
theorem mode_pred_preserved6 (a : AST) (h : RT6 o a = true) (txt : List Char) (b : AST)
    (h1 : Print.toString o.isPrint a = some txt) (h2 : parse o (utf8 txt) = .ok b) :
    b.lax = a.lax ∧ b.pred = a.pred ∧ b.root = a.root := by
  obtain ⟨txt', h1', h2'⟩ := roundtrip_stage6 o ok a h
  rw [h1] at h1'
  injection h1' with e
  subst e
  rw [h2] at h2'
  injection h2' with e
  subst e
  exact ⟨rfl, rfl, rfl⟩

/-- **a single numeric literal**: for every literal of the class, the path consisting of it alone (either
    mode) round-trips -/
theorem numeric_leaf_roundtrip (g : F64) (hg : numOK g = true) (lax : Bool) :
    ∃ txt, Print.toString o.isPrint ⟨.numeric g none, lax, false⟩ = some txt ∧
      parse o (utf8 txt) = .ok ⟨.numeric g none, lax, false⟩ := by
  refine roundtrip_stage6 o ok _ ?_
  simp [RT6, validate, validNode, validOpt, okExpr6, hg]

/-- **a numeric literal with one method**: `(g).abs()`, `(g).type()`, … -/
theorem numeric_with_accessors_roundtrip (g : F64) (hg : numOK g = true) (m : Method) (lax : Bool) :
    ∃ txt, Print.toString o.isPrint ⟨.numeric g (some (.method m none)), lax, false⟩ = some txt ∧
      parse o (utf8 txt) = .ok ⟨.numeric g (some (.method m none)), lax, false⟩ := by
  refine roundtrip_stage6 o ok _ ?_
  simp [RT6, validate, validNode, validOpt, okExpr6, okStep6, okNext6, hg]

end

/-! ## Outside the class: D5 -/

/-- a non-zero finite double outside the class (its shortest decimal has no fraction and is below `1e21`)
    prints as a plain string of digits after its sign — the text of an integer literal -/
theorem outside_class_prints_digits (neg : Bool) (m : Nat) (e : Int) (hm : m ≠ 0)
    (hs : shapeOK (Decimal.formatNat (Decimal.shortest m e).1) (Decimal.shortest m e).2 = false) :
    ∃ ds, Decimal.jsonFloat (.fin neg m e) = some (signTxt neg ++ ds) ∧ ∀ c ∈ ds, Decimal.isDigit c = true :=
  ⟨absTxt m e, jsonFloat_eq neg m e hm, layoutJ_digits_of_not_shape _ _ hs⟩

/-- `4.0` = `2^52 · 2^-50` -/
def four : F64 := .fin false 4503599627370496 (-50)
/-- `1e20` -/
def tenTo20 : F64 := .fin false 6103515625000000 14
/-- `1e21`, the first power of ten printed in exponent form -/
def tenTo21 : F64 := .fin false 7629394531250000 17

example : parseFloatFinite "4.0".toList = some four ∧ parseFloatFinite "1e20".toList = some tenTo20 ∧
    parseFloatFinite "1e21".toList = some tenTo21 := by decide +kernel

/-- `4.0` and `1e20` are not in the class, `1e21` is -/
theorem d5_values_outside : numOK four = false ∧ numOK tenTo20 = false ∧ numOK tenTo21 = true := by
  decide +kernel

/-- **D5**: the numeric node `4.0` prints as `4`, which reads back as the integer node `4` -/
theorem integral_numeric_does_not_roundtrip :
    Print.toString asciiOracles.isPrint ⟨.numeric four none, true, false⟩ = some "4".toList ∧
    rootIs (fun n => match n with | .integer 4 none => true | _ => false) (parse asciiOracles (ascii "4")) = true := by
  decide +kernel

/-- **D5**: the numeric node `1e20` prints as `100000000000000000000`, which is rejected (an integer literal
    out of range) -/
theorem integral_numeric_output_rejected :
    Print.toString asciiOracles.isPrint ⟨.numeric tenTo20 none, true, false⟩ = some "100000000000000000000".toList ∧
    run "100000000000000000000" = "ERR" := by
  decide +kernel

/-- … while `1e21` prints as `1e+21` and round-trips (by the theorem, not by evaluation) -/
example : ∃ txt, Print.toString asciiOracles.isPrint ⟨.numeric tenTo21 none, true, false⟩ = some txt ∧
    parse asciiOracles (utf8 txt) = .ok ⟨.numeric tenTo21 none, true, false⟩ :=
  numeric_leaf_roundtrip asciiOracles asciiOracles_ok tenTo21 (by decide +kernel) true

example : Print.toString asciiOracles.isPrint ⟨.numeric tenTo21 none, true, false⟩ = some "1e+21".toList := by
  decide +kernel

/-! ## Concrete members of the class (non-vacuity) -/

def f1_5 : F64 := .fin false 6755399441055744 (-52)          -- 1.5
def f0_5 : F64 := .fin false 4503599627370496 (-53)          -- 0.5
def fm0_5 : F64 := .fin true 4503599627370496 (-53)          -- -0.5
def f2_5 : F64 := .fin false 5629499534213120 (-51)          -- 2.5
def fm2_5 : F64 := .fin true 5629499534213120 (-51)          -- -2.5
def f1_5em7 : F64 := .fin false 5666839779443574 (-75)       -- 1.5e-7
def f1e300 : F64 := .fin false 6724873095247260 944          -- 1e300

example : parseFloatFinite "1.5".toList = some f1_5 ∧ parseFloatFinite "0.5".toList = some f0_5 ∧
    parseFloatFinite "-0.5".toList = some fm0_5 ∧ parseFloatFinite "2.5".toList = some f2_5 ∧
    parseFloatFinite "-2.5".toList = some fm2_5 ∧ parseFloatFinite "1.5e-7".toList = some f1_5em7 ∧
    parseFloatFinite "1e300".toList = some f1e300 := by decide +kernel

example : numOK f1_5 = true ∧ numOK fm2_5 = true ∧ numOK f1_5em7 = true ∧ numOK f1e300 = true := by
  decide +kernel

/-- `$.a ? (@ > 1.5e-7)` -/
def exA : AST :=
  ⟨.const .root (some (.key "a".toList (some (.unary .filter
      (some (.binary .gt (some (.const .current none)) (some (.numeric f1_5em7 none)) none)) none)))),
   true, false⟩

example : RT6 asciiOracles exA = true := by decide +kernel
example : RT5 asciiOracles exA = false := by decide +kernel

example : Print.toString asciiOracles.isPrint exA = some "$.\"a\"?(@ > 1.5e-7)".toList := by decide +kernel

/-- the theorem instantiated: a concrete `parse … = .ok …` obtained from it, not by evaluation -/
example : parse asciiOracles (utf8 "$.\"a\"?(@ > 1.5e-7)".toList) = .ok exA := by
  obtain ⟨txt, h1, h2⟩ := roundtrip_stage6 asciiOracles asciiOracles_ok exA (by decide +kernel)
  have : txt = "$.\"a\"?(@ > 1.5e-7)".toList := by
    have e : Print.toString asciiOracles.isPrint exA = some "$.\"a\"?(@ > 1.5e-7)".toList := by decide +kernel
    rw [e] at h1
    injection h1 with h1
    exact h1.symm
  rw [← this]; exact h2

/-- `-2.5 + $.x * 1e+300` (an expression at the top level is printed in parentheses) -/
def exB : AST :=
  ⟨.binary .add (some (.numeric fm2_5 none))
      (some (.binary .mul (some (.const .root (some (.key "x".toList none)))) (some (.numeric f1e300 none)) none)) none,
   true, false⟩

example : RT6 asciiOracles exB = true := by decide +kernel

example : Print.toString asciiOracles.isPrint exB = some "(-2.5 + $.\"x\" * 1e+300)".toList := by decide +kernel

/-- independent check of the same example by evaluating the model of `Parse` on the user's spelling and on
    the printed text -/
example : (match parse asciiOracles (ascii "-2.5 + $.x * 1e+300") with
    | .ok b => Print.toString asciiOracles.isPrint b
    | _ => none) = some "(-2.5 + $.\"x\" * 1e+300)".toList ∧
    (match parse asciiOracles (ascii "(-2.5 + $.\"x\" * 1e+300)") with
    | .ok b => Print.toString asciiOracles.isPrint b
    | _ => none) = some "(-2.5 + $.\"x\" * 1e+300)".toList := by
  decide +kernel

/-- literals with accessors, a negative literal as right operand, numeric subscript bounds, a predicate at the
    top level: `strict ((1.5).abs() - -0.5 == $[0.5 to 2.5] || (-2.5)."k" starts with "a")` -/
def exC : AST :=
  ⟨.binary .or
      (some (.binary .eq
        (some (.binary .sub (some (.numeric f1_5 (some (.method .abs none)))) (some (.numeric fm0_5 none)) none))
        (some (.const .root (some (.arrayIndex
          [.binary .subscript (some (.numeric f0_5 none)) (some (.numeric f2_5 none)) none] none))))
        none))
      (some (.binary .startsWith (some (.numeric fm2_5 (some (.key "k".toList none)))) (some (.str "a".toList none)) none))
      none,
   false, true⟩

example : RT6 asciiOracles exC = true := by decide +kernel

example : Print.toString asciiOracles.isPrint exC
    = some "strict ((1.5).abs() - -0.5 == $[0.5 to 2.5] || (-2.5).\"k\" starts with \"a\")".toList := by
  decide +kernel

example : (match parse asciiOracles (ascii "strict ((1.5).abs() - -0.5 == $[0.5 to 2.5] || (-2.5).\"k\" starts with \"a\")") with
    | .ok b => Print.toString asciiOracles.isPrint b
    | _ => none)
    = some "strict ((1.5).abs() - -0.5 == $[0.5 to 2.5] || (-2.5).\"k\" starts with \"a\")".toList := by
  decide +kernel

/-! ## Outside the class -/

/-- a sign on a numeric literal is not in the class … -/
example : okExpr6 asciiOracles (.unary .minus (some (.numeric f1_5 none)) none) = false := by decide +kernel

/-- … because the parser folds it into the literal: the tree `unary minus (numeric 1.5)` prints as `(-1.5)`
    at the top level, which reads back as the literal `-1.5` (no accepted path has the first shape) -/
theorem sign_on_numeric_is_folded :
    Print.toString asciiOracles.isPrint ⟨.unary .minus (some (.numeric f1_5 none)) none, true, false⟩
      = some "(-1.5)".toList ∧
    rootIs (fun n => match n with | .numeric (.fin true 6755399441055744 (-52)) none => true | _ => false)
      (parse asciiOracles (ascii "(-1.5)")) = true := by
  decide +kernel

/-- D3 is unchanged: an operator node with an accessor is in no class -/
example : okExpr6 asciiOracles
    (.binary .mul (some (.numeric f1_5 none)) (some (.numeric f2_5 none)) (some (.method .abs none))) = false := by
  decide +kernel

end C02c
end Sqljson
