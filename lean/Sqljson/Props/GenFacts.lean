import Sqljson.Gen.Raise
import Sqljson.Gen.Enums
import Sqljson.Gen.Priority
import Sqljson.Gen.Keywords
import Sqljson.Gen.Layouts
import Sqljson.Gen.Effects
import Sqljson.Props.GenExpected
/-!
# Facts about the tables regenerated from the Go sources on every run

`Gen/*.lean` is rewritten by `sqv extract` from /repo's working tree before these theorems are
checked.  Each theorem is closed by `decide` on the *current* tables, so a change to the Go code
that alters a table is re-examined by the kernel: either the fact still holds (harmless change) or
the obligation breaks.

* `*_unchanged`: the table equals the frozen copy the model was written against (error classes
  raised per function; operator/method/constant spellings; operator priorities; keywords; datetime
  layout strings and their order in `ParseTime`);
* `cancel_site_class`: the context poll raises a plain `ErrExecution` (never suppressible);
* C19 / C05 effect discipline: `no_goroutines`, `no_unsafe_or_sync`, `no_package_var_writes`, `no_package_var_uses`, `in_place_calls_are_local`,
  `exec_writes_are_per_call` (package exec only assigns fields of the per-call `Executor`, the
  per-call `valueList`, and a local slice), `ast_writes_are_construction` (package ast only assigns
  node fields in constructors / `setNext` / `NewAny`, and a local byte slice),
  `types_writes_are_receivers`, `path_writes_are_receivers`, `parser_writes_are_per_call`.
-/

namespace Sqljson
namespace GenFacts

theorem raise_unchanged : Gen.raiseSites = Expected.raiseSites := by decide
theorem enums_unchanged : Gen.enums = Expected.enums := by decide
theorem priorities_unchanged : Gen.priorities = Expected.priorities := by decide
theorem keywords_unchanged : Gen.keywords = Expected.keywords := by decide
theorem layouts_unchanged : Gen.layoutConsts = Expected.layoutConsts ∧ Gen.parseTimeLayouts = Expected.parseTimeLayouts := by
  decide

/-- the cancellation error at the poll site is `ErrExecution`, not the suppressible `ErrVerbose` -/
theorem cancel_site_class :
    Gen.raiseSites.contains ("executeItemOptUnwrapTarget", "ErrExecution") = true ∧
    Gen.raiseSites.contains ("executeItemOptUnwrapTarget", "ErrVerbose") = false := by decide

theorem no_goroutines : Gen.goStatements = [] := by decide
theorem no_unsafe_or_sync : Gen.sensitiveImports = [("path/exec", "reflect")] := by decide
theorem no_package_var_writes : Gen.packageVarWrites = [] := by decide
/-- no function calls a method on, or takes the address of, a package-level variable (a shared
    scratch buffer, cache or pool would show here) -/
theorem no_package_var_uses : Gen.packageVarUses = [] := by decide
/-- the only call that rewrites a slice in place (`slices.Sort/Delete/Compact/Reverse…`, `sort.*`,
    `clear`, `copy`) sorts a local key list; in particular nothing rewrites an option list, a result
    or an input handed in by the caller -/
theorem in_place_calls_are_local :
    Gen.inPlaceCalls = [("path/exec", "Executor.executeKeyValueMethod", "slices.Sort(keys)")] := by decide

def hasPrefix (p s : String) : Bool := s.toList.take p.length == p.toList

/-- package exec writes only to the per-call Executor (`exec.…`, `e.…`), the per-call value list
    (`vl.list`) and the local slice of `sortedValues` -/
theorem exec_writes_are_per_call :
    (Gen.writes.filter (fun w => w.1 == "path/exec")).all
      (fun w => hasPrefix "exec." w.2.2 || hasPrefix "e." w.2.2 || w.2.2 == "vl.list" || w.2.2 == "vals[i]") = true := by
  decide

/-- package ast writes node fields only in `setNext`, `NewAny`, and a local byte slice in `goFlags` -/
theorem ast_writes_are_construction :
    (Gen.writes.filter (fun w => w.1 == "path/ast")).all
      (fun w => (w.2.2 == "n.next" && hasPrefix "setNext" (String.ofList ((w.2.1.toList.reverse.take 7).reverse))) ||
                (w.2.1 == "NewAny" && (w.2.2 == "n.first" || w.2.2 == "n.last")) ||
                (w.2.1 == "regexFlags.goFlags" && hasPrefix "flags[" w.2.2)) = true := by
  decide

theorem types_writes_are_receivers :
    (Gen.writes.filter (fun w => w.1 == "path/types")).all
      (fun w => w.2.2 == "*d" || w.2.2 == "*t" || w.2.2 == "*ts") = true := by decide

theorem path_writes_are_receivers :
    (Gen.writes.filter (fun w => w.1 == "path")).all (fun w => w.2.2 == "*path") = true := by decide

/-- the hand-written lexer and the parse helpers write only to the per-call lexer, its position
    record, the semantic value handed in by the parser, and a local out-parameter -/
theorem parser_writes_are_per_call :
    (Gen.writes.filter (fun w => w.1 == "path/parser")).all
      (fun w => hasPrefix "l." w.2.2 || hasPrefix "lval." w.2.2 || hasPrefix "pos." w.2.2 || w.2.2 == "*invalid") = true := by
  decide

end GenFacts
end Sqljson
