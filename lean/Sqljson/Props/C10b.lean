import Sqljson.Props.C09b
import Sqljson.Props.C10
/-!
# C10 (path level) — a filter step over a path: subsequence, predicate check, fusion

"The result of P ? (C) is the order-preserving subsequence of P's items (after one level of array unwrapping in
lax mode) for which C evaluates to true with @ bound to the item; items for which C is false or unknown —
including unknown caused by a suppressible error inside C — are dropped without aborting the query, and no item
is altered or duplicated.  An item is kept exactly when C, rewritten as a predicate check expression over that
item, yields true, and in strict mode consecutive filters (free of non-suppressible errors) equal one filter on
their conjunction."

`Props/C10.lean` proves this for one filter step on one item.  Here the statements about whole paths, obtained
with the composition law (`C09b.compose_collect`, suffix `S` = the filter node).

Vocabulary: `filterNode C` = `? (C)`; `append P (filterNode C)` = `P ? (C)`; `andNode C₁ C₂` = `(C₁ && C₂)`;
`condRun c fuel s C x` = the evaluation of `C` with `@` = `x`; `holds … x : Bool` = its value is **true**;
`condErr … x` = the non-suppressible error it raises (`none` otherwise: a suppressible error inside `C` gives
*unknown*, `GoodP.noVerbose`/`C08`); `unwrap1 lax xs` = `xs` with arrays replaced by their elements in lax mode
(`unwrap1_lax`: the executor's own `unwrapSeq`; `unwrap1_strict`: nothing in strict mode); `kept a doc o fuel C x`
/ `hardErr …` = `holds` / `condErr` in the context of the query `a` on `doc` (`$` = `doc`).

## 1. subsequence
* `filter_scan_exec` (executor level, general): the run of `P ? (C)` returns the items of `P` (unwrapped) on which
  `C` is true, up to the first item on which `C` raises a non-suppressible error; without such an error it ends
  as `P` ended, with one it fails with that error there.  `filter_subsequence_exec`, `filter_first_error_exec`:
  the two cases.
* `filter_subsequence`: `Query(P, doc) = xs` and no hard error ⇒ `Query(P ? (C), doc) = (unwrap1 lax xs).filter kept`.
  `filter_first_error`: the first hard error is the query's error.  `filter_no_duplication`: the result is a
  `List.Sublist` of the unwrapped items and contains exactly the items on which `C` is true.
## 2. predicate check
* `predicate_check_eq`, `kept_iff_predicate_check`, `kept_iff_match`: `x` is kept by `? (C)` iff the predicate check
  path with root `C`, evaluated on the **document `x`**, returns `[true]` (`Query`) / `true` (`Match`).  At the top
  level of a query `@` is bound to the document (`initSt.current = doc`), exactly like `$`; so over the item `x`
  the AST `C` itself already is a predicate check expression.  Side condition: no `$` in `C` (inside the filter
  `$` is the original document, in the check it would be `x`).
* `atToRoot` is the syntactic rewriting `@` ↦ `$` (free occurrences only: a nested filter condition keeps its own
  `@`); `atToRoot_closed`: no free `@` is left.  `Aux.sub_all` (a simulation over every executor function, by
  induction on the fuel): from a state with `@` = `$` the run of `atToRoot n` is the run of `n`, for nodes
  without `.keyvalue()` (`$` also resets the base object of the generated ids).  Hence
  `kept_iff_rewritten_check` / `kept_iff_rewritten_match`: **`x` is kept iff `C` rewritten as a predicate check
  expression (`atToRoot C`) over `x` yields true**; side conditions `Indep checkable C` (no `$`, no `.keyvalue()`),
  `C` a predicate node with no chained step, its evaluation on `x` finishes and does not panic.
## 3. fusion
* `filter_fusion_exec`, `filter_fusion` (both modes), `strict_filter_fusion`: `P ? (C₁) ? (C₂)` and `P ? (C₁ && C₂)`
  return the same — the items on which both are true — provided neither condition raises a non-suppressible error
  on the items of `P`, and, in lax mode, no item that passes `C₁` is an array.
* `counterexample_lax_fusion`: without that proviso fusion is **false in lax mode** (the second filter unwraps the
  arrays the first one kept).

## Side conditions (exactly)
* `Indep sufFlags C`: `C` contains no `.keyvalue()` and no `last` outside a subscript (its ids / the array size
  would depend on where in the run `C` is evaluated); `$`, `@`, variables, nested filters are allowed.
* `o.budget = none` (never cancelled); `a.lax ∨ NoAny P` (`C09b`: no `.**` in a strict prefix);
* fuel: the composed queries do not return `outOfFuel` (for fusion also `P ? (C₁)`); panics: they do not return
  `panic` (a condition may panic — e.g. a bad regex under `is unknown` — without raising an error);
* "no hard error": `hardErr … x = none` for the items concerned, evaluated with the query's fuel.
-/

namespace Sqljson
namespace C10b
open Exec Api Exec.Compose

/-! ## vocabulary -/

/-- the filter step `? (C)` with nothing after it -/
def filterNode (C : Node) : Node := .unary .filter (some C) none

/-- the condition `(C₁ && C₂)` -/
def andNode (C1 C2 : Node) : Node := .binary .and (some C1) (some C2) none

/-- the evaluation of the condition `C` with `@` bound to the item `x` (from state `s`: the state of the
    query — only its context fields matter, see `Aux.xBool_rel`) -/
def condRun (c : Ctx) (fuel : Nat) (s : St) (C : Node) (x : Item) : PRes :=
  xBool c fuel { s with current := x } C x false

/-- `C` is **true** on `x` -/
def holds (c : Ctx) (fuel : Nat) (s : St) (C : Node) (x : Item) : Bool :=
  decide ((condRun c fuel s C x).out = .t)

/-- the non-suppressible error `C` raises on `x`, if any (a suppressible error makes `C` unknown instead:
    `GoodP.noVerbose`) -/
def condErr (c : Ctx) (fuel : Nat) (s : St) (C : Node) (x : Item) : Option Err :=
  (condRun c fuel s C x).err

/-- what a filter step sees of one item handed to it: in lax mode the elements of an array, else the item -/
def expand (lax : Bool) : Item → List Item
  | .arr ys => if lax then ys else [.arr ys]
  | x => [x]

/-- the items of `xs` after one level of array unwrapping in lax mode (nothing happens in strict mode) -/
def unwrap1 (lax : Bool) (xs : List Item) : List Item := xs.flatMap (expand lax)

theorem unwrap1_strict (xs : List Item) : unwrap1 false xs = xs := by
  induction xs with
  | nil => rfl
  | cons x xs ih =>
    simp only [unwrap1, List.flatMap_cons] at ih ⊢
    rw [ih]; cases x <;> rfl

/-- in lax mode this is the executor's own `unwrapSeq` -/
theorem unwrap1_lax (xs : List Item) : unwrap1 true xs = unwrapSeq xs := by
  induction xs with
  | nil => rfl
  | cons x xs ih =>
    simp only [unwrap1, List.flatMap_cons] at ih ⊢
    rw [ih]; cases x <;> simp [expand, unwrapSeq]

theorem unwrap1_of_noArr (lax : Bool) (xs : List Item) (h : ∀ x ∈ xs, x.isArr = false) : unwrap1 lax xs = xs := by
  induction xs with
  | nil => rfl
  | cons x xs ih =>
    simp only [unwrap1, List.flatMap_cons] at ih ⊢
    rw [ih (fun y hy => h y (by simp [hy]))]
    have := h x (by simp)
    cases x <;> simp_all [expand, Item.isArr]

namespace Aux

/-! ### scanning a list up to the first hard error -/

/-- the items kept up to the first item on which the condition raises an error, and that error -/
def scan (keep : Item → Bool) (err : Item → Option Err) : List Item → List Item × Option Err
  | [] => ([], none)
  | x :: xs =>
    match err x with
    | some e => ([], some e)
    | none => ((if keep x then [x] else []) ++ (scan keep err xs).1, (scan keep err xs).2)

section scan
variable (keep : Item → Bool) (err : Item → Option Err)

theorem scan_cons_none {x : Item} (xs : List Item) (h : err x = none) :
    scan keep err (x :: xs) = ((if keep x then [x] else []) ++ (scan keep err xs).1, (scan keep err xs).2) := by
  simp [scan, h]

theorem scan_cons_some {x : Item} (xs : List Item) {e : Err} (h : err x = some e) :
    scan keep err (x :: xs) = ([], some e) := by
  simp [scan, h]

theorem scan_append (xs ys : List Item) :
    scan keep err (xs ++ ys) =
      if (scan keep err xs).2 = none then ((scan keep err xs).1 ++ (scan keep err ys).1, (scan keep err ys).2)
      else scan keep err xs := by
  induction xs with
  | nil => simp [scan]
  | cons x xs ih =>
    cases hx : err x with
    | some e => simp [scan, hx]
    | none =>
      simp only [List.cons_append, scan_cons_none keep err _ hx, ih]
      by_cases h2 : (scan keep err xs).2 = none
      · simp [h2]
      · simp [h2]

theorem scan_ok (xs : List Item) (h : ∀ x ∈ xs, err x = none) : scan keep err xs = (xs.filter keep, none) := by
  induction xs with
  | nil => rfl
  | cons x xs ih =>
    rw [scan_cons_none keep err _ (h x (by simp)), ih (fun y hy => h y (by simp [hy]))]
    by_cases hk : keep x <;> simp [hk]

theorem scan_err (ys zs : List Item) (x : Item) (e : Err) (h : ∀ y ∈ ys, err y = none) (hx : err x = some e) :
    scan keep err (ys ++ x :: zs) = (ys.filter keep, some e) := by
  rw [scan_append, scan_ok keep err ys h, scan_cons_some keep err _ hx]
  simp

/-- `fin` holds for every item up to and including the first one with an error -/
def scanFin (fin : Item → Prop) : List Item → Prop
  | [] => True
  | x :: xs => fin x ∧ (err x = none → scanFin fin xs)

theorem scanFin_single (fin : Item → Prop) (x : Item) (h : fin x) : scanFin err fin [x] := ⟨h, fun _ => trivial⟩

theorem scanFin_append (fin : Item → Prop) (xs ys : List Item) :
    scanFin err fin (xs ++ ys) ↔ scanFin err fin xs ∧ ((scan keep err xs).2 = none → scanFin err fin ys) := by
  induction xs with
  | nil => simp [scanFin, scan]
  | cons x xs ih =>
    simp only [List.cons_append, scanFin, ih]
    cases hx : err x with
    | some e => simp [scan, hx]
    | none => simp [scan_cons_none keep err _ hx, and_assoc]

theorem scanFin_all (fin : Item → Prop) (xs : List Item) (h : scanFin err fin xs) (he : ∀ x ∈ xs, err x = none) :
    ∀ x ∈ xs, fin x := by
  induction xs with
  | nil => intro x hx; simp at hx
  | cons y ys ih =>
    intro x hx
    rcases List.mem_cons.mp hx with rfl | hx
    · exact h.1
    · exact ih (h.2 (he y (by simp))) (fun z hz => he z (by simp [hz])) x hx

end scan

/-! ### the condition sees only the context fields of the state -/

/-- `t` is a later state of the query that started at `s`: same context fields, more sticky flags (and
    possibly another generated-id counter); never cancelled -/
structure Rel (s t : St) : Prop where
  ctx : t.ctxEq s
  stk : StkLe s t
  bud : t.budget = none
  sbud : s.budget = none

theorem Rel.refl {s : St} (h : s.budget = none) : Rel s s := ⟨St.ctxEq.refl s, StkLe.refl s, h, h⟩

theorem Rel.setCurrent {s t : St} (h : Rel s t) (x : Item) : Rel { s with current := x } { t with current := x } := by
  obtain ⟨h1, h2, h3, h4⟩ := h
  simp [St.ctxEq] at h1
  exact ⟨by simp [St.ctxEq]; grind, h2, h3, h4⟩

/-- nodes without `.keyvalue()` -/
def kvFree : Flags := ⟨true, true, true, false⟩

theorem suf_le_kvFree : Flags.le sufFlags kvFree := by simp [Flags.le, sufFlags, kvFree]

/-- the shift from `s` to a later state `t` -/
def later (t : St) : Shift := { gen := some t.lastGenId, tp := t.panicked, tf := t.oof, tc := t.sawCancel }

theorem later_st {s t : St} (h : Rel s t) : (later t).st s = t := by
  obtain ⟨h1, ⟨k1, k2, k3⟩, h3, h4⟩ := h
  simp [St.ctxEq] at h1
  apply St.ext' <;> simp [later, Shift.st, h1, h3, h4]
  · cases hs : s.sawCancel <;> simp_all
  · cases hs : s.panicked <;> simp_all
  · cases hs : s.oof <;> simp_all

theorem later_flags (t : St) : (later t).flags none = kvFree := rfl

/-- **the evaluation of a condition without `.keyvalue()` from a later state of the query is the evaluation
    from the state `s`** (same outcome, same error); it leaves a later state again -/
theorem xBool_rel (c : Ctx) (C : Node) (hC : Indep kvFree C = true) {s t : St} (hr : Rel s t) (k K : Nat)
    (hk : k ≤ K) (v : Item) (b : Bool) (ho : (xBool c k t C v b).st.oof = false) :
    (xBool c k t C v b).out = (xBool c K s C v b).out ∧ (xBool c k t C v b).err = (xBool c K s C v b).err ∧
      Rel s (xBool c k t C v b).st ∧ (xBool c K s C v b).st.oof = false := by
  have hfr := xBool_frame none c k (later t) s C v b (by rw [later_flags]; exact hC)
  rw [later_st hr, show xBool (setRoot none c) k = xBool c k from rfl] at hfr
  have hok : (xBool c k s C v b).st.oof = false := by
    rw [hfr] at ho
    simp only [Shift.pres_st, Shift.st_oof, Bool.or_eq_false_iff] at ho
    exact ho.1
  have hm := Exec.Fuel.xBool_mono c k K hk s C v b hok
  have hg := xBool_good c k t C v b
  have hbud := xBool_bud c k t C v b hr.bud
  refine ⟨by rw [hfr, hm]; rfl, by rw [hfr, hm]; rfl, ⟨hg.ctx.trans hr.ctx, ?_, hbud, hr.sbud⟩, by rw [hm]; exact hok⟩
  refine hr.stk.trans ?_
  rw [hfr]
  refine ⟨fun h => ?_, fun h => ?_, fun h => ?_⟩ <;> simp [later, h]

/-! ### one filter step -/

theorem filter_res (c : Ctx) (item : ItemK) (bool : BoolK) (any : AnyK) (t : St) (n C : Node) (x : Item)
    (l : List Item) (u : Bool) (hx : x.isArr = false ∨ u = false) :
    execUnaryNode c item bool any t n .filter (some C) none x (some l) u =
      if (bool { t with current := x } C x false).err.isSome then
        ⟨{ (bool { t with current := x } C x false).st with current := t.current }, some l, .failed,
          (bool { t with current := x } C x false).err⟩
      else if (bool { t with current := x } C x false).out ≠ .t then
        ⟨{ (bool { t with current := x } C x false).st with current := t.current }, some l, .notFound, none⟩
      else ⟨{ (bool { t with current := x } C x false).st with current := t.current }, some (l ++ [x]), .ok, none⟩ := by
  rw [C10.filter_cases c item bool any t n C none x (some l) u hx]
  rfl

section step
variable (c : Ctx) (C : Node) (s : St) (K : Nat)

/-- `r` is the result of filtering the items `ys`, started with the result list `l` -/
structure Scanned (l ys : List Item) (r : Res) : Prop where
  rel : Rel s r.st
  found : r.found = some (l ++ (scan (holds c K s C) (condErr c K s C) ys).1)
  err : r.err = (scan (holds c K s C) (condErr c K s C) ys).2
  failed : r.status = .failed ↔ (scan (holds c K s C) (condErr c K s C) ys).2 ≠ none
  fin : scanFin (condErr c K s C) (fun x => (condRun c K s C x).st.oof = false) ys

variable {c C s K}

theorem filter_step (hC : Indep kvFree C = true) {t : St} (hr : Rel s t) (fuel : Nat) (hk : fuel ≤ K) (x : Item)
    (l : List Item) (u : Bool) (hx : x.isArr = false ∨ u = false)
    (ho : (xItem c fuel t (filterNode C) x (some l) u).st.oof = false) :
    Scanned c C s K l [x] (xItem c fuel t (filterNode C) x (some l) u) := by
  cases fuel with
  | zero => simp [xItem] at ho
  | succ k =>
    simp only [xItem] at ho ⊢
    rw [poll_of_budget_none hr.bud] at ho ⊢
    simp only [dispatch, filterNode] at ho ⊢
    rw [filter_res c _ _ _ t _ C x l u hx] at ho ⊢
    have hoq : (xBool c k { t with current := x } C x false).st.oof = false := by
      split at ho
      · exact ho
      · split at ho <;> exact ho
    obtain ⟨h1, h2, h3, h4⟩ := xBool_rel c C hC (hr.setCurrent x) k K (by omega) x false hoq
    have h3' : Rel s { (xBool c k { t with current := x } C x false).st with current := t.current } := by
      obtain ⟨a1, a2, a3, a4⟩ := h3
      have hc := hr.ctx
      simp [St.ctxEq] at a1 hc
      exact ⟨by simp [St.ctxEq]; grind, a2, a3, hr.sbud⟩
    have hE : condErr c K s C x = (xBool c k { t with current := x } C x false).err := h2.symm
    have hH : holds c K s C x = decide ((xBool c k { t with current := x } C x false).out = .t) := by
      unfold holds condRun; rw [h1]
    have hF : (condRun c K s C x).st.oof = false := h4
    generalize xBool c k { t with current := x } C x false = q at *
    obtain ⟨qs, qo, qe⟩ := q
    simp only at hE hH h3' ⊢
    cases qe with
    | some e =>
      simp only [Option.isSome_some, if_true]
      exact ⟨h3', by simp [scan, hE], by simp [scan, hE], by simp [scan, hE], scanFin_single _ _ _ hF⟩
    | none =>
      simp only [Option.isSome_none, Bool.false_eq_true, if_false]
      by_cases ht : qo = .t
      · simp only [ht, ne_eq, not_true_eq_false, if_false]
        have hH' : holds c K s C x = true := by rw [hH]; simp [ht]
        exact ⟨h3', by simp [scan, hE, hH'], by simp [scan, hE], by simp [scan, hE],
          scanFin_single _ _ _ hF⟩
      · simp only [ne_eq, ht, not_false_eq_true, if_true]
        have hH' : holds c K s C x = false := by rw [hH]; simp [ht]
        exact ⟨h3', by simp [scan, hE, hH'], by simp [scan, hE], by simp [scan, hE],
          scanFin_single _ _ _ hF⟩

end step

/-! ### the two loops: the element loop of an unwrapped array, and the feed -/

section loops
variable {c : Ctx} {C : Node} {s : St} {K : Nat}

theorem Scanned.append_err {l ys : List Item} {r : Res} (h : Scanned c C s K l ys r) (zs : List Item)
    (he : (scan (holds c K s C) (condErr c K s C) ys).2 ≠ none) : Scanned c C s K l (ys ++ zs) r := by
  have e : scan (holds c K s C) (condErr c K s C) (ys ++ zs) = scan (holds c K s C) (condErr c K s C) ys := by
    rw [scan_append, if_neg he]
  exact ⟨h.rel, by rw [e]; exact h.found, by rw [e]; exact h.err, by rw [e]; exact h.failed,
    (scanFin_append (holds c K s C) _ _ ys zs).mpr ⟨h.fin, fun h0 => absurd h0 he⟩⟩

theorem Scanned.append_ok {l ys zs : List Item} {r : Res}
    (he : (scan (holds c K s C) (condErr c K s C) ys).2 = none)
    (hf : scanFin (condErr c K s C) (fun x => (condRun c K s C x).st.oof = false) ys)
    (h : Scanned c C s K (l ++ (scan (holds c K s C) (condErr c K s C) ys).1) zs r) :
    Scanned c C s K l (ys ++ zs) r := by
  have e : scan (holds c K s C) (condErr c K s C) (ys ++ zs) =
      ((scan (holds c K s C) (condErr c K s C) ys).1 ++ (scan (holds c K s C) (condErr c K s C) zs).1,
        (scan (holds c K s C) (condErr c K s C) zs).2) := by
    rw [scan_append, if_pos he]
  exact ⟨h.rel, by rw [e, h.found, List.append_assoc], by rw [e]; exact h.err, by rw [e]; exact h.failed,
    (scanFin_append (holds c K s C) _ _ ys zs).mpr ⟨hf, fun _ => h.fin⟩⟩

/-- the loop body of `executeAnyItem` for the elements of an array handed to the filter -/
abbrev uStep (c : Ctx) (k : Nat) (C : Node) : AAcc → Item → AAcc :=
  anyStep (xItem c k) (xAny c k) (some (filterNode C)) 1 1 1 false false

theorem uStep_eq (k : Nat) (a : AAcc) (y : Item) (hr : a.ret = none) :
    uStep c k C a y =
      if (xItem c k a.st (filterNode C) y a.found false).status = .failed ||
          ((xItem c k a.st (filterNode C) y a.found false).status = .ok && a.found.isNone) then
        ⟨(xItem c k a.st (filterNode C) y a.found false).st, (xItem c k a.st (filterNode C) y a.found false).found,
          (xItem c k a.st (filterNode C) y a.found false).status, (xItem c k a.st (filterNode C) y a.found false).err,
          some (xItem c k a.st (filterNode C) y a.found false)⟩
      else
        ⟨(xItem c k a.st (filterNode C) y a.found false).st, (xItem c k a.st (filterNode C) y a.found false).found,
          (xItem c k a.st (filterNode C) y a.found false).status, (xItem c k a.st (filterNode C) y a.found false).err,
          none⟩ := by
  unfold uStep anyStep
  simp only [hr]
  unfold anyVisit
  simp only [ge_iff_le, Nat.le_refl, decide_true, Bool.true_or, if_true, Bool.false_eq_true, if_false]
  unfold anyDescend
  split <;> simp_all

theorem uStep_ret (k : Nat) (a : AAcc) (y : Item) (r0 : Res) (hr : a.ret = some r0) : uStep c k C a y = a := by
  unfold uStep anyStep; simp only [hr]

theorem fold_ret (k : Nat) (ys : List Item) (a : AAcc) (r0 : Res) (hr : a.ret = some r0) :
    ys.foldl (uStep c k C) a = a := by
  induction ys with
  | nil => rfl
  | cons y ys ih => simp only [List.foldl_cons]; rw [uStep_ret k a y r0 hr]; exact ih

/-- the `oof` flag of a loop state -/
def accOof (a : AAcc) : Bool :=
  match a.ret with
  | some r => r.st.oof
  | none => a.st.oof

theorem accOof_none {a : AAcc} (h : a.ret = none) : accOof a = a.st.oof := by simp [accOof, h]
theorem accOof_some {a : AAcc} {r : Res} (h : a.ret = some r) : accOof a = r.st.oof := by simp [accOof, h]

theorem uStep_oof (k : Nat) (a : AAcc) (y : Item) (hr : a.ret = none) :
    accOof (uStep c k C a y) = (xItem c k a.st (filterNode C) y a.found false).st.oof := by
  rw [uStep_eq k a y hr]
  split <;> simp [accOof]

theorem uStep_sticky (k : Nat) (a : AAcc) (y : Item) (h : accOof (uStep c k C a y) = false) : accOof a = false := by
  cases hr : a.ret with
  | some r0 => rw [uStep_ret k a y r0 hr] at h; exact h
  | none =>
    rw [uStep_oof k a y hr] at h
    rw [accOof_none hr]
    exact Exec.Fuel.xItem_oof_sticky c k a.st _ y a.found false h

theorem fold_sticky (k : Nat) (ys : List Item) : ∀ a : AAcc, accOof (ys.foldl (uStep c k C) a) = false → accOof a = false := by
  induction ys with
  | nil => intro a h; exact h
  | cons y ys ih => intro a h; exact uStep_sticky k a y (ih _ h)

theorem unwrap_fold (hC : Indep kvFree C = true) (k : Nat) (hk : k ≤ K) : ∀ (ys : List Item) (a : AAcc) (l : List Item),
    a.ret = none → Rel s a.st → a.found = some l → a.err = none → a.res ≠ .failed →
    accOof (ys.foldl (uStep c k C) a) = false →
    ((scan (holds c K s C) (condErr c K s C) ys).2 = none →
      (ys.foldl (uStep c k C) a).ret = none ∧ Rel s (ys.foldl (uStep c k C) a).st ∧
      (ys.foldl (uStep c k C) a).found = some (l ++ (scan (holds c K s C) (condErr c K s C) ys).1) ∧
      (ys.foldl (uStep c k C) a).err = none ∧ (ys.foldl (uStep c k C) a).res ≠ .failed) ∧
    (∀ e, (scan (holds c K s C) (condErr c K s C) ys).2 = some e →
      ∃ r, (ys.foldl (uStep c k C) a).ret = some r ∧ Rel s r.st ∧
        r.found = some (l ++ (scan (holds c K s C) (condErr c K s C) ys).1) ∧ r.err = some e ∧ r.status = .failed) ∧
    scanFin (condErr c K s C) (fun x => (condRun c K s C x).st.oof = false) ys := by
  intro ys
  induction ys with
  | nil =>
    intro a l hret hrel hfound herr hres _
    refine ⟨fun _ => ⟨hret, hrel, by simp [scan, hfound], herr, hres⟩, fun e he => ?_, trivial⟩
    simp [scan] at he
  | cons y ys ih =>
    intro a l hret hrel hfound herr hres hfin
    simp only [List.foldl_cons] at hfin ⊢
    have hst := fold_sticky k ys _ hfin
    rw [uStep_oof k a y hret, hfound] at hst
    have hsc := filter_step hC hrel k hk y l false (Or.inr rfl) hst
    have hstep := uStep_eq (c := c) (C := C) k a y hret
    rw [hfound] at hstep
    cases he : condErr c K s C y with
    | some e =>
      have hs1 : scan (holds c K s C) (condErr c K s C) [y] = ([], some e) := scan_cons_some _ _ _ he
      have hsY : scan (holds c K s C) (condErr c K s C) (y :: ys) = ([], some e) := scan_cons_some _ _ _ he
      have hf : (xItem c k a.st (filterNode C) y (some l) false).status = .failed := by
        rw [hsc.failed, hs1]; simp
      rw [hf] at hstep
      simp only [decide_true, Bool.true_or, if_true] at hstep
      rw [hstep, fold_ret k ys _ _ rfl, hsY]
      refine ⟨fun h => by simp at h, fun e' he' => ?_, ⟨hsc.fin.1, fun h => by rw [he] at h; simp at h⟩⟩
      simp only [Option.some.injEq] at he'
      subst he'
      refine ⟨_, rfl, hsc.rel, ?_, ?_, hf⟩
      · rw [hsc.found, hs1]
      · rw [hsc.err, hs1]
    | none =>
      have hs1 : scan (holds c K s C) (condErr c K s C) [y] = (if holds c K s C y then [y] else [], none) := by
        rw [scan_cons_none _ _ _ he]; simp [scan]
      have hsY := scan_cons_none (holds c K s C) (condErr c K s C) ys he
      have hnf : (xItem c k a.st (filterNode C) y (some l) false).status ≠ .failed := by
        rw [Ne, hsc.failed, hs1]; simp
      have hcond : ((xItem c k a.st (filterNode C) y (some l) false).status = .failed ||
          ((xItem c k a.st (filterNode C) y (some l) false).status = .ok && (some l : Found).isNone)) = false := by
        simp [hnf]
      rw [hcond] at hstep
      simp only [Bool.false_eq_true, if_false] at hstep
      rw [hstep] at hfin ⊢
      have hfd := hsc.found
      have her := hsc.err
      rw [hs1] at hfd her
      have := ih ⟨_, _, _, _, none⟩ (l ++ if holds c K s C y then [y] else []) rfl hsc.rel hfd her hnf hfin
      obtain ⟨i1, i2, i3⟩ := this
      rw [hsY]
      refine ⟨fun h0 => ?_, fun e' he' => ?_, ⟨hsc.fin.1, fun _ => i3⟩⟩
      · obtain ⟨j1, j2, j3, j4, j5⟩ := i1 h0
        exact ⟨j1, j2, by rw [j3, List.append_assoc], j4, j5⟩
      · obtain ⟨r, k1, k2, k3, k4, k5⟩ := i2 e' he'
        exact ⟨r, k1, k2, by rw [k3, List.append_assoc], k4, k5⟩

end loops

section loops2
variable {c : Ctx} {C : Node} {s : St} {K : Nat}

theorem Rel.setIgn {s t : St} (h : Rel s t) {t0 : St} (h0 : Rel s t0) : Rel s { t with ignoreSE := t0.ignoreSE } := by
  have e : ({ t with ignoreSE := t0.ignoreSE } : St) = t := by
    have h1 := h.ctx; have h2 := h0.ctx
    simp [St.ctxEq] at h1 h2
    cases t; simp at h1 ⊢; grind
  rw [e]; exact h

/-- the elements of an array handed to the filter in lax mode: each is filtered (not unwrapped again) -/
theorem unwrap_scan (hC : Indep kvFree C = true) {t : St} (hr : Rel s t) (fuel : Nat) (hk : fuel ≤ K) (ys l : List Item)
    (ho : (xAny c fuel t (some (filterNode C)) ys (some l) 1 1 1 false false).st.oof = false) :
    Scanned c C s K l ys (xAny c fuel t (some (filterNode C)) ys (some l) 1 1 1 false false) := by
  cases fuel with
  | zero => simp [xAny] at ho
  | succ k =>
    simp only [xAny, executeAnyItem, gt_iff_lt, Nat.lt_irrefl, if_false] at ho ⊢
    have hA : accOof (ys.foldl (uStep c k C) ⟨t, some l, .notFound, none, none⟩) = false := by
      cases hret : (ys.foldl (uStep c k C) ⟨t, some l, .notFound, none, none⟩).ret with
      | some r => rw [accOof_some hret]; simp only [uStep] at hret; simp only [hret] at ho; exact ho
      | none => rw [accOof_none hret]; simp only [uStep] at hret; simp only [hret] at ho; exact ho
    obtain ⟨h1, h2, h3⟩ := unwrap_fold hC k (show k ≤ K by omega) ys ⟨t, some l, .notFound, none, none⟩ l rfl hr rfl rfl (by simp) hA
    simp only [uStep] at h1 h2
    cases hs : (scan (holds c K s C) (condErr c K s C) ys).2 with
    | none =>
      obtain ⟨j1, j2, j3, j4, j5⟩ := h1 hs
      simp only [j1, j3, j4]
      refine ⟨j2.setIgn hr, rfl, by rw [hs], ?_, h3⟩
      simp only [hs, ne_eq, not_true_eq_false, iff_false]
      split
      · simp
      · exact j5
    | some e =>
      obtain ⟨r, k1, k2, k3, k4, k5⟩ := h2 e hs
      simp only [k1]
      exact ⟨k2.setIgn hr, k3, by rw [hs]; exact k4, by simp [hs, k5], h3⟩

/-- **one item handed to the filter step**: in lax mode an array is unwrapped one level -/
theorem item_scan (hC : Indep kvFree C = true) {t : St} (hr : Rel s t) (fuel : Nat) (hk : fuel ≤ K) (x : Item)
    (l : List Item) (ho : (xItem c fuel t (filterNode C) x (some l) c.lax).st.oof = false) :
    Scanned c C s K l (expand c.lax x) (xItem c fuel t (filterNode C) x (some l) c.lax) := by
  have hplain : (x.isArr = false ∨ c.lax = false) → expand c.lax x = [x] := by
    intro h; cases x <;> simp_all [expand, Item.isArr]
  by_cases hx : x.isArr = false ∨ c.lax = false
  · rw [hplain hx]
    exact filter_step hC hr fuel hk x l c.lax hx ho
  · have hl : c.lax = true := by cases h : c.lax <;> simp_all
    cases x with
    | arr ys =>
      cases fuel with
      | zero => simp [xItem] at ho
      | succ k =>
        rw [hl] at ho ⊢
        simp only [xItem] at ho ⊢
        rw [poll_of_budget_none hr.bud] at ho ⊢
        simp only [dispatch, filterNode, execUnaryNode, unwrapTargetArray] at ho ⊢
        simp only [expand, if_true]
        exact unwrap_scan hC hr k (by omega) ys l ho
    | _ => simp [Item.isArr] at hx

/-- **the feed of the items `xs` to the filter step** -/
theorem feed_scan (hC : Indep kvFree C = true) (fuel : Nat) (hk : fuel ≤ K) : ∀ (xs : List Item) (t : St) (l : List Item),
    Rel s t → (C09b.feed c (filterNode C) fuel t l xs).st.oof = false →
    Scanned c C s K l (unwrap1 c.lax xs) (C09b.feed c (filterNode C) fuel t l xs) := by
  intro xs
  induction xs with
  | nil =>
    intro t l hr _
    exact ⟨hr, by simp [C09b.feed_nil, unwrap1, scan], rfl, by simp [C09b.feed_nil, unwrap1, scan], trivial⟩
  | cons x xs ih =>
    intro t l hr ho
    have hro := C09b.feed_head_oof (filterNode C) c fuel t l x xs ho
    have hsc := item_scan hC hr fuel hk x l hro
    have hu : unwrap1 c.lax (x :: xs) = expand c.lax x ++ unwrap1 c.lax xs := by simp [unwrap1]
    rw [hu]
    rw [C09b.feed_cons] at ho ⊢
    by_cases hf : (xItem c fuel t (filterNode C) x (some l) c.lax).status = .failed
    · rw [if_pos hf]
      exact hsc.append_err _ (hsc.failed.mp hf)
    · rw [if_neg hf] at ho ⊢
      have he : (scan (holds c K s C) (condErr c K s C) (expand c.lax x)).2 = none := by
        cases h : (scan (holds c K s C) (condErr c K s C) (expand c.lax x)).2 with
        | none => rfl
        | some e => exact absurd (hsc.failed.mpr (by rw [h]; simp)) hf
      rw [hsc.found] at ho ⊢
      simp only [Option.getD_some] at ho ⊢
      exact Scanned.append_ok he hsc.fin (ih _ _ hsc.rel ho)

end loops2

/-! ### appending a filter keeps the chain free of `.**` -/

mutual
  theorem noAny_append : ∀ (p s : Node), NoAny (append p s) = (NoAny p && NoAny s)
    | .const _ nx, s | .method _ nx, s | .str _ nx, s | .var _ nx, s | .key _ nx, s | .numeric _ nx, s
    | .integer _ nx, s | .binary _ _ _ nx, s | .unary _ _ nx, s | .regex _ _ _ nx, s | .arrayIndex _ nx, s => by
      simp [append, NoAny, noAnyO_appendO nx s]
    | .any _ _ _, s => by simp [append, NoAny]
  theorem noAnyO_appendO : ∀ (nx : Option Node) (s : Node), NoAny (appendO nx s) = (NoAnyO nx && NoAny s)
    | none, s => by simp
    | some n, s => by simp [noAny_append n s]
end

theorem chainOK_append_filter {s : St} {P : Node} (h : s.ignoreSE = true ∨ NoAny P = true) (C : Node) :
    s.ignoreSE = true ∨ NoAny (append P (filterNode C)) = true := by
  rcases h with h | h
  · exact Or.inl h
  · right; rw [noAny_append, h]; simp [filterNode, NoAny]

/-! ### the conjunction -/

theorem and_run (c : Ctx) (k : Nat) (s : St) (C1 C2 : Node) (x : Item) :
    condRun c (k + 1) s (andNode C1 C2) x =
      if (xBool c k { s with current := x } C1 x false).out = .f ||
          (xBool c k { s with current := x } C1 x false).err.isSome then xBool c k { s with current := x } C1 x false
      else if (xBool c k (xBool c k { s with current := x } C1 x false).st C2 x false).out = .t then
        ⟨(xBool c k (xBool c k { s with current := x } C1 x false).st C2 x false).st,
          (xBool c k { s with current := x } C1 x false).out,
          (xBool c k (xBool c k { s with current := x } C1 x false).st C2 x false).err⟩
      else xBool c k (xBool c k { s with current := x } C1 x false).st C2 x false := by
  simp only [condRun, xBool, andNode, executeBoolItem, executeBinaryBoolItem, Node.next]
  rfl

/-- **`(C₁ && C₂)` on an item**: if neither condition raises a non-suppressible error on `x` (and the evaluation of
    the conjunction finishes), the conjunction raises none and is true exactly when both are -/
theorem and_cond (c : Ctx) (C1 C2 : Node) (hC1 : Indep kvFree C1 = true) (hC2 : Indep kvFree C2 = true) (K : Nat)
    (s : St) (hb : s.budget = none) (x : Item)
    (ho : (condRun c K s (andNode C1 C2) x).st.oof = false)
    (h1 : condErr c K s C1 x = none) (h2 : condErr c K s C2 x = none) :
    condErr c K s (andNode C1 C2) x = none ∧
      holds c K s (andNode C1 C2) x = (holds c K s C1 x && holds c K s C2 x) := by
  cases K with
  | zero => simp [condRun, xBool] at ho
  | succ k =>
    have hbx : ({ s with current := x } : St).budget = none := hb
    unfold condErr holds at *
    rw [and_run] at ho ⊢
    -- the left operand finished
    have hoa : (xBool c k { s with current := x } C1 x false).st.oof = false := by
      split at ho
      · exact ho
      · split at ho
        · exact Exec.Fuel.xBool_oof_sticky c k _ C2 x false ho
        · exact Exec.Fuel.xBool_oof_sticky c k _ C2 x false ho
    obtain ⟨a1, a2, a3, _⟩ := xBool_rel c C1 hC1 (Rel.refl hbx) k (k + 1) (by omega) x false hoa
    have a1' : (xBool c k { s with current := x } C1 x false).out = (condRun c (k + 1) s C1 x).out := a1
    have a2' : (xBool c k { s with current := x } C1 x false).err = none := by rw [a2]; exact h1
    by_cases hcond : ((xBool c k { s with current := x } C1 x false).out = .f ||
        (xBool c k { s with current := x } C1 x false).err.isSome) = true
    · rw [if_pos hcond]
      have hf : (xBool c k { s with current := x } C1 x false).out = .f := by simpa [a2'] using hcond
      refine ⟨a2', ?_⟩
      rw [← a1', hf]; simp
    · rw [if_neg hcond] at ho ⊢
      have hnf : (xBool c k { s with current := x } C1 x false).out ≠ .f := by
        intro h; exact hcond (by simp [h])
      have hob : (xBool c k (xBool c k { s with current := x } C1 x false).st C2 x false).st.oof = false := by
        split at ho <;> exact ho
      obtain ⟨b1, b2, _, _⟩ := xBool_rel c C2 hC2 a3 k (k + 1) (by omega) x false hob
      have b1' : (xBool c k (xBool c k { s with current := x } C1 x false).st C2 x false).out =
          (condRun c (k + 1) s C2 x).out := b1
      have b2' : (xBool c k (xBool c k { s with current := x } C1 x false).st C2 x false).err = none := by
        rw [b2]; exact h2
      rw [← a1', ← b1']
      generalize xBool c k (xBool c k { s with current := x } C1 x false).st C2 x false = B at *
      generalize xBool c k { s with current := x } C1 x false = A at *
      obtain ⟨As, Ao, Ae⟩ := A
      obtain ⟨Bs, Bo, Be⟩ := B
      simp only at a2' b2' hnf ⊢
      subst a2'; subst b2'
      clear a1 a1' b1 b1' b2 a2 h1 h2 a3 hoa hob ho hcond
      cases Ao <;> cases Bo <;> simp at hnf ⊢

theorem scan_and (c : Ctx) (C1 C2 : Node) (hC1 : Indep kvFree C1 = true) (hC2 : Indep kvFree C2 = true) (K : Nat)
    (s : St) (hb : s.budget = none) (ys : List Item)
    (hfin : scanFin (condErr c K s (andNode C1 C2)) (fun x => (condRun c K s (andNode C1 C2) x).st.oof = false) ys)
    (herr : ∀ x ∈ ys, condErr c K s C1 x = none ∧ condErr c K s C2 x = none) :
    scan (holds c K s (andNode C1 C2)) (condErr c K s (andNode C1 C2)) ys =
      (ys.filter (fun x => holds c K s C1 x && holds c K s C2 x), none) := by
  induction ys with
  | nil => rfl
  | cons x ys ih =>
    obtain ⟨e12, k12⟩ := and_cond c C1 C2 hC1 hC2 K s hb x hfin.1 (herr x (by simp)).1 (herr x (by simp)).2
    rw [scan_cons_none _ _ _ e12, ih (hfin.2 e12) (fun y hy => herr y (by simp [hy])), k12]
    by_cases hk : (holds c K s C1 x && holds c K s C2 x) = true <;> simp [hk]

/-! ### the condition as a top-level predicate check expression -/

theorem xBool_chn (c : Ctx) (fuel : Nat) (s : St) (C : Node) (v : Item) (h : C.next = none) :
    xBool c fuel s C v true = xBool c fuel s C v false := by
  cases fuel with
  | zero => rfl
  | succ k => simp [xBool, executeBoolItem, h]

theorem idShift_st (s : St) : ({} : Shift).st s = s := by cases s; simp [Shift.st]

theorem idShift_pres (p : PRes) : ({} : Shift).pres p = p := by
  cases p; simp [Shift.pres, idShift_st]

end Aux

open Aux

/-! ## 1. the filter step over a path: executor level -/

theorem filterNode_indep {C : Node} (h : Indep sufFlags C = true) : Indep sufFlags (filterNode C) = true := by
  have e : ({ sufFlags with cur := true } : Flags) = sufFlags := rfl
  simp [filterNode, Indep, e, h]

theorem kvFree_of_suf {C : Node} (h : Indep sufFlags C = true) : Indep kvFree C = true :=
  indep_mono C sufFlags kvFree suf_le_kvFree h

/-- **`P ? (C)`, executor level, general form.**  `A` = the run of `P ? (C)` on `v` collecting into `l`, `B` = the
    run of `P` alone collecting into the empty list, both from the state `s` (never cancelled), `xs'` = the items
    of `B` after one level of array unwrapping in lax mode, `sc` = the scan of `xs'`: the items on which `C` is
    true, up to the first item on which `C` raises a non-suppressible error, and that error.  Then `A` returned
    `l` followed by the kept items; if there was no error `A` ended as `B` ended, otherwise `A` failed with that
    error; every evaluation of `C` up to there finished within the fuel (`scanFin`). -/
theorem filter_scan_exec (c : Ctx) (C : Node) (hC : Indep sufFlags C = true) (fuel : Nat) (s : St)
    (hb : s.budget = none) (P : Node) (hc : s.ignoreSE = true ∨ NoAny P = true) (l : List Item) (v : Item) (u : Bool)
    (hfuel : (xItem c fuel s (append P (filterNode C)) v (some l) u).st.oof = false) :
    let A := xItem c fuel s (append P (filterNode C)) v (some l) u
    let B := xItem c fuel s P v (some []) u
    let xs' := unwrap1 c.lax (B.found.getD [])
    let sc := scan (holds c fuel s C) (condErr c fuel s C) xs'
    A.found = some (l ++ sc.1) ∧
    (sc.2 = none → A.err = B.err ∧ (A.status = .failed ↔ B.status = .failed)) ∧
    (∀ e, sc.2 = some e → A.status = .failed ∧ A.err = some e) ∧
    scanFin (condErr c fuel s C) (fun x => (condRun c fuel s C x).st.oof = false) xs' := by
  intro A B xs' sc
  obtain ⟨c1, c2⟩ := C09b.compose_collect c (filterNode C) (filterNode_indep hC) fuel s hb P hc l v u hfuel
  have hFo : (C09b.feed c (filterNode C) fuel s l (B.found.getD [])).st.oof = false := by
    by_cases hf : (C09b.feed c (filterNode C) fuel s l (B.found.getD [])).status = .failed
    · exact C09b.oof_of_stkLe (c1 hf).2.2.2.1 hfuel
    · have := (c2 hf).2.2.2
      exact C09b.oof_of_stkLe (by rw [this]; exact stkLe_mix_left _ _) hfuel
  have hsc := feed_scan (kvFree_of_suf hC) fuel (Nat.le_refl fuel) (B.found.getD []) s l (Rel.refl hb) hFo
  by_cases hf : (C09b.feed c (filterNode C) fuel s l (B.found.getD [])).status = .failed
  · obtain ⟨d1, d2, d3, _, _⟩ := c1 hf
    have hne := hsc.failed.mp hf
    refine ⟨by rw [← hsc.found]; exact d3, fun h => absurd h hne, fun e he => ⟨d1, ?_⟩, hsc.fin⟩
    show A.err = some e
    rw [d2, hsc.err]; exact he
  · obtain ⟨d1, d2, d3, _⟩ := c2 hf
    have he : sc.2 = none := by
      cases h : sc.2 with
      | none => rfl
      | some e => exact absurd (hsc.failed.mpr (by show sc.2 ≠ none; rw [h]; simp)) hf
    refine ⟨by rw [← hsc.found]; exact d1, fun _ => ⟨d2, d3⟩, fun e h => ?_, hsc.fin⟩
    rw [he] at h; simp at h

/-- **C10, subsequence (executor level).**  If `C` raises no non-suppressible error on the items of `P` (unwrapped
    one level in lax mode), the run of `P ? (C)` returns the order-preserving subsequence of those items on which
    `C` is true, and ends as the run of `P` ended. -/
theorem filter_subsequence_exec (c : Ctx) (C : Node) (hC : Indep sufFlags C = true) (fuel : Nat) (s : St)
    (hb : s.budget = none) (P : Node) (hc : s.ignoreSE = true ∨ NoAny P = true) (l : List Item) (v : Item) (u : Bool)
    (hfuel : (xItem c fuel s (append P (filterNode C)) v (some l) u).st.oof = false)
    (herr : ∀ x ∈ unwrap1 c.lax ((xItem c fuel s P v (some []) u).found.getD []), condErr c fuel s C x = none) :
    let A := xItem c fuel s (append P (filterNode C)) v (some l) u
    let B := xItem c fuel s P v (some []) u
    A.found = some (l ++ (unwrap1 c.lax (B.found.getD [])).filter (holds c fuel s C)) ∧ A.err = B.err ∧
      (A.status = .failed ↔ B.status = .failed) := by
  intro A B
  obtain ⟨h1, h2, _⟩ := filter_scan_exec c C hC fuel s hb P hc l v u hfuel
  rw [scan_ok _ _ _ herr] at h1 h2
  exact ⟨h1, (h2 rfl).1, (h2 rfl).2⟩

/-- **C10, hard error (executor level).**  At the first item on which `C` raises a non-suppressible error the run
    fails with that error, having returned the kept items before it. -/
theorem filter_first_error_exec (c : Ctx) (C : Node) (hC : Indep sufFlags C = true) (fuel : Nat) (s : St)
    (hb : s.budget = none) (P : Node) (hc : s.ignoreSE = true ∨ NoAny P = true) (l : List Item) (v : Item) (u : Bool)
    (hfuel : (xItem c fuel s (append P (filterNode C)) v (some l) u).st.oof = false)
    (ys zs : List Item) (x : Item) (e : Err)
    (hsplit : unwrap1 c.lax ((xItem c fuel s P v (some []) u).found.getD []) = ys ++ x :: zs)
    (hys : ∀ y ∈ ys, condErr c fuel s C y = none) (hx : condErr c fuel s C x = some e) :
    let A := xItem c fuel s (append P (filterNode C)) v (some l) u
    A.status = .failed ∧ A.err = some e ∧ A.found = some (l ++ ys.filter (holds c fuel s C)) := by
  intro A
  obtain ⟨h1, _, h3, _⟩ := filter_scan_exec c C hC fuel s hb P hc l v u hfuel
  rw [hsplit, scan_err _ _ ys zs x e hys hx] at h1 h3
  exact ⟨(h3 e rfl).1, (h3 e rfl).2, h1⟩

/-! ## 1′. the level of `exec.Query` -/

/-- `C` is true on the item `x` in the query `a` on `doc` (with `@` = `x`, `$` = `doc`) -/
def kept (a : AST) (doc : Item) (o : Opts) (fuel : Nat) (C : Node) (x : Item) : Bool :=
  holds (mkCtx a doc o) fuel (initSt a doc o) C x

/-- the non-suppressible error of `C` on `x` in the query `a` on `doc` -/
def hardErr (a : AST) (doc : Item) (o : Opts) (fuel : Nat) (C : Node) (x : Item) : Option Err :=
  condErr (mkCtx a doc o) fuel (initSt a doc o) C x

theorem not_oof {fuel : Nat} {a : AST} {doc : Item} {o : Opts} (h : queryWith fuel a doc o ≠ .outOfFuel) :
    (execute fuel a doc o).st.oof = false := by
  cases h' : (execute fuel a doc o).st.oof with
  | false => rfl
  | true => exact absurd (by unfold queryWith guarded; simp [h']) h

theorem not_panicked {fuel : Nat} {a : AST} {doc : Item} {o : Opts} (h1 : queryWith fuel a doc o ≠ .outOfFuel)
    (h : queryWith fuel a doc o ≠ .panic) : (execute fuel a doc o).st.panicked = false := by
  have ho := not_oof h1
  cases h' : (execute fuel a doc o).st.panicked with
  | false => rfl
  | true => exact absurd (by unfold queryWith guarded; simp [h', ho]) h

/-- **C10, subsequence.**  If `Query(P, doc)` returns `xs` and `C` raises no non-suppressible error on them (after
    one level of array unwrapping in lax mode), then `Query(P ? (C), doc)` — when it neither runs out of fuel nor
    panics — returns the order-preserving subsequence of those items on which `C` is true. -/
theorem filter_subsequence (fuel : Nat) (a : AST) (P C : Node) (doc : Item) (o : Opts) (xs : List Item)
    (hC : Indep sufFlags C = true) (ho : o.budget = none) (hchain : a.lax = true ∨ NoAny P = true)
    (hP : C09b.Ran (execute fuel (C09b.withRoot a P) doc o) xs)
    (hq1 : queryWith fuel (C09b.withRoot a (append P (filterNode C))) doc o ≠ .outOfFuel)
    (hq2 : queryWith fuel (C09b.withRoot a (append P (filterNode C))) doc o ≠ .panic)
    (herr : ∀ x ∈ unwrap1 a.lax xs, hardErr a doc o fuel C x = none) :
    queryWith fuel (C09b.withRoot a (append P (filterNode C))) doc o =
      .items ((unwrap1 a.lax xs).filter (kept a doc o fuel C)) := by
  have hoo := not_oof hq1
  have hpp := not_panicked hq1 hq2
  have hA : execute fuel (C09b.withRoot a (append P (filterNode C))) doc o =
      xItem (mkCtx a doc o) fuel (initSt a doc o) (append P (filterNode C)) doc (some []) a.lax :=
    C09b.execute_eq _ _ _ _
  have hB : execute fuel (C09b.withRoot a P) doc o =
      xItem (mkCtx a doc o) fuel (initSt a doc o) P doc (some []) a.lax := C09b.execute_eq _ _ _ _
  have hBf : (xItem (mkCtx a doc o) fuel (initSt a doc o) P doc (some []) a.lax).found = some xs := by
    rw [← hB]; exact hP.found
  have h := filter_subsequence_exec (mkCtx a doc o) C hC fuel (initSt a doc o) ho P hchain [] doc a.lax
    (by rw [← hA]; exact hoo) (by rw [hBf]; exact herr)
  dsimp only at h
  rw [hBf] at h
  obtain ⟨h1, h2, _⟩ := h
  have hBe : (execute fuel (C09b.withRoot a P) doc o).err = none :=
    err_none_of_good (execute_good _ _ _ _) hP.ok
  unfold queryWith guarded
  simp only [hoo, hpp]
  rw [hA, h1, h2, ← hB, hBe]
  rfl

/-- **C10, hard error.**  At the first item on which `C` raises a non-suppressible error, `Query(P ? (C), doc)` fails
    with that error. -/
theorem filter_first_error (fuel : Nat) (a : AST) (P C : Node) (doc : Item) (o : Opts) (xs ys zs : List Item)
    (x : Item) (e : Err)
    (hC : Indep sufFlags C = true) (ho : o.budget = none) (hchain : a.lax = true ∨ NoAny P = true)
    (hP : C09b.Ran (execute fuel (C09b.withRoot a P) doc o) xs)
    (hq1 : queryWith fuel (C09b.withRoot a (append P (filterNode C))) doc o ≠ .outOfFuel)
    (hq2 : queryWith fuel (C09b.withRoot a (append P (filterNode C))) doc o ≠ .panic)
    (hsplit : unwrap1 a.lax xs = ys ++ x :: zs)
    (hys : ∀ y ∈ ys, hardErr a doc o fuel C y = none) (hx : hardErr a doc o fuel C x = some e) :
    queryWith fuel (C09b.withRoot a (append P (filterNode C))) doc o = .error e := by
  have hoo := not_oof hq1
  have hpp := not_panicked hq1 hq2
  have hA : execute fuel (C09b.withRoot a (append P (filterNode C))) doc o =
      xItem (mkCtx a doc o) fuel (initSt a doc o) (append P (filterNode C)) doc (some []) a.lax :=
    C09b.execute_eq _ _ _ _
  have hB : execute fuel (C09b.withRoot a P) doc o =
      xItem (mkCtx a doc o) fuel (initSt a doc o) P doc (some []) a.lax := C09b.execute_eq _ _ _ _
  have hBf : (xItem (mkCtx a doc o) fuel (initSt a doc o) P doc (some []) a.lax).found = some xs := by
    rw [← hB]; exact hP.found
  have h := filter_first_error_exec (mkCtx a doc o) C hC fuel (initSt a doc o) ho P hchain [] doc a.lax
    (by rw [← hA]; exact hoo) ys zs x e (by rw [hBf]; exact hsplit) hys hx
  obtain ⟨_, h2, _⟩ := h
  unfold queryWith guarded
  simp only [hoo, hpp]
  rw [hA, h2]
  rfl

/-- **C10, no item altered or duplicated**: the result is a sublist of the (unwrapped) items of `P`, and contains
    exactly those on which `C` is true -/
theorem filter_no_duplication (fuel : Nat) (a : AST) (P C : Node) (doc : Item) (o : Opts) (xs : List Item)
    (hC : Indep sufFlags C = true) (ho : o.budget = none) (hchain : a.lax = true ∨ NoAny P = true)
    (hP : C09b.Ran (execute fuel (C09b.withRoot a P) doc o) xs)
    (hq1 : queryWith fuel (C09b.withRoot a (append P (filterNode C))) doc o ≠ .outOfFuel)
    (hq2 : queryWith fuel (C09b.withRoot a (append P (filterNode C))) doc o ≠ .panic)
    (herr : ∀ x ∈ unwrap1 a.lax xs, hardErr a doc o fuel C x = none) :
    ∃ ys, queryWith fuel (C09b.withRoot a (append P (filterNode C))) doc o = .items ys ∧
      ys.Sublist (unwrap1 a.lax xs) ∧ ∀ y, y ∈ ys ↔ (y ∈ unwrap1 a.lax xs ∧ kept a doc o fuel C y = true) :=
  ⟨_, filter_subsequence fuel a P C doc o xs hC ho hchain hP hq1 hq2 herr, List.filter_sublist,
    fun _ => List.mem_filter⟩

/-! ## 2. an item is kept exactly when the condition, as a predicate check expression over the item, is true -/

/-- the nodes `exec` evaluates as predicates (boolean operators, comparisons, `starts with`, `exists`, `!`,
    `is unknown`, `like_regex`) -/
def isBoolNode : Node → Bool
  | .binary op _ _ _ => isBoolBinOp op
  | .unary .not _ _ | .unary .isUnknown _ _ | .unary .exists _ _ => true
  | .regex _ _ _ _ => true
  | _ => false

/-- `C` does not mention `$` (everything else — `@`, variables, nested filters, methods — is allowed) -/
def noRoot : Flags := ⟨false, true, true, true⟩

/-- what `Query` reports for a predicate check expression whose evaluation ended as `p` -/
def checkOutcome (p : PRes) : Outcome :=
  if p.st.oof then .outOfFuel else if p.st.panicked then .panic else
  match p.err with
  | some e => .error e
  | none => .items [predItem p.out]

theorem dispatch_bool (c : Ctx) (item : ItemK) (bool : BoolK) (any : AnyK) (s : St) (C : Node) (v : Item) (f : Found)
    (u : Bool) (hB : isBoolNode C = true) :
    dispatch c item bool any s C v f u = appendBoolResult c item C.next f (bool s C v true) := by
  cases C with
  | binary op l r nx => simp only [isBoolNode] at hB; simp [dispatch, execBinaryNode, hB, Node.next]
  | unary op x nx => cases op <;> simp [isBoolNode] at hB <;> simp [dispatch, execUnaryNode, Node.next]
  | regex x pt fl nx => simp [dispatch, Node.next]
  | _ => simp [isBoolNode] at hB

/-- the run of the predicate check path `C` on the document `x` evaluates `C` exactly as the filter `? (C)` does
    on the item `x` — at the top level `@` denotes the document, as does `$`, so `C` itself is the predicate
    check expression over the item (`C` without `$`: inside the filter `$` is the original document) -/
theorem execute_check (fuel : Nat) (a : AST) (C : Node) (doc x : Item) (o : Opts) (hC : Indep noRoot C = true)
    (hnx : C.next = none) (hB : isBoolNode C = true) (ho : o.budget = none) :
    execute (fuel + 1) ⟨C, a.lax, true⟩ x o =
      appendBoolResult (mkCtx ⟨C, a.lax, true⟩ x o) (xItem (mkCtx ⟨C, a.lax, true⟩ x o) fuel) none (some [])
        (condRun (mkCtx a doc o) fuel (initSt a doc o) C x) := by
  rw [C09b.execute_eq]
  simp only [xItem]
  rw [poll_of_budget_none (by simpa [initSt] using ho)]
  dsimp only
  rw [dispatch_bool _ _ _ _ _ _ _ _ _ hB, hnx, xBool_chn _ _ _ _ _ hnx]
  have hfr := xBool_frame (some x) (mkCtx a doc o) fuel {} { initSt a doc o with current := x } C x false hC
  rw [idShift_st, idShift_pres] at hfr
  have e1 : setRoot (some x) (mkCtx a doc o) = mkCtx ⟨C, a.lax, true⟩ x o := rfl
  have e2 : ({ initSt a doc o with current := x } : St) = initSt ⟨C, a.lax, true⟩ x o := rfl
  rw [e1, e2] at hfr
  rw [hfr]
  rfl

/-- **the predicate check query over the item reports the value of the condition on the item** -/
theorem predicate_check_eq (fuel : Nat) (a : AST) (C : Node) (doc x : Item) (o : Opts) (hC : Indep noRoot C = true)
    (hnx : C.next = none) (hB : isBoolNode C = true) (ho : o.budget = none) :
    queryWith (fuel + 1) ⟨C, a.lax, true⟩ x o = checkOutcome (condRun (mkCtx a doc o) fuel (initSt a doc o) C x) := by
  unfold queryWith
  rw [execute_check fuel a C doc x o hC hnx hB ho]
  unfold checkOutcome guarded appendBoolResult
  generalize condRun (mkCtx a doc o) fuel (initSt a doc o) C x = p
  obtain ⟨ps, po, pe⟩ := p
  cases pe <;> simp [executeNextItem, Found.append]

/-- **C10: kept iff the predicate check is true.**  The filter `? (C)` of the query `a` on `doc` keeps the item `x`
    exactly when the predicate check expression `C` (same mode), evaluated on the document `x`, returns `true`.
    Side conditions: `C` has no `$`; its evaluation on `x` finishes within the fuel and does not panic. -/
theorem kept_iff_predicate_check (fuel : Nat) (a : AST) (C : Node) (doc x : Item) (o : Opts)
    (hC : Indep noRoot C = true) (hnx : C.next = none) (hB : isBoolNode C = true) (ho : o.budget = none)
    (hfin : (condRun (mkCtx a doc o) fuel (initSt a doc o) C x).st.oof = false)
    (hpan : (condRun (mkCtx a doc o) fuel (initSt a doc o) C x).st.panicked = false) :
    kept a doc o fuel C x = true ↔ queryWith (fuel + 1) ⟨C, a.lax, true⟩ x o = .items [.bool true] := by
  rw [predicate_check_eq fuel a C doc x o hC hnx hB ho]
  have hg : GoodP _ (condRun (mkCtx a doc o) fuel (initSt a doc o) C x) := xBool_good _ _ _ _ _ _
  unfold kept holds checkOutcome
  simp only [hfin, hpan]
  generalize condRun (mkCtx a doc o) fuel (initSt a doc o) C x = p at hg
  obtain ⟨ps, po, pe⟩ := p
  cases pe with
  | some e =>
    have := hg.errUnknown (by simp)
    simp only at this
    subst this
    simp
  | none => cases po <;> simp [predItem]

/-- the same with `exec.Match` (`jsonb_path_match`) -/
theorem kept_iff_match (fuel : Nat) (a : AST) (C : Node) (doc x : Item) (o : Opts)
    (hC : Indep noRoot C = true) (hnx : C.next = none) (hB : isBoolNode C = true) (ho : o.budget = none)
    (hfin : (condRun (mkCtx a doc o) fuel (initSt a doc o) C x).st.oof = false)
    (hpan : (condRun (mkCtx a doc o) fuel (initSt a doc o) C x).st.panicked = false) :
    kept a doc o fuel C x = true ↔ matchWith (fuel + 1) ⟨C, a.lax, true⟩ x o = .bool true := by
  have hg : GoodP _ (condRun (mkCtx a doc o) fuel (initSt a doc o) C x) := xBool_good _ _ _ _ _ _
  unfold matchWith
  rw [execute_check fuel a C doc x o hC hnx hB ho]
  unfold kept holds guarded appendBoolResult
  generalize condRun (mkCtx a doc o) fuel (initSt a doc o) C x = p at hg hfin hpan
  obtain ⟨ps, po, pe⟩ := p
  simp only at hfin hpan
  cases pe with
  | some e =>
    have := hg.errUnknown (by simp)
    simp only at this
    subst this
    simp [hfin, hpan]
  | none => cases po <;> simp [hfin, hpan, executeNextItem, Found.append, predItem]

/-! ### the rewriting `@` ↦ `$` on ASTs, and the simulation showing it changes nothing where `@` = `$` -/

/-- `@` becomes `$` -/
def subConst : Const → Const
  | .current => .root
  | k => k

mutual
  /-- replace every `@` that is not inside a nested filter condition by `$` -/
  def atToRoot : Node → Node
    | .const k nx => .const (subConst k) (atToRootO nx)
    | .method m nx => .method m (atToRootO nx)
    | .str t nx => .str t (atToRootO nx)
    | .var t nx => .var t (atToRootO nx)
    | .key t nx => .key t (atToRootO nx)
    | .numeric x nx => .numeric x (atToRootO nx)
    | .integer i nx => .integer i (atToRootO nx)
    | .any a b nx => .any a b (atToRootO nx)
    | .binary op l r nx => .binary op (atToRootO l) (atToRootO r) (atToRootO nx)
    | .unary .filter x nx => .unary .filter x (atToRootO nx)
    | .unary op x nx => .unary op (atToRootO x) (atToRootO nx)
    | .regex x p f nx => .regex (atToRoot x) p f (atToRootO nx)
    | .arrayIndex subs nx => .arrayIndex (atToRootL subs) (atToRootO nx)
  def atToRootO : Option Node → Option Node
    | none => none
    | some n => some (atToRoot n)
  def atToRootL : List Node → List Node
    | [] => []
    | n :: ns => atToRoot n :: atToRootL ns
end

/-- the operand of a unary node: a filter condition binds its own `@` and is left alone -/
def subOperand : UnOp → Option Node → Option Node
  | .filter, x => x
  | _, x => atToRootO x

theorem atToRoot_unary (op : UnOp) (x nx : Option Node) :
    atToRoot (.unary op x nx) = .unary op (subOperand op x) (atToRootO nx) := by
  cases op <;> simp [atToRoot, subOperand]

namespace Aux

@[simp] theorem atToRootO_none : atToRootO none = none := by simp [atToRootO]
@[simp] theorem atToRootO_some (n : Node) : atToRootO (some n) = some (atToRoot n) := by simp [atToRootO]
@[simp] theorem atToRootO_isSome (nx : Option Node) : (atToRootO nx).isSome = nx.isSome := by cases nx <;> simp
@[simp] theorem atToRootO_isNone (nx : Option Node) : (atToRootO nx).isNone = nx.isNone := by cases nx <;> simp

theorem atToRoot_next (n : Node) : (atToRoot n).next = atToRootO n.next := by
  cases n <;> simp [atToRoot, atToRoot_unary, Node.next]

section sub
variable (c : Ctx)

/-- what the per-function lemmas assume about the recursive calls -/
structure SubHyp (item : ItemK) (bool : BoolK) (any : AnyK) : Prop where
  gI : GoodI item
  gB : GoodB bool
  gA : GoodA any
  frI : FrameI none item item
  sI : ∀ s n v f u, s.current = c.root → Indep kvFree n = true → item s (atToRoot n) v f u = item s n v f u
  sB : ∀ s n v b, s.current = c.root → Indep kvFree n = true → bool s (atToRoot n) v b = bool s n v b
  sA : ∀ s node vs f l a b i u, s.current = c.root → IndepO kvFree node = true →
    any s (atToRootO node) vs f l a b i u = any s node vs f l a b i u

variable {c} {item : ItemK} {bool : BoolK} {any : AnyK}

theorem cur_good {s : St} {f : Found} {r : Res} (h : Good s f r) (hs : s.current = c.root) : r.st.current = c.root := by
  have := h.ctx; simp [St.ctxEq] at this; rw [this.1, hs]

theorem cur_goodP {s : St} {p : PRes} (h : GoodP s p) (hs : s.current = c.root) : p.st.current = c.root := by
  have := h.ctx; simp [St.ctxEq] at this; rw [this.1, hs]

theorem executeItem_sub (H : SubHyp c item bool any) (s : St) (n : Node) (v : Item) (f : Found)
    (hs : s.current = c.root) (hn : Indep kvFree n = true) :
    executeItem c item s (atToRoot n) v f = executeItem c item s n v f := H.sI _ _ _ _ _ hs hn

theorem executeNextItem_sub (H : SubHyp c item bool any) (s : St) (nx : Option Node) (v : Item) (f : Found)
    (hs : s.current = c.root) (hn : IndepO kvFree nx = true) :
    executeNextItem c item s (atToRootO nx) v f = executeNextItem c item s nx v f := by
  cases nx with
  | none => rfl
  | some n => simp only [atToRootO_some, executeNextItem]; exact executeItem_sub H s n v f hs (by simpa using hn)

theorem execLiteral_sub (H : SubHyp c item bool any) (s : St) (nx : Option Node) (v : Item) (f : Found)
    (hs : s.current = c.root) (hn : IndepO kvFree nx = true) :
    execLiteral c item s (atToRootO nx) v f = execLiteral c item s nx v f := by
  unfold execLiteral
  rw [executeNextItem_sub H s nx v f hs hn, atToRootO_isNone]

theorem withBaseObject_congr (s : St) (a : Nat) (i : Int) (k k' : St → Res)
    (h : ∀ s' : St, s'.current = s.current → k s' = k' s') : withBaseObject s a i k = withBaseObject s a i k' := by
  unfold withBaseObject
  have := h { s with baseAddr := a, baseId := i } rfl
  simp only [this]

theorem execVariable_sub (H : SubHyp c item bool any) (s : St) (name : List Char) (nx : Option Node) (f : Found)
    (hs : s.current = c.root) (hn : IndepO kvFree nx = true) :
    execVariable c item s name (atToRootO nx) f = execVariable c item s name nx f := by
  unfold execVariable
  split
  · exact withBaseObject_congr _ _ _ _ _ (fun s' hs' => executeNextItem_sub H s' nx _ f (hs'.trans hs) hn)
  · rfl

/-- `$` followed by a chain without `.keyvalue()` is `@` followed by that chain when `@` is the root -/
theorem root_eq_current (H : SubHyp c item bool any) (s : St) (nx : Option Node) (f : Found)
    (hs : s.current = c.root) (hn : IndepO kvFree nx = true) :
    withBaseObject s (c.addrOf c.root) 0 (fun s' => executeNextItem c item s' nx c.root f) =
      executeNextItem c item s nx s.current f := by
  rw [hs]
  unfold withBaseObject
  cases nx with
  | none => simp only [executeNextItem]
  | some n =>
    simp only [executeNextItem, executeItem]
    have hfl : ({ base := some (c.addrOf c.root, 0) } : Shift).flags none = kvFree := rfl
    have hfr := H.frI { base := some (c.addrOf c.root, 0) } s n c.root f c.lax (by rw [hfl]; simpa using hn)
    have e1 : ({ base := some (c.addrOf c.root, 0) } : Shift).st s = { s with baseAddr := c.addrOf c.root, baseId := 0 } := by
      cases s; simp [Shift.st]
    have e2 : ({ base := some (c.addrOf c.root, 0) } : Shift).fd f = f := by cases f <;> simp [Shift.fd]
    rw [e1, e2] at hfr
    rw [hfr]
    have hg := (H.gI s n c.root f c.lax).ctx
    simp [St.ctxEq] at hg
    generalize item s n c.root f c.lax = r at hg
    obtain ⟨rs, rf, rst, re⟩ := r
    simp only [Shift.res, Res.mk.injEq, and_true]
    have e3 : ({ base := some (c.addrOf c.root, 0) } : Shift).fd rf = rf := by cases rf <;> simp [Shift.fd]
    refine ⟨?_, e3⟩
    cases rs; simp [Shift.st] at hg ⊢; grind

theorem anySelf_sub (H : SubHyp c item bool any) (s : St) (n : Node) (xs : List Item) (f : Found)
    (hs : s.current = c.root) (hn : Indep kvFree n = true) :
    any s (some (atToRoot n)) xs f 1 1 1 false false = any s (some n) xs f 1 1 1 false false := by
  have := H.sA s (some n) xs f 1 1 1 false false hs (by simpa using hn)
  simpa using this

theorem execKeyNode_sub (H : SubHyp c item bool any) (s : St) (n : Node) (key : List Char) (nx : Option Node)
    (v : Item) (f : Found) (u : Bool) (hs : s.current = c.root) (hn : Indep kvFree n = true)
    (hnx : IndepO kvFree nx = true) :
    execKeyNode c item any s (atToRoot n) key (atToRootO nx) v f u = execKeyNode c item any s n key nx v f u := by
  unfold execKeyNode
  cases v with
  | obj kvs =>
    simp only
    split
    · exact executeNextItem_sub H s nx _ f hs hnx
    · rfl
  | arr xs => simp only; rw [anySelf_sub H s n _ f hs hn]
  | _ => rfl

theorem execAnyKey_sub (H : SubHyp c item bool any) (s : St) (n : Node) (nx : Option Node)
    (v : Item) (f : Found) (u : Bool) (hs : s.current = c.root) (hn : Indep kvFree n = true)
    (hnx : IndepO kvFree nx = true) :
    execAnyKey c any s (atToRoot n) (atToRootO nx) v f u = execAnyKey c any s n nx v f u := by
  unfold execAnyKey unwrapTargetArray
  cases v with
  | obj kvs => exact H.sA s nx _ f 1 1 1 false c.lax hs hnx
  | arr xs => simp only; rw [anySelf_sub H s n _ f hs hn]
  | _ => rfl

theorem execAnyArray_sub (H : SubHyp c item bool any) (s : St) (nx : Option Node)
    (v : Item) (f : Found) (hs : s.current = c.root) (hnx : IndepO kvFree nx = true) :
    execAnyArray c item any s (atToRootO nx) v f = execAnyArray c item any s nx v f := by
  unfold execAnyArray
  cases v with
  | arr xs => exact H.sA s nx _ f 1 1 1 false c.lax hs hnx
  | _ => simp only [executeNextItem_sub H s nx _ f hs hnx]

theorem execLastConst_sub (H : SubHyp c item bool any) (s : St) (nx : Option Node) (f : Found)
    (hs : s.current = c.root) (hnx : IndepO kvFree nx = true) :
    execLastConst c item s (atToRootO nx) f = execLastConst c item s nx f := by
  unfold execLastConst
  rw [executeNextItem_sub H s nx _ f hs hnx, atToRootO_isNone]

theorem execConstNode_sub (H : SubHyp c item bool any) (s : St) (n : Node) (k : Const) (nx : Option Node)
    (v : Item) (f : Found) (u : Bool) (hs : s.current = c.root) (hn : Indep kvFree n = true)
    (hnx : IndepO kvFree nx = true) :
    execConstNode c item any s (atToRoot n) (subConst k) (atToRootO nx) v f u =
      execConstNode c item any s n k nx v f u := by
  cases k <;> simp only [execConstNode, subConst]
  · exact withBaseObject_congr _ _ _ _ _ (fun s' hs' => executeNextItem_sub H s' nx _ f (hs'.trans hs) hnx)
  · rw [← root_eq_current H s nx f hs hnx]
    exact withBaseObject_congr _ _ _ _ _ (fun s' hs' => executeNextItem_sub H s' nx _ f (hs'.trans hs) hnx)
  · exact execLastConst_sub H s nx f hs hnx
  · exact execAnyArray_sub H s nx v f hs hnx
  · exact execAnyKey_sub H s n nx v f u hs hn hnx
  · exact execLiteral_sub H s nx _ f hs hnx
  · exact execLiteral_sub H s nx _ f hs hnx
  · exact execLiteral_sub H s nx _ f hs hnx

theorem optUnwrapResult_sub (H : SubHyp c item bool any) (s : St) (n : Node) (v : Item) (u : Bool) (f : List Item)
    (hs : s.current = c.root) (hn : Indep kvFree n = true) :
    optUnwrapResult c item s (atToRoot n) v u f = optUnwrapResult c item s n v u f := by
  unfold optUnwrapResult
  simp only [executeItem_sub H s n v _ hs hn]

theorem optUnwrapResultSilent_sub (H : SubHyp c item bool any) (s : St) (n : Node) (v : Item) (u : Bool) (f : Found)
    (hs : s.current = c.root) (hn : Indep kvFree n = true) :
    optUnwrapResultSilent c item s (atToRoot n) v u f = optUnwrapResultSilent c item s n v u f := by
  unfold optUnwrapResultSilent
  cases f with
  | some l => simp only [optUnwrapResult_sub H { s with verbose := false } n v u l hs hn]
  | none => simp only [executeItem_sub H { s with verbose := false } n v none hs hn]

theorem executePredicate_sub (H : SubHyp c item bool any) (s : St) (left : Node) (right : Option Node) (v : Item)
    (uw : Bool) (cb : Item → Item → CbOut) (hs : s.current = c.root) (hl : Indep kvFree left = true)
    (hr : IndepO kvFree right = true) :
    executePredicate c item s (atToRoot left) (atToRootO right) v uw cb = executePredicate c item s left right v uw cb := by
  unfold executePredicate
  simp only [optUnwrapResultSilent_sub H s left v true (some []) hs hl]
  cases right with
  | none => rfl
  | some rn =>
    have hg := optUnwrapResultSilent_good c H.gI s left v true (some [])
    simp only [atToRootO_some,
      optUnwrapResultSilent_sub H _ rn v uw (some []) (cur_good hg.1 hs) (by simpa using hr)]

theorem executeBinaryBoolItem_sub (H : SubHyp c item bool any) (s : St) (op : BinOp) (l r : Option Node) (v : Item)
    (hs : s.current = c.root) (hl : IndepO kvFree l = true) (hr : IndepO kvFree r = true) :
    executeBinaryBoolItem c item bool s op (atToRootO l) (atToRootO r) v = executeBinaryBoolItem c item bool s op l r v := by
  cases l with
  | none => rfl
  | some ln =>
    have hl' : Indep kvFree ln = true := by simpa using hl
    have hB1 := H.sB s ln v false hs hl'
    have hcur := cur_goodP (c := c) (H.gB s ln v false) hs
    have hpred : ∀ uw cb, executePredicate c item s (atToRoot ln) (atToRootO r) v uw cb =
        executePredicate c item s ln r v uw cb := fun uw cb => executePredicate_sub H s ln r v uw cb hs hl' hr
    cases op <;> simp only [executeBinaryBoolItem, atToRootO_some, hpred]
    · cases r with
      | none => rfl
      | some rn => simp only [atToRootO_some, hB1, H.sB _ rn v false hcur (by simpa using hr)]
    · cases r with
      | none => rfl
      | some rn => simp only [atToRootO_some, hB1, H.sB _ rn v false hcur (by simpa using hr)]

theorem executeUnaryBoolItem_sub (H : SubHyp c item bool any) (s : St) (op : UnOp) (x : Option Node) (v : Item)
    (hs : s.current = c.root) (hx : IndepO kvFree x = true) :
    executeUnaryBoolItem c item bool s op (subOperand op x) v =
      executeUnaryBoolItem c item bool s op x v := by
  cases x with
  | none => cases op <;> rfl
  | some xn =>
    have hx' : Indep kvFree xn = true := by simpa using hx
    cases op <;> simp only [executeUnaryBoolItem, subOperand, atToRootO_some, H.sB s xn v false hs hx',
      optUnwrapResultSilent_sub H s xn v false _ hs hx']

theorem executeBoolItem_sub (H : SubHyp c item bool any) (s : St) (n : Node) (v : Item) (chn : Bool)
    (hs : s.current = c.root) (hn : Indep kvFree n = true) :
    executeBoolItem c item bool s (atToRoot n) v chn = executeBoolItem c item bool s n v chn := by
  unfold executeBoolItem
  rw [atToRoot_next, atToRootO_isSome]
  cases n with
  | binary op l r nx =>
    simp only [Indep, Bool.and_eq_true] at hn
    simp only [atToRoot, executeBinaryBoolItem_sub H s op l r v hs hn.1.1 hn.1.2]
  | unary op x nx =>
    have hx : IndepO kvFree x = true := by
      have e : ({ kvFree with cur := true } : Flags) = kvFree := rfl
      simp only [Indep, Bool.and_eq_true, e] at hn
      cases op <;> exact hn.1
    simp only [atToRoot_unary, executeUnaryBoolItem_sub H s op x v hs hx]
  | regex x pt fl nx =>
    simp only [Indep, Bool.and_eq_true] at hn
    have := executePredicate_sub H s x none v false (fun l _ => likeRegex c pt fl l) hs hn.1 (by simp)
    simp only [atToRootO_none] at this
    simp only [atToRoot, this]
  | _ => simp only [atToRoot]

theorem appendBoolResult_sub (H : SubHyp c item bool any) (nx : Option Node) (f : Found) (p : PRes)
    (hp : p.st.current = c.root) (hnx : IndepO kvFree nx = true) :
    appendBoolResult c item (atToRootO nx) f p = appendBoolResult c item nx f p := by
  unfold appendBoolResult
  simp only [atToRootO_isNone, executeNextItem_sub H p.st nx _ f hp hnx]

theorem foldl_sub {α β : Type} (Inv : β → Prop) (step step' : β → α → β) (xs : List α) (b : β) (h0 : Inv b)
    (hstep : ∀ a x, Inv a → Inv (step a x)) (heq : ∀ a x, Inv a → step' a x = step a x) :
    xs.foldl step' b = xs.foldl step b := by
  induction xs generalizing b with
  | nil => rfl
  | cons x xs ih => simp only [List.foldl_cons]; rw [heq b x h0]; exact ih _ (hstep b x h0)

theorem unaryStep_sub (H : SubHyp c item bool any) (cb : Num.UCallback) (nx : Option Node) (s : St) (f : Found)
    (a : UAcc) (v : Item) (hs : s.current = c.root) (hinv : UInv s f a) (hnx : IndepO kvFree nx = true) :
    unaryStep c item cb (atToRootO nx) a v = unaryStep c item cb nx a v := by
  unfold unaryStep
  cases hr : a.ret with
  | some r => rfl
  | none =>
    have hm := (hinv.2 hr).1.1
    simp [St.ctxEq] at hm
    have hcur : a.st.current = c.root := by rw [hm.1, hs]
    simp only [atToRootO_isNone, executeNextItem_sub H a.st nx _ a.found hcur hnx]

theorem execUnaryMathExpr_sub (H : SubHyp c item bool any) (s : St) (operand nx : Option Node) (v : Item)
    (cb : Num.UCallback) (f : Found) (hs : s.current = c.root) (hx : IndepO kvFree operand = true)
    (hnx : IndepO kvFree nx = true) :
    execUnaryMathExpr c item s (atToRootO operand) (atToRootO nx) v cb f = execUnaryMathExpr c item s operand nx v cb f := by
  unfold execUnaryMathExpr
  cases operand with
  | none => rfl
  | some x =>
    have hx' : Indep kvFree x = true := by simpa using hx
    simp only [atToRootO_some, optUnwrapResult_sub H s x v true [] hs hx']
    by_cases hf : (optUnwrapResult c item s x v true []).status = .failed
    · simp only [hf, if_true]
    · simp only [hf, if_false]
      have hr := optUnwrapResult_good c H.gI s x v true []
      have hm := Good.mid hr hf
      rw [foldl_sub (UInv s f) (unaryStep c item cb nx) (unaryStep c item cb (atToRootO nx)) _ _
        ⟨fun r hr => by simp at hr, fun _ => ⟨hm, Shape.refl f⟩⟩
        (fun a v h => unaryStep_inv c H.gI cb nx s f a v h)
        (fun a v h => unaryStep_sub H cb nx s f a v hs h hnx)]

theorem execBinaryMathExpr_sub (H : SubHyp c item bool any) (s : St) (op : BinOp) (l r nx : Option Node) (v : Item)
    (f : Found) (hs : s.current = c.root) (hl : IndepO kvFree l = true) (hr : IndepO kvFree r = true)
    (hnx : IndepO kvFree nx = true) :
    execBinaryMathExpr c item s op (atToRootO l) (atToRootO r) (atToRootO nx) v f =
      execBinaryMathExpr c item s op l r nx v f := by
  cases l with
  | none => cases r <;> rfl
  | some ln =>
    cases r with
    | none => rfl
    | some rn =>
      have hl' : Indep kvFree ln = true := by simpa using hl
      have hr' : Indep kvFree rn = true := by simpa using hr
      have g1 := optUnwrapResult_good c H.gI s ln v true []
      have c1 := cur_good (c := c) g1 hs
      have g2 := optUnwrapResult_good c H.gI (optUnwrapResult c item s ln v true []).st rn v true []
      have c2 := cur_good (c := c) g2 c1
      simp only [execBinaryMathExpr, atToRootO_some, atToRootO_isNone, optUnwrapResult_sub H s ln v true [] hs hl',
        optUnwrapResult_sub H _ rn v true [] c1 hr', executeNextItem_sub H _ nx _ f c2 hnx]

theorem execMethodSize_sub (H : SubHyp c item bool any) (s : St) (nx : Option Node) (v : Item) (f : Found)
    (hs : s.current = c.root) (hnx : IndepO kvFree nx = true) :
    execMethodSize c item s (atToRootO nx) v f = execMethodSize c item s nx v f := by
  unfold execMethodSize
  simp only [executeNextItem_sub H s nx _ f hs hnx]

theorem getNodeInt32_sub (n : Node) : getNodeInt32 (atToRoot n) = getNodeInt32 n := by
  cases n <;> simp [atToRoot, atToRoot_unary, getNodeInt32]

theorem executeDecimalMethod_sub (l r : Option Node) (num : F64) :
    executeDecimalMethod (atToRootO l) (atToRootO r) num = executeDecimalMethod l r num := by
  cases l with
  | none => rfl
  | some ln => cases r <;> simp only [executeDecimalMethod, atToRootO_some, atToRootO_none, getNodeInt32_sub]

theorem convNumber_sub (l r : Option Node) (v : Item) :
    convNumber (some (atToRootO l, atToRootO r)) v = convNumber (some (l, r)) v := by
  unfold convNumber
  simp only [executeDecimalMethod_sub]

theorem execConvMethod_sub (H : SubHyp c item bool any) (s : St) (n : Node) (nx : Option Node) (v : Item) (f : Found)
    (u : Bool) (conv : Item → Conv) (hs : s.current = c.root) (hn : Indep kvFree n = true)
    (hnx : IndepO kvFree nx = true) :
    execConvMethod c item any s (atToRoot n) (atToRootO nx) v f u conv = execConvMethod c item any s n nx v f u conv := by
  unfold execConvMethod unwrapTargetArray
  cases v <;> simp only [anySelf_sub H s n _ f hs hn, executeNextItem_sub H s nx _ f hs hnx]

theorem execMethodNode_sub (H : SubHyp c item bool any) (s : St) (n : Node) (m : Method) (nx : Option Node) (v : Item)
    (f : Found) (u : Bool) (hs : s.current = c.root) (hn : Indep kvFree n = true) (hm : m ≠ .keyvalue)
    (hnx : IndepO kvFree nx = true) :
    execMethodNode c item any s (atToRoot n) m (atToRootO nx) v f u = execMethodNode c item any s n m nx v f u := by
  cases m <;> simp only [execMethodNode, execConvMethod_sub H s n nx v f u _ hs hn hnx,
    executeNextItem_sub H s nx _ f hs hnx, execMethodSize_sub H s nx v f hs hnx]
  exact absurd rfl hm

theorem parseDateTime_sub (op : UnOp) (src : List Char) (arg : Option Node) :
    parseDateTime c op src (atToRootO arg) = parseDateTime c op src arg := by
  unfold parseDateTime
  cases arg <;> simp only [atToRootO_some, atToRootO_none, getNodeInt32_sub]

theorem executeDateTimeMethod_sub (H : SubHyp c item bool any) (s : St) (op : UnOp) (arg nx : Option Node) (v : Item)
    (f : Found) (hs : s.current = c.root) (hnx : IndepO kvFree nx = true) :
    executeDateTimeMethod c item s op (atToRootO arg) (atToRootO nx) v f =
      executeDateTimeMethod c item s op arg nx v f := by
  unfold executeDateTimeMethod
  cases v <;> simp only [atToRootO_isSome, atToRootO_isNone, parseDateTime_sub, executeNextItem_sub H s nx _ f hs hnx]

theorem cur_of_AInv {s : St} {f : Found} {a : AAcc} (h : AInv s f a) (hr : a.ret = none) (hs : s.current = c.root) :
    a.st.current = c.root := by
  have := (h.2 hr).1.1
  simp [St.ctxEq, restoreIgn] at this
  rw [this.1, hs]

theorem anyVisit_sub (H : SubHyp c item bool any) (node : Option Node) (level first last : Nat) (ign un : Bool)
    (a : AAcc) (v : Item) (hcur : a.st.current = c.root) (hn : IndepO kvFree node = true) :
    anyVisit item (atToRootO node) level first last ign un a v = anyVisit item node level first last ign un a v := by
  cases node with
  | none => rfl
  | some n =>
    have hst : (if ign = true then { a.st with ignoreSE := true } else a.st).current = c.root := by
      cases ign <;> exact hcur
    simp only [anyVisit, atToRootO_some, H.sI _ n v a.found un hst (by simpa using hn)]

theorem anyDescend_sub (H : SubHyp c item bool any) (node : Option Node) (level first last : Nat) (ign un : Bool)
    (a : AAcc) (v : Item) (hcur : a.st.current = c.root) (hn : IndepO kvFree node = true) :
    anyDescend any (atToRootO node) level first last ign un a v = anyDescend any node level first last ign un a v := by
  unfold anyDescend
  simp only [H.sA a.st node _ a.found (level + 1) first last ign un hcur hn]

theorem anyStep_sub (H : SubHyp c item bool any) (node : Option Node) (level first last : Nat) (ign un : Bool)
    (s : St) (f : Found) (a : AAcc) (v : Item) (hs : s.current = c.root) (hinv : AInv s f a)
    (hn : IndepO kvFree node = true) :
    anyStep item any (atToRootO node) level first last ign un a v = anyStep item any node level first last ign un a v := by
  unfold anyStep
  cases hr : a.ret with
  | some r => rfl
  | none =>
    have hcur := cur_of_AInv hinv hr hs
    simp only [anyVisit_sub H node level first last ign un a v hcur hn]
    have hinv1 := anyVisit_inv H.gI node level first last ign un s f a v hinv hr
    cases hr1 : (anyVisit item node level first last ign un a v).ret with
    | some r1 => rfl
    | none => exact anyDescend_sub H node level first last ign un _ v (cur_of_AInv hinv1 hr1 hs) hn

theorem executeAnyItem_sub (H : SubHyp c item bool any) (s : St) (node : Option Node) (vs : List Item) (f : Found)
    (level first last : Nat) (ign un : Bool) (hs : s.current = c.root) (hn : IndepO kvFree node = true) :
    executeAnyItem item any s (atToRootO node) vs f level first last ign un =
      executeAnyItem item any s node vs f level first last ign un := by
  unfold executeAnyItem
  have h0 : AInv s f ⟨s, f, .notFound, none, none⟩ := by
    refine ⟨fun r hr => by simp at hr, fun _ => ⟨⟨?_, fun h => by simpa [restoreIgn] using h⟩, Shape.refl f, rfl⟩⟩
    simp [St.ctxEq, restoreIgn]
  rw [foldl_sub (AInv s f) (anyStep item any node level first last ign un)
    (anyStep item any (atToRootO node) level first last ign un) vs _ h0
    (fun a v h => anyStep_inv H.gI H.gA node level first last ign un s f a v h)
    (fun a v h => anyStep_sub H node level first last ign un s f a v hs h hn)]

theorem anyInto_sub (H : SubHyp c item bool any) (s : St) (first last : Nat) (nx : Option Node) (v : Item) (f : Found)
    (hs : s.current = c.root) (hn : IndepO kvFree nx = true) :
    anyInto c any s first last (atToRootO nx) v f = anyInto c any s first last nx v f := by
  unfold anyInto
  cases v <;> simp only [H.sA s nx _ f 1 first last true c.lax hs hn]

theorem execAnyNode_sub (H : SubHyp c item bool any) (s : St) (first last : Nat) (nx : Option Node) (v : Item)
    (f : Found) (hs : s.current = c.root) (hn : IndepO kvFree nx = true) :
    execAnyNode c item any s first last (atToRootO nx) v f = execAnyNode c item any s first last nx v f := by
  unfold execAnyNode
  have hs' : ({ s with ignoreSE := true } : St).current = c.root := hs
  have hg := executeNextItem_good c H.gI { s with ignoreSE := true } nx v f
  simp only [executeNextItem_sub H _ nx v f hs' hn, anyInto_sub H _ first last nx v _ (cur_good hg hs') hn,
    anyInto_sub H s first last nx v f hs hn]

/-! subscripts -/

theorem getArrayIndex_sub (H : SubHyp c item bool any) (s : St) (n : Node) (v : Item)
    (hs : s.current = c.root) (hn : Indep kvFree n = true) :
    getArrayIndex c item s (atToRoot n) v = getArrayIndex c item s n v := by
  unfold getArrayIndex
  simp only [executeItem_sub H s n v _ hs hn]

theorem getArrayIndex_cur (H : SubHyp c item bool any) (s : St) (n : Node) (v : Item) (hs : s.current = c.root) :
    (getArrayIndex c item s n v).1.current = c.root := by
  have hg := executeItem_good c H.gI s n v (some [])
  have hc := cur_good (c := c) hg hs
  unfold getArrayIndex
  dsimp only
  split
  · split <;> exact hc
  · split
    · split <;> exact hc
    · exact hc

theorem execSubscript_sub (H : SubHyp c item bool any) (s : St) (sub : Node) (v : Item) (size : Int)
    (hs : s.current = c.root) (hn : Indep kvFree sub = true) :
    execSubscript c item s (atToRoot sub) v size = execSubscript c item s sub v size := by
  cases sub with
  | binary op l r nx =>
    simp only [Indep, Bool.and_eq_true] at hn
    cases op <;> try (simp only [atToRoot, execSubscript])
    cases l with
    | none => simp only [atToRootO_none]
    | some ln =>
      have hl : Indep kvFree ln = true := by simpa using hn.1.1
      have hc1 := getArrayIndex_cur H s ln v hs
      cases r with
      | none => simp only [atToRootO_some, atToRootO_none, getArrayIndex_sub H s ln v hs hl]
      | some rn =>
        have hr : Indep kvFree rn = true := by simpa using hn.1.2
        simp only [atToRootO_some, getArrayIndex_sub H s ln v hs hl]
        cases hq : getArrayIndex c item s ln v with
        | mk s1 res =>
          rw [hq] at hc1
          cases res with
          | error e => rfl
          | ok from_ => simp only [getArrayIndex_sub H s1 rn v hc1 hr]
  | _ => simp only [atToRoot, atToRoot_unary, execSubscript]

theorem cur_of_IMid {s s1 : St} (h : IMid s s1) (hs : s.current = c.root) : s1.current = c.root := by
  have := h.1
  simp [St.ctxEq, restoreInn] at this
  rw [this.1, hs]

theorem indexElemStep_sub (H : SubHyp c item bool any) (nx : Option Node) (s : St) (f : Found) (a : IAcc) (v : Item)
    (hs : s.current = c.root) (hinv : IInv s f a) (hnx : IndepO kvFree nx = true) :
    indexElemStep c item (atToRootO nx) a v = indexElemStep c item nx a v := by
  unfold indexElemStep
  cases hr : a.ret with
  | some r => rfl
  | none =>
    have hcur := cur_of_IMid (c := c) (hinv.2 hr).1 hs
    simp only [atToRootO_isNone, executeNextItem_sub H a.st nx v a.found hcur hnx]

theorem indexSubStep_sub (H : SubHyp c item bool any) (nx : Option Node) (xs : List Item) (v : Item) (s : St)
    (f : Found) (a : IAcc) (sub : Node) (hs : s.current = c.root) (hinv : IInv s f a)
    (hnx : IndepO kvFree nx = true) (hsub : Indep kvFree sub = true) :
    indexSubStep c item (atToRootO nx) xs v a (atToRoot sub) = indexSubStep c item nx xs v a sub := by
  unfold indexSubStep
  cases hr : a.ret with
  | some r => rfl
  | none =>
    obtain ⟨hm, hsh⟩ := hinv.2 hr
    have hcur := cur_of_IMid (c := c) hm hs
    simp only [Option.isSome_none, Bool.false_eq_true, if_false, execSubscript_sub H a.st sub v _ hcur hsub]
    have hgs := execSubscript_good c H.gI s a.st hm sub v xs.length
    cases hq : execSubscript c item a.st sub v xs.length with
    | mk s1 res =>
      cases res with
      | error e => rfl
      | ok ft =>
        obtain ⟨from_, to_⟩ := ft
        simp only
        unfold GoodIdx at hgs
        rw [hq] at hgs
        exact foldl_sub (IInv s f) (indexElemStep c item nx) (indexElemStep c item (atToRootO nx)) _ _
          ⟨fun r hr' => by simp at hr', fun _ => ⟨hgs, hsh⟩⟩
          (fun a' v' h' => indexElemStep_inv c H.gI nx s f a' v' h')
          (fun a' v' h' => indexElemStep_sub H nx s f a' v' hs h' hnx)

theorem execArrayIndex_sub (H : SubHyp c item bool any) (s : St) (subs : List Node) (nx : Option Node) (v : Item)
    (f : Found) (hs : s.current = c.root) (hsubs : IndepL kvFree subs = true) (hnx : IndepO kvFree nx = true) :
    execArrayIndex c item s (atToRootL subs) (atToRootO nx) v f = execArrayIndex c item s subs nx v f := by
  unfold execArrayIndex
  cases harr : arrayOf c v with
  | none => rfl
  | some xs =>
    have hfold : ∀ (ss : List Node) (a : IAcc), IInv s f a → IndepL kvFree ss = true →
        (atToRootL ss).foldl (indexSubStep c item (atToRootO nx) xs v) a = ss.foldl (indexSubStep c item nx xs v) a := by
      intro ss
      induction ss with
      | nil => intro a _ _; rfl
      | cons sb ss ih =>
        intro a ha hss
        simp only [IndepL, Bool.and_eq_true] at hss
        simp only [atToRootL, List.foldl_cons]
        rw [indexSubStep_sub H nx xs v s f a sb hs ha hnx hss.1]
        exact ih _ (indexSubStep_inv c H.gI nx xs v s f a sb ha) hss.2
    have h0 : IInv s f ⟨{ s with innermost := xs.length }, f, .notFound, none, none⟩ := by
      refine ⟨fun r hr => by simp at hr, fun _ => ⟨⟨?_, fun h => by simpa [restoreInn] using h⟩, Shape.refl f⟩⟩
      simp [St.ctxEq, restoreInn]
    simp only [hfold subs _ h0 hsubs]

/-! node dispatch -/

theorem execBinaryNode_sub (H : SubHyp c item bool any) (s : St) (op : BinOp) (l r nx : Option Node) (v : Item)
    (f : Found) (u : Bool) (hs : s.current = c.root) (hn : Indep kvFree (.binary op l r nx) = true) :
    execBinaryNode c item bool any s (atToRoot (.binary op l r nx)) op (atToRootO l) (atToRootO r) (atToRootO nx) v f u =
      execBinaryNode c item bool any s (.binary op l r nx) op l r nx v f u := by
  have hn' := hn
  simp only [Indep, Bool.and_eq_true] at hn'
  unfold execBinaryNode
  have hb := H.sB s (.binary op l r nx) v true hs hn
  have hcur := cur_goodP (c := c) (H.gB s (.binary op l r nx) v true) hs
  have hconv : convNumber (some (atToRootO l, atToRootO r)) = convNumber (some (l, r)) :=
    funext (convNumber_sub l r)
  simp only [hb, appendBoolResult_sub H nx f _ hcur hn'.2, execBinaryMathExpr_sub H s op l r nx v f hs hn'.1.1 hn'.1.2 hn'.2,
    hconv, execConvMethod_sub H s (.binary op l r nx) nx v f u _ hs hn hn'.2]

theorem execUnaryNode_sub (H : SubHyp c item bool any) (s : St) (op : UnOp) (x nx : Option Node) (v : Item)
    (f : Found) (u : Bool) (hs : s.current = c.root) (hn : Indep kvFree (.unary op x nx) = true) :
    execUnaryNode c item bool any s (atToRoot (.unary op x nx)) op (subOperand op x) (atToRootO nx) v f u =
      execUnaryNode c item bool any s (.unary op x nx) op x nx v f u := by
  have e : ({ kvFree with cur := true } : Flags) = kvFree := rfl
  have hx : IndepO kvFree x = true := by
    have h := hn
    simp only [Indep, Bool.and_eq_true, e] at h
    cases op <;> exact h.1
  have hnx : IndepO kvFree nx = true := by
    have h := hn
    simp only [Indep, Bool.and_eq_true] at h
    exact h.2
  have hb := H.sB s (.unary op x nx) v true hs hn
  have hcur := cur_goodP (c := c) (H.gB s (.unary op x nx) v true) hs
  have hself := fun xs => anySelf_sub H s (.unary op x nx) xs f hs hn
  cases op <;> simp only [execUnaryNode, subOperand, hb, appendBoolResult_sub H nx f _ hcur hnx,
    execUnaryMathExpr_sub H s x nx v _ f hs hx hnx, executeDateTimeMethod_sub H s _ x nx v f hs hnx, hself,
    unwrapTargetArray]
  -- the filter: its condition is untouched; `@` is restored before the next step runs
  cases x with
  | none => rfl
  | some cond =>
    have hp : (executeNestedBoolItem bool s cond v).st.current = c.root := hs
    simp only [executeNextItem_sub H _ nx v f hp hnx]

theorem dispatch_sub (H : SubHyp c item bool any) (s : St) (n : Node) (v : Item) (f : Found) (u : Bool)
    (hs : s.current = c.root) (hn : Indep kvFree n = true) :
    dispatch c item bool any s (atToRoot n) v f u = dispatch c item bool any s n v f u := by
  have e : ({ kvFree with lst := true } : Flags) = kvFree := rfl
  cases n with
  | const k nx =>
    have hnx : IndepO kvFree nx = true := by simp only [Indep, Bool.and_eq_true] at hn; exact hn.2
    have := execConstNode_sub H s (.const k nx) k nx v f u hs hn hnx
    simp only [atToRoot] at this
    simp only [atToRoot, dispatch, this]
  | str t nx => simp only [atToRoot, dispatch]; exact execLiteral_sub H s nx _ f hs (by simpa [Indep] using hn)
  | integer i nx => simp only [atToRoot, dispatch]; exact execLiteral_sub H s nx _ f hs (by simpa [Indep] using hn)
  | numeric x nx => simp only [atToRoot, dispatch]; exact execLiteral_sub H s nx _ f hs (by simpa [Indep] using hn)
  | var t nx => simp only [atToRoot, dispatch]; exact execVariable_sub H s t nx f hs (by simpa [Indep] using hn)
  | key k nx =>
    have := execKeyNode_sub H s (.key k nx) k nx v f u hs hn (by simpa [Indep] using hn)
    simp only [atToRoot] at this
    simp only [atToRoot, dispatch, this]
  | binary op l r nx =>
    have := execBinaryNode_sub H s op l r nx v f u hs hn
    simp only [atToRoot] at this
    simp only [atToRoot, dispatch, this]
  | unary op x nx =>
    have := execUnaryNode_sub H s op x nx v f u hs hn
    simp only [atToRoot_unary] at this
    simp only [atToRoot_unary, dispatch, this]
  | regex x pt fl nx =>
    have hb := H.sB s (.regex x pt fl nx) v true hs hn
    have hcur := cur_goodP (c := c) (H.gB s (.regex x pt fl nx) v true) hs
    have hnx : IndepO kvFree nx = true := by simp only [Indep, Bool.and_eq_true] at hn; exact hn.2
    simp only [atToRoot] at hb
    simp only [atToRoot, dispatch, hb, appendBoolResult_sub H nx f _ hcur hnx]
  | method m nx =>
    have hm : m ≠ .keyvalue := by
      intro h; subst h; simp [Indep, kvFree] at hn
    have hnx : IndepO kvFree nx = true := by simp only [Indep, Bool.and_eq_true] at hn; exact hn.2
    have := execMethodNode_sub H s (.method m nx) m nx v f u hs hn hm hnx
    simp only [atToRoot] at this
    simp only [atToRoot, dispatch, this]
  | any a b nx => simp only [atToRoot, dispatch]; exact execAnyNode_sub H s a b nx v f hs (by simpa [Indep] using hn)
  | arrayIndex subs nx =>
    simp only [Indep, Bool.and_eq_true, e] at hn
    simp only [atToRoot, dispatch]
    exact execArrayIndex_sub H s subs nx v f hs hn.1 hn.2

end sub

theorem poll_current {s s' : St} (h : poll s = some s') : s'.current = s.current := by
  unfold poll at h
  cases hb : s.budget with
  | none => simp [hb] at h; rw [← h]
  | some n => cases n <;> simp [hb] at h; rw [← h]

/-- **replacing the free `@` by `$` does not change a run that starts with `@` = `$`** (nodes without
    `.keyvalue()`: `$` also resets the base object of its ids) -/
theorem sub_all (c : Ctx) : ∀ fuel : Nat,
    (∀ s n v f u, s.current = c.root → Indep kvFree n = true →
      xItem c fuel s (atToRoot n) v f u = xItem c fuel s n v f u) ∧
    (∀ s n v b, s.current = c.root → Indep kvFree n = true →
      xBool c fuel s (atToRoot n) v b = xBool c fuel s n v b) ∧
    (∀ s node vs f l a b i u, s.current = c.root → IndepO kvFree node = true →
      xAny c fuel s (atToRootO node) vs f l a b i u = xAny c fuel s node vs f l a b i u) := by
  intro fuel
  induction fuel with
  | zero => exact ⟨fun _ _ _ _ _ _ _ => rfl, fun _ _ _ _ _ _ => rfl, fun _ _ _ _ _ _ _ _ _ _ _ => rfl⟩
  | succ k ih =>
    obtain ⟨gI, gB, gA⟩ := good_all c k
    have H : SubHyp c (xItem c k) (xBool c k) (xAny c k) :=
      { gI := gI, gB := gB, gA := gA, frI := (frame_all none c k).1, sI := ih.1, sB := ih.2.1, sA := ih.2.2 }
    refine ⟨fun s n v f u hs hn => ?_, fun s n v b hs hn => ?_, fun s node vs f l a b i u hs hn => ?_⟩
    · simp only [xItem]
      cases hp : poll s with
      | none => rfl
      | some s' => exact dispatch_sub H s' n v f u ((poll_current hp).trans hs) hn
    · simp only [xBool]; exact executeBoolItem_sub H s n v b hs hn
    · simp only [xAny]; exact executeAnyItem_sub H s node vs f l a b i u hs hn
end Aux

open Aux

/-! ## 2′. the rewriting `@` ↦ `$` -/

/-- what the rewriting theorem needs of `C`: no `$` (inside the filter it is the original document) and no
    `.keyvalue()` (`$` also makes the document the base object of the generated ids, `@` does not) -/
def checkable : Flags := ⟨false, true, true, false⟩

mutual
  /-- after the rewriting no `@` is left outside nested filter conditions -/
  theorem atToRoot_closed : ∀ (n : Node) (l k : Bool), Indep ⟨true, true, l, k⟩ n = true →
      Indep ⟨true, false, l, k⟩ (atToRoot n) = true
    | .const c nx, l, k, h => by
      have ih := atToRootO_closed nx l k
      simp only [Indep, Bool.and_eq_true] at h
      simp only [atToRoot, Indep, Bool.and_eq_true]
      refine ⟨?_, ih h.2⟩
      have h1 := h.1
      cases c <;> simp_all [subConst]
    | .method m nx, l, k, h => by
      have ih := atToRootO_closed nx l k
      simp only [Indep, Bool.and_eq_true] at h
      simp only [atToRoot, Indep, Bool.and_eq_true]
      exact ⟨h.1, ih h.2⟩
    | .str _ nx, l, k, h | .var _ nx, l, k, h | .key _ nx, l, k, h | .numeric _ nx, l, k, h
    | .integer _ nx, l, k, h | .any _ _ nx, l, k, h => by
      have ih := atToRootO_closed nx l k
      simp_all [atToRoot, Indep]
    | .binary _ a b nx, l, k, h => by
      have ih := atToRootO_closed nx l k
      have ih1 := atToRootO_closed a l k
      have ih2 := atToRootO_closed b l k
      simp_all [atToRoot, Indep]
    | .unary op x nx, l, k, h => by
      have ih := atToRootO_closed nx l k
      have ih1 := atToRootO_closed x l k
      cases op <;> simp_all [atToRoot, Indep]
    | .regex x _ _ nx, l, k, h => by
      have ih := atToRootO_closed nx l k
      have ih1 := atToRoot_closed x l k
      simp_all [atToRoot, Indep]
    | .arrayIndex subs nx, l, k, h => by
      have ih := atToRootO_closed nx true k
      have ih1 := atToRootL_closed subs true k
      simp_all [atToRoot, Indep]
  theorem atToRootO_closed : ∀ (n : Option Node) (l k : Bool), IndepO ⟨true, true, l, k⟩ n = true →
      IndepO ⟨true, false, l, k⟩ (atToRootO n) = true
    | none, _, _, _ => by simp
    | some n, l, k, h => by
      have ih := atToRoot_closed n l k
      simp_all
  theorem atToRootL_closed : ∀ (n : List Node) (l k : Bool), IndepL ⟨true, true, l, k⟩ n = true →
      IndepL ⟨true, false, l, k⟩ (atToRootL n) = true
    | [], _, _, _ => by simp [atToRootL, IndepL]
    | n :: ns, l, k, h => by
      have ih := atToRoot_closed n l k
      have ih1 := atToRootL_closed ns l k
      simp_all [atToRootL, IndepL]
end

theorem atToRoot_isBoolNode (C : Node) : isBoolNode (atToRoot C) = isBoolNode C := by
  cases C with
  | unary op x nx => cases op <;> simp [atToRoot, isBoolNode]
  | _ => simp [atToRoot, isBoolNode]

/-- **a run on the document `x` does not change when the free `@` are rewritten to `$`** (at the top level both
    denote `x`) -/
theorem execute_atToRoot (fuel : Nat) (C : Node) (lax pred : Bool) (x : Item) (o : Opts) (hC : Indep kvFree C = true) :
    execute fuel ⟨atToRoot C, lax, pred⟩ x o = execute fuel ⟨C, lax, pred⟩ x o := by
  rw [C09b.execute_eq, C09b.execute_eq]
  exact (sub_all (mkCtx ⟨C, lax, pred⟩ x o) fuel).1 (initSt ⟨C, lax, pred⟩ x o) C x (some []) lax rfl hC

theorem queryWith_atToRoot (fuel : Nat) (C : Node) (lax pred : Bool) (x : Item) (o : Opts) (hC : Indep kvFree C = true) :
    queryWith fuel ⟨atToRoot C, lax, pred⟩ x o = queryWith fuel ⟨C, lax, pred⟩ x o := by
  unfold queryWith; rw [execute_atToRoot fuel C lax pred x o hC]

theorem matchWith_atToRoot (fuel : Nat) (C : Node) (lax pred : Bool) (x : Item) (o : Opts) (hC : Indep kvFree C = true) :
    matchWith fuel ⟨atToRoot C, lax, pred⟩ x o = matchWith fuel ⟨C, lax, pred⟩ x o := by
  unfold matchWith; rw [execute_atToRoot fuel C lax pred x o hC]

theorem checkable_noRoot {C : Node} (h : Indep checkable C = true) : Indep noRoot C = true :=
  indep_mono C checkable noRoot (by simp [Flags.le, checkable, noRoot]) h

theorem checkable_kvFree {C : Node} (h : Indep checkable C = true) : Indep kvFree C = true :=
  indep_mono C checkable kvFree (by simp [Flags.le, checkable, kvFree]) h

/-- **C10: an item is kept exactly when `C`, rewritten as a predicate check expression over that item (`@` ↦ `$`),
    yields true.**  Side conditions: `C` has no `$` and no `.keyvalue()`; it is a predicate (`isBoolNode`) with
    nothing chained after it; its evaluation on `x` finishes within the fuel and does not panic. -/
theorem kept_iff_rewritten_check (fuel : Nat) (a : AST) (C : Node) (doc x : Item) (o : Opts)
    (hC : Indep checkable C = true) (hnx : C.next = none) (hB : isBoolNode C = true) (ho : o.budget = none)
    (hfin : (condRun (mkCtx a doc o) fuel (initSt a doc o) C x).st.oof = false)
    (hpan : (condRun (mkCtx a doc o) fuel (initSt a doc o) C x).st.panicked = false) :
    kept a doc o fuel C x = true ↔ queryWith (fuel + 1) ⟨atToRoot C, a.lax, true⟩ x o = .items [.bool true] := by
  rw [queryWith_atToRoot _ _ _ _ _ _ (checkable_kvFree hC)]
  exact kept_iff_predicate_check fuel a C doc x o (checkable_noRoot hC) hnx hB ho hfin hpan

/-- the same with `exec.Match` -/
theorem kept_iff_rewritten_match (fuel : Nat) (a : AST) (C : Node) (doc x : Item) (o : Opts)
    (hC : Indep checkable C = true) (hnx : C.next = none) (hB : isBoolNode C = true) (ho : o.budget = none)
    (hfin : (condRun (mkCtx a doc o) fuel (initSt a doc o) C x).st.oof = false)
    (hpan : (condRun (mkCtx a doc o) fuel (initSt a doc o) C x).st.panicked = false) :
    kept a doc o fuel C x = true ↔ matchWith (fuel + 1) ⟨atToRoot C, a.lax, true⟩ x o = .bool true := by
  rw [matchWith_atToRoot _ _ _ _ _ _ (checkable_kvFree hC)]
  exact kept_iff_match fuel a C doc x o (checkable_noRoot hC) hnx hB ho hfin hpan

/-! ## 3. consecutive filters and the filter on the conjunction -/

theorem andNode_indep {C1 C2 : Node} (h1 : Indep sufFlags C1 = true) (h2 : Indep sufFlags C2 = true) :
    Indep sufFlags (andNode C1 C2) = true := by
  simp [andNode, Indep, h1, h2]

/-- **fusion, executor level, both modes.**  `A12` = the run of `P ? (C₁) ? (C₂)`, `Af` = the run of
    `P ? (C₁ && C₂)`, `xs'` = the items of `P` (unwrapped one level in lax mode).  If neither condition raises a
    non-suppressible error on the items `xs'`, and — in lax mode — no item that passes `C₁` is an array (so that the
    second filter has nothing to unwrap again), both runs return `l` followed by the items of `xs'` on which both
    conditions are true, and end alike.  (Fuel: the two runs and the run of `P ? (C₁)` finish.) -/
theorem filter_fusion_exec (c : Ctx) (C1 C2 : Node) (hC1 : Indep sufFlags C1 = true) (hC2 : Indep sufFlags C2 = true)
    (fuel : Nat) (s : St) (hb : s.budget = none) (P : Node) (hc : s.ignoreSE = true ∨ NoAny P = true) (l : List Item)
    (v : Item) (u : Bool)
    (hf12 : (xItem c fuel s (append (append P (filterNode C1)) (filterNode C2)) v (some l) u).st.oof = false)
    (hf1 : (xItem c fuel s (append P (filterNode C1)) v (some []) u).st.oof = false)
    (hfa : (xItem c fuel s (append P (filterNode (andNode C1 C2))) v (some l) u).st.oof = false)
    (herr : ∀ x ∈ unwrap1 c.lax ((xItem c fuel s P v (some []) u).found.getD []),
      condErr c fuel s C1 x = none ∧ condErr c fuel s C2 x = none)
    (hflat : c.lax = true → ∀ x ∈ unwrap1 c.lax ((xItem c fuel s P v (some []) u).found.getD []),
      holds c fuel s C1 x = true → x.isArr = false) :
    let A12 := xItem c fuel s (append (append P (filterNode C1)) (filterNode C2)) v (some l) u
    let Af := xItem c fuel s (append P (filterNode (andNode C1 C2))) v (some l) u
    let xs' := unwrap1 c.lax ((xItem c fuel s P v (some []) u).found.getD [])
    A12.found = some (l ++ xs'.filter (fun x => holds c fuel s C1 x && holds c fuel s C2 x)) ∧
      Af.found = A12.found ∧ Af.err = A12.err ∧ (Af.status = .failed ↔ A12.status = .failed) ∧
      A12.err = (xItem c fuel s P v (some []) u).err := by
  intro A12 Af xs'
  -- the first filter
  obtain ⟨p1, p2, p3⟩ := filter_subsequence_exec c C1 hC1 fuel s hb P hc [] v u hf1 (fun x hx => (herr x hx).1)
  have hB1 : (xItem c fuel s (append P (filterNode C1)) v (some []) u).found.getD [] =
      xs'.filter (holds c fuel s C1) := by rw [p1]; rfl
  have hu : unwrap1 c.lax (xs'.filter (holds c fuel s C1)) = xs'.filter (holds c fuel s C1) := by
    cases hl : c.lax with
    | false => exact unwrap1_strict _
    | true =>
      apply unwrap1_of_noArr
      intro x hx
      have hx' := List.mem_filter.mp hx
      exact hflat hl x hx'.1 hx'.2
  -- the second filter
  obtain ⟨q1, q2, q3⟩ := filter_subsequence_exec c C2 hC2 fuel s hb (append P (filterNode C1))
    (chainOK_append_filter hc C1) l v u hf12
    (by rw [hB1, hu]; intro x hx; exact (herr x (List.mem_filter.mp hx).1).2)
  rw [hB1, hu] at q1
  -- the filter on the conjunction
  obtain ⟨g1, g2, _, g4⟩ := filter_scan_exec c (andNode C1 C2) (andNode_indep hC1 hC2) fuel s hb P hc l v u hfa
  have hsc := scan_and c C1 C2 (kvFree_of_suf hC1) (kvFree_of_suf hC2) fuel s hb xs' g4 herr
  rw [hsc] at g1 g2
  obtain ⟨g2a, g2b⟩ := g2 rfl
  have hff : (xs'.filter (holds c fuel s C1)).filter (holds c fuel s C2) =
      xs'.filter (fun x => holds c fuel s C1 x && holds c fuel s C2 x) := by
    rw [List.filter_filter]
    exact List.filter_congr (fun x _ => Bool.and_comm _ _)
  rw [hff] at q1
  refine ⟨q1, ?_, ?_, ?_, by show A12.err = _; rw [q2, p2]⟩
  · show Af.found = A12.found
    rw [q1]; exact g1
  · show Af.err = A12.err
    rw [g2a, q2, p2]
  · show Af.status = .failed ↔ A12.status = .failed
    rw [g2b, q3, p3]

/-- **C10, fusion** (`Query` level, both modes; strict mode is `strict_filter_fusion`).  If `Query(P, doc)` returns
    `xs`, neither `C₁` nor `C₂` raises a non-suppressible error on those items (unwrapped one level in lax mode),
    and in lax mode no item passing `C₁` is an array, then `Query(P ? (C₁) ? (C₂), doc)` and
    `Query(P ? (C₁ && C₂), doc)` — when neither runs out of fuel or panics — both return the items on which both
    conditions are true. -/
theorem filter_fusion (fuel : Nat) (a : AST) (P C1 C2 : Node) (doc : Item) (o : Opts) (xs : List Item)
    (hC1 : Indep sufFlags C1 = true) (hC2 : Indep sufFlags C2 = true) (ho : o.budget = none)
    (hchain : a.lax = true ∨ NoAny P = true)
    (hP : C09b.Ran (execute fuel (C09b.withRoot a P) doc o) xs)
    (hq1 : queryWith fuel (C09b.withRoot a (append P (filterNode C1))) doc o ≠ .outOfFuel)
    (hq12 : queryWith fuel (C09b.withRoot a (append (append P (filterNode C1)) (filterNode C2))) doc o ≠ .outOfFuel)
    (hp12 : queryWith fuel (C09b.withRoot a (append (append P (filterNode C1)) (filterNode C2))) doc o ≠ .panic)
    (hqa : queryWith fuel (C09b.withRoot a (append P (filterNode (andNode C1 C2)))) doc o ≠ .outOfFuel)
    (hpa : queryWith fuel (C09b.withRoot a (append P (filterNode (andNode C1 C2)))) doc o ≠ .panic)
    (herr : ∀ x ∈ unwrap1 a.lax xs, hardErr a doc o fuel C1 x = none ∧ hardErr a doc o fuel C2 x = none)
    (hflat : a.lax = true → ∀ x ∈ unwrap1 a.lax xs, kept a doc o fuel C1 x = true → x.isArr = false) :
    queryWith fuel (C09b.withRoot a (append (append P (filterNode C1)) (filterNode C2))) doc o =
        .items ((unwrap1 a.lax xs).filter (fun x => kept a doc o fuel C1 x && kept a doc o fuel C2 x)) ∧
      queryWith fuel (C09b.withRoot a (append P (filterNode (andNode C1 C2)))) doc o =
        queryWith fuel (C09b.withRoot a (append (append P (filterNode C1)) (filterNode C2))) doc o := by
  have e12 : execute fuel (C09b.withRoot a (append (append P (filterNode C1)) (filterNode C2))) doc o =
      xItem (mkCtx a doc o) fuel (initSt a doc o) (append (append P (filterNode C1)) (filterNode C2)) doc (some []) a.lax :=
    C09b.execute_eq _ _ _ _
  have e1 : execute fuel (C09b.withRoot a (append P (filterNode C1))) doc o =
      xItem (mkCtx a doc o) fuel (initSt a doc o) (append P (filterNode C1)) doc (some []) a.lax :=
    C09b.execute_eq _ _ _ _
  have ea : execute fuel (C09b.withRoot a (append P (filterNode (andNode C1 C2)))) doc o =
      xItem (mkCtx a doc o) fuel (initSt a doc o) (append P (filterNode (andNode C1 C2))) doc (some []) a.lax :=
    C09b.execute_eq _ _ _ _
  have eB : execute fuel (C09b.withRoot a P) doc o =
      xItem (mkCtx a doc o) fuel (initSt a doc o) P doc (some []) a.lax := C09b.execute_eq _ _ _ _
  have hBf : (xItem (mkCtx a doc o) fuel (initSt a doc o) P doc (some []) a.lax).found = some xs := by
    rw [← eB]; exact hP.found
  have h := filter_fusion_exec (mkCtx a doc o) C1 C2 hC1 hC2 fuel (initSt a doc o) ho P hchain [] doc a.lax
    (by rw [← e12]; exact not_oof hq12) (by rw [← e1]; exact not_oof hq1) (by rw [← ea]; exact not_oof hqa)
    (by rw [hBf]; exact herr) (by rw [hBf]; exact hflat)
  dsimp only at h
  rw [hBf, ← e12, ← ea, ← eB] at h
  obtain ⟨h1, h2, h3, _, h5⟩ := h
  have hBe : (execute fuel (C09b.withRoot a P) doc o).err = none := err_none_of_good (execute_good _ _ _ _) hP.ok
  have h12e : (execute fuel (C09b.withRoot a (append (append P (filterNode C1)) (filterNode C2))) doc o).err = none := by
    rw [h5, hBe]
  have r12 : queryWith fuel (C09b.withRoot a (append (append P (filterNode C1)) (filterNode C2))) doc o =
      .items ((unwrap1 a.lax xs).filter (fun x => kept a doc o fuel C1 x && kept a doc o fuel C2 x)) := by
    unfold queryWith guarded
    simp only [not_oof hq12, not_panicked hq12 hp12, h12e, h1]
    rfl
  refine ⟨r12, ?_⟩
  rw [r12]
  unfold queryWith guarded
  simp only [not_oof hqa, not_panicked hqa hpa, h3, h12e, h2, h1]
  rfl

/-- **C10, fusion in strict mode**: consecutive filters free of non-suppressible errors equal one filter on their
    conjunction -/
theorem strict_filter_fusion (fuel : Nat) (a : AST) (P C1 C2 : Node) (doc : Item) (o : Opts) (xs : List Item)
    (hstrict : a.lax = false)
    (hC1 : Indep sufFlags C1 = true) (hC2 : Indep sufFlags C2 = true) (ho : o.budget = none) (hchain : NoAny P = true)
    (hP : C09b.Ran (execute fuel (C09b.withRoot a P) doc o) xs)
    (hq1 : queryWith fuel (C09b.withRoot a (append P (filterNode C1))) doc o ≠ .outOfFuel)
    (hq12 : queryWith fuel (C09b.withRoot a (append (append P (filterNode C1)) (filterNode C2))) doc o ≠ .outOfFuel)
    (hp12 : queryWith fuel (C09b.withRoot a (append (append P (filterNode C1)) (filterNode C2))) doc o ≠ .panic)
    (hqa : queryWith fuel (C09b.withRoot a (append P (filterNode (andNode C1 C2)))) doc o ≠ .outOfFuel)
    (hpa : queryWith fuel (C09b.withRoot a (append P (filterNode (andNode C1 C2)))) doc o ≠ .panic)
    (herr : ∀ x ∈ xs, hardErr a doc o fuel C1 x = none ∧ hardErr a doc o fuel C2 x = none) :
    queryWith fuel (C09b.withRoot a (append (append P (filterNode C1)) (filterNode C2))) doc o =
        .items (xs.filter (fun x => kept a doc o fuel C1 x && kept a doc o fuel C2 x)) ∧
      queryWith fuel (C09b.withRoot a (append P (filterNode (andNode C1 C2)))) doc o =
        queryWith fuel (C09b.withRoot a (append (append P (filterNode C1)) (filterNode C2))) doc o := by
  have h := filter_fusion fuel a P C1 C2 doc o xs hC1 hC2 ho (Or.inr hchain) hP hq1 hq12 hp12 hqa hpa
    (by rw [hstrict, unwrap1_strict]; exact herr) (by rw [hstrict]; intro h; cases h)
  rw [hstrict, unwrap1_strict] at h
  exact h

/-! ## non-vacuity and the lax counterexample (all by evaluation) -/

section examples

def exGt (n : Int) : Node := .binary .gt (some (.const .current none)) (some (.integer n none)) none
def exLt (n : Int) : Node := .binary .lt (some (.const .current none)) (some (.integer n none)) none
/-- `$[*]` -/
def exStar : Node := .const .root (some (.const .anyArray none))
/-- `[1, 5, "a", 3, 9]` -/
def exNums : Item := .arr [.int 1, .int 5, .str ['a'], .int 3, .int 9]

example : Indep sufFlags (exGt 2) = true := rfl
example : append exStar (filterNode (exGt 2)) =
    .const .root (some (.const .anyArray (some (.unary .filter (some (exGt 2)) none)))) := rfl

/-- strict `$[*] ? (@ > 2)`: `"a" > 2` is unknown and dropped; order kept -/
example : queryWith 30 ⟨append exStar (filterNode (exGt 2)), false, false⟩ exNums {} = .items [.int 5, .int 3, .int 9] := rfl
/-- lax `$ ? (@ > 2)`: the document (an array) is unwrapped one level; strict: it is one item, `[..] > 2` is unknown -/
example : queryWith 30 ⟨append (.const .root none) (filterNode (exGt 2)), true, false⟩ exNums {} =
    .items [.int 5, .int 3, .int 9] := rfl
example : queryWith 30 ⟨append (.const .root none) (filterNode (exGt 2)), false, false⟩ exNums {} = .items [] := rfl

/-- `filter_subsequence` applied to concrete data -/
example : queryWith 30 (C09b.withRoot ⟨exStar, false, false⟩ (append exStar (filterNode (exGt 2)))) exNums {} =
    .items ((unwrap1 false [.int 1, .int 5, .str ['a'], .int 3, .int 9]).filter
      (kept ⟨exStar, false, false⟩ exNums {} 30 (exGt 2))) :=
  filter_subsequence 30 ⟨exStar, false, false⟩ exStar (exGt 2) exNums {} [.int 1, .int 5, .str ['a'], .int 3, .int 9]
    rfl rfl (Or.inr rfl) ⟨rfl, rfl, C09b.ne_failed_of_ok rfl, rfl⟩
    (by intro h
        have h2 : queryWith 30 ⟨append exStar (filterNode (exGt 2)), false, false⟩ exNums {} = .items [.int 5, .int 3, .int 9] := rfl
        exact absurd (h2.symm.trans h) (by intro h3; cases h3))
    (by intro h
        have h2 : queryWith 30 ⟨append exStar (filterNode (exGt 2)), false, false⟩ exNums {} = .items [.int 5, .int 3, .int 9] := rfl
        exact absurd (h2.symm.trans h) (by intro h3; cases h3))
    (by intro x hx
        rw [unwrap1_strict] at hx
        simp only [List.mem_cons, List.not_mem_nil, or_false] at hx
        rcases hx with rfl | rfl | rfl | rfl | rfl <;> rfl)

/-- a suppressible error inside the condition (strict `@.a` on `{}`) makes it unknown: the item is dropped, the
    query goes on -/
def exA : List Char := ['a']
def exAGt1 : Node := .binary .gt (some (.const .current (some (.key exA none)))) (some (.integer 1 none)) none
example : queryWith 30 ⟨append exStar (filterNode exAGt1), false, false⟩
    (.arr [.obj [(exA, .int 2)], .obj [], .obj [(exA, .int 0)]]) {} = .items [.obj [(exA, .int 2)]] := rfl

/-- a non-suppressible error (missing variable) fails the query -/
def exGtVar : Node := .binary .gt (some (.const .current none)) (some (.var ['x'] none)) none
example : hardErr ⟨exStar, false, false⟩ exNums {} 30 exGtVar (.int 1) = some (.hard .noVar) := rfl
example : queryWith 30 ⟨append exStar (filterNode exGtVar), false, false⟩ exNums {} = .error (.hard .noVar) := rfl

/-- kept iff the predicate check is true: `5 > 2` -/
example : kept ⟨exStar, false, false⟩ exNums {} 30 (exGt 2) (.int 5) = true := rfl
example : queryWith 31 ⟨exGt 2, false, true⟩ (.int 5) {} = .items [.bool true] := rfl
example : matchWith 31 ⟨exGt 2, false, true⟩ (.int 5) {} = .bool true := rfl
example : isBoolNode (exGt 2) = true ∧ Indep noRoot (exGt 2) = true := ⟨rfl, rfl⟩

/-- the rewriting: `@ > 2` becomes `$ > 2`, and `[5]`… the item `5` is kept iff `$ > 2` is true on the document `5` -/
example : atToRoot (exGt 2) = .binary .gt (some (.const .root none)) (some (.integer 2 none)) none := rfl
example : queryWith 31 ⟨atToRoot (exGt 2), false, true⟩ (.int 5) {} = .items [.bool true] := rfl
example : Indep checkable (exGt 2) = true := rfl
/-- a nested filter keeps its own `@`: `exists(@.a ? (@ > 1))` becomes `exists($.a ? (@ > 1))` -/
example : atToRoot (.unary .exists (some (.const .current (some (.key exA (some (filterNode (exGt 1))))))) none) =
    .unary .exists (some (.const .root (some (.key exA (some (filterNode (exGt 1))))))) none := rfl

/-- fusion, strict: `$[*] ? (@ > 2) ? (@ < 8)` = `$[*] ? (@ > 2 && @ < 8)` -/
example : queryWith 30 ⟨append (append exStar (filterNode (exGt 2))) (filterNode (exLt 8)), false, false⟩ exNums {} =
    .items [.int 5, .int 3] := rfl
example : queryWith 30 ⟨append exStar (filterNode (andNode (exGt 2) (exLt 8))), false, false⟩ exNums {} =
    .items [.int 5, .int 3] := rfl

/-- **fusion is false in lax mode** (without the side condition of `filter_fusion`): on `[[1,2]]`,
    `lax $ ? (@.type() == "array") ? (@.type() == "number")` unwraps the document to `[1,2]`, keeps it, and the
    second filter unwraps it *again* to `1`, `2` — result `[1, 2]`; `lax $ ? (@.type() == "array" && @.type() ==
    "number")` tests `[1,2]` itself — result `[]`.  In strict mode both are `[]`. -/
def exTypeIs (t : String) : Node :=
  .binary .eq (some (.const .current (some (.method .type none)))) (some (.str t.toList none)) none
theorem counterexample_lax_fusion :
    queryWith 30 ⟨append (append (.const .root none) (filterNode (exTypeIs "array"))) (filterNode (exTypeIs "number")),
      true, false⟩ (.arr [.arr [.int 1, .int 2]]) {} = .items [.int 1, .int 2] ∧
    queryWith 30 ⟨append (.const .root none) (filterNode (andNode (exTypeIs "array") (exTypeIs "number"))),
      true, false⟩ (.arr [.arr [.int 1, .int 2]]) {} = .items [] ∧
    queryWith 30 ⟨append (append (.const .root none) (filterNode (exTypeIs "array"))) (filterNode (exTypeIs "number")),
      false, false⟩ (.arr [.arr [.int 1, .int 2]]) {} = .items [] ∧
    queryWith 30 ⟨append (.const .root none) (filterNode (andNode (exTypeIs "array") (exTypeIs "number"))),
      false, false⟩ (.arr [.arr [.int 1, .int 2]]) {} = .items [] := ⟨rfl, rfl, rfl, rfl⟩

end examples

end C10b
end Sqljson
