import Sqljson.Props.C09b
import Sqljson.Props.C10

namespace Sqljson
namespace C10b
open Exec Api Exec.Compose

/-! ## vocabulary -/

/-- the filter step `? (C)` with nothing after it -/
def filterNode (C : Node) : Node := .unary .filter (some C) none

/-- the condition `(C₁ && C₂)` -/
def andNode (C1 C2 : Node) : Node := .binary .and (some C1) (some C2) none

/-- the evaluation of the condition `C` with `@` bound to the item `x` (from state `s`: the state of the
    query — only its context fields matter, see `Aux.xBool_rel`) -/
def condRun (c : Ctx) (fuel : Nat) (s : St) (C : Node) (x : Item) : PRes :=
  xBool c fuel { s with current := x } C x false

/-- `C` is **true** on `x` -/
def holds (c : Ctx) (fuel : Nat) (s : St) (C : Node) (x : Item) : Bool :=
  decide ((condRun c fuel s C x).out = .t)

/-- the non-suppressible error `C` raises on `x`, if any (a suppressible error makes `C` unknown instead:
    `GoodP.noVerbose`) -/
def condErr (c : Ctx) (fuel : Nat) (s : St) (C : Node) (x : Item) : Option Err :=
  (condRun c fuel s C x).err

/-- what a filter step sees of one item handed to it: in lax mode the elements of an array, else the item -/
def expand (lax : Bool) : Item → List Item
  | .arr ys => if lax then ys else [.arr ys]
  | x => [x]

/-- the items of `xs` after one level of array unwrapping in lax mode (nothing happens in strict mode) -/
def unwrap1 (lax : Bool) (xs : List Item) : List Item := xs.flatMap (expand lax)

theorem unwrap1_strict (xs : List Item) : unwrap1 false xs = xs := by
  induction xs with
  | nil => rfl
  | cons x xs ih =>
    simp only [unwrap1, List.flatMap_cons] at ih ⊢
    rw [ih]; cases x <;> rfl

/-- in lax mode this is the executor's own `unwrapSeq` -/
theorem unwrap1_lax (xs : List Item) : unwrap1 true xs = unwrapSeq xs := by
  induction xs with
  | nil => rfl
  | cons x xs ih =>
    simp only [unwrap1, List.flatMap_cons] at ih ⊢
    rw [ih]; cases x <;> simp [expand, unwrapSeq]

theorem unwrap1_of_noArr (lax : Bool) (xs : List Item) (h : ∀ x ∈ xs, x.isArr = false) : unwrap1 lax xs = xs := by
  induction xs with
  | nil => rfl
  | cons x xs ih =>
    simp only [unwrap1, List.flatMap_cons] at ih ⊢
    rw [ih (fun y hy => h y (by simp [hy]))]
    have := h x (by simp)
    cases x <;> simp_all [expand, Item.isArr]

namespace Aux

/-! ### scanning a list up to the first hard error -/

/-- the items kept up to the first item on which the condition raises an error, and that error -/
def scan (keep : Item → Bool) (err : Item → Option Err) : List Item → List Item × Option Err
  | [] => ([], none)
  | x :: xs =>
    match err x with
    | some e => ([], some e)
    | none => ((if keep x then [x] else []) ++ (scan keep err xs).1, (scan keep err xs).2)

section scan
variable (keep : Item → Bool) (err : Item → Option Err)

theorem scan_cons_none {x : Item} (xs : List Item) (h : err x = none) :
    scan keep err (x :: xs) = ((if keep x then [x] else []) ++ (scan keep err xs).1, (scan keep err xs).2) := by
  simp [scan, h]

theorem scan_cons_some {x : Item} (xs : List Item) {e : Err} (h : err x = some e) :
    scan keep err (x :: xs) = ([], some e) := by
  simp [scan, h]

theorem scan_append (xs ys : List Item) :
    scan keep err (xs ++ ys) =
      if (scan keep err xs).2 = none then ((scan keep err xs).1 ++ (scan keep err ys).1, (scan keep err ys).2)
      else scan keep err xs := by
  induction xs with
  | nil => simp [scan]
  | cons x xs ih =>
    cases hx : err x with
    | some e => simp [scan, hx]
    | none =>
      simp only [List.cons_append, scan_cons_none keep err _ hx, ih]
      by_cases h2 : (scan keep err xs).2 = none
      · simp [h2]
      · simp [h2]

theorem scan_ok (xs : List Item) (h : ∀ x ∈ xs, err x = none) : scan keep err xs = (xs.filter keep, none) := by
  induction xs with
  | nil => rfl
  | cons x xs ih =>
    rw [scan_cons_none keep err _ (h x (by simp)), ih (fun y hy => h y (by simp [hy]))]
    by_cases hk : keep x <;> simp [List.filter_cons, hk]

theorem scan_err (ys zs : List Item) (x : Item) (e : Err) (h : ∀ y ∈ ys, err y = none) (hx : err x = some e) :
    scan keep err (ys ++ x :: zs) = (ys.filter keep, some e) := by
  rw [scan_append, scan_ok keep err ys h, scan_cons_some keep err _ hx]
  simp

end scan

/-! ### the condition sees only the context fields of the state -/

/-- `t` is a later state of the query that started at `s`: same context fields, more sticky flags (and
    possibly another generated-id counter); never cancelled -/
structure Rel (s t : St) : Prop where
  ctx : t.ctxEq s
  stk : StkLe s t
  bud : t.budget = none
  sbud : s.budget = none

theorem Rel.refl {s : St} (h : s.budget = none) : Rel s s := ⟨St.ctxEq.refl s, StkLe.refl s, h, h⟩

theorem Rel.setCurrent {s t : St} (h : Rel s t) (x : Item) : Rel { s with current := x } { t with current := x } := by
  obtain ⟨h1, h2, h3, h4⟩ := h
  simp [St.ctxEq] at h1
  exact ⟨by simp [St.ctxEq]; grind, h2, h3, h4⟩

/-- nodes without `.keyvalue()` -/
def kvFree : Flags := ⟨true, true, true, false⟩

theorem suf_le_kvFree : Flags.le sufFlags kvFree := by simp [Flags.le, sufFlags, kvFree]

/-- the shift from `s` to a later state `t` -/
def later (t : St) : Shift := { gen := some t.lastGenId, tp := t.panicked, tf := t.oof, tc := t.sawCancel }

theorem later_st {s t : St} (h : Rel s t) : (later t).st s = t := by
  obtain ⟨h1, ⟨k1, k2, k3⟩, h3, h4⟩ := h
  simp [St.ctxEq] at h1
  apply St.ext' <;> simp [later, Shift.st, h1, h3, h4]
  · cases hs : s.sawCancel <;> simp_all
  · cases hs : s.panicked <;> simp_all
  · cases hs : s.oof <;> simp_all

theorem later_flags (t : St) : (later t).flags none = kvFree := rfl

/-- **the evaluation of a condition without `.keyvalue()` from a later state of the query is the evaluation
    from the state `s`** (same outcome, same error); it leaves a later state again -/
theorem xBool_rel (c : Ctx) (C : Node) (hC : Indep kvFree C = true) {s t : St} (hr : Rel s t) (k K : Nat)
    (hk : k ≤ K) (v : Item) (b : Bool) (ho : (xBool c k t C v b).st.oof = false) :
    (xBool c k t C v b).out = (xBool c K s C v b).out ∧ (xBool c k t C v b).err = (xBool c K s C v b).err ∧
      Rel s (xBool c k t C v b).st ∧ (xBool c K s C v b).st.oof = false := by
  have hfr := xBool_frame none c k (later t) s C v b (by rw [later_flags]; exact hC)
  rw [later_st hr, show xBool (setRoot none c) k = xBool c k from rfl] at hfr
  have hok : (xBool c k s C v b).st.oof = false := by
    rw [hfr] at ho
    simp only [Shift.pres_st, Shift.st_oof, Bool.or_eq_false_iff] at ho
    exact ho.1
  have hm := Exec.Fuel.xBool_mono c k K hk s C v b hok
  have hg := xBool_good c k t C v b
  have hbud := xBool_bud c k t C v b hr.bud
  refine ⟨by rw [hfr, hm]; rfl, by rw [hfr, hm]; rfl, ⟨hg.ctx.trans hr.ctx, ?_, hbud, hr.sbud⟩, by rw [hm]; exact hok⟩
  refine hr.stk.trans ?_
  rw [hfr]
  refine ⟨fun h => ?_, fun h => ?_, fun h => ?_⟩ <;> simp [later, h]

/-! ### one filter step -/

theorem filter_res (c : Ctx) (item : ItemK) (bool : BoolK) (any : AnyK) (t : St) (n C : Node) (x : Item)
    (l : List Item) (u : Bool) (hx : x.isArr = false ∨ u = false) :
    execUnaryNode c item bool any t n .filter (some C) none x (some l) u =
      if (bool { t with current := x } C x false).err.isSome then
        ⟨{ (bool { t with current := x } C x false).st with current := t.current }, some l, .failed,
          (bool { t with current := x } C x false).err⟩
      else if (bool { t with current := x } C x false).out ≠ .t then
        ⟨{ (bool { t with current := x } C x false).st with current := t.current }, some l, .notFound, none⟩
      else ⟨{ (bool { t with current := x } C x false).st with current := t.current }, some (l ++ [x]), .ok, none⟩ := by
  rw [C10.filter_cases c item bool any t n C none x (some l) u hx]
  rfl

section step
variable (c : Ctx) (C : Node) (s : St) (K : Nat)

/-- `r` is the result of filtering the items `ys`, started with the result list `l` -/
structure Scanned (l ys : List Item) (r : Res) : Prop where
  rel : Rel s r.st
  found : r.found = some (l ++ (scan (holds c K s C) (condErr c K s C) ys).1)
  err : r.err = (scan (holds c K s C) (condErr c K s C) ys).2
  failed : r.status = .failed ↔ (scan (holds c K s C) (condErr c K s C) ys).2 ≠ none
  fin : (scan (holds c K s C) (condErr c K s C) ys).2 = none → ∀ x ∈ ys, (condRun c K s C x).st.oof = false

variable {c C s K}

theorem filter_step (hC : Indep kvFree C = true) {t : St} (hr : Rel s t) (fuel : Nat) (hk : fuel ≤ K) (x : Item)
    (l : List Item) (u : Bool) (hx : x.isArr = false ∨ u = false)
    (ho : (xItem c fuel t (filterNode C) x (some l) u).st.oof = false) :
    Scanned c C s K l [x] (xItem c fuel t (filterNode C) x (some l) u) := by
  cases fuel with
  | zero => simp [xItem] at ho
  | succ k =>
    simp only [xItem] at ho ⊢
    rw [poll_of_budget_none hr.bud] at ho ⊢
    simp only [dispatch, filterNode] at ho ⊢
    rw [filter_res c _ _ _ t _ C x l u hx] at ho ⊢
    have hoq : (xBool c k { t with current := x } C x false).st.oof = false := by
      split at ho
      · exact ho
      · split at ho <;> exact ho
    obtain ⟨h1, h2, h3, h4⟩ := xBool_rel c C hC (hr.setCurrent x) k K (by omega) x false hoq
    have h3' : Rel s { (xBool c k { t with current := x } C x false).st with current := t.current } := by
      obtain ⟨a1, a2, a3, a4⟩ := h3
      have hc := hr.ctx
      simp [St.ctxEq] at a1 hc
      exact ⟨by simp [St.ctxEq]; grind, a2, a3, hr.sbud⟩
    have hE : condErr c K s C x = (xBool c k { t with current := x } C x false).err := h2.symm
    have hH : holds c K s C x = decide ((xBool c k { t with current := x } C x false).out = .t) := by
      simp only [holds, condRun, h1]
    have hF : (condRun c K s C x).st.oof = false := h4
    generalize xBool c k { t with current := x } C x false = q at *
    obtain ⟨qs, qo, qe⟩ := q
    simp only at hE hH h3' ⊢
    cases qe with
    | some e =>
      simp only [Option.isSome_some, if_true]
      exact ⟨h3', by simp [scan, hE], by simp [scan, hE], by simp [scan, hE], by simp [scan, hE]⟩
    | none =>
      simp only [Option.isSome_none, Bool.false_eq_true, if_false]
      by_cases ht : qo = .t
      · simp only [ht, ne_eq, not_true_eq_false, if_false]
        have hH' : holds c K s C x = true := by rw [hH]; simp [ht]
        exact ⟨h3', by simp [scan, hE, hH'], by simp [scan, hE], by simp [scan, hE],
          fun _ y hy => by simp at hy; rw [hy]; exact hF⟩
      · simp only [ne_eq, ht, not_false_eq_true, if_true]
        have hH' : holds c K s C x = false := by rw [hH]; simp [ht]
        exact ⟨h3', by simp [scan, hE, hH'], by simp [scan, hE], by simp [scan, hE],
          fun _ y hy => by simp at hy; rw [hy]; exact hF⟩

end step

end Aux

end C10b
end Sqljson
