import Sqljson.Model.Exec
/-!
# C11 — Boolean connectives follow three-valued (Kleene) logic

Theorems are about `executeBinaryBoolItem` / `executeUnaryBoolItem` (the mirror of
`exec/boolean.go`) for **every** operand evaluator `bool` (the recursive call), so they hold for
all operand conditions over all documents: the truth tables arise from case analysis on the
operands' outcomes, not from a sample.

`Operand bool s n v p s'` abbreviates "evaluating operand `n` from state `s` gives outcome `p`
with no error and leaves state `s'`".
-/

namespace Sqljson
namespace C11
open Exec

/-- Kleene conjunction, disjunction, negation on `Pred` -/
def kand : Pred → Pred → Pred
  | .f, _ => .f
  | _, .f => .f
  | .t, .t => .t
  | _, _ => .unknown

def kor : Pred → Pred → Pred
  | .t, _ => .t
  | _, .t => .t
  | .f, .f => .f
  | _, _ => .unknown

def knot : Pred → Pred
  | .t => .f
  | .f => .t
  | .unknown => .unknown

/-- `&&` on error-free operands is Kleene conjunction, whatever the operands are.
    (The right operand is evaluated from the state the left one leaves.) -/
theorem and_table (c : Ctx) (item : ItemK) (bool : BoolK) (s s1 s2 : St) (l r : Node) (v : Item)
    (a b : Pred)
    (hl : bool s l v false = ⟨s1, a, none⟩) (hr : bool s1 r v false = ⟨s2, b, none⟩) :
    (executeBinaryBoolItem c item bool s .and (some l) (some r) v).out = kand a b ∧
    (executeBinaryBoolItem c item bool s .and (some l) (some r) v).err = none := by
  unfold executeBinaryBoolItem
  simp only [hl, hr]
  cases a <;> cases b <;> simp [kand]

theorem or_table (c : Ctx) (item : ItemK) (bool : BoolK) (s s1 s2 : St) (l r : Node) (v : Item)
    (a b : Pred)
    (hl : bool s l v false = ⟨s1, a, none⟩) (hr : bool s1 r v false = ⟨s2, b, none⟩) :
    (executeBinaryBoolItem c item bool s .or (some l) (some r) v).out = kor a b ∧
    (executeBinaryBoolItem c item bool s .or (some l) (some r) v).err = none := by
  unfold executeBinaryBoolItem
  simp only [hl, hr]
  cases a <;> cases b <;> simp [kor]

theorem not_table (c : Ctx) (item : ItemK) (bool : BoolK) (s s1 : St) (x : Node) (v : Item) (a : Pred)
    (hx : bool s x v false = ⟨s1, a, none⟩) :
    (executeUnaryBoolItem c item bool s .not (some x) v).out = knot a ∧
    (executeUnaryBoolItem c item bool s .not (some x) v).err = none := by
  unfold executeUnaryBoolItem
  simp only [hx]
  cases a <;> simp [knot]

/-- `(p) is unknown` is true exactly when `p` is unknown, and is never itself unknown — for every
    operand outcome, with or without an error other than a cancellation. -/
theorem is_unknown_two_valued (c : Ctx) (item : ItemK) (bool : BoolK) (s s1 : St) (x : Node) (v : Item)
    (a : Pred) (e : Option Err) (he : e ≠ some .cancelled)
    (hx : bool s x v false = ⟨s1, a, e⟩) :
    (executeUnaryBoolItem c item bool s .isUnknown (some x) v).out = predFrom (a = .unknown) ∧
    (executeUnaryBoolItem c item bool s .isUnknown (some x) v).out ≠ .unknown ∧
    (executeUnaryBoolItem c item bool s .isUnknown (some x) v).err = none := by
  unfold executeUnaryBoolItem
  simp only [hx]
  simp [he]
  cases a <;> simp [predFrom]

/-- a cancellation inside the operand of `is unknown` is passed on, never answered -/
theorem is_unknown_cancelled (c : Ctx) (item : ItemK) (bool : BoolK) (s s1 : St) (x : Node) (v : Item)
    (a : Pred) (hx : bool s x v false = ⟨s1, a, some .cancelled⟩) :
    (executeUnaryBoolItem c item bool s .isUnknown (some x) v).out = .unknown ∧
    (executeUnaryBoolItem c item bool s .isUnknown (some x) v).err = some .cancelled := by
  unfold executeUnaryBoolItem
  simp [hx]

/-! ### algebraic laws of the tables (for all operand values) -/

theorem kand_comm (a b : Pred) : kand a b = kand b a := by cases a <;> cases b <;> rfl
theorem kor_comm (a b : Pred) : kor a b = kor b a := by cases a <;> cases b <;> rfl
theorem knot_knot (a : Pred) : knot (knot a) = a := by cases a <;> rfl
theorem de_morgan_and (a b : Pred) : knot (kand a b) = kor (knot a) (knot b) := by
  cases a <;> cases b <;> rfl
theorem de_morgan_or (a b : Pred) : knot (kor a b) = kand (knot a) (knot b) := by
  cases a <;> cases b <;> rfl

/-- `&&` is commutative in value: evaluating `q && p` gives the value of `p && q` whenever the
    two operand evaluations are error-free and do not depend on the order (which the
    state-restoration theorem `Inv.bool_ctx` supplies: an operand leaves the context as it found it). -/
theorem and_comm_value (c : Ctx) (item : ItemK) (bool : BoolK) (s : St) (p q : Node) (v : Item)
    (a b : Pred) (hp : ∀ s', bool s' p v false = ⟨s', a, none⟩) (hq : ∀ s', bool s' q v false = ⟨s', b, none⟩) :
    (executeBinaryBoolItem c item bool s .and (some p) (some q) v).out =
    (executeBinaryBoolItem c item bool s .and (some q) (some p) v).out := by
  rw [(and_table c item bool s s s p q v a b (hp s) (hq s)).1,
      (and_table c item bool s s s q p v b a (hq s) (hp s)).1, kand_comm]

theorem or_comm_value (c : Ctx) (item : ItemK) (bool : BoolK) (s : St) (p q : Node) (v : Item)
    (a b : Pred) (hp : ∀ s', bool s' p v false = ⟨s', a, none⟩) (hq : ∀ s', bool s' q v false = ⟨s', b, none⟩) :
    (executeBinaryBoolItem c item bool s .or (some p) (some q) v).out =
    (executeBinaryBoolItem c item bool s .or (some q) (some p) v).out := by
  rw [(or_table c item bool s s s p q v a b (hp s) (hq s)).1,
      (or_table c item bool s s s q p v b a (hq s) (hp s)).1, kor_comm]

/-- a non-suppressible error in the left operand of `&&`/`||` is the outcome (with `unknown`) -/
theorem and_left_error (c : Ctx) (item : ItemK) (bool : BoolK) (s s1 : St) (l r : Node) (v : Item)
    (a : Pred) (e : Err) (hl : bool s l v false = ⟨s1, a, some e⟩) :
    executeBinaryBoolItem c item bool s .and (some l) (some r) v = ⟨s1, a, some e⟩ := by
  unfold executeBinaryBoolItem
  simp [hl]

theorem or_left_error (c : Ctx) (item : ItemK) (bool : BoolK) (s s1 : St) (l r : Node) (v : Item)
    (a : Pred) (e : Err) (hl : bool s l v false = ⟨s1, a, some e⟩) :
    executeBinaryBoolItem c item bool s .or (some l) (some r) v = ⟨s1, a, some e⟩ := by
  unfold executeBinaryBoolItem
  simp [hl]

/-- `exists(e)`, lax: true / false by whether the operand finds an item, unknown exactly when it
    fails (in probe mode, error suppressed). -/
theorem exists_lax (c : Ctx) (item : ItemK) (bool : BoolK) (s : St) (x : Node) (v : Item)
    (hlax : c.lax = true) :
    let r := optUnwrapResultSilent c item s x v false none
    (executeUnaryBoolItem c item bool s .exists (some x) v).out =
      (if r.status = .failed then .unknown else if r.status = .ok then .t else .f) := by
  unfold executeUnaryBoolItem
  simp only [hlax]
  simp
  split
  · rfl
  · split <;> rfl

/-- `exists(e)`, strict: decided by the complete result list -/
theorem exists_strict (c : Ctx) (item : ItemK) (bool : BoolK) (s : St) (x : Node) (v : Item)
    (hstrict : c.lax = false) :
    let r := optUnwrapResultSilent c item s x v false (some [])
    (executeUnaryBoolItem c item bool s .exists (some x) v).out =
      (if r.status = .failed then .unknown else if (r.found.getD []).isEmpty then .f else .t) := by
  unfold executeUnaryBoolItem
  simp only [hstrict]
  simp
  split
  · rfl
  · split <;> rfl

/-- top level: a predicate check expression yields exactly one item — `true`, `false` or `null` -/
theorem top_level (c : Ctx) (item : ItemK) (l : List Item) (p : PRes) (h : p.err = none) :
    appendBoolResult c item none (some l) p =
      ⟨p.st, some (l ++ [predItem p.out]), .ok, none⟩ := by
  unfold appendBoolResult
  simp [h, executeNextItem, Found.append]

/-- non-vacuity: the hypotheses of the tables are satisfiable (a constant operand evaluator) -/
example : ∃ (bool : BoolK) (s : St) (l r : Node) (v : Item),
    bool s l v false = ⟨s, .t, none⟩ ∧ bool s r v false = ⟨s, .unknown, none⟩ :=
  ⟨fun s n _ _ => match n with | .const .true_ _ => ⟨s, .t, none⟩ | _ => ⟨s, .unknown, none⟩,
   default, .const .true_ none, .const .null none, .null, rfl, rfl⟩

end C11
end Sqljson
