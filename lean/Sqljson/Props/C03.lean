import Sqljson.Props.ParseLemmas
/-!
# C03 — every permitted spelling of a path parses to the tree the grammar assigns it

Proved (general, token level):
* `string_value_independent_of_what_follows` — the value of a string token written with the
  escapes of `ast.quote` (`\" \\ \b \f \n \r \t \v \xNN \uNNNN \u{N…}`) is the string that was
  written, whatever follows the closing quote.
* `integer_value_independent_of_what_follows` — a decimal integer literal is `INT_P` with exactly
  its digits as text, for every rune after it that does not continue a number.
* `number_token_starts_with_digit_or_dot` — the text of every `INT_P` / `NUMERIC_P` token starts
  with a digit or a dot (never with a sign).
* `operator_tokens` — the operator tables of the parser invert the spellings (`==`, `!=`, `<`, …,
  `+ - * / %`), `<>` and `!=` are the same token.

Proved (concrete evaluations, repaired defects):
* `trailing_escape_keeps_text` (91b1b26), `any_level_spellings` (a381b50),
  `out_of_range_escape_rejected` (148e980), `private_use_runes_rejected` (daa0e70).

Known finding (not a defect of the grammar, kept as observation):
* `keywords_fold_case_through_unicode` — keywords are matched through `strings.ToLower` after
  escape decoding, so `\u212Aeyvalue` (KELVIN SIGN) is the keyword `keyvalue`.  Stated for an
  oracle instance whose `toLower` maps U+212A to `k`, as Go's does.

Not proved:
* that every spelling of every path parses to the same tree (whitespace / comments / keyword case
  / redundant parentheses / all number forms): covered by the `valid` generator of the
  correspondence stream (random spellings of ≈180 000 paths per run, 0 disagreements with Go),
  not by a theorem;
* precedence and associativity as a general statement about `parse` (the parser mirrors the LALR
  automaton state by state; the exhaustive enumeration of token sequences up to length 4 checks it).
-/

namespace Sqljson
namespace C03
open Parse Lex ParseLemmas

theorem string_value_independent_of_what_follows (o : Oracles) (hq : o.xidStart '"' = false)
    (hnl : o.isPrint '\n' = false) (s : List Char) (hs : ∀ c ∈ s, c.toNat ≠ 0)
    (st : LState) (tail : List Src) (hch : st.ch = none)
    (h : st.rest = (Print.quote o.isPrint s).map Src.ch ++ tail) :
    (Lex.lex o st).1 = .string ∧ (Lex.lex o st).2.1 = s :=
  lex_quote o hq hnl s hs st tail hch h

theorem integer_value_independent_of_what_follows (o : Oracles) (d : Char) (ds : List Char)
    (hd : ∀ c ∈ d :: ds, isDecimal c = true) (hz : d = '0' → ds = []) (hx : o.xidStart d = false)
    (st : LState) (tail : List Src) (hch : st.ch = none) (hrest : st.rest = (d :: ds).map Src.ch ++ tail)
    (y : Option Char) (s' : LState) (hfin : next { st with rest := tail } = (y, s')) (hy : EndsNumber o y) :
    (Lex.lex o st).1 = .int ∧ (Lex.lex o st).2.1 = d :: ds :=
  lex_int o d ds hd hz hx st tail hch hrest y s' hfin hy

theorem number_token_starts_with_digit_or_dot (o : Oracles) (s : LState)
    (h : (Lex.lex o s).1 = .int ∨ (Lex.lex o s).1 = .numeric) : NumHead (Lex.lex o s).2.1 := by
  apply lex_num
  simp only [isNum, Bool.or_eq_true, decide_eq_true_eq]
  exact h

/-- the parser's operator tables invert the printed spellings; `<>` is `!=` -/
theorem operator_tokens :
    (∀ op, Print.binPriority op = 2 → op ≠ .startsWith → (tokOfBin op).bind compOp = some op) ∧
    (∀ op, Print.binPriority op = 3 → (tokOfBin op).bind addOp = some op) ∧
    (∀ op, Print.binPriority op = 4 → (tokOfBin op).bind mulOp = some op) ∧
    firstTok "<> ".toList = .notEq ∧ firstTok "!= ".toList = .notEq :=
  ⟨compOp_inverse, addOp_inverse, mulOp_inverse, by decide +kernel, by decide +kernel⟩

/-! ## repaired defects, concretely -/

theorem trailing_escape_keeps_text :
    run "$.a\\x41" = "$.\"aA\"" ∧ run "$.a\\x41 " = "$.\"aA\"" ∧ run "$.\\1" = "$.\"1\"" :=
  ParseLemmas.trailing_escape_keeps_text

theorem any_level_spellings :
    run "$.**{0x2}" = "$.**{2}" ∧ run "$.**{1_0}" = "$.**{10}" ∧ run "$.**{0b11 to 0o17}" = "$.**{3 to 15}" ∧
    run "$.**{2147483647}" = "$.**{2147483647}" ∧ run "$.**{2147483648}" = "ERR" ∧
    run "$.**{99999999999999999999}" = "ERR" := ParseLemmas.any_level_spellings

theorem out_of_range_escape_rejected :
    run "\"\\u{110000}\"" = "ERR" ∧ run "\"\\u{ffffff}\"" = "ERR" ∧
    run "\"\\u{10ffff}\"" = "\"\\u{10ffff}\"" := ParseLemmas.out_of_range_escape_rejected

theorem private_use_runes_rejected :
    outcome (parse asciiOracles (ascii "$[1 " ++ [0xEE, 0x80, 0x82] ++ ascii " 2]")) = "ERR" ∧
    outcome (parse asciiOracles [0xEE, 0x80, 0x8C]) = "ERR" ∧
    outcome (parse asciiOracles (ascii "$ " ++ [0xEE, 0x80, 0x91] ++ ascii " 1")) = "ERR" :=
  ParseLemmas.private_use_runes_rejected

/-! ## observation -/

/-- the ASCII oracles, with `toLower` extended by U+212A ↦ `k` as `unicode.ToLower` does -/
def kelvinOracles : Oracles :=
  { asciiOracles with
    xidStart := fun c => asciiOracles.xidStart c || c.toNat == 0x212A
    xidContinue := fun c => asciiOracles.xidContinue c || c.toNat == 0x212A
    toLower := fun c => if c.toNat = 0x212A then 'k' else asciiOracles.toLower c }

/-- keywords are matched through `strings.ToLower`: `$.\u212Aeyvalue()` is `$.keyvalue()` -/
theorem keywords_fold_case_through_unicode :
    (match parse kelvinOracles (ascii "$." ++ [0xE2, 0x84, 0xAA] ++ ascii "eyvalue()") with
      | .ok a => Print.toString kelvinOracles.isPrint a
      | _ => none) = some "$.keyvalue()".toList := by
  decide +kernel

end C03
end Sqljson
