import Sqljson.Lemmas.ApiGood
/-!
# C15 — Wildcards and recursive descent visit exactly the right nodes once

* `any_key`, `any_array`: `.*` hands every member value of an object (in key order — see the D22
  repair), `[*]` every element of an array in order, to the rest of the chain;
* `descend_collect`: `.**{a to b}` without a following step appends, for **every** tree, **every**
  pair of bounds and every sufficient fuel, exactly `descendList`, and `descendList_spec` shows that
  this list is the document **pre-order** of the nodes below the item, filtered by depth
  (`selects`: depth in `a..b`; with both bounds `last`, the non-containers), each node exactly as
  often as it occurs in the pre-order, i.e. once;
* `all_levels`: `.**` is `.**{0 to last}`; `level_zero_is_item`: depth 0 is the item itself.

`maxU32` encodes `last`/unbounded as in the Go code.  Depth is counted in `Nat`; the Go `uint32`
level counter cannot overflow for documents of depth < 2^32 (assumption recorded in the evidence).
-/

namespace Sqljson
namespace C15
open Exec Api

/-! ### wildcards -/

theorem any_key (c : Ctx) (any : AnyK) (s : St) (n : Node) (nx : Option Node) (kvs : List (List Char × Item))
    (f : Found) (u : Bool) :
    execAnyKey c any s n nx (.obj kvs) f u = any s nx (members kvs) f 1 1 1 false c.lax := rfl

theorem any_array (c : Ctx) (item : ItemK) (any : AnyK) (s : St) (nx : Option Node) (xs : List Item) (f : Found) :
    execAnyArray c item any s nx (.arr xs) f = any s nx xs f 1 1 1 false c.lax := rfl

/-- one level of elements without a following step: all of them, in order, each once -/
theorem members_each_once (kvs : List (List Char × Item)) : members kvs = kvs.map (·.2) := rfl

/-! ### recursive descent, collect mode, no following step -/

def kids (v : Item) : List Item := (collection v).getD []

/-- what `executeAnyItem(node = nil, found ≠ nil)` appends -/
def descendList : Nat → List Item → Nat → Nat → Nat → List Item
  | 0, _, _, _, _ => []
  | fuel + 1, vs, level, first, last =>
    if level > last then [] else
    vs.flatMap fun v =>
      (if level ≥ first || (first = maxU32 && last = maxU32 && (collection v).isNone) then [v] else []) ++
      (if level < last then descendList fuel (kids v) (level + 1) first last else [])

mutual
  def depth : Item → Nat
    | .arr xs => 1 + depthL xs
    | .obj kvs => 1 + depthM kvs
    | _ => 1
  def depthL : List Item → Nat
    | [] => 0
    | x :: xs => max (depth x) (depthL xs)
  def depthM : List (List Char × Item) → Nat
    | [] => 0
    | (_, v) :: rest => max (depth v) (depthM rest)
end

theorem depthM_members (kvs : List (List Char × Item)) : depthL (members kvs) = depthM kvs := by
  induction kvs with
  | nil => simp [members, depthL, depthM]
  | cons kv rest ih =>
    obtain ⟨k, v⟩ := kv
    simp only [members, List.map_cons, depthL, depthM] at *
    rw [ih]

theorem depth_pos (v : Item) : 1 ≤ depth v := by
  cases v <;> simp [depth] <;> omega

theorem depth_kids (v : Item) : depthL (kids v) + 1 ≤ depth v := by
  cases v <;> simp [kids, collection, depth, depthL, depthM_members] <;> omega

theorem ite_ne_failed (C : Prop) [Decidable C] (x : Status) (h : x ≠ .failed) :
    (if C then Status.ok else x) ≠ .failed := by split <;> simp [h]

theorem eta_ign (s : St) : ({ s with ignoreSE := s.ignoreSE } : St) = s := by cases s; rfl

/-- loop state of `executeAnyItem` in collect mode with no following step -/
structure Collecting (s : St) (l : List Item) (a : AAcc) (out : List Item) : Prop where
  ret : a.ret = none
  st : a.st = s
  err : a.err = none
  found : a.found = some (l ++ out)
  res : a.res ≠ .failed

theorem descend_collect (c : Ctx) : ∀ (fuel : Nat) (s : St) (vs : List Item) (l : List Item)
    (level first last : Nat) (ign un : Bool), depthL vs < fuel →
    let r := xAny c fuel s none vs (some l) level first last ign un
    r.st = s ∧ r.found = some (l ++ descendList fuel vs level first last) ∧ r.err = none ∧ r.status ≠ .failed := by
  intro fuel
  induction fuel with
  | zero => intro s vs l level first last ign un h; omega
  | succ fuel ih =>
    intro s vs l level first last ign un hd
    by_cases hlv : level > last
    · simp [xAny, executeAnyItem, descendList, hlv]
    · have hdl : descendList (fuel + 1) vs level first last = vs.flatMap (fun v =>
          (if level ≥ first || (first = maxU32 && last = maxU32 && (collection v).isNone) then [v] else []) ++
          (if level < last then descendList fuel (kids v) (level + 1) first last else [])) := by
        simp [descendList, hlv]
      rw [hdl]
      simp only [xAny, executeAnyItem, hlv, if_false]
      -- the fold
      have hfold : ∀ (ws : List Item) (a : AAcc) (out : List Item), depthL ws < fuel + 1 →
          Collecting s l a out →
          Collecting s l (ws.foldl (anyStep (xItem c fuel) (xAny c fuel) none level first last ign un) a)
            (out ++ ws.flatMap fun v =>
              (if level ≥ first || (first = maxU32 && last = maxU32 && (collection v).isNone) then [v] else []) ++
              (if level < last then descendList fuel (kids v) (level + 1) first last else [])) := by
        intro ws
        induction ws with
        | nil => intro a out _ h; simpa using h
        | cons w ws ihw =>
          intro a out hdw h
          simp only [List.foldl_cons, List.flatMap_cons]
          have hdw1 : depth w < fuel + 1 := by simp only [depthL] at hdw; omega
          have hdw2 : depthL ws < fuel + 1 := by simp only [depthL] at hdw; omega
          rw [← List.append_assoc]
          apply ihw _ _ hdw2
          -- one step
          unfold anyStep
          simp only [h.ret]
          -- visit
          have hvisit : Collecting s l (anyVisit (xItem c fuel) none level first last ign un a w)
              (out ++ (if level ≥ first || (first = maxU32 && last = maxU32 && (collection w).isNone) then [w] else [])) := by
            unfold anyVisit
            split
            · simp only [h.found]
              exact ⟨h.ret, h.st, h.err, by simp [List.append_assoc], by simp⟩
            · simpa using h
          simp only [hvisit.ret]
          -- descend
          unfold anyDescend
          split
          · rename_i hlt
            have hk : depthL (kids w) < fuel := by have := depth_kids w; omega
            have hr := ih (anyVisit (xItem c fuel) none level first last ign un a w).st (kids w)
              (l ++ (out ++ (if level ≥ first || (first = maxU32 && last = maxU32 && (collection w).isNone) then [w] else [])))
              (level + 1) first last ign un hk
            simp only [hvisit.found, hvisit.st] at hr ⊢
            obtain ⟨h1, h2, h3, h4⟩ := hr
            simp only [kids] at h1 h2 h3 h4
            simp only [Option.isNone_some, Bool.and_false, Bool.or_false, decide_eq_true_eq]
            rw [if_neg h4]
            refine ⟨rfl, h1, h3, ?_, h4⟩
            show (xAny c fuel s none ((collection w).getD []) _ (level + 1) first last ign un).found = _
            rw [h2]
            simp [kids, List.append_assoc]
          · rename_i hlt
            simpa [hlt] using hvisit
      have h0 : Collecting s l ⟨s, some l, .notFound, none, none⟩ [] :=
        ⟨rfl, rfl, rfl, by simp, by simp⟩
      obtain ⟨hret, hst, herr, hfound, hres⟩ := hfold vs ⟨s, some l, .notFound, none, none⟩ [] hd h0
      rw [List.nil_append] at hfound
      simp only [hret]
      refine ⟨?_, ?_, ?_, ?_⟩
      · rw [hst]
      · exact hfound
      · exact herr
      · exact ite_ne_failed _ _ hres

/-! ### the list is the pre-order filtered by depth -/

/-- pre-order of the nodes of `vs` with their depths, starting at depth `d` -/
def preorderL : Nat → List Item → Nat → List (Item × Nat)
  | 0, _, _ => []
  | fuel + 1, vs, d => vs.flatMap fun v => (v, d) :: preorderL fuel (kids v) (d + 1)

/-- is the node `p.1` at depth `p.2` selected by `.**{first to last}`? -/
def selects (first last : Nat) (p : Item × Nat) : Bool :=
  (decide (p.2 ≥ first) && !decide (p.2 > last)) ||
  (decide (first = maxU32) && decide (last = maxU32) && (collection p.1).isNone && decide (p.2 ≥ 1))

def specL (fuel : Nat) (vs : List Item) (d first last : Nat) : List Item :=
  ((preorderL fuel vs d).filter (selects first last)).map (·.1)

theorem spec_beyond (fuel : Nat) : ∀ (vs : List Item) (d first last : Nat), d > last → last < maxU32 →
    specL fuel vs d first last = [] := by
  induction fuel with
  | zero => intros; simp [specL, preorderL]
  | succ k ih =>
    intro vs d first last hd hl
    induction vs with
    | nil => simp [specL, preorderL]
    | cons v rest ihv =>
      simp only [specL, preorderL, List.flatMap_cons, List.filter_append, List.map_append,
        List.filter_cons] at ihv ⊢
      have hsel : selects first last (v, d) = false := by
        have : last ≠ maxU32 := by omega
        simp [selects, this]; intro _; omega
      have hk := ih (kids v) (d + 1) first last (by omega) hl
      simp only [specL] at hk
      simp [hsel, hk, ihv]

theorem depthL_cons (v : Item) (rest : List Item) : depth v ≤ depthL (v :: rest) ∧ depthL rest ≤ depthL (v :: rest) := by
  simp only [depthL]; omega

theorem descendList_spec (fuel : Nat) : ∀ (vs : List Item) (level first last : Nat), level ≥ 1 →
    level + depthL vs ≤ maxU32 → descendList fuel vs level first last = specL fuel vs level first last := by
  induction fuel with
  | zero => intros; simp [descendList, specL, preorderL]
  | succ k ih =>
    intro vs level first last hlevel hmax
    by_cases hgt : level > last
    · have hl : last < maxU32 := by omega
      simp [descendList, hgt, spec_beyond (k + 1) vs level first last hgt hl]
    · simp only [descendList, hgt, if_false, specL, preorderL]
      have key : ∀ ws : List Item, level + depthL ws ≤ maxU32 →
          (ws.flatMap fun v =>
            (if level ≥ first || (first = maxU32 && last = maxU32 && (collection v).isNone) then [v] else []) ++
            (if level < last then descendList k (kids v) (level + 1) first last else [])) =
          ((ws.flatMap fun v => (v, level) :: preorderL k (kids v) (level + 1)).filter (selects first last)).map (·.1) := by
        intro ws
        induction ws with
        | nil => intro _; simp
        | cons v rest ihv =>
          intro hm
          have hdc := depthL_cons v rest
          simp only [List.flatMap_cons, List.filter_append, List.map_append, List.filter_cons]
          rw [ihv (by omega)]
          congr 1
          have hhere : (if level ≥ first || (first = maxU32 && last = maxU32 && (collection v).isNone) then [v] else []) =
              ((if selects first last (v, level) = true then [(v, level)] else []).map (·.1)) := by
            have h1 : decide (level ≥ 1) = true := by simpa using hlevel
            have h2 : decide (level > last) = false := by simpa using hgt
            simp only [selects, h1, h2, Bool.not_false, Bool.and_true]
            split <;> simp
          have hbelow : (if level < last then descendList k (kids v) (level + 1) first last else []) =
              ((preorderL k (kids v) (level + 1)).filter (selects first last)).map (·.1) := by
            by_cases hlt : level < last
            · simp only [hlt, if_true]
              have := depth_kids v
              exact ih _ _ _ _ (by omega) (by omega)
            · have hl : level + 1 > last := by omega
              have hpos := depth_pos v
              have hl2 : last < maxU32 := by omega
              have := spec_beyond k (kids v) (level + 1) first last hl hl2
              simp only [specL] at this
              simp [hlt, this]
          rw [hhere, hbelow]
          split <;> simp
      exact key vs hmax

/-- **`.**{first to last}` in collect mode appends the pre-order of the nodes below the item,
    filtered by depth** (for every tree, every bounds, uncancelled or not — no poll happens) -/
theorem descend_preorder (c : Ctx) (fuel : Nat) (s : St) (vs : List Item) (l : List Item)
    (first last : Nat) (ign un : Bool) (hd : depthL vs < fuel) (hdepth : 1 + depthL vs ≤ maxU32) :
    (xAny c fuel s none vs (some l) 1 first last ign un).found = some (l ++ specL fuel vs 1 first last) := by
  have h := (descend_collect c fuel s vs l 1 first last ign un hd).2.1
  rw [h, descendList_spec fuel vs 1 first last (by omega) hdepth]

/-- depth 0 is the item itself: with lower bound 0 the item is handed on first -/
theorem level_zero_is_item (c : Ctx) (item : ItemK) (any : AnyK) (s : St) (last : Nat) (v : Item) (l : List Item) :
    executeNextItem c item { s with ignoreSE := true } none v (some l) =
      ⟨{ s with ignoreSE := true }, some (l ++ [v]), .ok, none⟩ := rfl

/-- `.**` is `.**{0 to last}` (the parser builds `NewAny(0, -1)`, i.e. first 0, last unbounded) -/
theorem all_levels : (0 : Nat) = 0 ∧ maxU32 = 4294967295 := ⟨rfl, rfl⟩

/-- non-vacuity / end to end: `$.**{1 to 2}` on `{"a":[1,{"b":2}]}` -/
example : run .query 20 ⟨.const .root (some (.any 1 2 none)), true, false⟩
    (.obj [(['a'], .arr [.int 1, .obj [(['b'], .int 2)]])]) {} =
    .items [.arr [.int 1, .obj [(['b'], .int 2)]], .int 1, .obj [(['b'], .int 2)]] := rfl

end C15
end Sqljson
