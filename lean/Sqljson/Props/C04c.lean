import Sqljson.Lemmas.UnkReject
/-!
# C04c — a character the grammar does not mention rejects the input at ANY position

C04b (`Props/C04b.lean`) characterises, token kind by token kind, what the lexer accepts, and lifts every LEXING
error to `Parse.parse` at any token position.  One class of characters is not a lexing error: a rune that can start
no token — `#`, `^`, `;`, `~`, a backquote, `'`, `:`, a control character, non-identifier Unicode — and a lone `=`,
`&` or `|` are handed to the parser as goyacc's `$unk` (`Tok.unk`), and it is the GRAMMAR that has no rule for them.
C04b proved the rejection when `$unk` is the first token (or the first after the mode); everywhere else it was
evaluated samples.  This file proves it for every position: **the grammar never shifts `$unk`** — a simulation over
all 16 functions of the parser's mutual block (`Lemmas/UnkReject.lean`: one invariant `AllHT`, by induction on the
fuel; every shift in the parser stands behind a test of the examined token that `$unk` does not pass).

Statements are about the model of `parser.Parse` (`Model/Lex.lean`, `Model/Parse.lean`), for EVERY instance `o` of
the oracles (no hypothesis unless one is named), every byte string.

## What is proved

1. `parse_rejects_unk_anywhere` / `accepted_has_no_unk_token`: if any of the successive calls of `Lex` on the input —
   the `k`-th, for any `k` — answers `$unk`, `Parse` returns an error (never a panic); an accepted input has no
   `$unk` in its token stream.
2. At a token start the lexer reaches (after `k` calls of `Lex` it stands before a separator `sep` — blanks, tabs,
   newlines, closed comments — followed by the character `c` and ANY continuation, NUL and undecodable bytes
   included): `parse_rejects_foreign_character_anywhere`, `parse_rejects_lone_operator_anywhere`,
   `parse_rejects_malformed_ident_anywhere` (a bare identifier that is not the grammar of `C04b.ident_iff`; today's
   C04b had it only as first token), `parse_rejects_private_rune_anywhere` (U+E000 … U+E032; already general in C04b,
   restated).
3. For texts: `lexer_reaches_token_start` (tokens in any layout followed by ANY NUL-free text `x`: after as many calls
   of `Lex` as there are tokens the lexer stands before `x` — so every "…_anywhere" theorem of C04b / C04c applies to
   texts), `rejects_foreign_character_after_tokens`, `rejects_lone_operator_after_tokens`,
   `rejects_malformed_ident_after_tokens`, `rejects_private_rune_after_tokens`, `rejects_token_sequence_with_unk`.
4. `accepted_token_starts_are_language_characters`: in an accepted input the first character of EVERY token belongs
   to the explicit set `StartsToken` — `_`, backslash, `xid.Start`; `0`–`9`; `"`; `$`; `/`; `.`; `= > < ! & | *`;
   `( ) [ ] { } , ? @ + - %` —, is no private-use rune U+E000 … U+E032 (unless the oracle calls it an identifier
   start; `xid.Start` does not), and `=`, `&`, `|` come doubled.
5. `example`s derived from the theorems (not evaluated): `$.a # 1`, `$ ? (@ = 1)`, `$.a ; $.b`, `$[1 ^ 2]`,
   `$.a ~ "x"`, `$ ? (@.a & @.b)`, `$.a \x4`; two `decide +kernel` cross-checks on the ASCII instance.

## Not proved here

* The full form of (4): "every character of an accepted source OUTSIDE string literals, quoted names, comments and
  escapes is a token-start character or continues a token (identifier characters `_` / `xid.Continue`; inside a
  number `0-9 a-f A-F _ . x X o O b B e E + -`; the second character of `== >= <= <> != && || **`)".  It needs a
  segmentation theorem (every source position is inside exactly one token or separator, with the extent of each
  token), which the iff-theorems of C04b give token by token (`number_token_iff`, `ident_iff`, `string_literal_iff`,
  `comment_loop_exact`) but which is not assembled.  (4) is the statement for the FIRST character of every token;
  the characters inside a token are, by those theorems, exactly the ones listed.
* The text-level theorems take the continuation after the offending character as a NUL-free `List Char`
  (the `…_anywhere` forms take an arbitrary `List Src`).
-/

namespace Sqljson
namespace C04c
open Parse Lex ParseLemmas Layout RoundTrip LexReject LexReject.Misc UnkReject

/-! ## (1) `$unk` anywhere in the token stream -/

/-- **The grammar never shifts `$unk`.**  `lexIter o k (LState.init bytes)` is the lexer state after `k` calls of
    `Lex` on the input `bytes`.  If the next call — for ANY `k` — answers the token `$unk` (a rune the grammar does
    not mention: `#`, `^`, `;`, `~`, backquote, `'`, a lone `=`, `&`, `|`, a control character, non-identifier
    Unicode; see `C04b.unk_iff`), then `Parse` returns an error.  No hypothesis on the oracles; NUL and undecodable
    bytes may occur anywhere. -/
theorem parse_rejects_unk_anywhere (o : Oracles) (bytes : List UInt8) (k : Nat)
    (h : (Lex.lex o (lexIter o k (LState.init bytes))).1 = .unk) : parse o bytes = .err :=
  parse_err_of_unk_token o bytes k h

/-- … and it is an error, not a panic, and not an accepted path -/
theorem parse_rejects_unk_anywhere' (o : Oracles) (bytes : List UInt8) (k : Nat)
    (h : (Lex.lex o (lexIter o k (LState.init bytes))).1 = .unk) :
    parse o bytes ≠ .panic ∧ ∀ a, parse o bytes ≠ .ok a := by
  rw [parse_err_of_unk_token o bytes k h]
  exact ⟨fun hh => (by cases hh), fun a hh => (by cases hh)⟩

/-- **an accepted input has no `$unk` anywhere in its token stream**: none of the successive calls of `Lex` on the
    input, however many, answers `$unk` -/
theorem accepted_has_no_unk_token (o : Oracles) (bytes : List UInt8) (a : AST) (h : parse o bytes = .ok a) :
    ∀ k, (Lex.lex o (lexIter o k (LState.init bytes))).1 ≠ .unk :=
  parse_ok_no_unk o bytes a h

/-! ## (2) At any token start the lexer reaches

`Standing s Y` (C04b): between two calls of `Lex` the lexer state `s` stands before the source `Y`.  The hypothesis
`o.xidStart '/' = false` (true of `xid.Start`; part of `OrOK`) lets `Lex` skip comments. -/

/-- **a character that cannot start a token** — not white space, not in `StartsToken o` (identifier start, digit,
    `"`, `$`, `/`, `.`, `= > < ! & | *`, `( ) [ ] { } , ? @ + - %`), no private-use token rune — **at ANY token start
    the lexer reaches rejects the input**, whatever follows it -/
theorem parse_rejects_foreign_character_anywhere (o : Oracles) (hx : o.xidStart '/' = false) (bytes : List UInt8)
    (k : Nat) {sep : List Char} (hs : Sep sep) (c : Char) (hc : c.toNat ≠ 0) (hws : isWhitespace c = false)
    (hn : ¬ StartsToken o c) (hp : isPrivateTokenRune c = false) (X : List Src)
    (hst : Standing (lexIter o k (LState.init bytes)) (chs sep ++ .ch c :: X)) : parse o bytes = .err :=
  parse_err_of_other_char_at o hx bytes k hs c hc hws hn hp X hst

/-- **a lone `=`, `&` or `|`** (not followed by the same character) **at ANY token start the lexer reaches rejects
    the input** -/
theorem parse_rejects_lone_operator_anywhere (o : Oracles) (hx : o.xidStart '/' = false) (bytes : List UInt8)
    (k : Nat) {sep : List Char} (hs : Sep sep) (c : Char) (hc : c = '=' ∨ c = '&' ∨ c = '|')
    (hid : o.xidStart c = false) (X : List Src) (hX : peekR X ≠ some c)
    (hst : Standing (lexIter o k (LState.init bytes)) (chs sep ++ .ch c :: X)) : parse o bytes = .err :=
  parse_err_of_lone_op_at o hx bytes k hs c hc hid X hX hst

/-- **a malformed bare identifier at ANY token start the lexer reaches rejects the input**: `c` is an identifier
    start (`_`, backslash, `xid.Start`) and the source after it is NOT identifier characters and well-formed escapes
    up to the end of the input or a clean character that does not continue an identifier (the grammar of
    `C04b.ident_iff`: a malformed escape, or NUL / an undecodable byte directly after the identifier) -/
theorem parse_rejects_malformed_ident_anywhere (o : Oracles) (hx : o.xidStart '/' = false) (bytes : List UInt8)
    (k : Nat) {sep : List Char} (hs : Sep sep) (c : Char) (hidst : isIdentStart o (some c) = true)
    (hcw : isWhitespace c = false) (hc0 : c.toNat ≠ 0) (X : List Src)
    (hst : Standing (lexIter o k (LState.init bytes)) (chs sep ++ .ch c :: X))
    (hbad : ¬ ∃ w text Y, X = chs w ++ Y ∧ Str.IdSpell o c w text ∧ Str.IdEnd o Y) : parse o bytes = .err :=
  parse_err_bad_ident_at o hx bytes k hs c hidst hcw hc0 X hst hbad

/-- **a private-use rune U+E000 … U+E032 at ANY token start the lexer reaches rejects the input**
    (`C04b.private_rune_anywhere_rejects`, restated) -/
theorem parse_rejects_private_rune_anywhere (o : Oracles) (hx : o.xidStart '/' = false) (bytes : List UInt8)
    (k : Nat) {sep : List Char} (hs : Sep sep) (c : Char) (hp : isPrivateTokenRune c = true)
    (hid : o.xidStart c = false) (X : List Src)
    (hst : Standing (lexIter o k (LState.init bytes)) (chs sep ++ .ch c :: X)) : parse o bytes = .err :=
  parse_err_of_private_char_at o hx bytes k hs c hp hid X hst

/-! ## (3) Texts

`Layout.Item`: a token spelling with the token it lexes to and the condition on the character after it (`ItemOK`,
C03b); `render items seps`: the spellings, each preceded by its separator; `GapsR items seps x`: every token is
followed, in the rendered text continued by `x`, by a character it tolerates. -/

/-- **the lexer reaches the token start after a token sequence**: tokens in any layout followed by ANY NUL-free
    text `x` — after as many calls of `Lex` as there are tokens, the lexer stands before `x` -/
theorem lexer_reaches_token_start (o : Oracles) (ok : RoundTrip.OrOK o) (items : List Layout.Item)
    (hok : ∀ it ∈ items, ItemOK o it) (seps : List (List Char)) (hl : seps.length = items.length)
    (hs : ∀ s ∈ seps, Sep s) (x : List Char) (hx : NoNul x) (hg : GapsR items seps x) :
    Standing (lexIter o items.length (LState.init (utf8 (render items seps ++ x)))) (chs x) :=
  standing_after_items o ok items hok seps hl hs x hx hg

/-- **tokens, a separator, a character that cannot start a token, then ANY text: rejected** -/
theorem rejects_foreign_character_after_tokens (o : Oracles) (ok : RoundTrip.OrOK o) (items : List Layout.Item)
    (hok : ∀ it ∈ items, ItemOK o it) (seps : List (List Char)) (hl : seps.length = items.length)
    (hs : ∀ s ∈ seps, Sep s) {sep : List Char} (hsep : Sep sep) (c : Char) (hc : c.toNat ≠ 0)
    (hws : isWhitespace c = false) (hn : ¬ StartsToken o c) (hp : isPrivateTokenRune c = false)
    (rest : List Char) (hr : NoNul rest) (hg : GapsR items seps (sep ++ c :: rest)) :
    parse o (utf8 (render items seps ++ (sep ++ c :: rest))) = .err :=
  parse_err_of_other_char_after_tokens o ok items hok seps hl hs hsep c hc hws hn hp rest hr hg

/-- **tokens, a separator, a lone `=`, `&` or `|`, then ANY text not starting with the same character: rejected** -/
theorem rejects_lone_operator_after_tokens (o : Oracles) (ok : RoundTrip.OrOK o) (items : List Layout.Item)
    (hok : ∀ it ∈ items, ItemOK o it) (seps : List (List Char)) (hl : seps.length = items.length)
    (hs : ∀ s ∈ seps, Sep s) {sep : List Char} (hsep : Sep sep) (c : Char) (hc : c = '=' ∨ c = '&' ∨ c = '|')
    (rest : List Char) (hr : NoNul rest) (hX : rest.head? ≠ some c) (hg : GapsR items seps (sep ++ c :: rest)) :
    parse o (utf8 (render items seps ++ (sep ++ c :: rest))) = .err :=
  parse_err_of_lone_op_after_tokens o ok items hok seps hl hs hsep c hc rest hr hX hg

/-- **tokens, a separator, a malformed bare identifier: rejected** -/
theorem rejects_malformed_ident_after_tokens (o : Oracles) (ok : RoundTrip.OrOK o) (items : List Layout.Item)
    (hok : ∀ it ∈ items, ItemOK o it) (seps : List (List Char)) (hl : seps.length = items.length)
    (hs : ∀ s ∈ seps, Sep s) {sep : List Char} (hsep : Sep sep) (c : Char) (hidst : isIdentStart o (some c) = true)
    (hcw : isWhitespace c = false) (hc0 : c.toNat ≠ 0) (rest : List Char) (hr : NoNul rest)
    (hbad : ¬ ∃ w text Y, chs rest = chs w ++ Y ∧ Str.IdSpell o c w text ∧ Str.IdEnd o Y)
    (hg : GapsR items seps (sep ++ c :: rest)) :
    parse o (utf8 (render items seps ++ (sep ++ c :: rest))) = .err :=
  parse_err_bad_ident_after_tokens o ok items hok seps hl hs hsep c hidst hcw hc0 rest hr hbad hg

/-- **tokens, a separator, a private-use rune U+E000 … U+E032, then ANY text: rejected** -/
theorem rejects_private_rune_after_tokens (o : Oracles) (ok : RoundTrip.OrOK o) (items : List Layout.Item)
    (hok : ∀ it ∈ items, ItemOK o it) (seps : List (List Char)) (hl : seps.length = items.length)
    (hs : ∀ s ∈ seps, Sep s) {sep : List Char} (hsep : Sep sep) (c : Char) (hp : isPrivateTokenRune c = true)
    (hid : o.xidStart c = false) (rest : List Char) (hr : NoNul rest) (hg : GapsR items seps (sep ++ c :: rest)) :
    parse o (utf8 (render items seps ++ (sep ++ c :: rest))) = .err :=
  parse_err_of_private_char_after_tokens o ok items hok seps hl hs hsep c hp hid rest hr hg

/-- **a text whose token sequence contains `$unk` is rejected** (`Layout.Lexes o l ts`: successive calls of `Lex` on
    the text `l` return exactly the tokens `ts`, then `stopTok`) -/
theorem rejects_token_sequence_with_unk (o : Oracles) (l : List Char) (ts : List TT) (hl : Layout.Lexes o l ts)
    (hu : ∃ t ∈ ts, t.1 = .unk) : parse o (utf8 l) = .err :=
  parse_err_of_lexes_unk o l ts hl hu

/-! ## (4) What an accepted input is made of -/

/-- the characters that can start a token, explicitly -/
theorem startsToken_iff (o : Oracles) (c : Char) :
    StartsToken o c ↔
      (c = '_' ∨ c = '\\' ∨ o.xidStart c = true) ∨ isDecimal c = true ∨ c = '"' ∨ c = '$' ∨ c = '/' ∨ c = '.' ∨
        c ∈ ['=', '>', '<', '!', '&', '|', '*'] ∨ c ∈ ['(', ')', '[', ']', '{', '}', ',', '?', '@', '+', '-', '%'] :=
  Iff.rfl

/-- **`accepted_uses_only_language_characters`, for the first character of every token.**  If `Parse` accepts the
    input, then at every token start the lexer reaches — after any number `k` of calls of `Lex` it stands before a
    separator `sep` followed by a character `c` that is not white space (and not NUL) — `c` belongs to the set of
    characters that can start a token (`startsToken_iff`); if `c` is a private-use rune U+E000 … U+E032 the oracle
    takes it for an identifier start (`xid.Start` does not); and a `=`, `&`, `|` is followed by the same character.
    (When `c = '/'` and `*` follows, `sep` was not the whole separator; the statement holds all the same.)
    Inside a token the characters are those of the token grammars of C04b; the assembled statement for every source
    position is not proved (see the header). -/
theorem accepted_token_starts_are_language_characters (o : Oracles) (hx : o.xidStart '/' = false)
    (bytes : List UInt8) (a : AST) (h : parse o bytes = .ok a) (k : Nat) {sep : List Char} (hs : Sep sep) (c : Char)
    (hc0 : c.toNat ≠ 0) (hws : isWhitespace c = false) (X : List Src)
    (hst : Standing (lexIter o k (LState.init bytes)) (chs sep ++ .ch c :: X)) :
    StartsToken o c ∧ (isPrivateTokenRune c = true → o.xidStart c = true) ∧
      ((c = '=' ∨ c = '&' ∨ c = '|') → o.xidStart c = false → peekR X = some c) :=
  parse_ok_token_start o hx bytes a h k hs c hc0 hws X hst

/-! ## (5) The listed forms, each from the theorems

`o` is any instance of the oracles satisfying `Layout.OrOK` and `OrUp` (ASCII letters and digits are identifier
characters, punctuation and white space are not — true of `xid.Start` / `xid.Continue`) for which the offending
character is no identifier start. -/

section examples
variable (o : Oracles) (ok : Layout.OrOK o) (up : OrUp o)
include ok up

/-- `$.a` -/
theorem items_dollar_dot_a :
    ∀ it ∈ [itDollar (o := o) false, itDot false, itIdent (o := o) false 'a' []], ItemOK o it ∧ it.C none := by
  simp only [List.forall_mem_cons, List.not_mem_nil, false_imp_iff, implies_true, and_true]
  exact ⟨itDollar_ok ok false, itDot_ok ok false, itIdent_ok ok up false 'a' [] (by decide) (by decide) (by decide)⟩

omit ok up in
theorem strict_dollar_dot_a :
    LayoutStrict [itDollar (o := o) false, itDot false, itIdent (o := o) false 'a' []] [[], [], []] :=
  ⟨Sep.nil, fun _ => Or.inl rfl, Sep.nil, fun _ => Or.inr ⟨_, rfl, (show tolOf ['$'] '.' = true by decide)⟩, Sep.nil,
    fun _ => Or.inr ⟨_, rfl, (show tolOf ['.'] 'a' = true by decide)⟩, trivial⟩

omit ok up in
/-- a sample character that cannot start a token -/
theorem not_startsToken_of (c : Char) (hid : o.xidStart c = false)
    (h : (c = '_' ∨ c = '\\') ∨ isDecimal c = true ∨ c = '"' ∨ c = '$' ∨ c = '/' ∨ c = '.' ∨ c ∈ opChars ∨ c ∈ solo → False) :
    ¬ StartsToken o c := by
  rintro ((h1 | h1 | h1) | h1)
  · exact h (Or.inl (Or.inl h1))
  · exact h (Or.inl (Or.inr h1))
  · rw [hid] at h1; exact absurd h1 (by decide)
  · exact h (Or.inr h1)

/-- `$.a # 1` -/
example (h : o.xidStart '#' = false) : parse o (utf8 "$.a # 1".toList) = .err := by
  have e : "$.a # 1".toList = ['$', '.', 'a', ' ', '#', ' ', '1'] := by decide +kernel
  rw [e]
  exact parse_err_of_other_char_strict o ok.toOrOK _ (items_dollar_dot_a o ok up) _ (strict_dollar_dot_a o)
    Sep.blank (by decide) '#' (by decide) (by decide) (not_startsToken_of o '#' h (by decide)) (by decide)
    [' ', '1'] (by decide)

/-- `$.a ; $.b` -/
example (h : o.xidStart ';' = false) : parse o (utf8 "$.a ; $.b".toList) = .err := by
  have e : "$.a ; $.b".toList = ['$', '.', 'a', ' ', ';', ' ', '$', '.', 'b'] := by decide +kernel
  rw [e]
  exact parse_err_of_other_char_strict o ok.toOrOK _ (items_dollar_dot_a o ok up) _ (strict_dollar_dot_a o)
    Sep.blank (by decide) ';' (by decide) (by decide) (not_startsToken_of o ';' h (by decide)) (by decide)
    [' ', '$', '.', 'b'] (by decide)

/-- `$.a ~ "x"` -/
example (h : o.xidStart '~' = false) : parse o (utf8 "$.a ~ \"x\"".toList) = .err := by
  have e : "$.a ~ \"x\"".toList = ['$', '.', 'a', ' ', '~', ' ', '"', 'x', '"'] := by decide +kernel
  rw [e]
  exact parse_err_of_other_char_strict o ok.toOrOK _ (items_dollar_dot_a o ok up) _ (strict_dollar_dot_a o)
    Sep.blank (by decide) '~' (by decide) (by decide) (not_startsToken_of o '~' h (by decide)) (by decide)
    [' ', '"', 'x', '"'] (by decide)

/-- `$[1 ^ 2]` -/
example (h : o.xidStart '^' = false) : parse o (utf8 "$[1 ^ 2]".toList) = .err := by
  have e : "$[1 ^ 2]".toList = ['$', '[', '1', ' ', '^', ' ', '2', ']'] := by decide +kernel
  rw [e]
  have hok : ∀ it ∈ [itDollar (o := o) false, itSolo false '[', itInt (o := o) false '1' []],
      ItemOK o it ∧ it.C none := by
    simp only [List.forall_mem_cons, List.not_mem_nil, false_imp_iff, implies_true, and_true]
    exact ⟨itDollar_ok ok false, itSolo_ok ok false '[' (by decide), itInt_ok ok false '1' [] (by decide) (by decide)⟩
  have hl : LayoutStrict [itDollar (o := o) false, itSolo false '[', itInt (o := o) false '1' []] [[], [], []] :=
    ⟨Sep.nil, fun _ => Or.inl rfl, Sep.nil, fun _ => Or.inr ⟨_, rfl, (show tolOf ['$'] '[' = true by decide)⟩, Sep.nil,
      fun _ => Or.inr ⟨_, rfl, (show tolOf ['['] '1' = true by decide)⟩, trivial⟩
  exact parse_err_of_other_char_strict o ok.toOrOK _ hok _ hl Sep.blank (by decide) '^' (by decide) (by decide)
    (not_startsToken_of o '^' h (by decide)) (by decide) [' ', '2', ']'] (by decide)

/-- `$ ? (@ = 1)`: a lone `=` -/
example : parse o (utf8 "$ ? (@ = 1)".toList) = .err := by
  have e : "$ ? (@ = 1)".toList = ['$', ' ', '?', ' ', '(', '@', ' ', '=', ' ', '1', ')'] := by decide +kernel
  rw [e]
  have hok : ∀ it ∈ [itDollar (o := o) false, itSolo false '?', itSolo false '(', itSolo false '@'],
      ItemOK o it ∧ it.C none := by
    simp only [List.forall_mem_cons, List.not_mem_nil, false_imp_iff, implies_true, and_true]
    exact ⟨itDollar_ok ok false, itSolo_ok ok false '?' (by decide), itSolo_ok ok false '(' (by decide),
      itSolo_ok ok false '@' (by decide)⟩
  have hl : LayoutStrict [itDollar (o := o) false, itSolo false '?', itSolo false '(', itSolo false '@']
      [[], [' '], [' '], []] :=
    ⟨Sep.nil, fun _ => Or.inl rfl, Sep.blank, fun hh => absurd hh (by decide), Sep.blank,
      fun hh => absurd hh (by decide), Sep.nil, fun _ => Or.inr ⟨_, rfl, (show tolOf ['('] '@' = true by decide)⟩, trivial⟩
  exact parse_err_of_lone_op_strict o ok.toOrOK _ hok _ hl Sep.blank (by decide) '=' (Or.inl rfl)
    [' ', '1', ')'] (by decide) (by decide)

/-- `$ ? (@.a & @.b)`: a lone `&` -/
example : parse o (utf8 "$ ? (@.a & @.b)".toList) = .err := by
  have e : "$ ? (@.a & @.b)".toList
      = ['$', ' ', '?', ' ', '(', '@', '.', 'a', ' ', '&', ' ', '@', '.', 'b', ')'] := by decide +kernel
  rw [e]
  have hok : ∀ it ∈ [itDollar (o := o) false, itSolo false '?', itSolo false '(', itSolo false '@', itDot false,
      itIdent (o := o) false 'a' []], ItemOK o it ∧ it.C none := by
    simp only [List.forall_mem_cons, List.not_mem_nil, false_imp_iff, implies_true, and_true]
    exact ⟨itDollar_ok ok false, itSolo_ok ok false '?' (by decide), itSolo_ok ok false '(' (by decide),
      itSolo_ok ok false '@' (by decide), itDot_ok ok false,
      itIdent_ok ok up false 'a' [] (by decide) (by decide) (by decide)⟩
  have hl : LayoutStrict [itDollar (o := o) false, itSolo false '?', itSolo false '(', itSolo false '@', itDot false,
      itIdent (o := o) false 'a' []] [[], [' '], [' '], [], [], []] :=
    ⟨Sep.nil, fun _ => Or.inl rfl, Sep.blank, fun hh => absurd hh (by decide), Sep.blank,
      fun hh => absurd hh (by decide), Sep.nil, fun _ => Or.inr ⟨_, rfl, (show tolOf ['('] '@' = true by decide)⟩, Sep.nil,
      fun _ => Or.inr ⟨_, rfl, (show tolOf ['@'] '.' = true by decide)⟩, Sep.nil,
      fun _ => Or.inr ⟨_, rfl, (show tolOf ['.'] 'a' = true by decide)⟩, trivial⟩
  exact parse_err_of_lone_op_strict o ok.toOrOK _ hok _ hl Sep.blank (by decide) '&' (Or.inr (Or.inl rfl))
    [' ', '@', '.', 'b', ')'] (by decide) (by decide)

/-- `$.a \x4`: a malformed bare identifier (a backslash that does not begin a well-formed escape) after other tokens -/
example : parse o (utf8 "$.a \\x4".toList) = .err := by
  have e : "$.a \\x4".toList = ['$', '.', 'a', ' ', '\\', 'x', '4'] := by decide +kernel
  rw [e]
  refine parse_err_bad_ident_strict o ok.toOrOK _ (items_dollar_dot_a o ok up) _ (strict_dollar_dot_a o)
    Sep.blank (by decide) '\\' (by simp [isIdentStart]) (by decide) (by decide) ['x', '4'] (by decide) ?_
  exact not_identAt_backslash o (Str.noEsc_x_second '4' [] rfl)

end examples

/-! ## Cross-checks: the model evaluated on the ASCII instance of the oracles (the Go package agrees) -/

/-- `$unk` at every kind of position — after an accessor, inside a filter, a subscript, a method argument list, an
    `.**{…}` level, a `like_regex` flag, after the whole path — is rejected -/
theorem unk_positions_evaluated :
    run "$.a # 1" = "ERR" ∧ run "$ ? (@ = 1)" = "ERR" ∧ run "$.a ; $.b" = "ERR" ∧ run "$[1 ^ 2]" = "ERR" ∧
    run "$.a ~ \"x\"" = "ERR" ∧ run "$ ? (@.a & @.b)" = "ERR" ∧ run "$.a \\x4" = "ERR" ∧
    run "$ ? (@ like_regex \"a\" flag #)" = "ERR" ∧ run "$ ? (@ like_regex # \"a\")" = "ERR" ∧
    run "$.a.decimal(1 # 2)" = "ERR" ∧ run "$.a.decimal(#)" = "ERR" ∧ run "$.datetime(#)" = "ERR" ∧
    run "$.time(1 ^)" = "ERR" ∧ run "$.**{1 ; 2}" = "ERR" ∧ run "$.**{#}" = "ERR" ∧ run "$[1 to ^]" = "ERR" ∧
    run "$[1, ~]" = "ERR" ∧ run "$ ? (exists (#))" = "ERR" ∧ run "$ ? (! (#))" = "ERR" ∧ run "$ ? (@ starts with #)" = "ERR" ∧
    run "$ ? (@ == 1 | @ == 2)" = "ERR" ∧ run "$.a.#" = "ERR" ∧ run "$.size(#)" = "ERR" ∧ run "(#)" = "ERR" ∧
    run "-#" = "ERR" ∧ run "$ + #" = "ERR" ∧ run "$ * ;" = "ERR" ∧ run "($.a is #)" = "ERR" ∧ run "$ #" = "ERR" := by
  decide +kernel

/-- the well-formed neighbours of the listed forms are accepted: the rejection is the `$unk` token's -/
theorem neighbours_accepted_evaluated :
    run "$.a + 1" ≠ "ERR" ∧ run "$ ? (@ == 1)" ≠ "ERR" ∧ run "$.a / $.b" ≠ "ERR" ∧ run "$[1 to 2]" ≠ "ERR" ∧
    run "$.a == \"x\"" ≠ "ERR" ∧ run "$ ? (exists (@.a) && exists (@.b))" ≠ "ERR" ∧ run "$.\\x41" ≠ "ERR" ∧
    run "$ ? (@ like_regex \"a\" flag \"i\")" ≠ "ERR" ∧ run "$.a.decimal(1, 2)" ≠ "ERR" := by
  decide +kernel

end C04c
end Sqljson

section
open Sqljson.C04c
#print axioms parse_rejects_unk_anywhere
#print axioms parse_rejects_unk_anywhere'
#print axioms accepted_has_no_unk_token
#print axioms parse_rejects_foreign_character_anywhere
#print axioms parse_rejects_lone_operator_anywhere
#print axioms parse_rejects_malformed_ident_anywhere
#print axioms parse_rejects_private_rune_anywhere
#print axioms lexer_reaches_token_start
#print axioms rejects_foreign_character_after_tokens
#print axioms rejects_lone_operator_after_tokens
#print axioms rejects_malformed_ident_after_tokens
#print axioms rejects_private_rune_after_tokens
#print axioms rejects_token_sequence_with_unk
#print axioms startsToken_iff
#print axioms accepted_token_starts_are_language_characters
#print axioms items_dollar_dot_a
#print axioms unk_positions_evaluated
#print axioms neighbours_accepted_evaluated
end
