import Sqljson.Props.C05b
import Sqljson.Props.C12b
import Sqljson.Lemmas.FloatText
/-!
# C16 (second part) — the text `.string()` prints for a number converts back to an equal value

Property C16, the part at stake: *"`.string()` output converts back to an equal value with the matching
method"* — for numbers.  `.string()` (`Exec.convString`) prints

* a float64 item with `strconv.FormatFloat(x, 'f', -1, 64)` (`Decimal.formatF`),
* an int64 item with `strconv.FormatInt(i, 10)` (`Decimal.formatInt`),
* a `json.Number` item as its own text;

`.double()` / `.number()` read a string with `strconv.ParseFloat(·, 64)` (`Decimal.parseFloat`),
`.bigint()` / `.integer()` with `strconv.ParseInt(·, 10, 64 / 32)` (`Decimal.parseInt10`).

## Theorems  (arithmetic and text lemmas are in `Lemmas/FloatText.lean`)

* `roundTrips_sound`       `roundTrips m e c p = true → scale10 false c p = .fin false m e` (and `↔`).
* `shortest_sound_if_found`  if the digit search of `shortest m e` ends in one of its rounds
                           (`FloatText.found m e`, decidable), the digits returned parse back to `(m, e)`.
* `found_of_17`            `found` holds if one of the two 17-digit candidates round-trips.
* `shortest_roundtrips`    **for every well-formed nonzero finite binary64 the search succeeds**
                           (`found_wf`: 17 significant digits always suffice — the fallback branch of
                           `shortestFrom` is unreachable) and `scale10 false c p = .fin false m e` for
                           `(c, p) = shortest m e`.  No restriction on the exponent: normal, subnormal and
                           the binade boundaries `m = 2^52` are all covered.
* `formatF_parse`          `parseFloat (formatF x) = .ok x` for every finite well-formed `x`, including
                           the sign and `±0` (`-0` prints `-0` and parses to `-0`).
* `formatF_injective`      distinct finite well-formed doubles print differently.
* `parseInt_formatInt`     `parseInt10 bits (formatInt i) = .ok i` for `-2^(bits-1) ≤ i < 2^(bits-1)`.
* `string_double_roundtrip`, `string_number_roundtrip`  `.string()` then `.double()` / `.number()` of a
                           finite float item gives the item back; `exec_string_double` the same through
                           `execConvMethod`.
* `string_bigint_roundtrip`, `string_integer_roundtrip`  int items (int64 resp. int32 range).
* `string_jnum_same`       a `json.Number` item and its `.string()` text are read by the same function.
* `parseFloat_formatInt`, `string_double_of_int`   `ParseFloat(FormatInt(i)) = float64(i)` for int64 `i`, so
                           `.string()` then `.double()` / `.number()` of an int item = `.double()` / `.number()`
                           of the int item itself.
* `Examples`               0.1, 1e21, 5e-324, 1.7976931348623157e308, 0.30000000000000004, 123456789012345680,
                           2^-1022, the largest subnormal, `±0` by kernel evaluation; two end-to-end runs.

Nothing is left open: no case had to be excluded and no counterexample was found (the model's search never
falls through to its `(m, e)` fallback on a well-formed value).
-/

namespace Sqljson
namespace C16b
open Exec Api Num FloatText

/-! ### the digit search -/

/-- `roundTrips` is by definition "the decimal parses back" -/
theorem roundTrips_sound (m : Nat) (e : Int) (c : Nat) (p : Int) (h : Decimal.roundTrips m e c p = true) :
    Decimal.scale10 false c p = .fin false m e := (roundTrips_iff m e c p).mp h

theorem shortest_sound_if_found (m : Nat) (e : Int) (h : found m e = true) :
    Decimal.scale10 false (Decimal.shortest m e).1 (Decimal.shortest m e).2 = .fin false m e :=
  FloatText.shortest_sound_if_found m e h

/-- the search of `shortest` never reaches its fuel-exhausted fallback on a well-formed value -/
theorem found_wf {m : Nat} {e : Int} (hm : m ≠ 0) (hwf : F64.WF (.fin false m e)) : found m e = true :=
  FloatText.found_wf hm hwf

/-- **the shortest digits parse back**, for every well-formed nonzero finite value -/
theorem shortest_roundtrips {m : Nat} {e : Int} (hm : m ≠ 0) (hwf : F64.WF (.fin false m e)) :
    Decimal.scale10 false (Decimal.shortest m e).1 (Decimal.shortest m e).2 = .fin false m e :=
  FloatText.shortest_roundtrips hm hwf

theorem shortest_roundtrips_signed (neg : Bool) {m : Nat} {e : Int} (hm : m ≠ 0) (hwf : F64.WF (.fin neg m e)) :
    Decimal.scale10 neg (Decimal.shortest m e).1 (Decimal.shortest m e).2 = .fin neg m e := by
  have h := FloatText.shortest_roundtrips (m := m) (e := e) hm hwf
  cases neg
  · exact h
  · rw [ParseLemmas.scale10_neg, h]; rfl

theorem shortest_digits_ne_zero {m : Nat} {e : Int} (hm : m ≠ 0) (hwf : F64.WF (.fin false m e)) :
    (Decimal.shortest m e).1 ≠ 0 := by
  intro h0
  have h := FloatText.shortest_roundtrips hm hwf
  rw [h0] at h
  unfold Decimal.scale10 at h
  rw [if_pos rfl] at h
  injection h with _ h2 _
  exact hm h2.symm

/-! ### `FormatFloat(x, 'f', -1, 64)` then `ParseFloat` -/

theorem formatF_parse (x : F64) (hfin : x.isFinite = true) (hwf : F64.WF x) :
    Decimal.parseFloat (Decimal.formatF x) = .ok x := by
  cases x with
  | nan => cases hfin
  | inf n => cases hfin
  | fin neg m e =>
    by_cases hm : m = 0
    · subst hm
      have he : e = F64.minExp := hwf.1 (by decide)
      subst he
      cases neg <;> rfl
    · have hr := shortest_roundtrips_signed neg hm hwf
      have hc := shortest_digits_ne_zero hm hwf
      unfold Decimal.formatF
      simp only [hm, if_false]
      have := parse_layoutF neg (Decimal.shortest m e).1 (Decimal.shortest m e).2 hc (by rw [hr]; rfl)
      rw [hr] at this
      exact this

/-- consequently distinct finite doubles print differently (`-0` and `0` included) -/
theorem formatF_injective (x y : F64) (hx : x.isFinite = true) (hy : y.isFinite = true)
    (wx : F64.WF x) (wy : F64.WF y) (h : Decimal.formatF x = Decimal.formatF y) : x = y := by
  have h1 := formatF_parse x hx wx
  rw [h, formatF_parse y hy wy] at h1
  injection h1 with h1
  exact h1.symm

/-! ### `FormatInt(i, 10)` then `ParseInt(·, 10, bits)` -/

theorem parseInt_formatInt (bits : Nat) (i : Int) (hlo : -((2 ^ (bits - 1) : Nat) : Int) ≤ i)
    (hhi : i < ((2 ^ (bits - 1) : Nat) : Int)) :
    Decimal.parseInt10 bits (Decimal.formatInt i) = .ok i := by
  have hall := formatNat_allDig i.natAbs
  have hlen := formatNat_length_pos i.natAbs
  have hval := formatNat_value i.natAbs
  have htd := takeDigits_allDig _ hall 0 0
  rw [hval] at htd
  unfold Decimal.formatInt
  by_cases hneg : i < 0
  · rw [if_pos hneg]
    unfold Decimal.parseInt10
    simp only [htd]
    have hn0 : ¬ (0 + (Decimal.formatNat i.natAbs).length = 0) := by omega
    rw [if_neg hn0]
    simp only [if_true]
    have hle : ¬ (i.natAbs > 2 ^ (bits - 1)) := by omega
    rw [if_neg hle]
    congr 1; omega
  · rw [if_neg hneg]
    unfold Decimal.parseInt10
    obtain ⟨d, ds, hds⟩ : ∃ d ds, Decimal.formatNat i.natAbs = d :: ds := by
      cases h : Decimal.formatNat i.natAbs with
      | nil => rw [h] at hlen; simp at hlen
      | cons d ds => exact ⟨d, ds, rfl⟩
    have hd := JNum.digit_ne (JNum.allDig_head (hds ▸ hall))
    rw [hds] at htd ⊢
    split
    rename_i x neg body heq
    have hnb : neg = false ∧ body = d :: ds := by
      split at heq
      · rename_i h2; injection h2 with a b; exact absurd a hd.2.2.2.1
      · rename_i h2; injection h2 with a b; exact absurd a hd.2.2.2.2.1
      · injection heq with a b; exact ⟨a.symm, b.symm⟩
    obtain ⟨rfl, rfl⟩ := hnb
    simp only [htd]
    have hn0 : ¬ (0 + (d :: ds).length = 0) := by rw [List.length_cons]; omega
    rw [if_neg hn0]
    simp only [Bool.false_eq_true, if_false]
    have hlt : ¬ (i.natAbs ≥ 2 ^ (bits - 1)) := by omega
    rw [if_neg hlt]
    congr 1; omega

/-! ### the item methods -/

/-- `.string()` of a finite double, then `.double()` -/
theorem string_double_roundtrip (x : F64) (hfin : x.isFinite = true) (hwf : F64.WF x) :
    ∃ t, convString (.flt x) = .val (.str t) ∧ convDouble (.str t) = .val (.flt x) := by
  refine ⟨Decimal.formatF x, rfl, ?_⟩
  unfold convDouble
  simp only [formatF_parse x hfin hwf]
  have : nonFinite x = false := by cases x <;> simp_all [nonFinite, F64.isFinite, F64.isInf, F64.isNaN]
  rw [this]; rfl

/-- `.string()` of a finite double, then `.number()` -/
theorem string_number_roundtrip (x : F64) (hfin : x.isFinite = true) (hwf : F64.WF x) :
    ∃ t, convString (.flt x) = .val (.str t) ∧ convNumber none (.str t) = .val (.flt x) := by
  refine ⟨Decimal.formatF x, rfl, ?_⟩
  unfold convNumber
  simp only [formatF_parse x hfin hwf]
  have : nonFinite x = false := by cases x <;> simp_all [nonFinite, F64.isFinite, F64.isInf, F64.isNaN]
  rw [this]; rfl

/-- the same through the common control flow of the conversion methods: `.string()` passes the text on,
    and `.double()` / `.number()` applied to that text pass the original double on -/
theorem exec_string_double (c : Ctx) (item : ItemK) (any : AnyK) (x : F64) (hfin : x.isFinite = true)
    (hwf : F64.WF x) :
    (∀ s n nx f u, execConvMethod c item any s n nx (.flt x) f u convString
        = executeNextItem c item s nx (.str (Decimal.formatF x)) f) ∧
    (∀ s n nx f u, execConvMethod c item any s n nx (.str (Decimal.formatF x)) f u convDouble
        = executeNextItem c item s nx (.flt x) f) ∧
    (∀ s n nx f u, execConvMethod c item any s n nx (.str (Decimal.formatF x)) f u (convNumber none)
        = executeNextItem c item s nx (.flt x) f) := by
  obtain ⟨t, h1, h2⟩ := string_double_roundtrip x hfin hwf
  obtain ⟨t', h1', h2'⟩ := string_number_roundtrip x hfin hwf
  have e1 : t = Decimal.formatF x := by
    have : convString (.flt x) = .val (.str (Decimal.formatF x)) := rfl
    rw [this] at h1; injection h1 with h1; injection h1 with h1; exact h1.symm
  have e2 : t' = Decimal.formatF x := by
    have : convString (.flt x) = .val (.str (Decimal.formatF x)) := rfl
    rw [this] at h1'; injection h1' with h1'; injection h1' with h1'; exact h1'.symm
  subst e1 e2
  refine ⟨fun s n nx f u => rfl, fun s n nx f u => ?_, fun s n nx f u => ?_⟩
  · unfold execConvMethod; rw [h2]
  · unfold execConvMethod; rw [h2']

theorem inInt64_bounds {i : Int} (h : Item.inInt64 i = true) :
    -((2 ^ (64 - 1) : Nat) : Int) ≤ i ∧ i < ((2 ^ (64 - 1) : Nat) : Int) := by
  simp only [Item.inInt64, Item.int64Min, Item.int64Max, Bool.and_eq_true] at h
  have h1 := of_decide_eq_true h.1
  have h2 := of_decide_eq_true h.2
  have : ((2 ^ (64 - 1) : Nat) : Int) = 9223372036854775808 := by decide
  omega

theorem inInt32_bounds {i : Int} (h : inInt32 i = true) :
    -((2 ^ (32 - 1) : Nat) : Int) ≤ i ∧ i < ((2 ^ (32 - 1) : Nat) : Int) := by
  simp only [inInt32, minInt32, maxInt32, Bool.and_eq_true] at h
  have h1 := of_decide_eq_true h.1
  have h2 := of_decide_eq_true h.2
  have : ((2 ^ (32 - 1) : Nat) : Int) = 2147483648 := by decide
  omega

/-- `.string()` of an int64 item, then `.bigint()` -/
theorem string_bigint_roundtrip (i : Int) (h : Item.inInt64 i = true) :
    ∃ t, convString (.int i) = .val (.str t) ∧ convBigInt (.str t) = .val (.int i) := by
  refine ⟨Decimal.formatInt i, rfl, ?_⟩
  obtain ⟨h1, h2⟩ := inInt64_bounds h
  unfold convBigInt
  simp only [parseInt_formatInt 64 i h1 h2]

/-- `.string()` of an item in the int32 range, then `.integer()` -/
theorem string_integer_roundtrip (i : Int) (h : inInt32 i = true) :
    ∃ t, convString (.int i) = .val (.str t) ∧ convInteger (.str t) = .val (.int i) := by
  refine ⟨Decimal.formatInt i, rfl, ?_⟩
  obtain ⟨h1, h2⟩ := inInt32_bounds h
  unfold convInteger
  simp only [parseInt_formatInt 32 i h1 h2]
  unfold int32Check
  have h31 : ((2 ^ (32 - 1) : Nat) : Int) = 2147483648 := by decide
  have a1 : ¬ (i > maxInt32) := by unfold maxInt32; omega
  have a2 : ¬ (i < minInt32) := by unfold minInt32; omega
  have : (decide (i > maxInt32) || decide (i < minInt32)) = false := by
    rw [decide_eq_false a1, decide_eq_false a2]; rfl
  rw [this]; rfl

/-- `FormatInt` then `ParseFloat` is the conversion `float64(i)` -/
theorem parseFloat_formatInt (i : Int) (h : Item.inInt64 i = true) :
    Decimal.parseFloat (Decimal.formatInt i) = .ok (F64.ofInt i) := by
  obtain ⟨h1, h2⟩ := inInt64_bounds h
  have h63 : ((2 ^ (64 - 1) : Nat) : Int) = 9223372036854775808 := by decide
  have hv : i.natAbs ≤ 2 ^ 63 := by omega
  have hall := formatNat_allDig i.natAbs
  have hval := formatNat_value i.natAbs
  obtain ⟨d, ds, hds⟩ : ∃ d ds, Decimal.formatNat i.natAbs = d :: ds := by
    have hlen := formatNat_length_pos i.natAbs
    cases h : Decimal.formatNat i.natAbs with
    | nil => rw [h] at hlen; simp at hlen
    | cons d ds => exact ⟨d, ds, rfl⟩
  have hd := JNum.allDig_head (hds ▸ hall)
  have hrest : ∀ x ∈ ds, Decimal.isDigit x = true ∨ x = '.' :=
    fun x hx => Or.inl (JNum.allDig_tail (hds ▸ hall) x hx)
  have htext : Decimal.formatInt i = (if decide (i < 0) then ['-'] else []) ++ d :: ds := by
    unfold Decimal.formatInt
    by_cases hn : i < 0
    · simp [hn, hds]
    · simp [hn, hds]
  have hdec : Decimal.parseFloatNoUnderscore.dec (decide (i < 0)) (d :: ds)
      = .ok (Decimal.scale10 (decide (i < 0)) i.natAbs 0) := by
    unfold Decimal.parseFloatNoUnderscore.dec
    rw [← hds, takeMant_allDig_end _ hall, hval]
    have hnd : ¬ (0 + (Decimal.formatNat i.natAbs).length = 0) := by
      have := formatNat_length_pos i.natAbs; omega
    have he : Decimal.takeExp 'e' [] = some (0, []) := rfl
    have e0 : ((0 : Int) - ((0 : Nat) : Int)) = 0 := rfl
    simp only [hnd, if_false, he, Bool.false_eq_true, e0, IntFloat.scale10_finite _ _ hv]
  rw [htext, parseFloat_digits _ d ds hd hrest, hdec]
  congr 1
  unfold F64.ofInt F64.ofQ
  by_cases h0 : i = 0
  · subst h0; rfl
  · rw [if_neg h0]
    have hne : i.natAbs ≠ 0 := by omega
    have hdc := IntFloat.digitCount_le hv
    rw [scale10_eq _ hne (by omega) (by omega)]
    simp

/-- `.string()` then `.double()` / `.number()` of an int item is `.double()` / `.number()` of the item -/
theorem string_double_of_int (i : Int) (h : Item.inInt64 i = true) :
    convDouble (.str (Decimal.formatInt i)) = convDouble (.int i) ∧
      convNumber none (.str (Decimal.formatInt i)) = convNumber none (.int i) := by
  constructor
  · unfold convDouble
    simp only [parseFloat_formatInt i h]
  · unfold convNumber
    simp only [parseFloat_formatInt i h]

/-- a `json.Number` item prints as its own text, and the text is read by the function that reads the item -/
theorem string_jnum_same (t : List Char) :
    convString (.jnum t) = .val (.str t) ∧ convDouble (.str t) = convDouble (.jnum t) ∧
      convNumber none (.str t) = convNumber none (.jnum t) := ⟨rfl, rfl, rfl⟩

/-! ### concrete values -/

namespace Examples

def bits (b : Nat) : F64 := F64.ofBits b

/-- 0.1, 1e21, 5e-324 (smallest subnormal), MaxFloat64, 0.30000000000000004, 123456789012345680, 2^-1022
    (smallest normal, a binade boundary), -0.1 -/
example : Decimal.formatF (bits 0x3FB999999999999A) = "0.1".toList := by decide +kernel
example : Decimal.formatF (bits 0x444B1AE4D6E2EF50) = "1000000000000000000000".toList := by decide +kernel
example : Decimal.formatF (bits 0x3FD3333333333334) = "0.30000000000000004".toList := by decide +kernel
example : Decimal.formatF (bits 0x437B69B4BA630F35) = "123456789012345680".toList := by decide +kernel
example : Decimal.formatF (bits 0xBFB999999999999A) = "-0.1".toList := by decide +kernel
example : (Decimal.shortest 1 (-1074)) = (5, -324) := by decide +kernel
example : (Decimal.shortest (2 ^ 53 - 1) 971) = (17976931348623157, 292) := by decide +kernel
example : (Decimal.shortest (2 ^ 52) (-1074)) = (22250738585072014, -324) := by decide +kernel

example : Decimal.parseFloat (Decimal.formatF (bits 0x3FB999999999999A)) = .ok (bits 0x3FB999999999999A) := by
  rfl
example : Decimal.parseFloat (Decimal.formatF (bits 0x444B1AE4D6E2EF50)) = .ok (bits 0x444B1AE4D6E2EF50) := by
  rfl
/-- Boolean form of "parses back" (`Except` has no `DecidableEq`), for kernel evaluation -/
def parsesBack (x : F64) : Bool :=
  match Decimal.parseFloat (Decimal.formatF x) with
  | .ok y => y == x
  | .error _ => false

example : parsesBack (bits 1) = true := by decide +kernel
example : parsesBack (bits 0x7FEFFFFFFFFFFFFF) = true := by decide +kernel
example : parsesBack (bits 0x0010000000000000) = true := by decide +kernel
example : parsesBack (bits 0x800FFFFFFFFFFFFF) = true := by decide +kernel
example : Decimal.parseFloat (Decimal.formatF (bits 0x3FD3333333333334)) = .ok (bits 0x3FD3333333333334) := by
  rfl
example : Decimal.parseFloat (Decimal.formatF (bits 0x437B69B4BA630F35)) = .ok (bits 0x437B69B4BA630F35) := by
  rfl
example : Decimal.parseFloat "-0".toList = .ok (F64.zero true) := by rfl
example : Decimal.formatF (F64.zero true) = "-0".toList := by decide +kernel

example : found 1 (-1074) = true ∧ found (2 ^ 53 - 1) 971 = true ∧ found (2 ^ 52) (-1074) = true := by
  decide +kernel

/-- the general theorem instantiated (no evaluation) -/
example (b : Nat) (h : (F64.ofBits b).isFinite = true) :
    Decimal.parseFloat (Decimal.formatF (F64.ofBits b)) = .ok (F64.ofBits b) :=
  formatF_parse _ h (C12b.ofBits_WF b)

/-- end to end: `$.string().double()` on 0.1 and `$.string().bigint()` on -2^63 -/
example : run .query 30 ⟨.const .root (some (.method .string (some (.method .double none)))), true, false⟩
    (.flt (bits 0x3FB999999999999A)) {} = .items [.flt (bits 0x3FB999999999999A)] := by rfl
example : run .query 30 ⟨.const .root (some (.method .string (some (.method .bigint none)))), true, false⟩
    (.int (-9223372036854775808)) {} = .items [.int (-9223372036854775808)] := by rfl

end Examples

end C16b
end Sqljson
