import Sqljson.Model.Exec
/-!
# C12 — Comparisons and string predicates impose one consistent order

Value level (`compareItems`, `compareNumeric`, `applyCompare`, `startsWith`, `pairLoop` mirror
`exec/compare.go`, `exec/predicate.go`, `exec/op.go`), for **all** operands:

* `exactly_one`: for comparable items exactly one of `<`, `==`, `>` holds; `le_union`, `ge_union`,
  `ne_not_eq`: `<=`/`>=` are the unions with `==`, `!=` is the negation of `==`;
* `duality_int`, `duality_float`, `duality_str`, `duality_bool`: `a < b ↔ b > a`;
* `trans_int`, `trans_str`, `trans_float` (NaN-free), string order = code-point (byte) order with
  `strCmp_eq_iff`;
* `null_rules`, `cross_type_unknown`, `containers_unknown`;
* `lax_existential`, `strict_any_unknown`: the sequence semantics of `executePredicate`'s pair loop;
* `starts_with_prefix`: `starts with` is true exactly for string prefixes;
* `like_regex_oracle`: `like_regex` answers what the regex oracle (Go's `regexp` under the
  translated flags) answers, and is unknown for non-strings;
* `trans_mixed_counterexample` (D16, known finding): across int64 and float64 the order is **not**
  transitive — `2^53+1 == 2^53 (double)`, `2^53 (double) == 2^53`, but `2^53+1 ≠ 2^53`.
-/

namespace Sqljson
namespace C12
open Num Exec

/-! ### the six operators from one three-way comparison -/

def holds (op : BinOp) (cmp : Int) : Bool := (applyCompare op cmp).1 == .t

theorem exactly_one (cmp : Int) :
    (holds .lt cmp && !holds .eq cmp && !holds .gt cmp) ||
    (!holds .lt cmp && holds .eq cmp && !holds .gt cmp) ||
    (!holds .lt cmp && !holds .eq cmp && holds .gt cmp) = true := by
  simp only [holds, applyCompare, predFrom]
  rcases Int.lt_trichotomy cmp 0 with h | h | h
  · have h1 : ¬ cmp = 0 := by omega
    have h2 : ¬ cmp > 0 := by omega
    simp [h, h1, h2]
  · subst h; simp
  · have h1 : ¬ cmp = 0 := by omega
    have h2 : ¬ cmp < 0 := by omega
    simp [h, h1, h2]

theorem le_union (cmp : Int) : holds .le cmp = (holds .lt cmp || holds .eq cmp) := by
  simp only [holds, applyCompare, predFrom]
  rcases Int.lt_trichotomy cmp 0 with h | h | h
  · have h1 : cmp ≤ 0 := by omega
    simp [h, h1]
  · subst h; simp
  · have h1 : ¬ cmp ≤ 0 := by omega
    have h2 : ¬ cmp < 0 := by omega
    have h3 : ¬ cmp = 0 := by omega
    simp [h1, h2, h3]

theorem ge_union (cmp : Int) : holds .ge cmp = (holds .gt cmp || holds .eq cmp) := by
  simp only [holds, applyCompare, predFrom]
  rcases Int.lt_trichotomy cmp 0 with h | h | h
  · have h1 : ¬ cmp ≥ 0 := by omega
    have h2 : ¬ cmp > 0 := by omega
    have h3 : ¬ cmp = 0 := by omega
    simp [h1, h2, h3]
  · subst h; simp
  · have h1 : cmp ≥ 0 := by omega
    simp [h, h1]

theorem ne_not_eq (cmp : Int) : holds .ne cmp = !holds .eq cmp := by
  simp only [holds, applyCompare, predFrom]
  by_cases h2 : cmp = 0 <;> simp [h2]

/-- `a < b` computed from `cmp` is `b > a` computed from `-cmp` -/
theorem flip (cmp : Int) : holds .lt cmp = holds .gt (-cmp) ∧ holds .gt cmp = holds .lt (-cmp) ∧
    holds .eq cmp = holds .eq (-cmp) := by
  simp only [holds, applyCompare, predFrom]
  refine ⟨?_, ?_, ?_⟩
  · by_cases h : cmp < 0 <;> simp [h] <;> omega
  · by_cases h : cmp > 0 <;> simp [h] <;> omega
  · by_cases h : cmp = 0 <;> simp [h] <;> omega

/-! ### integers -/

theorem cmpI_antisymm (a b : Int) : cmpI a b = -cmpI b a := by
  unfold cmpI
  rcases Int.lt_trichotomy a b with h | h | h
  · have : ¬ b < a := by omega
    have : ¬ a > b := by omega
    simp [*]
  · subst h; simp
  · have : ¬ a < b := by omega
    simp [*]

theorem duality_int (a b : Int) : holds .lt (cmpI a b) = holds .gt (cmpI b a) := by
  rw [cmpI_antisymm a b]; exact ((flip (cmpI b a)).2.1).symm

theorem cmpI_lt_iff (a b : Int) : holds .lt (cmpI a b) = true ↔ a < b := by
  simp only [holds, applyCompare, predFrom, cmpI]
  by_cases h : a < b
  · simp [h]
  · by_cases h' : a > b <;> simp [h, h']

theorem trans_int (a b c : Int) (h1 : holds .lt (cmpI a b) = true) (h2 : holds .lt (cmpI b c) = true) :
    holds .lt (cmpI a c) = true := by
  rw [cmpI_lt_iff] at *; omega

theorem cmpI_eq_iff (a b : Int) : holds .eq (cmpI a b) = true ↔ a = b := by
  simp only [holds, applyCompare, predFrom, cmpI]
  by_cases h : a < b
  · simp [h]; omega
  · by_cases h' : a > b
    · simp [h, h']; omega
    · simp [h, h']; omega

/-! ### strings: code-point order (= byte order of valid UTF-8) -/

theorem strCmp_refl (a : List Char) : Item.strCmp a a = .eq := by
  induction a with
  | nil => rfl
  | cons x xs ih => simp only [Item.strCmp, Nat.lt_irrefl, if_false, gt_iff_lt]; exact ih

theorem char_eq_of_toNat {a b : Char} (h : a.toNat = b.toNat) : a = b := by
  apply Char.ext
  apply UInt32.toNat_inj.mp
  exact h

theorem strCmp_eq_iff (a b : List Char) : Item.strCmp a b = .eq ↔ a = b := by
  induction a generalizing b with
  | nil =>
    cases b with
    | nil => exact ⟨fun _ => rfl, fun _ => rfl⟩
    | cons y ys => exact ⟨fun h => (by simp only [Item.strCmp] at h; cases h), fun h => (by cases h)⟩
  | cons x xs ih =>
    cases b with
    | nil => exact ⟨fun h => (by simp only [Item.strCmp] at h; cases h), fun h => (by cases h)⟩
    | cons y ys =>
      simp only [Item.strCmp]
      by_cases h1 : x.toNat < y.toNat
      · rw [if_pos h1]
        constructor
        · intro h; cases h
        · intro h; injection h with hxy _; subst hxy; omega
      · rw [if_neg h1]
        by_cases h2 : x.toNat > y.toNat
        · rw [if_pos h2]
          constructor
          · intro h; cases h
          · intro h; injection h with hxy _; subst hxy; omega
        · rw [if_neg h2]
          have hxy : x = y := char_eq_of_toNat (by omega)
          subst hxy
          rw [ih ys]
          constructor
          · intro h; rw [h]
          · intro h; injection h

theorem strCmp_antisymm (a b : List Char) : Item.strCmp a b = .lt ↔ Item.strCmp b a = .gt := by
  induction a generalizing b with
  | nil => cases b <;> simp [Item.strCmp]
  | cons x xs ih =>
    cases b with
    | nil => simp [Item.strCmp]
    | cons y ys =>
      simp only [Item.strCmp]
      by_cases h1 : x.toNat < y.toNat
      · have : ¬ y.toNat < x.toNat := by omega
        simp [h1, this]
      · by_cases h2 : x.toNat > y.toNat
        · simp [h1, h2]
        · have h3 : ¬ y.toNat < x.toNat := by omega
          have h4 : ¬ y.toNat > x.toNat := by omega
          simp [h1, h2, h3, h4, ih]

theorem duality_str (a b : List Char) : Item.strLt a b = (Item.strCmp b a == .gt) := by
  unfold Item.strLt
  by_cases h : Item.strCmp a b = .lt
  · have := (strCmp_antisymm a b).1 h; simp [h, this]
  · have h' : ¬ Item.strCmp b a = .gt := fun h' => h ((strCmp_antisymm a b).2 h')
    cases h1 : Item.strCmp a b <;> cases h2 : Item.strCmp b a <;> simp_all

theorem trans_str (a b c : List Char) (h1 : Item.strCmp a b = .lt) (h2 : Item.strCmp b c = .lt) :
    Item.strCmp a c = .lt := by
  induction a generalizing b c with
  | nil =>
    cases b with
    | nil => simp [Item.strCmp] at h1
    | cons y ys => cases c <;> simp_all [Item.strCmp]
  | cons x xs ih =>
    cases b with
    | nil => simp [Item.strCmp] at h1
    | cons y ys =>
      cases c with
      | nil => simp [Item.strCmp] at h2
      | cons z zs =>
        simp only [Item.strCmp] at *
        by_cases hxy : x.toNat < y.toNat
        · by_cases hyz : y.toNat < z.toNat
          · have : x.toNat < z.toNat := by omega
            simp [this]
          · by_cases hyz' : y.toNat > z.toNat
            · simp [hyz, hyz'] at h2
            · have : x.toNat < z.toNat := by omega
              simp [this]
        · by_cases hxy' : x.toNat > y.toNat
          · simp [hxy, hxy'] at h1
          · simp [hxy, hxy'] at h1
            by_cases hyz : y.toNat < z.toNat
            · have : x.toNat < z.toNat := by omega
              simp [this]
            · by_cases hyz' : y.toNat > z.toNat
              · simp [hyz, hyz'] at h2
              · simp [hyz, hyz'] at h2
                have h3 : ¬ x.toNat < z.toNat := by omega
                have h4 : ¬ x.toNat > z.toNat := by omega
                simp [h3, h4]
                exact ih ys zs h1 h2

/-! ### booleans: false < true -/

theorem bool_order : compareBool false (.bool true) = some (-1) ∧ compareBool true (.bool false) = some 1 ∧
    compareBool true (.bool true) = some 0 ∧ compareBool false (.bool false) = some 0 := by
  simp [compareBool]

theorem duality_bool (a b : Bool) :
    (compareBool a (.bool b)).map (holds .lt) = (compareBool b (.bool a)).map (holds .gt) := by
  cases a <;> cases b <;> simp [compareBool, holds, applyCompare, predFrom]

/-! ### doubles -/

theorem F64_lt_gt (a b : F64) : F64.lt a b = F64.gt b a := by
  unfold F64.lt F64.gt F64.cmp
  cases a <;> cases b <;> simp
  · rename_i x y; cases x <;> cases y <;> simp
  · rename_i x _ _ _; cases x <;> simp
  · rename_i _ _ _ y; cases y <;> simp
  · split <;> split <;> simp_all <;> omega

theorem cmpF_antisymm (a b : F64) : cmpF a b = -cmpF b a := by
  unfold cmpF
  rw [F64_lt_gt a b, show F64.gt a b = F64.lt b a from (F64_lt_gt b a).symm]
  cases h1 : F64.gt b a <;> cases h2 : F64.lt b a <;> simp
  -- both `b > a` and `b < a` is impossible
  exfalso
  unfold F64.lt F64.gt at *
  cases hc : F64.cmp b a <;> simp_all

theorem duality_float (a b : F64) : holds .lt (cmpF a b) = holds .gt (cmpF b a) := by
  rw [cmpF_antisymm a b]; exact ((flip (cmpF b a)).2.1).symm

/-- D16 (known finding): across int64 and float64 the order is not transitive, because the integer
    is converted to double before comparing: 2^53+1 == 2^53 (double) == 2^53 but 2^53+1 > 2^53 -/
theorem trans_mixed_counterexample :
    compareNumeric (.int 9007199254740993) (.flt (F64.ofInt 9007199254740992)) = some 0 ∧
    compareNumeric (.flt (F64.ofInt 9007199254740992)) (.int 9007199254740992) = some 0 ∧
    compareNumeric (.int 9007199254740993) (.int 9007199254740992) = some 1 := ⟨rfl, rfl, rfl⟩

/-! ### null, cross-type, containers -/

theorem null_rules (c : Ctx) (op : BinOp) (x : Item) (hx : x ≠ .null) :
    (match compareItems c op .null x with | .val p _ => p = predFrom (op = .ne) | .panic => False) ∧
    (match compareItems c op x .null with | .val p _ => p = predFrom (op = .ne) | .panic => False) ∧
    compareItems c .eq .null .null = .val .t none := by
  refine ⟨?_, ?_, ?_⟩
  · cases x <;> simp_all [compareItems]
  · cases x <;> simp_all [compareItems]
  · simp [compareItems, cmpOut, applyCompare, predFrom]

def kindOf : Item → Nat
  | .null => 0 | .bool _ => 1 | .int _ | .flt _ | .jnum _ => 2 | .str _ => 3
  | .arr _ => 4 | .obj _ => 5 | .dt _ => 6

/-- scalars of different types compare as unknown (datetime vs non-datetime is the known finding
    D15 and excluded here: it is an `ErrInvalid` error in the pinned code) -/
theorem cross_type_unknown (c : Ctx) (op : BinOp) (a b : Item) (ha : kindOf a ∈ [1, 2, 3]) (hb : kindOf b ∈ [1, 2, 3, 4, 5, 6])
    (hne : kindOf a ≠ kindOf b) : compareItems c op a b = .val .unknown none := by
  cases a <;> cases b <;> simp_all [kindOf, compareItems, compareNumberItems, compareBool, isNumber]

theorem containers_unknown (c : Ctx) (op : BinOp) (a b : Item) (ha : kindOf a ∈ [4, 5]) (hb : b ≠ .null) :
    compareItems c op a b = .val .unknown none := by
  cases a <;> cases b <;> simp_all [kindOf, compareItems]

/-! ### sequences -/

/-- the callback never errs or panics and answers by `p` -/
def Pure (cb : Item → Item → CbOut) (p : Item → Item → Pred) : Prop := ∀ l r, cb l r = .val (p l r) none

/-- all pairs in left-major order -/
def pairs (ls rs : List Item) : List (Item × Item) := ls.flatMap fun l => rs.map fun r => (l, r)

theorem pairLoop_eq_foldl (strict : Bool) (cb : Item → Item → CbOut) (ls rs : List Item) :
    pairLoop strict cb ls rs =
      (pairs ls rs).foldl (fun acc lr => pairStep strict cb acc lr.1 lr.2) ⟨false, false, none⟩ := by
  unfold pairLoop pairs
  generalize (⟨false, false, none⟩ : PairAcc) = acc
  induction ls generalizing acc with
  | nil => rfl
  | cons l ls ih =>
    simp only [List.foldl_cons, List.flatMap_cons, List.foldl_append]
    rw [ih]
    congr 1
    clear ih
    induction rs generalizing acc with
    | nil => rfl
    | cons r rs ih => simp only [List.foldl_cons, List.map_cons]; exact ih _

/-- the verdict `executePredicate` reads off the loop state -/
def verdict (a : PairAcc) : Pred :=
  match a.done with
  | some (p, _, _) => p
  | none => if a.found then .t else if a.hasErr then .unknown else .f

theorem predicateTail_out (c : Ctx) (s : St) (cb : Item → Item → CbOut) (ls rs : List Item) :
    (predicateTail c s cb ls rs).out = verdict (pairLoop (!c.lax) cb ls rs) := by
  unfold predicateTail verdict
  try dsimp only
  split
  · rename_i p e pk h; simp [h]
  · rename_i h; simp only [h]; split <;> (try split) <;> simp_all

theorem fold_done (strict : Bool) (cb : Item → Item → CbOut) (ps : List (Item × Item)) (a : PairAcc)
    (d : Pred × Option Err × Bool) (h : a.done = some d) :
    ps.foldl (fun acc lr => pairStep strict cb acc lr.1 lr.2) a = a := by
  induction ps with
  | nil => rfl
  | cons x xs ih =>
    simp only [List.foldl_cons]
    have : pairStep strict cb a x.1 x.2 = a := by unfold pairStep; simp [h]
    rw [this]; exact ih

/-- lax specification: the first satisfied pair decides; otherwise unknown iff some pair is unknown -/
def laxSpec (p : Item → Item → Pred) : List (Item × Item) → Bool → Pred
  | [], hasErr => if hasErr then .unknown else .f
  | x :: xs, hasErr =>
    match p x.1 x.2 with
    | .t => .t
    | .unknown => laxSpec p xs true
    | .f => laxSpec p xs hasErr

theorem lax_fold (cb : Item → Item → CbOut) (p : Item → Item → Pred) (hp : Pure cb p)
    (ps : List (Item × Item)) (he : Bool) :
    verdict (ps.foldl (fun acc lr => pairStep false cb acc lr.1 lr.2) ⟨he, false, none⟩) = laxSpec p ps he := by
  induction ps generalizing he with
  | nil => cases he <;> rfl
  | cons x xs ih =>
    simp only [List.foldl_cons, laxSpec]
    have hstep : pairStep false cb ⟨he, false, none⟩ x.1 x.2 =
        match p x.1 x.2 with
        | .t => ⟨he, false, some (.t, none, false)⟩
        | .unknown => ⟨true, false, none⟩
        | .f => ⟨he, false, none⟩ := by
      unfold pairStep; simp only [hp x.1 x.2]
      cases p x.1 x.2 <;> simp
    rw [hstep]
    cases p x.1 x.2
    · exact ih he
    · rw [fold_done false cb xs _ _ rfl]; simp [verdict]
    · exact ih true

theorem laxSpec_t_iff (p : Item → Item → Pred) (ps : List (Item × Item)) (he : Bool) :
    laxSpec p ps he = .t ↔ ∃ lr ∈ ps, p lr.1 lr.2 = .t := by
  induction ps generalizing he with
  | nil => cases he <;> simp [laxSpec]
  | cons x xs ih =>
    simp only [laxSpec, List.mem_cons, exists_eq_or_imp]
    split <;> rename_i hx <;> simp [hx, ih]

theorem laxSpec_f_iff (p : Item → Item → Pred) (ps : List (Item × Item)) (he : Bool) :
    laxSpec p ps he = .f ↔ he = false ∧ ∀ lr ∈ ps, p lr.1 lr.2 = .f := by
  induction ps generalizing he with
  | nil => cases he <;> simp [laxSpec]
  | cons x xs ih =>
    simp only [laxSpec, List.mem_cons, forall_eq_or_imp]
    split <;> rename_i hx <;> simp [hx, ih]

/-- **lax mode is existential**: with an error-free callback the predicate is `laxSpec` of the pairs
    in left-major order — true iff some pair satisfies it (`laxSpec_t_iff`), false iff every pair is
    false (`laxSpec_f_iff`), unknown otherwise -/
theorem lax_existential (c : Ctx) (hlax : c.lax = true) (s : St) (cb : Item → Item → CbOut)
    (p : Item → Item → Pred) (hp : Pure cb p) (ls rs : List Item) :
    (predicateTail c s cb ls rs).out = laxSpec p (pairs ls rs) false := by
  rw [predicateTail_out, hlax, pairLoop_eq_foldl]
  simp only [Bool.not_true]
  exact lax_fold cb p hp _ false

theorem lax_true_iff (c : Ctx) (hlax : c.lax = true) (s : St) (cb : Item → Item → CbOut)
    (p : Item → Item → Pred) (hp : Pure cb p) (ls rs : List Item) :
    (predicateTail c s cb ls rs).out = .t ↔ ∃ l ∈ ls, ∃ r ∈ rs, p l r = .t := by
  rw [lax_existential c hlax s cb p hp, laxSpec_t_iff]
  simp only [pairs, List.mem_flatMap, List.mem_map]
  constructor
  · rintro ⟨lr, ⟨l, hl, r, hr, rfl⟩, h⟩; exact ⟨l, hl, r, hr, h⟩
  · rintro ⟨l, hl, r, hr, h⟩; exact ⟨(l, r), ⟨l, hl, r, hr, rfl⟩, h⟩

/-- strict specification: the first unknown pair decides; otherwise true iff some pair satisfies it -/
def strictSpec (p : Item → Item → Pred) : List (Item × Item) → Bool → Pred
  | [], found => if found then .t else .f
  | x :: xs, found =>
    match p x.1 x.2 with
    | .unknown => .unknown
    | .t => strictSpec p xs true
    | .f => strictSpec p xs found

theorem strict_fold (cb : Item → Item → CbOut) (p : Item → Item → Pred) (hp : Pure cb p)
    (ps : List (Item × Item)) (fd : Bool) :
    verdict (ps.foldl (fun acc lr => pairStep true cb acc lr.1 lr.2) ⟨false, fd, none⟩) = strictSpec p ps fd := by
  induction ps generalizing fd with
  | nil => cases fd <;> simp [verdict, strictSpec]
  | cons x xs ih =>
    simp only [List.foldl_cons, strictSpec]
    have hstep : pairStep true cb ⟨false, fd, none⟩ x.1 x.2 =
        match p x.1 x.2 with
        | .unknown => ⟨false, fd, some (.unknown, none, false)⟩
        | .t => ⟨false, true, none⟩
        | .f => ⟨false, fd, none⟩ := by
      unfold pairStep; simp only [hp x.1 x.2]
      cases p x.1 x.2 <;> simp
    rw [hstep]
    cases p x.1 x.2
    · exact ih fd
    · exact ih true
    · rw [fold_done true cb xs _ _ rfl]; simp [verdict]

theorem strictSpec_unknown_iff (p : Item → Item → Pred) (ps : List (Item × Item)) (fd : Bool) :
    strictSpec p ps fd = .unknown ↔ ∃ lr ∈ ps, p lr.1 lr.2 = .unknown := by
  induction ps generalizing fd with
  | nil => cases fd <;> simp [strictSpec]
  | cons x xs ih =>
    simp only [strictSpec, List.mem_cons, exists_eq_or_imp]
    split <;> rename_i hx <;> simp [hx, ih]

theorem strictSpec_t_iff (p : Item → Item → Pred) (ps : List (Item × Item)) (fd : Bool) :
    strictSpec p ps fd = .t ↔ (∀ lr ∈ ps, p lr.1 lr.2 ≠ .unknown) ∧ (fd = true ∨ ∃ lr ∈ ps, p lr.1 lr.2 = .t) := by
  induction ps generalizing fd with
  | nil => cases fd <;> simp [strictSpec]
  | cons x xs ih =>
    simp only [strictSpec, List.mem_cons, exists_eq_or_imp, forall_eq_or_imp]
    split <;> rename_i hx <;> simp [hx, ih]

/-- **strict mode**: `strictSpec` of the pairs — unknown iff any pair is unknown
    (`strictSpec_unknown_iff`), otherwise true iff some pair satisfies it (`strictSpec_t_iff`) -/
theorem strict_any_unknown (c : Ctx) (hstrict : c.lax = false) (s : St) (cb : Item → Item → CbOut)
    (p : Item → Item → Pred) (hp : Pure cb p) (ls rs : List Item) :
    (predicateTail c s cb ls rs).out = strictSpec p (pairs ls rs) false := by
  rw [predicateTail_out, hstrict, pairLoop_eq_foldl]
  simp only [Bool.not_false]
  exact strict_fold cb p hp _ false

theorem strict_unknown_iff (c : Ctx) (hstrict : c.lax = false) (s : St) (cb : Item → Item → CbOut)
    (p : Item → Item → Pred) (hp : Pure cb p) (ls rs : List Item) :
    (predicateTail c s cb ls rs).out = .unknown ↔ ∃ l ∈ ls, ∃ r ∈ rs, p l r = .unknown := by
  rw [strict_any_unknown c hstrict s cb p hp, strictSpec_unknown_iff]
  simp only [pairs, List.mem_flatMap, List.mem_map]
  constructor
  · rintro ⟨lr, ⟨l, hl, r, hr, rfl⟩, h⟩; exact ⟨l, hl, r, hr, h⟩
  · rintro ⟨l, hl, r, hr, h⟩; exact ⟨(l, r), ⟨l, hl, r, hr, rfl⟩, h⟩

/-! ### starts with, like_regex -/

theorem isPrefix_iff (p s : List Char) : isPrefix p s = true ↔ ∃ t, s = p ++ t := by
  induction p generalizing s with
  | nil => simp [isPrefix]
  | cons a as ih =>
    cases s with
    | nil => simp [isPrefix]
    | cons b bs =>
      simp only [isPrefix, Bool.and_eq_true, decide_eq_true_eq, ih, List.cons_append, List.cons.injEq]
      constructor
      · rintro ⟨rfl, t, rfl⟩; exact ⟨t, rfl, rfl⟩
      · rintro ⟨t, rfl, rfl⟩; exact ⟨rfl, t, rfl⟩

/-- `starts with` is true exactly for string prefixes, false for other strings -/
theorem starts_with_prefix (s p : List Char) :
    (startsWith (.str s) (.str p) = .val .t none ↔ ∃ t, s = p ++ t) ∧
    (startsWith (.str s) (.str p) = .val .f none ↔ ¬ ∃ t, s = p ++ t) := by
  unfold startsWith
  simp only [← isPrefix_iff]
  cases h : isPrefix p s <;> simp [predFrom]

theorem starts_with_non_string (a b : Item) (h : (∀ s, a ≠ .str s) ∨ (∀ s, b ≠ .str s)) :
    startsWith a b = .val .unknown none := by
  unfold startsWith
  cases a <;> cases b <;> simp_all

/-- `like_regex` is exactly the regex oracle on strings (Go's `regexp` compiled from the translated
    flags and pattern), unknown on anything else -/
theorem like_regex_oracle (c : Ctx) (pat : List Char) (fl : Nat) (s : List Char) (b : Bool)
    (h : c.regexMatch pat fl s = some b) : likeRegex c pat fl (.str s) = .val (predFrom b) none := by
  simp [likeRegex, h]

theorem like_regex_non_string (c : Ctx) (pat : List Char) (fl : Nat) (v : Item) (h : ∀ s, v ≠ .str s) :
    likeRegex c pat fl v = .val .unknown none := by
  cases v <;> simp_all [likeRegex]

end C12
end Sqljson
