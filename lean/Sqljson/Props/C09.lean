import Sqljson.Lemmas.ApiGood
/-!
# C09 — Path steps compose and leave their evaluation context intact

* `context_intact`: after **every** executor function, on every exit path (success, not found,
  failure, cancellation), `@` (`current`), the innermost array size for `last`, the keyvalue base
  object, `ignoreStructuralErrors` and `verbose` equal their values at entry — for all paths, all
  documents, all fuel.  In particular after a nested filter `@` again denotes the outer item
  (`current_after_filter`) and after a nested subscript `last` again denotes the outer array
  (`last_after_subscript`).
* `root_constant`: `$` is a field of the immutable per-call context `Ctx`; no executor function can
  change it (it is not part of the threaded state).
* `step_then_rest`: every accessor hands each selected item to the rest of the chain through
  `executeNextItem` — the composition law at the level of one step: evaluating `S` after an item
  `x` has been selected is evaluating `S` on `x` (`executeNextItem_some`), and at the end of the chain
  the item is appended to the result (`executeNextItem_none`).
* `append_only`: the result list is only ever extended at its end (order-preserving, nothing altered).
-/

namespace Sqljson
namespace C09
open Exec Api

/-- every context field is restored by every executor step -/
theorem context_intact (c : Ctx) (fuel : Nat) (s : St) (n : Node) (v : Item) (f : Found) (u : Bool) :
    let r := xItem c fuel s n v f u
    r.st.current = s.current ∧ r.st.innermost = s.innermost ∧ r.st.baseAddr = s.baseAddr ∧
    r.st.baseId = s.baseId ∧ r.st.ignoreSE = s.ignoreSE ∧ r.st.verbose = s.verbose := by
  have h := (xItem_good c fuel s n v f u).ctx
  simp [St.ctxEq] at h
  exact ⟨h.1, h.2.2.2.1, h.2.1, h.2.2.1, h.2.2.2.2.1, h.2.2.2.2.2⟩

theorem context_intact_predicate (c : Ctx) (fuel : Nat) (s : St) (n : Node) (v : Item) (b : Bool) :
    let r := xBool c fuel s n v b
    r.st.current = s.current ∧ r.st.innermost = s.innermost ∧ r.st.baseAddr = s.baseAddr ∧
    r.st.baseId = s.baseId ∧ r.st.ignoreSE = s.ignoreSE ∧ r.st.verbose = s.verbose := by
  have h := (xBool_good c fuel s n v b).ctx
  simp [St.ctxEq] at h
  exact ⟨h.1, h.2.2.2.1, h.2.1, h.2.2.1, h.2.2.2.2.1, h.2.2.2.2.2⟩

/-- after a filter step (which binds `@` to the filtered item while its condition runs), `@` is the
    outer item again -/
theorem current_after_filter (c : Ctx) (fuel : Nat) (s : St) (cond : Option Node) (nx : Option Node)
    (v : Item) (f : Found) (u : Bool) :
    (xItem c fuel s (.unary .filter cond nx) v f u).st.current = s.current :=
  (context_intact c fuel s _ v f u).1

/-- after a subscript step (which sets the innermost array size while it runs), `last` refers to the
    outer array again -/
theorem last_after_subscript (c : Ctx) (fuel : Nat) (s : St) (subs : List Node) (nx : Option Node)
    (v : Item) (f : Found) (u : Bool) :
    (xItem c fuel s (.arrayIndex subs nx) v f u).st.innermost = s.innermost :=
  (context_intact c fuel s _ v f u).2.1

/-- `$` always denotes the whole document: the root is read from the immutable call context -/
theorem root_constant (c : Ctx) (item : ItemK) (any : AnyK) (s : St) (n : Node) (nx : Option Node)
    (v : Item) (f : Found) (u : Bool) :
    execConstNode c item any s n .root nx v f u =
      withBaseObject s (c.addrOf c.root) 0 (fun s' => executeNextItem c item s' nx c.root f) := rfl

/-- one step hands a selected item to the rest of the chain: the rest is evaluated on that item -/
theorem executeNextItem_some (c : Ctx) (item : ItemK) (s : St) (n : Node) (x : Item) (f : Found) :
    executeNextItem c item s (some n) x f = item s n x f c.lax := rfl

/-- at the end of the chain the item itself is the result -/
theorem executeNextItem_none (c : Ctx) (item : ItemK) (s : St) (x : Item) (l : List Item) :
    executeNextItem c item s none x (some l) = ⟨s, some (l ++ [x]), .ok, none⟩ := rfl

/-- results are only ever appended: what was found before a step is a prefix of what is found after -/
theorem append_only (c : Ctx) (fuel : Nat) (s : St) (n : Node) (v : Item) (l : List Item) (u : Bool) :
    ∃ l', (xItem c fuel s n v (some l) u).found = some (l ++ l') :=
  (xItem_good c fuel s n v (some l) u).shape.2 l rfl

/-- in probe mode (`found = nil`) no list is ever created -/
theorem probe_stays_nil (c : Ctx) (fuel : Nat) (s : St) (n : Node) (v : Item) (u : Bool) :
    (xItem c fuel s n v none u).found = none :=
  (xItem_good c fuel s n v none u).shape.1 rfl

/-- a path that starts from a variable evaluates the same steps on the variable's value -/
theorem var_head (c : Ctx) (item : ItemK) (s : St) (name : List Char) (nx : Option Node) (f : Found)
    (val : Item) (h : c.vars.bind (Item.lookup name) = some val) :
    execVariable c item s name nx f =
      withBaseObject s (c.addrOf (.obj (c.vars.getD []))) 1 (fun s' => executeNextItem c item s' nx val f) := by
  unfold execVariable; simp [h]

/-- a path that starts from a literal evaluates the same steps on the literal's value -/
theorem literal_head (c : Ctx) (item : ItemK) (s : St) (n : Node) (x : Item) (l : List Item) :
    execLiteral c item s (some n) x (some l) = item s n x (some l) c.lax := by
  simp [execLiteral, executeNextItem, executeItem]

/-- non-vacuity: nested filter, then `@` of the outer filter is used again -/
example : run .query 20
    ⟨.const .root (some (.unary .filter (some (.binary .and
        (some (.unary .exists (some (.const .current (some (.unary .filter (some (.binary .eq (some (.const .current none)) (some (.integer 1 none)) none)) none)))) none))
        (some (.binary .eq (some (.const .current none)) (some (.integer 1 none)) none)) none)) none)), true, false⟩
    (.int 1) {} = .items [.int 1] := rfl

end C09
end Sqljson
