import Sqljson.Lemmas.ApiGood
import Sqljson.Props.C11
/-!
# C10 — A filter keeps exactly the items for which its condition is true

For **every** condition evaluator (`bool`, the recursive call), item and rest of the chain:

* `filter_cases`: on an item that is not unwrapped, `? (C)` evaluates `C` with `@` bound to the item
  (`executeNestedBoolItem`, which restores `@` afterwards) and then
  – fails the query iff `C` returned a non-suppressible error (`filter_error_fails`),
  – otherwise keeps the item — hands it, unaltered, to the rest of the chain — iff `C` is true
    (`filter_true_keeps`), and drops it, without aborting, when `C` is false or unknown
    (`filter_false_or_unknown_drops`; unknown includes a suppressible error inside `C`, which
    predicates turn into unknown: `C08.predicate_never_verbose`);
* `filter_no_alter`: without a following step the result list is either unchanged or extended by
  exactly that item — nothing is altered or duplicated; with `Good.shape` (`C09.append_only`) the
  items of a filter are an order-preserving subsequence of its input items;
* `filter_unwraps_lax`: in lax mode an array target is unwrapped one level (each element filtered,
  not unwrapped again);
* `current_bound`: during `C`, `@` is the item; `fusion_value`: `(C₁ && C₂)` is true iff both are —
  the value-level fact behind "consecutive filters equal one filter on the conjunction" for
  error-free conditions.
-/

namespace Sqljson
namespace C10
open Exec Api

/-- `@` is bound to the filtered item while the condition runs, and restored afterwards -/
theorem current_bound (bool : BoolK) (s : St) (cond : Node) (v : Item) :
    executeNestedBoolItem bool s cond v =
      { (bool { s with current := v } cond v false) with
        st := { (bool { s with current := v } cond v false).st with current := s.current } } := rfl

theorem filter_cases (c : Ctx) (item : ItemK) (bool : BoolK) (any : AnyK) (s : St) (n cond : Node)
    (nx : Option Node) (v : Item) (f : Found) (u : Bool) (hv : v.isArr = false ∨ u = false) :
    let p := executeNestedBoolItem bool s cond v
    execUnaryNode c item bool any s n .filter (some cond) nx v f u =
      if p.err.isSome then ⟨p.st, f, .failed, p.err⟩
      else if p.out ≠ .t then ⟨p.st, f, .notFound, none⟩
      else executeNextItem c item p.st nx v f := by
  unfold execUnaryNode
  rcases hv with hv | hv
  · cases v <;> simp_all [Item.isArr]
  · subst hv; cases v <;> simp

theorem filter_true_keeps (c : Ctx) (item : ItemK) (bool : BoolK) (any : AnyK) (s : St) (n cond : Node)
    (nx : Option Node) (v : Item) (f : Found) (u : Bool) (hv : v.isArr = false ∨ u = false)
    (s1 : St) (hp : executeNestedBoolItem bool s cond v = ⟨s1, .t, none⟩) :
    execUnaryNode c item bool any s n .filter (some cond) nx v f u = executeNextItem c item s1 nx v f := by
  rw [filter_cases c item bool any s n cond nx v f u hv]; simp [hp]

theorem filter_false_or_unknown_drops (c : Ctx) (item : ItemK) (bool : BoolK) (any : AnyK) (s : St)
    (n cond : Node) (nx : Option Node) (v : Item) (f : Found) (u : Bool) (hv : v.isArr = false ∨ u = false)
    (s1 : St) (o : Pred) (ho : o ≠ .t) (hp : executeNestedBoolItem bool s cond v = ⟨s1, o, none⟩) :
    execUnaryNode c item bool any s n .filter (some cond) nx v f u = ⟨s1, f, .notFound, none⟩ := by
  rw [filter_cases c item bool any s n cond nx v f u hv]; simp [hp, ho]

theorem filter_error_fails (c : Ctx) (item : ItemK) (bool : BoolK) (any : AnyK) (s : St)
    (n cond : Node) (nx : Option Node) (v : Item) (f : Found) (u : Bool) (hv : v.isArr = false ∨ u = false)
    (s1 : St) (o : Pred) (e : Err) (hp : executeNestedBoolItem bool s cond v = ⟨s1, o, some e⟩) :
    execUnaryNode c item bool any s n .filter (some cond) nx v f u = ⟨s1, f, .failed, some e⟩ := by
  rw [filter_cases c item bool any s n cond nx v f u hv]; simp [hp]

/-- without a following step: the result list is unchanged, or extended by exactly the item -/
theorem filter_no_alter (c : Ctx) (item : ItemK) (bool : BoolK) (any : AnyK) (s : St) (n cond : Node)
    (v : Item) (l : List Item) (u : Bool) (hv : v.isArr = false ∨ u = false) :
    (execUnaryNode c item bool any s n .filter (some cond) none v (some l) u).found = some l ∨
    (execUnaryNode c item bool any s n .filter (some cond) none v (some l) u).found = some (l ++ [v]) := by
  rw [filter_cases c item bool any s n cond none v (some l) u hv]
  split
  · left; rfl
  · split
    · left; rfl
    · right; rfl

/-- lax mode: an array target is unwrapped one level; its elements are filtered with `unwrap = false` -/
theorem filter_unwraps_lax (c : Ctx) (item : ItemK) (bool : BoolK) (any : AnyK) (s : St) (n : Node)
    (cond : Option Node) (nx : Option Node) (xs : List Item) (f : Found) :
    execUnaryNode c item bool any s n .filter cond nx (.arr xs) f true = any s (some n) xs f 1 1 1 false false := rfl

/-- `(C₁ && C₂)` is true exactly when both conditions are true -/
theorem fusion_value (a b : Pred) : C11.kand a b = .t ↔ a = .t ∧ b = .t := by
  cases a <;> cases b <;> simp [C11.kand]

/-- non-vacuity / end to end: `$[*] ? (@ > 1)` keeps 2 and 3, in order; unknown (`"a" > 1`) is dropped -/
example : run .query 30
    ⟨.const .root (some (.const .anyArray (some (.unary .filter
      (some (.binary .gt (some (.const .current none)) (some (.integer 1 none)) none)) none)))), true, false⟩
    (.arr [.int 1, .int 2, .str ['a'], .int 3]) {} = .items [.int 2, .int 3] := rfl

end C10
end Sqljson
