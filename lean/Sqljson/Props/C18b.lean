import Sqljson.Props.TimeLemmas
/-!
# C18b — "local times that exist in the zone", for zones given as transition tables

C18: *conversions commute with the context time zone: for local times that exist in the zone,
date -> timestamptz -> date and timestamp -> timestamptz -> timestamp are identities.*

`Props/TimeLemmas.lean` proves the two round trips under the hypothesis `Zone.Resolves z w`
(`time.Date` maps the wall clock `w` to an instant that reads `w` again).  This file characterises
`Resolves` for a zone given as a transition table:

* `Exists z w` / `InGap z w` / `InOverlap z w`: some / no / two instants read the wall clock `w`;
  `InGapT`, `InOverlapT`: the same read off the table (a transition that skips / repeats `w`);
* `TableOK B z`: offsets bounded by `B`, transitions at least `2·B` apart (for real zones
  `B = 86400`: offsets within ±24 h, transitions at least 48 h apart) — `tableOK` is a checker;
* **`resolves_iff_exists`**: under `TableOK`, `z.Resolves w ↔ ¬ InGap z w`
  (`resolves_of_exists`, `gap_not_resolves`), `inGap_iff_table`: `InGap z w ↔ InGapT z w`,
  `inOverlap_iff_table`: `InOverlap z w ↔ InOverlapT z w` (in an overlap `time.Date` picks one of
  the two instants; the wall clock is still resolved);
* **`timestamp_roundtrip_exists`, `date_roundtrip_exists`**: C18 as quoted, for every such table and
  every wall clock not in a gap; `timestamp_roundtrip_iff`: the round trip is the identity exactly
  for the local times that exist (for dates only the quoted direction holds: a midnight inside a gap
  may still be mapped to a later time of the same day, and then the date comes back unchanged);
* **`spacing_tight`**: the two-step lookup of `time.Date` does fail outside gaps when transitions are
  closer than `2·B`: a table with offsets within ±1 h and transitions `2 h − 1 s` apart, and a wall
  clock that exists but is not resolved (`spacing_tight_roundtrip`: the round trip changes it).
-/

namespace Sqljson
namespace C18b
open Time

/-! ## Definitions -/

/-- some instant reads the wall clock `w` in zone `z` -/
def Exists (z : Zone) (w : Int) : Prop := ∃ u : Int, u + z.offsetAt u = w

/-- no instant reads `w`: the local time does not exist (skipped by a forward transition) -/
def InGap (z : Zone) (w : Int) : Prop := ¬ ∃ u : Int, u + z.offsetAt u = w

/-- two instants read `w`: the local time is ambiguous (repeated by a backward transition) -/
def InOverlap (z : Zone) (w : Int) : Prop :=
  ∃ u1 u2 : Int, u1 ≠ u2 ∧ u1 + z.offsetAt u1 = w ∧ u2 + z.offsetAt u2 = w

/-- the table form of a gap: a transition at `t` from offset `offsetAt (t-1)` to the larger `o`
    skips the wall clocks `[t + old, t + o)` -/
def InGapT (z : Zone) (w : Int) : Prop :=
  ∃ t o, (t, o) ∈ z.trans ∧ t + z.offsetAt (t - 1) ≤ w ∧ w < t + o

/-- the table form of an overlap: a transition at `t` to the smaller offset `o` repeats the wall
    clocks `[t + o, t + old)` -/
def InOverlapT (z : Zone) (w : Int) : Prop :=
  ∃ t o, (t, o) ∈ z.trans ∧ t + o ≤ w ∧ w < t + z.offsetAt (t - 1)

/-- sanity condition on a transition table: offsets within `±B`, transitions at least `2·B` apart
    (`Pairwise` over the ascending list; equivalent to the condition on consecutive entries, see
    `tableOK_sound`) -/
structure TableOK (B : Int) (z : Zone) : Prop where
  pos : 0 < B
  initial : -B ≤ z.initial ∧ z.initial ≤ B
  bound : ∀ t ∈ z.trans, -B ≤ t.2 ∧ t.2 ≤ B
  spaced : z.trans.Pairwise (fun a b => a.1 + 2 * B ≤ b.1)

namespace Aux

/-! ## Lists of transitions -/

theorem pairwise_mem {α : Type} {R : α → α → Prop} {l : List α} (h : l.Pairwise R) {a b : α}
    (ha : a ∈ l) (hb : b ∈ l) : a = b ∨ R a b ∨ R b a := by
  induction l with
  | nil => cases ha
  | cons x xs ih =>
    have hp := List.pairwise_cons.1 h
    rcases List.mem_cons.1 ha with ha | ha <;> rcases List.mem_cons.1 hb with hb | hb
    · left; rw [ha, hb]
    · right; left; rw [ha]; exact hp.1 b hb
    · right; right; rw [hb]; exact hp.1 a ha
    · exact ih hp.2 ha hb

theorem foldl_congr (u u' : Int) (l : List (Int × Int)) (acc : Int)
    (h : ∀ t ∈ l, (t.1 ≤ u ↔ t.1 ≤ u')) : l.foldl (stepAt u) acc = l.foldl (stepAt u') acc := by
  induction l generalizing acc with
  | nil => rfl
  | cons t rest ih =>
    have ht := h t (by simp)
    have e : stepAt u acc t = stepAt u' acc t := by
      unfold stepAt
      by_cases h1 : t.1 ≤ u
      · simp [h1, ht.1 h1]
      · have h2 : ¬ t.1 ≤ u' := fun h2 => h1 (ht.2 h2)
        simp [h1, h2]
    simp only [List.foldl_cons, e]
    exact ih _ (fun t' ht' => h t' (by simp [ht']))

/-- `offsetAt` only depends on which transitions have happened -/
theorem offsetAt_congr (z : Zone) (u u' : Int) (h : ∀ t ∈ z.trans, (t.1 ≤ u ↔ t.1 ≤ u')) :
    z.offsetAt u = z.offsetAt u' := by
  rw [offsetAt_eq_foldl, offsetAt_eq_foldl]; exact foldl_congr u u' z.trans z.initial h

theorem foldl_mem (u : Int) (l : List (Int × Int)) (acc : Int) :
    l.foldl (stepAt u) acc = acc ∨ ∃ t ∈ l, l.foldl (stepAt u) acc = t.2 := by
  induction l generalizing acc with
  | nil => left; rfl
  | cons t rest ih =>
    simp only [List.foldl_cons]
    rcases ih (stepAt u acc t) with h | ⟨t', ht', h⟩
    · unfold stepAt at h ⊢
      by_cases h1 : t.1 ≤ u
      · right; exact ⟨t, by simp, by simpa [h1] using h⟩
      · left; simpa [h1] using h
    · right; exact ⟨t', by simp [ht'], h⟩

/-- the offset in force at the time of a table entry is that entry's offset -/
theorem foldl_at (t o : Int) (l : List (Int × Int)) (acc : Int)
    (hs : l.Pairwise (fun a b => a.1 < b.1)) (hm : (t, o) ∈ l) : l.foldl (stepAt t) acc = o := by
  induction l generalizing acc with
  | nil => cases hm
  | cons x xs ih =>
    have hp := List.pairwise_cons.1 hs
    simp only [List.foldl_cons]
    rcases List.mem_cons.1 hm with hm | hm
    · subst hm
      have : stepAt t acc (t, o) = o := by simp [stepAt]
      rw [this]
      exact foldl_all_later t xs o (fun t' ht' => hp.1 t' ht')
    · exact ih _ hp.2 hm

theorem lookupAux_stop_mem (sec : Int) (l : List (Int × Int)) (off : Int) (start : Option Int) (e : Int)
    (h : (Zone.lookupAux sec l off start).stop = some e) : ∃ o, (e, o) ∈ l := by
  induction l generalizing off start with
  | nil => simp [Zone.lookupAux] at h
  | cons t rest ih =>
    obtain ⟨t1, o1⟩ := t
    unfold Zone.lookupAux at h
    split at h
    · obtain ⟨o, ho⟩ := ih _ _ h; exact ⟨o, by simp [ho]⟩
    · simp only [Option.some.injEq] at h; subst h; exact ⟨o1, by simp⟩

theorem lookupAux_start_mem (sec : Int) (l : List (Int × Int)) (off : Int) (start : Option Int) (s : Int)
    (h : (Zone.lookupAux sec l off start).start = some s) : start = some s ∨ ∃ o, (s, o) ∈ l := by
  induction l generalizing off start with
  | nil => left; simpa [Zone.lookupAux] using h
  | cons t rest ih =>
    obtain ⟨t1, o1⟩ := t
    unfold Zone.lookupAux at h
    split at h
    · rcases ih _ _ h with h' | ⟨o, ho⟩
      · simp only [Option.some.injEq] at h'; subst h'; right; exact ⟨o1, by simp⟩
      · right; exact ⟨o, by simp [ho]⟩
    · left; exact h

theorem beforeStart_false_iff (u : Int) (o : Option Int) : beforeStart u o = false ↔ ∀ s, o = some s → s ≤ u := by
  cases o with
  | none => simp [beforeStart]
  | some x => simp [beforeStart]

theorem atOrAfterStop_false_iff (u : Int) (o : Option Int) :
    atOrAfterStop u o = false ↔ ∀ e, o = some e → u < e := by
  cases o with
  | none => simp [atOrAfterStop]
  | some x => simp [atOrAfterStop]

end Aux

open Aux

/-! ## Consequences of `TableOK` -/

theorem TableOK.sorted {B : Int} {z : Zone} (hz : TableOK B z) : z.Sorted :=
  List.Pairwise.imp (fun {a b} h => by have := hz.pos; omega) hz.spaced

theorem TableOK.fixed {B : Int} (o : Int) (hB : 0 < B) (ho : -B ≤ o ∧ o ≤ B) : TableOK B (Zone.fixed o) :=
  ⟨hB, ho, fun t ht => (by cases ht), List.Pairwise.nil⟩

/-- every offset the zone ever has is within `±B` -/
theorem TableOK.offsetAt_bound {B : Int} {z : Zone} (hz : TableOK B z) (u : Int) :
    -B ≤ z.offsetAt u ∧ z.offsetAt u ≤ B := by
  rw [offsetAt_eq_foldl]
  rcases foldl_mem u z.trans z.initial with h | ⟨t, ht, h⟩
  · rw [h]; exact hz.initial
  · rw [h]; exact hz.bound t ht

/-- the offset at a transition time is the entry's offset -/
theorem TableOK.offsetAt_entry {B : Int} {z : Zone} (hz : TableOK B z) {t o : Int} (hm : (t, o) ∈ z.trans) :
    z.offsetAt t = o := by
  rw [offsetAt_eq_foldl]; exact foldl_at t o z.trans z.initial hz.sorted hm

/-- for `2·B` seconds after a transition nothing else happens -/
theorem TableOK.const_after {B : Int} {z : Zone} (hz : TableOK B z) {t o : Int} (hm : (t, o) ∈ z.trans)
    (u : Int) (h1 : t ≤ u) (h2 : u < t + 2 * B) : z.offsetAt u = o := by
  rw [← hz.offsetAt_entry hm]
  apply offsetAt_congr
  intro t' ht'
  have hB := hz.pos
  rcases pairwise_mem hz.spaced hm ht' with e | e | e
  · subst e; simp only; omega
  · simp only at e; omega
  · simp only at e; omega

/-- for `2·B` seconds before a transition nothing else happens -/
theorem TableOK.const_before {B : Int} {z : Zone} (hz : TableOK B z) {t o : Int} (hm : (t, o) ∈ z.trans)
    (u : Int) (h1 : t - 2 * B ≤ u) (h2 : u < t) : z.offsetAt u = z.offsetAt (t - 1) := by
  apply offsetAt_congr
  intro t' ht'
  have hB := hz.pos
  rcases pairwise_mem hz.spaced hm ht' with e | e | e
  · subst e; simp only; omega
  · simp only at e; omega
  · simp only at e; omega

/-- what the first lookup of `time.Date` finds, in arithmetic form -/
theorem TableOK.period {B : Int} {z : Zone} (hz : TableOK B z) (w : Int) :
    (∀ s, (z.lookup w).start = some s → s ≤ w ∧ ∃ o, (s, o) ∈ z.trans) ∧
    (∀ e, (z.lookup w).stop = some e → w < e ∧ ∃ o, (e, o) ∈ z.trans) ∧
    (∀ s e, (z.lookup w).start = some s → (z.lookup w).stop = some e → s + 2 * B ≤ e) ∧
    (∀ u, (∀ s, (z.lookup w).start = some s → s ≤ u) → (∀ e, (z.lookup w).stop = some e → u < e) →
      z.offsetAt u = (z.lookup w).off) := by
  have hc := z.lookup_contains w
  have hs : ∀ s, (z.lookup w).start = some s → s ≤ w ∧ ∃ o, (s, o) ∈ z.trans := by
    intro s h
    refine ⟨(beforeStart_false_iff _ _).1 hc.1 s h, ?_⟩
    rcases lookupAux_start_mem w z.trans z.initial none s h with h' | h'
    · cases h'
    · exact h'
  have he : ∀ e, (z.lookup w).stop = some e → w < e ∧ ∃ o, (e, o) ∈ z.trans := by
    intro e h
    exact ⟨(atOrAfterStop_false_iff _ _).1 hc.2 e h, lookupAux_stop_mem w z.trans z.initial none e h⟩
  refine ⟨hs, he, ?_, ?_⟩
  · intro s e h1 h2
    obtain ⟨l1, o1, m1⟩ := hs s h1
    obtain ⟨l2, o2, m2⟩ := he e h2
    have hB := hz.pos
    rcases pairwise_mem hz.spaced m1 m2 with e' | e' | e'
    · simp only [Prod.mk.injEq] at e'; omega
    · simpa using e'
    · simp only at e'; omega
  · intro u h1 h2
    exact z.lookup_offsetAt hz.sorted w u ((beforeStart_false_iff _ _).2 h1) ((atOrAfterStop_false_iff _ _).2 h2)

/-! ## `Resolves` is "not in a gap" -/

/-- a wall clock inside a gap is never resolved: `time.Date` returns an instant that reads
    something else (trivially: no instant reads `w`) -/
theorem gap_not_resolves (z : Zone) (w : Int) (h : InGap z w) : ¬ z.Resolves w :=
  fun hr => h ⟨resolveWall z w, hr⟩

/-- **the two-step lookup of `time.Date` resolves every local time that exists**, for tables with
    offsets within `±B` and transitions at least `2·B` apart -/
theorem resolves_of_exists {B : Int} {z : Zone} (hz : TableOK B z) (w : Int) (h : ¬ InGap z w) : z.Resolves w := by
  have hex : ∃ u : Int, u + z.offsetAt u = w := Classical.not_not.1 h
  obtain ⟨u0, hu0⟩ := hex
  obtain ⟨pS, pE, pL, pIn⟩ := hz.period w
  have hB := hz.pos
  have b0 := hz.offsetAt_bound u0
  by_cases hin : beforeStart (w - (z.lookup w).off) (z.lookup w).start = false ∧
      atOrAfterStop (w - (z.lookup w).off) (z.lookup w).stop = false
  · exact z.resolves_of_first hz.sorted w hin.1 hin.2
  · -- the candidate instant is outside the period found first: the offset is re-read there
    have hoff0 : (z.lookup w).off ≠ 0 := by
      intro h0
      apply hin
      rw [h0, Int.sub_zero]
      exact z.lookup_contains w
    have hcond : (beforeStart (w - (z.lookup w).off) (z.lookup w).start ||
        atOrAfterStop (w - (z.lookup w).off) (z.lookup w).stop) = true := by
      cases h1 : beforeStart (w - (z.lookup w).off) (z.lookup w).start <;>
        cases h2 : atOrAfterStop (w - (z.lookup w).off) (z.lookup w).stop <;> simp_all
    have hres : resolveWall z w = w - z.offsetAt (w - (z.lookup w).off) := by
      unfold resolveWall
      simp only [hoff0, ne_eq, not_false_eq_true, if_true, hcond]
      rw [z.lookup_off hz.sorted]
    -- it is enough that the re-read offset is the offset at `u0`
    suffices hkey : z.offsetAt (w - (z.lookup w).off) = z.offsetAt u0 by
      unfold Zone.Resolves
      rw [hres, hkey]
      have : w - z.offsetAt u0 = u0 := by omega
      rw [this]; exact hu0
    have bp : -B ≤ (z.lookup w).off ∧ (z.lookup w).off ≤ B := by
      rw [z.lookup_off hz.sorted]; exact hz.offsetAt_bound w
    -- where is `u0` relative to the period?
    by_cases hlo : ∀ s, (z.lookup w).start = some s → s ≤ u0
    · by_cases hhi : ∀ e, (z.lookup w).stop = some e → u0 < e
      · -- inside: then the candidate is `u0` itself, inside the period
        exfalso
        have := pIn u0 hlo hhi
        apply hin
        have e : w - (z.lookup w).off = u0 := by omega
        rw [e]
        exact ⟨(beforeStart_false_iff _ _).2 hlo, (atOrAfterStop_false_iff _ _).2 hhi⟩
      · -- `u0` is after the period
        have hhi' : ∃ e, (z.lookup w).stop = some e ∧ e ≤ u0 := by
          apply Classical.byContradiction
          intro hne
          apply hhi
          intro e he
          apply Classical.byContradiction
          intro hlt
          exact hne ⟨e, he, by omega⟩
        obtain ⟨e, he, heu⟩ := hhi'
        obtain ⟨hwe, oe, me⟩ := pE e he
        have hu0e : z.offsetAt u0 = oe := hz.const_after me u0 heu (by omega)
        -- the candidate
        by_cases hc2 : e ≤ w - (z.lookup w).off
        · rw [hu0e]; exact hz.const_after me _ hc2 (by omega)
        · -- candidate before the stop, so it is before the start
          exfalso
          have hbs : beforeStart (w - (z.lookup w).off) (z.lookup w).start = true := by
            cases h1 : beforeStart (w - (z.lookup w).off) (z.lookup w).start
            · exfalso; apply hin; refine ⟨h1, ?_⟩
              rw [atOrAfterStop_false_iff]; intro e' he'; rw [he] at he'; cases he'; omega
            · rfl
          cases hst : (z.lookup w).start with
          | none => rw [hst] at hbs; simp [beforeStart] at hbs
          | some s =>
            rw [hst] at hbs; simp only [beforeStart, decide_eq_true_eq] at hbs
            have := pL s e hst he
            omega
    · -- `u0` is before the period
      have hlo' : ∃ s, (z.lookup w).start = some s ∧ u0 < s := by
        apply Classical.byContradiction
        intro hne
        apply hlo
        intro s hs
        apply Classical.byContradiction
        intro hlt
        exact hne ⟨s, hs, by omega⟩
      obtain ⟨s, hs, hus⟩ := hlo'
      obtain ⟨hsw, os, ms⟩ := pS s hs
      have hu0s : z.offsetAt u0 = z.offsetAt (s - 1) := hz.const_before ms u0 (by omega) hus
      by_cases hc2 : w - (z.lookup w).off < s
      · rw [hu0s]; exact hz.const_before ms _ (by omega) hc2
      · exfalso
        have has : atOrAfterStop (w - (z.lookup w).off) (z.lookup w).stop = true := by
          cases h1 : atOrAfterStop (w - (z.lookup w).off) (z.lookup w).stop
          · exfalso; apply hin; refine ⟨?_, h1⟩
            rw [beforeStart_false_iff]; intro s' hs'; rw [hs] at hs'; cases hs'; omega
          · rfl
        cases hst : (z.lookup w).stop with
        | none => rw [hst] at has; simp [atOrAfterStop] at has
        | some e =>
          rw [hst] at has; simp only [atOrAfterStop, decide_eq_true_eq] at has
          have := pL s e hs hst
          omega

/-- under `TableOK`, "`time.Date` resolves `w`" is literally "the local time `w` exists" -/
theorem resolves_iff_exists {B : Int} {z : Zone} (hz : TableOK B z) (w : Int) : z.Resolves w ↔ ¬ InGap z w :=
  ⟨fun hr hg => gap_not_resolves z w hg hr, resolves_of_exists hz w⟩

theorem not_inGap_fixed (o w : Int) : ¬ InGap (Zone.fixed o) w :=
  fun h => h ⟨w - o, by rw [offsetAt_fixed]; omega⟩

/-! ## Gaps and overlaps read off the table -/

/-- a forward transition of the table skips `w` → no instant reads `w` -/
theorem inGap_of_table {B : Int} {z : Zone} (hz : TableOK B z) (w : Int) (h : InGapT z w) : InGap z w := by
  obtain ⟨t, o, hm, h1, h2⟩ := h
  rintro ⟨u, hu⟩
  have hB := hz.pos
  have bu := hz.offsetAt_bound u
  have bo := hz.bound (t, o) hm
  have bp := hz.offsetAt_bound (t - 1)
  simp only at bo
  by_cases c1 : t ≤ u
  · by_cases c2 : u < t + 2 * B
    · have := hz.const_after hm u c1 c2; omega
    · omega
  · by_cases c2 : t - 2 * B ≤ u
    · have := hz.const_before hm u c2 (by omega); omega
    · omega

/-- no instant reads `w` → a forward transition of the table skips `w` -/
theorem table_of_inGap {B : Int} {z : Zone} (hz : TableOK B z) (w : Int) (h : InGap z w) : InGapT z w := by
  obtain ⟨pS, pE, pL, pIn⟩ := hz.period w
  have hB := hz.pos
  have bp : -B ≤ (z.lookup w).off ∧ (z.lookup w).off ≤ B := by
    rw [z.lookup_off hz.sorted]; exact hz.offsetAt_bound w
  -- the candidate `w - off` is outside the period (otherwise it reads `w`)
  by_cases hlo : ∀ s, (z.lookup w).start = some s → s ≤ w - (z.lookup w).off
  · by_cases hhi : ∀ e, (z.lookup w).stop = some e → w - (z.lookup w).off < e
    · exfalso
      have := pIn _ hlo hhi
      exact h ⟨w - (z.lookup w).off, by omega⟩
    · have hhi' : ∃ e, (z.lookup w).stop = some e ∧ e ≤ w - (z.lookup w).off := by
        apply Classical.byContradiction
        intro hne; apply hhi; intro e he
        apply Classical.byContradiction
        intro hlt; exact hne ⟨e, he, by omega⟩
      obtain ⟨e, he, hew⟩ := hhi'
      obtain ⟨hwe, oe, me⟩ := pE e he
      have boe := hz.bound (e, oe) me
      simp only at boe
      refine ⟨e, oe, me, ?_, ?_⟩
      · have : z.offsetAt (e - 1) = (z.lookup w).off := by
          apply pIn
          · intro s hs; have := pL s e hs he; omega
          · intro e' he'; rw [he] at he'; cases he'; omega
        omega
      · apply Classical.byContradiction
        intro hge
        have := hz.const_after me (w - oe) (by omega) (by omega)
        exact h ⟨w - oe, by omega⟩
  · have hlo' : ∃ s, (z.lookup w).start = some s ∧ w - (z.lookup w).off < s := by
      apply Classical.byContradiction
      intro hne; apply hlo; intro s hs
      apply Classical.byContradiction
      intro hlt; exact hne ⟨s, hs, by omega⟩
    obtain ⟨s, hs, hws⟩ := hlo'
    obtain ⟨hsw, os, ms⟩ := pS s hs
    have hos : os = (z.lookup w).off := by
      rw [← hz.offsetAt_entry ms]
      apply pIn
      · intro s' hs'; rw [hs] at hs'; cases hs'; omega
      · intro e he; have := pL s e hs he; omega
    have bm := hz.offsetAt_bound (s - 1)
    refine ⟨s, os, ms, ?_, by omega⟩
    apply Classical.byContradiction
    intro hlt
    have := hz.const_before ms (w - z.offsetAt (s - 1)) (by omega) (by omega)
    exact h ⟨w - z.offsetAt (s - 1), by omega⟩

/-- **the nonexistent local times are exactly those skipped by a forward transition** -/
theorem inGap_iff_table {B : Int} {z : Zone} (hz : TableOK B z) (w : Int) : InGap z w ↔ InGapT z w :=
  ⟨table_of_inGap hz w, inGap_of_table hz w⟩

/-- a backward transition of the table repeats `w` → two instants read `w` -/
theorem inOverlap_of_table {B : Int} {z : Zone} (hz : TableOK B z) (w : Int) (h : InOverlapT z w) :
    InOverlap z w := by
  obtain ⟨t, o, hm, h1, h2⟩ := h
  have hB := hz.pos
  have bo := hz.bound (t, o) hm
  have bp := hz.offsetAt_bound (t - 1)
  simp only at bo
  have e1 := hz.const_after hm (w - o) (by omega) (by omega)
  have e2 := hz.const_before hm (w - z.offsetAt (t - 1)) (by omega) (by omega)
  exact ⟨w - o, w - z.offsetAt (t - 1), by omega, by omega, by omega⟩

/-- two instants read `w` → a backward transition of the table repeats `w` -/
theorem table_of_inOverlap {B : Int} {z : Zone} (hz : TableOK B z) (w : Int) (h : InOverlap z w) :
    InOverlapT z w := by
  obtain ⟨a, b, hne, ha, hb⟩ := h
  -- w.l.o.g. the earlier instant first
  have key : ∀ u1 u2 : Int, u1 < u2 → u1 + z.offsetAt u1 = w → u2 + z.offsetAt u2 = w → InOverlapT z w := by
    intro u1 u2 hlt h1 h2
    obtain ⟨pS, pE, pL, pIn⟩ := hz.period u1
    have hB := hz.pos
    have b1 := hz.offsetAt_bound u1
    have b2 := hz.offsetAt_bound u2
    have c1 := z.lookup_contains u1
    have o1 : z.offsetAt u1 = (z.lookup u1).off :=
      pIn u1 ((beforeStart_false_iff _ _).1 c1.1) ((atOrAfterStop_false_iff _ _).1 c1.2)
    -- `u2` is not in the period of `u1` (it would read a different wall clock)
    have hout : ∃ e, (z.lookup u1).stop = some e ∧ e ≤ u2 := by
      apply Classical.byContradiction
      intro hne'
      have hin : ∀ e, (z.lookup u1).stop = some e → u2 < e := by
        intro e he
        apply Classical.byContradiction
        intro hge; exact hne' ⟨e, he, by omega⟩
      have := pIn u2 (fun s hs => by have := (pS s hs).1; omega) hin
      omega
    obtain ⟨e, he, heu⟩ := hout
    obtain ⟨hue, oe, me⟩ := pE e he
    have e2 : z.offsetAt u2 = oe := hz.const_after me u2 heu (by omega)
    have e1 : z.offsetAt (e - 1) = (z.lookup u1).off := by
      apply pIn
      · intro s hs; have := (pS s hs).1; omega
      · intro e' he'; rw [he] at he'; cases he'; omega
    exact ⟨e, oe, me, by omega, by omega⟩
  by_cases hlt : a < b
  · exact key a b hlt ha hb
  · exact key b a (by omega) hb ha

/-- **the ambiguous local times are exactly those repeated by a backward transition** -/
theorem inOverlap_iff_table {B : Int} {z : Zone} (hz : TableOK B z) (w : Int) : InOverlap z w ↔ InOverlapT z w :=
  ⟨table_of_inOverlap hz w, inOverlap_of_table hz w⟩

/-- a gap and an overlap exclude each other (no table condition needed) -/
theorem not_gap_of_overlap (z : Zone) (w : Int) (h : InOverlap z w) : ¬ InGap z w := by
  obtain ⟨u1, _, _, h1, _⟩ := h
  exact fun hg => hg ⟨u1, h1⟩

/-! ## C18 as quoted -/

/-- what timestamp → timestamptz → timestamp computes in any zone: the wall clock that the instant
    chosen by `time.Date` reads -/
theorem timestamp_roundtrip_value (env : Env) (d : DateTime) (wf : TimestampWF d) :
    (castTo env true .timestamptz d >>= castTo env true .timestamp) =
      .ok ⟨.timestamp, resolveWall env.zone d.sec + env.zone.offsetAt (resolveWall env.zone d.sec), d.nsec, 0⟩ := by
  cases d with | mk k s n o =>
  obtain ⟨hk, hn, ho⟩ := wf
  simp only at hk hn ho
  subst hk; subst ho
  simp only [castTo, timestampToTimestampTZ, DateTime.t, GoTime.civil, Int.add_zero, bind, Except.bind]
  rw [goDate_civil env.zone s n hn, newTimestampTZ_eq _ hn]
  simp only [mkDT, timestampTZToTimestamp, DateTime.t, GoTime.inZone, if_true]
  rw [newTimestamp_eq _ hn]

/-- **C18**: timestamp → timestamptz → timestamp is the identity for every local time that exists
    in the context zone (any table with offsets within `±B` and transitions `2·B` apart) -/
theorem timestamp_roundtrip_exists (env : Env) (B : Int) (hz : TableOK B env.zone) (d : DateTime)
    (wf : TimestampWF d) (h : ¬ InGap env.zone d.sec) :
    (castTo env true .timestamptz d >>= castTo env true .timestamp) = .ok d :=
  timestamp_roundtrip env d wf (resolves_of_exists hz d.sec h)

/-- **C18**: date → timestamptz → date is the identity whenever that date's midnight exists in the
    context zone -/
theorem date_roundtrip_exists (env : Env) (B : Int) (hz : TableOK B env.zone) (d : DateTime)
    (wf : DateWF d) (h : ¬ InGap env.zone d.sec) :
    (castTo env true .timestamptz d >>= castTo env true .date) = .ok d :=
  date_roundtrip env d wf (resolves_of_exists hz d.sec h)

/-- … and only for those: the timestamp round trip is the identity **iff** the local time exists -/
theorem timestamp_roundtrip_iff (env : Env) (B : Int) (hz : TableOK B env.zone) (d : DateTime)
    (wf : TimestampWF d) :
    (castTo env true .timestamptz d >>= castTo env true .timestamp) = .ok d ↔ ¬ InGap env.zone d.sec := by
  refine ⟨fun h hg => ?_, timestamp_roundtrip_exists env B hz d wf⟩
  rw [timestamp_roundtrip_value env d wf] at h
  cases d with | mk k s n o =>
  simp only [Except.ok.injEq, DateTime.mk.injEq] at h
  exact hg ⟨_, h.2.1⟩

/-- in a gap the timestamp round trip returns a different value -/
theorem timestamp_roundtrip_gap (env : Env) (d : DateTime) (wf : TimestampWF d) (h : InGap env.zone d.sec) :
    (castTo env true .timestamptz d >>= castTo env true .timestamp) ≠ .ok d := by
  intro e
  rw [timestamp_roundtrip_value env d wf] at e
  cases d with | mk k s n o =>
  simp only [Except.ok.injEq, DateTime.mk.injEq] at e
  exact h ⟨_, e.2.1⟩

/-! ### dates whose midnight falls into a gap

For dates the converse of `date_roundtrip_exists` fails in one direction: when midnight does not
exist, `time.Date` returns an instant that is off by the size of the gap, forwards (east of
Greenwich: the first lookup sees the new offset) or backwards (west: it sees the old one). -/

/-- east of Greenwich, clocks go from +01:00 to +02:00 at local midnight of day 10 -/
def eastMidnight : Zone := ⟨3600, [(864000 - 3600, 7200)]⟩
/-- west of Greenwich, clocks go from −03:00 to −02:00 at local midnight of day 10 -/
def westMidnight : Zone := ⟨-10800, [(864000 + 10800, -7200)]⟩

/-- midnight of day 10 does not exist in either zone; in the eastern zone the date still comes back
    (through 01:00 of the same day), in the western zone it comes back as day 9 (through 23:00) -/
theorem date_roundtrip_in_gap :
    InGapT eastMidnight 864000 ∧ InGapT westMidnight 864000 ∧
    (castTo ⟨eastMidnight, 0⟩ true .timestamptz ⟨.date, 864000, 0, 0⟩ >>= castTo ⟨eastMidnight, 0⟩ true .date)
      = .ok ⟨.date, 864000, 0, 0⟩ ∧
    (castTo ⟨westMidnight, 0⟩ true .timestamptz ⟨.date, 864000, 0, 0⟩ >>= castTo ⟨westMidnight, 0⟩ true .date)
      = .ok ⟨.date, 864000 - 86400, 0, 0⟩ := by
  refine ⟨⟨864000 - 3600, 7200, by simp [eastMidnight], by decide, by decide⟩,
    ⟨864000 + 10800, -7200, by simp [westMidnight], by decide, by decide⟩, by rfl, by rfl⟩

/-! ## A checker for concrete tables -/

/-- consecutive transitions at least `2·B` apart -/
def chainOK (B : Int) : List (Int × Int) → Bool
  | [] => true
  | [_] => true
  | a :: b :: rest => decide (a.1 + 2 * B ≤ b.1) && chainOK B (b :: rest)

def tableOK (B : Int) (z : Zone) : Bool :=
  decide (0 < B) && decide (-B ≤ z.initial ∧ z.initial ≤ B) &&
    z.trans.all (fun t => decide (-B ≤ t.2 ∧ t.2 ≤ B)) && chainOK B z.trans

theorem chainOK_pairwise (B : Int) (hB : 0 < B) (l : List (Int × Int)) (h : chainOK B l = true) :
    l.Pairwise (fun a b => a.1 + 2 * B ≤ b.1) := by
  induction l with
  | nil => exact List.Pairwise.nil
  | cons a rest ih =>
    cases rest with
    | nil => exact List.pairwise_singleton _ _
    | cons b rest' =>
      simp only [chainOK, Bool.and_eq_true, decide_eq_true_eq] at h
      have ihp := ih h.2
      refine List.pairwise_cons.2 ⟨?_, ihp⟩
      intro x hx
      rcases List.mem_cons.1 hx with hx | hx
      · subst hx; exact h.1
      · have := (List.pairwise_cons.1 ihp).1 x hx
        omega

/-- the condition on consecutive entries is enough -/
theorem tableOK_sound (B : Int) (z : Zone) (h : tableOK B z = true) : TableOK B z := by
  simp only [tableOK, Bool.and_eq_true, decide_eq_true_eq, List.all_eq_true] at h
  obtain ⟨⟨⟨h1, h2⟩, h3⟩, h4⟩ := h
  exact ⟨h1, h2, fun t ht => h3 t ht, chainOK_pairwise B h1 _ h4⟩

/-! ## The spacing condition is tight -/

/-- offsets within ±1 h, transitions `2 h − 1 s` apart -/
def tightZone : Zone := ⟨0, [(0, 3600), (7199, -3600)]⟩

/-- **`time.Date`'s two-step lookup can fail outside gaps**: in `tightZone` the wall clock `3599`
    exists (the instant `7199` reads it) but `time.Date` returns the instant `3599`, which reads
    `7199`.  The table violates `TableOK 3600` only in the spacing (`7199 < 2·3600`). -/
theorem spacing_tight :
    ¬ InGap tightZone 3599 ∧ ¬ tightZone.Resolves 3599 ∧
    resolveWall tightZone 3599 = 3599 ∧ tightZone.offsetAt 3599 = 3600 ∧
    tightZone.Sorted ∧ (∀ t ∈ tightZone.trans, -3600 ≤ t.2 ∧ t.2 ≤ 3600) ∧ tableOK 3600 tightZone = false := by
  refine ⟨fun h => h ⟨7199, by decide⟩, by unfold Zone.Resolves; decide, by decide, by decide, ?_, ?_, by decide⟩
  · unfold Zone.Sorted tightZone; simp
  · unfold tightZone; simp

/-- … and the timestamp round trip through that zone changes `1970-01-01T00:59:59` into
    `1970-01-01T01:59:59` although the local time exists -/
theorem spacing_tight_roundtrip :
    (castTo ⟨tightZone, 0⟩ true .timestamptz ⟨.timestamp, 3599, 0, 0⟩ >>= castTo ⟨tightZone, 0⟩ true .timestamp) =
      .ok ⟨.timestamp, 7199, 0, 0⟩ := by rfl

/-! ## Examples: America/New_York 2024 (`Time.envNY`) -/

theorem envNY_tableOK : TableOK 86400 envNY.zone := tableOK_sound _ _ (by decide)

/-- 2024-03-10 02:30 local does not exist (`TimeLemmas.gapB`) -/
example : InGapT envNY.zone 1710037800 := ⟨1710054000, -14400, by simp [envNY], by decide, by decide⟩
example : InGap envNY.zone gapB.sec := inGap_of_table envNY_tableOK _ ⟨1710054000, -14400, by simp [envNY], by decide, by decide⟩
example : ¬ envNY.zone.Resolves gapB.sec :=
  gap_not_resolves _ _ (inGap_of_table envNY_tableOK _ ⟨1710054000, -14400, by simp [envNY], by decide, by decide⟩)

/-- 2024-11-03 01:30 local happens twice -/
example : InOverlapT envNY.zone 1730597400 := ⟨1730613600, -18000, by simp [envNY], by decide, by decide⟩
example : InOverlap envNY.zone 1730597400 :=
  inOverlap_of_table envNY_tableOK _ ⟨1730613600, -18000, by simp [envNY], by decide, by decide⟩
/-- … and `time.Date` picks the first (EDT) reading; the round trip is still the identity -/
example : resolveWall envNY.zone 1730597400 = 1730611800 := by decide
example : envNY.zone.Resolves 1730597400 := by unfold Zone.Resolves; decide

/-- an ordinary local time (2024-07-01 12:00) -/
example : envNY.zone.Resolves 1719835200 := by unfold Zone.Resolves; decide
example : (castTo envNY true .timestamptz ⟨.timestamp, 1719835200, 5, 0⟩ >>= castTo envNY true .timestamp) =
    .ok ⟨.timestamp, 1719835200, 5, 0⟩ :=
  timestamp_roundtrip_exists envNY 86400 envNY_tableOK _ ⟨rfl, by decide, rfl⟩ (fun h => h ⟨1719849600, by decide⟩)

end C18b
end Sqljson
