import Sqljson.Model.Time
import Sqljson.Gen.Layouts
/-!
# Links between the layout strings regenerated from /repo/path/types and the model's layouts

* `parse_cascade_link` — the layout literals of `ParseTime`, in source order, cut (by
  `chunkLayout`, the rules of `time.nextStdChunk`) into exactly the layouts the model's
  `parseTime` tries, in the order it tries them: date; time-with-zone (hour, minute); time;
  timestamp-with-zone (`T`/space × hour, minute); timestamp (`T`, space);
* `format_consts_link` — each named format constant cuts into the layout the model uses for
  `String()` / `MarshalJSON` (the `…OutputFormat`s and `dateFormat`, `timeFormat`,
  `timestampFormat`) and for `UnmarshalJSON` (the `…Hour/Minute/SecondFormat`s).

A changed layout string in /repo changes `Gen/Layouts.lean` and makes these `decide`s fail.
-/
namespace Sqljson
namespace GenLinks
open Time

/-- the layouts `parseTime` tries, flattened in order -/
def modelCascade : List Layout :=
  [dateL] ++ timeTZLayouts ++ [timeL] ++ timestampTZLayouts ++ timestampLayouts

theorem parse_cascade_link :
    Gen.parseTimeLayouts.map (fun s => chunkLayout s.toList) = modelCascade.map some := by decide +kernel

def modelFormat : String → Option Layout
  | "dateFormat" => some dateL
  | "timeFormat" => some timeFracL
  | "timeTZHourFormat" => some (timeTZFracL .short)
  | "timeTZMinuteFormat" => some (timeTZFracL .colon)
  | "timeTZSecondFormat" => some (timeTZFracL .colonSec)
  | "timeTZOutputFormat" => some timeTZOutL
  | "timestampFormat" => some timestampFracL
  | "timestampTZHourFormat" => some (timestampTZFracL .short)
  | "timestampTZMinuteFormat" => some (timestampTZFracL .colon)
  | "timestampTZSecondFormat" => some (timestampTZFracL .colonSec)
  | "timestampTZOutputFormat" => some timestampTZOutL
  | _ => none

theorem format_consts_link :
    Gen.layoutConsts.all (fun e => (modelFormat e.1).isSome && chunkLayout e.2.toList == modelFormat e.1) = true ∧
    Gen.layoutConsts.length = 11 := by decide +kernel

/-- the canonical output layout of each kind is one of the named constants -/
theorem out_layouts_are_consts :
    outLayout .date = dateL ∧ outLayout .time = timeFracL ∧ outLayout .timetz = timeTZOutL ∧
    outLayout .timestamp = timestampFracL ∧ outLayout .timestamptz = timestampTZOutL := ⟨rfl, rfl, rfl, rfl, rfl⟩

end GenLinks
end Sqljson
