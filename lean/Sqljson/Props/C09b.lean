import Sqljson.Lemmas.Compose
import Sqljson.Lemmas.Fuel
/-!
# C09 (compositional part) — path chains compose

"For any prefix path P and any root-independent step sequence S, Query(P S, doc) equals the
concatenation, over the items x of Query(P, doc) in order, of Query($ S, x), failing where the first
of those fails; and a path that starts from a variable or a literal returns what the same steps
return from `$` when the document is that value."

(The context part of C09 is `Props/C09.lean`.)  The proofs are in `Lemmas/Compose.lean`
(`Exec.Compose.comp_all`: one lemma per executor function, relating the function called with the chain
`append k S` to the function called with `k`; `Exec.Compose.frame_all`: a run does not depend on
the state fields, root, and result-list contents its nodes cannot observe).

## What is proved here

`append P S` links `S` after the last node of `P`'s `next` chain (`Exec.Compose.append`).

* `compose_collect` — the executor-level law, collect mode, for every state `s` whose context is never
  done (`s.budget = none`), every fuel with which the composed run finishes (`oof = false`):
  the run of `append P S` on `v` is obtained by running `P` on `v` into the empty list and feeding its
  items, in order, to `S` (`feed`), stopping at the first failing run of `S`; if none fails, the
  composed run ends as the run of `P` ended (same error, failed iff failed).
* `query_compose_items` (a), `query_compose_fails` (b) — the same at the level of `exec.Query`
  (`Api.execute` / `Api.queryWith`) with the separate queries `Query($ S, xᵢ)`;
  `query_var_head`, `query_literal_head` (c) — paths that start from a variable or a literal.
* examples by `rfl` (non-vacuity; lax and strict; one application of `queryWith_compose_items` to concrete
  data), and the places where the unrestricted statement is **false** in the model, each with a concrete
  counterexample evaluated by `rfl`: `counterexample_anyStrict` (`.**` in `P`, strict mode),
  `counterexample_silent` (silent mode: a suppressed failure is invisible in the separate query's outcome),
  and one per construct excluded from `S`: `counterexample_keyvalue`, `counterexample_current`,
  `counterexample_last`, `counterexample_root`.

## Side conditions (exactly)

* `o.budget = none` / `s.budget = none`: no cancellation (polls consume a shared budget, so the
  interleaving of `P` and `S` matters otherwise).
* `S` is *closed* (`rootIndependent S`, decidable, = `Indep closedFlags S`): no `$` anywhere in `S`
  (as the property says); no `@` outside a filter condition and no `last` outside a subscript of `S`
  (in the composed run they would denote the document and the array of an enclosing subscript of `P`,
  in `$ S` they denote `x` resp. raise "LAST outside subscript" — the parser rejects both forms anyway);
  no `.keyvalue()` (its ids are computed from the base object – `$` in `$ S`, but `P`'s base object in
  `P S` – and from the generated-id counter, so they genuinely differ).  For the executor-level law
  (`compose_collect`, same root and `@` on both sides) only `sufFlags` is needed: no `.keyvalue()`, no
  free `last`.
* `a.lax = true ∨ NoAny P`: in strict mode `P`'s own chain must not contain a `.**` step (the executor
  keeps `ignoreStructuralErrors` set for the rest of the chain, so `S` runs with structural errors
  suppressed whereas `strict $ S` raises them — `counterexample_anyStrict`).  In lax mode the flag is
  always set and there is no restriction on `P`.
* enough fuel: the composed run did not run out of fuel (`… ≠ outOfFuel` / `oof = false`); the separate
  runs may use any fuel with which they finish.
* statements are about the *runs* (`Api.execute`: result list, failed or not, error, panic/fuel flags);
  `Ran r ys` = "finished, did not fail, returned `ys`".  With `Query`'s outcome alone the law is false in
  silent mode (`counterexample_silent`), because a silently failed `Query($ S, x)` returns the items it
  found so far and no error.

## Probe mode

`compose_probe` is the executor-level law with the composed run in probe mode (`found = nil`, stop at the
first hit): the items of `P` (collected) are fed to `S` in probe mode (`feedProbe`) until a run of `S` hits
or fails, and that is the composed run's answer; otherwise it ends as `P` ended, without a hit.
`exists_compose_none`, `exists_compose_first` are the corollaries for `exec.Exists` in lax mode (where
`Exists` probes); in strict mode `Exists` collects, so (a)/(b) apply to its run.
-/

namespace Sqljson
namespace C09b
open Exec Api Exec.Compose

/-! ## the executor-level law -/

/-- feed the items `xs`, in order, to `S` (each run of `S` starts on the item, in the state and with the
    result list the previous run left); stop at the first run that fails and return it -/
def feed (c : Ctx) (S : Node) (fuel : Nat) : St → List Item → List Item → Res
  | t, l, [] => ⟨t, some l, .ok, none⟩
  | t, l, x :: xs =>
    let r := xItem c fuel t S x (some l) c.lax
    if r.status = .failed then r else feed c S fuel r.st (r.found.getD []) xs

theorem feed_nil (c : Ctx) (S : Node) (fuel : Nat) (t : St) (l : List Item) :
    feed c S fuel t l [] = ⟨t, some l, .ok, none⟩ := rfl

theorem feed_cons (c : Ctx) (S : Node) (fuel : Nat) (t : St) (l : List Item) (x : Item) (xs : List Item) :
    feed c S fuel t l (x :: xs) =
      if (xItem c fuel t S x (some l) c.lax).status = .failed then xItem c fuel t S x (some l) c.lax
      else feed c S fuel (xItem c fuel t S x (some l) c.lax).st ((xItem c fuel t S x (some l) c.lax).found.getD []) xs :=
  rfl

theorem oof_of_stkLe {a b : St} (h : StkLe a b) (hb : b.oof = false) : a.oof = false := by
  cases ha : a.oof with
  | false => rfl
  | true => rw [h.2.1 ha] at hb; exact absurd hb (by simp)

theorem panicked_of_stkLe {a b : St} (h : StkLe a b) (hb : b.panicked = false) : a.panicked = false := by
  cases ha : a.panicked with
  | false => rfl
  | true => rw [h.1 ha] at hb; exact absurd hb (by simp)

/-- a run of `S` recorded by the simulation (with some fuel `≤ fuel`) that finished is the run with `fuel` -/
theorem kr_eq {c : Ctx} {S : Node} {fuel : Nat} {t : St} {x : Item} {l : List Item} {r : Res}
    (h : KR c S fuel t x l r) (ho : r.st.oof = false) : xItem c fuel t S x (some l) c.lax = r := by
  obtain ⟨k, hle, rfl⟩ := h
  exact Exec.Fuel.xItem_mono c k fuel hle t S x (some l) c.lax ho

/-- the relational feed of the simulation is the functional one when no run ran out of fuel -/
theorem feed_of_feedOk {c : Ctx} {S : Node} {fuel : Nat} {t t' : St} {l l' xs : List Item}
    (h : FeedOk c S fuel t l xs t' l') (ho : t'.oof = false) (ys : List Item) :
    feed c S fuel t l (xs ++ ys) = feed c S fuel t' l' ys := by
  induction h with
  | nil t l => rfl
  | cons hk hnf hf htail ih =>
    rename_i t x l r l1 xs t' l'
    have hro : r.st.oof = false := oof_of_stkLe htail.stkLe ho
    have e := kr_eq hk hro
    rw [List.cons_append, feed_cons, e, if_neg hnf, hf]
    exact ih ho

/-- **composition, collect mode.**  `A` = run of `P S` on `v` collecting into `l`; `B` = run of `P` alone on `v`
    collecting into the empty list; `F` = the items of `B` fed to `S`.  If the composed run finished
    (`oof = false`): when a run of `S` fails, `A` is that failure (status, error, result list); otherwise
    `A` returns the list the feed produced, with `B`'s error and failure status, and `B`'s final state plus the
    sticky flags of the feed. -/
theorem compose_collect (c : Ctx) (S : Node) (hS : Indep sufFlags S = true) (fuel : Nat) (s : St)
    (hb : s.budget = none) (P : Node) (hc : s.ignoreSE = true ∨ NoAny P = true) (l : List Item) (v : Item) (u : Bool)
    (hfuel : (xItem c fuel s (append P S) v (some l) u).st.oof = false) :
    let A := xItem c fuel s (append P S) v (some l) u
    let B := xItem c fuel s P v (some []) u
    let F := feed c S fuel s l (B.found.getD [])
    (F.status = .failed →
      A.status = .failed ∧ A.err = F.err ∧ A.found = F.found ∧ StkLe F.st A.st ∧ StkLe A.st (mix F.st B.st)) ∧
    (F.status ≠ .failed →
      A.found = F.found ∧ A.err = B.err ∧ (A.status = .failed ↔ B.status = .failed) ∧ A.st = mix F.st B.st) := by
  intro A B F
  rcases compose_rel c S fuel hS fuel (Nat.le_refl _) s hb P hc l v u with
    ⟨xs, t', l', h1, h2, h3, h4, h5, h6⟩ | ⟨xs, x, rest, t1, l1, Fr, h1, h2, h3, h4, h5, h6, h7, h8, h9⟩
  · have hxs : B.found.getD [] = xs := by
      show (xItem c fuel s P v (some []) u).found.getD [] = xs
      rw [h1]; simp
    have hto : t'.oof = false := by
      have : (mix t' B.st).oof = false := by rw [← h4]; exact hfuel
      simp at this; exact this.2
    have hF : F = ⟨t', some l', .ok, none⟩ := by
      show feed c S fuel s l (B.found.getD []) = _
      rw [hxs]
      have := feed_of_feedOk h2 hto []
      rw [List.append_nil] at this
      rw [this]; rfl
    rw [hF]
    exact ⟨fun h => absurd h (by simp), fun _ => ⟨h3, h5, h6, h4⟩⟩
  · have hxs : B.found.getD [] = xs ++ x :: rest := by
      show (xItem c fuel s P v (some []) u).found.getD [] = _
      rw [h1]; simp
    have hFo : Fr.st.oof = false := oof_of_stkLe h8 hfuel
    have hto : t1.oof = false := oof_of_stkLe h3.stkLe hFo
    have hF : F = Fr := by
      show feed c S fuel s l (B.found.getD []) = _
      rw [hxs, feed_of_feedOk h2 hto, feed_cons, kr_eq h3 hFo, if_pos h4]
    rw [hF]
    exact ⟨fun _ => ⟨h5, h6, h7, h8, h9⟩, fun h => absurd h4 h⟩

/-! ## the level of `exec.Query` -/

/-- `S` can be evaluated on its own: no `$`, no `@` outside a filter, no `last` outside a subscript,
    no `.keyvalue()` -/
def rootIndependent (S : Node) : Bool := Indep closedFlags S

/-- the same query with another root chain -/
def withRoot (a : AST) (n : Node) : AST := { a with root := n }

/-- the path `$ S` -/
def dollar (S : Node) : Node := .const .root (some S)

/-- the run finished (no fuel exhaustion, no panic), did not fail, and returned `ys` -/
structure Ran (r : Res) (ys : List Item) : Prop where
  oof : r.st.oof = false
  panicked : r.st.panicked = false
  ok : r.status ≠ .failed
  found : r.found = some ys

theorem execute_eq (fuel : Nat) (a : AST) (doc : Item) (o : Opts) :
    execute fuel a doc o = xItem (mkCtx a doc o) fuel (initSt a doc o) a.root doc (some []) a.lax := by
  simp [execute, query, executeItem, mkCtx]

theorem Ran.query {fuel : Nat} {a : AST} {doc : Item} {o : Opts} {ys : List Item}
    (h : Ran (execute fuel a doc o) ys) : queryWith fuel a doc o = .items ys := by
  have hg := execute_good fuel a doc o
  have he : (execute fuel a doc o).err = none := err_none_of_good hg h.ok
  unfold queryWith guarded
  simp only [h.oof, h.panicked, he, h.found]
  rfl

/-- the state in which `$ S` evaluates `S`: the initial state with the base object set by `$` -/
def sepSt (a : AST) (x : Item) (o : Opts) : St := { initSt a x o with baseAddr := o.addrOf x, baseId := 0 }

/-- the run of `S` inside `Query($ S, x)` (with one unit of fuel less than the query) -/
def sepRun (a : AST) (S : Node) (x : Item) (o : Opts) (k : Nat) : Res :=
  xItem (mkCtx a x o) k (sepSt a x o) S x (some []) a.lax

theorem execute_dollar (k : Nat) (a : AST) (S : Node) (x : Item) (o : Opts) (ho : o.budget = none) :
    execute (k + 1) (withRoot a (dollar S)) x o =
      { sepRun a S x o k with st := { (sepRun a S x o k).st with baseAddr := 0, baseId := 0 } } := by
  rw [execute_eq]
  simp only [withRoot, dollar, xItem]
  rw [poll_of_budget_none (by simpa [initSt] using ho)]
  simp only [dispatch, execConstNode, withBaseObject, executeNextItem, executeItem, mkCtx, initSt, sepRun, sepSt]

theorem execute_dollar_zero (a : AST) (S : Node) (x : Item) (o : Opts) :
    (execute 0 (withRoot a (dollar S)) x o).st.oof = true := by
  rw [execute_eq]; simp [xItem]

/-- what `Query($ S, x)` observes is what its run of `S` observes -/
theorem ran_dollar {k : Nat} {a : AST} {S : Node} {x : Item} {o : Opts} {ys : List Item} (ho : o.budget = none)
    (h : Ran (execute k (withRoot a (dollar S)) x o) ys) : ∃ k', Ran (sepRun a S x o k') ys := by
  cases k with
  | zero => have := execute_dollar_zero a S x o; rw [h.oof] at this; exact absurd this (by simp)
  | succ k' =>
    rw [execute_dollar k' a S x o ho] at h
    exact ⟨k', h.oof, h.panicked, h.ok, h.found⟩

/-! ### the feed in terms of the separate queries -/

/-- `R xᵢ ysᵢ` for all `i` (two lists of the same length) -/
inductive Each (R : Item → List Item → Prop) : List Item → List (List Item) → Prop
  | nil : Each R [] []
  | cons {x : Item} {ys : List Item} {xs : List Item} {yss : List (List Item)} :
      R x ys → Each R xs yss → Each R (x :: xs) (ys :: yss)

section sep
variable (a : AST) (S : Node) (doc : Item) (o : Opts)

/-- a feed state: the flags and the budget are those of the query -/
def Compat (t : St) : Prop := t.verbose = (!o.silent) ∧ t.ignoreSE = a.lax ∧ t.budget = none

theorem compat_init (ho : o.budget = none) : Compat a o (initSt a doc o) := ⟨rfl, rfl, ho⟩

theorem compat_mix {t : St} (r : St) (h : Compat a o t) : Compat a o (mix r t) := h

theorem feed_stkLe (c : Ctx) (fuel : Nat) (t : St) (l xs : List Item) : StkLe t (feed c S fuel t l xs).st := by
  induction xs generalizing t l with
  | nil => exact StkLe.refl t
  | cons x xs ih =>
    rw [feed_cons]
    split
    · exact xItem_stkLe c fuel t S x (some l) c.lax
    · exact (xItem_stkLe c fuel t S x (some l) c.lax).trans (ih _ _)

theorem feed_head_oof (c : Ctx) (fuel : Nat) (t : St) (l : List Item) (x : Item) (xs : List Item)
    (h : (feed c S fuel t l (x :: xs)).st.oof = false) : (xItem c fuel t S x (some l) c.lax).st.oof = false := by
  rw [feed_cons] at h
  split at h
  · exact h
  · exact oof_of_stkLe (feed_stkLe S c fuel _ _ xs) h

/-- one run of the feed is the run of `S` inside `Query($ S, x)`, moved to the feed state -/
theorem feedRun_eq (hS : rootIndependent S = true) (ho : o.budget = none) (fuel k : Nat) (t : St)
    (hc : Compat a o t) (x : Item) (l : List Item)
    (h1 : (xItem (mkCtx a doc o) fuel t S x (some l) a.lax).st.oof = false)
    (h2 : (sepRun a S x o k).st.oof = false) :
    xItem (mkCtx a doc o) fuel t S x (some l) a.lax =
      ⟨mix (sepRun a S x o k).st t, some (l ++ (sepRun a S x o k).found.getD []), (sepRun a S x o k).status,
        (sepRun a S x o k).err⟩ := by
  have hto : t.oof = false := oof_of_stkLe (xItem_stkLe _ fuel t S x (some l) a.lax) h1
  have htr := transfer (mkCtx a x o) doc S hS k (sepSt a x o) t x l a.lax hc.1.symm hc.2.1.symm
    (by simpa [sepSt, initSt] using ho) hc.2.2
  have hm : mix (sepSt a x o) t = t := mix_of_stkLe ⟨by simp [sepSt, initSt], by simp [sepSt, initSt], by simp [sepSt, initSt]⟩
  rw [hm] at htr
  have hctx : setRoot (some doc) (mkCtx a x o) = mkCtx a doc o := rfl
  rw [hctx] at htr
  have hk : xItem (mkCtx a doc o) k t S x (some l) a.lax = _ := htr
  have hko : (xItem (mkCtx a doc o) k t S x (some l) a.lax).st.oof = false := by
    rw [hk]; simp [hto]; exact h2
  rcases Nat.le_total k fuel with hle | hle
  · rw [Exec.Fuel.xItem_mono _ k fuel hle t S x (some l) a.lax hko, hk]; rfl
  · rw [← Exec.Fuel.xItem_mono _ fuel k hle t S x (some l) a.lax h1, hk]; rfl

/-- all separate queries succeed: the feed succeeds and returns their concatenation -/
theorem feed_all_ran (hS : rootIndependent S = true) (ho : o.budget = none) (fuel : Nat) {xs : List Item}
    {yss : List (List Item)} (h : Each (fun x ys => ∃ k, Ran (sepRun a S x o k) ys) xs yss) :
    ∀ (t : St) (l : List Item), Compat a o t → t.panicked = false →
      (feed (mkCtx a doc o) S fuel t l xs).st.oof = false →
      (feed (mkCtx a doc o) S fuel t l xs).status ≠ .failed ∧
      (feed (mkCtx a doc o) S fuel t l xs).found = some (l ++ yss.flatten) ∧
      (feed (mkCtx a doc o) S fuel t l xs).st.panicked = false := by
  induction h with
  | nil => intro t l _ hp _; simp [feed_nil, hp]
  | @cons x ys xs yss hx _ ih =>
    obtain ⟨k, hr⟩ := hx
    intro t l hc hp hfo
    have h1 := feed_head_oof S (mkCtx a doc o) fuel t l x xs hfo
    have e := feedRun_eq a S doc o hS ho fuel k t hc x l h1 hr.oof
    have e' : xItem (mkCtx a doc o) fuel t S x (some l) (mkCtx a doc o).lax = _ := e
    rw [feed_cons, e'] at hfo ⊢
    simp only [hr.found, Option.getD_some] at hfo ⊢
    rw [if_neg hr.ok] at hfo ⊢
    have := ih (mix (sepRun a S x o k).st t) (l ++ ys) hc (by simp [hp, hr.panicked]) hfo
    simpa [List.append_assoc] using this

/-- the first failing separate query: the feed fails there, with its error and the items found so far -/
theorem feed_first_fail (hS : rootIndependent S = true) (ho : o.budget = none) (fuel : Nat) {xs1 : List Item}
    {yss1 : List (List Item)} (h : Each (fun x ys => ∃ k, Ran (sepRun a S x o k) ys) xs1 yss1)
    (x : Item) (xs2 : List Item) (k : Nat) (zs : List Item)
    (hxo : (sepRun a S x o k).st.oof = false) (hxp : (sepRun a S x o k).st.panicked = false)
    (hxf : (sepRun a S x o k).status = .failed) (hxz : (sepRun a S x o k).found = some zs) :
    ∀ (t : St) (l : List Item), Compat a o t → t.panicked = false →
      (feed (mkCtx a doc o) S fuel t l (xs1 ++ x :: xs2)).st.oof = false →
      (feed (mkCtx a doc o) S fuel t l (xs1 ++ x :: xs2)).status = .failed ∧
      (feed (mkCtx a doc o) S fuel t l (xs1 ++ x :: xs2)).err = (sepRun a S x o k).err ∧
      (feed (mkCtx a doc o) S fuel t l (xs1 ++ x :: xs2)).found = some (l ++ yss1.flatten ++ zs) ∧
      (feed (mkCtx a doc o) S fuel t l (xs1 ++ x :: xs2)).st.panicked = false := by
  induction h with
  | nil =>
    intro t l hc hp hfo
    simp only [List.nil_append] at hfo ⊢
    have h1 := feed_head_oof S (mkCtx a doc o) fuel t l x xs2 hfo
    have e := feedRun_eq a S doc o hS ho fuel k t hc x l h1 hxo
    have e' : xItem (mkCtx a doc o) fuel t S x (some l) (mkCtx a doc o).lax = _ := e
    rw [feed_cons, e']
    simp only [hxf, if_true, hxz, Option.getD_some, List.flatten_nil, List.append_nil, mix_panicked, hp, hxp]
    exact ⟨trivial, trivial, trivial, rfl⟩
  | @cons x' ys xs yss hx _ ih =>
    obtain ⟨k', hr⟩ := hx
    intro t l hc hp hfo
    simp only [List.cons_append] at hfo ⊢
    have h1 := feed_head_oof S (mkCtx a doc o) fuel t l x' (xs ++ x :: xs2) hfo
    have e := feedRun_eq a S doc o hS ho fuel k' t hc x' l h1 hr.oof
    have e' : xItem (mkCtx a doc o) fuel t S x' (some l) (mkCtx a doc o).lax = _ := e
    rw [feed_cons, e'] at hfo ⊢
    simp only [hr.found, Option.getD_some] at hfo ⊢
    rw [if_neg hr.ok] at hfo ⊢
    have := ih (mix (sepRun a S x' o k').st t) (l ++ ys) hc (by simp [hp, hr.panicked]) hfo
    simpa [List.append_assoc] using this

end sep

/-! ### (a), (b): `Query(P S, doc)` from `Query(P, doc)` and the `Query($ S, xᵢ)` -/

theorem rootIndependent_suf {S : Node} (hS : rootIndependent S = true) : Indep sufFlags S = true :=
  indep_mono S closedFlags sufFlags closed_le_suf hS

theorem each_dollar {a : AST} {S : Node} {o : Opts} (ho : o.budget = none) {xs : List Item} {yss : List (List Item)}
    (h : Each (fun x ys => ∃ k, Ran (execute k (withRoot a (dollar S)) x o) ys) xs yss) :
    Each (fun x ys => ∃ k, Ran (sepRun a S x o k) ys) xs yss := by
  induction h with
  | nil => exact Each.nil
  | cons hx _ ih => obtain ⟨k, hk⟩ := hx; exact Each.cons (ran_dollar ho hk) ih

/-- the instance of `compose_collect` for `exec.Query` -/
theorem execute_compose (fuel : Nat) (a : AST) (P S : Node) (doc : Item) (o : Opts)
    (hS : rootIndependent S = true) (ho : o.budget = none) (hchain : a.lax = true ∨ NoAny P = true)
    (hfuel : (execute fuel (withRoot a (append P S)) doc o).st.oof = false) :
    let A := execute fuel (withRoot a (append P S)) doc o
    let B := execute fuel (withRoot a P) doc o
    let F := feed (mkCtx a doc o) S fuel (initSt a doc o) [] (B.found.getD [])
    F.st.oof = false ∧
    (F.status = .failed →
      A.status = .failed ∧ A.err = F.err ∧ A.found = F.found ∧ StkLe A.st (mix F.st B.st)) ∧
    (F.status ≠ .failed →
      A.found = F.found ∧ A.err = B.err ∧ (A.status = .failed ↔ B.status = .failed) ∧ A.st = mix F.st B.st) := by
  intro A B F
  have hA : A = xItem (mkCtx a doc o) fuel (initSt a doc o) (append P S) doc (some []) a.lax := execute_eq _ _ _ _
  have hB : B = xItem (mkCtx a doc o) fuel (initSt a doc o) P doc (some []) a.lax := execute_eq _ _ _ _
  have hfuel' : (xItem (mkCtx a doc o) fuel (initSt a doc o) (append P S) doc (some []) a.lax).st.oof = false := by
    rw [← hA]; exact hfuel
  have h := compose_collect (mkCtx a doc o) S (rootIndependent_suf hS) fuel (initSt a doc o) ho P hchain [] doc a.lax hfuel'
  simp only [← hA, ← hB] at h
  obtain ⟨h1, h2⟩ := h
  have hFo : F.st.oof = false := by
    by_cases hf : F.status = .failed
    · exact oof_of_stkLe (h1 hf).2.2.2.1 hfuel
    · have := (h2 hf).2.2.2
      exact oof_of_stkLe (by rw [this]; exact stkLe_mix_left _ _) hfuel
  exact ⟨hFo, fun hf => ⟨(h1 hf).1, (h1 hf).2.1, (h1 hf).2.2.1, (h1 hf).2.2.2.2⟩, h2⟩

/-- **(a) success.**  If `Query(P, doc)` returns `xs` and every `Query($ S, xᵢ)` succeeds with `ysᵢ`
    (each with whatever fuel it needs), then `Query(P S, doc)` — with any fuel it finishes with —
    succeeds with `ys₁ ++ … ++ ys_m`. -/
theorem query_compose_items (fuel : Nat) (a : AST) (P S : Node) (doc : Item) (o : Opts) (xs : List Item)
    (yss : List (List Item)) (hS : rootIndependent S = true) (ho : o.budget = none)
    (hchain : a.lax = true ∨ NoAny P = true)
    (hfuel : (execute fuel (withRoot a (append P S)) doc o).st.oof = false)
    (hP : Ran (execute fuel (withRoot a P) doc o) xs)
    (hSs : Each (fun x ys => ∃ k, Ran (execute k (withRoot a (dollar S)) x o) ys) xs yss) :
    Ran (execute fuel (withRoot a (append P S)) doc o) yss.flatten := by
  obtain ⟨hFo, _, h2⟩ := execute_compose fuel a P S doc o hS ho hchain hfuel
  simp only [hP.found, Option.getD_some] at hFo h2
  have hSs' := each_dollar ho hSs
  obtain ⟨f1, f2, f3⟩ := feed_all_ran a S doc o hS ho fuel hSs' (initSt a doc o) [] (compat_init a doc o ho) rfl hFo
  obtain ⟨g1, g2, g3, g4⟩ := h2 f1
  refine ⟨hfuel, ?_, fun h => hP.ok (g3.1 h), by rw [g1, f2]; simp⟩
  rw [g4]; simp [hP.panicked, f3]

/-- (a) in terms of the outcome of `Query` -/
theorem queryWith_compose_items (fuel : Nat) (a : AST) (P S : Node) (doc : Item) (o : Opts) (xs : List Item)
    (yss : List (List Item)) (hS : rootIndependent S = true) (ho : o.budget = none)
    (hchain : a.lax = true ∨ NoAny P = true)
    (hfuel : queryWith fuel (withRoot a (append P S)) doc o ≠ .outOfFuel)
    (hP : Ran (execute fuel (withRoot a P) doc o) xs)
    (hSs : Each (fun x ys => ∃ k, Ran (execute k (withRoot a (dollar S)) x o) ys) xs yss) :
    queryWith fuel (withRoot a (append P S)) doc o = .items yss.flatten := by
  have ho' : (execute fuel (withRoot a (append P S)) doc o).st.oof = false := by
    cases h : (execute fuel (withRoot a (append P S)) doc o).st.oof with
    | false => rfl
    | true => exact absurd (by unfold queryWith guarded; simp [h]) hfuel
  exact (query_compose_items fuel a P S doc o xs yss hS ho hchain ho' hP hSs).query

/-- **(b) first failure.**  If `Query(P, doc)` returns `xs₁ ++ x :: xs₂`, the queries `Query($ S, ·)` on `xs₁`
    succeed with `yss₁`, and the run of `Query($ S, x)` fails (without panic, within its fuel) with error `e`
    (`none` = suppressed, silent mode) having found `zs`, then the run of `Query(P S, doc)` fails with `e`
    having found `yss₁.flatten ++ zs`, and does not panic. -/
theorem query_compose_fails (fuel : Nat) (a : AST) (P S : Node) (doc : Item) (o : Opts) (xs1 xs2 : List Item) (x : Item)
    (yss1 : List (List Item)) (k : Nat) (zs : List Item) (hS : rootIndependent S = true) (ho : o.budget = none)
    (hchain : a.lax = true ∨ NoAny P = true)
    (hfuel : (execute fuel (withRoot a (append P S)) doc o).st.oof = false)
    (hP : Ran (execute fuel (withRoot a P) doc o) (xs1 ++ x :: xs2))
    (hSs : Each (fun x ys => ∃ k, Ran (execute k (withRoot a (dollar S)) x o) ys) xs1 yss1)
    (hxo : (execute k (withRoot a (dollar S)) x o).st.oof = false)
    (hxp : (execute k (withRoot a (dollar S)) x o).st.panicked = false)
    (hxf : (execute k (withRoot a (dollar S)) x o).status = .failed)
    (hxz : (execute k (withRoot a (dollar S)) x o).found = some zs) :
    let A := execute fuel (withRoot a (append P S)) doc o
    A.status = .failed ∧ A.err = (execute k (withRoot a (dollar S)) x o).err ∧
      A.found = some (yss1.flatten ++ zs) ∧ A.st.panicked = false := by
  intro A
  obtain ⟨hFo, h1, _⟩ := execute_compose fuel a P S doc o hS ho hchain hfuel
  simp only [hP.found, Option.getD_some] at hFo h1
  have hSs' := each_dollar ho hSs
  cases k with
  | zero => have := execute_dollar_zero a S x o; rw [hxo] at this; exact absurd this (by simp)
  | succ k' =>
    rw [execute_dollar k' a S x o ho] at hxo hxp hxf hxz ⊢
    obtain ⟨f1, f2, f3, f4⟩ := feed_first_fail a S doc o hS ho fuel hSs' x xs2 k' zs hxo hxp hxf hxz
      (initSt a doc o) [] (compat_init a doc o ho) rfl hFo
    obtain ⟨g1, g2, g3, g4⟩ := h1 f1
    refine ⟨g1, by rw [g2, f2], by rw [g3, f3]; simp, ?_⟩
    have := panicked_of_stkLe g4 (by simp [hP.panicked, f4])
    exact this

/-- (b) in terms of the outcome of `Query`, for an error that is reported -/
theorem queryWith_compose_fails (fuel : Nat) (a : AST) (P S : Node) (doc : Item) (o : Opts) (xs1 xs2 : List Item)
    (x : Item) (yss1 : List (List Item)) (k : Nat) (e : Err) (hS : rootIndependent S = true) (ho : o.budget = none)
    (hchain : a.lax = true ∨ NoAny P = true)
    (hfuel : queryWith fuel (withRoot a (append P S)) doc o ≠ .outOfFuel)
    (hP : Ran (execute fuel (withRoot a P) doc o) (xs1 ++ x :: xs2))
    (hSs : Each (fun x ys => ∃ k, Ran (execute k (withRoot a (dollar S)) x o) ys) xs1 yss1)
    (hx : queryWith k (withRoot a (dollar S)) x o = .error e) :
    queryWith fuel (withRoot a (append P S)) doc o = .error e := by
  have ho' : (execute fuel (withRoot a (append P S)) doc o).st.oof = false := by
    cases h : (execute fuel (withRoot a (append P S)) doc o).st.oof with
    | false => rfl
    | true => exact absurd (by unfold queryWith guarded; simp [h]) hfuel
  -- what the outcome `error e` says about the run
  have hx' : (execute k (withRoot a (dollar S)) x o).st.oof = false ∧
      (execute k (withRoot a (dollar S)) x o).st.panicked = false ∧
      (execute k (withRoot a (dollar S)) x o).err = some e := by
    unfold queryWith guarded at hx
    dsimp only at hx
    cases h1 : (execute k (withRoot a (dollar S)) x o).st.oof <;>
      cases h2 : (execute k (withRoot a (dollar S)) x o).st.panicked <;>
      cases h3 : (execute k (withRoot a (dollar S)) x o).err <;> simp_all
  have hg := execute_good k (withRoot a (dollar S)) x o
  have hxf : (execute k (withRoot a (dollar S)) x o).status = .failed := hg.errFailed (by simp [hx'.2.2])
  obtain ⟨zs, hzs⟩ := hg.shape.2 [] rfl
  have := query_compose_fails fuel a P S doc o xs1 xs2 x yss1 k ([] ++ zs) hS ho hchain ho' hP hSs hx'.1 hx'.2.1 hxf hzs
  obtain ⟨_, g2, _, g4⟩ := this
  unfold queryWith guarded
  simp only [ho', g4, g2, hx'.2.2]
  rfl

/-! ### (c): paths that start from a variable or a literal -/

/-- a head `H` (a chain without `.**`) that selects exactly the value `val`: `H S` on the document returns
    what `$ S` returns when the document is `val` -/
theorem head_items (fuel : Nat) (a : AST) (H S : Node) (doc val : Item) (o : Opts) (ys : List Item)
    (hS : rootIndependent S = true) (ho : o.budget = none) (hH : a.lax = true ∨ NoAny H = true)
    (hfuel : (execute fuel (withRoot a (append H S)) doc o).st.oof = false)
    (hhead : Ran (execute fuel (withRoot a H) doc o) [val])
    (hSv : ∃ k, Ran (execute k (withRoot a (dollar S)) val o) ys) :
    Ran (execute fuel (withRoot a (append H S)) doc o) ys := by
  have := query_compose_items fuel a H S doc o [val] [ys] hS ho hH hfuel hhead (Each.cons hSv Each.nil)
  simpa using this

/-- … and fails as `$ S` fails on `val` -/
theorem head_fails (fuel : Nat) (a : AST) (H S : Node) (doc val : Item) (o : Opts) (k : Nat) (zs : List Item)
    (hS : rootIndependent S = true) (ho : o.budget = none) (hH : a.lax = true ∨ NoAny H = true)
    (hfuel : (execute fuel (withRoot a (append H S)) doc o).st.oof = false)
    (hhead : Ran (execute fuel (withRoot a H) doc o) [val])
    (hxo : (execute k (withRoot a (dollar S)) val o).st.oof = false)
    (hxp : (execute k (withRoot a (dollar S)) val o).st.panicked = false)
    (hxf : (execute k (withRoot a (dollar S)) val o).status = .failed)
    (hxz : (execute k (withRoot a (dollar S)) val o).found = some zs) :
    let A := execute fuel (withRoot a (append H S)) doc o
    A.status = .failed ∧ A.err = (execute k (withRoot a (dollar S)) val o).err ∧ A.found = some zs ∧
      A.st.panicked = false := by
  have := query_compose_fails fuel a H S doc o [] [] val [] k zs hS ho hH hfuel (by simpa using hhead)
    Each.nil hxo hxp hxf hxz
  simpa using this

/-- the run of the bare variable `$name` -/
theorem ran_var (fuel : Nat) (a : AST) (name : List Char) (doc val : Item) (o : Opts) (ho : o.budget = none)
    (hv : o.vars.bind (Item.lookup name) = some val) :
    Ran (execute (fuel + 1) (withRoot a (.var name none)) doc o) [val] := by
  rw [execute_eq]
  simp only [withRoot, xItem]
  rw [poll_of_budget_none (by simpa [initSt] using ho)]
  simp only [dispatch, execVariable, mkCtx, hv, withBaseObject, executeNextItem, Found.append, initSt]
  exact ⟨rfl, rfl, by simp, rfl⟩

/-- the run of a bare string literal -/
theorem ran_str (fuel : Nat) (a : AST) (tx : List Char) (doc : Item) (o : Opts) (ho : o.budget = none) :
    Ran (execute (fuel + 1) (withRoot a (.str tx none)) doc o) [.str tx] := by
  rw [execute_eq]
  simp only [withRoot, xItem]
  rw [poll_of_budget_none (by simpa [initSt] using ho)]
  simp only [dispatch, execLiteral, executeNextItem, Found.append, initSt]
  exact ⟨rfl, rfl, by simp, rfl⟩

/-- the run of a bare integer literal -/
theorem ran_integer (fuel : Nat) (a : AST) (i : Int) (doc : Item) (o : Opts) (ho : o.budget = none) :
    Ran (execute (fuel + 1) (withRoot a (.integer i none)) doc o) [.int i] := by
  rw [execute_eq]
  simp only [withRoot, xItem]
  rw [poll_of_budget_none (by simpa [initSt] using ho)]
  simp only [dispatch, execLiteral, executeNextItem, Found.append, initSt]
  exact ⟨rfl, rfl, by simp, rfl⟩

theorem oof_zero (a : AST) (n : Node) (doc : Item) (o : Opts) : (execute 0 (withRoot a n) doc o).st.oof = true := by
  rw [execute_eq]; simp [xItem]

/-- **(c) variable head.**  `$name S` on any document returns what `$ S` returns on the value of the variable. -/
theorem query_var_head (fuel : Nat) (a : AST) (S : Node) (name : List Char) (doc val : Item) (o : Opts)
    (ys : List Item) (hS : rootIndependent S = true) (ho : o.budget = none)
    (hv : o.vars.bind (Item.lookup name) = some val)
    (hfuel : (execute fuel (withRoot a (.var name (some S))) doc o).st.oof = false)
    (hSv : ∃ k, Ran (execute k (withRoot a (dollar S)) val o) ys) :
    Ran (execute fuel (withRoot a (.var name (some S))) doc o) ys := by
  have e : Node.var name (some S) = append (.var name none) S := by simp [append]
  rw [e] at hfuel ⊢
  cases fuel with
  | zero => rw [oof_zero] at hfuel; exact absurd hfuel (by simp)
  | succ f =>
    exact head_items (f + 1) a (.var name none) S doc val o ys hS ho (Or.inr (by simp [NoAny])) hfuel
      (ran_var f a name doc val o ho hv) hSv

/-- **(c) literal head** (string literal; `ran_integer` gives the same for integers). -/
theorem query_literal_head (fuel : Nat) (a : AST) (S : Node) (tx : List Char) (doc : Item) (o : Opts)
    (ys : List Item) (hS : rootIndependent S = true) (ho : o.budget = none)
    (hfuel : (execute fuel (withRoot a (.str tx (some S))) doc o).st.oof = false)
    (hSv : ∃ k, Ran (execute k (withRoot a (dollar S)) (.str tx) o) ys) :
    Ran (execute fuel (withRoot a (.str tx (some S))) doc o) ys := by
  have e : Node.str tx (some S) = append (.str tx none) S := by simp [append]
  rw [e] at hfuel ⊢
  cases fuel with
  | zero => rw [oof_zero] at hfuel; exact absurd hfuel (by simp)
  | succ f =>
    exact head_items (f + 1) a (.str tx none) S doc (.str tx) o ys hS ho (Or.inr (by simp [NoAny])) hfuel
      (ran_str f a tx doc o ho) hSv

/-! ## probe mode (`exec.Exists` in lax mode) -/

/-- feed the items `xs`, in order, to `S` in probe mode; stop at the first run that does not return `notFound`
    (a hit, or a failure) and return it -/
def feedProbe (c : Ctx) (S : Node) (fuel : Nat) : St → List Item → Res
  | t, [] => ⟨t, none, .notFound, none⟩
  | t, x :: xs =>
    let r := xItem c fuel t S x none c.lax
    if r.status = .notFound then feedProbe c S fuel r.st xs else r

theorem feedProbe_cons (c : Ctx) (S : Node) (fuel : Nat) (t : St) (x : Item) (xs : List Item) :
    feedProbe c S fuel t (x :: xs) =
      if (xItem c fuel t S x none c.lax).status = .notFound then feedProbe c S fuel (xItem c fuel t S x none c.lax).st xs
      else xItem c fuel t S x none c.lax := rfl

theorem krp_eq {c : Ctx} {S : Node} {fuel : Nat} {t : St} {x : Item} {r : Res}
    (h : KRp c S fuel t x r) (ho : r.st.oof = false) : xItem c fuel t S x none c.lax = r := by
  obtain ⟨k, hle, rfl⟩ := h
  exact Exec.Fuel.xItem_mono c k fuel hle t S x none c.lax ho

theorem feedProbe_of_feedNF {c : Ctx} {S : Node} {fuel : Nat} {t t' : St} {xs : List Item}
    (h : FeedNF c S fuel t xs t') (ho : t'.oof = false) (ys : List Item) :
    feedProbe c S fuel t (xs ++ ys) = feedProbe c S fuel t' ys := by
  induction h with
  | nil t => rfl
  | @cons t x r xs t' hk hnf htail ih =>
    have hro : r.st.oof = false := oof_of_stkLe (htail.stkLe c S fuel) ho
    have e := krp_eq hk hro
    rw [List.cons_append, feedProbe_cons, e, if_pos hnf]
    exact ih ho

/-- **composition, probe mode.**  `A` = run of `P S` on `v` in probe mode; `B` = run of `P` alone collecting into
    the empty list; `F` = the items of `B` fed to `S` in probe mode.  If the composed run finished: when a run of
    `S` hits or fails, `A` is that result; otherwise `A` ends as `B` ended, without a hit. -/
theorem compose_probe (c : Ctx) (S : Node) (hS : Indep sufFlags S = true) (fuel : Nat) (s : St)
    (hb : s.budget = none) (P : Node) (hc : s.ignoreSE = true ∨ NoAny P = true) (v : Item) (u : Bool)
    (hfuel : (xItem c fuel s (append P S) v none u).st.oof = false) :
    let A := xItem c fuel s (append P S) v none u
    let B := xItem c fuel s P v (some []) u
    let F := feedProbe c S fuel s (B.found.getD [])
    A.found = none ∧
    (F.status ≠ .notFound →
      A.status = F.status ∧ A.err = F.err ∧ StkLe F.st A.st ∧ StkLe A.st (mix F.st B.st)) ∧
    (F.status = .notFound →
      A.err = B.err ∧ (A.status = .failed ↔ B.status = .failed) ∧ A.status ≠ .ok ∧ A.st = mix F.st B.st) := by
  intro A B F
  rcases compose_relP c S fuel hS fuel (Nat.le_refl _) s hb P hc v u with
    ⟨xs, t', h1, h2, h3, h4, h5, h6, h7⟩ | ⟨xs, x, rest, t1, Fr, h1, h2, h3, h4, h5, h6, h7, h8, h9⟩
  · have hxs : B.found.getD [] = xs := by
      show (xItem c fuel s P v (some []) u).found.getD [] = xs
      rw [h1]; simp
    have hto : t'.oof = false := by
      have : (mix t' B.st).oof = false := by rw [← h4]; exact hfuel
      simp at this; exact this.2
    have hF : F = ⟨t', none, .notFound, none⟩ := by
      show feedProbe c S fuel s (B.found.getD []) = _
      rw [hxs]
      have := feedProbe_of_feedNF h2 hto []
      rw [List.append_nil] at this
      rw [this]; rfl
    rw [hF]
    exact ⟨h3, fun h => absurd rfl h, fun _ => ⟨h5, h6, h7, h4⟩⟩
  · have hxs : B.found.getD [] = xs ++ x :: rest := by
      show (xItem c fuel s P v (some []) u).found.getD [] = _
      rw [h1]; simp
    have hFo : Fr.st.oof = false := oof_of_stkLe h8 hfuel
    have hto : t1.oof = false := oof_of_stkLe (h3.stkLe c S fuel) hFo
    have hF : F = Fr := by
      show feedProbe c S fuel s (B.found.getD []) = _
      rw [hxs, feedProbe_of_feedNF h2 hto, feedProbe_cons, krp_eq h3 hFo, if_neg h4]
    rw [hF]
    exact ⟨h7, fun _ => ⟨h5, h6, h8, h9⟩, fun h => absurd h h4⟩

/-! ### `exec.Exists` (lax mode) from `Query(P, doc)` and the `Exists($ S, xᵢ)` -/

theorem existsRun_eq (fuel : Nat) (a : AST) (doc : Item) (o : Opts) (hl : a.lax = true) :
    existsRun fuel a doc o = xItem (mkCtx a doc o) fuel (initSt a doc o) a.root doc none a.lax := by
  simp [existsRun, query, executeItem, mkCtx, hl]

/-- the run of `S` inside `Exists($ S, x)` in lax mode -/
def sepRunP (a : AST) (S : Node) (x : Item) (o : Opts) (k : Nat) : Res :=
  xItem (mkCtx a x o) k (sepSt a x o) S x none a.lax

theorem existsRun_dollar (k : Nat) (a : AST) (S : Node) (x : Item) (o : Opts) (ho : o.budget = none)
    (hl : a.lax = true) :
    existsRun (k + 1) (withRoot a (dollar S)) x o =
      { sepRunP a S x o k with st := { (sepRunP a S x o k).st with baseAddr := 0, baseId := 0 } } := by
  rw [existsRun_eq _ _ _ _ (by simpa [withRoot] using hl)]
  simp only [withRoot, dollar, xItem]
  rw [poll_of_budget_none (by simpa [initSt] using ho)]
  simp only [dispatch, execConstNode, withBaseObject, executeNextItem, executeItem, mkCtx, initSt, sepRunP, sepSt]

theorem existsRun_dollar_zero (a : AST) (S : Node) (x : Item) (o : Opts) (hl : a.lax = true) :
    (existsRun 0 (withRoot a (dollar S)) x o).st.oof = true := by
  rw [existsRun_eq _ _ _ _ (by simpa [withRoot] using hl)]; simp [xItem]

/-- a run of a closed `S` in probe mode does not depend on where it happens -/
theorem transferP (c' : Ctx) (d : Item) (S : Node) (hS : Indep closedFlags S = true) (k : Nat) (s1 t : St)
    (x : Item) (u : Bool) (hv : s1.verbose = t.verbose) (hi : s1.ignoreSE = t.ignoreSE)
    (hb1 : s1.budget = none) (hb2 : t.budget = none) :
    xItem (setRoot (some d) c') k (mix s1 t) S x none u =
      ⟨mix (xItem c' k s1 S x none u).st t, none, (xItem c' k s1 S x none u).status, (xItem c' k s1 S x none u).err⟩ := by
  have h := (frame_all (some d) c' k).1 (tgt t []) s1 S x none u hS
  have hg := xItem_good c' k s1 S x none u
  rw [tgt_st [] hv hi (hb1.trans hb2.symm)] at h
  simp only [Shift.fd_none] at h
  rw [h]
  have hctx := hg.ctx
  simp [St.ctxEq] at hctx
  simp only [Shift.res, hg.shape.1 rfl, Shift.fd_none]
  congr 1
  exact tgt_st [] (by rw [hctx.2.2.2.2.2, hv]) (by rw [hctx.2.2.2.2.1, hi])
    ((xItem_bud c' k s1 S x none u hb1).trans hb2.symm)

section sepP
variable (a : AST) (S : Node) (doc : Item) (o : Opts)

theorem feedProbe_stkLe (c : Ctx) (fuel : Nat) (t : St) (xs : List Item) : StkLe t (feedProbe c S fuel t xs).st := by
  induction xs generalizing t with
  | nil => exact StkLe.refl t
  | cons x xs ih =>
    rw [feedProbe_cons]
    split
    · exact (xItem_stkLe c fuel t S x none c.lax).trans (ih _)
    · exact xItem_stkLe c fuel t S x none c.lax

theorem feedProbe_head_oof (c : Ctx) (fuel : Nat) (t : St) (x : Item) (xs : List Item)
    (h : (feedProbe c S fuel t (x :: xs)).st.oof = false) : (xItem c fuel t S x none c.lax).st.oof = false := by
  rw [feedProbe_cons] at h
  split at h
  · exact oof_of_stkLe (feedProbe_stkLe S c fuel _ xs) h
  · exact h

theorem probeRun_eq (hS : rootIndependent S = true) (ho : o.budget = none) (fuel k : Nat) (t : St)
    (hc : Compat a o t) (x : Item)
    (h1 : (xItem (mkCtx a doc o) fuel t S x none a.lax).st.oof = false)
    (h2 : (sepRunP a S x o k).st.oof = false) :
    xItem (mkCtx a doc o) fuel t S x none a.lax =
      ⟨mix (sepRunP a S x o k).st t, none, (sepRunP a S x o k).status, (sepRunP a S x o k).err⟩ := by
  have hto : t.oof = false := oof_of_stkLe (xItem_stkLe _ fuel t S x none a.lax) h1
  have htr := transferP (mkCtx a x o) doc S hS k (sepSt a x o) t x a.lax hc.1.symm hc.2.1.symm
    (by simpa [sepSt, initSt] using ho) hc.2.2
  have hm : mix (sepSt a x o) t = t := mix_of_stkLe ⟨by simp [sepSt, initSt], by simp [sepSt, initSt], by simp [sepSt, initSt]⟩
  rw [hm] at htr
  have hctx : setRoot (some doc) (mkCtx a x o) = mkCtx a doc o := rfl
  rw [hctx] at htr
  have hk : xItem (mkCtx a doc o) k t S x none a.lax = _ := htr
  have hko : (xItem (mkCtx a doc o) k t S x none a.lax).st.oof = false := by
    rw [hk]; simp [hto]; exact h2
  rcases Nat.le_total k fuel with hle | hle
  · rw [Exec.Fuel.xItem_mono _ k fuel hle t S x none a.lax hko, hk]; rfl
  · rw [← Exec.Fuel.xItem_mono _ fuel k hle t S x none a.lax h1, hk]; rfl

/-- the separate run finished cleanly with `notFound` -/
structure RanNF (r : Res) : Prop where
  oof : r.st.oof = false
  panicked : r.st.panicked = false
  nf : r.status = .notFound

/-- no separate probe hits or fails: neither does the feed -/
theorem feedProbe_all_nf (hS : rootIndependent S = true) (ho : o.budget = none) (fuel : Nat) (xs : List Item)
    (h : ∀ x ∈ xs, ∃ k, RanNF (sepRunP a S x o k)) :
    ∀ (t : St), Compat a o t → t.panicked = false →
      (feedProbe (mkCtx a doc o) S fuel t xs).st.oof = false →
      (feedProbe (mkCtx a doc o) S fuel t xs).status = .notFound ∧
      (feedProbe (mkCtx a doc o) S fuel t xs).st.panicked = false := by
  induction xs with
  | nil => intro t _ hp _; exact ⟨rfl, hp⟩
  | cons x xs ih =>
    intro t hc hp hfo
    obtain ⟨k, hr⟩ := h x (by simp)
    have h1 := feedProbe_head_oof S (mkCtx a doc o) fuel t x xs hfo
    have e := probeRun_eq a S doc o hS ho fuel k t hc x h1 hr.oof
    have e' : xItem (mkCtx a doc o) fuel t S x none (mkCtx a doc o).lax = _ := e
    rw [feedProbe_cons, e'] at hfo ⊢
    simp only [hr.nf, if_true] at hfo ⊢
    exact ih (fun y hy => h y (by simp [hy])) (mix (sepRunP a S x o k).st t) hc (by simp [hp, hr.panicked]) hfo

/-- the first separate probe that hits or fails decides -/
theorem feedProbe_first (hS : rootIndependent S = true) (ho : o.budget = none) (fuel : Nat) (xs1 : List Item)
    (h : ∀ x ∈ xs1, ∃ k, RanNF (sepRunP a S x o k)) (x : Item) (xs2 : List Item) (k : Nat)
    (hxo : (sepRunP a S x o k).st.oof = false) (hxp : (sepRunP a S x o k).st.panicked = false)
    (hxs : (sepRunP a S x o k).status ≠ .notFound) :
    ∀ (t : St), Compat a o t → t.panicked = false →
      (feedProbe (mkCtx a doc o) S fuel t (xs1 ++ x :: xs2)).st.oof = false →
      (feedProbe (mkCtx a doc o) S fuel t (xs1 ++ x :: xs2)).status = (sepRunP a S x o k).status ∧
      (feedProbe (mkCtx a doc o) S fuel t (xs1 ++ x :: xs2)).err = (sepRunP a S x o k).err ∧
      (feedProbe (mkCtx a doc o) S fuel t (xs1 ++ x :: xs2)).st.panicked = false := by
  induction xs1 with
  | nil =>
    intro t hc hp hfo
    simp only [List.nil_append] at hfo ⊢
    have h1 := feedProbe_head_oof S (mkCtx a doc o) fuel t x xs2 hfo
    have e := probeRun_eq a S doc o hS ho fuel k t hc x h1 hxo
    have e' : xItem (mkCtx a doc o) fuel t S x none (mkCtx a doc o).lax = _ := e
    rw [feedProbe_cons, e']
    simp only [hxs, if_false, mix_panicked, hp, hxp]
    exact ⟨trivial, trivial, rfl⟩
  | cons x' xs ih =>
    intro t hc hp hfo
    simp only [List.cons_append] at hfo ⊢
    obtain ⟨k', hr⟩ := h x' (by simp)
    have h1 := feedProbe_head_oof S (mkCtx a doc o) fuel t x' (xs ++ x :: xs2) hfo
    have e := probeRun_eq a S doc o hS ho fuel k' t hc x' h1 hr.oof
    have e' : xItem (mkCtx a doc o) fuel t S x' none (mkCtx a doc o).lax = _ := e
    rw [feedProbe_cons, e'] at hfo ⊢
    simp only [hr.nf, if_true] at hfo ⊢
    exact ih (fun y hy => h y (by simp [hy])) (mix (sepRunP a S x' o k').st t) hc (by simp [hp, hr.panicked]) hfo

end sepP

theorem ranNF_dollar {k : Nat} {a : AST} {S : Node} {x : Item} {o : Opts} (ho : o.budget = none) (hl : a.lax = true)
    (h : RanNF (existsRun k (withRoot a (dollar S)) x o)) : ∃ k', RanNF (sepRunP a S x o k') := by
  cases k with
  | zero => have := existsRun_dollar_zero a S x o hl; rw [h.oof] at this; exact absurd this (by simp)
  | succ k' =>
    rw [existsRun_dollar k' a S x o ho hl] at h
    exact ⟨k', h.oof, h.panicked, h.nf⟩

/-- the instance of `compose_probe` for `exec.Exists` in lax mode -/
theorem existsRun_compose (fuel : Nat) (a : AST) (P S : Node) (doc : Item) (o : Opts)
    (hS : rootIndependent S = true) (ho : o.budget = none) (hl : a.lax = true)
    (hfuel : (existsRun fuel (withRoot a (append P S)) doc o).st.oof = false) :
    let A := existsRun fuel (withRoot a (append P S)) doc o
    let B := execute fuel (withRoot a P) doc o
    let F := feedProbe (mkCtx a doc o) S fuel (initSt a doc o) (B.found.getD [])
    F.st.oof = false ∧
    (F.status ≠ .notFound → A.status = F.status ∧ A.err = F.err ∧ StkLe A.st (mix F.st B.st)) ∧
    (F.status = .notFound →
      A.err = B.err ∧ (A.status = .failed ↔ B.status = .failed) ∧ A.status ≠ .ok ∧ A.st = mix F.st B.st) := by
  intro A B F
  have hA : A = xItem (mkCtx a doc o) fuel (initSt a doc o) (append P S) doc none a.lax :=
    existsRun_eq _ _ _ _ (by simpa [withRoot] using hl)
  have hB : B = xItem (mkCtx a doc o) fuel (initSt a doc o) P doc (some []) a.lax := execute_eq _ _ _ _
  have hfuel' : (xItem (mkCtx a doc o) fuel (initSt a doc o) (append P S) doc none a.lax).st.oof = false := by
    rw [← hA]; exact hfuel
  have h := compose_probe (mkCtx a doc o) S (rootIndependent_suf hS) fuel (initSt a doc o) ho P (Or.inl hl) doc a.lax hfuel'
  simp only [← hA, ← hB] at h
  obtain ⟨_, h1, h2⟩ := h
  have hFo : F.st.oof = false := by
    by_cases hf : F.status = .notFound
    · have := (h2 hf).2.2.2
      exact oof_of_stkLe (by rw [this]; exact stkLe_mix_left _ _) hfuel
    · exact oof_of_stkLe (h1 hf).2.2.1 hfuel
  exact ⟨hFo, fun hf => ⟨(h1 hf).1, (h1 hf).2.1, (h1 hf).2.2.2⟩, h2⟩

theorem existsWith_of_fields {f1 f2 : Nat} {a1 a2 : AST} {d1 d2 : Item} {o1 o2 : Opts}
    (h1 : (existsRun f1 a1 d1 o1).st.oof = (existsRun f2 a2 d2 o2).st.oof)
    (h2 : (existsRun f1 a1 d1 o1).st.panicked = (existsRun f2 a2 d2 o2).st.panicked)
    (h3 : (existsRun f1 a1 d1 o1).err = (existsRun f2 a2 d2 o2).err)
    (h4 : (existsRun f1 a1 d1 o1).status = (existsRun f2 a2 d2 o2).status) :
    existsWith f1 a1 d1 o1 = existsWith f2 a2 d2 o2 := by
  unfold existsWith guarded
  dsimp only
  rw [h1, h2, h3, h4]

/-- **probe, no hit.**  Lax mode: if `Query(P, doc)` returns `xs` and every `Exists($ S, xᵢ)` is false (its run
    returns `notFound`), then `Exists(P S, doc)` is false. -/
theorem exists_compose_none (fuel : Nat) (a : AST) (P S : Node) (doc : Item) (o : Opts) (xs : List Item)
    (hS : rootIndependent S = true) (ho : o.budget = none) (hl : a.lax = true)
    (hfuel : existsWith fuel (withRoot a (append P S)) doc o ≠ .outOfFuel)
    (hP : Ran (execute fuel (withRoot a P) doc o) xs)
    (hSs : ∀ x ∈ xs, ∃ k, RanNF (existsRun k (withRoot a (dollar S)) x o)) :
    existsWith fuel (withRoot a (append P S)) doc o = .bool false := by
  have ho' : (existsRun fuel (withRoot a (append P S)) doc o).st.oof = false := by
    cases h : (existsRun fuel (withRoot a (append P S)) doc o).st.oof with
    | false => rfl
    | true => exact absurd (by unfold existsWith guarded; simp [h]) hfuel
  obtain ⟨hFo, _, h2⟩ := existsRun_compose fuel a P S doc o hS ho hl ho'
  simp only [hP.found, Option.getD_some] at hFo h2
  obtain ⟨f1, f2⟩ := feedProbe_all_nf a S doc o hS ho fuel xs (fun x hx => ranNF_dollar ho hl (hSs x hx).choose_spec)
    (initSt a doc o) (compat_init a doc o ho) rfl hFo
  obtain ⟨g1, g2, g3, g4⟩ := h2 f1
  have hBe : (execute fuel (withRoot a P) doc o).err = none := err_none_of_good (execute_good _ _ _ _) hP.ok
  have hnf : (existsRun fuel (withRoot a (append P S)) doc o).status ≠ .failed := fun h => hP.ok (g2.1 h)
  have hp : (existsRun fuel (withRoot a (append P S)) doc o).st.panicked = false := by
    rw [g4]; simp [hP.panicked, f2]
  unfold existsWith guarded
  simp only [ho', hp, g1, hBe, hnf]
  simp [g3]

/-- **probe, first hit or failure.**  Lax mode: if `Query(P, doc)` returns `xs₁ ++ x :: xs₂`, `Exists($ S, ·)` is
    false on `xs₁`, and `Exists($ S, x)` is true or an error, then `Exists(P S, doc)` answers as `Exists($ S, x)`. -/
theorem exists_compose_first (fuel : Nat) (a : AST) (P S : Node) (doc : Item) (o : Opts) (xs1 xs2 : List Item) (x : Item)
    (k : Nat) (hS : rootIndependent S = true) (ho : o.budget = none) (hl : a.lax = true)
    (hfuel : existsWith fuel (withRoot a (append P S)) doc o ≠ .outOfFuel)
    (hP : Ran (execute fuel (withRoot a P) doc o) (xs1 ++ x :: xs2))
    (hSs : ∀ x' ∈ xs1, ∃ k, RanNF (existsRun k (withRoot a (dollar S)) x' o))
    (hxo : (existsRun k (withRoot a (dollar S)) x o).st.oof = false)
    (hxp : (existsRun k (withRoot a (dollar S)) x o).st.panicked = false)
    (hxs : (existsRun k (withRoot a (dollar S)) x o).status ≠ .notFound) :
    existsWith fuel (withRoot a (append P S)) doc o = existsWith k (withRoot a (dollar S)) x o := by
  have ho' : (existsRun fuel (withRoot a (append P S)) doc o).st.oof = false := by
    cases h : (existsRun fuel (withRoot a (append P S)) doc o).st.oof with
    | false => rfl
    | true => exact absurd (by unfold existsWith guarded; simp [h]) hfuel
  obtain ⟨hFo, h1, _⟩ := existsRun_compose fuel a P S doc o hS ho hl ho'
  simp only [hP.found, Option.getD_some] at hFo h1
  cases k with
  | zero => have := existsRun_dollar_zero a S x o hl; rw [hxo] at this; exact absurd this (by simp)
  | succ k' =>
    have hd := existsRun_dollar k' a S x o ho hl
    rw [hd] at hxo hxp hxs
    obtain ⟨f1, f2, f3⟩ := feedProbe_first a S doc o hS ho fuel xs1
      (fun x' hx' => ranNF_dollar ho hl (hSs x' hx').choose_spec) x xs2 k' hxo hxp hxs
      (initSt a doc o) (compat_init a doc o ho) rfl hFo
    obtain ⟨g1, g2, g3⟩ := h1 (by rw [f1]; exact hxs)
    have hp : (existsRun fuel (withRoot a (append P S)) doc o).st.panicked = false :=
      panicked_of_stkLe g3 (by simp [hP.panicked, f3])
    refine existsWith_of_fields ?_ ?_ ?_ ?_
    · rw [ho', hd]; exact hxo.symm
    · rw [hp, hd]; exact hxp.symm
    · rw [g2, f2, hd]
    · rw [g1, f1, hd]

/-! ## non-vacuity and counterexamples (all by evaluation) -/

section examples

theorem ne_failed_of_ok {r : Res} (h : r.status = .ok) : r.status ≠ .failed := by rw [h]; simp

def kA : List Char := ['a']
def kB : List Char := ['b']
/-- `$.a[*]` -/
def exP : Node := .const .root (some (.key kA (some (.const .anyArray none))))
/-- `.b` -/
def exS : Node := .key kB none
def exDoc : Item := .obj [(kA, .arr [.obj [(kB, .int 1)], .obj [(kB, .int 2)]])]

example : append exP exS = .const .root (some (.key kA (some (.const .anyArray (some (.key kB none)))))) := rfl
example : rootIndependent exS = true := rfl

/-- `$.a[*].b`, lax and strict -/
example : queryWith 20 ⟨append exP exS, true, false⟩ exDoc {} = .items [.int 1, .int 2] := rfl
example : queryWith 20 ⟨append exP exS, false, false⟩ exDoc {} = .items [.int 1, .int 2] := rfl
/-- its parts: `$.a[*]` and `$.b` on each item -/
example : queryWith 20 ⟨exP, false, false⟩ exDoc {} = .items [.obj [(kB, .int 1)], .obj [(kB, .int 2)]] := rfl
example : queryWith 20 ⟨dollar exS, false, false⟩ (.obj [(kB, .int 1)]) {} = .items [.int 1] := rfl
example : queryWith 20 ⟨dollar exS, false, false⟩ (.obj [(kB, .int 2)]) {} = .items [.int 2] := rfl

/-- the hypotheses of `queryWith_compose_items` are satisfiable: the theorem applied to concrete data -/
example : queryWith 20 (withRoot ⟨exP, false, false⟩ (append exP exS)) exDoc {} = .items [[Item.int 1], [Item.int 2]].flatten :=
  queryWith_compose_items 20 ⟨exP, false, false⟩ exP exS exDoc {} [.obj [(kB, .int 1)], .obj [(kB, .int 2)]]
    [[.int 1], [.int 2]] rfl rfl (Or.inr rfl)
    (by rw [show queryWith 20 (withRoot ⟨exP, false, false⟩ (append exP exS)) exDoc {} = .items [.int 1, .int 2] from rfl]
        intro h; cases h)
    ⟨rfl, rfl, ne_failed_of_ok rfl, rfl⟩
    (Each.cons ⟨20, rfl, rfl, ne_failed_of_ok rfl, rfl⟩ (Each.cons ⟨20, rfl, rfl, ne_failed_of_ok rfl, rfl⟩ Each.nil))

/-- first failure, strict: the second element has no `b` -/
def exDoc2 : Item := .obj [(kA, .arr [.obj [(kB, .int 1)], .obj [], .obj [(kB, .int 3)]])]
example : queryWith 20 ⟨append exP exS, false, false⟩ exDoc2 {} = .error .verbose := rfl
example : queryWith 20 ⟨dollar exS, false, false⟩ (.obj []) {} = .error .verbose := rfl
/-- … lax: the missing key is skipped -/
example : queryWith 20 ⟨append exP exS, true, false⟩ exDoc2 {} = .items [.int 1, .int 3] := rfl

/-- **`.**` in `P`, strict mode: the law fails.**  `strict $.**` selects `{"x":1}` and `1`; `strict $.b` raises a
    structural error on both; but `strict $.**.b` returns the empty list, because `.**` switches
    `ignoreStructuralErrors` on for the rest of the chain.  Hence the side condition `a.lax ∨ NoAny P`. -/
def exAny : Node := .const .root (some (.any 0 maxU32 none))
def exDocX : Item := .obj [(['x'], .int 1)]
theorem counterexample_anyStrict :
    queryWith 20 ⟨exAny, false, false⟩ exDocX {} = .items [exDocX, .int 1] ∧
    queryWith 20 ⟨dollar exS, false, false⟩ exDocX {} = .error .verbose ∧
    queryWith 20 ⟨dollar exS, false, false⟩ (.int 1) {} = .error .verbose ∧
    queryWith 20 ⟨append exAny exS, false, false⟩ exDocX {} = .items [] := ⟨rfl, rfl, rfl, rfl⟩

/-- **silent mode: the law fails for the outcomes of `Query`.**  `strict $[*].a` on `[{"a":1},{},{"a":3}]` with
    `WithSilent`: the run fails (suppressed) at the second element and `Query` returns what was found so far,
    `[1]`; the separate queries return `[1]`, `[]` (a suppressed failure, indistinguishable from an empty
    result) and `[3]`, whose concatenation is `[1,3]`.  Hence the statements about the runs (`Ran`, status). -/
def exStar : Node := .const .root (some (.const .anyArray none))
def exSa : Node := .key kA none
def exDoc3 : Item := .arr [.obj [(kA, .int 1)], .obj [], .obj [(kA, .int 3)]]
theorem counterexample_silent :
    queryWith 20 ⟨exStar, false, false⟩ exDoc3 { silent := true } = .items [.obj [(kA, .int 1)], .obj [], .obj [(kA, .int 3)]] ∧
    queryWith 20 ⟨dollar exSa, false, false⟩ (.obj [(kA, .int 1)]) { silent := true } = .items [.int 1] ∧
    queryWith 20 ⟨dollar exSa, false, false⟩ (.obj []) { silent := true } = .items [] ∧
    queryWith 20 ⟨dollar exSa, false, false⟩ (.obj [(kA, .int 3)]) { silent := true } = .items [.int 3] ∧
    queryWith 20 ⟨append exStar exSa, false, false⟩ exDoc3 { silent := true } = .items [.int 1] ∧
    (execute 20 ⟨dollar exSa, false, false⟩ (.obj []) { silent := true }).status = .failed :=
  ⟨rfl, rfl, rfl, rfl, rfl, rfl⟩

/-! the four things `rootIndependent` excludes from `S`, each with a run where the law would fail -/

/-- `$.a` -/
def exPa : Node := .const .root (some (.key kA none))

/-- **`.keyvalue()` in `S`**: the generated ids are offsets from the base object, which is the document in
    `$.a.keyvalue()` but the item itself in `$.keyvalue()` (here `addrOf` = size of the value, so that the two
    containers have different addresses: id 1 vs id 0) -/
theorem counterexample_keyvalue :
    rootIndependent (.method .keyvalue none) = false ∧
    queryWith 20 ⟨append exPa (.method .keyvalue none), true, false⟩ (.obj [(kA, .obj [(['k'], .int 1)])]) { addrOf := Item.size }
      = .items [kvObj 1 (['k'], .int 1)] ∧
    queryWith 20 ⟨dollar (.method .keyvalue none), true, false⟩ (.obj [(['k'], .int 1)]) { addrOf := Item.size }
      = .items [kvObj 0 (['k'], .int 1)] := ⟨rfl, rfl, rfl⟩

/-- **`@` outside a filter in `S`** denotes the document in `P S`, the item in `$ S` (not parseable, but an AST) -/
theorem counterexample_current :
    rootIndependent (.const .current none) = false ∧
    queryWith 20 ⟨append exPa (.const .current none), true, false⟩ (.obj [(kA, .int 5)]) {} = .items [.obj [(kA, .int 5)]] ∧
    queryWith 20 ⟨dollar (.const .current none), true, false⟩ (.int 5) {} = .items [.int 5] := ⟨rfl, rfl, rfl⟩

/-- **`last` outside a subscript of `S`**: after `$[0]` the executor still has the size of the subscripted array
    (`[10,20]`, so `last` = 1), whereas `$ last` is an error -/
theorem counterexample_last :
    rootIndependent (.const .last none) = false ∧
    queryWith 20 ⟨append (.const .root (some (.arrayIndex [.binary .subscript (some (.integer 0 none)) none none] none)))
        (.const .last none), true, false⟩ (.arr [.int 10, .int 20]) {} = .items [.int 1] ∧
    queryWith 20 ⟨dollar (.const .last none), true, false⟩ (.int 10) {} = .error (.hard .lastOutside) := ⟨rfl, rfl, rfl⟩

/-- **`$` in `S`** (what the property itself excludes) -/
theorem counterexample_root :
    rootIndependent (.const .root none) = false ∧
    queryWith 20 ⟨append exPa (.const .root none), true, false⟩ (.obj [(kA, .int 5)]) {} = .items [.obj [(kA, .int 5)]] ∧
    queryWith 20 ⟨dollar (.const .root none), true, false⟩ (.int 5) {} = .items [.int 5] := ⟨rfl, rfl, rfl⟩

/-- bound occurrences are allowed: `@` in a filter, `last` in a subscript -/
example : rootIndependent (.unary .filter (some (.binary .gt (some (.const .current none)) (some (.integer 1 none)) none))
    (some (.arrayIndex [.binary .subscript (some (.const .last none)) none none] none))) = true := rfl

/-! probe mode (`exec.Exists`, lax) -/
example : existsWith 20 ⟨append exP exS, true, false⟩ exDoc {} = .bool true := rfl
example : existsWith 20 ⟨append exP (.key ['z'] none), true, false⟩ exDoc {} = .bool false := rfl
example : existsWith 20 ⟨dollar exS, true, false⟩ (.obj [(kB, .int 1)]) {} = .bool true := rfl
example : (existsRun 20 ⟨dollar (.key ['z'] none), true, false⟩ (.obj [(kB, .int 1)]) {}).status = .notFound := rfl

end examples

end C09b
end Sqljson
