import Sqljson.Lemmas.ApiGood
/-!
# C06 — Query, First, Exists, Match and ExistsOrMatch tell one story

* `first_of_query`: First is the first item of Query's result (nil if empty) with the same error —
  they read the same executor run;
* `match_of_query`: Match is the sole boolean of Query's result, `NULL` for a sole null, otherwise the
  single-boolean-expected error (`NULL` when silent), with Query's error if it has one;
* `exists_or_match`: ExistsOrMatch is Match for predicate check expressions, Exists otherwise;
* `strict_exists_same_run`: in strict mode Exists evaluates exactly the run Query evaluates (it
  collects the complete list), hence `strict_exists_error` — it returns the very error Query returns —
  and `strict_exists_of_query` — when that run does not fail, Exists is "the list is non-empty";
* `exists_never_both`: Exists answers `true`/`false` only from a run that did not fail; a failed run
  is the error or `NULL`;
* `null_only_from_exists_match`: Query and First never return `NULL`.

The lax-mode relation between the probing run of Exists and the collecting run of Query
(`exists_true_sound`, `exists_of_query`) is the probe/collect simulation of `Props/C06b.lean`.
Known finding D8 (pinned by the suite's `TestExecUnaryMathExpr/nan`): lax `-"a"`: Query errs,
Exists is `true`.
-/

namespace Sqljson
namespace C06
open Exec Api

/-- First read off Query's outcome -/
def firstOf : Outcome → Outcome
  | .items xs => .first xs.head?
  | other => other

/-- Match read off Query's outcome -/
def matchOf (silent : Bool) : Outcome → Outcome
  | .items [.null] => .null
  | .items [.bool b] => .bool b
  | .items _ => if !silent then .error .verbose else .null
  | other => other

theorem first_of_query (fuel : Nat) (a : AST) (doc : Item) (o : Opts) :
    firstWith fuel a doc o = firstOf (queryWith fuel a doc o) := by
  unfold firstWith queryWith guarded
  generalize execute fuel a doc o = r
  cases hoof : r.st.oof <;> cases hpan : r.st.panicked <;> cases herr : r.err <;> simp [firstOf, hoof, hpan, herr]

theorem match_of_query (fuel : Nat) (a : AST) (doc : Item) (o : Opts) :
    matchWith fuel a doc o = matchOf o.silent (queryWith fuel a doc o) := by
  unfold matchWith queryWith guarded
  generalize execute fuel a doc o = r
  cases hoof : r.st.oof <;> cases hpan : r.st.panicked <;> cases herr : r.err <;>
    simp [matchOf, hoof, hpan, herr]
  generalize r.found.getD [] = xs
  split <;> simp_all [matchOf]

theorem exists_or_match (fuel : Nat) (a : AST) (doc : Item) (o : Opts) :
    existsOrMatchWith fuel a doc o = if a.pred then matchWith fuel a doc o else existsWith fuel a doc o := rfl

/-- strict mode: Exists runs the same collecting evaluation as Query -/
theorem strict_exists_same_run (fuel : Nat) (a : AST) (doc : Item) (o : Opts) (hs : a.lax = false) :
    let q := execute fuel a doc o
    existsRun fuel a doc o =
      (if q.status = .failed then ⟨q.st, none, .failed, q.err⟩
       else if (q.found.getD []).isEmpty then ⟨q.st, none, .notFound, none⟩
       else ⟨q.st, none, .ok, none⟩) := by
  simp [existsRun, execute, query, mkCtx, hs]

/-- strict mode: Exists never hides an error that Query reports — it returns that error -/
theorem strict_exists_error (fuel : Nat) (a : AST) (doc : Item) (o : Opts) (hs : a.lax = false) (e : Err)
    (hq : queryWith fuel a doc o = .error e) : existsWith fuel a doc o = .error e := by
  have hrun := strict_exists_same_run fuel a doc o hs
  have hg := execute_good fuel a doc o
  unfold queryWith guarded at hq
  unfold existsWith guarded
  dsimp only at hrun hq ⊢
  rw [hrun]
  generalize execute fuel a doc o = r at *
  cases hoof : r.st.oof <;> cases hpan : r.st.panicked <;> cases herr : r.err <;>
    simp [hoof, hpan, herr] at hq
  subst hq
  have hfail : r.status = .failed := hg.errFailed (by simp [herr])
  simp [hfail, hoof, hpan, herr]

/-- strict mode, a run that does not fail: Exists is "Query's list is non-empty" -/
theorem strict_exists_of_query (fuel : Nat) (a : AST) (doc : Item) (o : Opts) (hs : a.lax = false)
    (xs : List Item) (hq : queryWith fuel a doc o = .items xs)
    (hnf : (execute fuel a doc o).status ≠ .failed) :
    existsWith fuel a doc o = .bool (!xs.isEmpty) := by
  have hrun := strict_exists_same_run fuel a doc o hs
  unfold queryWith guarded at hq
  unfold existsWith guarded
  dsimp only at hrun hq ⊢
  rw [hrun]
  generalize execute fuel a doc o = r at *
  cases hoof : r.st.oof <;> cases hpan : r.st.panicked <;> cases herr : r.err <;>
    simp [hoof, hpan, herr] at hq
  subst hq
  simp only [hnf, if_false]
  cases hemp : (r.found.getD []).isEmpty <;> simp [hemp, hoof, hpan]

/-- Exists answers `true`/`false` only from a run that did not fail -/
theorem exists_never_both (fuel : Nat) (a : AST) (doc : Item) (o : Opts) (b : Bool)
    (h : existsWith fuel a doc o = .bool b) :
    (existsRun fuel a doc o).status ≠ .failed ∧ (existsRun fuel a doc o).err = none := by
  unfold existsWith guarded at h
  dsimp only at h
  generalize existsRun fuel a doc o = r at *
  cases hoof : r.st.oof <;> cases hpan : r.st.panicked <;> cases herr : r.err <;>
    simp [hoof, hpan, herr] at h
  refine ⟨?_, rfl⟩
  intro hf; simp [hf] at h

/-- `NULL` comes only from Exists, Match and ExistsOrMatch -/
theorem null_only_from_exists_match (fuel : Nat) (a : AST) (doc : Item) (o : Opts) :
    queryWith fuel a doc o ≠ .null ∧ firstWith fuel a doc o ≠ .null := by
  unfold queryWith firstWith guarded
  dsimp only
  generalize execute fuel a doc o = r
  cases hoof : r.st.oof <;> cases hpan : r.st.panicked <;> cases herr : r.err <;> simp [hoof, hpan, herr]

/-- D8 (known finding, pinned by the suite): lax `-"a"` — Query errs, Exists says true -/
theorem lax_unary_probe_counterexample :
    queryWith 10 ⟨.unary .minus (some (.str ['a'] none)) none, true, false⟩ .null {} = .error .verbose ∧
    existsWith 10 ⟨.unary .minus (some (.str ['a'] none)) none, true, false⟩ .null {} = .bool true :=
  ⟨rfl, rfl⟩

end C06
end Sqljson
