import Sqljson.Model.Ast
import Sqljson.Model.Lex
import Sqljson.Model.Print
import Sqljson.Model.Parse
/-!
# First theorems about the lexer / parser / printer model

* §1 `parse_ok_wf`, `parse_ok_rules` — an accepted AST satisfies `validateNode`, i.e. (by
                           `validNode_split`) it has no `@` at filter depth 0 and no `last`
                           outside a subscript.
* §2 operator tables    — the printed spelling of every binary operator lexes back to the token
                           from which the parser builds that operator; the priority table is
                           strictly ordered like the grammar's precedence levels.
* §3 concrete evaluations (kernel `decide`, ASCII instance of the oracles) — the deviations from
                           C02 the repaired Go code still has (D3, D5), and what the inputs of
                           the repaired defects do now.
* §4 `scanString_quote` — `unquote (quote s) = s`: the lexer reads back what `ast.quote`
                           writes, for every string without NUL.
* §5 totality           — `parse` is a total function by construction; the lexer never gives input back.
* §6 `lex_num`          — the text of an `INT_P` / `NUMERIC_P` token starts with a digit or a dot.
* §7 `parseInt0_neg`, `parseFloatFinite_neg` — `strconv` accepts the negation of a literal it accepts.
* §8 `track_lex`, `lex_stop` — the lexer never skips an undecodable byte or NUL without recording
                           an error, and answers `stopTok` only after an error or at the end.
* §9 `parse_ok_clean`, `rejects_nul`, `rejects_invalid_utf8` — **C04**: an accepted input was read
                           to its end and contains no NUL byte and no invalid UTF-8.
* §9 `lex_err_mono`, `run_none_error` — a recorded error is never cleared; `pathParse` ends without a
                           result only with an error on record (never "both nil").
* §10 `lex_int`, `lex_formatNat` — decimal integer literals are read back as `INT_P` with their text.
* §9 `parse_never_panics` — **C04**: for every oracle and every byte string, `parse ≠ panic`
                           (partial-correctness calculus `Safe`, invariant `EVInv` on the literal
                           that `ast.NewUnaryOrNumber` re-parses, induction on the fuel).
-/

namespace Sqljson
namespace ParseLemmas

open Parse Lex

/-! ## §1 Validation -/

/-- well-formedness of an accepted path: the mirror of `validateNode` succeeds, i.e. every
    `@` is below at least one filter and every `last` is inside an array subscript -/
def WF (a : AST) : Prop := validate a.root = true

instance (a : AST) : Decidable (WF a) := by unfold WF; infer_instance

/-- `@` at depth 0 is rejected -/
theorem current_at_depth0_invalid (nx : Option Node) (inSub : Bool) :
    validNode (.const .current nx) 0 inSub = false := by
  simp [validNode]

/-- `last` outside a subscript is rejected -/
theorem last_outside_subscript_invalid (nx : Option Node) (d : Nat) :
    validNode (.const .last nx) d false = false := by
  simp [validNode]

/-- a filter raises the depth of its operand by one, a subscript list sets `inSubscript` -/
theorem valid_filter (x nx : Option Node) (d : Nat) (s : Bool) :
    validNode (.unary .filter x nx) d s = (validOpt x (d + 1) s && validOpt nx d s) := by
  simp [validNode]

theorem valid_arrayIndex (subs : List Node) (nx : Option Node) (d : Nat) (s : Bool) :
    validNode (.arrayIndex subs nx) d s = (validList subs d && validOpt nx d s) := by
  simp [validNode]

/-! ### The two rules separately

`validateNode` checks two independent rules in one pass.  `currentOK` and `lastOK` state them one
at a time; `validNode_split` shows that the mirror of `validateNode` is exactly their conjunction. -/

mutual
  /-- no `@` at filter depth 0: `depth` counts the enclosing filters -/
  def currentOK : Node → Nat → Bool
    | .const k nx, d => (match k with | .current => decide (d > 0) | _ => true) && currentOKOpt nx d
    | .method _ nx, d => currentOKOpt nx d
    | .str _ nx, d => currentOKOpt nx d
    | .var _ nx, d => currentOKOpt nx d
    | .key _ nx, d => currentOKOpt nx d
    | .numeric _ nx, d => currentOKOpt nx d
    | .integer _ nx, d => currentOKOpt nx d
    | .any _ _ nx, d => currentOKOpt nx d
    | .binary _ l r nx, d => currentOKOpt l d && currentOKOpt r d && currentOKOpt nx d
    | .unary op x nx, d => currentOKOpt x (if op = .filter then d + 1 else d) && currentOKOpt nx d
    | .regex x _ _ nx, d => currentOK x d && currentOKOpt nx d
    | .arrayIndex subs nx, d => currentOKList subs d && currentOKOpt nx d
  def currentOKOpt : Option Node → Nat → Bool
    | none, _ => true
    | some n, d => currentOK n d
  def currentOKList : List Node → Nat → Bool
    | [], _ => true
    | n :: ns, d => currentOK n d && currentOKList ns d
end

mutual
  /-- no `last` outside an array subscript -/
  def lastOK : Node → Bool → Bool
    | .const k nx, s => (match k with | .last => s | _ => true) && lastOKOpt nx s
    | .method _ nx, s => lastOKOpt nx s
    | .str _ nx, s => lastOKOpt nx s
    | .var _ nx, s => lastOKOpt nx s
    | .key _ nx, s => lastOKOpt nx s
    | .numeric _ nx, s => lastOKOpt nx s
    | .integer _ nx, s => lastOKOpt nx s
    | .any _ _ nx, s => lastOKOpt nx s
    | .binary _ l r nx, s => lastOKOpt l s && lastOKOpt r s && lastOKOpt nx s
    | .unary _ x nx, s => lastOKOpt x s && lastOKOpt nx s
    | .regex x _ _ nx, s => lastOK x s && lastOKOpt nx s
    | .arrayIndex subs nx, s => lastOKList subs && lastOKOpt nx s
  def lastOKOpt : Option Node → Bool → Bool
    | none, _ => true
    | some n, s => lastOK n s
  def lastOKList : List Node → Bool
    | [] => true
    | n :: ns => lastOK n true && lastOKList ns
end

theorem and4 (a b c d : Bool) : ((a && b) && (c && d)) = ((a && c) && (b && d)) := by
  cases a <;> cases b <;> cases c <;> cases d <;> rfl

mutual
  theorem validNode_split : ∀ (n : Node) (d : Nat) (s : Bool),
      validNode n d s = (currentOK n d && lastOK n s)
    | .const k nx, d, s => by
      have ih := validOpt_split nx d s
      cases k <;> simp [validNode, currentOK, lastOK, ih] <;>
        (cases currentOKOpt nx d <;> cases lastOKOpt nx s <;> simp)
    | .method _ nx, d, s => by simp [validNode, currentOK, lastOK, validOpt_split nx d s]
    | .str _ nx, d, s => by simp [validNode, currentOK, lastOK, validOpt_split nx d s]
    | .var _ nx, d, s => by simp [validNode, currentOK, lastOK, validOpt_split nx d s]
    | .key _ nx, d, s => by simp [validNode, currentOK, lastOK, validOpt_split nx d s]
    | .numeric _ nx, d, s => by simp [validNode, currentOK, lastOK, validOpt_split nx d s]
    | .integer _ nx, d, s => by simp [validNode, currentOK, lastOK, validOpt_split nx d s]
    | .any _ _ nx, d, s => by simp [validNode, currentOK, lastOK, validOpt_split nx d s]
    | .binary _ l r nx, d, s => by
      simp only [validNode, currentOK, lastOK, validOpt_split l d s, validOpt_split r d s, validOpt_split nx d s]
      cases currentOKOpt l d <;> cases lastOKOpt l s <;> cases currentOKOpt r d <;> cases lastOKOpt r s <;>
        cases currentOKOpt nx d <;> cases lastOKOpt nx s <;> rfl
    | .unary op x nx, d, s => by
      simp only [validNode, currentOK, lastOK, validOpt_split x _ s, validOpt_split nx d s]
      exact and4 _ _ _ _
    | .regex x _ _ nx, d, s => by
      simp only [validNode, currentOK, lastOK, validNode_split x d s, validOpt_split nx d s]
      exact and4 _ _ _ _
    | .arrayIndex subs nx, d, s => by
      simp only [validNode, currentOK, lastOK, validList_split subs d, validOpt_split nx d s]
      exact and4 _ _ _ _
  theorem validOpt_split : ∀ (n : Option Node) (d : Nat) (s : Bool),
      validOpt n d s = (currentOKOpt n d && lastOKOpt n s)
    | none, _, _ => by simp [validOpt, currentOKOpt, lastOKOpt]
    | some n, d, s => by simp [validOpt, currentOKOpt, lastOKOpt, validNode_split n d s]
  theorem validList_split : ∀ (ns : List Node) (d : Nat),
      validList ns d = (currentOKList ns d && lastOKList ns)
    | [], _ => by simp [validList, currentOKList, lastOKList]
    | n :: ns, d => by
      simp only [validList, currentOKList, lastOKList, validNode_split n d true, validList_split ns d]
      exact and4 _ _ _ _
end


theorem bind_apply {α β : Type} (m : P α) (f : α → P β) (s : PS) :
    (m >>= f) s = match m s with
      | .ok a s' => f a s'
      | .syn => .syn
      | .panic => .panic
      | .fuel => .fuel := rfl

theorem pure_apply {α : Type} (a : α) (s : PS) : (pure a : P α) s = .ok a s := rfl

section
variable (o : Oracles)

/-- the tail shared by the three branches of `finish`: the accept state passes the result on -/
theorem finish_tail_some (r : Option AST) (s s' : PS) (a : AST)
    (h : (do let result ← (pure r : P (Option AST))
             let __x ← peek o
             if __x.fst ≠ Tok.stop then syn else pure result) s = .ok (some a) s') : r = some a := by
  simp only [bind_apply, pure_apply] at h
  cases hp : peek o s with
  | ok t s1 =>
    simp only [hp] at h
    by_cases ht : t.fst = Tok.stop
    · simp [ht, pure_apply] at h
      exact h.1
    · simp [ht, syn] at h
  | syn => simp [hp] at h
  | panic => simp [hp] at h
  | fuel => simp [hp] at h

/-- the only way `finish` yields a result is through a successful validation of that very tree -/
theorem finish_some (lax isPred : Bool) (root : EV) (s s' : PS) (a : AST)
    (h : finish o lax isPred root s = .ok (some a) s') :
    a = ⟨root.node, lax, isPred⟩ ∧ validate root.node = true := by
  unfold finish at h
  simp only [bind_apply, hasError] at h
  split at h
  · have := finish_tail_some o none s s' a h
    simp at this
  · split at h
    · rename_i hv
      have := finish_tail_some o _ s s' a h
      simp at this
      exact ⟨this.symm, hv⟩
    · rw [bind_apply] at h
      simp only [recordError] at h
      have := finish_tail_some o none _ s' a h
      simp at this

/-- **C04 (validity part) on the model**: whatever `parse` accepts passes `validateNode`. -/
theorem parse_ok_wf (bytes : List UInt8) (a : AST) (h : parse o bytes = .ok a) : WF a := by
  unfold parse at h
  cases hr : run o bytes with
  | ok r s =>
    simp only [hr] at h
    by_cases he : s.lx.err = true
    · simp [he] at h
    · have he' : s.lx.err = false := by cases hx : s.lx.err <;> simp_all
      simp only [he'] at h
      cases r with
      | none => simp at h
      | some a' =>
        simp at h
        subst h
        unfold run parseTop at hr
        simp only [bind_apply] at hr
        cases hb : parseBody o (fuelFor bytes) { lx := LState.init bytes, la := none } with
        | ok v s1 =>
          obtain ⟨lax, isPred, root⟩ := v
          simp only [hb] at hr
          have := finish_some o lax isPred root s1 s a' hr
          unfold WF
          rw [this.1]
          exact this.2
        | syn => simp [hb] at hr
        | panic => simp [hb] at hr
        | fuel => simp [hb] at hr
  | syn => simp [hr] at h
  | panic => simp [hr] at h
  | fuel => simp [hr] at h

end

/-- **accepted paths obey both rules**: no `@` outside a filter, no `last` outside a subscript -/
theorem parse_ok_rules (o : Oracles) (bytes : List UInt8) (a : AST) (h : parse o bytes = .ok a) :
    currentOK a.root 0 = true ∧ lastOK a.root false = true := by
  have hw : validate a.root = true := parse_ok_wf o bytes a h
  unfold validate at hw
  rw [validNode_split] at hw
  simpa using hw

/-! ## §2 Operator tables -/

/-- An ASCII instance of the oracles: on ASCII it agrees with `xid.Start`, `xid.Continue`,
    `strconv.IsPrint` and `unicode.ToLower`; every regular expression is taken to compile.
    Used for the concrete evaluations below. -/
def asciiOracles : Oracles where
  xidStart c := ('a' ≤ c && c ≤ 'z') || ('A' ≤ c && c ≤ 'Z')
  xidContinue c := ('a' ≤ c && c ≤ 'z') || ('A' ≤ c && c ≤ 'Z') || ('0' ≤ c && c ≤ '9') || c = '_'
  isPrint c := 32 ≤ c.toNat && c.toNat < 127
  toLower c := if 'A' ≤ c && c ≤ 'Z' then Char.ofNat (c.toNat + 32) else c
  regexAccepts _ _ := true

/-- the bytes of an ASCII text -/
def ascii (s : String) : List UInt8 := s.toList.map fun c => UInt8.ofNat c.toNat

/-- first token of a text -/
def firstTok (s : List Char) : Tok :=
  (Lex.lex asciiOracles { rest := s.map Src.ch, ch := none, err := false }).1

/-- the token from which the grammar builds each infix operator (`starts with`: its first word) -/
def tokOfBin : BinOp → Option Tok
  | .and => some .and | .or => some .or | .eq => some .equal | .ne => some .notEq
  | .lt => some .less | .gt => some .greater | .le => some .lessEq | .ge => some .greaterEq
  | .startsWith => some .starts | .add => some .plus | .sub => some .minus | .mul => some .star
  | .div => some .slash | .mod => some .percent | .subscript => some .to | .decimal => none

/-- **printed operator spellings lex back to their own token** (followed by the blank the printer
    always writes after an infix operator) -/
theorem binStr_lexes_back (op : BinOp) (t : Tok) (h : tokOfBin op = some t) :
    firstTok (Print.binStr op ++ [' ']) = t := by
  cases op <;> simp [tokOfBin] at h <;> subst h <;> decide +kernel

/-- … and the parser's operator tables map that token back to the operator -/
theorem compOp_inverse (op : BinOp) (h : Print.binPriority op = 2) (hs : op ≠ .startsWith) :
    (tokOfBin op).bind compOp = some op := by
  cases op <;> simp_all [Print.binPriority, tokOfBin, compOp]

theorem addOp_inverse (op : BinOp) (h : Print.binPriority op = 3) :
    (tokOfBin op).bind addOp = some op := by
  cases op <;> simp_all [Print.binPriority, tokOfBin, addOp]

theorem mulOp_inverse (op : BinOp) (h : Print.binPriority op = 4) :
    (tokOfBin op).bind mulOp = some op := by
  cases op <;> simp_all [Print.binPriority, tokOfBin, mulOp]

/-- the printer's priority table is ordered like the grammar's precedence levels
    (`%left OR_P` < `%left AND_P` < comparison < `+ -` < `* / %` < unary sign < primary) -/
theorem priority_levels :
    Print.binPriority .or < Print.binPriority .and ∧
    Print.binPriority .and < Print.binPriority .eq ∧
    Print.binPriority .eq < Print.binPriority .add ∧
    Print.binPriority .add < Print.binPriority .mul ∧
    Print.binPriority .mul < Print.unPriority .minus ∧
    Print.unPriority .minus < Print.priority (.const .root none) := by decide

/-- every method name printed by the printer (`.abs()` …) is read back as `.`, the method's
    keyword, `(`, `)` — checked on the keyword token -/
def methodTok : Method → Tok
  | .abs => .abs | .size => .size | .type => .type | .floor => .floor | .ceiling => .ceiling
  | .double => .double | .keyvalue => .keyvalue | .bigint => .bigint | .boolean => .boolean
  | .integer => .integer | .number => .number | .string => .stringfunc

theorem methodStr_lexes_back (m : Method) :
    firstTok ((Print.methodStr m).drop 1) = methodTok m ∧ Parse.methodOf (methodTok m) = some m := by
  cases m <;> decide +kernel

/-! ## §3 Concrete evaluations (kernel `decide`, ASCII instance of the oracles)

`outcome` renders a parse outcome: the printed path, `ERR`, or `PANIC`.
First the deviations from C02 that the repaired Go code still has (known findings, all confirmed
against the Go package), then the positive counterparts of the repaired defects. -/

def outcome : ParseOutcome → String
  | .ok a => match Print.toString asciiOracles.isPrint a with
    | some s => String.ofList s
    | none => "PRINT-PANIC"
  | .err => "ERR"
  | .panic => "PANIC"

def run (s : String) : String := outcome (parse asciiOracles (ascii s))

/-- shape of the accepted tree, for comparing trees without `DecidableEq Node` -/
def rootIs (p : Node → Bool) : ParseOutcome → Bool
  | .ok a => p a.root
  | _ => false

/-! ### Known findings (still present) -/

/-- **C02 fails (D3)**: an operand of higher priority than its parent that carries an accessor
    chain is printed without its parentheses; the output is not even accepted. -/
theorem c02_counterexample_operand_with_accessor :
    run "(2*3).abs() + 1" = "(2 * 3.abs() + 1)" ∧ run "(2 * 3.abs() + 1)" = "ERR" := by
  decide +kernel

/-- **C02 fails (D3)**: `exists`, `!`, `is unknown` nodes followed by an accessor lose their
    parentheses when printed. -/
theorem c02_counterexample_predicate_with_accessor :
    run "exists(($ == 1).x)" = "exists ($ == 1.\"x\")" ∧ run "exists ($ == 1.\"x\")" = "ERR" ∧
    run "(exists($)).x" = "exists ($).\"x\"" ∧ run "exists ($).\"x\"" = "ERR" ∧
    run "(!($ == 1)).x" = "!($ == 1).\"x\"" ∧ run "!($ == 1).\"x\"" = "ERR" ∧
    run "(($ == 1) is unknown).x" = "($ == 1) is unknown.\"x\"" ∧
      run "($ == 1) is unknown.\"x\"" = "ERR" := by
  decide +kernel

/-- **C02 fails (D3)**: a `like_regex` node with an accessor, under a comparison, loses its parentheses. -/
theorem c02_counterexample_regex_with_accessor :
    run "(($ like_regex \"a\").x == 1)" = "($ like_regex \"a\".\"x\" == 1)" ∧
    run "($ like_regex \"a\".\"x\" == 1)" = "ERR" := by
  decide +kernel

/-- **C02 fails (D5)**: `4.0` is a `NumericNode`, printed `4`, which reads back as an `IntegerNode`. -/
theorem c02_counterexample_numeric_prints_as_integer :
    rootIs (fun n => match n with | .numeric _ none => true | _ => false) (parse asciiOracles (ascii "4.0")) = true ∧
    run "4.0" = "4" ∧
    rootIs (fun n => match n with | .integer 4 none => true | _ => false) (parse asciiOracles (ascii "4")) = true := by
  decide +kernel

/-- **C02 fails (D5)**: a numeric literal whose value is integral and at least 2^63 (but below
    1e21) is printed as a plain run of digits, which is an integer literal out of range: the
    output of `String()` is rejected (it used to panic). -/
theorem c02_counterexample_print_output_rejected :
    run "1e20" = "100000000000000000000" ∧ run "100000000000000000000" = "ERR" := by
  decide +kernel

/-! ### Repaired defects: what the same inputs do now -/

/-- 27cd18c: negating a literal that is already negative drops the sign -/
theorem negated_negative_literal :
    run "--1" = "1" ∧ run "-(-1)" = "1" ∧ run "-(+(-1))" = "1" ∧ run "--1.5" = "1.5" ∧
    run "- - -1" = "-1" := by
  decide +kernel

/-- 8b84db8: literals that do not fit `int64` / `float64` are parse errors, wherever they stand -/
theorem out_of_range_literals_rejected :
    run "9223372036854775808" = "ERR" ∧ run "-9223372036854775808" = "ERR" ∧
    run "9223372036854775807" = "9223372036854775807" ∧ run "-9223372036854775807" = "-9223372036854775807" ∧
    run "1e400" = "ERR" ∧ run "$.decimal(9223372036854775808)" = "ERR" ∧
    run "$.time(99999999999999999999)" = "ERR" := by
  decide +kernel

/-- 8b84db8: the placeholder left after a reported error is a real node; a following accessor
    just goes on (and the parse ends with the error) -/
theorem error_placeholders_are_nodes :
    run "$.decimal(1,2,3)" = "ERR" ∧ run "$.decimal(1,2,3).\"a\"" = "ERR" ∧
    run "$.decimal(1,2,3)[0]" = "ERR" ∧
    run "$ like_regex \"a\" flag \"x\"" = "ERR" ∧ run "($ like_regex \"a\" flag \"x\").\"a\"" = "ERR" := by
  decide +kernel

/-- a lexing error still does not stop the parse, but nothing after it can panic any more -/
theorem no_panic_after_lex_error :
    outcome (parse asciiOracles (ascii "$ " ++ [0] ++ ascii " + 9223372036854775808")) = "ERR" ∧
    outcome (parse asciiOracles (ascii "$ " ++ [0] ++ ascii " + --1")) = "ERR" := by
  decide +kernel

/-- a381b50: the levels of `.**{…}` accept every integer spelling; out of `int32` range is an error -/
theorem any_level_spellings :
    run "$.**{0x2}" = "$.**{2}" ∧ run "$.**{1_0}" = "$.**{10}" ∧ run "$.**{0b11 to 0o17}" = "$.**{3 to 15}" ∧
    run "$.**{2147483647}" = "$.**{2147483647}" ∧ run "$.**{2147483648}" = "ERR" ∧
    run "$.**{99999999999999999999}" = "ERR" := by
  decide +kernel

/-- 91b1b26: an identifier that ends in an escape at the very end of the input keeps its text -/
theorem trailing_escape_keeps_text :
    run "$.a\\x41" = "$.\"aA\"" ∧ run "$.a\\x41 " = "$.\"aA\"" ∧ run "$.\\1" = "$.\"1\"" := by
  decide +kernel

/-- 148e980: `\u{…}` beyond U+10FFFF is rejected; U+10FFFF itself is fine -/
theorem out_of_range_escape_rejected :
    run "\"\\u{110000}\"" = "ERR" ∧ run "\"\\u{ffffff}\"" = "ERR" ∧
    run "\"\\u{10ffff}\"" = "\"\\u{10ffff}\"" := by
  decide +kernel

/-- daa0e70: the runes U+E000 … U+E032 are invalid characters for the lexer
    (U+E002 used to read as `to`, U+E00C as an integer literal) -/
theorem private_use_runes_rejected :
    outcome (parse asciiOracles (ascii "$[1 " ++ [0xEE, 0x80, 0x82] ++ ascii " 2]")) = "ERR" ∧
    outcome (parse asciiOracles [0xEE, 0x80, 0x8C]) = "ERR" ∧
    outcome (parse asciiOracles (ascii "$ " ++ [0xEE, 0x80, 0x91] ++ ascii " 1")) = "ERR" := by
  decide +kernel

/-- 86832a0: U+0007 and non-printable astral characters are printed with escapes the lexer reads
    back (`\u0007`, `\u{e0001}`), so such strings round-trip (the general statement is
    `scanString_quote` / `lex_quote`) -/
theorem bell_and_astral_round_trip :
    Print.toString asciiOracles.isPrint ⟨.str [Char.ofNat 7, Char.ofNat 0xE0001, Char.ofNat 0x10FFFF] none, true, false⟩
      = some "\"\\u0007\\u{e0001}\\u{10ffff}\"".toList ∧
    rootIs (fun n => match n with
        | .str [a, b, c] none => a.toNat == 7 && b.toNat == 0xE0001 && c.toNat == 0x10FFFF
        | _ => false)
      (parse asciiOracles (ascii "\"\\u0007\\u{e0001}\\u{10ffff}\"")) = true := by
  decide +kernel

/-! ## §4 `unquote (quote s) = s`

The printer writes strings with `ast.quote`; the lexer reads them with `scanString`.
`scanString_quote` shows that the lexer reads back exactly the string that was quoted, for every
string without NUL (which no string read by the lexer contains).  Since 86832a0 this includes
U+0007 (written `\u0007`) and the non-printable astral characters (written `\u{X…}`).
The one assumption on the oracle is `isPrint '\n' = false` (true of `strconv.IsPrint`). -/

/-- the source made of the characters `l` followed by `tail` -/
def feed (st : LState) (l : List Char) (tail : List Src) : LState :=
  { st with rest := l.map Src.ch ++ tail }

theorem next_feed_cons (st : LState) (c : Char) (l : List Char) (tail : List Src) (hc : c.toNat ≠ 0) :
    next (feed st (c :: l) tail) = (some c, feed st l tail) := by
  simp [next, feed, hc]

theorem lt16_cases (d : Nat) (h : d < 16) : d = 0 ∨ d = 1 ∨ d = 2 ∨ d = 3 ∨ d = 4 ∨ d = 5 ∨ d = 6 ∨ d = 7 ∨ d = 8 ∨ d = 9 ∨
      d = 10 ∨ d = 11 ∨ d = 12 ∨ d = 13 ∨ d = 14 ∨ d = 15 := by omega

theorem hexChar_lowerHex (d : Nat) (h : d < 16) : hexChar (some (Print.lowerHex d)) = some d := by
  rcases lt16_cases d h with h | h | h | h | h | h | h | h | h | h | h | h | h | h | h | h <;> subst h <;> decide

theorem lowerHex_toNat_ne_zero (d : Nat) (h : d < 16) : (Print.lowerHex d).toNat ≠ 0 := by
  rcases lt16_cases d h with h | h | h | h | h | h | h | h | h | h | h | h | h | h | h | h <;> subst h <;> decide

theorem lowerHex_ne_brace (d : Nat) (h : d < 16) : Print.lowerHex d ≠ '{' := by
  rcases lt16_cases d h with h | h | h | h | h | h | h | h | h | h | h | h | h | h | h | h <;> subst h <;> decide

theorem lowerHex_ne_rbrace (d : Nat) (h : d < 16) : Print.lowerHex d ≠ '}' := by
  rcases lt16_cases d h with h | h | h | h | h | h | h | h | h | h | h | h | h | h | h | h <;> subst h <;> decide

/-- `\xNN` read back -/
theorem scanHex_feed (st : LState) (n : Nat) (hn : 0 < n) (hn' : n < 256) (y : Char) (hy : y.toNat ≠ 0)
    (l : List Char) (tail : List Src) :
    scanHex (feed st (Print.hexDigits 2 n ++ y :: l) tail)
      = ⟨some y, some (Char.ofNat n), feed st l tail⟩ := by
  have h1 : n / 16 % 16 < 16 := Nat.mod_lt _ (by decide)
  have h0 : n % 16 < 16 := Nat.mod_lt _ (by decide)
  have hd : n / 16 % 16 * 16 + n % 16 = n := by omega
  simp only [Print.hexDigits, Nat.pow_succ, Nat.pow_zero, Nat.one_mul, Nat.div_one, List.cons_append, List.nil_append]
  unfold scanHex
  rw [next_feed_cons _ _ _ _ (lowerHex_toNat_ne_zero _ h1)]
  simp only [hexChar_lowerHex _ h1]
  rw [next_feed_cons _ _ _ _ (lowerHex_toNat_ne_zero _ h0)]
  simp only [hexChar_lowerHex _ h0]
  rw [next_feed_cons _ _ _ _ hy]
  simp [hd, hn]

/-- `\uNNNN` read back -/
theorem scanUnicode_feed (st : LState) (c : Char) (hc0 : c.toNat ≠ 0) (hc : c.toNat < 65536)
    (y : Char) (hy : y.toNat ≠ 0) (l : List Char) (tail : List Src) :
    scanUnicode (feed st (Print.hexDigits 4 c.toNat ++ y :: l) tail)
      = ⟨some y, some c, feed st l tail⟩ := by
  have h3 : c.toNat / 4096 % 16 < 16 := Nat.mod_lt _ (by decide)
  have h2 : c.toNat / 256 % 16 < 16 := Nat.mod_lt _ (by decide)
  have h1 : c.toNat / 16 % 16 < 16 := Nat.mod_lt _ (by decide)
  have h0 : c.toNat % 16 < 16 := Nat.mod_lt _ (by decide)
  have hd : ((c.toNat / 4096 % 16 * 16 + c.toNat / 256 % 16) * 16 + c.toNat / 16 % 16) * 16 + c.toNat % 16 = c.toNat := by omega
  have hv : c.toNat < 0xd800 ∨ (0xdfff < c.toNat ∧ c.toNat < 0x110000) := c.valid
  have hns : isSurrogate c.toNat = false := by
    simp only [isSurrogate, Bool.and_eq_false_imp, decide_eq_true_eq, decide_eq_false_iff_not]
    omega
  have hr : runeOfNat c.toNat = c := by
    unfold runeOfNat
    have : (decide (c.toNat < 0xD800) || (decide (0xE000 ≤ c.toNat) && decide (c.toNat < 0x110000))) = true := by
      simp only [Bool.or_eq_true, Bool.and_eq_true, decide_eq_true_eq]
      omega
    rw [if_pos this]; exact Char.ofNat_toNat c
  have e : Print.hexDigits 4 c.toNat = [Print.lowerHex (c.toNat / 4096 % 16), Print.lowerHex (c.toNat / 256 % 16),
      Print.lowerHex (c.toNat / 16 % 16), Print.lowerHex (c.toNat % 16)] := by
    simp [Print.hexDigits]
  rw [e]
  simp only [List.cons_append, List.nil_append]
  unfold scanUnicode decodeUnicode
  rw [next_feed_cons _ _ _ _ (lowerHex_toNat_ne_zero _ h3)]
  have hb : (some (Print.lowerHex (c.toNat / 4096 % 16)) = some '{') = False := by
    simp [lowerHex_ne_brace _ h3]
  simp only [hb, if_false, hexChar_lowerHex _ h3]
  unfold fixedDigits
  rw [next_feed_cons _ _ _ _ (lowerHex_toNat_ne_zero _ h2)]
  simp only [hexChar_lowerHex _ h2]
  unfold fixedDigits
  rw [next_feed_cons _ _ _ _ (lowerHex_toNat_ne_zero _ h1)]
  simp only [hexChar_lowerHex _ h1]
  unfold fixedDigits
  rw [next_feed_cons _ _ _ _ (lowerHex_toNat_ne_zero _ h0)]
  simp only [hexChar_lowerHex _ h0]
  unfold fixedDigits
  have hmax : ¬ (c.toNat > 0x10FFFF) := by omega
  simp only [hd, hc0, hmax, if_false, hns]
  rw [next_feed_cons _ _ _ _ hy]
  simp [hr]



/-- the `\u{…}` digit loop reads hex digits up to the closing brace -/
theorem braceDigits_feed (st : LState) (l : List Char) (tail : List Src) :
    ∀ (ds : List Nat) (f i rr d : Nat), d < 16 → (∀ x ∈ ds, x < 16) → ds.length + 2 ≤ f →
      i + ds.length + 1 ≤ 6 →
      braceDigits f i (some (Print.lowerHex d)) rr (feed st (ds.map Print.lowerHex ++ '}' :: l) tail)
        = (some (ds.foldl (fun a x => a * 16 + x) (rr * 16 + d)), feed st l tail) := by
  intro ds
  induction ds with
  | nil =>
    intro f i rr d hd _ hf hi
    obtain ⟨f1, rfl⟩ : ∃ f1, f = f1 + 2 := ⟨f - 2, by simp at hf; omega⟩
    have hi' : i < 6 := by simp at hi; omega
    simp only [List.map_nil, List.nil_append, List.foldl_nil]
    unfold braceDigits
    have hc : (decide (i < 6) && decide (some (Print.lowerHex d) ≠ some '}')) = true := by
      simp [hi', lowerHex_ne_rbrace d hd]
    rw [if_pos hc]
    simp only [hexChar_lowerHex d hd]
    rw [next_feed_cons _ _ _ _ (by decide)]
    unfold braceDigits
    simp
  | cons x xs ih =>
    intro f i rr d hd hxs hf hi
    obtain ⟨f1, rfl⟩ : ∃ f1, f = f1 + 1 := ⟨f - 1, by simp at hf; omega⟩
    have hi' : i < 6 := by simp at hi; omega
    have hx : x < 16 := hxs x (by simp)
    simp only [List.map_cons, List.cons_append, List.foldl_cons]
    unfold braceDigits
    have hc : (decide (i < 6) && decide (some (Print.lowerHex d) ≠ some '}')) = true := by
      simp [hi', lowerHex_ne_rbrace d hd]
    rw [if_pos hc]
    simp only [hexChar_lowerHex d hd]
    rw [next_feed_cons _ _ _ _ (lowerHex_toNat_ne_zero x hx)]
    exact ih f1 (i + 1) (rr * 16 + d) x hx (fun z hz => hxs z (by simp [hz]))
      (by simp at hf ⊢; omega) (by simp at hi ⊢; omega)

theorem hexTrim_digits (n : Nat) (h1 : 0x10000 ≤ n) (h2 : n < 0x110000) :
    ∃ (d : Nat) (ds : List Nat), d < 16 ∧ (∀ x ∈ ds, x < 16) ∧ ds.length ≤ 5 ∧
      Print.hexTrim n = Print.lowerHex d :: ds.map Print.lowerHex ∧
      ds.foldl (fun a x => a * 16 + x) (0 * 16 + d) = n := by
  unfold Print.hexTrim
  by_cases h : n < 0x100000
  · rw [if_pos h]
    refine ⟨n / 65536 % 16, [n / 4096 % 16, n / 256 % 16, n / 16 % 16, n % 16], Nat.mod_lt _ (by decide), ?_, by simp, ?_, ?_⟩
    · intro x hx
      simp at hx
      rcases hx with rfl | rfl | rfl | rfl <;> exact Nat.mod_lt _ (by decide)
    · simp [Print.hexDigits]
    · simp only [List.foldl_cons, List.foldl_nil]; omega
  · rw [if_neg h]
    refine ⟨n / 1048576 % 16, [n / 65536 % 16, n / 4096 % 16, n / 256 % 16, n / 16 % 16, n % 16], Nat.mod_lt _ (by decide), ?_, by simp, ?_, ?_⟩
    · intro x hx
      simp at hx
      rcases hx with rfl | rfl | rfl | rfl | rfl <;> exact Nat.mod_lt _ (by decide)
    · simp [Print.hexDigits]
    · simp only [List.foldl_cons, List.foldl_nil]; omega

/-- `\u{X…}` (an astral character) read back -/
theorem scanUnicode_brace_feed (st : LState) (c : Char) (hc : 0x10000 ≤ c.toNat)
    (y : Char) (hy : y.toNat ≠ 0) (l : List Char) (tail : List Src) :
    scanUnicode (feed st ('{' :: (Print.hexTrim c.toNat ++ '}' :: y :: l)) tail)
      = ⟨some y, some c, feed st l tail⟩ := by
  have hv : c.toNat < 0xd800 ∨ (0xdfff < c.toNat ∧ c.toNat < 0x110000) := c.valid
  have hlt : c.toNat < 0x110000 := by omega
  obtain ⟨d, ds, hd, hds, hlen, hdig, hval⟩ := hexTrim_digits c.toNat hc hlt
  have hns : isSurrogate c.toNat = false := by
    simp only [isSurrogate, Bool.and_eq_false_imp, decide_eq_true_eq, decide_eq_false_iff_not]
    omega
  have hr : runeOfNat c.toNat = c := by
    unfold runeOfNat
    have : (decide (c.toNat < 0xD800) || (decide (0xE000 ≤ c.toNat) && decide (c.toNat < 0x110000))) = true := by
      simp only [Bool.or_eq_true, Bool.and_eq_true, decide_eq_true_eq]
      omega
    rw [if_pos this]; exact Char.ofNat_toNat c
  rw [hdig]
  simp only [List.cons_append]
  unfold scanUnicode decodeUnicode
  rw [next_feed_cons _ _ _ _ (by decide)]
  simp only [if_true]
  rw [next_feed_cons _ _ _ _ (lowerHex_toNat_ne_zero d hd)]
  have hb := braceDigits_feed st (y :: l) tail ds 8 0 0 d hd hds (by omega) (by omega)
  rw [hb, hval]
  have hmax : ¬ (c.toNat > 0x10FFFF) := by omega
  have h0 : c.toNat ≠ 0 := by omega
  simp only [hmax, h0, if_false, hns]
  rw [next_feed_cons _ _ _ _ hy]
  simp [hr]

/-- single-letter escapes and literal escapes read back: the letter `e` after the backslash
    yields the character `x` -/
def simpleEscape (e x : Char) : Prop :=
  (e = 'b' ∧ x = Char.ofNat 8) ∨ (e = 'f' ∧ x = Char.ofNat 12) ∨ (e = 'n' ∧ x = '\n') ∨
  (e = 'r' ∧ x = '\r') ∨ (e = 't' ∧ x = '\t') ∨ (e = 'v' ∧ x = Char.ofNat 11) ∨
  (e = x ∧ e ≠ 'b' ∧ e ≠ 'f' ∧ e ≠ 'n' ∧ e ≠ 'r' ∧ e ≠ 't' ∧ e ≠ 'v' ∧ e ≠ 'x' ∧ e ≠ 'u')

theorem scanEscape_simple (buf : List Char) (st : LState) (e x y : Char) (he : e.toNat ≠ 0) (hy : y.toNat ≠ 0)
    (h : simpleEscape e x) (l : List Char) (tail : List Src) :
    scanEscape buf (feed st (e :: y :: l) tail) = (some y, x :: buf, feed st l tail) := by
  unfold scanEscape
  rw [next_feed_cons _ _ _ _ he]
  rcases h with ⟨h1, h2⟩ | ⟨h1, h2⟩ | ⟨h1, h2⟩ | ⟨h1, h2⟩ | ⟨h1, h2⟩ | ⟨h1, h2⟩ | ⟨h1, h2⟩
  all_goals (try subst h1); (try subst h2)
  · simp [next_feed_cons _ _ _ _ hy]
  · simp [next_feed_cons _ _ _ _ hy]
  · simp [next_feed_cons _ _ _ _ hy]
  · simp [next_feed_cons _ _ _ _ hy]
  · simp [next_feed_cons _ _ _ _ hy]
  · simp [next_feed_cons _ _ _ _ hy]
  · obtain ⟨a1, a2, a3, a4, a5, a6, a7, a8⟩ := h2
    simp [next_feed_cons _ _ _ _ hy, a1, a2, a3, a4, a5, a6, a7, a8]

theorem scanEscape_hex (buf : List Char) (st : LState) (n : Nat) (hn : 0 < n) (hn' : n < 256) (y : Char)
    (hy : y.toNat ≠ 0) (l : List Char) (tail : List Src) :
    scanEscape buf (feed st ('x' :: (Print.hexDigits 2 n ++ y :: l)) tail)
      = (some y, Char.ofNat n :: buf, feed st l tail) := by
  unfold scanEscape
  rw [next_feed_cons _ _ _ _ (by decide)]
  simp [scanHex_feed st n hn hn' y hy l tail]

theorem scanEscape_unicode (buf : List Char) (st : LState) (c : Char) (hc0 : c.toNat ≠ 0) (hc : c.toNat < 65536)
    (y : Char) (hy : y.toNat ≠ 0) (l : List Char) (tail : List Src) :
    scanEscape buf (feed st ('u' :: (Print.hexDigits 4 c.toNat ++ y :: l)) tail)
      = (some y, c :: buf, feed st l tail) := by
  unfold scanEscape
  rw [next_feed_cons _ _ _ _ (by decide)]
  simp [scanUnicode_feed st c hc0 hc y hy l tail]


theorem scanEscape_unicode_brace (buf : List Char) (st : LState) (c : Char) (hc : 0x10000 ≤ c.toNat)
    (y : Char) (hy : y.toNat ≠ 0) (l : List Char) (tail : List Src) :
    scanEscape buf (feed st ('u' :: '{' :: (Print.hexTrim c.toNat ++ '}' :: y :: l)) tail)
      = (some y, c :: buf, feed st l tail) := by
  unfold scanEscape
  rw [next_feed_cons _ _ _ _ (by decide)]
  simp [scanUnicode_brace_feed st c hc y hy l tail]

theorem stringLoop_succ (f : Nat) (ret : Tok) (c : Char) (buf : List Char) (s : LState) :
    stringLoop (f + 1) ret (some c) buf s =
      if c = '"' then
        let (ch', s') := next s
        ⟨ret, buf.reverse, ch', s'⟩
      else if c = '\n' then ⟨.stop, [], some c, setErr s⟩
      else if c = '\\' then
        let (ch', buf', s') := scanEscape buf s
        stringLoop f ret ch' buf' s'
      else
        let (ch', s') := next s
        stringLoop f ret ch' (c :: buf) s' := by
  rfl

/-- characters that survive `ast.quote` followed by the lexer: every character but NUL (which no
    string read by the lexer contains: `next` refuses it and `\u0000`, `\x00` are errors) -/
def QuoteSafe (_isPrint : Char → Bool) (c : Char) : Prop := c.toNat ≠ 0

section
variable (isPrint : Char → Bool) (hnl : isPrint '\n' = false)
include hnl

/-- one iteration of the string loop reads back one quoted character -/
theorem stringLoop_step (c : Char) (hc : QuoteSafe isPrint c) (f : Nat) (buf : List Char) (st : LState)
    (x : Char) (xs : List Char) (hx : Print.escapeRune isPrint c = x :: xs)
    (y : Char) (hy : y.toNat ≠ 0) (l : List Char) (tail : List Src) :
    stringLoop (f + 1) .string (some x) buf (feed st (xs ++ y :: l) tail)
      = stringLoop f .string (some y) (c :: buf) (feed st l tail) := by
  have h0 : c.toNat ≠ 0 := hc
  unfold Print.escapeRune at hx
  by_cases hq : (c = '"' || c = '\\') = true
  · -- \" and \\
    rw [if_pos hq] at hx
    injection hx with hx1 hx2
    subst hx1; subst hx2
    have hs : simpleEscape c c := by
      right; right; right; right; right; right
      simp only [Bool.or_eq_true, decide_eq_true_eq] at hq
      rcases hq with hq | hq <;> subst hq <;> decide
    rw [stringLoop_succ]
    simp only [List.cons_append, List.nil_append]
    have := scanEscape_simple buf st c c y h0 hy hs l tail
    simp [this]
  · rw [if_neg hq] at hx
    simp only [Bool.or_eq_true, decide_eq_true_eq, not_or] at hq
    obtain ⟨hq1, hq2⟩ := hq
    by_cases hpr : isPrint c = true
    · -- raw
      rw [if_pos hpr] at hx
      injection hx with hx1 hx2
      subst hx1; subst hx2
      have hn : c ≠ '\n' := by
        intro h; subst h; rw [hnl] at hpr; exact absurd hpr (by decide)
      rw [stringLoop_succ]
      simp [hq1, hq2, hn, next_feed_cons _ _ _ _ hy]
    · rw [if_neg hpr] at hx
      simp only at hx
      -- the escape always starts with a backslash
      have key : ∀ (es : List Char) (out : Char),
          scanEscape buf (feed st (es ++ y :: l) tail) = (some y, out :: buf, feed st l tail) →
          stringLoop (f + 1) .string (some '\\') buf (feed st (es ++ y :: l) tail)
            = stringLoop f .string (some y) (out :: buf) (feed st l tail) := by
        intro es out h
        rw [stringLoop_succ]
        simp [h]
      by_cases c7 : c.toNat = 7
      · rw [if_pos c7] at hx
        injection hx with hx1 hx2; subst hx1; subst hx2
        exact key _ _ (scanEscape_unicode buf st c h0 (by omega) y hy l tail)
      rw [if_neg c7] at hx
      by_cases c8 : c.toNat = 8
      · rw [if_pos c8] at hx
        injection hx with hx1 hx2; subst hx1; subst hx2
        have hc : c = Char.ofNat 8 := by rw [← Char.ofNat_toNat c, c8]
        subst hc
        exact key ['b'] _ (scanEscape_simple buf st 'b' _ y (by decide) hy (Or.inl ⟨rfl, rfl⟩) l tail)
      rw [if_neg c8] at hx
      by_cases c12 : c.toNat = 12
      · rw [if_pos c12] at hx
        injection hx with hx1 hx2; subst hx1; subst hx2
        have hc : c = Char.ofNat 12 := by rw [← Char.ofNat_toNat c, c12]
        subst hc
        exact key ['f'] _ (scanEscape_simple buf st 'f' _ y (by decide) hy (Or.inr (Or.inl ⟨rfl, rfl⟩)) l tail)
      rw [if_neg c12] at hx
      by_cases c10 : c.toNat = 10
      · rw [if_pos c10] at hx
        injection hx with hx1 hx2; subst hx1; subst hx2
        have hc : c = '\n' := by rw [← Char.ofNat_toNat c, c10]
        subst hc
        exact key ['n'] _ (scanEscape_simple buf st 'n' _ y (by decide) hy (Or.inr (Or.inr (Or.inl ⟨rfl, rfl⟩))) l tail)
      rw [if_neg c10] at hx
      by_cases c13 : c.toNat = 13
      · rw [if_pos c13] at hx
        injection hx with hx1 hx2; subst hx1; subst hx2
        have hc : c = '\r' := by rw [← Char.ofNat_toNat c, c13]
        subst hc
        exact key ['r'] _ (scanEscape_simple buf st 'r' _ y (by decide) hy (Or.inr (Or.inr (Or.inr (Or.inl ⟨rfl, rfl⟩)))) l tail)
      rw [if_neg c13] at hx
      by_cases c9 : c.toNat = 9
      · rw [if_pos c9] at hx
        injection hx with hx1 hx2; subst hx1; subst hx2
        have hc : c = '\t' := by rw [← Char.ofNat_toNat c, c9]
        subst hc
        exact key ['t'] _ (scanEscape_simple buf st 't' _ y (by decide) hy (Or.inr (Or.inr (Or.inr (Or.inr (Or.inl ⟨rfl, rfl⟩))))) l tail)
      rw [if_neg c9] at hx
      by_cases c11 : c.toNat = 11
      · rw [if_pos c11] at hx
        injection hx with hx1 hx2; subst hx1; subst hx2
        have hc : c = Char.ofNat 11 := by rw [← Char.ofNat_toNat c, c11]
        subst hc
        exact key ['v'] _ (scanEscape_simple buf st 'v' _ y (by decide) hy (Or.inr (Or.inr (Or.inr (Or.inr (Or.inr (Or.inl ⟨rfl, rfl⟩)))))) l tail)
      rw [if_neg c11] at hx
      by_cases cx : (decide (c.toNat < 32) || decide (c.toNat = 127)) = true
      · -- \xNN
        rw [if_pos cx] at hx
        injection hx with hx1 hx2; subst hx1; subst hx2
        have hlt' : c.toNat < 256 := by
          simp only [Bool.or_eq_true, decide_eq_true_eq] at cx; omega
        have := scanEscape_hex buf st c.toNat (by omega) hlt' y hy l tail
        rw [Char.ofNat_toNat] at this
        exact key _ _ this
      · rw [if_neg cx] at hx
        by_cases hlt : c.toNat < 65536
        · rw [if_pos (by simpa using hlt)] at hx
          injection hx with hx1 hx2; subst hx1; subst hx2
          exact key _ _ (scanEscape_unicode buf st c h0 hlt y hy l tail)
        · rw [if_neg (by simpa using hlt)] at hx
          injection hx with hx1 hx2; subst hx1; subst hx2
          have := scanEscape_unicode_brace buf st c (by omega) y hy l tail
          have h2 : ('u' :: '{' :: (Print.hexTrim c.toNat ++ ['}'])) ++ y :: l
              = 'u' :: '{' :: (Print.hexTrim c.toNat ++ '}' :: y :: l) := by simp
          exact key ('u' :: '{' :: (Print.hexTrim c.toNat ++ ['}'])) c (by rw [h2]; exact this)


/-- the text between the quotes -/
def body (s : List Char) : List Char := s.flatMap (Print.escapeRune isPrint)

omit hnl in
theorem escapeRune_head (c : Char) (hc : c.toNat ≠ 0) :
    ∃ x xs, Print.escapeRune isPrint c = x :: xs ∧ x.toNat ≠ 0 := by
  unfold Print.escapeRune
  by_cases h1 : (c = '"' || c = '\\') = true
  · rw [if_pos h1]; exact ⟨'\\', [c], rfl, by decide⟩
  · rw [if_neg h1]
    by_cases h2 : isPrint c = true
    · rw [if_pos h2]; exact ⟨c, [], rfl, hc⟩
    · rw [if_neg h2]
      simp only
      iterate 9
        split
        · exact ⟨'\\', _, rfl, by decide⟩
      exact ⟨'\\', _, rfl, by decide⟩

omit hnl in
theorem body_length (s : List Char) : s.length ≤ (body isPrint s).length := by
  induction s with
  | nil => simp [body]
  | cons c s ih =>
    simp only [body, List.flatMap_cons, List.length_append, List.length_cons] at ih ⊢
    have : 1 ≤ (Print.escapeRune isPrint c).length := by
      by_cases hc : c.toNat = 0
      · have : c = Char.ofNat 0 := by rw [← Char.ofNat_toNat c, hc]
        subst this
        unfold Print.escapeRune
        split
        · simp
        · split
          · simp
          · simp
      · obtain ⟨x, xs, h, _⟩ := escapeRune_head isPrint c hc
        rw [h]; simp
    omega

/-- the string loop, started on the first character after the opening quote, reads back `s` -/
theorem stringLoop_quote (s : List Char) (hs : ∀ c ∈ s, QuoteSafe isPrint c) :
    ∀ (buf : List Char) (fuel : Nat) (st : LState) (tail : List Src) (x : Char) (xs : List Char),
      body isPrint s ++ ['"'] = x :: xs → s.length + 1 ≤ fuel →
      stringLoop fuel .string (some x) buf (feed st xs tail)
        = ⟨.string, buf.reverse ++ s, (next (feed st [] tail)).1, (next (feed st [] tail)).2⟩ := by
  induction s with
  | nil =>
    intro buf fuel st tail x xs hx hf
    simp only [body, List.flatMap_nil, List.nil_append] at hx
    injection hx with hx1 hx2
    subst hx1; subst hx2
    obtain ⟨f, rfl⟩ : ∃ f, fuel = f + 1 := ⟨fuel - 1, by simp at hf; omega⟩
    rw [stringLoop_succ]
    simp
  | cons c s ih =>
    intro buf fuel st tail x xs hx hf
    have hc := hs c (by simp)
    have hs' : ∀ c ∈ s, QuoteSafe isPrint c := fun d hd => hs d (by simp [hd])
    obtain ⟨f, rfl⟩ : ∃ f, fuel = f + 1 := ⟨fuel - 1, by simp at hf; omega⟩
    obtain ⟨e, es, he, _⟩ := escapeRune_head isPrint c hc
    -- the rest of the quoted text starts with a non-NUL character
    have hrest : ∃ y ys, body isPrint s ++ ['"'] = y :: ys ∧ y.toNat ≠ 0 := by
      cases s with
      | nil => exact ⟨'"', [], by simp [body], by decide⟩
      | cons d s' =>
        obtain ⟨y, ys, hy, hy0⟩ := escapeRune_head isPrint d (hs' d (by simp))
        exact ⟨y, ys ++ (body isPrint s' ++ ['"']), by simp [body, hy], hy0⟩
    obtain ⟨y, ys, hy, hy0⟩ := hrest
    have hx' : x :: xs = e :: (es ++ y :: ys) := by
      rw [← hx]
      simp only [body, List.flatMap_cons, List.append_assoc] at hy ⊢
      rw [he, hy]; simp
    injection hx' with hx1 hx2
    subst hx1; subst hx2
    rw [stringLoop_step isPrint hnl c hc f buf st x es he y hy0 ys tail]
    rw [ih hs' (c :: buf) f st tail y ys hy (by simp at hf; omega)]
    simp

/-- **unquote ∘ quote = id** on the model: `scanString`, positioned after the opening quote of
    `strconv.Quote(s)`, returns the token `STRING_P` with text `s` and stops right after the
    closing quote — for every `s` made of `QuoteSafe` characters. -/
theorem scanString_quote (s : List Char) (hs : ∀ c ∈ s, QuoteSafe isPrint c)
    (st : LState) (tail : List Src)
    (h : st.rest = ((Print.quote isPrint s).drop 1).map Src.ch ++ tail) :
    scanString .string st
      = ⟨.string, s, (next { st with rest := tail }).1, (next { st with rest := tail }).2⟩ := by
  have hb : (Print.quote isPrint s).drop 1 = body isPrint s ++ ['"'] := by
    simp [Print.quote, body]
  obtain ⟨x, xs, hx, hx0⟩ : ∃ x xs, body isPrint s ++ ['"'] = x :: xs ∧ x.toNat ≠ 0 := by
    cases s with
    | nil => exact ⟨'"', [], by simp [body], by decide⟩
    | cons d s' =>
      obtain ⟨y, ys, hy, hy0⟩ := escapeRune_head isPrint d (hs d (by simp))
      exact ⟨y, ys ++ (body isPrint s' ++ ['"']), by simp [body, hy], hy0⟩
  have hst : st = feed st (x :: xs) tail := by
    cases st with
    | mk rest ch err oof =>
      simp only [feed, LState.mk.injEq, and_true]
      simp only at h
      rw [h, hb, hx]
  unfold scanString
  rw [hst, next_feed_cons _ _ _ _ hx0]
  have hlen : s.length + 1 ≤ (feed st xs tail).rest.length + 3 := by
    have h1 := body_length isPrint s
    have h2 : (body isPrint s).length + 1 = xs.length + 1 := by
      have := congrArg List.length hx
      simpa using this
    simp only [feed, List.length_append, List.length_map]
    omega
  have := stringLoop_quote isPrint hnl s hs [] ((feed st xs tail).rest.length + 3) st tail x xs hx hlen
  simp only [feed] at this ⊢
  simp only [this]
  simp

end


theorem skipWs_nonws (n : Nat) (c : Char) (s : LState) (h : isWhitespace c = false) :
    skipWs (n + 1) (some c) s = (some c, s) := by
  unfold skipWs
  simp [h]

/-- the same at the level of `Lex`: the first token of `strconv.Quote(s)` is `STRING_P` with text
    `s` (`"` is not an identifier start) -/
theorem lex_quote (o : Oracles) (hq : o.xidStart '"' = false) (hnl : o.isPrint '\n' = false)
    (s : List Char) (hs : ∀ c ∈ s, QuoteSafe o.isPrint c) (st : LState) (tail : List Src)
    (hch : st.ch = none) (h : st.rest = (Print.quote o.isPrint s).map Src.ch ++ tail) :
    (Lex.lex o st).1 = .string ∧ (Lex.lex o st).2.1 = s := by
  obtain ⟨rest, ch, err, oof⟩ := st
  simp only at hch h
  subst hch
  have hquote : Print.quote o.isPrint s = '"' :: (Print.quote o.isPrint s).drop 1 := by
    simp [Print.quote]
  let st1 : LState := { rest := ((Print.quote o.isPrint s).drop 1).map Src.ch ++ tail, ch := none, err := err, oof := oof }
  have hnext : next { rest := rest, ch := none, err := err, oof := oof } = (some '"', st1) := by
    rw [hquote] at h
    simp only [List.map_cons, List.cons_append] at h
    simp [next, h, st1]
  have hscan := scanString_quote o.isPrint hnl s hs st1 tail rfl
  have hid : isIdentStart o (some '"') = false := by
    simp [isIdentStart, hq]
  unfold Lex.lex
  simp only [hnext]
  unfold lexFrom
  rw [skipWs_nonws _ _ _ (by decide)]
  simp [hid, isDecimal, hscan]


/-! ## §5 Totality

`Parse.parse` is a total function: every definition of `Lex`, `Parse`, `Print` is accepted by Lean
without `partial`; recursion is structural on lists / on the AST, or on an explicit fuel argument.

* Lexer loops are handed `(number of runes left) + 3` units of fuel and read at least one rune per
  iteration; the parser is handed `fuelFor bytes = 16 * bytes.length + 64` units and uses one
  per function call.
* Guard: if any loop should run out of fuel the lexer sets `LState.oof`, `peek` turns that into
  `R.fuel`, and so does every parser function at fuel `0`; `Parse.ranOutOfFuel` reports it and
  `parse` answers `err`.  The correspondence harness checks `ranOutOfFuel = false` on every case.
  That fuel always suffices is *not* proved here (`next_later` is the basic step: reading never
  gives input back). -/

/-- `s'` is `s` after reading zero or more runes -/
def Later (s s' : LState) : Prop := s'.rest.length ≤ s.rest.length

theorem next_later (s : LState) : Later s (next s).2 := by
  unfold next Later
  split
  · simp
  · simp_all
  · split <;> simp_all

/-- at the end of the input `next` keeps answering `stopTok` without recording anything:
    `Lex` is idempotent there, which is why the parser's repeated calls at end of input are harmless -/
theorem next_at_end (s : LState) (h : s.rest = []) : next s = (none, s) := by
  simp [next, h]


/-! ### NUL and invalid UTF-8 at the level of `next`; errors are final -/

/-- reading an undecodable byte records an error and yields `stopTok` -/
theorem next_bad (s : LState) (r : List Src) (h : s.rest = .bad :: r) :
    (next s).1 = none ∧ (next s).2.err = true ∧ (next s).2.rest = r := by
  simp [next, h]

/-- reading NUL records an error and yields `stopTok` -/
theorem next_nul (s : LState) (c : Char) (r : List Src) (h : s.rest = .ch c :: r) (hc : c.toNat = 0) :
    (next s).1 = none ∧ (next s).2.err = true ∧ (next s).2.rest = r := by
  simp [next, h, hc]

/-- `next` never clears the error flag -/
theorem next_err_mono (s : LState) (h : s.err = true) : (next s).2.err = true := by
  unfold next
  split
  · exact h
  · rfl
  · split
    · rfl
    · exact h

/-- the UTF-8 decoder marks exactly the bytes `utf8.DecodeRune` rejects: a byte that cannot start
    a rune is `bad` -/
theorem decodeRune_invalid_lead (b : UInt8) (rest : List UInt8) (h : 0x80 ≤ b.toNat ∧ b.toNat < 0xC2 ∨ 0xF5 ≤ b.toNat) :
    decodeRune (b :: rest) = (.bad, 1) := by
  unfold decodeRune
  simp only
  rcases h with ⟨h1, h2⟩ | h
  · have a : ¬ b.toNat < 0x80 := by omega
    simp [a, h2]
  · have a1 : ¬ b.toNat < 0x80 := by omega
    have a2 : ¬ b.toNat < 0xC2 := by omega
    have a3 : ¬ b.toNat < 0xE0 := by omega
    have a4 : ¬ b.toNat < 0xF0 := by omega
    have a5 : ¬ b.toNat < 0xF5 := by omega
    simp [a1, a2, a3, a4, a5]

/-- whenever the final lexer state has an error on record, `Parse` answers with an error:
    nothing is ever accepted "in spite of" a recorded error -/
theorem parse_err_of_error_recorded (o : Oracles) (bytes : List UInt8) (r : Option AST) (s : PS)
    (hr : Parse.run o bytes = .ok r s) (he : s.lx.err = true) : parse o bytes = .err := by
  unfold parse
  simp [hr, he]

/-- conversely an accepted input ended with no error on record -/
theorem parse_ok_no_error (o : Oracles) (bytes : List UInt8) (a : AST) (h : parse o bytes = .ok a) :
    ∃ s, Parse.run o bytes = .ok (some a) s ∧ s.lx.err = false := by
  unfold parse at h
  cases hr : Parse.run o bytes with
  | ok r s =>
    simp only [hr] at h
    by_cases he : s.lx.err = true
    · simp [he] at h
    · have he' : s.lx.err = false := by cases hx : s.lx.err <;> simp_all
      simp only [he'] at h
      cases r with
      | none => simp at h
      | some a' =>
        simp at h
        exact ⟨s, by rw [h], he'⟩
  | syn => simp [hr] at h
  | panic => simp [hr] at h
  | fuel => simp [hr] at h


/-! ## §6 Number tokens start with a digit or a dot

`lex_num`: whenever `Lex` returns `INT_P` or `NUMERIC_P`, the token text starts with a decimal
digit or with `.` — in particular never with a sign.  (This is what makes the re-parse of the
negated literal in `ast.NewUnaryOrNumber` safe, see §8.) -/


def isNum (t : Tok) : Bool := t = .int || t = .numeric

/-- the text of a number token starts with a digit or a dot (never with a sign) -/
def NumHead (l : List Char) : Prop := ∃ c r, l = c :: r ∧ (isDecimal c = true ∨ c = '.')

theorem identToken_notNum (o : Oracles) (t : List Char) : isNum (identToken o t) = false := by
  unfold identToken
  simp only [apply_ite isNum]
  simp [isNum]

theorem kwTable_getD_cases (i : Nat) (h : isNum (kwTable.getD i .unk) = true) : i = 9 ∨ i = 10 := by
  by_cases hi : i < 48
  · have : ∀ j, j < 48 → isNum (kwTable.getD j .unk) = true → j = 9 ∨ j = 10 := by decide
    exact this i hi h
  · have : kwTable.getD i .unk = .unk := by
      unfold kwTable
      simp only [List.getD_eq_getElem?_getD]
      rw [List.getElem?_eq_none (by simp; omega)]
      rfl
    rw [this] at h; simp [isNum] at h

theorem tokOfRune_num (c : Char) (h : isNum (tokOfRune c) = true) : isPrivateTokenRune c = true := by
  by_cases hp : isPrivateTokenRune c = true
  · exact hp
  · exfalso
    have hlen : kwTable.length = 48 := by decide
    have hp' : ¬ (57344 ≤ c.toNat ∧ c.toNat < 57344 + 51) := by
      intro hh; apply hp
      simp [isPrivateTokenRune, pathPrivate, pathTok2Len, hh.1, hh.2]
    have hc : (decide (firstNamed ≤ c.toNat) && decide (c.toNat < firstNamed + kwTable.length)) = false := by
      rw [hlen]
      by_cases h1 : firstNamed ≤ c.toNat
      · by_cases h2 : c.toNat < firstNamed + 48
        · exfalso; apply hp'; unfold firstNamed at h1 h2; omega
        · simp [h2]
      · simp [h1]
    unfold tokOfRune at h
    simp only [apply_ite isNum, hc] at h
    simp [isNum] at h


theorem scanIdent_notNum (o : Oracles) (c : Char) (s : LState) : isNum (scanIdent o c s).tok = false := by
  unfold scanIdent
  simp only
  repeat' split
  all_goals first | rfl | exact identToken_notNum o _

theorem stringLoop_notNum (ret : Tok) (hret : isNum ret = false) :
    ∀ (f : Nat) (ch : Option Char) (buf : List Char) (s : LState), isNum (stringLoop f ret ch buf s).tok = false
  | 0, _, _, _ => by simp [stringLoop, isNum]
  | f + 1, ch, buf, s => by
    unfold stringLoop
    split
    · rfl
    · split
      · exact hret
      · split
        · rfl
        · split
          · exact stringLoop_notNum ret hret f _ _ _
          · exact stringLoop_notNum ret hret f _ _ _

theorem scanString_notNum (ret : Tok) (hret : isNum ret = false) (s : LState) :
    isNum (scanString ret s).tok = false := by
  unfold scanString
  exact stringLoop_notNum ret hret _ _ _ _

theorem scanVariable_notNum (o : Oracles) (s : LState) : isNum (scanVariable o s).tok = false := by
  unfold scanVariable
  simp only
  split
  · exact scanString_notNum .variable rfl _
  · split <;> rfl

theorem scanOperator_num (c : Char) (s : LState) (h : isNum (scanOperator c s).tok = true) :
    isPrivateTokenRune c = true := by
  unfold scanOperator at h
  simp only at h
  repeat' (split at h)
  all_goals first
    | (simp [isNum] at h; done)
    | exact tokOfRune_num c h


/-! ### number tokens start with their first character -/

/-- `a` is what was pushed first (the token text is kept reversed) -/
def Suff (a b : List Char) : Prop := ∃ pre, b = pre ++ a

theorem Suff.refl (a : List Char) : Suff a a := ⟨[], rfl⟩
theorem Suff.cons {a b : List Char} (c : Char) (h : Suff a b) : Suff a (c :: b) := by
  obtain ⟨p, rfl⟩ := h; exact ⟨c :: p, rfl⟩
theorem Suff.trans {a b c : List Char} (h1 : Suff a b) (h2 : Suff b c) : Suff a c := by
  obtain ⟨p, rfl⟩ := h1; obtain ⟨q, rfl⟩ := h2; exact ⟨q ++ p, by simp⟩

theorem Suff.starts {x : Char} {b : List Char} (h : Suff [x] b) : ∃ t, b.reverse = x :: t := by
  obtain ⟨p, rfl⟩ := h; exact ⟨p.reverse, by simp⟩

theorem digitsLoop_suff (hex : Bool) (maxCh : Nat) :
    ∀ (f : Nat) (ch : Option Char) (ds : Nat) (inv : Option Char) (acc : List Char) (s : LState),
      Suff acc (digitsLoop hex maxCh f ch ds inv acc s).2.2.2.1
  | 0, _, _, _, acc, _ => by simp [digitsLoop]; exact Suff.refl acc
  | f + 1, ch, ds, inv, acc, s => by
    unfold digitsLoop
    repeat' split
    all_goals first
      | exact Suff.refl acc
      | exact Suff.trans (Suff.cons _ (Suff.refl acc)) (digitsLoop_suff hex maxCh f _ _ _ _ _)

theorem digits_suff (base : Nat) (ch : Option Char) (inv : Option Char) (acc : List Char) (s : LState) :
    Suff acc (digits base ch inv acc s).2.2.2.1 := by
  unfold digits
  exact digitsLoop_suff _ _ _ _ _ _ _ _

theorem digits_suff' {a : List Char} (base : Nat) (ch : Option Char) (inv : Option Char) (acc : List Char)
    (s : LState) (h : Suff a acc) : Suff a (digits base ch inv acc s).2.2.2.1 :=
  Suff.trans h (digits_suff base ch inv acc s)

/-- a decimal digit handed to `digits` (base ≤ 10) is pushed first -/
theorem digits_first (base : Nat) (hb : base ≤ 10) (c : Char) (hc : isDecimal c = true) (inv : Option Char)
    (s : LState) : Suff [c] (digits base (some c) inv [] s).2.2.2.1 := by
  unfold digits
  have hne : c ≠ '_' := by intro h; subst h; simp [isDecimal] at hc
  have hh : decide (base > 10) = false := by simp; omega
  rw [hh]
  show Suff [c] (digitsLoop false (48 + base) (s.rest.length + 2 + 1) (some c) 0 inv [] s).2.2.2.1
  unfold digitsLoop
  simp only [hne, if_false, hc, Bool.false_eq_true, if_true]
  exact digitsLoop_suff _ _ _ _ _ _ _ _


theorem numFinish_head (o : Oracles) (tok : Tok) (ch : Option Char) (digSep : Nat) (inv : Option Char)
    (acc : List Char) (s : LState) (x : Char) (h : Suff [x] acc) :
    (numFinish o tok ch digSep inv acc s).tok = .stop ∨
      ∃ t, (numFinish o tok ch digSep inv acc s).text = x :: t := by
  unfold numFinish numErr
  repeat' split
  all_goals first
    | (left; rfl)
    | (right; exact Suff.starts h)

theorem fracPart_suff (tok0 : Tok) (seenDot : Bool) (base : Nat) (ch : Option Char) (digSep : Nat)
    (inv : Option Char) (acc : List Char) (s : LState) (a : List Char) (h : Suff a acc) :
    Suff a (fracPart tok0 seenDot base ch digSep inv acc s).2.2.2.2.1 := by
  unfold fracPart
  split
  · exact digits_suff' _ _ _ _ _ h
  · exact h

theorem expPart_head (o : Oracles) (pp : Bool) (tok1 : Tok) (ch1 : Option Char) (digSep1 : Nat)
    (inv1 : Option Char) (acc1 : List Char) (s1 : LState) (x : Char) (h : Suff [x] acc1) :
    (expPart o pp tok1 ch1 digSep1 inv1 acc1 s1).tok = .stop ∨
      ∃ t, (expPart o pp tok1 ch1 digSep1 inv1 acc1 s1).text = x :: t := by
  unfold expPart numErr
  simp only []
  repeat' split
  all_goals first
    | (left; rfl)
    | (apply numFinish_head; repeat (first | exact h | apply digits_suff' | apply Suff.cons))

theorem scanNumberTail_head (o : Oracles) (tok0 : Tok) (seenDot : Bool) (base : Nat) (pp : Bool)
    (ch : Option Char) (digSep : Nat) (inv : Option Char) (acc : List Char) (s : LState)
    (x : Char) (h : Suff [x] acc) :
    (scanNumberTail o tok0 seenDot base pp ch digSep inv acc s).tok = .stop ∨
      ∃ t, (scanNumberTail o tok0 seenDot base pp ch digSep inv acc s).text = x :: t := by
  unfold scanNumberTail
  exact expPart_head o _ _ _ _ _ _ _ x (fracPart_suff _ _ _ _ _ _ _ _ _ h)

theorem scanNumber_dot_head (o : Oracles) (c : Char) (s : LState) :
    (scanNumber o c true ['.'] s).tok = .stop ∨ ∃ t, (scanNumber o c true ['.'] s).text = '.' :: t := by
  unfold scanNumber
  simp only [if_true]
  exact scanNumberTail_head o _ _ _ _ _ _ _ _ _ '.' (Suff.refl _)

theorem zeroPrefix_suff (acc : List Char) (s : LState) {b : Nat} {p : Bool} {d : Nat} {ch : Option Char}
    {acc1 : List Char} {s1 : LState} (h : zeroPrefix acc s = some (b, p, d, ch, acc1, s1)) :
    Suff ('0' :: acc) acc1 := by
  unfold zeroPrefix at h
  simp only at h
  repeat' (split at h)
  all_goals first
    | (injection h with h; injection h with _ h; injection h with _ h; injection h with _ h
       injection h with _ h; injection h with h _; subst h
       first | exact Suff.refl _ | exact Suff.cons _ (Suff.refl _))
    | (simp at h; done)

theorem scanNumberBody_head (o : Oracles) (base : Nat) (pp : Bool) (d0 : Nat) (ch : Option Char)
    (acc1 : List Char) (s1 : LState) (x : Char)
    (h : Suff [x] (digits base ch none acc1 s1).2.2.2.1) :
    (scanNumberBody o base pp d0 ch acc1 s1).tok = .stop ∨
      ∃ t, (scanNumberBody o base pp d0 ch acc1 s1).text = x :: t := by
  unfold scanNumberBody numErr
  simp only []
  repeat' split
  all_goals first
    | (left; rfl)
    | (right; exact Suff.starts h)
    | (apply scanNumberTail_head; first | exact h | exact Suff.cons _ h)

theorem scanNumber_int_head (o : Oracles) (c : Char) (hc : isDecimal c = true) (s : LState) :
    (scanNumber o c false [] s).tok = .stop ∨ ∃ t, (scanNumber o c false [] s).text = c :: t := by
  unfold scanNumber
  simp only [Bool.false_eq_true, if_false]
  by_cases h0 : c = '0'
  · subst h0
    simp only [if_true]
    split
    · left; rfl
    · rename_i heq
      apply scanNumberBody_head
      exact digits_suff' _ _ _ _ _ (zeroPrefix_suff [] s heq)
  · simp only [h0, if_false]
    apply scanNumberBody_head
    exact digits_first 10 (by omega) c hc _ _


theorem lexFrom_num (o : Oracles) : ∀ (f : Nat) (ch : Option Char) (s : LState),
    isNum (lexFrom o f ch s).tok = true → NumHead (lexFrom o f ch s).text
  | 0, _, _ => by simp [lexFrom, isNum]
  | f + 1, ch0, s0 => by
    unfold lexFrom
    simp only
    split
    · simp [isNum]
    · rename_i c hsk
      split
      · intro h; rw [scanIdent_notNum] at h; exact absurd h (by decide)
      · split
        · rename_i hdec
          intro h
          rcases scanNumber_int_head o c hdec _ with h1 | ⟨t, h1⟩
          · rw [h1] at h; exact absurd h (by decide)
          · exact ⟨c, t, h1, Or.inl hdec⟩
        · split
          · intro h; rw [scanString_notNum _ rfl] at h; exact absurd h (by decide)
          · split
            · intro h; rw [scanVariable_notNum] at h; exact absurd h (by decide)
            · split
              · split
                · exact lexFrom_num o f _ _
                · simp [isNum]
              · split
                · split
                  · split
                    · rename_i d _ hd
                      intro h
                      rcases scanNumber_dot_head o d _ with h1 | ⟨t, h1⟩
                      · rw [h1] at h; exact absurd h (by decide)
                      · exact ⟨'.', t, h1, Or.inr rfl⟩
                    · simp [isNum]
                  · simp [isNum]
                · split
                  · simp [isNum]
                  · rename_i hpriv
                    intro h
                    exact absurd (scanOperator_num c _ h) hpriv

theorem lex_num (o : Oracles) (s : LState) (h : isNum (lex o s).1 = true) : NumHead (lex o s).2.1 := by
  unfold lex at h ⊢
  exact lexFrom_num o _ _ _ h


/-! ## §7 `strconv` on negated literals

If `ParseInt(lit, 0, 64)` / `ParseFloat(lit, 64)` accepts a literal that starts with a digit or a
dot, it also accepts `"-" + lit`. -/


theorem finish_neg (m : Nat) (e : Int) : F64.finish true m e = (F64.finish false m e).neg := by
  unfold F64.finish; split <;> rfl

theorem roundPos_neg (n d : Nat) : F64.roundPos true n d = (F64.roundPos false n d).neg := by
  unfold F64.roundPos
  split
  · rfl
  · simp only
    split <;> exact finish_neg _ _

theorem scale10_neg (m : Nat) (e : Int) : Decimal.scale10 true m e = (Decimal.scale10 false m e).neg := by
  unfold Decimal.scale10
  split
  · rfl
  · simp only
    split
    · rfl
    · split
      · rfl
      · split <;> exact roundPos_neg _ _

theorem scale2_neg (m : Nat) (e : Int) : Decimal.scale2 true m e = (Decimal.scale2 false m e).neg := by
  unfold Decimal.scale2
  split
  · rfl
  · simp only
    split
    · rfl
    · split
      · rfl
      · split <;> exact roundPos_neg _ _

theorem isInf_neg (x : F64) : x.neg.isInf = x.isInf := by cases x <;> rfl

def mapNeg : Except Decimal.FloatErr F64 → Except Decimal.FloatErr F64
  | .ok f => .ok f.neg
  | .error e => .error e

theorem dec_neg (body : List Char) :
    Decimal.parseFloatNoUnderscore.dec true body = mapNeg (Decimal.parseFloatNoUnderscore.dec false body) := by
  unfold Decimal.parseFloatNoUnderscore.dec
  split
  rename_i m nd nf dot rest heq
  split
  · rfl
  · split
    · simp only [scale10_neg, isInf_neg]
      split <;> rfl
    · rfl


/-- first character of a number token -/
def HeadOk (c : Char) : Prop := ('0' ≤ c ∧ c ≤ '9') ∨ c = '.'

theorem headOk_lowerC (c : Char) (h : HeadOk c) : Decimal.lowerC c = c ∧ c ≠ 'i' ∧ c ≠ 'n' ∧ c ≠ '+' ∧ c ≠ '-' ∧ c ≠ '_' := by
  rcases h with ⟨h1, h2⟩ | h
  · have a1 : 48 ≤ c.toNat := h1
    have a2 : c.toNat ≤ 57 := h2
    refine ⟨?_, ?_, ?_, ?_, ?_, ?_⟩
    · unfold Decimal.lowerC
      have : ¬ (('A' ≤ c && c ≤ 'Z') = true) := by
        simp only [Bool.and_eq_true, decide_eq_true_eq, not_and]
        intro h3
        have : 65 ≤ c.toNat := h3
        omega
      rw [if_neg this]
    all_goals (intro h; subst h; revert a1 a2; decide)
  · subst h; decide

theorem eqFold_head_false (c : Char) (cs : List Char) (t : String) (x : Char) (xs : List Char)
    (ht : t.toList = x :: xs) (h : Decimal.lowerC c ≠ x) : Decimal.eqFold (c :: cs) t = false := by
  unfold Decimal.eqFold
  rw [ht]
  simp [h]

/-- the body of `parseFloatNoUnderscore` after the sign has been split off -/
def pfBody (neg : Bool) (body s : List Char) : Except Decimal.FloatErr F64 :=
  if Decimal.eqFold body "inf" || Decimal.eqFold body "infinity" then .ok (.inf neg)
  else if Decimal.eqFold s "nan" then .ok .nan
  else
    match body with
    | '0' :: x :: rest =>
      if Decimal.lowerC x = 'x' then
        match Decimal.takeHexMant rest 0 0 0 false with
        | (m, nd, nf, _, rest') =>
          if nd = 0 then .error .syntax
          else match rest' with
            | c :: _ =>
              if Decimal.lowerC c = 'p' then
                match Decimal.takeExp 'p' rest' with
                | some (e, []) =>
                  let r := Decimal.scale2 neg m (e - 4 * (nf : Int))
                  if r.isInf then .error .range else .ok r
                | _ => .error .syntax
              else .error .syntax
            | [] => .error .syntax
      else Decimal.parseFloatNoUnderscore.dec neg body
    | _ => Decimal.parseFloatNoUnderscore.dec neg body

theorem pfnu_minus (t : List Char) :
    Decimal.parseFloatNoUnderscore ('-' :: t) = pfBody true t ('-' :: t) := by
  rfl

theorem pfnu_plain (c : Char) (cs : List Char) (hp : c ≠ '+') (hm : c ≠ '-') :
    Decimal.parseFloatNoUnderscore (c :: cs) = pfBody false (c :: cs) (c :: cs) := by
  unfold Decimal.parseFloatNoUnderscore
  split
  rename_i x neg body heq
  have hnb : neg = false ∧ body = c :: cs := by
    split at heq
    · rename_i h2; injection h2 with a b; exact absurd a hp
    · rename_i h2; injection h2 with a b; exact absurd a hm
    · injection heq with a b; exact ⟨a.symm, b.symm⟩
  obtain ⟨rfl, rfl⟩ := hnb
  rfl

theorem pfBody_neg (body s s' : List Char) (h1 : Decimal.eqFold body "inf" = false)
    (h2 : Decimal.eqFold body "infinity" = false) (h3 : Decimal.eqFold s "nan" = false)
    (h4 : Decimal.eqFold s' "nan" = false) :
    pfBody true body s' = mapNeg (pfBody false body s) := by
  unfold pfBody
  simp only [h1, h2, h3, h4, Bool.or_self, Bool.false_eq_true, if_false]
  repeat' split
  all_goals first
    | rfl
    | exact dec_neg _
    | (simp only [scale2_neg, isInf_neg]; split <;> rfl)
    | (simp_all [scale2_neg, isInf_neg, mapNeg])

theorem pfnu_neg (c : Char) (cs : List Char) (hc : HeadOk c) :
    Decimal.parseFloatNoUnderscore ('-' :: c :: cs) = mapNeg (Decimal.parseFloatNoUnderscore (c :: cs)) := by
  obtain ⟨hl, hi, hn, hp, hm, _⟩ := headOk_lowerC c hc
  have e1 : Decimal.eqFold (c :: cs) "inf" = false :=
    eqFold_head_false c cs "inf" 'i' ['n', 'f'] (by decide) (by rw [hl]; exact hi)
  have e2 : Decimal.eqFold (c :: cs) "infinity" = false :=
    eqFold_head_false c cs "infinity" 'i' ['n', 'f', 'i', 'n', 'i', 't', 'y'] (by decide) (by rw [hl]; exact hi)
  have e3 : Decimal.eqFold (c :: cs) "nan" = false :=
    eqFold_head_false c cs "nan" 'n' ['a', 'n'] (by decide) (by rw [hl]; exact hn)
  have e4 : Decimal.eqFold ('-' :: c :: cs) "nan" = false :=
    eqFold_head_false '-' (c :: cs) "nan" 'n' ['a', 'n'] (by decide) (by decide)
  rw [pfnu_minus, pfnu_plain c cs hp hm]
  exact pfBody_neg _ _ _ e1 e2 e3 e4


theorem underscoreOK_minus (c : Char) (cs : List Char) (hp : c ≠ '+') (hm : c ≠ '-') :
    Decimal.underscoreOK ('-' :: c :: cs) = Decimal.underscoreOK (c :: cs) := by
  conv => rhs; unfold Decimal.underscoreOK
  split
  · rename_i heq; injection heq with a b; exact absurd a hm
  · rename_i heq; injection heq with a b; exact absurd a hp
  · rfl

theorem parseFloat_neg (c : Char) (cs : List Char) (hc : HeadOk c) :
    Decimal.parseFloat ('-' :: c :: cs) = mapNeg (Decimal.parseFloat (c :: cs)) := by
  obtain ⟨_, _, _, hp, hm, hu⟩ := headOk_lowerC c hc
  unfold Decimal.parseFloat
  have h1 : ('-' :: c :: cs).contains '_' = (c :: cs).contains '_' := by
    simp [List.contains_cons]
  have h2 : ('-' :: c :: cs).filter (· != '_') = '-' :: c :: cs.filter (· != '_') := by
    simp [List.filter_cons, hu]
  have h3 : (c :: cs).filter (· != '_') = c :: cs.filter (· != '_') := by
    simp [List.filter_cons, hu]
  rw [h1, underscoreOK_minus c cs hp hm, h2, h3]
  split
  · split
    · exact pfnu_neg c _ hc
    · rfl
  · exact pfnu_neg c cs hc


theorem numHead_headOk {l : List Char} (h : NumHead l) : ∃ c cs, l = c :: cs ∧ HeadOk c := by
  obtain ⟨c, r, rfl, hc⟩ := h
  refine ⟨c, r, rfl, ?_⟩
  rcases hc with hc | hc
  · left
    simpa [isDecimal] using hc
  · right; exact hc

theorem jsonFloat_neg_isSome (f : F64) (h : (Decimal.jsonFloat f).isSome) :
    (Decimal.jsonFloat f.neg).isSome := by
  cases f with
  | nan => simp [Decimal.jsonFloat] at h
  | inf n => simp [Decimal.jsonFloat] at h
  | fin n m e =>
    simp only [F64.neg, Decimal.jsonFloat]
    repeat' split
    all_goals rfl

/-- `ParseFloat(lit, 64)` of a literal without sign succeeds ⇒ so does that of its negation -/
theorem parseFloatFinite_neg {r : List Char} (hr : NumHead r) (h : (parseFloatFinite r).isSome) :
    (parseFloatFinite ('-' :: r)).isSome := by
  obtain ⟨c, cs, rfl, hc⟩ := numHead_headOk hr
  unfold parseFloatFinite at h ⊢
  rw [parseFloat_neg c cs hc]
  cases hp : Decimal.parseFloat (c :: cs) with
  | error e => simp [hp] at h
  | ok f =>
    simp only [hp] at h
    simp only [mapNeg]
    split at h
    · rename_i hj
      simp [jsonFloat_neg_isSome f hj]
    · simp at h
/-! ### literals -/

theorem numHead_not_sign {l : List Char} (h : NumHead l) :
    ∃ c r, l = c :: r ∧ c ≠ '-' ∧ c ≠ '+' ∧ c ≠ '_' := by
  obtain ⟨c, r, rfl, hc⟩ := h
  refine ⟨c, r, rfl, ?_, ?_, ?_⟩ <;>
  · rcases hc with hc | hc
    · intro h; subst h; simp [isDecimal] at hc
    · subst hc; decide

theorem parseIntBase0_unsigned (bits : Nat) (c : Char) (cs : List Char) (h1 : c ≠ '-') (h2 : c ≠ '+') :
    parseIntBase0 bits (c :: cs) = parseIntCore bits false (c :: cs) := by
  unfold parseIntBase0
  split
  · rename_i heq; injection heq with a b; exact absurd a h2
  · rename_i heq; injection heq with a b; exact absurd a h1
  · rfl

theorem intRange_neg (bits n : Nat) (h : (intRange bits false n).isSome) :
    (intRange bits true n).isSome := by
  unfold intRange at h ⊢
  simp only [Bool.false_eq_true, if_false, if_true] at h ⊢
  split at h
  · simp at h
  · rename_i hlt
    have : ¬ (n > 2 ^ (bits - 1)) := by omega
    simp [this]

theorem parseIntCore_neg (bits : Nat) (body : List Char) (h : (parseIntCore bits false body).isSome) :
    (parseIntCore bits true body).isSome := by
  unfold parseIntCore at h ⊢
  cases body with
  | nil => simp at h
  | cons c0 r0 =>
    simp only at h ⊢
    cases hu : uintLoop (basePrefix c0 r0).1 (basePrefix c0 r0).2 0 with
    | none => simp [hu] at h
    | some n =>
      simp only [hu] at h ⊢
      cases hb : ((c0 :: r0).contains '_' && !Decimal.underscoreOK (c0 :: r0)) with
      | true => rw [hb] at h; simp at h
      | false =>
        simp only [hb, Bool.false_eq_true, if_false] at h ⊢
        exact intRange_neg bits n h

/-- `ParseInt(s, 0, 64)` of a literal without sign succeeds ⇒ so does that of its negation -/
theorem parseInt0_neg {r : List Char} (hr : NumHead r) (h : (parseInt0 r).isSome) :
    (parseInt0 ('-' :: r)).isSome := by
  obtain ⟨c, cs, rfl, h1, h2, _⟩ := numHead_not_sign hr
  unfold parseInt0 at h ⊢
  rw [parseIntBase0_unsigned 64 c cs h1 h2] at h
  have : parseIntBase0 64 ('-' :: c :: cs) = parseIntCore 64 true (c :: cs) := rfl
  rw [this]
  exact parseIntCore_neg 64 _ h


/-! ## §8 What `Lex` has read: the invariant `Track`

`Track L s`: the lexer state `s` is somewhere in the decoded source `L`, and if anything read so
far was an undecodable byte or NUL, an error is on record.  Every function of the lexer keeps it
(`track_lex`).  `lex_stop`: `Lex` answers `stopTok` only after an error or at the end of the source.
Together: an input is accepted only if the lexer has read all of it and none of it was an
undecodable byte or NUL (`parse_ok_clean`, §9). -/

/-- a source position that `next` reads without recording an error -/
def cleanSrc : Src → Bool
  | .bad => false
  | .ch c => c.toNat ≠ 0

/-- an invariant of the lexer state that the four state-changing primitives keep -/
structure LexInv where
  P : LState → Prop
  keepNext : ∀ s, P s → P (Lex.next s).2
  keepErr : ∀ s, P s → P (Lex.setErr s)
  keepOof : ∀ s, P s → P (Lex.setOof s)
  /-- the "backtrack" of `scanUnicode`: same position as `s`, error recorded -/
  keepBack : ∀ s (e : Bool), P s → P (Lex.setErr { s with err := e })
  /-- `Lex` stores the look-ahead rune in the state -/
  keepCh : ∀ s (c : Option Char), P s → P { s with ch := c }

/-- `s` satisfies the invariant `L` -/
def Track (L : LexInv) (s : LState) : Prop := L.P s

theorem track_next {L : LexInv} {s : LState} (h : Track L s) : Track L (next s).2 := L.keepNext s h
theorem track_setErr {L : LexInv} {s : LState} (h : Track L s) : Track L (setErr s) := L.keepErr s h
theorem track_setOof {L : LexInv} {s : LState} (h : Track L s) : Track L (setOof s) := L.keepOof s h
theorem track_backtrack {L : LexInv} {s : LState} (e : Bool) (h : Track L s) :
    Track L (setErr { s with err := e }) := L.keepBack s e h
theorem track_withCh {L : LexInv} {s : LState} (c : Option Char) (h : Track L s) :
    Track L { s with ch := c } := L.keepCh s c h

/-- the lexer is somewhere in the source `L`, and if anything it has read so far was an
    undecodable byte or NUL, an error is on record -/
def srcInv (L : List Src) : LexInv where
  P s := ∃ pre, L = pre ++ s.rest ∧ (pre.all cleanSrc = false → s.err = true)
  keepNext := by
    intro s h
    obtain ⟨pre, hL, he⟩ := h
    unfold Lex.next
    split
    · exact ⟨pre, hL, he⟩
    · rename_i r hr
      refine ⟨pre ++ [.bad], by simp [hL, hr], fun _ => rfl⟩
    · rename_i c r hr
      split
      · refine ⟨pre ++ [.ch c], by simp [hL, hr], fun _ => rfl⟩
      · rename_i hc
        refine ⟨pre ++ [.ch c], by simp [hL, hr], ?_⟩
        intro hall
        simp only [List.all_append, List.all_cons, List.all_nil, Bool.and_true, Bool.and_eq_false_imp] at hall
        apply he
        cases hp : pre.all cleanSrc with
        | false => rfl
        | true =>
          have := hall hp
          simp [cleanSrc, hc] at this
  keepErr := by
    intro s h; obtain ⟨pre, hL, _⟩ := h; exact ⟨pre, hL, fun _ => rfl⟩
  keepOof := by
    intro s h; obtain ⟨pre, hL, he⟩ := h; exact ⟨pre, hL, he⟩
  keepBack := by
    intro s e h; obtain ⟨pre, hL, _⟩ := h; exact ⟨pre, hL, fun _ => rfl⟩
  keepCh := by
    intro s c h; obtain ⟨pre, hL, he⟩ := h; exact ⟨pre, hL, he⟩

/-- an error is on record (it is never cleared) -/
def errInv : LexInv where
  P s := s.err = true
  keepNext := fun s h => next_err_mono s h
  keepErr := fun _ _ => rfl
  keepOof := fun _ h => h
  keepBack := fun _ _ _ => rfl
  keepCh := fun _ _ h => h

/-- extensible step of the `track` tactic: one rule per lemma `Track L s → Track L (f … s).state` -/
syntax "track_more" : tactic
macro_rules | `(tactic| track_more) => `(tactic| with_reducible apply track_setErr)
macro_rules | `(tactic| track_more) => `(tactic| with_reducible apply track_setOof)
macro_rules | `(tactic| track_more) => `(tactic| with_reducible apply track_backtrack)
macro_rules | `(tactic| track_more) => `(tactic| with_reducible apply track_next)

/-- close `Track L X` goals by peeling the lexer functions off `X` -/
macro "track" : tactic => `(tactic| ((try dsimp only); repeat (first | assumption | track_more)))

/-- unfold-and-case-split proof of a `Track` preservation lemma -/
macro "track_cases" : tactic => `(tactic| ((try simp only []); (repeat' split); all_goals track))

theorem track_braceDigits {L : LexInv} : ∀ (f i : Nat) (c : Option Char) (rr : Nat) (s : LState),
    Track L s → Track L (braceDigits f i c rr s).2
  | 0, _, _, _, s, h => by simp only [braceDigits]; track
  | f + 1, i, c, rr, s, h => by
    unfold braceDigits
    simp only []
    repeat' split
    all_goals first
      | (apply track_braceDigits; track)
      | track
macro_rules | `(tactic| track_more) => `(tactic| (with_reducible apply track_braceDigits))

theorem track_fixedDigits {L : LexInv} : ∀ (k rr : Nat) (s : LState),
    Track L s → Track L (fixedDigits k rr s).2
  | 0, _, s, h => by simp only [fixedDigits]; exact h
  | k + 1, rr, s, h => by
    unfold fixedDigits
    simp only []
    repeat' split
    all_goals first
      | (apply track_fixedDigits; track)
      | track
macro_rules | `(tactic| track_more) => `(tactic| (with_reducible apply track_fixedDigits))

theorem track_decodeUnicode {L : LexInv} (s : LState) (h : Track L s) : Track L (decodeUnicode s).2 := by
  unfold decodeUnicode
  track_cases
macro_rules | `(tactic| track_more) => `(tactic| (with_reducible apply track_decodeUnicode))

theorem track_decodeUnicode_eq {L : LexInv} {s s' : LState} {r : Option Nat}
    (heq : decodeUnicode s = (r, s')) (h : Track L s) : Track L s' := by
  have := track_decodeUnicode s h
  rw [heq] at this
  exact this
macro_rules | `(tactic| track_more) => `(tactic| (refine track_decodeUnicode_eq (by assumption) ?_))

theorem track_scanUnicode {L : LexInv} (s : LState) (h : Track L s) : Track L (scanUnicode s).st := by
  unfold scanUnicode
  track_cases
macro_rules | `(tactic| track_more) => `(tactic| (with_reducible apply track_scanUnicode))

theorem track_scanHex {L : LexInv} (s : LState) (h : Track L s) : Track L (scanHex s).st := by
  unfold scanHex
  track_cases
macro_rules | `(tactic| track_more) => `(tactic| (with_reducible apply track_scanHex))

theorem track_scanEscape {L : LexInv} (buf : List Char) (s : LState) (h : Track L s) :
    Track L (scanEscape buf s).2.2 := by
  unfold scanEscape
  track_cases
macro_rules | `(tactic| track_more) => `(tactic| (with_reducible apply track_scanEscape))


section
variable (o : Oracles)

theorem track_identLoop {L : LexInv} : ∀ (f : Nat) (ch : Option Char) (buf : List Char) (s : LState),
    Track L s → Track L (identLoop o f ch buf s).2.2
  | 0, _, _, s, h => by simp only [identLoop]; track
  | f + 1, ch, buf, s, h => by
    unfold identLoop
    simp only []
    repeat' split
    all_goals first
      | (apply track_identLoop; track)
      | track
macro_rules | `(tactic| track_more) => `(tactic| (with_reducible apply track_identLoop))

theorem track_scanIdent {L : LexInv} (c : Char) (s : LState) (h : Track L s) :
    Track L (scanIdent o c s).st := by
  unfold scanIdent
  track_cases
macro_rules | `(tactic| track_more) => `(tactic| (with_reducible apply track_scanIdent))

theorem track_stringLoop {L : LexInv} : ∀ (f : Nat) (ret : Tok) (ch : Option Char) (buf : List Char) (s : LState),
    Track L s → Track L (stringLoop f ret ch buf s).st
  | 0, _, _, _, s, h => by simp only [stringLoop]; track
  | f + 1, ret, ch, buf, s, h => by
    unfold stringLoop
    simp only []
    repeat' split
    all_goals first
      | (apply track_stringLoop; track)
      | track
macro_rules | `(tactic| track_more) => `(tactic| (with_reducible apply track_stringLoop))

theorem track_scanString {L : LexInv} (ret : Tok) (s : LState) (h : Track L s) :
    Track L (scanString ret s).st := by
  unfold scanString
  track_cases
macro_rules | `(tactic| track_more) => `(tactic| (with_reducible apply track_scanString))

theorem track_variableLoop {L : LexInv} : ∀ (f : Nat) (ch : Option Char) (buf : List Char) (s : LState),
    Track L s → Track L (variableLoop o f ch buf s).2.2
  | 0, _, _, s, h => by simp only [variableLoop]; track
  | f + 1, ch, buf, s, h => by
    unfold variableLoop
    simp only []
    repeat' split
    all_goals first
      | (apply track_variableLoop; track)
      | track
macro_rules | `(tactic| track_more) => `(tactic| (with_reducible apply track_variableLoop))

theorem track_scanVariable {L : LexInv} (s : LState) (h : Track L s) :
    Track L (scanVariable o s).st := by
  unfold scanVariable
  track_cases
macro_rules | `(tactic| track_more) => `(tactic| (with_reducible apply track_scanVariable))

theorem track_commentLoop {L : LexInv} : ∀ (f : Nat) (ch : Option Char) (s : LState),
    Track L s → Track L (commentLoop f ch s).2
  | 0, _, s, h => by simp only [commentLoop]; track
  | f + 1, ch, s, h => by
    unfold commentLoop
    simp only []
    repeat' split
    all_goals first
      | (apply track_commentLoop; track)
      | track
macro_rules | `(tactic| track_more) => `(tactic| (with_reducible apply track_commentLoop))

theorem track_scanOperator {L : LexInv} (c : Char) (s : LState) (h : Track L s) :
    Track L (scanOperator c s).st := by
  unfold scanOperator
  track_cases
macro_rules | `(tactic| track_more) => `(tactic| (with_reducible apply track_scanOperator))

theorem track_digitsLoop {L : LexInv} (hex : Bool) (maxCh : Nat) :
    ∀ (f : Nat) (ch : Option Char) (ds : Nat) (inv : Option Char) (acc : List Char) (s : LState),
    Track L s → Track L (digitsLoop hex maxCh f ch ds inv acc s).2.2.2.2
  | 0, _, _, _, _, s, h => by simp only [digitsLoop]; track
  | f + 1, ch, ds, inv, acc, s, h => by
    unfold digitsLoop
    simp only []
    repeat' split
    all_goals first
      | (apply track_digitsLoop; track)
      | track
macro_rules | `(tactic| track_more) => `(tactic| (with_reducible apply track_digitsLoop))

theorem track_digits {L : LexInv} (base : Nat) (ch : Option Char) (inv : Option Char) (acc : List Char)
    (s : LState) (h : Track L s) : Track L (digits base ch inv acc s).2.2.2.2 := by
  unfold digits
  track
macro_rules | `(tactic| track_more) => `(tactic| (with_reducible apply track_digits))

theorem track_numErr {L : LexInv} (s : LState) (h : Track L s) : Track L (numErr s).st := by
  unfold numErr
  track
macro_rules | `(tactic| track_more) => `(tactic| (with_reducible apply track_numErr))

theorem track_numFinish {L : LexInv} (tok : Tok) (ch : Option Char) (digSep : Nat) (inv : Option Char)
    (acc : List Char) (s : LState) (h : Track L s) : Track L (numFinish o tok ch digSep inv acc s).st := by
  unfold numFinish
  track_cases
macro_rules | `(tactic| track_more) => `(tactic| (with_reducible apply track_numFinish))

theorem track_fracPart {L : LexInv} (tok0 : Tok) (seenDot : Bool) (base : Nat) (ch : Option Char)
    (digSep : Nat) (inv : Option Char) (acc : List Char) (s : LState) (h : Track L s) :
    Track L (fracPart tok0 seenDot base ch digSep inv acc s).2.2.2.2.2 := by
  unfold fracPart
  track_cases
macro_rules | `(tactic| track_more) => `(tactic| (with_reducible apply track_fracPart))

theorem track_expPart {L : LexInv} (pp : Bool) (tok1 : Tok) (ch1 : Option Char) (digSep1 : Nat)
    (inv1 : Option Char) (acc1 : List Char) (s1 : LState) (h : Track L s1) :
    Track L (expPart o pp tok1 ch1 digSep1 inv1 acc1 s1).st := by
  unfold expPart
  track_cases
macro_rules | `(tactic| track_more) => `(tactic| (with_reducible apply track_expPart))

theorem track_scanNumberTail {L : LexInv} (tok0 : Tok) (seenDot : Bool) (base : Nat) (pp : Bool)
    (ch : Option Char) (digSep : Nat) (inv : Option Char) (acc : List Char) (s : LState) (h : Track L s) :
    Track L (scanNumberTail o tok0 seenDot base pp ch digSep inv acc s).st := by
  unfold scanNumberTail
  track_cases
macro_rules | `(tactic| track_more) => `(tactic| (with_reducible apply track_scanNumberTail))

theorem track_zeroPrefix {L : LexInv} {acc : List Char} {s : LState} {b : Nat} {p : Bool} {d : Nat}
    {ch : Option Char} {acc1 : List Char} {s1 : LState}
    (heq : zeroPrefix acc s = some (b, p, d, ch, acc1, s1)) (h : Track L s) : Track L s1 := by
  unfold zeroPrefix at heq
  simp only at heq
  repeat' (split at heq)
  all_goals first
    | (simp at heq; done)
    | (injection heq with heq; injection heq with _ heq; injection heq with _ heq; injection heq with _ heq
       injection heq with _ heq; injection heq with _ heq; subst heq; track)
macro_rules | `(tactic| track_more) => `(tactic| (refine track_zeroPrefix (by assumption) ?_))

theorem track_scanNumberBody {L : LexInv} (base : Nat) (pp : Bool) (d0 : Nat) (ch : Option Char)
    (acc1 : List Char) (s1 : LState) (h : Track L s1) :
    Track L (scanNumberBody o base pp d0 ch acc1 s1).st := by
  unfold scanNumberBody
  track_cases
macro_rules | `(tactic| track_more) => `(tactic| (with_reducible apply track_scanNumberBody))

theorem track_scanNumber {L : LexInv} (c : Char) (seenDot : Bool) (acc : List Char) (s : LState)
    (h : Track L s) : Track L (scanNumber o c seenDot acc s).st := by
  unfold scanNumber
  track_cases
macro_rules | `(tactic| track_more) => `(tactic| (with_reducible apply track_scanNumber))

theorem track_skipWs {L : LexInv} : ∀ (f : Nat) (ch : Option Char) (s : LState),
    Track L s → Track L (skipWs f ch s).2
  | 0, _, s, h => by simp only [skipWs]; track
  | f + 1, ch, s, h => by
    unfold skipWs
    simp only []
    repeat' split
    all_goals first
      | (apply track_skipWs; track)
      | track
macro_rules | `(tactic| track_more) => `(tactic| (with_reducible apply track_skipWs))

theorem track_lexFrom {L : LexInv} : ∀ (f : Nat) (ch : Option Char) (s : LState),
    Track L s → Track L (lexFrom o f ch s).st
  | 0, _, s, h => by simp only [lexFrom]; track
  | f + 1, ch, s, h => by
    unfold lexFrom
    simp only []
    repeat' split
    all_goals first
      | (apply track_lexFrom; track)
      | track
macro_rules | `(tactic| track_more) => `(tactic| (with_reducible apply track_lexFrom))

/-- `Lex` keeps the invariant: whatever it reads that is undecodable or NUL leaves an error -/
theorem track_lex {L : LexInv} (s : LState) (h : Track L s) : Track L (lex o s).2.2 := by
  unfold lex
  simp only []
  split
  · exact track_withCh _ (show Track L (lexFrom o (s.rest.length + 3) _ s).st by track)
  · exact track_withCh _ (show Track L (lexFrom o ((next s).2.rest.length + 3) (next s).1 (next s).2).st by track)

end


/-! ### when `Lex` answers `stopTok` without an error, the source is exhausted -/

/-- an error is on record, or a loop of the model ran out of fuel, or nothing is left to read -/
def EndOk (s : LState) : Prop := s.err = true ∨ s.oof = true ∨ s.rest = []

/-- a rune that is `stopTok` was produced by the end of the source or by an error -/
def NoneOk (ch : Option Char) (s : LState) : Prop := ch = none → EndOk s

theorem endOk_setErr (s : LState) : EndOk (setErr s) := Or.inl rfl
theorem endOk_setOof (s : LState) : EndOk (setOof s) := Or.inr (Or.inl rfl)

theorem noneOk_next (s : LState) : NoneOk (next s).1 (next s).2 := by
  unfold next
  split
  · rename_i h; intro _; exact Or.inr (Or.inr h)
  · intro _; exact Or.inl rfl
  · split
    · intro _; exact Or.inl rfl
    · intro h; simp at h

def isStop (t : Tok) : Bool := t = .stop

theorem identToken_notStop (o : Oracles) (t : List Char) : isStop (identToken o t) = false := by
  unfold identToken
  simp only [apply_ite isStop]
  simp [isStop]

theorem tokOfRune_notStop (c : Char) : isStop (tokOfRune c) = false := by
  unfold tokOfRune
  simp only [apply_ite isStop]
  have : ∀ i, isStop (kwTable.getD i .unk) = false := by
    intro i
    by_cases hi : i < 48
    · have : ∀ j, j < 48 → isStop (kwTable.getD j .unk) = false := by decide
      exact this i hi
    · have : kwTable.getD i .unk = .unk := by
        unfold kwTable
        simp only [List.getD_eq_getElem?_getD]
        rw [List.getElem?_eq_none (by simp; omega)]
        rfl
      rw [this]; rfl
  simp only [this]
  simp [isStop]

theorem commentLoop_noneOk : ∀ (f : Nat) (ch : Option Char) (s : LState),
    NoneOk (commentLoop f ch s).1 (commentLoop f ch s).2
  | 0, _, s => by simp only [commentLoop]; intro _; exact endOk_setOof s
  | f + 1, ch, s => by
    unfold commentLoop
    split
    · intro _; exact endOk_setErr s
    · simp only []
      split
      · exact noneOk_next _
      · exact commentLoop_noneOk f _ _

theorem skipWs_noneOk : ∀ (f : Nat) (ch : Option Char) (s : LState), NoneOk ch s →
    NoneOk (skipWs f ch s).1 (skipWs f ch s).2
  | 0, ch, s, _ => by simp only [skipWs]; intro _; exact endOk_setOof s
  | f + 1, ch, s, h => by
    unfold skipWs
    split
    · split
      · simp only []
        exact skipWs_noneOk f _ _ (noneOk_next s)
      · intro hh; simp at hh
    · exact h


theorem scanIdent_stop (o : Oracles) (c : Char) (s : LState) :
    (scanIdent o c s).tok = .stop → EndOk (scanIdent o c s).st := by
  unfold scanIdent
  simp only []
  repeat' split
  all_goals first
    | (intro _; apply Or.inl; assumption)
    | (intro h
       simp only [] at h
       have hh : ∀ t, identToken o t = .stop → False := by
         intro t ht
         have := identToken_notStop o t
         rw [ht] at this
         exact absurd this (by decide)
       exact absurd h (fun h' => hh _ h'))

theorem stringLoop_stop (ret : Tok) (hret : isStop ret = false) :
    ∀ (f : Nat) (ch : Option Char) (buf : List Char) (s : LState),
      (stringLoop f ret ch buf s).tok = .stop → EndOk (stringLoop f ret ch buf s).st
  | 0, _, _, s => by simp only [stringLoop]; intro _; exact endOk_setOof s
  | f + 1, ch, buf, s => by
    unfold stringLoop
    split
    · intro _; exact endOk_setErr s
    · split
      · simp only []
        intro h; rw [h] at hret; exact absurd hret (by decide)
      · split
        · intro _; exact endOk_setErr s
        · split
          · exact stringLoop_stop ret hret f _ _ _
          · exact stringLoop_stop ret hret f _ _ _

theorem scanString_stop (ret : Tok) (hret : isStop ret = false) (s : LState)
    (h : (scanString ret s).tok = .stop) : EndOk (scanString ret s).st := by
  unfold scanString at h ⊢
  exact stringLoop_stop ret hret _ _ _ _ h

theorem scanVariable_stop (o : Oracles) (s : LState) (h : (scanVariable o s).tok = .stop) :
    EndOk (scanVariable o s).st := by
  unfold scanVariable at h ⊢
  simp only [] at h ⊢
  split
  · rename_i hq
    rw [if_pos hq] at h
    exact scanString_stop .variable rfl _ h
  · rename_i hq
    rw [if_neg hq] at h
    split
    · rename_i hv; rw [if_pos hv] at h; simp at h
    · rename_i hv; rw [if_neg hv] at h; simp at h

theorem scanOperator_notStop (c : Char) (s : LState) : isStop (scanOperator c s).tok = false := by
  unfold scanOperator
  simp only []
  repeat' split
  all_goals first
    | rfl
    | exact tokOfRune_notStop c

theorem numFinish_stop (o : Oracles) (tok : Tok) (ht : isStop tok = false) (ch : Option Char) (digSep : Nat)
    (inv : Option Char) (acc : List Char) (s : LState) :
    (numFinish o tok ch digSep inv acc s).tok = .stop →
      (numFinish o tok ch digSep inv acc s).st.err = true := by
  unfold numFinish numErr
  repeat' split
  all_goals first
    | (intro _; rfl)
    | (intro h; simp only [] at h; rw [h] at ht; exact absurd ht (by decide))

theorem expPart_stop (o : Oracles) (pp : Bool) (tok1 : Tok) (ht : isStop tok1 = false) (ch1 : Option Char)
    (digSep1 : Nat) (inv1 : Option Char) (acc1 : List Char) (s1 : LState) :
    (expPart o pp tok1 ch1 digSep1 inv1 acc1 s1).tok = .stop →
      (expPart o pp tok1 ch1 digSep1 inv1 acc1 s1).st.err = true := by
  unfold expPart numErr
  simp only []
  repeat' split
  all_goals first
    | (intro _; rfl)
    | exact numFinish_stop o _ rfl _ _ _ _ _
    | exact numFinish_stop o _ ht _ _ _ _ _

theorem fracPart_tok (tok0 : Tok) (ht : isStop tok0 = false) (seenDot : Bool) (base : Nat) (ch : Option Char)
    (digSep : Nat) (inv : Option Char) (acc : List Char) (s : LState) :
    isStop (fracPart tok0 seenDot base ch digSep inv acc s).1 = false := by
  unfold fracPart
  split
  · rfl
  · exact ht

theorem scanNumberTail_stop (o : Oracles) (tok0 : Tok) (ht : isStop tok0 = false) (seenDot : Bool) (base : Nat)
    (pp : Bool) (ch : Option Char) (digSep : Nat) (inv : Option Char) (acc : List Char) (s : LState) :
    (scanNumberTail o tok0 seenDot base pp ch digSep inv acc s).tok = .stop →
      (scanNumberTail o tok0 seenDot base pp ch digSep inv acc s).st.err = true := by
  unfold scanNumberTail
  simp only []
  exact expPart_stop o _ _ (fracPart_tok tok0 ht _ _ _ _ _ _ _) _ _ _ _ _

theorem scanNumberBody_stop (o : Oracles) (base : Nat) (pp : Bool) (d0 : Nat) (ch : Option Char)
    (acc1 : List Char) (s1 : LState) :
    (scanNumberBody o base pp d0 ch acc1 s1).tok = .stop →
      (scanNumberBody o base pp d0 ch acc1 s1).st.err = true := by
  unfold scanNumberBody numErr
  simp only []
  repeat' split
  all_goals first
    | (intro _; rfl)
    | (intro h; simp at h; done)
    | exact scanNumberTail_stop o _ rfl _ _ _ _ _ _ _ _

theorem scanNumber_stop (o : Oracles) (c : Char) (seenDot : Bool) (acc : List Char) (s : LState) :
    (scanNumber o c seenDot acc s).tok = .stop → (scanNumber o c seenDot acc s).st.err = true := by
  unfold scanNumber numErr
  repeat' split
  all_goals first
    | (intro _; rfl)
    | exact scanNumberTail_stop o _ rfl _ _ _ _ _ _ _ _
    | exact scanNumberBody_stop o _ _ _ _ _ _

theorem lexFrom_stop (o : Oracles) : ∀ (f : Nat) (ch : Option Char) (s : LState), NoneOk ch s →
    (lexFrom o f ch s).tok = .stop → EndOk (lexFrom o f ch s).st
  | 0, _, s, _ => by simp only [lexFrom]; intro _; exact endOk_setOof s
  | f + 1, ch0, s0, h0 => by
    unfold lexFrom
    simp only
    have hws := skipWs_noneOk (s0.rest.length + 3) ch0 s0 h0
    split
    · rename_i hnone
      intro _
      exact hws hnone
    · rename_i c hsk
      split
      · exact scanIdent_stop o c _
      · split
        · intro h; exact Or.inl (scanNumber_stop o c _ _ _ h)
        · split
          · exact scanString_stop _ rfl _
          · split
            · exact scanVariable_stop o _
            · split
              · split
                · exact lexFrom_stop o f _ _ (commentLoop_noneOk _ _ _)
                · intro h; simp at h
              · split
                · split
                  · split
                    · intro h; exact Or.inl (scanNumber_stop o _ _ _ _ h)
                    · intro h; simp at h
                  · intro h; simp at h
                · split
                  · intro _; exact endOk_setErr _
                  · intro h
                    have := scanOperator_notStop c (skipWs (s0.rest.length + 3) ch0 s0).2
                    rw [h] at this
                    exact absurd this (by decide)

/-- `Lex` answers `stopTok` only after an error, or at the end of the source -/
theorem lex_stop (o : Oracles) (s : LState) (h : (lex o s).1 = .stop) : EndOk (lex o s).2.2 := by
  unfold lex at h ⊢
  simp only [] at h ⊢
  have hn : NoneOk (match s.ch with | some c => (some c, s) | none => next s).1
      (match s.ch with | some c => (some c, s) | none => next s).2 := by
    split
    · intro hh; simp at hh
    · exact noneOk_next s
  have := lexFrom_stop o _ _ _ hn h
  rcases this with h1 | h1 | h1
  · exact Or.inl h1
  · exact Or.inr (Or.inl h1)
  · exact Or.inr (Or.inr h1)


/-! ## §9 `Parse` never panics, and never accepts NUL or invalid UTF-8 -/

def TokOk (t : Tok × List Char) : Prop := (t.1 = .int ∨ t.1 = .numeric) → NumHead t.2

/-- invariant of the parser state relative to the decoded source `L`: a cached look-ahead token is
    never `stopTok` and, when it is a number, starts with a digit or a dot; the lexer state
    satisfies `Track L` -/
def PSInv (L : List Src) (s : PS) : Prop :=
  (∀ t, s.la = some t → TokOk t ∧ t.1 ≠ .stop) ∧ Track (srcInv L) s.lx

/-- partial correctness "never panics, and establishes `Q`" over states satisfying `PSInv L` -/
def SafeL {α : Type} (L : List Src) (Q : α → Prop) (m : P α) : Prop :=
  ∀ s, PSInv L s → match m s with
    | .ok a s' => Q a ∧ PSInv L s'
    | .panic => False
    | _ => True

section
variable {L : List Src}

local notation "Safe" => SafeL L

theorem safe_pure {α : Type} {Q : α → Prop} {a : α} (h : Q a) : Safe Q (pure a : P α) := by
  intro s hs; exact ⟨h, hs⟩

theorem safe_bind {α β : Type} {Q : α → Prop} {R : β → Prop} {m : P α} {f : α → P β}
    (hm : Safe Q m) (hf : ∀ a, Q a → Safe R (f a)) : Safe R (m >>= f) := by
  intro s hs
  have h1 := hm s hs
  rw [bind_apply]
  cases hms : m s with
  | ok a s' =>
    rw [hms] at h1
    exact hf a h1.1 s' h1.2
  | syn => trivial
  | panic => rw [hms] at h1; exact h1
  | fuel => trivial

theorem safe_mono {α : Type} {Q Q' : α → Prop} {m : P α} (hm : Safe Q m) (h : ∀ a, Q a → Q' a) :
    Safe Q' m := by
  intro s hs
  have h1 := hm s hs
  cases hms : m s with
  | ok a s' => rw [hms] at h1; exact ⟨h a h1.1, h1.2⟩
  | syn => trivial
  | panic => rw [hms] at h1; exact h1
  | fuel => trivial

theorem safe_syn {α : Type} {Q : α → Prop} : Safe Q (syn : P α) := by intro s _; trivial
theorem safe_outOfFuel {α : Type} {Q : α → Prop} : Safe Q (outOfFuel : P α) := by intro s _; trivial

theorem safe_consume : Safe (fun _ => True) consume := by
  intro s hs
  refine ⟨trivial, ?_, hs.2⟩
  intro t ht; simp at ht

theorem safe_recordError : Safe (fun _ => True) recordError := by
  intro s hs
  exact ⟨trivial, fun t ht => hs.1 t ht, track_setErr hs.2⟩

theorem safe_hasError : Safe (fun _ => True) hasError := by
  intro s hs; exact ⟨trivial, hs⟩



/-- a literal on which `NewUnaryOrNumber` can be applied any number of times: `r` or `-r` for a
    text `r` that starts with a digit or a dot and that `strconv` accepts with and without sign -/
def IsNumLit (P : List Char → Bool) (lit : List Char) : Prop :=
  ∃ r, (lit = r ∨ lit = '-' :: r) ∧ NumHead r ∧ P r = true ∧ P ('-' :: r) = true

def intOk (l : List Char) : Bool := (parseInt0 l).isSome
def numOk (l : List Char) : Bool := (parseFloatFinite l).isSome

theorem numHead_negLit {r : List Char} (h : NumHead r) : negLit r = '-' :: r := by
  obtain ⟨c, cs, hr, h1, _, _⟩ := numHead_not_sign h
  subst hr
  unfold negLit
  split
  · rename_i heq; injection heq with a b; exact absurd a h1
  · rfl

theorem isNumLit_neg {P : List Char → Bool} {lit : List Char} (h : IsNumLit P lit) :
    IsNumLit P (negLit lit) ∧ P (negLit lit) = true := by
  obtain ⟨r, hl, hr, p1, p2⟩ := h
  rcases hl with hl | hl
  · subst hl
    rw [numHead_negLit hr]
    exact ⟨⟨lit, Or.inr rfl, hr, p1, p2⟩, p2⟩
  · subst hl
    exact ⟨⟨r, Or.inl rfl, hr, p1, p2⟩, p1⟩

/-- the invariant of every `expr` / `predicate` value: a number node without `next` carries a
    literal that can be negated -/
def EVInv (v : EV) : Prop :=
  v.node.next = none →
    (∀ i nx, v.node = .integer i nx → IsNumLit intOk v.lit) ∧
    (∀ f nx, v.node = .numeric f nx → IsNumLit numOk v.lit)

theorem evInv_of_other {v : EV} (h1 : ∀ i nx, v.node ≠ .integer i nx) (h2 : ∀ f nx, v.node ≠ .numeric f nx) :
    EVInv v := by
  intro _
  exact ⟨fun i nx h => absurd h (h1 i nx), fun f nx h => absurd h (h2 f nx)⟩

section
variable (o : Oracles)

theorem safe_peek : Safe TokOk (peek o) := by
  intro s hs
  unfold peek
  cases hla : s.la with
  | some t =>
    simp only
    exact ⟨(hs.1 t hla).1, hs⟩
  | none =>
    simp only
    have htr : Track (srcInv L) (lex o s.lx).2.2 := track_lex o s.lx hs.2
    by_cases hoof : (lex o s.lx).2.2.oof = true
    · simp only [hoof, if_true]
    · simp only [hoof, if_false, Bool.false_eq_true]
      by_cases hstop : (lex o s.lx).1 = Tok.stop
      · simp only [hstop, if_true]
        refine ⟨fun h => ?_, ?_, htr⟩
        · rcases h with h | h <;> simp at h
        · intro t ht; simp [hla] at ht
      · simp only [hstop, if_false]
        have hnum : TokOk ((lex o s.lx).1, (lex o s.lx).2.1) := by
          intro h
          apply lex_num
          simp only [isNum, Bool.or_eq_true, decide_eq_true_eq]
          exact h
        refine ⟨hnum, ?_, htr⟩
        intro t ht
        simp at ht
        rw [← ht]; exact ⟨hnum, hstop⟩

theorem safe_expect (t : Tok) : Safe (fun _ => True) (expect o t) := by
  unfold expect
  apply safe_bind (safe_peek o)
  intro a _
  simp only
  split
  · exact safe_consume
  · exact safe_syn

theorem safe_astNewInteger (lit : List Char) (h : IsNumLit intOk lit) (hp : intOk lit = true) :
    Safe EVInv (astNewInteger lit) := by
  unfold astNewInteger
  unfold intOk at hp
  split
  · apply safe_pure
    intro _
    exact ⟨fun _ _ _ => h, fun f nx hh => by simp at hh⟩
  · rename_i hn; rw [hn] at hp; simp at hp

theorem safe_astNewNumeric (lit : List Char) (h : IsNumLit numOk lit) (hp : numOk lit = true) :
    Safe EVInv (astNewNumeric lit) := by
  unfold astNewNumeric
  unfold numOk at hp
  split
  · apply safe_pure
    intro _
    exact ⟨fun i nx hh => by simp at hh, fun _ _ _ => h⟩
  · rename_i hn; rw [hn] at hp; simp at hp

theorem safe_newInteger (lit : List Char) (h : NumHead lit) : Safe EVInv (newInteger lit) := by
  unfold newInteger
  split
  · rename_i v hv
    apply safe_pure
    intro _
    have hp : intOk lit = true := by simp [intOk, hv]
    refine ⟨fun _ _ _ => ⟨lit, Or.inl rfl, h, hp, ?_⟩, fun f nx hh => by simp at hh⟩
    exact parseInt0_neg h hp
  · apply safe_bind safe_recordError
    intro _ _
    apply safe_pure
    exact evInv_of_other (by intro i nx h; simp at h) (by intro f nx h; simp at h)

theorem safe_newNumeric (lit : List Char) (h : NumHead lit) : Safe EVInv (newNumeric lit) := by
  unfold newNumeric
  split
  · rename_i v hv
    apply safe_pure
    intro _
    have hp : numOk lit = true := by simp [numOk, hv]
    refine ⟨fun i nx hh => by simp at hh, fun _ _ _ => ⟨lit, Or.inl rfl, h, hp, ?_⟩⟩
    exact parseFloatFinite_neg h hp
  · apply safe_bind safe_recordError
    intro _ _
    apply safe_pure
    exact evInv_of_other (by intro i nx h; simp at h) (by intro f nx h; simp at h)

theorem safe_newUnaryOrNumber (op : UnOp) (v : EV) (hv : EVInv v) : Safe EVInv (newUnaryOrNumber op v) := by
  unfold newUnaryOrNumber
  split
  · rename_i hnx
    have hnx' : v.node.next = none := by simpa using hnx
    have ⟨hi, hf⟩ := hv hnx'
    split
    · rename_i f nx hnode
      split
      · exact safe_pure hv
      · have := isNumLit_neg (hf f nx hnode)
        exact safe_astNewNumeric _ this.1 this.2
    · rename_i i nx hnode
      split
      · exact safe_pure hv
      · have := isNumLit_neg (hi i nx hnode)
        exact safe_astNewInteger _ this.1 this.2
    · apply safe_pure
      exact evInv_of_other (by intro i nx h; simp at h) (by intro f nx h; simp at h)
  · apply safe_pure
    exact evInv_of_other (by intro i nx h; simp at h) (by intro f nx h; simp at h)


theorem appendEnd_next_some (n t : Node) : (appendEnd n (some t)).next ≠ none := by
  cases n <;> rename_i nx <;> cases nx <;> simp [appendEnd, Node.next]

theorem evInv_linkNodes (head : EV) (ops : List Node) (h : EVInv head) : EVInv (linkNodes head ops) := by
  unfold linkNodes
  cases ops with
  | nil => exact h
  | cons op rest =>
    intro hnx
    simp only [chainOf] at hnx
    exact absurd hnx (appendEnd_next_some _ _)

theorem evInv_binary (op : BinOp) (l r : EV) : EVInv (binary op l r) :=
  evInv_of_other (by intro i nx h; simp [binary] at h) (by intro f nx h; simp [binary] at h)

theorem evInv_unary (op : UnOp) (x : EV) : EVInv (unary op x) :=
  evInv_of_other (by intro i nx h; simp [unary] at h) (by intro f nx h; simp [unary] at h)

theorem safe_mkRegex (v : EV) (hv : EVInv v) (pat fl : List Char) : Safe EVInv (mkRegex o v pat fl) := by
  unfold mkRegex
  simp only
  split
  · apply safe_pure
    exact evInv_of_other (by intro i nx h; simp at h) (by intro f nx h; simp at h)
  · apply safe_bind safe_recordError
    intro _ _
    exact safe_pure hv

theorem safe_anyLevelOf (lit : List Char) : Safe (fun _ => True) (anyLevelOf lit) := by
  unfold anyLevelOf
  split
  · exact safe_pure trivial
  · apply safe_bind safe_recordError
    intro _ _
    exact safe_pure trivial

theorem safe_anyLevel : Safe (fun _ => True) (anyLevel o) := by
  unfold anyLevel
  apply safe_bind (safe_peek o)
  intro a _
  simp only
  split
  · apply safe_bind safe_consume
    intro _ _
    apply safe_bind (safe_anyLevelOf _)
    intro _ _
    exact safe_pure trivial
  · split
    · apply safe_bind safe_consume
      intro _ _
      exact safe_pure trivial
    · exact safe_syn

theorem safe_csvElem (t : Tok × List Char) (ht : TokOk t) : Safe (fun _ => True) (csvElem o t) := by
  obtain ⟨k, txt⟩ := t
  unfold csvElem
  simp only
  split
  · rename_i hk
    apply safe_bind safe_consume
    intro _ _
    apply safe_bind (safe_newInteger txt (ht (Or.inl hk)))
    intro _ _
    exact safe_pure trivial
  · apply safe_bind safe_consume
    intro _ _
    apply safe_bind (safe_peek o)
    intro a ha
    obtain ⟨t2, txt2⟩ := a
    simp only
    split
    · exact safe_syn
    · rename_i hk2
      apply safe_bind safe_consume
      intro _ _
      apply safe_bind (safe_newInteger txt2 (ha (Or.inl (by simpa using hk2))))
      intro v hv
      apply safe_bind (safe_newUnaryOrNumber _ v hv)
      intro _ _
      exact safe_pure trivial


def PrimInv : PrimR → Prop
  | .pred v => EVInv v
  | .expr v => EVInv v

def AtomInv : AtomR → Prop
  | .pred v => EVInv v
  | .expr v _ => EVInv v

/-- every function of the parser at fuel `f` is safe -/
structure AllSafe (f : Nat) : Prop where
  unaryT : ∀ t, TokOk t → Safe EVInv (parseUnaryT o f t)
  unary : Safe EVInv (parseUnary o f)
  scalar : ∀ t, TokOk t → Safe EVInv (parseScalar o f t)
  accLoop : ∀ head ops, EVInv head → Safe EVInv (accessorLoop o f head ops)
  paren : ∀ ctx, Safe PrimInv (parenTail o f ctx)
  atom : ∀ ctx, Safe AtomInv (parseAtom o f ctx)
  exists_ : Safe EVInv (existsTail o f)
  exprT : ∀ ctx v, EVInv v → Safe AtomInv (exprTail o f ctx v)
  arith : ∀ v, EVInv v → Safe (fun p => EVInv p.1) (arithLoop o f v)
  mul : ∀ v, EVInv v → Safe EVInv (mulLoop o f v)
  pred : ∀ v, EVInv v → Safe (fun p => EVInv p.1) (predLoop o f v)
  or_ : ∀ v, EVInv v → Safe EVInv (orLoop o f v)
  accOp : ∀ t, Safe (fun _ => True) (accessorOp o f t)
  index : ∀ t acc, TokOk t → Safe (fun _ => True) (indexList o f t acc)
  csv : Safe (fun _ => True) (csvList o f)
  csvM : ∀ acc, Safe (fun _ => True) (csvMore o f acc)

theorem allSafe_zero : AllSafe (L := L) o 0 := by
  constructor
  all_goals intros
  all_goals first
    | (simp only [parseUnaryT, parseUnary, parseScalar, accessorLoop, parenTail, parseAtom, existsTail, exprTail,
        arithLoop, mulLoop, predLoop, orLoop, accessorOp, indexList, csvList, csvMore]; exact safe_outOfFuel)

section step
variable {f : Nat} (ih : AllSafe (L := L) o f)
include ih

theorem step_unaryT (t : Tok × List Char) (ht : TokOk t) : Safe EVInv (parseUnaryT o (f + 1) t) := by
  obtain ⟨k, txt⟩ := t
  rw [parseUnaryT]
  split
  · apply safe_bind safe_consume; intro _ _
    apply safe_bind ih.unary; intro v hv
    exact safe_newUnaryOrNumber _ v hv
  · split
    · apply safe_bind safe_consume; intro _ _
      apply safe_bind ih.unary; intro v hv
      exact safe_newUnaryOrNumber _ v hv
    · split
      · apply safe_bind safe_consume; intro _ _
        apply safe_bind (ih.paren _); intro r hr
        cases r with
        | pred v => exact safe_syn
        | expr v => exact safe_pure hr
      · exact ih.scalar _ ht

theorem step_unary : Safe EVInv (parseUnary o (f + 1)) := by
  rw [parseUnary]
  apply safe_bind (safe_peek o); intro t ht
  exact ih.unaryT t ht


theorem step_scalar (t : Tok × List Char) (ht : TokOk t) : Safe EVInv (parseScalar o (f + 1) t) := by
  obtain ⟨k, txt⟩ := t
  unfold parseScalar
  have other : ∀ n : Node, (∀ i nx, n ≠ .integer i nx) → (∀ x nx, n ≠ .numeric x nx) →
      Safe EVInv (do consume; let h ← (pure { node := n } : P EV); accessorLoop o f h []) := by
    intro n h1 h2
    apply safe_bind safe_consume; intro _ _
    apply safe_bind (safe_pure (Q := EVInv) (evInv_of_other h1 h2)); intro h hh
    exact ih.accLoop h [] hh
  cases k
  all_goals first
    | exact safe_syn
    | (apply other <;> (intros; simp))
    | skip
  · apply safe_bind safe_consume; intro _ _
    apply safe_bind (safe_newNumeric txt (ht (Or.inr rfl))); intro h hh
    exact ih.accLoop h [] hh
  · apply safe_bind safe_consume; intro _ _
    apply safe_bind (safe_newInteger txt (ht (Or.inl rfl))); intro h hh
    exact ih.accLoop h [] hh

theorem step_accLoop (head : EV) (ops : List Node) (hh : EVInv head) :
    Safe EVInv (accessorLoop o (f + 1) head ops) := by
  rw [accessorLoop]
  apply safe_bind (safe_peek o); intro a _
  obtain ⟨t, txt⟩ := a
  simp only
  split
  · apply safe_bind (ih.accOp t); intro op _
    exact ih.accLoop head _ hh
  · exact safe_pure (evInv_linkNodes head ops hh)


theorem step_paren (ctx : Ctx) : Safe PrimInv (parenTail o (f + 1) ctx) := by
  unfold parenTail
  apply safe_bind (ih.atom ctx); intro a ha
  cases a with
  | expr v t =>
    simp only
    split
    · exact safe_syn
    · apply safe_bind safe_consume; intro _ _
      apply safe_bind (safe_peek o); intro p _
      obtain ⟨t2, txt2⟩ := p
      simp only
      split
      · apply safe_bind (ih.accOp t2); intro op _
        apply safe_bind (ih.accLoop v [op] ha); intro e he
        exact safe_pure he
      · exact safe_pure ha
  | pred v0 =>
    simp only
    apply safe_bind (ih.pred v0 ha); intro p hp
    obtain ⟨v, t⟩ := p
    simp only
    split
    · exact safe_syn
    · apply safe_bind safe_consume; intro _ _
      apply safe_bind (safe_peek o); intro q _
      obtain ⟨t2, txt2⟩ := q
      simp only
      split
      · apply safe_bind (ih.accOp t2); intro op _
        apply safe_bind (ih.accLoop v [op] hp); intro e he
        exact safe_pure he
      · split
        · exact safe_syn
        · split
          · apply safe_bind safe_consume; intro _ _
            apply safe_bind (safe_expect o _); intro _ _
            exact safe_pure (evInv_unary _ _)
          · exact safe_pure hp

theorem step_exists : Safe EVInv (existsTail o (f + 1)) := by
  unfold existsTail
  apply safe_bind (safe_expect o _); intro _ _
  apply safe_bind ih.unary; intro u hu
  apply safe_bind (ih.arith u hu); intro p _
  obtain ⟨e, t⟩ := p
  simp only
  split
  · exact safe_syn
  · apply safe_bind safe_consume; intro _ _
    exact safe_pure (evInv_unary _ _)

theorem step_atom (ctx : Ctx) : Safe AtomInv (parseAtom o (f + 1) ctx) := by
  unfold parseAtom
  apply safe_bind (safe_peek o); intro p hp
  obtain ⟨t, txt⟩ := p
  simp only
  split
  · apply safe_bind safe_consume; intro _ _
    apply safe_bind (safe_peek o); intro q _
    obtain ⟨t2, txt2⟩ := q
    simp only
    split
    · apply safe_bind safe_consume; intro _ _
      apply safe_bind ih.exists_; intro v _
      exact safe_pure (evInv_unary _ _)
    · split
      · apply safe_bind safe_consume; intro _ _
        apply safe_bind (ih.atom _); intro a ha
        cases a with
        | expr v t => exact safe_syn
        | pred v0 =>
          simp only
          apply safe_bind (ih.pred v0 ha); intro r _
          obtain ⟨v, t3⟩ := r
          simp only
          split
          · exact safe_syn
          · apply safe_bind safe_consume; intro _ _
            exact safe_pure (evInv_unary _ _)
      · exact safe_syn
  · split
    · apply safe_bind safe_consume; intro _ _
      apply safe_bind ih.exists_; intro v hv
      exact safe_pure hv
    · split
      · apply safe_bind safe_consume; intro _ _
        apply safe_bind (ih.paren _); intro r hr
        cases r with
        | pred v => exact safe_pure hr
        | expr v => exact ih.exprT ctx v hr
      · split
        · exact safe_syn
        · apply safe_bind (ih.unaryT (t, txt) hp); intro v hv
          exact ih.exprT ctx v hv


theorem step_exprT (ctx : Ctx) (v : EV) (hv : EVInv v) : Safe AtomInv (exprTail o (f + 1) ctx v) := by
  unfold exprTail
  apply safe_bind (ih.arith v hv); intro p hp
  obtain ⟨lhs, t⟩ := p
  simp only
  split
  · apply safe_bind safe_consume; intro _ _
    apply safe_bind ih.unary; intro u hu
    apply safe_bind (ih.arith u hu); intro q _
    obtain ⟨rhs, t'⟩ := q
    exact safe_pure (evInv_binary _ _ _)
  · split
    · apply safe_bind safe_consume; intro _ _
      apply safe_bind (safe_expect o _); intro _ _
      apply safe_bind (safe_peek o); intro q _
      obtain ⟨t2, txt2⟩ := q
      simp only
      split
      · apply safe_bind safe_consume; intro _ _
        exact safe_pure (evInv_binary _ _ _)
      · split
        · apply safe_bind safe_consume; intro _ _
          exact safe_pure (evInv_binary _ _ _)
        · exact safe_syn
    · split
      · apply safe_bind safe_consume; intro _ _
        apply safe_bind (safe_peek o); intro q _
        obtain ⟨t2, pat⟩ := q
        simp only
        split
        · exact safe_syn
        · apply safe_bind safe_consume; intro _ _
          apply safe_bind (safe_peek o); intro q3 _
          obtain ⟨t3, x3⟩ := q3
          simp only
          split
          · apply safe_bind safe_consume; intro _ _
            apply safe_bind (safe_peek o); intro q4 _
            obtain ⟨t4, fl⟩ := q4
            simp only
            split
            · exact safe_syn
            · apply safe_bind safe_consume; intro _ _
              apply safe_bind (safe_mkRegex o lhs hp pat fl); intro r hr
              exact safe_pure hr
          · apply safe_bind (safe_mkRegex o lhs hp pat []); intro r hr
            exact safe_pure hr
      · split
        · exact safe_syn
        · exact safe_pure hp

theorem step_arith (v : EV) (hv : EVInv v) : Safe (fun p => EVInv p.1) (arithLoop o (f + 1) v) := by
  unfold arithLoop
  apply safe_bind (safe_peek o); intro p _
  obtain ⟨t, txt⟩ := p
  simp only
  split
  · apply safe_bind safe_consume; intro _ _
    apply safe_bind ih.unary; intro u hu
    apply safe_bind (ih.mul u hu); intro rhs _
    exact ih.arith _ (evInv_binary _ _ _)
  · split
    · apply safe_bind safe_consume; intro _ _
      apply safe_bind ih.unary; intro u hu
      exact ih.arith _ (evInv_binary _ _ _)
    · exact safe_pure hv

theorem step_mul (v : EV) (hv : EVInv v) : Safe EVInv (mulLoop o (f + 1) v) := by
  unfold mulLoop
  apply safe_bind (safe_peek o); intro p _
  obtain ⟨t, txt⟩ := p
  simp only
  split
  · apply safe_bind safe_consume; intro _ _
    apply safe_bind ih.unary; intro u hu
    exact ih.mul _ (evInv_binary _ _ _)
  · exact safe_pure hv

theorem step_pred (v : EV) (hv : EVInv v) : Safe (fun p => EVInv p.1) (predLoop o (f + 1) v) := by
  unfold predLoop
  apply safe_bind (safe_peek o); intro p _
  obtain ⟨t, txt⟩ := p
  simp only
  split
  · apply safe_bind safe_consume; intro _ _
    apply safe_bind (ih.atom _); intro a ha
    cases a with
    | pred r => exact ih.pred _ (evInv_binary _ _ _)
    | expr _ _ => exact safe_syn
  · split
    · apply safe_bind safe_consume; intro _ _
      apply safe_bind (ih.atom _); intro a ha
      cases a with
      | pred r0 =>
        simp only
        apply safe_bind (ih.or_ r0 ha); intro r _
        exact ih.pred _ (evInv_binary _ _ _)
      | expr _ _ => exact safe_syn
    · exact safe_pure hv

theorem step_or (v : EV) (hv : EVInv v) : Safe EVInv (orLoop o (f + 1) v) := by
  unfold orLoop
  apply safe_bind (safe_peek o); intro p _
  obtain ⟨t, txt⟩ := p
  simp only
  split
  · apply safe_bind safe_consume; intro _ _
    apply safe_bind (ih.atom _); intro a ha
    cases a with
    | pred r2 => exact ih.or_ _ (evInv_binary _ _ _)
    | expr _ _ => exact safe_syn
  · exact safe_pure hv


theorem step_csvM (acc : List Node) : Safe (fun _ => True) (csvMore o (f + 1) acc) := by
  unfold csvMore
  apply safe_bind (safe_peek o); intro p _
  obtain ⟨t, txt⟩ := p
  simp only
  split
  · apply safe_bind safe_consume; intro _ _
    apply safe_bind (safe_peek o); intro q hq
    obtain ⟨t2, txt2⟩ := q
    simp only
    split
    · apply safe_bind (safe_csvElem o _ hq); intro e _
      exact ih.csvM _
    · exact safe_syn
  · exact safe_pure trivial

theorem step_csv : Safe (fun _ => True) (csvList o (f + 1)) := by
  unfold csvList
  apply safe_bind (safe_peek o); intro p hp
  obtain ⟨t, txt⟩ := p
  simp only
  split
  · apply safe_bind (safe_csvElem o _ hp); intro e _
    exact ih.csvM _
  · exact safe_pure trivial

theorem step_index (t : Tok × List Char) (acc : List Node) (ht : TokOk t) :
    Safe (fun _ => True) (indexList o (f + 1) t acc) := by
  unfold indexList
  apply safe_bind (ih.unaryT t ht); intro u hu
  apply safe_bind (ih.arith u hu); intro p _
  obtain ⟨e, t2⟩ := p
  simp only
  have hcont : ∀ elem : Node, Safe (fun _ => True)
      (do let __x ← peek o
          if __x.fst = Tok.comma then do
              consume
              let t4 ← peek o
              if t4.fst = Tok.stop then syn else indexList o f t4 (acc ++ [elem])
            else
              if __x.fst = Tok.rbrack then do
                consume
                pure (acc ++ [elem])
              else syn : P (List Node)) := by
    intro elem
    apply safe_bind (safe_peek o); intro q _
    split
    · apply safe_bind safe_consume; intro _ _
      apply safe_bind (safe_peek o); intro t4 ht4
      split
      · exact safe_syn
      · exact ih.index t4 _ ht4
    · split
      · apply safe_bind safe_consume; intro _ _
        exact safe_pure trivial
      · exact safe_syn
  split
  · apply safe_bind safe_consume; intro _ _
    apply safe_bind ih.unary; intro u2 hu2
    apply safe_bind (ih.arith u2 hu2); intro q _
    apply safe_bind (safe_pure (Q := fun _ => True) trivial); intro elem _
    exact hcont elem
  · apply safe_bind (safe_pure (Q := fun _ => True) trivial); intro elem _
    exact hcont elem


theorem step_accOp (t : Tok) : Safe (fun _ => True) (accessorOp o (f + 1) t) := by
  unfold accessorOp
  apply safe_bind safe_consume; intro _ _
  by_cases hq : t = Tok.question
  · rw [if_pos hq]
    -- filter
    apply safe_bind (safe_expect o _); intro _ _
    apply safe_bind (ih.atom _); intro a ha
    cases a with
    | expr _ _ => exact safe_syn
    | pred v0 =>
      simp only
      apply safe_bind (ih.pred v0 ha); intro p _
      obtain ⟨v, t2⟩ := p
      simp only
      split
      · exact safe_syn
      · apply safe_bind safe_consume; intro _ _
        exact safe_pure trivial
  · rw [if_neg hq]
    by_cases hb : t = Tok.lbrack
    · rw [if_pos hb]
      -- subscript
      apply safe_bind (safe_peek o); intro p hp
      obtain ⟨t2, txt2⟩ := p
      simp only
      split
      · apply safe_bind safe_consume; intro _ _
        apply safe_bind (safe_expect o _); intro _ _
        exact safe_pure trivial
      · split
        · exact safe_syn
        · apply safe_bind (ih.index _ _ hp); intro _ _
          exact safe_pure trivial
    · rw [if_neg hb]
      -- after '.'
      apply safe_bind (safe_peek o); intro p hp
      obtain ⟨k, txt⟩ := p
      simp only
      split
      · apply safe_bind safe_consume; intro _ _
        exact safe_pure trivial
      · split
        · -- .**
          apply safe_bind safe_consume; intro _ _
          apply safe_bind (safe_peek o); intro q _
          obtain ⟨t2, x2⟩ := q
          simp only
          split
          · apply safe_bind safe_consume; intro _ _
            apply safe_bind (safe_anyLevel o); intro a _
            apply safe_bind (safe_peek o); intro q3 _
            obtain ⟨t3, x3⟩ := q3
            simp only
            split
            · apply safe_bind safe_consume; intro _ _
              exact safe_pure trivial
            · split
              · apply safe_bind safe_consume; intro _ _
                apply safe_bind (safe_anyLevel o); intro b _
                apply safe_bind (safe_expect o _); intro _ _
                exact safe_pure trivial
              · exact safe_syn
          · exact safe_pure trivial
        · split
          · apply safe_bind safe_consume; intro _ _
            exact safe_pure trivial
          · split
            · -- method
              apply safe_bind safe_consume; intro _ _
              apply safe_bind (safe_peek o); intro q _
              obtain ⟨t2, x2⟩ := q
              simp only
              split
              · apply safe_bind safe_consume; intro _ _
                apply safe_bind (safe_expect o _); intro _ _
                exact safe_pure trivial
              · exact safe_pure trivial
            · split
              · -- decimal
                apply safe_bind safe_consume; intro _ _
                apply safe_bind (safe_peek o); intro q _
                obtain ⟨t2, x2⟩ := q
                simp only
                split
                · apply safe_bind safe_consume; intro _ _
                  apply safe_bind ih.csv; intro args _
                  apply safe_bind (safe_expect o _); intro _ _
                  split
                  · exact safe_pure trivial
                  · exact safe_pure trivial
                  · exact safe_pure trivial
                  · apply safe_bind safe_recordError; intro _ _
                    exact safe_pure trivial
                · exact safe_pure trivial
              · split
                · -- date
                  apply safe_bind safe_consume; intro _ _
                  apply safe_bind (safe_peek o); intro q _
                  obtain ⟨t2, x2⟩ := q
                  simp only
                  split
                  · apply safe_bind safe_consume; intro _ _
                    apply safe_bind (safe_expect o _); intro _ _
                    exact safe_pure trivial
                  · exact safe_pure trivial
                · split
                  · -- datetime
                    apply safe_bind safe_consume; intro _ _
                    apply safe_bind (safe_peek o); intro q _
                    obtain ⟨t2, x2⟩ := q
                    simp only
                    split
                    · apply safe_bind safe_consume; intro _ _
                      apply safe_bind (safe_peek o); intro q3 _
                      obtain ⟨t3, tpl⟩ := q3
                      simp only
                      split
                      · apply safe_bind safe_consume; intro _ _
                        apply safe_bind (safe_expect o _); intro _ _
                        exact safe_pure trivial
                      · apply safe_bind (safe_expect o _); intro _ _
                        exact safe_pure trivial
                    · exact safe_pure trivial
                  · split
                    · -- time, time_tz, timestamp, timestamp_tz
                      apply safe_bind safe_consume; intro _ _
                      apply safe_bind (safe_peek o); intro q _
                      obtain ⟨t2, x2⟩ := q
                      simp only
                      split
                      · apply safe_bind safe_consume; intro _ _
                        apply safe_bind (safe_peek o); intro q3 hq3
                        obtain ⟨t3, digs⟩ := q3
                        simp only
                        split
                        · rename_i h3
                          apply safe_bind safe_consume; intro _ _
                          apply safe_bind (safe_newInteger digs (hq3 (Or.inl h3))); intro pnode _
                          apply safe_bind (safe_expect o _); intro _ _
                          exact safe_pure trivial
                        · apply safe_bind (safe_expect o _); intro _ _
                          exact safe_pure trivial
                      · exact safe_pure trivial
                    · exact safe_syn

end step


theorem allSafe : ∀ f, AllSafe (L := L) o f
  | 0 => allSafe_zero o
  | f + 1 =>
    have ih := allSafe f
    { unaryT := step_unaryT o ih
      unary := step_unary o ih
      scalar := step_scalar o ih
      accLoop := step_accLoop o ih
      paren := step_paren o ih
      atom := step_atom o ih
      exists_ := step_exists o ih
      exprT := step_exprT o ih
      arith := step_arith o ih
      mul := step_mul o ih
      pred := step_pred o ih
      or_ := step_or o ih
      accOp := step_accOp o ih
      index := step_index o ih
      csv := step_csv o ih
      csvM := step_csvM o ih }

theorem safe_parseBody (f : Nat) : Safe (fun _ => True) (parseBody o f) := by
  have ih := allSafe (L := L) o f
  unfold parseBody
  apply safe_bind (safe_peek o); intro p _
  obtain ⟨t, txt⟩ := p
  simp only
  have hcont : ∀ lax : Bool, Safe (fun _ => True)
      (do let a ← parseAtom o f Ctx.top
          match a with
            | AtomR.expr v _ => pure (lax, false, v)
            | AtomR.pred v0 => do
              let __x ← predLoop o f v0
              pure (lax, true, __x.fst) : P (Bool × Bool × EV)) := by
    intro lax
    apply safe_bind (ih.atom _); intro a ha
    cases a with
    | expr v t2 => exact safe_pure trivial
    | pred v0 =>
      simp only
      apply safe_bind (ih.pred v0 ha); intro q _
      exact safe_pure trivial
  split
  · apply safe_bind safe_consume; intro _ _
    apply safe_bind (safe_pure (Q := fun _ => True) trivial); intro lax _
    exact hcont lax
  · split
    · apply safe_bind safe_consume; intro _ _
      apply safe_bind (safe_pure (Q := fun _ => True) trivial); intro lax _
      exact hcont lax
    · apply safe_bind (safe_pure (Q := fun _ => True) trivial); intro lax _
      exact hcont lax

theorem safe_finish (lax isPred : Bool) (root : EV) : Safe (fun _ => True) (finish o lax isPred root) := by
  unfold finish
  apply safe_bind safe_hasError; intro bad _
  have hcont : ∀ r : Option AST, Safe (fun _ => True)
      (do let __x ← peek o
          if __x.fst ≠ Tok.stop then syn else pure r : P (Option AST)) := by
    intro r
    apply safe_bind (safe_peek o); intro p _
    split
    · exact safe_syn
    · exact safe_pure trivial
  split
  · apply safe_bind (safe_pure (Q := fun _ => True) trivial); intro r _
    exact hcont r
  · split
    · apply safe_bind (safe_pure (Q := fun _ => True) trivial); intro r _
      exact hcont r
    · apply safe_bind safe_recordError; intro _ _
      apply safe_bind (safe_pure (Q := fun _ => True) trivial); intro r _
      exact hcont r

theorem safe_parseTop (f : Nat) : Safe (fun _ => True) (parseTop o f) := by
  unfold parseTop
  apply safe_bind (safe_parseBody o f); intro p _
  obtain ⟨lax, isPred, root⟩ := p
  exact safe_finish o lax isPred root

/-- **C04**: the model of `Parse` never panics — on any byte string, for any oracle. -/
theorem parse_never_panics (bytes : List UInt8) : parse o bytes ≠ .panic := by
  have h := safe_parseTop (L := decodeAll bytes) o (fuelFor bytes) { lx := LState.init bytes, la := none }
    ⟨by intro t ht; simp at ht, ⟨[], by simp [LState.init], by simp⟩⟩
  unfold parse Parse.run
  cases hr : parseTop o (fuelFor bytes) { lx := LState.init bytes, la := none } with
  | ok r s =>
    simp only
    split
    · simp
    · split <;> simp
  | syn => simp
  | panic => rw [hr] at h; exact absurd h id
  | fuel => simp

end

end

/-! ### Accepted inputs were read completely and contain neither NUL nor invalid UTF-8 -/

section
variable (o : Oracles)

/-- the accept state: the result is passed on only if the look-ahead there is `stopTok` -/
theorem finish_tail_peek (r : Option AST) (s s' : PS) (a : AST)
    (h : (do let result ← (pure r : P (Option AST))
             let __x ← peek o
             if __x.fst ≠ Tok.stop then syn else pure result) s = .ok (some a) s') :
    ∃ t, peek o s = .ok t s' ∧ t.1 = .stop := by
  simp only [bind_apply, pure_apply] at h
  cases hp : peek o s with
  | ok t s1 =>
    simp only [hp] at h
    by_cases ht : t.fst = Tok.stop
    · simp [ht, pure_apply] at h
      exact ⟨t, by rw [h.2], ht⟩
    · simp [ht, syn] at h
  | syn => simp [hp] at h
  | panic => simp [hp] at h
  | fuel => simp [hp] at h

theorem finish_some_peek (lax isPred : Bool) (root : EV) (s s' : PS) (a : AST)
    (h : finish o lax isPred root s = .ok (some a) s') :
    ∃ t, peek o s = .ok t s' ∧ t.1 = .stop := by
  unfold finish at h
  simp only [bind_apply, hasError] at h
  split at h
  · have := finish_tail_some o none s s' a h
    simp at this
  · split at h
    · exact finish_tail_peek o _ s s' a h
    · rw [bind_apply] at h
      simp only [recordError] at h
      have := finish_tail_some o none _ s' a h
      simp at this

/-- **an accepted input was read to its end, and none of it was an undecodable byte or NUL** -/
theorem parse_ok_clean (bytes : List UInt8) (a : AST) (h : parse o bytes = .ok a) :
    (decodeAll bytes).all cleanSrc = true := by
  obtain ⟨s, hrun, herr⟩ := parse_ok_no_error o bytes a h
  unfold Parse.run parseTop at hrun
  rw [bind_apply] at hrun
  have hsafe := safe_parseBody (L := decodeAll bytes) o (fuelFor bytes) { lx := LState.init bytes, la := none }
    ⟨by intro t ht; simp at ht, ⟨[], by simp [LState.init], by simp⟩⟩
  cases hb : parseBody o (fuelFor bytes) { lx := LState.init bytes, la := none } with
  | ok v s1 =>
    rw [hb] at hrun hsafe
    obtain ⟨lax, isPred, root⟩ := v
    simp only at hrun
    have hinv : PSInv (decodeAll bytes) s1 := hsafe.2
    obtain ⟨t, hpeek, hstop⟩ := finish_some_peek o lax isPred root s1 s a hrun
    -- the final look-ahead was lexed just then: a cached token is never `stopTok`
    unfold peek at hpeek
    cases hla : s1.la with
    | some t' =>
      simp only [hla] at hpeek
      injection hpeek with h1 h2
      subst h1
      exact absurd hstop (hinv.1 t' hla).2
    | none =>
      simp only [hla] at hpeek
      by_cases hoof : (lex o s1.lx).2.2.oof = true
      · simp [hoof] at hpeek
      · simp only [hoof, if_false, Bool.false_eq_true] at hpeek
        by_cases hs : (lex o s1.lx).1 = Tok.stop
        · simp only [hs, if_true] at hpeek
          injection hpeek with h1 h2
          have hlx : s.lx = (lex o s1.lx).2.2 := by rw [← h2]
          have hend := lex_stop o s1.lx hs
          have htr := track_lex (L := srcInv (decodeAll bytes)) o s1.lx hinv.2
          rw [← hlx] at hend htr
          rcases hend with he | he | he
          · rw [herr] at he; exact absurd he (by decide)
          · rw [hlx] at he; exact absurd he hoof
          · obtain ⟨pre, hL, hc⟩ := htr
            rw [he, List.append_nil] at hL
            rw [hL]
            cases hp : pre.all cleanSrc with
            | true => rfl
            | false => have := hc hp; rw [herr] at this; exact absurd this (by decide)
        · simp only [hs, if_false] at hpeek
          injection hpeek with h1 h2
          rw [← h1] at hstop
          exact absurd hstop hs
  | syn => rw [hb] at hrun; simp at hrun
  | panic => rw [hb] at hrun; simp at hrun
  | fuel => rw [hb] at hrun; simp at hrun


end

/-! ### byte level: a NUL byte always surfaces as a NUL rune -/

theorem decodeRune_cont (b : UInt8) (bs : List UInt8) :
    ∀ i, i + 1 < (decodeRune (b :: bs)).2 → ∃ x, bs[i]? = some x ∧ x.toNat ≠ 0 := by
  intro i hi
  unfold decodeRune at hi
  simp only at hi
  repeat' (split at hi)
  all_goals (try (simp at hi; done))
  all_goals
    simp only [isCont, Bool.and_eq_true, decide_eq_true_eq] at *
  all_goals first
    | (have : i = 0 := by omega
       subst this
       refine ⟨_, rfl, ?_⟩
       omega)
    | (have : i = 0 ∨ i = 1 := by omega
       rcases this with rfl | rfl
       · refine ⟨_, rfl, ?_⟩; omega
       · refine ⟨_, rfl, ?_⟩; omega)
    | (have : i = 0 ∨ i = 1 ∨ i = 2 := by omega
       rcases this with rfl | rfl | rfl
       · refine ⟨_, rfl, ?_⟩; omega
       · refine ⟨_, rfl, ?_⟩; omega
       · refine ⟨_, rfl, ?_⟩; omega)

theorem decodeRune_nul (bs : List UInt8) : decodeRune ((0 : UInt8) :: bs) = (.ch (Char.ofNat 0), 1) := by
  simp [decodeRune]

theorem decodeAllAux_nul : ∀ (bs : List UInt8) (skip : Nat),
    (∀ i, i < skip → ∃ x, bs[i]? = some x ∧ x.toNat ≠ 0) → (0 : UInt8) ∈ bs →
    ∃ y ∈ decodeAllAux skip bs, cleanSrc y = false
  | [], _, _, h0 => by simp at h0
  | b :: bs, 0, _, h0 => by
    unfold decodeAllAux
    simp only []
    by_cases hb : b = 0
    · subst hb
      rw [decodeRune_nul]
      exact ⟨_, List.mem_cons_self, by decide⟩
    · have hmem : (0 : UInt8) ∈ bs := by
        rcases List.mem_cons.mp h0 with h | h
        · exact absurd h.symm hb
        · exact h
      obtain ⟨y, hy, hc⟩ := decodeAllAux_nul bs ((decodeRune (b :: bs)).2 - 1)
        (fun i hi => decodeRune_cont b bs i (by omega)) hmem
      exact ⟨y, List.mem_cons_of_mem _ hy, hc⟩
  | b :: bs, k + 1, hskip, h0 => by
    unfold decodeAllAux
    obtain ⟨x, hx, hx0⟩ := hskip 0 (by omega)
    simp at hx
    subst hx
    have hmem : (0 : UInt8) ∈ bs := by
      rcases List.mem_cons.mp h0 with h | h
      · exfalso; apply hx0; rw [← h]; rfl
      · exact h
    exact decodeAllAux_nul bs k (fun i hi => by
      have := hskip (i + 1) (by omega)
      simpa using this) hmem

/-- **C04**: an input that contains a NUL byte is never accepted -/
theorem rejects_nul (o : Oracles) (bytes : List UInt8) (h0 : (0 : UInt8) ∈ bytes) (a : AST) :
    parse o bytes ≠ .ok a := by
  intro h
  have hc := parse_ok_clean o bytes a h
  obtain ⟨y, hy, hyc⟩ := decodeAllAux_nul bytes 0 (fun i hi => by omega) h0
  have := List.all_eq_true.mp hc y (by unfold decodeAll; exact hy)
  rw [hyc] at this
  exact absurd this (by decide)

/-- **C04**: an input with a byte sequence that `utf8.DecodeRune` rejects is never accepted -/
theorem rejects_invalid_utf8 (o : Oracles) (bytes : List UInt8) (hb : Src.bad ∈ decodeAll bytes) (a : AST) :
    parse o bytes ≠ .ok a := by
  intro h
  have hc := parse_ok_clean o bytes a h
  have := List.all_eq_true.mp hc _ hb
  simp [cleanSrc] at this


/-! ### Errors are final; no result means an error is on record -/

/-- `Lex` never clears the error flag -/
theorem lex_err_mono (o : Oracles) (s : LState) (h : s.err = true) : (lex o s).2.2.err = true :=
  track_lex (L := errInv) o s h

/-- `peek` never clears the error flag -/
theorem peek_err_mono (o : Oracles) (s : PS) (h : s.lx.err = true) (t : Tok × List Char) (s' : PS)
    (hp : peek o s = .ok t s') : s'.lx.err = true := by
  unfold peek at hp
  cases hla : s.la with
  | some t' =>
    simp only [hla] at hp
    injection hp with _ h2
    rw [← h2]; exact h
  | none =>
    simp only [hla] at hp
    have hm := lex_err_mono o s.lx h
    by_cases hoof : (lex o s.lx).2.2.oof = true
    · simp [hoof] at hp
    · simp only [hoof, if_false, Bool.false_eq_true] at hp
      by_cases hs : (lex o s.lx).1 = Tok.stop
      · simp only [hs, if_true] at hp
        injection hp with _ h2
        rw [← h2]; exact hm
      · simp only [hs, if_false] at hp
        injection hp with _ h2
        rw [← h2]; exact hm

/-- the accept state passes the result on and keeps a recorded error -/
theorem finish_tail_none_err (o : Oracles) (s s' : PS) (r : Option AST) (he : s.lx.err = true)
    (h : (do let result ← (pure none : P (Option AST))
             let __x ← peek o
             if __x.fst ≠ Tok.stop then syn else pure result) s = .ok r s') : s'.lx.err = true := by
  simp only [bind_apply, pure_apply] at h
  cases hp : peek o s with
  | ok t s1 =>
    simp only [hp] at h
    by_cases ht : t.fst = Tok.stop
    · simp [ht, pure_apply] at h
      rw [← h.2]
      exact peek_err_mono o s he t s1 hp
    · simp [ht, syn] at h
  | syn => simp [hp] at h
  | panic => simp [hp] at h
  | fuel => simp [hp] at h

/-- **C04, "never both nil"**: when `pathParse` ends without a result, an error is on record —
    so the model's answer `err` in that case is Go's `(nil, error)`, never `(nil, nil)` -/
theorem no_result_means_error (o : Oracles) (lax isPred : Bool) (root : EV) (s s' : PS)
    (h : finish o lax isPred root s = .ok none s') : s'.lx.err = true := by
  unfold finish at h
  simp only [bind_apply, hasError] at h
  split at h
  · rename_i hb
    exact finish_tail_none_err o s s' none hb h
  · split at h
    · -- the result was `some`: contradiction with `none`
      simp only [bind_apply, pure_apply] at h
      cases hp : peek o s with
      | ok t s1 =>
        simp only [hp] at h
        by_cases ht : t.fst = Tok.stop
        · simp [ht, pure_apply] at h
        · simp [ht, syn] at h
      | syn => simp [hp] at h
      | panic => simp [hp] at h
      | fuel => simp [hp] at h
    · rw [bind_apply] at h
      simp only [recordError] at h
      exact finish_tail_none_err o _ s' none rfl h

theorem run_none_error (o : Oracles) (bytes : List UInt8) (s : PS)
    (h : Parse.run o bytes = .ok none s) : s.lx.err = true := by
  unfold Parse.run parseTop at h
  rw [bind_apply] at h
  cases hb : parseBody o (fuelFor bytes) { lx := LState.init bytes, la := none } with
  | ok v s1 =>
    rw [hb] at h
    obtain ⟨lax, isPred, root⟩ := v
    exact no_result_means_error o lax isPred root s1 s h
  | syn => rw [hb] at h; simp at h
  | panic => rw [hb] at h; simp at h
  | fuel => rw [hb] at h; simp at h


/-! ## §10 Integer literals are read back

`lex_int`: a run of decimal digits (no leading zero) followed by a rune that does not continue a
number is `INT_P` with that text.  `lex_formatNat`: in particular the text the printer writes for
a non-negative integer (`Decimal.formatNat n = Nat.toDigits 10 n`). -/

theorem isDecimal_facts (d : Char) (h : isDecimal d = true) :
    d.toNat ≠ 0 ∧ d ≠ '_' ∧ d ≠ '.' ∧ isWhitespace d = false ∧ d ≠ '\\' ∧ ¬ (d.toNat ≥ 58) := by
  simp only [isDecimal, Bool.and_eq_true, decide_eq_true_eq] at h
  have a1 : 48 ≤ d.toNat := h.1
  have a2 : d.toNat ≤ 57 := h.2
  refine ⟨by omega, ?_, ?_, ?_, ?_, by omega⟩
  · intro hh; subst hh; revert a1 a2; decide
  · intro hh; subst hh; revert a1 a2; decide
  · unfold isWhitespace
    have : d ≠ '\t' ∧ d ≠ '\n' ∧ d ≠ '\r' ∧ d ≠ ' ' := by
      refine ⟨?_, ?_, ?_, ?_⟩ <;> (intro hh; subst hh; revert a1 a2; decide)
    simp [this.1, this.2.1, this.2.2.1, this.2.2.2]
  · intro hh; subst hh; revert a1 a2; decide

/-- the rune after a number literal does not continue it -/
structure EndsNumber (o : Oracles) (y : Option Char) : Prop where
  notDigit : isDecimalR y = false
  notSep : y ≠ some '_'
  notDot : y ≠ some '.'
  notExp : y.map lowerBit ≠ some 'e'
  notX : y.map lowerBit ≠ some 'x'
  notO : y.map lowerBit ≠ some 'o'
  notB : y.map lowerBit ≠ some 'b'
  notIdentL : isIdentStart o (y.map lowerBit) = false
  notIdent : isIdentStart o y = false

theorem digitsLoop_stop (hex : Bool) (maxCh f : Nat) (y : Option Char) (b : Nat) (inv : Option Char)
    (acc : List Char) (s : LState) (h1 : isDecimalR y = false) (h2 : y ≠ some '_') (hh : hex = false) :
    digitsLoop hex maxCh (f + 1) y b inv acc s = (y, b, inv, acc, s) := by
  subst hh
  unfold digitsLoop
  cases y with
  | none => rfl
  | some c =>
    have : c ≠ '_' := fun h => h2 (by rw [h])
    simp only [isDecimalR] at h1
    simp [this, h1]

/-- the digit loop (base ≤ 10, all digits below the base) reads a run of decimal digits -/
theorem digitsLoop_digits (st : LState) (tail : List Src) (y : Option Char) (s' : LState)
    (hfin : next (feed st [] tail) = (y, s')) (hy1 : isDecimalR y = false) (hy2 : y ≠ some '_') :
    ∀ (ds : List Char) (d : Char) (acc : List Char) (b f : Nat),
      (∀ c ∈ d :: ds, isDecimal c = true) → ds.length + 2 ≤ f →
      digitsLoop false 58 f (some d) b none acc (feed st ds tail)
        = (y, b ||| 1, none, ds.reverse ++ d :: acc, s') := by
  intro ds
  induction ds with
  | nil =>
    intro d acc b f hd hf
    obtain ⟨f1, rfl⟩ : ∃ f1, f = f1 + 2 := ⟨f - 2, by simp at hf; omega⟩
    have hdd := isDecimal_facts d (hd d (by simp))
    unfold digitsLoop
    simp only [hdd.2.1, if_false, hd d (by simp), Bool.false_eq_true, if_true, hfin]
    have : (!false && decide (d.toNat ≥ 58) && (none : Option Char).isNone) = false := by
      simp [hdd.2.2.2.2.2]
    simp only [this, Bool.false_eq_true, if_false]
    rw [digitsLoop_stop false 58 f1 y _ none _ s' hy1 hy2 rfl]
    simp
  | cons d' ds' ih =>
    intro d acc b f hd hf
    obtain ⟨f1, rfl⟩ : ∃ f1, f = f1 + 1 := ⟨f - 1, by simp at hf; omega⟩
    have hdd := isDecimal_facts d (hd d (by simp))
    have hd' := isDecimal_facts d' (hd d' (by simp))
    unfold digitsLoop
    simp only [hdd.2.1, if_false, hd d (by simp), Bool.false_eq_true, if_true]
    have : (!false && decide (d.toNat ≥ 58) && (none : Option Char).isNone) = false := by
      simp [hdd.2.2.2.2.2]
    simp only [this, Bool.false_eq_true, if_false]
    rw [next_feed_cons _ _ _ _ hd'.1]
    simp only []
    rw [ih d' (d :: acc) (b ||| 1) f1 (fun c hc => hd c (by simp at hc ⊢; rcases hc with h | h <;> simp [h]))
      (by simp at hf ⊢; omega)]
    simp [Nat.or_assoc]


theorem scanNumberTail_int (o : Oracles) (base : Nat) (y : Option Char) (hy : EndsNumber o y)
    (acc : List Char) (s : LState) :
    scanNumberTail o .int false base true y 1 none acc s = ⟨.int, acc.reverse, y, s⟩ := by
  unfold scanNumberTail fracPart expPart numFinish
  simp [hy.notExp, hy.notIdentL, hy.notIdent]

theorem scanNumberBody_int (o : Oracles) (st : LState) (tail : List Src) (y : Option Char) (s' : LState)
    (hfin : next (feed st [] tail) = (y, s')) (hy : EndsNumber o y)
    (d : Char) (ds : List Char) (hd : ∀ c ∈ d :: ds, isDecimal c = true) :
    scanNumberBody o 10 true 0 (some d) [] (feed st ds tail) = ⟨.int, d :: ds, y, s'⟩ := by
  have hdd := isDecimal_facts d (hd d (by simp))
  unfold scanNumberBody digits
  have hne : (some d = some '_') = False := by simp [hdd.2.1]
  simp only [hne, if_false]
  have hb : decide (10 > 10) = false := by decide
  rw [hb]
  rw [digitsLoop_digits st tail y s' hfin hy.notDigit hy.notSep ds d [] 0 _ hd
    (by simp only [feed, List.length_append, List.length_map]; omega)]
  simp only [Nat.zero_or]
  have h1 : ((1 : Nat) &&& 1 = 0) = False := by decide
  simp only [h1, if_false, hy.notDot]
  rw [scanNumberTail_int o 10 y hy]
  simp

theorem zeroPrefix_plain (o : Oracles) (s : LState) (y : Option Char) (s' : LState) (hfin : next s = (y, s'))
    (hy : EndsNumber o y) : zeroPrefix [] s = some (8, true, 1, y, ['0'], s') := by
  unfold zeroPrefix
  simp only [hfin]
  have h1 : (decide (Option.map lowerBit y = some 'x') || decide (Option.map lowerBit y = some 'o') ||
      decide (Option.map lowerBit y = some 'b')) = false := by
    simp [hy.notX, hy.notO, hy.notB]
  simp only [h1, Bool.false_eq_true, if_false]
  by_cases hdot : Option.map lowerBit y = some '.'
  · simp [hdot]
  · simp [hdot, hy.notSep, hy.notDigit]

theorem scanNumber_zero (o : Oracles) (s : LState) (y : Option Char) (s' : LState) (hfin : next s = (y, s'))
    (hy : EndsNumber o y) : scanNumber o '0' false [] s = ⟨.int, ['0'], y, s'⟩ := by
  unfold scanNumber
  simp only [Bool.false_eq_true, if_false, if_true]
  rw [zeroPrefix_plain o s y s' hfin hy]
  simp only
  unfold scanNumberBody digits
  have hne : (y = some '_') = False := by simp [hy.notSep]
  simp only [hne, if_false]
  have hb : decide (8 > 10) = false := by decide
  rw [hb, digitsLoop_stop false _ _ y 0 none _ s' hy.notDigit hy.notSep rfl]
  simp only [Nat.or_zero]
  have h1 : ((1 : Nat) &&& 1 = 0) = False := by decide
  simp only [h1, if_false, hy.notDot]
  rw [scanNumberTail_int o 8 y hy]
  simp


/-- **C03, integer literals**: a run of decimal digits without a leading zero (or the single digit
    `0`), followed by a rune that does not continue a number, is read as `INT_P` with exactly that
    text — whatever follows that rune. -/
theorem lex_int (o : Oracles) (d : Char) (ds : List Char) (hd : ∀ c ∈ d :: ds, isDecimal c = true)
    (hz : d = '0' → ds = []) (hx : o.xidStart d = false)
    (st : LState) (tail : List Src) (hch : st.ch = none) (hrest : st.rest = (d :: ds).map Src.ch ++ tail)
    (y : Option Char) (s' : LState) (hfin : next { st with rest := tail } = (y, s')) (hy : EndsNumber o y) :
    (Lex.lex o st).1 = .int ∧ (Lex.lex o st).2.1 = d :: ds := by
  obtain ⟨rest, ch, err, oof⟩ := st
  simp only at hch hrest
  subst hch
  have hdd := isDecimal_facts d (hd d (by simp))
  let st0 : LState := { rest := rest, ch := none, err := err, oof := oof }
  have hst : st0 = feed st0 (d :: ds) tail := by
    simp only [feed, st0, hrest]
  have hfin' : next (feed st0 [] tail) = (y, s') := by
    simpa [feed, st0] using hfin
  have hid : isIdentStart o (some d) = false := by
    simp [isIdentStart, hdd.2.1, hdd.2.2.2.2.1, hx]
  show (Lex.lex o st0).1 = .int ∧ (Lex.lex o st0).2.1 = d :: ds
  unfold Lex.lex
  have hnext : next st0 = (some d, feed st0 ds tail) := by
    rw [hst, next_feed_cons _ _ _ _ hdd.1]
    simp [feed]
  have hch0 : st0.ch = none := rfl
  simp only [hch0, hnext]
  unfold lexFrom
  rw [skipWs_nonws _ _ _ hdd.2.2.2.1]
  simp only [hid, Bool.false_eq_true, if_false, hd d (by simp), if_true]
  by_cases h0 : d = '0'
  · subst h0
    have := hz rfl
    subst this
    rw [scanNumber_zero o (feed st0 [] tail) y s' hfin' hy]
    simp
  · unfold scanNumber
    simp only [Bool.false_eq_true, if_false, h0]
    rw [scanNumberBody_int o st0 tail y s' hfin' hy d ds hd]
    simp


theorem isDecimal_of_isDigit (c : Char) (h : c.isDigit = true) : isDecimal c = true := by
  simp only [Char.isDigit, Bool.and_eq_true, decide_eq_true_eq] at h
  simp only [isDecimal, Bool.and_eq_true, decide_eq_true_eq]
  exact ⟨h.1, h.2⟩

theorem toDigits_head (n : Nat) (hn : 0 < n) : ∃ c cs, Nat.toDigits 10 n = c :: cs ∧ c ≠ '0' := by
  induction n using Nat.strongRecOn with
  | _ n ih =>
    by_cases hlt : n < 10
    · rw [Nat.toDigits_of_lt_base hlt]
      refine ⟨_, [], rfl, ?_⟩
      have : n = 1 ∨ n = 2 ∨ n = 3 ∨ n = 4 ∨ n = 5 ∨ n = 6 ∨ n = 7 ∨ n = 8 ∨ n = 9 := by omega
      rcases this with h | h | h | h | h | h | h | h | h <;> subst h <;> decide
    · have hq : 0 < n / 10 := by omega
      obtain ⟨c, cs, hc, hc0⟩ := ih (n / 10) (by omega) hq
      have happ := Nat.toDigits_append_toDigits (b := 10) (n := n / 10) (d := n % 10) (by decide) hq
        (Nat.mod_lt _ (by decide))
      have hn' : 10 * (n / 10) + n % 10 = n := by omega
      rw [hn'] at happ
      rw [← happ, hc]
      exact ⟨c, cs ++ Nat.toDigits 10 (n % 10), rfl, hc0⟩

/-- **C02/C03, integers**: the text `strconv.FormatInt(n, 10)` of a natural number, followed by a
    rune that does not continue a number, is read back as `INT_P` with that very text -/
theorem lex_formatNat (o : Oracles) (hx : ∀ c, isDecimal c = true → o.xidStart c = false) (n : Nat)
    (st : LState) (tail : List Src) (hch : st.ch = none)
    (hrest : st.rest = (Nat.toDigits 10 n).map Src.ch ++ tail)
    (y : Option Char) (s' : LState) (hfin : next { st with rest := tail } = (y, s')) (hy : EndsNumber o y) :
    (Lex.lex o st).1 = .int ∧ (Lex.lex o st).2.1 = Nat.toDigits 10 n := by
  have hall : ∀ c ∈ Nat.toDigits 10 n, isDecimal c = true := fun c hc =>
    isDecimal_of_isDigit c (Nat.isDigit_of_mem_toDigits (by decide) (by decide) hc)
  by_cases hn : n = 0
  · subst hn
    have h0 : Nat.toDigits 10 0 = ['0'] := by decide
    rw [h0] at hrest hall ⊢
    exact lex_int o '0' [] hall (fun _ => rfl) (hx '0' (by decide)) st tail hch hrest y s' hfin hy
  · obtain ⟨c, cs, hc, hc0⟩ := toDigits_head n (by omega)
    rw [hc] at hrest hall ⊢
    exact lex_int o c cs hall (fun h => absurd h hc0) (hx c (hall c (by simp))) st tail hch hrest y s' hfin hy


end ParseLemmas
end Sqljson
